import BumpVerif.Proofs.Frame
/-! # C03 — chunks are returned to the global allocator exactly once and never early

The ledger is computed from the *event log alone* (what the global allocator saw): a successful
`malloc` adds its block, a `free` erases the block with exactly that address, size and
alignment.  The invariant says the ledger always equals the arena's chunk list (newest first).
-/
namespace Bump.C03
open Bump Gen

abbrev Blk := Nat × Nat × Nat

def applyEv (held : List Blk) : Ev → List Blk
  | .malloc sz al (some a) => (a, sz, al) :: held
  | .malloc _ _ none => held
  | .free a sz al => held.erase (a, sz, al)

def ledger (init : List Blk) (evs : List Ev) : List Blk := evs.foldl applyEv init

def key (c : Chunk) : Blk := (c.data, c.size, c.align)

/-- the allocator's view agrees with the arena's: it holds exactly the arena's chunks -/
def Ledger (s : St) : Prop := ledger [] s.evs = s.a.chunks.map key

theorem ledger_append (init : List Blk) (a b : List Ev) : ledger init (a ++ b) = ledger (ledger init a) b := by
  simp [ledger, List.foldl_append]

theorem ledger_refused (init : List Blk) (refs : List Ev) (h : AllRefused refs) : ledger init refs = init := by
  induction refs generalizing init with
  | nil => rfl
  | cons e es ih =>
    obtain ⟨sz, al, he⟩ := h e List.mem_cons_self
    subst he
    simp only [ledger, List.foldl_cons, applyEv]
    exact ih init (fun x hx => h x (List.mem_cons_of_mem _ hx))

/-- Every allocation flavour keeps the ledger invariant; it never frees anything, and a failed
or refused request leaves the ledger unchanged. -/
theorem alloc_ledger {E sz al} (f : Bool) (s : St) (hE : EnvOK E) (h : ArenaWF E s.a) (hA : IsPow2 al)
    (hlay : sz + al ≤ 2 ^ 63) (hl : Ledger s) (hne : (allocMaybe E f sz al s).2 ≠ .envBad) :
    Ledger (allocMaybe E f sz al s).1 := by
  have sp := allocMaybe_spec f s hE h hA hlay
  unfold Ledger at *
  cases ho : (allocMaybe E f sz al s).2 with
  | ok p =>
    obtain ⟨_, _, _, _, hsh, refs, hr, hcase⟩ := sp.ok p ho
    rcases hcase with ⟨hev, hlen⟩ | ⟨c, hc, hev, _⟩
    · rw [hev, ledger_append, hl, ledger_refused _ _ hr]
      rcases hsh with ⟨_, ha, _, _⟩ | ⟨c0, cs, h0, h0', _, _⟩ | ⟨c1, hc1, _⟩
      · rw [ha]
      · rw [h0, h0']; simp [key]
      · rw [hc1] at hlen; simp at hlen
    · rw [hev, ledger_append, ledger_append, hl, ledger_refused _ _ hr, hc]
      simp [ledger, applyEv, key]
  | err =>
    obtain ⟨ha, refs, hr, hev⟩ := sp.fail (Or.inl ho)
    rw [hev, ledger_append, hl, ledger_refused _ _ hr, ha]
  | panic =>
    obtain ⟨ha, refs, hr, hev⟩ := sp.fail (Or.inr ho)
    rw [hev, ledger_append, hl, ledger_refused _ _ hr, ha]
  | bad w => exact absurd ho (sp.nobad w)
  | envBad => exact absurd ho hne

theorem erase_all_tail (k : Blk) (ks : List Blk) (hk : k ∉ ks) :
    ledger (k :: ks) (ks.map fun b => Ev.free b.1 b.2.1 b.2.2) = [k] := by
  induction ks with
  | nil => rfl
  | cons x xs ih =>
    have hx : k ≠ x := fun h => hk (h ▸ List.mem_cons_self)
    have hk' : k ∉ xs := fun h => hk (List.mem_cons_of_mem _ h)
    simp only [List.map_cons, ledger, List.foldl_cons, applyEv]
    have : (k :: x :: xs).erase (x.1, x.2.1, x.2.2) = k :: xs := by
      have hne : ((k : Blk) == (x.1, x.2.1, x.2.2)) = false := by
        simp only [beq_eq_false_iff_ne, ne_eq]; exact hx
      rw [List.erase_cons_tail (by simpa using hne)]
      simp
    rw [this]
    exact ih hk'

theorem erase_all (ks : List Blk) : ledger ks (ks.map fun b => Ev.free b.1 b.2.1 b.2.2) = [] := by
  induction ks with
  | nil => rfl
  | cons x xs ih =>
    simp only [List.map_cons, ledger, List.foldl_cons, applyEv]
    have : (x :: xs).erase (x.1, x.2.1, x.2.2) = xs := by simp
    rw [this]; exact ih

theorem freeEv_map (cs : List Chunk) :
    cs.map freeEv = (cs.map key).map fun b => Ev.free b.1 b.2.1 b.2.2 := by
  simp [freeEv, key, List.map_map, Function.comp_def]

/-- `reset` gives back exactly the chunks other than the newest one, each once, each with the
layout it was requested with; afterwards the allocator still holds exactly the kept chunk. -/
theorem reset_ledger {E} (s : St) (h : ArenaWF E s.a) (hl : Ledger s) : Ledger (reset s).1 := by
  obtain ⟨_, _, _, _, _, _, h7⟩ := reset_spec s h
  unfold Ledger at *
  rcases h7 with ⟨_, he⟩ | ⟨c, rest, hc, hch, hev⟩
  · rw [he]; exact hl
  · rw [hev, ledger_append, hl, hc, hch, freeEv_map]
    simp only [List.map_cons, List.map_nil]
    have hk : key c ∉ rest.map key := by
      intro hmem
      obtain ⟨d, hd, hkd⟩ := List.mem_map.mp hmem
      have hdis := h.disj; rw [hc] at hdis
      have hcd := (List.pairwise_cons.mp hdis).1 d hd
      have hw := h.chunks c (by rw [hc]; exact List.mem_cons_self)
      have hs := hw.size_ge
      simp only [key, Prod.mk.injEq] at hkd
      unfold Disj at hcd
      have := FS
      omega
    exact erase_all_tail (key c) (rest.map key) hk

/-- dropping the arena gives back every chunk exactly once; afterwards it holds no memory -/
theorem drop_ledger (s : St) (hl : Ledger s) : ledger [] (dropArena s).evs = [] ∧ (dropArena s).a.chunks = [] := by
  unfold Ledger at hl
  unfold dropArena
  simp only
  rw [ledger_append, hl, freeEv_map]
  exact ⟨erase_all _, trivial⟩

/-- the static empty chunk is never given to the allocator: every `free` names a held chunk,
and held chunks are disjoint from the static -/
theorem never_frees_static {E} (s : St) (h : ArenaWF E s.a) :
    ∀ e ∈ (s.a.chunks.map freeEv), ∀ sz al, e ≠ .free E sz al := by
  intro e he sz al heq
  obtain ⟨c, hc, hce⟩ := List.mem_map.mp he
  subst hce
  simp only [freeEv, Ev.free.injEq] at heq
  have := h.sdisj c hc
  have hs := (h.chunks c hc).size_ge
  unfold Disj at this
  have := FS
  omega

/-- `dealloc` (and hence `shrink`'s in-place path and rewinds) never talks to the allocator -/
theorem dealloc_silent {E p sz} (s : St) (hE : EnvOK E) (h : ArenaWF E s.a)
    (hblk : (s.a.cur E).ptr = p → p + sz ≤ (s.a.cur E).footer) : (dealloc E p sz s).1.evs = s.evs :=
  (dealloc_spec s hE h hblk).2.2.2.1

example : ledger [] [.malloc 496 16 (some 4096), .malloc 1008 16 none, .malloc 1008 16 (some 8192), .free 4096 496 16]
    = [(8192, 1008, 16)] := by decide

end Bump.C03

#print axioms Bump.C03.alloc_ledger
#print axioms Bump.C03.reset_ledger
#print axioms Bump.C03.drop_ledger
#print axioms Bump.C03.never_frees_static
#print axioms Bump.C03.dealloc_silent
