import BumpVerif.Props.GenFnFooter
import BumpVerif.Gen.FnNewChunk
/-! # The translated `Bump::new_chunk` of `src/lib.rs` equals the hand-written model -/
namespace Bump
open Rs Gen

theorem gen_new_chunk (E M : Nat) (d : Details) (reqSz reqAl : Nat) (prev : Chunk) (s : St)
    (hM : P2 M) (hd : d.size = d.nswf + FOOTER_SIZE) :
    simS (Gen.Fn.new_chunk E M d ⟨reqSz, reqAl⟩ prev s) (newChunk E s.a.chunks M d reqSz prev.ab s) := by
  simp only [Gen.Fn.new_chunk, newChunk, gen_layout_from_size_align, pureO, bindO]
  by_cases hv : validLayout d.size d.align = true
  case neg => simp [hv, reify, simS, Outcome.sim]
  simp only [hv, if_true, reify, Bool.not_true, Bool.false_eq_true, if_false]
  by_cases hs : d.size ≥ reqSz
  case neg =>
    have : d.size < reqSz := by omega
    simp [hs, this, simS, Outcome.sim]
  have hs' : ¬ d.size < reqSz := by omega
  simp only [hs, hs', decide_true, if_true, if_false, Rs.malloc]
  rcases hm : s.malloc d.size d.align with ⟨s1, _ | addr⟩
  · simp [nonNullNew, simS, Outcome.sim]
  simp only []
  by_cases hok : mallocOK E s.a.chunks d.size d.align addr = true
  case neg => simp [hok, simS, Outcome.sim]
  simp only [hok, Bool.not_true, Bool.false_eq_true, if_false]
  -- what the allocator contract gives
  have hmk := hok
  simp only [mallocOK, Bool.and_eq_true, decide_eq_true_eq] at hmk
  obtain ⟨⟨⟨⟨⟨h0, hal⟩, hsp⟩, _⟩, _⟩, _⟩ := hmk
  obtain ⟨hpal, _⟩ := validLayout_p2 hv
  have hnn : nonNullNew addr = some addr := by simp [nonNullNew, h0]
  simp only [hnn]
  have hadd : addr + d.nswf < USIZE := by unfold USIZE; omega
  have hal0 : d.align ≠ 0 := by have := hpal.exp; obtain ⟨k, _, _, hp⟩ := this; omega
  have hc0 : CHUNK_ALIGN ≠ 0 := by decide
  have hM0 : M ≠ 0 := by have := hM.exp; obtain ⟨k, _, _, hp⟩ := this; omega
  simp only [hadd, if_true, hal0, hal, hc0, ne_eq, not_false_eq_true, beq_self_eq_true, gen_round_mut_ptr_down_to _ _ hM, hM0]
  by_cases hfa : (addr + d.nswf) % CHUNK_ALIGN = 0
  case neg => simp [hfa, simS, Outcome.sim]
  simp only [hfa, beq_self_eq_true, if_true, not_true_eq_false, if_false]
  generalize hp : wsub (addr + d.nswf) ((addr + d.nswf) % M) = ptr
  have simS_bad : ∀ (w w' : String), simS ((s1, Outcome.bad w) : St × Outcome (Option Chunk)) (s1, Outcome.bad w') :=
    fun _ _ => ⟨rfl, trivial⟩
  by_cases h1 : ptr % M = 0
  case neg =>
    have hb : (ptr % M == 0) = false := by simpa using h1
    simp only [hb, Bool.false_eq_true, if_false, h1, ne_eq, not_false_eq_true, true_or, if_true]
    exact simS_bad _ _
  have hb1 : (ptr % M == 0) = true := by simpa using h1
  by_cases h2 : addr < ptr
  case neg =>
    simp only [hb1, if_true, h1, h2, decide_false, Bool.false_eq_true, if_false, ne_eq, not_true_eq_false, not_false_eq_true,
      true_or, false_or]
    exact simS_bad _ _
  have h2' : addr ≤ ptr := by omega
  by_cases h3 : ptr - addr = d.nswf
  case neg =>
    have hb3 : (ptr - addr == d.nswf) = false := by simpa using h3
    simp only [hb1, if_true, h1, h2, h2', hb3, h3, decide_true, Bool.false_eq_true, if_false, ne_eq, not_true_eq_false,
      not_false_eq_true, or_true, false_or]
    exact simS_bad _ _
  have hb3 : (ptr - addr == d.nswf) = true := by simpa using h3
  simp only [hb1, h1, h2, h3, hb3, h2', decide_true, if_true, ne_eq, not_true_eq_false, or_self, if_false]
  by_cases h4 : prev.ab + d.nswf < USIZE
  case neg =>
    have h4n : prev.ab + d.nswf ≥ USIZE := by omega
    simp only [h4, h4n, if_true, if_false, beq_self_eq_true]
    exact simS_bad _ _
  have h4' : ¬ prev.ab + d.nswf ≥ USIZE := by omega
  have hft : (Chunk.mk addr d.size d.align ptr (prev.ab + d.nswf)).footer = addr + d.nswf := by
    show addr + (d.size - FOOTER_SIZE) = addr + d.nswf
    rw [hd, Nat.add_sub_cancel]
  simp only [h4, h4', hft, if_true, if_false, beq_self_eq_true]
  exact simS_refl _

#print axioms gen_new_chunk
end Bump
