import BumpVerif.Model.Multi
import BumpVerif.Proofs.Rewind
import BumpVerif.Props.GenFacts
/-!
# C20 — arenas are isolated from each other, also across threads

What a proof about the model can carry: (1) an arena's transitions are a function of its own
state, its own operations and its own allocator answers — an arbitrary interleaving with
another arena's history changes nothing for it; (2) the one piece of state arenas share, the
static empty chunk, never changes *value*. (3) the code never *writes* to that static: all finger stores go through
`ChunkFooter::set_ptr`, whose guard the translator re-reads from the source on every run (before
the `fix:` commit for F8 zero-sized requests on a chunk-less arena stored the unchanged value: a
data race under the Rust memory model). What a proof about the model cannot exhibit is a race
itself; Miri runs on small multi-threaded programs are kept as support.
-/
namespace Bump.C20
open Bump Gen

/-- **Isolation.** For every interleaving of two arenas' histories, what arena 1 ends up with and
what its operations returned is exactly what it gets running its own history alone (same for
arena 2): results, placement, accounting, live blocks, allocator traffic. -/
theorem interleaving_isolated (E : Nat) : ∀ (ops : List (Bool × Op)) (t : Two),
    (run2 E ops t).1.y1 = (sysRun E (project false ops) t.y1).1 ∧
    (run2 E ops t).1.y2 = (sysRun E (project true ops) t.y2).1 ∧
    projectRes false (run2 E ops t).2 = (sysRun E (project false ops) t.y1).2 ∧
    projectRes true (run2 E ops t).2 = (sysRun E (project true ops) t.y2).2 := by
  intro ops
  induction ops with
  | nil => intro t; simp [run2, project, projectRes, sysRun]
  | cons x xs ih =>
    intro t
    obtain ⟨w, op⟩ := x
    cases w with
    | false =>
      obtain ⟨a1, a2, a3, a4⟩ := ih ({ t with y1 := (sysStep E op t.y1).1 })
      have hc : ∀ (l : List Op) (y : Sys), sysRun E (op :: l) y =
          ((sysRun E l (sysStep E op y).1).1, (sysStep E op y).2 :: (sysRun E l (sysStep E op y).1).2) := fun _ _ => rfl
      simp only [run2, step2, project, projectRes, List.filter_cons, Bool.false_eq_true, ↓reduceIte,
        beq_self_eq_true, List.map_cons, hc] at a1 a2 a3 a4 ⊢
      refine ⟨a1, ?_, ?_, ?_⟩
      · simpa using a2
      · simpa [project, projectRes] using a3
      · simpa [project, projectRes] using a4
    | true =>
      obtain ⟨a1, a2, a3, a4⟩ := ih ({ t with y2 := (sysStep E op t.y2).1 })
      have hc : ∀ (l : List Op) (y : Sys), sysRun E (op :: l) y =
          ((sysRun E l (sysStep E op y).1).1, (sysStep E op y).2 :: (sysRun E l (sysStep E op y).1).2) := fun _ _ => rfl
      simp only [run2, step2, project, projectRes, List.filter_cons, ↓reduceIte,
        beq_self_eq_true, List.map_cons, hc] at a1 a2 a3 a4 ⊢
      refine ⟨?_, a2, ?_, ?_⟩
      · simpa using a1
      · simpa [project, projectRes] using a3
      · simpa [project, projectRes] using a4

/-- The shared static never changes value: whenever a chunk-less arena "stores" its finger the
stored value is the static's own address and the arena is unchanged. -/
theorem static_value_invariant {E a p a'} (hn : a.chunks = []) (h : setCurPtr E a p = some a') : p = E ∧ a' = a := by
  unfold setCurPtr at h
  rw [hn] at h
  simp only at h
  split at h
  · rename_i hp; cases h; exact ⟨hp, rfl⟩
  · cases h

/-- **No shared write.** No operation of any arena writes to the static empty chunk: every finger
store goes through `ChunkFooter::set_ptr`, whose guard is re-read from the source on every run
(`GenFacts.static_store_guarded`). Hence distinct arenas on distinct threads share no written
memory (the race that Miri reported before the `fix:` commit is gone; Miri is still run on every
check as support). -/
theorem no_shared_write (E : Nat) (a : Arena) (sz al : Nat) : storesToStatic E a sz al = false := by
  unfold storesToStatic
  rw [GenFacts.static_store_guarded]
  rfl

/-- even without the guard, an arena that holds a chunk never touches the static -/
theorem no_shared_write_unguarded_partial (E : Nat) (a : Arena) (sz al : Nat) (h : a.chunks ≠ []) :
    storesToStaticUnguarded E a sz al = false := by
  unfold storesToStaticUnguarded
  cases hc : a.chunks with
  | nil => exact absurd hc h
  | cons c cs => simp

/-- …but a chunk-less arena did, for every zero-sized request (the defect F8, fixed): the
unguarded statement is false. Kept as the witness that the guard is what the theorem rests on. -/
theorem unguarded_counterexample : ∃ E a sz al, storesToStaticUnguarded E a sz al = true :=
  ⟨160, ⟨1, [], none⟩, 0, 1, by decide⟩

/-- the arena-side invariants hold for each arena of an interleaving separately (C01 per arena) -/
theorem interleaved_live {E} (hE : EnvOK E) (ops : List (Bool × Op)) (t : Two)
    (i1 : LiveInv E t.y1) (h1 : RunOKFull E (project false ops) t.y1) : LiveInv E (run2 E ops t).1.y1 := by
  rw [(interleaving_isolated E ops t).1]
  exact (sysRun_live_full hE _ _ i1 h1).1

example : (run2 160 [(false, .alloc 8 8 true), (true, .alloc 8 8 true), (false, .reset)]
    ⟨⟨{ a := ⟨1, [⟨4096, 560, 16, 4608, 512⟩], none⟩, ans := [] }, []⟩,
     ⟨{ a := ⟨8, [⟨8192, 560, 16, 8704, 512⟩], none⟩, ans := [] }, []⟩⟩).2.length = 3 := by decide

end Bump.C20

#print axioms Bump.C20.interleaving_isolated
#print axioms Bump.C20.static_value_invariant
#print axioms Bump.C20.no_shared_write
#print axioms Bump.C20.no_shared_write_unguarded_partial
#print axioms Bump.C20.unguarded_counterexample
#print axioms Bump.C20.interleaved_live
