import BumpVerif.Proofs.Frame
/-! # C19 — impossible sizes are refused, never wrapped (arena entry points) -/
namespace Bump.C19
open Bump Gen

/-- `Layout::array` refuses every element count whose total size (rounded up to the alignment)
does not fit `isize::MAX`, and otherwise reports the exact product. -/
theorem array_refuses (esz eal n : Nat) (heal : eal ≤ 2 ^ 63) :
    (arrayLayout esz eal n = none ↔ esz * n + eal > 2 ^ 63) ∧
    (∀ t, arrayLayout esz eal n = some t → t = esz * n ∧ t + eal ≤ 2 ^ 63) := by
  unfold arrayLayout
  by_cases hz : esz = 0
  · subst hz
    simp only [ne_eq, not_true_eq_false, false_and, ↓reduceIte, Nat.zero_mul]
    refine ⟨⟨fun h => (by cases h), fun h => (by omega)⟩, ?_⟩
    intro t ht; cases ht; exact ⟨rfl, by omega⟩
  · have hpos : 0 < esz := Nat.pos_of_ne_zero hz
    have key : n > (2 ^ 63 - eal) / esz ↔ esz * n + eal > 2 ^ 63 := by
      rw [gt_iff_lt, Nat.div_lt_iff_lt_mul hpos, Nat.mul_comm n esz]; omega
    by_cases hn : n > (2 ^ 63 - eal) / esz
    · rw [if_pos ⟨hz, hn⟩]
      refine ⟨⟨fun _ => key.mp hn, fun _ => rfl⟩, ?_⟩
      intro t ht; cases ht
    · rw [if_neg (by intro h; exact hn h.2)]
      refine ⟨⟨fun h => (by cases h), fun h => absurd (key.mpr h) hn⟩, ?_⟩
      intro t ht; cases ht
      have : ¬ (esz * n + eal > 2 ^ 63) := fun h => hn (key.mpr h)
      exact ⟨rfl, by omega⟩

/-- slice methods: an unrepresentable length ends in `Err` (fallible) or a panic (infallible) and
never touches the arena. -/
theorem slice_overflow_refused (E esz eal n : Nat) (f : Bool) (s : St) (h : arrayLayout esz eal n = none) :
    step E (.array esz eal n f) s = (s, if f then .err else .panic) := by
  simp [step, h]

/-- A successful allocation never claims more than was reserved: the block `[p, p+sz)` handed
out lies inside a held chunk (C01) — restated here for the size-carrying entry point. -/
theorem no_overclaim {E sz al p} (f : Bool) (s : St) (hE : EnvOK E) (h : ArenaWF E s.a)
    (hA : IsPow2 al) (hlay : sz + al ≤ 2 ^ 63) (hpos : 0 < sz)
    (hok : (allocMaybe E f sz al s).2 = .ok p) :
    ∃ c ∈ (allocMaybe E f sz al s).1.a.chunks, c.data ≤ p ∧ p + sz ≤ c.data + (c.size - FOOTER_SIZE) := by
  have sp := allocMaybe_spec f s hE h hA hlay
  obtain ⟨hwf', _, _, _, hsh, _⟩ := sp.ok p hok
  obtain ⟨c, hc, h1, h2⟩ := (hsh.frame h hwf').2 hpos
  have hw := hwf'.chunks c hc
  exact ⟨c, hc, by have := hw.ptr_ge; omega, h2⟩

/-- Chunk sizing never wraps and never panics for a valid layout (`allocation_size_overflow` is
unreachable), whatever size up to `isize::MAX` is requested. -/
theorem sizing_never_wraps {M sz al : Nat} (req : Option Nat) (hM : IsPow2 M) (hMle : M ≤ 16) (hA : IsPow2 al)
    (hlay : sz + al ≤ 2 ^ 63) (hreq : req.getD DEFAULT_CHUNK_SIZE_WITHOUT_FOOTER ≤ 2 ^ 64 - 96) :
    newChunkMemoryDetails M req sz al = .err ∨
    ∃ d, newChunkMemoryDetails M req sz al = .ok d ∧ d.size = d.nswf + FOOTER_SIZE ∧ d.size < 2 ^ 64 ∧ sz ≤ d.nswf := by
  rcases details_spec req hM hMle hA hlay hreq _ rfl with h | ⟨d, hd, hok⟩
  · exact Or.inl h
  · refine Or.inr ⟨d, hd, hok.size_eq, hok.lt, ?_⟩
    obtain ⟨rs, hrs, hle⟩ := hok.fits
    have := (roundUpTo_some (by rw [hok.align_eq]; exact (chunkAlign_pow2 hM hA).pos) hrs).1
    omega

/-- A capacity that cannot be a `Layout` is refused by the constructors without touching the allocator. -/
theorem ctor_refuses_huge (E M cap : Nat) (f : Bool) (s : St) (hM : IsPow2 M) (hMle : M ≤ 16)
    (hcap : cap + M > 2 ^ 63) :
    newArena E M cap f s = (s, if f then .err else .panic) := by
  unfold newArena
  have hp : (!isPow2 M || decide (M > CHUNK_ALIGN)) = false := by
    have h1 : isPow2 M = true := isPow2_iff.mpr hM
    have h2 : decide (M > CHUNK_ALIGN) = false := by rw [CA]; simp; omega
    rw [h1, h2]; rfl
  have hc0 : cap ≠ 0 := by omega
  have hv : validLayout cap M = false := by
    simp only [validLayout, Bool.and_eq_false_iff, decide_eq_false_iff_not]
    right; omega
  simp only [hp, Bool.false_eq_true, ↓reduceIte, hc0, hv, Bool.not_false]

example : arrayLayout 8 8 (2 ^ 61) = none := by decide
example : arrayLayout 1000 1 5 = some 5000 := by decide

end Bump.C19

#print axioms Bump.C19.array_refuses
#print axioms Bump.C19.slice_overflow_refused
#print axioms Bump.C19.no_overclaim
#print axioms Bump.C19.sizing_never_wraps
#print axioms Bump.C19.ctor_refuses_huge
