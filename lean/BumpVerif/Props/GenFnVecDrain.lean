import BumpVerif.Gen.FnVecDrain
import BumpVerif.Props.GenFnVec
import BumpVerif.Proofs.VecDrain
/-!
# `Vec::drain`, `Drain::{next, next_back, drop}` as translated = the model's `drainNew`, `takeFront`/`takeBack` steps, `Drain.drop`

`Drain`'s fields `tail_start`, `tail_len` and `iter` (a `slice::Iter`, seen as the slot range `(lo, hi)` it still has to
yield; std's iterator itself is the primitive `RsM.slice_iter_next(_back)`) are in/out parameters of the translated
methods; `self.vec.as_mut()` is the threaded vector.  `self.for_each(drop)` in the destructor is a loop that calls the
translated `next`.
-/
namespace Bump.V
open Bump Rs RsV RsM

/-! ## `drain(range)` -/

theorem succU_eq (c : Cfg) (n : Nat) : succU c n = checkedAdd n 1 := rfl

/-- `Vec::drain` as translated is the model's `drainNew` (`none` = one of its assertions panicked) -/
theorem gen_vec_drain (c : Cfg) (v : VS) (sb eb : Bd) (w : W) :
    Gen.Fn.vec_drain c (sb, eb) (v, w) =
      match drainNew c v sb eb with
      | some (v', d) => ((v', w), .ok d)
      | none => ((v, w), .panic) := by
  have key : ∀ (st en : Nat) (r jv : Nat), Gen.Fn.vec_drain.k_2 c (sb, eb) r v.len jv st en (v, w) =
      if st ≤ en ∧ en ≤ v.len then ((({ v with len := st } : VS), w), .ok ⟨en, v.len - en, st, en⟩) else ((v, w), .panic) := by
    intro st en r jv
    unfold Gen.Fn.vec_drain.k_2
    by_cases h1 : st ≤ en
    · by_cases h2 : en ≤ v.len
      · have hh : st + (en - st) = en := by omega
        simp [h1, h2, gen_vec_set_len, bindW, hh]
      · simp [h1, h2]
    · simp [h1]
  unfold Gen.Fn.vec_drain drainNew
  simp only [gen_vec_len, pureW, bindW]
  cases sb with
  | inc n =>
    simp only [Gen.Fn.vec_drain.k_1, rangeStart]
    cases eb with
    | inc m =>
      simp only [rangeEnd, succU_eq]
      cases checkedAdd m 1 with
      | none => rfl
      | some x => simp only [key]; split <;> rfl
    | exc m => simp only [rangeEnd, key]; split <;> rfl
    | unb => simp only [rangeEnd, key]; split <;> rfl
  | exc n =>
    simp only [rangeStart, succU_eq]
    cases checkedAdd n 1 with
    | none => cases eb <;> simp [rangeEnd] <;> (try split) <;> rfl
    | some x0 =>
      simp only [Gen.Fn.vec_drain.k_1]
      cases eb with
      | inc m =>
        simp only [rangeEnd, succU_eq]
        cases checkedAdd m 1 with
        | none => rfl
        | some x => simp only [key]; split <;> rfl
      | exc m => simp only [rangeEnd, key]; split <;> rfl
      | unb => simp only [rangeEnd, key]; split <;> rfl
  | unb =>
    simp only [Gen.Fn.vec_drain.k_1, rangeStart]
    cases eb with
    | inc m =>
      simp only [rangeEnd, succU_eq]
      cases checkedAdd m 1 with
      | none => rfl
      | some x => simp only [key]; split <;> rfl
    | exc m => simp only [rangeEnd, key]; split <;> rfl
    | unb => simp only [rangeEnd, key]; split <;> rfl

/-! ## `next` / `next_back` -/

/-- one `Drain::next`: the front slot of the remaining range is read out (no event: the caller of the *crate* gets
`moveOut`, the destructor's `for_each(drop)` does not) -/
theorem gen_drain_next (c : Cfg) (ts tl lo hi : Nat) (v : VS) (w : W) :
    Gen.Fn.drain_next c ts tl (lo, hi) (v, w) =
      if lo < hi then
        match v.read lo with
        | none => ((v, w), .bad "next: read of an uninitialised slot")
        | some e => ((v, w), .ok (some e, ts, tl, (lo + 1, hi)))
      else ((v, w), .ok (none, ts, tl, (lo, hi))) := by
  unfold Gen.Fn.drain_next
  by_cases h : lo < hi
  · simp only [RsM.slice_iter_next, h, if_true, RsM.read]
    cases v.read lo <;> rfl
  · simp only [RsM.slice_iter_next, h, if_false]

theorem gen_drain_next_back (c : Cfg) (ts tl lo hi : Nat) (v : VS) (w : W) :
    Gen.Fn.drain_next_back c ts tl (lo, hi) (v, w) =
      if lo < hi then
        match v.read (hi - 1) with
        | none => ((v, w), .bad "next_back: read of an uninitialised slot")
        | some e => ((v, w), .ok (some e, ts, tl, (lo, hi - 1)))
      else ((v, w), .ok (none, ts, tl, (lo, hi))) := by
  unfold Gen.Fn.drain_next_back
  by_cases h : lo < hi
  · simp only [RsM.slice_iter_next_back, h, if_true, RsM.read]
    cases v.read (hi - 1) <;> rfl
  · simp only [RsM.slice_iter_next_back, h, if_false]

/-- the model's `takeFront` is `k` calls of the translated `next`, each followed by the hand-over event -/
def genTakeFront (c : Cfg) (v : VS) : Nat → Drain → W → Drain × W × List Elem
  | 0, d, w => (d, w, [])
  | k + 1, d, w =>
    match Gen.Fn.drain_next c d.tailStart d.tailLen (d.lo, d.hi) (v, w) with
    | (_, .ok (some e, _, _, it)) =>
      let r := genTakeFront c v k { d with lo := it.1, hi := it.2 } (w.moved e)
      (r.1, r.2.1, e :: r.2.2)
    | (_, .ok (none, _, _, _)) => (d, w, [])
    | (_, _) => (d, w.flag "drain read an uninitialised slot", [])

theorem takeFront_eq_gen (c : Cfg) (v : VS) : ∀ (k : Nat) (d : Drain) (w : W), Drain.takeFront v k d w = genTakeFront c v k d w := by
  intro k
  induction k with
  | zero => intro d w; rfl
  | succ k ih =>
    intro d w
    unfold Drain.takeFront genTakeFront
    rw [gen_drain_next]
    by_cases h : d.lo < d.hi
    · simp only [h, if_true]
      cases hr : v.read d.lo with
      | none => rfl
      | some e => simp only []; rw [ih]
    · simp only [h, if_false]

def genTakeBack (c : Cfg) (v : VS) : Nat → Drain → W → Drain × W × List Elem
  | 0, d, w => (d, w, [])
  | k + 1, d, w =>
    match Gen.Fn.drain_next_back c d.tailStart d.tailLen (d.lo, d.hi) (v, w) with
    | (_, .ok (some e, _, _, it)) =>
      let r := genTakeBack c v k { d with lo := it.1, hi := it.2 } (w.moved e)
      (r.1, r.2.1, e :: r.2.2)
    | (_, .ok (none, _, _, _)) => (d, w, [])
    | (_, _) => (d, w.flag "drain read an uninitialised slot", [])

theorem takeBack_eq_gen (c : Cfg) (v : VS) : ∀ (k : Nat) (d : Drain) (w : W), Drain.takeBack v k d w = genTakeBack c v k d w := by
  intro k
  induction k with
  | zero => intro d w; rfl
  | succ k ih =>
    intro d w
    unfold Drain.takeBack genTakeBack
    rw [gen_drain_next_back]
    by_cases h : d.lo < d.hi
    · simp only [h, if_true]
      cases hr : v.read (d.hi - 1) with
      | none => rfl
      | some e => simp only []; rw [ih]
    · simp only [h, if_false]

/-! ## `Drop for Drain` -/

/-- `ok` = the destructor returned, `panic` = it unwound (`true`) -/
def dropView {α : Type} : VW × Outcome α → VS × W × Bool
  | (s, .ok _) => (s.1, s.2, false)
  | (s, .panic) => (s.1, s.2, true)
  | (s, .bad why) => (s.1, s.2.flag why, false)
  | (s, _) => (s.1, s.2.flag "unexpected", false)

theorem dropEach_cons (c : Cfg) (e : Elem) (es : List Elem) (w : W) :
    dropEach c (e :: es) w = if (dropElem c w e).2 then ((dropElem c w e).1, some es) else dropEach c es (dropElem c w e).1 := by
  conv => lhs; unfold dropEach

/-- `self.for_each(drop)` on a represented vector: the loop of translated `next` calls drops exactly the model's
`dropEach` of the remaining range, and stops where it stops -/
theorem gen_drain_drop_loop (c : Cfg) (xs : List Elem) (rest : List (Option Elem)) (l cp ts tl : Nat) :
    ∀ (n lo hi F : Nat) (w : W), hi = lo + n → hi ≤ xs.length → n < F →
      Gen.Fn.drain_drop.loop_1 c F ts tl (lo, hi) (⟨xs.map some ++ rest, l, cp⟩, w) =
        match (dropEach c ((xs.drop lo).take (hi - lo)) w).2 with
        | some _ => ((⟨xs.map some ++ rest, l, cp⟩, (dropEach c ((xs.drop lo).take (hi - lo)) w).1), .panic)
        | none => ((⟨xs.map some ++ rest, l, cp⟩, (dropEach c ((xs.drop lo).take (hi - lo)) w).1), .ok (ts, tl, (hi, hi))) := by
  intro n
  induction n with
  | zero =>
    intro lo hi F w hh _ hF
    subst hh
    cases F with
    | zero => omega
    | succ F =>
      unfold Gen.Fn.drain_drop.loop_1
      simp [gen_drain_next, bindW, dropEach]
  | succ n ih =>
    intro lo hi F w hh hhi hF
    cases F with
    | zero => omega
    | succ F =>
      have hlt : lo < hi := by omega
      have hlx : lo < xs.length := by omega
      have hd : xs.drop lo = xs[lo] :: xs.drop (lo + 1) := (List.getElem_cons_drop (by omega)).symm
      have ht : (xs.drop lo).take (hi - lo) = xs[lo] :: (xs.drop (lo + 1)).take (hi - (lo + 1)) := by
        have : hi - lo = (hi - (lo + 1)) + 1 := by omega
        rw [hd, this, List.take_succ_cons]
      unfold Gen.Fn.drain_drop.loop_1
      rw [gen_drain_next, if_pos hlt, read_map_some xs rest lo hlx l cp, ht, dropEach_cons]
      simp only [bindW, RsM.drop_local]
      cases hp : (dropElem c w xs[lo]).2 with
      | true => simp
      | false =>
        simp only [Bool.false_eq_true, if_false]
        exact ih (lo + 1) hi F (dropElem c w xs[lo]).1 (by omega) hhi (by omega)

theorem moveBack_eq (c : Cfg) (v : VS) (d : Drain) (w : W) :
    d.moveBack c v w =
      if d.tailLen > 0 then
        (if d.tailStart ≠ v.len then ({ (v.copy c d.tailStart v.len d.tailLen w).1 with len := v.len + d.tailLen }, (v.copy c d.tailStart v.len d.tailLen w).2)
         else ({ v with len := v.len + d.tailLen }, w))
      else (v, w) := by
  unfold Drain.moveBack
  by_cases h1 : d.tailLen > 0
  · rw [if_pos h1, if_pos h1]
    by_cases h2 : d.tailStart ≠ v.len
    · rw [if_pos h2]
      show (let r := (if d.tailStart ≠ v.len then v.copy c d.tailStart v.len d.tailLen w else (v, w)); ({ r.1 with len := v.len + d.tailLen }, r.2)) = _
      rw [if_pos h2]
    · rw [if_neg h2]
      show (let r := (if d.tailStart ≠ v.len then v.copy c d.tailStart v.len d.tailLen w else (v, w)); ({ r.1 with len := v.len + d.tailLen }, r.2)) = _
      rw [if_neg h2]
  · rw [if_neg h1, if_neg h1]

/-- `Drop for Drain` as translated is the model's `Drain.drop`, on every represented vector -/
theorem gen_drain_drop (c : Cfg) (xs : List Elem) (rest : List (Option Elem)) (l cp : Nat) (d : Drain) (w : W)
    (hhi : d.hi ≤ xs.length) (hlo : d.lo ≤ d.hi) (hhiU : d.hi < USIZE) (hl : l + d.tailLen < USIZE) :
    dropView (Gen.Fn.drain_drop c d.tailStart d.tailLen (d.lo, d.hi) (⟨xs.map some ++ rest, l, cp⟩, w)) =
      d.drop c ⟨xs.map some ++ rest, l, cp⟩ w := by
  rw [Drain.drop_unfold, readRange_rep xs rest l cp d.lo d.hi w hhi hlo]
  unfold Gen.Fn.drain_drop
  have hF : d.hi - d.lo < USIZE := by omega
  rw [gen_drain_drop_loop c xs rest l cp d.tailStart d.tailLen (d.hi - d.lo) d.lo d.hi USIZE w (by omega) hhi hF]
  simp only []
  cases hde : (dropEach c ((xs.drop d.lo).take (d.hi - d.lo)) w).2 with
  | some left => simp [bindW, dropView]
  | none =>
    simp only [bindW, moveBack_eq]
    by_cases h1 : d.tailLen > 0
    · have hd1 : decide (d.tailLen > 0) = true := by simpa using h1
      simp only [hd1, if_true, h1, gen_vec_len, pureW, bindW]
      by_cases h2 : d.tailStart = l
      · have hb : (d.tailStart != l) = false := by simp [h2]
        simp [hb, h2, Gen.Fn.drain_drop.k_2, hl, gen_vec_set_len, bindW, dropView]
      · have hb : (d.tailStart != l) = true := by simp [h2]
        simp [hb, h2, Gen.Fn.drain_drop.k_2, hl, gen_vec_set_len, bindW, dropView, RsM.copy, copy_len]
    · have hd1 : decide (d.tailLen > 0) = false := by simpa using h1
      simp [hd1, h1, dropView]

#print axioms gen_vec_drain
#print axioms gen_drain_next
#print axioms gen_drain_next_back
#print axioms takeFront_eq_gen
#print axioms takeBack_eq_gen
#print axioms gen_drain_drop

end Bump.V
