import BumpVerif.Model.Rs
import BumpVerif.Gen.FnArith
import BumpVerif.Proofs.Arith
/-! # The translated arithmetic kernels of `src/lib.rs` equal the hand-written model

`Gen/FnArith.lean` is regenerated from the Rust source on every run (tools/rs2lean.py); these theorems tie
each generated body to the model function the property theorems are stated about. -/
namespace Bump
open Rs

theorem band_low (x k : Nat) : band x (2 ^ k - 1) = x % 2 ^ k := by
  unfold band; exact Nat.and_two_pow_sub_one_eq_mod x k

theorem band_bnot_low (x k : Nat) (hx : x < USIZE) (hk : k ≤ 64) :
    band x (bnot (2 ^ k - 1)) = x / 2 ^ k * 2 ^ k := by
  unfold band bnot USIZE_MAX
  unfold USIZE at hx
  apply Nat.eq_of_testBit_eq
  intro i
  have h1 : 2 ^ 64 - 1 - (2 ^ k - 1) = 2 ^ 64 - ((2 ^ k - 1) + 1) := by omega
  have hlt : 2 ^ k - 1 < 2 ^ 64 := by
    have : 2 ^ k ≤ 2 ^ 64 := Nat.pow_le_pow_right (by omega) hk
    omega
  rw [Nat.testBit_and, h1, Nat.testBit_two_pow_sub_succ hlt, Nat.testBit_two_pow_sub_one]
  rw [Nat.testBit_mul_two_pow, Nat.testBit_div_two_pow]
  by_cases hik : k ≤ i
  · have e : i - k + k = i := by omega
    have hnk : ¬ i < k := by omega
    simp only [hik, e, hnk, decide_true, decide_false, Bool.not_false, Bool.and_true, Bool.true_and]
    by_cases hi : i < 64
    · simp [hi]
    · have h2 : 2 ^ 64 ≤ 2 ^ i := Nat.pow_le_pow_right (by omega) (by omega)
      have := Nat.testBit_lt_two_pow (Nat.lt_of_lt_of_le hx h2)
      simp [hi, this]
  · have : i < k := by omega
    simp [hik, this]

/-- a power of two that is a `usize` -/
structure P2 (d : Nat) : Prop where
  pow : isPow2 d = true
  lt : d < USIZE

theorem P2.exp {d : Nat} (h : P2 d) : ∃ k, d = 2 ^ k ∧ k ≤ 64 ∧ 0 < d := by
  obtain ⟨k, rfl⟩ := isPow2_iff.1 h.pow
  refine ⟨k, rfl, ?_, Nat.pow_pos (by omega)⟩
  apply Nat.le_of_not_lt; intro hk
  have : 2 ^ 64 ≤ 2 ^ k := Nat.pow_le_pow_right (by omega) (by omega)
  have := h.lt; unfold USIZE at this; omega

theorem gen_round_up_to (n d : Nat) (hd : P2 d) (_hn : n < USIZE) :
    Gen.Fn.round_up_to n d = .ok (roundUpTo n d) := by
  obtain ⟨k, rfl, hk, hpos⟩ := hd.exp
  unfold Gen.Fn.round_up_to roundUpTo checkedAdd
  simp only [hd.pow, hpos, decide_true, if_true]
  have h1 : 1 ≤ 2 ^ k := hpos
  simp only [h1, if_true]
  by_cases h : n + (2 ^ k - 1) < USIZE
  · simp only [h, if_true]; rw [band_bnot_low _ _ h hk]
  · simp only [h, if_false]

theorem gen_round_down_to (n d : Nat) (hd : P2 d) (hn : n < USIZE) :
    Gen.Fn.round_down_to n d = .ok (roundDownTo n d) := by
  obtain ⟨k, rfl, hk, hpos⟩ := hd.exp
  unfold Gen.Fn.round_down_to roundDownTo
  have h1 : 1 ≤ 2 ^ k := hpos
  simp only [hd.pow, hpos, decide_true, if_true, h1]
  rw [band_bnot_low _ _ hn hk]

theorem gen_round_mut_ptr_down_to (p d : Nat) (hd : P2 d) :
    Gen.Fn.round_mut_ptr_down_to p d = .ok (wsub p (p % d)) := by
  obtain ⟨k, rfl, hk, hpos⟩ := hd.exp
  unfold Gen.Fn.round_mut_ptr_down_to
  have h1 : 1 ≤ 2 ^ k := hpos
  simp only [hd.pow, hpos, decide_true, if_true, h1, band_low]

/-- `round_up_to_unchecked`: the `None` case is `unreachable_unchecked` -/
def roundUpToUnchecked (n d : Nat) : Outcome Nat :=
  match roundUpTo n d with
  | some x => .ok x
  | none => .bad "round_up_to_unchecked: debug_assert!(false)"

theorem gen_round_up_to_unchecked (n d : Nat) (hd : P2 d) (hn : n < USIZE) :
    Gen.Fn.round_up_to_unchecked n d = roundUpToUnchecked n d := by
  unfold Gen.Fn.round_up_to_unchecked roundUpToUnchecked
  rw [gen_round_up_to n d hd hn]
  simp only [bindP]
  cases roundUpTo n d <;> rfl

theorem gen_is_pointer_aligned_to (p a : Nat) (ha : P2 a) (hp : p < USIZE) :
    Gen.Fn.is_pointer_aligned_to p a = .ok (p % a == 0) := by
  simp only [Gen.Fn.is_pointer_aligned_to, gen_round_down_to p a ha hp]
  obtain ⟨k, rfl, hk, hpos⟩ := ha.exp
  simp only [ha.pow, if_true, bindP, roundDownTo]
  congr 1
  have := Nat.div_add_mod p (2 ^ k)
  have hm : 2 ^ k * (p / 2 ^ k) = p / 2 ^ k * 2 ^ k := Nat.mul_comm ..
  generalize p / 2 ^ k * 2 ^ k = q at *
  generalize p % 2 ^ k = r at *
  rw [Bool.eq_iff_iff]; simp only [beq_iff_eq]; omega

theorem roundUpTo_ge {n d x : Nat} (hd : 0 < d) (h : roundUpTo n d = some x) : n ≤ x ∧ x < USIZE + d := by
  unfold roundUpTo at h
  split at h
  · injection h with h; subst h
    have h1 := Nat.div_add_mod (n + (d - 1)) d
    have h2 := Nat.mod_lt (n + (d - 1)) hd
    have hm : d * ((n + (d - 1)) / d) = (n + (d - 1)) / d * d := Nat.mul_comm ..
    have := Nat.div_mul_le_self (n + (d - 1)) d
    omega
  · cases h

theorem gen_round_mut_ptr_up_to_unchecked (p d : Nat) (hd : P2 d) (hp : p < USIZE) :
    (∃ x, roundUpTo p d = some x ∧ Gen.Fn.round_mut_ptr_up_to_unchecked p d = .ok x) ∨
    (roundUpTo p d = none ∧ ∃ w, Gen.Fn.round_mut_ptr_up_to_unchecked p d = .bad w) := by
  obtain ⟨k, hk0, hk, hpos⟩ := hd.exp
  unfold Gen.Fn.round_mut_ptr_up_to_unchecked
  rw [gen_round_up_to_unchecked p d hd hp]
  simp only [hd.pow, hpos, decide_true, if_true]
  unfold roundUpToUnchecked
  cases h : roundUpTo p d with
  | none => right; exact ⟨rfl, _, rfl⟩
  | some x =>
    left
    refine ⟨x, rfl, ?_⟩
    have hx := roundUpTo_ge hpos h
    have hx2 : x < USIZE := by
      unfold roundUpTo at h; split at h
      · injection h with h; subst h
        exact Nat.lt_of_le_of_lt (Nat.div_mul_le_self _ _) (by assumption)
      · cases h
    simp only [bindP, hx.1, if_true]
    have : p + (x - p) = x := by omega
    simp [this, hx2]

theorem gen_layout_from_size_align (sz al : Nat) :
    Gen.Fn.layout_from_size_align sz al =
      if validLayout sz al then .ok ⟨sz, al⟩ else .err := by
  unfold Gen.Fn.layout_from_size_align layoutFromSizeAlign
  by_cases h : validLayout sz al = true <;> simp [h]



theorem validLayout_p2 {sz al : Nat} (h : validLayout sz al = true) : P2 al ∧ sz < USIZE := by
  simp only [validLayout, Bool.and_eq_true, decide_eq_true_eq] at h
  obtain ⟨⟨h1, h2⟩, h3⟩ := h
  refine ⟨⟨h1, ?_⟩, ?_⟩ <;> unfold USIZE <;> omega

/-- two outcomes agree up to the text of a `bad` diagnosis -/
def Outcome.sim {α : Type} : Outcome α → Outcome α → Prop
  | .bad _, .bad _ => True
  | a, b => a = b

theorem Outcome.sim_refl {α : Type} (a : Outcome α) : Outcome.sim a a := by
  cases a <;> simp [Outcome.sim]

theorem Outcome.sim_of_eq {α : Type} {a b : Outcome α} (h : a = b) : Outcome.sim a b := h ▸ Outcome.sim_refl a

#print axioms gen_round_up_to
#print axioms gen_round_down_to
#print axioms gen_round_mut_ptr_down_to
#print axioms gen_round_up_to_unchecked
#print axioms gen_is_pointer_aligned_to
#print axioms gen_round_mut_ptr_up_to_unchecked
#print axioms gen_layout_from_size_align
end Bump
