import BumpVerif.Proofs.Mem
import BumpVerif.Proofs.Contents
import BumpVerif.Props.C11
/-! # C02 — allocation contents are initialised as specified and stay intact

The arena itself writes memory in exactly three places: the copy in `grow` (in place or to a
fresh block), the copy in `shrink`, and the zero fill of `grow_zeroed`.  Everything else is the
caller writing through the block it was just handed (a fresh block, disjoint from every live
block by C01).  The model records the arena's own writes as memory effects.
-/
namespace Bump.C02
open Bump Gen

/-- no allocation flavour writes memory: whatever it reserves, the bytes of every live block are
as before (the caller then initialises the fresh block, which is disjoint from all of them) -/
theorem alloc_writes_nothing {E sz al} (f : Bool) (s : St) (hE : EnvOK E) (h : ArenaWF E s.a)
    (hA : IsPow2 al) (hlay : sz + al ≤ 2 ^ 63) : (allocMaybe E f sz al s).1.mem = s.mem :=
  (allocMaybe_spec f s hE h hA hlay).mem_eq

/-- `dealloc`, `reset` and a failed initialiser's rewind write nothing -/
theorem dealloc_writes_nothing {E p sz} (s : St) (hE : EnvOK E) (h : ArenaWF E s.a)
    (hblk : (s.a.cur E).ptr = p → p + sz ≤ (s.a.cur E).footer) : (dealloc E p sz s).1.mem = s.mem :=
  (dealloc_spec s hE h hblk).2.2.1

theorem reset_writes_nothing {E} (s : St) (h : ArenaWF E s.a) : (reset s).1.mem = s.mem :=
  (reset_spec s h).2.2.2.1

theorem failed_init_writes_nothing {E sz al slot} (f : Bool) (s : St) (hE : EnvOK E) (h : ArenaWF E s.a)
    (hA : IsPow2 al) (hlay : sz + al ≤ 2 ^ 63) (hok : (allocMaybe E f sz al s).2 = .ok slot) :
    (allocTryWith E sz al false [] f s).1.mem = s.mem :=
  (atw_err_no_residue f s hE h hA hlay slot hok).2.2.2.1

/-- Growing or shrinking a block preserves its first `min(old,new)` bytes and changes no byte
outside the new block — in place next to other live blocks (memmove semantics downwards for
`grow`; `shrink` moves only when source and destination cannot overlap) or by reallocation. -/
theorem grow_keeps_prefix {E p osz oal nsz nal q} (m : Mem) (s : St) (hE : EnvOK E) (h : ArenaWF E s.a)
    (hb : BlockOK s.a p osz oal) (hN : IsPow2 nal) (hle : osz ≤ nsz) (hlay : nsz + nal ≤ 2 ^ 63)
    (hok : (grow E p osz oal nsz nal s).2 = .ok q) :
    (∀ i, i < osz → applyEffs m (grow E p osz oal nsz nal s).1.mem (q + i) = applyEffs m s.mem (p + i)) ∧
    (∀ a, ¬ (q ≤ a ∧ a < q + nsz) → applyEffs m (grow E p osz oal nsz nal s).1.mem a = applyEffs m s.mem a) := by
  have post := grow_spec s hE h hb hN hle hlay
  rw [hok] at post
  have := realloc_contents m post
  rw [Nat.min_eq_left hle] at this
  exact this

theorem shrink_keeps_prefix {E p osz oal nsz nal q} (m : Mem) (s : St) (hE : EnvOK E) (h : ArenaWF E s.a)
    (hb : BlockOK s.a p osz oal) (hN : IsPow2 nal) (hle : nsz ≤ osz) (hlay : nsz + nal ≤ 2 ^ 63)
    (hok : (shrink E p osz oal nsz nal s).2 = .ok q) :
    (∀ i, i < nsz → applyEffs m (shrink E p osz oal nsz nal s).1.mem (q + i) = applyEffs m s.mem (p + i)) ∧
    (∀ a, ¬ (q ≤ a ∧ a < q + nsz) → applyEffs m (shrink E p osz oal nsz nal s).1.mem a = applyEffs m s.mem a) := by
  have post := shrink_spec s hE h hb hN hle hlay
  rw [hok] at post
  have := realloc_contents m post
  rw [Nat.min_eq_right hle] at this
  exact this

/-- `alloc_slice_fill_with`: the closure is called once per index, in index order -/
theorem fill_calls_in_order (n : Nat) : (C11.fillLoop none n 0 []).1 = List.range n := by
  rw [C11.fillLoop_spec]; simp [List.range_eq_range']

/-- …and a fallible fill stops right after the first error -/
theorem try_fill_calls (n e : Nat) (he : e < n) : (C11.fillLoop (some e) n 0 []).1 = List.range (e + 1) := by
  rw [C11.fillLoop_spec]
  have hc : 0 ≤ e ∧ e < 0 + n := ⟨Nat.zero_le _, by omega⟩
  simp only [hc, and_self, ↓reduceIte, Nat.sub_zero, List.nil_append, List.range_eq_range']

example : (C11.fillLoop (some 2) 5 0 []).1 = [0, 1, 2] := by decide

/-- **All histories, all operations.** From any state satisfying the live-block invariant, along any
admissible history (allocations of every flavour, initialisers that allocate and fail, failed slice
fills, `Allocator` calls, resets, limit changes), a block that stays in the live set and is not
itself handed to `grow`/`shrink` keeps every byte: the arena's own writes (the copies in
`grow`/`shrink`, the zero fill of `grow_zeroed`) never land in it.  (The caller's writes go through
the exclusive reference to one block, which C01 keeps disjoint from all others.) -/
theorem history_contents {E} (hE : EnvOK E) (ops : List Op) (y : Sys) (inv : LiveInv E y) (hrun : RunOKFull E ops y)
    (m : Mem) (b : Block) (hu : Untouched E b ops y) (x : Nat) (hx : b.ptr ≤ x ∧ x < b.ptr + b.size) :
    applyEffs m (sysRun E ops y).1.st.mem x = applyEffs m y.st.mem x :=
  Bump.history_contents hE ops y inv hrun m b hu x hx

/-- one step: only the block handed to `grow`/`shrink` can change -/
theorem step_contents {E} (hE : EnvOK E) (y : Sys) (op : Op) (inv : LiveInv E y) (hv : OpValidFull y op)
    (hne : (sysStep E op y).2 ≠ .envBad) (m : Mem) (b : Block) (hb : b ∈ y.live) (hnt : target op ≠ some b)
    (x : Nat) (hx : b.ptr ≤ x ∧ x < b.ptr + b.size) :
    applyEffs m (sysStep E op y).1.st.mem x = applyEffs m y.st.mem x :=
  sysStep_contents hE y op inv hv hne m b hb hnt x hx

/-- non-vacuity: a history that grows one block (moving it) while another stays put -/
example :
    let y0 : Sys := ⟨{ a := ⟨1, [⟨4096, 560, 16, 4500, 512⟩], none⟩, ans := [] }, [⟨4500, 20⟩, ⟨4520, 30⟩]⟩
    let r := sysRun 160 [.agrow 4500 20 1 40 1 true] y0
    r.2 = [.ptr 4480] ∧ r.1.live = [⟨4520, 30⟩, ⟨4480, 40⟩] ∧
    r.1.st.mem = [.copy 4500 4480 20, .zero 4500 20] := by decide

end Bump.C02

#print axioms Bump.C02.alloc_writes_nothing
#print axioms Bump.C02.dealloc_writes_nothing
#print axioms Bump.C02.reset_writes_nothing
#print axioms Bump.C02.failed_init_writes_nothing
#print axioms Bump.C02.grow_keeps_prefix
#print axioms Bump.C02.shrink_keeps_prefix
#print axioms Bump.C02.fill_calls_in_order
#print axioms Bump.C02.try_fill_calls
#print axioms Bump.C02.history_contents
#print axioms Bump.C02.step_contents
