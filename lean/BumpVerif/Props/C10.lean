import BumpVerif.Proofs.Tiling
/-! # C10 — chunk iteration yields exactly the allocated bytes, newest first

In the model `iter_allocated_chunks` and `iter_allocated_chunks_raw` are the same walk
(`iterChunks`); that the two Rust iterators agree is checked on the real crate by the
`iterators-differ` oracle of the correspondence run.
-/
namespace Bump.C10
open Bump Gen

/-- one slice per held chunk, newest first, each the used part `[ptr, footer)` of its chunk and
hence inside it -/
theorem iter_slices {E a} (h : ArenaWF E a) :
    iterChunks a = a.chunks.map (fun c => (c.ptr, c.footer - c.ptr)) ∧
    (iterChunks a).length = a.chunks.length ∧
    ∀ c ∈ a.chunks, c.data ≤ c.ptr ∧ c.ptr + (c.footer - c.ptr) = c.footer ∧ c.footer + FOOTER_SIZE = c.data + c.size := by
  refine ⟨rfl, by simp [iterChunks], ?_⟩
  intro c hc
  have hw := h.chunks c hc
  exact ⟨hw.ptr_ge, by have := hw.ptr_le; omega, footer_lt hw⟩

/-- every region in a used part (every live block of non-zero size) is contained in exactly one
of the slices -/
theorem iter_covers_once {E a b bn} (h : ArenaWF E a) (hb : InChunk a b bn) (hpos : 0 < bn) :
    (∃ sl ∈ iterChunks a, sl.1 ≤ b ∧ b + bn ≤ sl.1 + sl.2) ∧
    (∀ c ∈ a.chunks, ∀ d ∈ a.chunks, (c.ptr ≤ b ∧ b + bn ≤ c.footer) → (d.ptr ≤ b ∧ b + bn ≤ d.footer) →
      c.data = d.data) := by
  obtain ⟨c, hc, h1, h2⟩ := hb
  have hw := h.chunks c hc
  refine ⟨⟨(c.ptr, c.footer - c.ptr), List.mem_map.mpr ⟨c, hc, rfl⟩, h1, by have := hw.ptr_le; simp only; omega⟩, ?_⟩
  intro x hx y hy hxb hyb
  -- two chunks both containing the non-empty region cannot be disjoint
  have hwx := h.chunks x hx
  have hwy := h.chunks y hy
  have hfx := footer_lt hwx
  have hfy := footer_lt hwy
  have := FS
  by_cases hxy : x.data = y.data
  · exact hxy
  · exfalso
    have hpw := h.disj
    have : ∀ (l : List Chunk), l.Pairwise (fun c d => Disj c.data c.size d.data d.size) → x ∈ l → y ∈ l → x.data ≠ y.data →
        Disj x.data x.size y.data y.size := by
      intro l hl
      induction hl with
      | nil => intro hx; cases hx
      | cons hhead _ ih =>
        intro hx hy hne
        simp only [List.mem_cons] at hx hy
        rcases hx with rfl | hx <;> rcases hy with rfl | hy
        · exact absurd rfl hne
        · exact hhead _ hy
        · have := hhead _ hx; unfold Disj at *; omega
        · exact ih hx hy hne
    have hd := this a.chunks hpw hx hy hxy
    unfold Disj at hd
    have := hwx.ptr_ge; have := hwy.ptr_ge
    omega

/-- Uniform allocations leave no padding: when the request's alignment `A` is at least
`MIN_ALIGN`, divides the finger and divides the size, the fast path hands out exactly the `sz`
bytes just below the finger, so consecutive objects are adjacent. -/
theorem uniform_no_padding (M : Nat) (c : Chunk) (sz A : Nat) (hA : IsPow2 A) (hMA : M ≤ A) (hA16 : A ≤ 16)
    (hdp : c.data ≤ c.ptr) (hptr : c.ptr < 2 ^ 63) (hAp : A ∣ c.ptr) (hAs : A ∣ sz) (hfit : sz ≤ c.ptr - c.data) :
    allocFast M c sz A = some (c.ptr - sz) := Bump.uniform_no_padding M c sz A hA hMA hA16 hdp hptr hAp hAs hfit

/-- …and a fresh chunk starts at its footer, which is 16-aligned, so the first object of a
chunk ends exactly at the footer: no bytes after the objects either. -/
theorem uniform_first_in_chunk {M : Nat} {c : Chunk} (sz A : Nat) (hw : ChunkWF M c) (hfresh : c.ptr = c.footer)
    (hA : IsPow2 A) (hMA : M ≤ A) (hA16 : A ≤ 16) (hAs : A ∣ sz) (hfit : sz ≤ c.footer - c.data) :
    allocFast M c sz A = some (c.footer - sz) := Bump.uniform_first_in_chunk sz A hw hfresh hA hMA hA16 hAs hfit

/-- **Uniform histories: the slices are exactly the objects.** Start from an arena a constructor
returned and run any history in which every allocation (any flavour, incl. fallible initialisers
and fallible slice fills that fail, across chunk boundaries, with `reset`s and limit changes in
between) has the same alignment `A` (`MIN_ALIGN ≤ A ≤ 16`) and a size that is a multiple of `A`.
Then in every chunk the sizes of the live objects lying in its used part add up to exactly the
length of the used part `[finger, footer)` — and by C01 those objects are inside it and pairwise
disjoint: the slice chunk iteration yields consists of the objects and nothing else (no byte
before, between or after), and (`iter_slices`) slices come newest chunk first. -/
theorem uniform_history_tiles {E M cap a A} (f : Bool) (s0 : St) (hE : EnvOK E) (hM : IsPow2 M) (hMle : M ≤ 16)
    (hA : IsPow2 A) (hA16 : A ≤ 16)
    (hctor : (newArena E M cap f s0).2 = .ok a) (ops : List Op)
    (hrun : UniformRun E A ops ⟨{ (newArena E M cap f s0).1 with a := a }, []⟩) :
    let y := (sysRun E ops ⟨{ (newArena E M cap f s0).1 with a := a }, []⟩).1
    LiveInv E y ∧ ∀ c ∈ y.st.a.chunks, liveBytesIn c y.live = c.footer - c.ptr := by
  intro y
  obtain ⟨hwf, _, _, hsh⟩ := (newArena_spec f s0 hM hMle).ok a hctor
  have hinit : Tiled A a [] := by
    apply tiled_init
    · intro c hc
      rcases hsh with ⟨hn, _, _⟩ | ⟨c0, refs, hc0, _, _, hpf, _⟩
      · rw [hn] at hc; cases hc
      · rw [hc0] at hc; simp only [List.mem_singleton] at hc; subst hc; exact hpf
    · intro c hc
      rcases hsh with ⟨hn, _, _⟩ | ⟨c0, refs, hc0, _, _, hpf, _⟩
      · rw [hn] at hc; cases hc
      · have hw := hwf.chunks c hc
        rw [hc0] at hc; simp only [List.mem_singleton] at hc; subst hc
        rw [hpf]; exact A_dvd_footer hw hA hA16
  have := tiled_history hE hA hA16 ops ⟨{ (newArena E M cap f s0).1 with a := a }, []⟩
    (init_live _ hwf rfl) hinit hrun
  exact ⟨this.1, this.2.exact⟩

example : allocFast 4 ⟨4096, 560, 16, 4608, 512⟩ 24 8 = some 4584 := by decide

end Bump.C10

#print axioms Bump.C10.iter_slices
#print axioms Bump.C10.iter_covers_once
#print axioms Bump.C10.uniform_no_padding
#print axioms Bump.C10.uniform_first_in_chunk
#print axioms Bump.C10.uniform_history_tiles
