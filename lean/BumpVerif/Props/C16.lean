import BumpVerif.Proofs.VecCore
/-! # C16 (Vec part) — under construction -/
namespace Bump.V.C16
open Bump Bump.V

theorem reserve_honoured {c : Cfg} {v v' : VS} {xs : List Elem} {n : Nat} (hc : CfgOK c) (h : RepB c v xs)
    (hr : rawReserve c v v.len n = some v') : RepB c v' xs ∧ v.len + n ≤ capOf c v' :=
  let ⟨a, b, _⟩ := rawReserve_some hc h hr
  ⟨a, b⟩

end Bump.V.C16

#print axioms Bump.V.C16.reserve_honoured
