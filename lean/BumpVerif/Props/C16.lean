import BumpVerif.Proofs.VecNth
import BumpVerif.Proofs.VecOwn
import BumpVerif.Proofs.VecFilter
import BumpVerif.Proofs.VecDrain
import BumpVerif.Proofs.VecExtend
import BumpVerif.Proofs.VecResize
import BumpVerif.Proofs.VecSplice
/-!
# C16 (Vec part) — a panicking callback never causes double drops

Callbacks are data: a predicate is `cb : Nat → Elem → Option Bool` (`cb k e` = answer of the
`k`-th call, shown element `e`; `none` = that call panics), `Clone`/`Drop` panic through the
one-shot triggers `Cfg.clonePanicAt` / `Cfg.dropPanicAt`.  Every theorem is for *all* `cb` /
all trigger values, i.e. for every callback answer list and every panic index.

Statement, per callback-taking method `m`: if `RepB c v xs` and `Own ins xs evs held`, then
after `m` returned or unwound there are `ys`, `lk` with `RepB c v' ys` and
`Own ins ys evs' (lk ++ held)` — nothing is reachable twice, nothing dropped or moved out is
reachable, nothing was dropped twice; `lk` = what leaked.  Because the conclusion is again the
hypothesis of every method theorem and of `C15_drop`, both continuations (keep using the
vector / drop it) preserve it: `C16_then_drop`.

Status.  Full theorems: `drain_filter` (after the fix of F5 in /repo, commit cdde727: the
predicate may panic inside a caller's `next()` or inside the destructor, and a yielded element's
destructor may panic), `retain`, `truncate`, `clear`, `drop` (panicking destructors).
`into_iter` / `drain` dropped with panicking destructors, `dedup_by(_key)` (panicking comparison /
key function), `extend` and `from_iter_in`/`collect_in` (panicking iterator), `resize`,
`extend_from_slice` and `clone` (panicking `Clone`), `splice` (iterator panicking at any `next`
call — inside `fill`, inside the second `fill` after `move_tail`, inside the collection of the
remainder — and/or a destructor of the drained range panicking), `vec![elem; n]` (panicking `Clone`).

History: on the pinned tree the `drain_filter` statement was false (F5): with
`xs = [0,1,2,3,4,5]`, "remove evens", predicate panicking at index 3 inside the caller's third
`next()`, `DrainFilter::drop` resumed filtering and left `[1,1,5]` — element 1 reachable twice.
`C16_F5_regression` pins the fixed behaviour on that input.
-/
namespace Bump.V.C16
open Bump Bump.V

/-- `drain_filter`: any callback, any panic point (in a caller's `next()`, in the destructor's
loop, or a yielded element's destructor), any number of `next()` calls, dropped or forgotten -/
theorem C16_drain_filter {c : Cfg} {v : VS} {xs : List Elem} {ins held : List Nat} (hd : c.needsDrop = true)
    (h : RepB c v xs) (cb : Nat → Elem → Option Bool) (take : Nat) (forget : Bool) (w : W) (ho : Own ins xs w.evs held) :
    ∃ ys lk, RepB c (drainFilterOp c v cb take forget w).1 ys ∧
      Own ins ys (drainFilterOp c v cb take forget w).2.1.evs (lk ++ held) ∧ (forget = false → lk = []) :=
  drainFilterOp_own hd h cb take forget w ho

/-- `retain`: any callback, any panic point; nothing leaks -/
theorem C16_retain {c : Cfg} {v : VS} {xs : List Elem} {ins held : List Nat} (hd : c.needsDrop = true)
    (h : RepB c v xs) (cb : Nat → Elem → Option Bool) (w : W) (ho : Own ins xs w.evs held) :
    ∃ ys, RepB c (retain c v cb w).1 ys ∧ Own ins ys (retain c v cb w).2.1.evs held := retain_own hd h cb w ho

/-- `truncate` / `clear` / shrinking `resize` with a destructor that panics at any call -/
theorem C16_truncate {c : Cfg} {v : VS} {xs : List Elem} {ins held : List Nat} (hd : c.needsDrop = true)
    (h : RepB c v xs) (n : Nat) (w : W) (ho : Own ins xs w.evs held) :
    ∃ ys, RepB c (truncate c v n w).1 ys ∧ Own ins ys (truncate c v n w).2.1.evs held := truncate_own hd h n w ho

/-- dropping the vector with a destructor that panics at any call: every element is still
dropped exactly once -/
theorem C16_drop {c : Cfg} {v : VS} {xs : List Elem} {ins held : List Nat} (hd : c.needsDrop = true)
    (h : RepB c v xs) (w : W) (ho : Own ins xs w.evs held) : Own ins [] (dropVec c v w).1.evs held :=
  (dropVec_own hd h w ho).2

/-- dropping a `Drain` whose elements' destructor panics at any call (`c.dropPanicAt`
arbitrary): the tail is leaked, nothing is duplicated or dropped twice -/
theorem C16_drain_drop {c : Cfg} {v : VS} {xs : List Elem} {ins held : List Nat} (hd : c.needsDrop = true)
    (h : RepB c v xs) (s e : Bd) (take back : Nat) (forget : Bool) (w : W) (ho : Own ins xs w.evs held) :
    ∃ ys lk, RepB c (drainOp c v s e take back forget w).1 ys ∧
      Own ins ys (drainOp c v s e take back forget w).2.1.evs (lk ++ held) :=
  let ⟨ys, lk, a, b, _⟩ := drainOp_own hd h s e take back forget w ho
  ⟨ys, lk, a, b⟩

/-- dropping an `IntoIter` whose elements' destructor panics at any call -/
theorem C16_into_iter_drop {c : Cfg} {v : VS} {xs : List Elem} {ins held : List Nat} (hd : c.needsDrop = true)
    (h : RepB c v xs) (take back : Nat) (forget : Bool) (w : W) (ho : Own ins xs w.evs held) :
    ∃ lk, Own ins [] (intoIterOp c v take back forget w).1.evs (lk ++ held) :=
  let ⟨lk, a, _⟩ := intoIterOp_own hd h take back forget w ho
  ⟨lk, a⟩

/-- `dedup_by` / `dedup_by_key` / `dedup` with any comparison callback (`cb k a b` = answer of
the `k`-th comparison, `none` = it panics) and destructors that may panic in the final
`truncate`: the swap-based partition keeps the slice a permutation at every moment -/
theorem C16_dedup_by {c : Cfg} {v : VS} {xs : List Elem} {ins held : List Nat} (hd : c.needsDrop = true)
    (h : RepB c v xs) (cb : Nat → Elem → Elem → Option Bool) (w : W) (ho : Own ins xs w.evs held) :
    ∃ ys, RepB c (dedupBy c v cb w).1 ys ∧ Own ins ys (dedupBy c v cb w).2.1.evs held := dedupBy_own hd h cb w ho

/-- `extend(iter)` with a caller-supplied iterator that reports any `size_hint` and panics at any
`next` call: every item is owned by the vector afterwards or was dropped exactly once -/
theorem C16_extend {c : Cfg} {v : VS} {xs : List Elem} {ins held : List Nat} (hc : CfgOK c) (hd : c.needsDrop = true)
    (h : RepB c v xs) (s : Src) (w : W) (ho : Own ins xs w.evs (ids s.items ++ held)) :
    ∃ ys, RepB c (extend c v (.src s) w).1 ys ∧ Own ins ys (extend c v (.src s) w).2.1.evs held := extend_own hc hd h s w ho

/-- `from_iter_in` / `collect_in` with such an iterator -/
theorem C16_from_iter {c : Cfg} {ins held : List Nat} (hc : CfgOK c) (hd : c.needsDrop = true)
    (s : Src) (w : W) (ho : Own ins [] w.evs (ids s.items ++ held)) :
    ∃ ys, (∀ v, (fromIter c (.src s) w).1 = some v → RepB c v ys) ∧ ((fromIter c (.src s) w).1 = none → ys = []) ∧
      Own ins ys (fromIter c (.src s) w).2.evs held := fromIter_own hc hd s w ho

/-- `resize(new_len, value)` with a `Clone` (growing) or a destructor (shrinking) that panics at
any call.  `Fresh ins n`: the ids created so far are below the counter clones take their ids
from; `ins'` = `ins` plus the ids of the clones made. -/
theorem C16_resize {c : Cfg} {v : VS} {xs : List Elem} {ins held : List Nat} (hc : CfgOK c) (hd : c.needsDrop = true)
    (hf : c.freshClone = true) (h : RepB c v xs) (n : Nat) (x : Elem) (w : W)
    (ho : Own ins xs w.evs (x.id :: held)) (hfr : Fresh ins w.nextId) :
    ∃ ys ins', RepB c (resize c v n x w).1 ys ∧ Own ins' ys (resize c v n x w).2.1.evs held ∧
      Fresh ins' (resize c v n x w).2.1.nextId := resize_own hc hd hf h n x w ho hfr

/-- `extend_from_slice(&other)` with a `Clone` that panics at any call -/
theorem C16_extend_from_slice {c : Cfg} {v : VS} {xs : List Elem} {ins held : List Nat} (hc : CfgOK c) (hd : c.needsDrop = true)
    (hf : c.freshClone = true) (h : RepB c v xs) (src : List Elem) (w : W) (ho : Own ins xs w.evs held) (hfr : Fresh ins w.nextId) :
    ∃ ys ins', RepB c (extend c v (.cloned src) w).1 ys ∧ Own ins' ys (extend c v (.cloned src) w).2.1.evs held ∧
      Fresh ins' (extend c v (.cloned src) w).2.1.nextId := extendFromSlice_own hc hd hf h src w ho hfr

/-- `clone()` of the vector with an element `Clone` that panics at any call: the original keeps
`xs`; the new vector owns the clones made (`ys`), or they were dropped once with it -/
theorem C16_clone {c : Cfg} {v : VS} {xs : List Elem} {ins held : List Nat} (hc : CfgOK c) (hd : c.needsDrop = true)
    (hf : c.freshClone = true) (h : RepB c v xs) (w : W) (ho : Own ins xs w.evs held) (hfr : Fresh ins w.nextId) :
    ∃ ys ins', (∀ nv, (cloneVec c v w).1 = some nv → RepB c nv ys) ∧ ((cloneVec c v w).1 = none → ys = []) ∧
      Own ins' (xs ++ ys) (cloneVec c v w).2.evs held ∧ Fresh ins' (cloneVec c v w).2.nextId := cloneVec_own hc hd hf h w ho hfr

/-- `splice(range, iter)` with an iterator that reports any `size_hint` and panics at any `next` call
(`src.panicAt` arbitrary), destructors that may panic (`c.dropPanicAt` arbitrary), an arena that may
refuse the growth: after the unwinding — `Splice::drop`'s body is left where the panic struck, then
`Drain::drop` moves the tail back behind what was filled in, then the iterator is dropped — nothing
is reachable twice, nothing dropped is reachable, nothing is dropped twice, nothing leaks -/
theorem C16_splice {c : Cfg} {v : VS} {xs : List Elem} {ins held : List Nat} (hc : CfgOK c) (hd : c.needsDrop = true)
    (h : RepB c v xs) (s e : Bd) (src : Src) (take : Nat) (w : W) (ho : Own ins xs w.evs (ids src.items ++ held)) :
    ∃ ys, RepB c (spliceOp c v s e (.src src) take w).1 ys ∧ Own ins ys (spliceOp c v s e (.src src) take w).2.1.evs held :=
  spliceOp_own hc hd h s e src take w ho

/-- where the elements are after a `splice` whose iterator panicked: the vector is
`xs.take st ++ items.take j ++ xs.drop en` for the `j` items written before the panic — the tail is
always moved back, there is no hole and no stale copy inside `len` — and the other items have been
dropped, in order -/
theorem C16_splice_contents {c : Cfg} (hc : CfgOK c) {v : VS} {xs : List Elem} (h : RepB c v xs) {s e : Bd} {st en : Nat}
    (hok : DrainOK c xs.length s e st en) (src : Src) (take : Nat) (w : W) :
    ∃ (j : Nat) (ys : List Elem), j ≤ src.items.length ∧ ys = xs.take st ++ src.items.take j ++ xs.drop en ∧
      RepB c (spliceOp c v s e (.src src) take w).1 ys ∧
      (spliceOp c v s e (.src src) take w).2.1.evs = w.evs ++ movedEvs ((xs.drop st).take (min take (en - st))) ++
        dropEvs c ((xs.drop (st + min take (en - st))).take (en - (st + min take (en - st)))) ++ dropEvs c (src.items.drop j) ∧
      ((spliceOp c v s e (.src src) take w).2.2 ≠ none → j = src.items.length) := by
  obtain ⟨j, v', w', r, hrun, hj, hrep, hev, _, _, hres, _⟩ := spliceOp_spec hc 0 h hok src take w
  rw [hrun]
  refine ⟨j, _, hj, rfl, hrep, hev, ?_⟩
  intro hne
  cases r with
  | none => exact absurd rfl hne
  | some m => exact (hres m rfl).2

/-- `vec![in b; elem; n]` with a `Clone` that panics at any call: see `C15_vec_macro_n` -/
theorem C16_vec_macro_n {c : Cfg} {ins held : List Nat} (hc : CfgOK c) (hd : c.needsDrop = true) (hf : c.freshClone = true)
    (x : Elem) (n : Nat) (hnU : n < USIZE) (w : W) (ho : Own ins [] w.evs (x.id :: held)) (hfr : Fresh ins w.nextId) :
    ∃ ys ins', (∀ v', (vmacroN c x n w).1 = some v' → RepB c v' ys) ∧ ((vmacroN c x n w).1 = none → ys = []) ∧
      Own ins' ys (vmacroN c x n w).2.1.evs (if (vmacroN c x n w).2.2 then held else x.id :: held) ∧
      Fresh ins' (vmacroN c x n w).2.1.nextId :=
  vmacroN_own hc hd hf x n hnU w ho hfr

/-- a concrete unwinding: `[1,2,3,4].splice(1..3, iter)` where `iter` would yield `7,8,9` with
`size_hint` 3 and panics on its third `next` call (index 2, inside the second `fill`, after
`move_tail(1)`): the vector is `[1,7,8,4]` (tail moved back), `2` and `3` were dropped (nobody took
them), `9` is dropped with the iterator, nothing twice -/
theorem C16_splice_regression :
    let xs : List Elem := [⟨1, 1⟩, ⟨2, 2⟩, ⟨3, 3⟩, ⟨4, 4⟩]
    let r := spliceOp {} ⟨xs.map some, 4, 4⟩ (.inc 1) (.exc 3) (.src ⟨[⟨7, 7⟩, ⟨8, 8⟩, ⟨9, 9⟩], 3, 0, 0, some 2⟩) 0 {}
    r.1.owned.map (·.id) = [1, 7, 8, 4] ∧ r.2.1.evs = [.drop 2, .drop 3, .drop 9] ∧ r.2.2 = none := by
  decide

/-- the "drop the container afterwards" continuation, for any state satisfying the invariant:
no id is dropped twice, nothing moved out is dropped, what is neither dropped nor moved is
exactly what leaked or is held elsewhere -/
theorem C16_then_drop {c : Cfg} {v : VS} {xs : List Elem} {ins held : List Nat} (hd : c.needsDrop = true)
    (h : RepB c v xs) (w : W) (ho : Own ins xs w.evs held) :
    let evs' := (dropVec c v w).1.evs
    (evDrops evs').Nodup ∧ (∀ i ∈ evDrops evs', i ∉ evMoved evs') ∧ (evDrops evs' ++ evMoved evs' ++ held).Perm ins := by
  have ho' := (dropVec_own hd h w ho).2
  have hdist := ho'.distinct
  refine ⟨hdist.2.2.1, hdist.2.2.2, ?_⟩
  have := ho'.1
  simpa [Own] using this

/-- the F5 input on the fixed code: six elements, "remove evens", the predicate panics when
shown the element at index 3 during the caller's third `next()`: the vector keeps `[1,3,4,5]`
(1 was kept, 3 is the element the predicate panicked on, 4 and 5 were never examined), 0 and 2
went to the caller, nothing is dropped, nothing is duplicated -/
theorem C16_F5_regression :
    let xs : List Elem := [⟨0, 0⟩, ⟨1, 1⟩, ⟨2, 2⟩, ⟨3, 3⟩, ⟨4, 4⟩, ⟨5, 5⟩]
    let v : VS := ⟨xs.map some, 6, 6⟩
    let cb : Nat → Elem → Option Bool := fun k e => if k = 3 then none else some (e.val % 2 == 0)
    let r := drainFilterOp {} v cb 3 false {}
    r.1.owned.map (·.id) = [1, 3, 4, 5] ∧ r.2.1.evs = [.moveOut 0, .moveOut 2] ∧ r.2.2 = none := by
  decide

end Bump.V.C16

#print axioms Bump.V.C16.C16_drain_filter
#print axioms Bump.V.C16.C16_retain
#print axioms Bump.V.C16.C16_truncate
#print axioms Bump.V.C16.C16_drop
#print axioms Bump.V.C16.C16_then_drop
#print axioms Bump.V.C16.C16_F5_regression
#print axioms Bump.V.C16.C16_drain_drop
#print axioms Bump.V.C16.C16_into_iter_drop
#print axioms Bump.V.C16.C16_dedup_by
#print axioms Bump.V.C16.C16_extend
#print axioms Bump.V.C16.C16_from_iter
#print axioms Bump.V.C16.C16_resize
#print axioms Bump.V.C16.C16_extend_from_slice
#print axioms Bump.V.C16.C16_clone
#print axioms Bump.V.C16.C16_splice
#print axioms Bump.V.C16.C16_splice_contents
#print axioms Bump.V.C16.C16_vec_macro_n
#print axioms Bump.V.C16.C16_splice_regression
-- `into_iter().nth(n)` (core's default `Iterator::nth` on the owning iterator), Proofs/VecNth.lean
#print axioms Bump.V.intoIterNthOp_spec
#print axioms Bump.V.dropEach_past
#print axioms Bump.V.dropEach_panicked
