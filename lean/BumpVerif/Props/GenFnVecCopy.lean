import BumpVerif.Gen.FnVecCopy
import BumpVerif.Props.GenFnVec
import BumpVerif.Proofs.VecRefine2
/-!
# `Vec::{append_elements, extend_from_slice_copy_unchecked, extend_from_slice_copy}` as translated = the model

A slice outside the vector's buffer (`&[T]`, `*const [T]`) is the list of its slots; `ptr::copy_nonoverlapping` from it is
`VS.copyFrom`.  The unchecked `len + n` and the `debug_assert!(old_len + other.len() <= self.capacity())` of the source are `bad`
branches of the translation; the theorems show they are never taken after the `reserve` that precedes them (on every buffer
satisfying `BufOK`, under `CfgOK`).
-/
namespace Bump.V
open Bump Bump.RsM

theorem copyFrom_len (c : Cfg) (v : VS) (src : List (Option Elem)) (dst : Nat) (w : W) : (v.copyFrom c src dst w).1.len = v.len := by
  unfold VS.copyFrom
  split
  · rfl
  · simp only [VS.need]

/-- `extend_from_slice_copy(other)`: reserve, one copy, the length store — the model's `extendFromSliceCopy` -/
theorem gen_vec_extend_from_slice_copy (c : Cfg) (src : List Elem) (v : VS) (w : W) (hc : CfgOK c) (hb : BufOK c v)
    (hl : v.len ≤ capOf c v) :
    toModel (Gen.Fn.vec_extend_from_slice_copy c (src.map some) (v, w)) = extendFromSliceCopy c v src w := by
  unfold Gen.Fn.vec_extend_from_slice_copy extendFromSliceCopy
  rw [gen_vec_reserve]
  simp only [List.length_map]
  cases hr : rawReserve c v v.len src.length with
  | none => rfl
  | some v1 =>
    obtain ⟨hb1, hlen, hcap, _, _⟩ := rawReserve_buf hc hb hl hr
    have hlt := capOf_lt c v1 hb1.capLt
    have h1 : v1.len + src.length < USIZE := by omega
    have h2 : v1.len + src.length ≤ capOf c v1 := by omega
    simp only [bindW, Gen.Fn.vec_extend_from_slice_copy_unchecked, gen_vec_len, gen_vec_capacity, pureW, List.length_map, h1, if_true,
      h2, decide_true, copy_in, gen_vec_set_len]
    rw [List.take_of_length_le (by simp)]
    simp only [toModel, copyFrom_len]

/-- `extend_from_slice_copy_unchecked(other)` on a vector with room: the copy and the length store -/
theorem gen_vec_extend_from_slice_copy_unchecked (c : Cfg) (src : List (Option Elem)) (v : VS) (w : W)
    (hroom : v.len + src.length ≤ capOf c v) (hcap : capOf c v < USIZE) :
    Gen.Fn.vec_extend_from_slice_copy_unchecked c src (v, w) =
      (({ (v.copyFrom c src v.len w).1 with len := v.len + src.length }, (v.copyFrom c src v.len w).2), .ok ()) := by
  have h1 : v.len + src.length < USIZE := by omega
  simp only [Gen.Fn.vec_extend_from_slice_copy_unchecked, gen_vec_len, gen_vec_capacity, pureW, bindW, h1, if_true, hroom, decide_true,
    copy_in, gen_vec_set_len]
  rw [List.take_of_length_le (Nat.le_refl _)]

/-- `append_elements(other)`: reserve `count`, copy `count` slots behind `len`, `len += count` — the first and the last step of the
model's `append` (which then empties the other vector) -/
theorem gen_vec_append_elements (c : Cfg) (other : List (Option Elem)) (v : VS) (w : W) (hc : CfgOK c) (hb : BufOK c v)
    (hl : v.len ≤ capOf c v) :
    toModel (Gen.Fn.vec_append_elements c other (v, w)) =
      match rawReserve c v v.len other.length with
      | none => (v, w, none)
      | some a1 =>
        let r := a1.copyFrom c other a1.len w
        ({ r.1 with len := r.1.len + other.length }, r.2, some ()) := by
  unfold Gen.Fn.vec_append_elements
  simp only []
  rw [gen_vec_reserve]
  cases hr : rawReserve c v v.len other.length with
  | none => rfl
  | some v1 =>
    obtain ⟨hb1, hlen, hcap, _, _⟩ := rawReserve_buf hc hb hl hr
    have hlt := capOf_lt c v1 hb1.capLt
    simp only [bindW, gen_vec_len, pureW, copy_in, set_len]
    rw [List.take_of_length_le (Nat.le_refl _)]
    have hkeep : (v1.copyFrom c other v1.len w).1.len = v1.len := copyFrom_len c v1 other v1.len w
    have h1 : (v1.copyFrom c other v1.len w).1.len + other.length < USIZE := by rw [hkeep]; omega
    simp only [h1, if_true]
    rfl

/-- … so that `Vec::append(&mut other)` (`append_elements(other.as_slice())`, then `other.set_len(0)`) is the model's `append` -/
theorem gen_vec_append (c : Cfg) (a b : VS) (w : W) (hc : CfgOK c) (hb : BufOK c a) (hl : a.len ≤ capOf c a)
    (hbl : b.len ≤ b.slots.length) :
    (match toModel (Gen.Fn.vec_append_elements c (b.slots.take b.len) (a, w)) with
     | (a', w', some ()) => (a', { b with len := 0 }, w', some ())
     | (a', w', none) => (a', b, w', none)) = append c a b w := by
  rw [gen_vec_append_elements c _ a w hc hb hl]
  unfold append
  have hlen : (b.slots.take b.len).length = b.len := by simp [List.length_take]; omega
  rw [hlen]
  simp only []
  cases hr : rawReserve c a a.len b.len with
  | none => rfl
  | some a1 => rfl

#print axioms gen_vec_extend_from_slice_copy
#print axioms gen_vec_extend_from_slice_copy_unchecked
#print axioms gen_vec_append_elements
#print axioms gen_vec_append

end Bump.V
