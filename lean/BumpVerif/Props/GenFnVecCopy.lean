import BumpVerif.Gen.FnVecCopy
import BumpVerif.Props.GenFnVec
import BumpVerif.Proofs.VecRefine2
import BumpVerif.Proofs.VecCore
import BumpVerif.Proofs.VecExtend
import BumpVerif.Proofs.VecMore
/-!
# `Vec::{append_elements, extend_from_slice_copy_unchecked, extend_from_slice_copy}` as translated = the model

A slice outside the vector's buffer (`&[T]`, `*const [T]`) is the list of its slots; `ptr::copy_nonoverlapping` from it is
`VS.copyFrom`.  The unchecked `len + n` and the `debug_assert!(old_len + other.len() <= self.capacity())` of the source are `bad`
branches of the translation; the theorems show they are never taken after the `reserve` that precedes them (on every buffer
satisfying `BufOK`, under `CfgOK`).
-/
namespace Bump.V
open Bump Bump.RsM

/-- the translator's shape of a model result `(vector, effects, some () | none)`: `none` is a *panic* -/
def ofModel (m : VS × W × Option Unit) : VW × Outcome Unit :=
  ((m.1, m.2.1), match m.2.2 with | some _ => .ok () | none => .panic)

theorem toModel_ofModel (m : VS × W × Option Unit) : toModel (ofModel m) = m := by
  obtain ⟨v, w, o⟩ := m
  cases o <;> rfl

theorem copyFrom_len (c : Cfg) (v : VS) (src : List (Option Elem)) (dst : Nat) (w : W) : (v.copyFrom c src dst w).1.len = v.len := by
  unfold VS.copyFrom
  split
  · rfl
  · simp only [VS.need]

/-- `extend_from_slice_copy(other)`: reserve, one copy, the length store — the model's `extendFromSliceCopy` (it ends `ok` or
panics; its `bad` branches are never taken) -/
theorem gen_vec_extend_from_slice_copy_raw (c : Cfg) (src : List Elem) (v : VS) (w : W) (hc : CfgOK c) (hb : BufOK c v)
    (hl : v.len ≤ capOf c v) :
    Gen.Fn.vec_extend_from_slice_copy c (src.map some) (v, w) = ofModel (extendFromSliceCopy c v src w) := by
  unfold Gen.Fn.vec_extend_from_slice_copy extendFromSliceCopy
  rw [gen_vec_reserve]
  simp only [List.length_map]
  cases hr : rawReserve c v v.len src.length with
  | none => rfl
  | some v1 =>
    obtain ⟨hb1, hlen, hcap, _, _⟩ := rawReserve_buf hc hb hl hr
    have hlt := capOf_lt c v1 hb1.capLt
    have h1 : v1.len + src.length < USIZE := by omega
    have h2 : v1.len + src.length ≤ capOf c v1 := by omega
    simp only [bindW, Gen.Fn.vec_extend_from_slice_copy_unchecked, gen_vec_len, gen_vec_capacity, pureW, List.length_map, h1, if_true,
      h2, decide_true, copy_in, gen_vec_set_len]
    rw [List.take_of_length_le (by simp)]
    simp only [ofModel, copyFrom_len]

theorem gen_vec_extend_from_slice_copy (c : Cfg) (src : List Elem) (v : VS) (w : W) (hc : CfgOK c) (hb : BufOK c v)
    (hl : v.len ≤ capOf c v) :
    toModel (Gen.Fn.vec_extend_from_slice_copy c (src.map some) (v, w)) = extendFromSliceCopy c v src w := by
  rw [gen_vec_extend_from_slice_copy_raw c src v w hc hb hl, toModel_ofModel]

/-- `extend_from_slice_copy_unchecked(other)` on a vector with room: the copy and the length store -/
theorem gen_vec_extend_from_slice_copy_unchecked (c : Cfg) (src : List (Option Elem)) (v : VS) (w : W)
    (hroom : v.len + src.length ≤ capOf c v) (hcap : capOf c v < USIZE) :
    Gen.Fn.vec_extend_from_slice_copy_unchecked c src (v, w) =
      (({ (v.copyFrom c src v.len w).1 with len := v.len + src.length }, (v.copyFrom c src v.len w).2), .ok ()) := by
  have h1 : v.len + src.length < USIZE := by omega
  simp only [Gen.Fn.vec_extend_from_slice_copy_unchecked, gen_vec_len, gen_vec_capacity, pureW, bindW, h1, if_true, hroom, decide_true,
    copy_in, gen_vec_set_len]
  rw [List.take_of_length_le (Nat.le_refl _)]

/-- `append_elements(other)`: reserve `count`, copy `count` slots behind `len`, `len += count` — the first and the last step of the
model's `append` (which then empties the other vector) -/
theorem gen_vec_append_elements_raw (c : Cfg) (other : List (Option Elem)) (v : VS) (w : W) (hc : CfgOK c) (hb : BufOK c v)
    (hl : v.len ≤ capOf c v) :
    Gen.Fn.vec_append_elements c other (v, w) =
      ofModel (match rawReserve c v v.len other.length with
      | none => (v, w, none)
      | some a1 =>
        let r := a1.copyFrom c other a1.len w
        ({ r.1 with len := r.1.len + other.length }, r.2, some ())) := by
  unfold Gen.Fn.vec_append_elements
  simp only []
  rw [gen_vec_reserve]
  cases hr : rawReserve c v v.len other.length with
  | none => rfl
  | some v1 =>
    obtain ⟨hb1, hlen, hcap, _, _⟩ := rawReserve_buf hc hb hl hr
    have hlt := capOf_lt c v1 hb1.capLt
    simp only [bindW, gen_vec_len, pureW, copy_in, set_len]
    rw [List.take_of_length_le (Nat.le_refl _)]
    have hkeep : (v1.copyFrom c other v1.len w).1.len = v1.len := copyFrom_len c v1 other v1.len w
    have h1 : (v1.copyFrom c other v1.len w).1.len + other.length < USIZE := by rw [hkeep]; omega
    simp only [h1, if_true]
    rfl

theorem gen_vec_append_elements (c : Cfg) (other : List (Option Elem)) (v : VS) (w : W) (hc : CfgOK c) (hb : BufOK c v)
    (hl : v.len ≤ capOf c v) :
    toModel (Gen.Fn.vec_append_elements c other (v, w)) =
      match rawReserve c v v.len other.length with
      | none => (v, w, none)
      | some a1 =>
        let r := a1.copyFrom c other a1.len w
        ({ r.1 with len := r.1.len + other.length }, r.2, some ()) := by
  rw [gen_vec_append_elements_raw c other v w hc hb hl, toModel_ofModel]

/-- … so that `Vec::append(&mut other)` (`append_elements(other.as_slice())`, then `other.set_len(0)`) is the model's `append` -/
theorem gen_vec_append (c : Cfg) (a b : VS) (w : W) (hc : CfgOK c) (hb : BufOK c a) (hl : a.len ≤ capOf c a)
    (hbl : b.len ≤ b.slots.length) :
    (match toModel (Gen.Fn.vec_append_elements c (b.slots.take b.len) (a, w)) with
     | (a', w', some ()) => (a', { b with len := 0 }, w', some ())
     | (a', w', none) => (a', b, w', none)) = append c a b w := by
  rw [gen_vec_append_elements c _ a w hc hb hl]
  unfold append
  have hlen : (b.slots.take b.len).length = b.len := by simp [List.length_take]; omega
  rw [hlen]
  simp only []
  cases hr : rawReserve c a a.len b.len with
  | none => rfl
  | some a1 => rfl

/-! ## `Extend<T> for Vec`: reserve the lower size hint, then `for t in iter { self.push(t) }` with the iterator owned by the frame -/

/-- how a run of the loop reads in the model's terms: the vector, the effects *after* the iterator is gone, did it end normally -/
def loopView (c : Cfg) (r : VW × Outcome It) : VS × W × Bool × Bool :=
  match r with
  | ((v, w), .ok it) => (v, it.dropRest c w, true, it.remaining == 0)
  | ((v, w), .panic) => (v, w, false, true)
  | ((v, w), .bad why) => (v, w.flag why, false, false)
  | ((v, w), _) => (v, w.flag "?", false, false)

theorem it_next_remaining (c : Cfg) (w : W) (it : It) :
    match It.next c w it with
    | (_, it', some (some _)) => it'.remaining + 1 = it.remaining
    | (_, it', some none) => it'.remaining = 0
    | (_, _, none) => True := by
  cases it with
  | src s =>
    unfold It.next
    by_cases h : (s.panicAt == some s.calls) = true
    · simp [h]
    · simp only [h]
      cases hi : s.items with
      | nil => simp [It.remaining, hi]
      | cons e r => simp [It.remaining, hi]
  | cloned l =>
    cases l with
    | nil => simp [It.next, It.remaining]
    | cons e r =>
      simp only [It.next]
      rcases cloneElem c w e with ⟨w', o⟩
      cases o <;> simp [It.remaining]
  | owned l =>
    cases l with
    | nil => simp [It.next, It.remaining]
    | cons e r => simp [It.next, It.remaining]

/-- the translated loop against the model's `extendLoop`, for every fuel that covers what the iterator can still yield -/
theorem extend_loop (c : Cfg) (hc : CfgOK c) (it0 : It) (u : Unit) :
    ∀ (fuel : Nat) (it : It) (v : VS) (xs : List Elem) (w : W), RepB c v xs → it.remaining < fuel →
    (loopView c (Gen.Fn.vec_extend.loop_1 c it0 u fuel it (v, w))).1 = (extendLoop c fuel v it w).1 ∧
    (loopView c (Gen.Fn.vec_extend.loop_1 c it0 u fuel it (v, w))).2.1 = ((extendLoop c fuel v it w).2.1.dropRest c (extendLoop c fuel v it w).2.2.1) ∧
    (loopView c (Gen.Fn.vec_extend.loop_1 c it0 u fuel it (v, w))).2.2.1 = (extendLoop c fuel v it w).2.2.2 ∧
    (loopView c (Gen.Fn.vec_extend.loop_1 c it0 u fuel it (v, w))).2.2.2 = true := by
  intro fuel
  induction fuel with
  | zero => intro it v xs w _ h; omega
  | succ fuel ih =>
    intro it v xs w hr hlt
    unfold Gen.Fn.vec_extend.loop_1 extendLoop
    simp only [it_next]
    have hrem := it_next_remaining c w it
    rcases hn : It.next c w it with ⟨w1, it1, o⟩
    rw [hn] at hrem
    cases o with
    | none => simp [loopView, it_drop]
    | some oo =>
      cases oo with
      | none =>
        simp only [] at hrem
        simp [loopView, hrem]
      | some e =>
        simp only [] at hrem
        have hp := gen_vec_push_raw c v e w1 hr.lenCap hr.capLt
        rcases push_spec hc hr e w1 with ⟨v', hpush, hr'⟩ | ⟨hpush, _, _⟩
        · rw [hpush] at hp
          simp only [Prod.toVW, Option.isSome_some, if_true] at hp
          simp only [hp, bindU, hpush]
          exact ih it1 v' _ w1 hr' (by omega)
        · rw [hpush] at hp
          simp only [Prod.toVW, Option.isSome_none, Bool.false_eq_true, if_false] at hp
          simp only [hp, bindU, hpush, loopView, it_drop]
          simp

theorem dropRestP_exhausted (c : Cfg) (w : W) (it : It) (h : it.remaining = 0) :
    dropRestP c w it = (it.dropRest c w, false) := by
  cases it with
  | src s =>
    have : s.items = [] := by simpa [It.remaining] using h
    simp [dropRestP, It.dropRest, this, dropAll]
  | cloned l => simp [dropRestP, It.dropRest]
  | owned l =>
    have : l = [] := by simpa [It.remaining] using h
    simp [dropRestP, It.dropRest, this, dropAll]

theorem extend_reserve_none {c : Cfg} {v : VS} {it : It} {w : W} (h : rawReserve c v v.len it.hintLo = none) :
    extend c v it w = (v, it.dropRest c w, none) := by
  unfold extend extendRef; rw [h]; rfl

theorem extend_reserve_some {c : Cfg} {v v1 : VS} {it : It} {w : W} (h : rawReserve c v v.len it.hintLo = some v1) :
    extend c v it w = ((extendLoop c (it.remaining + 1) v1 it w).1,
      (extendLoop c (it.remaining + 1) v1 it w).2.1.dropRest c (extendLoop c (it.remaining + 1) v1 it w).2.2.1,
      bif (extendLoop c (it.remaining + 1) v1 it w).2.2.2 then some () else none) := by
  unfold extend extendRef; rw [h]
  show (match extendLoop c (it.remaining + 1) v1 it w with
        | (v, it, w, ok) => (v, It.dropRest c w it, if ok = true then some () else none)) = _
  rcases extendLoop c (it.remaining + 1) v1 it w with ⟨a, b, d, e⟩
  cases e <;> rfl

/-- `Extend::extend(iter)` as translated is the model's `extend`: also when `reserve`, `next`, `push` or `Clone` panics half-way
(and it ends `ok` or panics: no `bad` step is ever taken) -/
theorem gen_vec_extend_raw (c : Cfg) (hc : CfgOK c) (it : It) (v : VS) (xs : List Elem) (w : W) (hr : RepB c v xs) :
    Gen.Fn.vec_extend c it (v, w) = ofModel (extend c v it w) := by
  unfold Gen.Fn.vec_extend
  simp only []
  rw [gen_vec_reserve]
  cases hres : rawReserve c v v.len it.hintLo with
  | none => rw [extend_reserve_none hres]; simp [bindU, it_drop, ofModel]
  | some v1 =>
    obtain ⟨hr1, _, _⟩ := rawReserve_some hc hr hres
    rw [extend_reserve_some hres]
    simp only [bindU]
    have hloop := extend_loop c hc it () (it.remaining + 1) it v1 xs w hr1 (by omega)
    rcases hg : Gen.Fn.vec_extend.loop_1 c it () (it.remaining + 1) it (v1, w) with ⟨⟨a, b⟩, o⟩
    rw [hg] at hloop
    obtain ⟨h1, h2, h3, h4⟩ := hloop
    cases o with
    | ok it' =>
      simp only [loopView] at h1 h2 h3 h4
      have hex : it'.remaining = 0 := by simpa using h4
      simp only [bindW, it_drop_end, dropRestP_exhausted c b it' hex]
      rw [← h1, ← h2, ← h3]; rfl
    | panic =>
      simp only [loopView] at h1 h2 h3
      simp only [bindW]
      rw [← h1, ← h2, ← h3]; rfl
    | bad why => simp [loopView] at h4
    | err => simp [loopView] at h4
    | envBad => simp [loopView] at h4

theorem gen_vec_extend (c : Cfg) (hc : CfgOK c) (it : It) (v : VS) (xs : List Elem) (w : W) (hr : RepB c v xs) :
    toModel (Gen.Fn.vec_extend c it (v, w)) = extend c v it w := by
  rw [gen_vec_extend_raw c hc it v xs w hr, toModel_ofModel]

/-! ## functions that build a new vector: `from_iter_in`, `Clone::clone` -/

/-- the vector built (`none`: the function panicked, after dropping what it had built) and the effects -/
def builtView (r : VW × Outcome Unit) : Option VS × W :=
  match r with
  | ((v, w), .ok _) => (some v, w)
  | ((_, w), .panic) => (none, w)
  | ((_, w), .bad why) => (none, w.flag why)
  | ((_, w), _) => (none, w.flag "?")

/-- `Vec::from_iter_in(iter, bump)` as translated is the model's `fromIter`, whatever vector the state held before -/
theorem gen_vec_from_iter_in (c : Cfg) (hc : CfgOK c) (it : It) (v0 : VS) (w : W) :
    builtView (Gen.Fn.vec_from_iter_in c it () (v0, w)) = fromIter c it w := by
  unfold Gen.Fn.vec_from_iter_in fromIter
  simp only [gen_vec_new_in, new_vec, bindU]
  rw [gen_vec_extend_raw c hc it newVec [] w (newVec_rep c)]
  rcases extend c newVec it w with ⟨v, w', o⟩
  cases o <;> simp [ofModel, bindU, builtView, drop_vec]

/-- `Clone for Vec` as translated is the model's `cloneVec`: capacity for `len` elements, then the clones pushed in order; a
refused allocation or a panicking `Clone` leaves nothing behind but the events of the drops -/
theorem gen_vec_clone (c : Cfg) (hc : CfgOK c) (v : VS) (w : W) (hl : v.len < USIZE) :
    builtView (Gen.Fn.vec_clone c (v, w)) = cloneVec c v w := by
  unfold Gen.Fn.vec_clone cloneVec
  simp only [gen_vec_len, pureW, gen_vec_with_capacity_in]
  cases hcap : withCapacity c v.len with
  | none => simp [hcap, new_vec, bindW, builtView]
  | some n =>
    have hrep : RepB c n [] := (withCapacity_some hc hl hcap).1
    simp only [hcap, new_vec, bindW]
    rw [gen_vec_extend_raw c hc _ n [] w hrep]
    rcases extend c n (It.cloned v.owned) w with ⟨v', w', o⟩
    cases o <;> simp [ofModel, bindU, builtView, drop_vec]

/-! ## two vectors: `append(&mut other)`, `split_off(at)` (the second vector is a value next to the threaded one) -/

/-- `Vec::append(&mut other)` itself: `append_elements(other.as_slice())`, then `other.set_len(0)` — the model's `append`; the value
returned is the other vector as the call leaves it -/
theorem gen_vec_append_whole (c : Cfg) (a b : VS) (w : W) (hc : CfgOK c) (hb : BufOK c a) (hl : a.len ≤ capOf c a)
    (hbl : b.len ≤ b.slots.length) :
    (match Gen.Fn.vec_append c b (a, w) with
     | ((a', w'), .ok b') => (a', b', w', some ())
     | ((a', w'), _) => (a', b, w', none)) = append c a b w := by
  unfold Gen.Fn.vec_append
  rw [gen_vec_append_elements_raw c _ a w hc hb hl]
  unfold append
  have hlen : (b.slots.take b.len).length = b.len := by simp [List.length_take]; omega
  rw [hlen]
  simp only []
  cases hr : rawReserve c a a.len b.len with
  | none => rfl
  | some a1 => rfl

/-- `Vec::split_off(at)`: the bounds assertion, a new vector with room for the tail, the receiver's length lowered, one copy — the
model's `splitOff` -/
theorem gen_vec_split_off (c : Cfg) (v : VS) (at_ : Nat) (w : W) :
    (match Gen.Fn.vec_split_off c at_ (v, w) with
     | ((v', w'), .ok o) => (v', some o, w')
     | ((v', w'), .bad why) => (v', none, w'.flag why)
     | ((v', w'), _) => (v', none, w')) = splitOff c v at_ w := by
  unfold Gen.Fn.vec_split_off splitOff
  simp only [gen_vec_len, pureW, bindW, gen_vec_with_capacity_in, gen_vec_set_len]
  by_cases hat : at_ ≤ v.len
  · have hn : ¬ at_ > v.len := by omega
    simp only [hat, decide_true, if_true, hn, if_false]
    cases hcap : withCapacity c (v.len - at_) with
    | none => rfl
    | some o =>
      simp only [copy_out]
      have hk := copyFrom_len c { o with len := v.len - at_ } ((v.slots.drop at_).take (v.len - at_)) 0 w
      have hsame : ∀ (n : Nat), ({ o with len := n } : VS).copyFrom c ((v.slots.drop at_).take (v.len - at_)) 0 w =
          ({ (o.copyFrom c ((v.slots.drop at_).take (v.len - at_)) 0 w).1 with len := n }, (o.copyFrom c ((v.slots.drop at_).take (v.len - at_)) 0 w).2) := by
        intro n
        unfold VS.copyFrom
        split
        · rfl
        · simp only [VS.need]
      rw [hsame]
  · have hn : at_ > v.len := by omega
    have hd : decide (at_ ≤ v.len) = false := by simpa using hat
    simp [hd, hn]

/-! ## `dedup_by_key`, `dedup`: `dedup_by` with a closure built from a key / from `PartialEq` -/

theorem bind_ok_unit (r : VW × Outcome Unit) : (bindW r fun s x => (s, Outcome.ok x)) = r := by
  obtain ⟨s, o⟩ := r
  cases o <;> rfl

/-- `dedup_by_key(key)` is `dedup_by(|a, b| key(a) == key(b))` -/
theorem gen_vec_dedup_by_key (c : Cfg) (key : Elem → Nat) (s : VW) :
    Gen.Fn.vec_dedup_by_key c key s = Gen.Fn.vec_dedup_by c (fun _ a b => some (key a == key b)) s := by
  unfold Gen.Fn.vec_dedup_by_key
  exact bind_ok_unit _

/-- `dedup()` is `dedup_by(|a, b| a == b)` (equality of the elements' values) -/
theorem gen_vec_dedup (c : Cfg) (s : VW) :
    Gen.Fn.vec_dedup c s = Gen.Fn.vec_dedup_by c (fun _ a b => some (a.val == b.val)) s := by
  unfold Gen.Fn.vec_dedup
  exact bind_ok_unit _

/-! ## one-line wrappers: `extend_from_slice`, `io::Write` -/

/-- `extend_from_slice(other)` is `extend(other.iter().cloned())`: the model's `extend` over `It.cloned` -/
theorem gen_vec_extend_from_slice (c : Cfg) (hc : CfgOK c) (src : List Elem) (v : VS) (xs : List Elem) (w : W) (hr : RepB c v xs) :
    toModel (Gen.Fn.vec_extend_from_slice c src (v, w)) = extend c v (.cloned src) w := by
  unfold Gen.Fn.vec_extend_from_slice
  rw [gen_vec_extend_raw c hc _ v xs w hr]
  rcases extend c v (It.cloned src) w with ⟨v', w', o⟩
  cases o <;> rfl

/-- `Extend<&'a T>` (for `T: Copy`) is `extend(iter.cloned())`: the same function as `extend_from_slice` of the referenced
elements -/
theorem gen_vec_extend_refs (c : Cfg) (hc : CfgOK c) (src : List Elem) (v : VS) (xs : List Elem) (w : W) (hr : RepB c v xs) :
    toModel (Gen.Fn.vec_extend_refs c src (v, w)) = extend c v (.cloned src) w := by
  unfold Gen.Fn.vec_extend_refs
  rw [gen_vec_extend_raw c hc _ v xs w hr]
  rcases extend c v (It.cloned src) w with ⟨v', w', o⟩
  cases o <;> rfl

#print axioms gen_vec_extend_refs

/-- `io::Write::write(buf)` for `Vec<u8>`: `extend_from_slice_copy(buf)`, then `Ok(buf.len())` — the model's `ioWrite` -/
theorem gen_vec_io_write (c : Cfg) (src : List Elem) (v : VS) (w : W) (hc : CfgOK c) (hb : BufOK c v) (hl : v.len ≤ capOf c v) :
    (match Gen.Fn.vec_io_write c (src.map some) (v, w) with
     | (s, .ok n) => (s.1, s.2, some n)
     | (s, _) => (s.1, s.2, none)) = ioWrite c v src w := by
  unfold Gen.Fn.vec_io_write ioWrite
  rw [gen_vec_extend_from_slice_copy_raw c src v w hc hb hl]
  rcases extendFromSliceCopy c v src w with ⟨v', w', o⟩
  cases o <;> simp [ofModel, bindW]

/-- `write_all(buf)` is `extend_from_slice_copy(buf)`; `flush` does nothing -/
theorem gen_vec_io_write_all (c : Cfg) (src : List Elem) (v : VS) (w : W) (hc : CfgOK c) (hb : BufOK c v) (hl : v.len ≤ capOf c v) :
    toModel (Gen.Fn.vec_io_write_all c (src.map some) (v, w)) = extendFromSliceCopy c v src w := by
  unfold Gen.Fn.vec_io_write_all
  rw [gen_vec_extend_from_slice_copy_raw c src v w hc hb hl]
  rcases extendFromSliceCopy c v src w with ⟨v', w', o⟩
  cases o <;> rfl

theorem gen_vec_io_flush (c : Cfg) (s : VW) : Gen.Fn.vec_io_flush c s = (s, .ok ()) := rfl

#print axioms gen_vec_extend_from_slice_copy
#print axioms gen_vec_extend_from_slice
#print axioms gen_vec_dedup_by_key
#print axioms gen_vec_dedup
#print axioms gen_vec_append_whole
#print axioms gen_vec_split_off
#print axioms gen_vec_io_write
#print axioms gen_vec_io_write_all
#print axioms gen_vec_extend
#print axioms gen_vec_from_iter_in
#print axioms gen_vec_clone
#print axioms gen_vec_extend_from_slice_copy_unchecked
#print axioms gen_vec_append_elements
#print axioms gen_vec_append

end Bump.V
