import BumpVerif.Props.GenFnVec
/-!
# `partition_dedup_by` / `Vec::dedup_by` as translated = the model's `dedupLoop` / `dedupBy`

The source's `while next_read < len` loop is translated as a fuel-recursive function started with `2^64` units of fuel;
the model's loop carries `len` units.  Both have enough: the loop lemma is by induction on the model's fuel for *any*
translation fuel above `len - next_read`.  The closure is data (`cb k a b` = the answer of its `k`-th call, `none` = that
call panics); that it may also write through the two `&mut T` it is handed is not modelled.
-/
namespace Bump.V
open Bump Rs RsV RsM

/-! ## the model's loop, case by case -/

theorem dedupLoop_done (cb : Nat → Elem → Elem → Option Bool) (len f : Nat) (s : List (Option Elem)) (r wr calls : Nat) (w : W)
    (h : ¬ r < len) : dedupLoop cb len (f + 1) s r wr calls w = (s, wr, w, true) := by
  conv => lhs; unfold dedupLoop
  rw [if_pos h]

theorem dedupLoop_ub (cb : Nat → Elem → Elem → Option Bool) (len f : Nat) (s : List (Option Elem)) (r wr calls : Nat) (w : W)
    (h : r < len) (hu : (s[r]?).join = none ∨ (s[wr - 1]?).join = none) :
    dedupLoop cb len (f + 1) s r wr calls w = (s, wr, w.flag "dedup read an uninitialised slot", true) := by
  conv => lhs; unfold dedupLoop
  rw [if_neg (by simpa using h)]
  cases h1 : (s[r]?).join with
  | none => rfl
  | some a =>
    cases h2 : (s[wr - 1]?).join with
    | none => rfl
    | some b => rcases hu with hu | hu <;> simp_all

theorem dedupLoop_step (cb : Nat → Elem → Elem → Option Bool) (len f : Nat) (s : List (Option Elem)) (r wr calls : Nat) (w : W)
    (a b : Elem) (h : r < len) (h1 : (s[r]?).join = some a) (h2 : (s[wr - 1]?).join = some b) :
    dedupLoop cb len (f + 1) s r wr calls w =
      match cb calls a b with
      | none => (s, wr, w, false)
      | some true => dedupLoop cb len f s (r + 1) wr (calls + 1) w
      | some false => dedupLoop cb len f (if r ≠ wr then swapSlots s r wr else s) (r + 1) (wr + 1) (calls + 1) w := by
  conv => lhs; unfold dedupLoop
  rw [if_neg (by simpa using h), h1, h2]
  rfl

/-! ## the loop lemma -/

theorem gen_dedup_loop (c : Cfg) (cb : Nat → Elem → Elem → Option Bool) (vlen cap : Nat) (hv : vlen < USIZE) :
    ∀ (f F : Nat) (slots : List (Option Elem)) (r wr calls : Nat) (w : W),
      vlen - r < f → vlen - r < F → 1 ≤ wr → wr ≤ r → r ≤ vlen →
      ((dedupLoop cb vlen f slots r wr calls w).2.2.1 = w ∧ (dedupLoop cb vlen f slots r wr calls w).2.1 ≤ vlen ∧
        ((dedupLoop cb vlen f slots r wr calls w).2.2.2 = true →
          ∃ r' calls', Gen.Fn.vec_partition_dedup_by.loop_1 c (0, vlen) cb vlen 0 F r wr calls (⟨slots, vlen, cap⟩, w) =
            ((⟨(dedupLoop cb vlen f slots r wr calls w).1, vlen, cap⟩, w), .ok (r', (dedupLoop cb vlen f slots r wr calls w).2.1, calls'))) ∧
        ((dedupLoop cb vlen f slots r wr calls w).2.2.2 = false →
          Gen.Fn.vec_partition_dedup_by.loop_1 c (0, vlen) cb vlen 0 F r wr calls (⟨slots, vlen, cap⟩, w) =
            ((⟨(dedupLoop cb vlen f slots r wr calls w).1, vlen, cap⟩, w), .panic))) ∨
      (w.bad.length < (dedupLoop cb vlen f slots r wr calls w).2.2.1.bad.length ∧
        ∃ s' why, Gen.Fn.vec_partition_dedup_by.loop_1 c (0, vlen) cb vlen 0 F r wr calls (⟨slots, vlen, cap⟩, w) = (s', .bad why) ∧
          s'.2.bad = w.bad) := by
  intro f
  induction f with
  | zero => intro F slots r wr calls w h; omega
  | succ f ih =>
    intro F slots r wr calls w hf hF h1 hwr hr
    cases F with
    | zero => omega
    | succ F =>
      unfold Gen.Fn.vec_partition_dedup_by.loop_1
      by_cases hlt : r < vlen
      · have hd : decide (r < vlen) = true := by simpa using hlt
        simp only [hd, if_true, h1, Nat.zero_add, RsM.read, VS.read]
        cases ha : (slots[r]?).join with
        | none =>
          right
          rw [dedupLoop_ub cb vlen f slots r wr calls w hlt (Or.inl ha)]
          refine ⟨by simp [W.flag], ?_⟩
          cases (slots[wr - 1]?).join <;> exact ⟨_, _, rfl, rfl⟩
        | some a =>
          cases hb : (slots[wr - 1]?).join with
          | none =>
            right
            rw [dedupLoop_ub cb vlen f slots r wr calls w hlt (Or.inr hb)]
            exact ⟨by simp [W.flag], _, _, rfl, rfl⟩
          | some b =>
            rw [dedupLoop_step cb vlen f slots r wr calls w a b hlt ha hb]
            simp only []
            have hr1 : r + 1 < USIZE := by omega
            have hw1 : wr + 1 < USIZE := by omega
            cases hcb : cb calls a b with
            | none =>
              left
              simp
              omega
            | some ans =>
              cases ans with
              | true =>
                simp only [Bool.not_true, Bool.false_eq_true, if_false, hr1, if_true]
                exact ih F slots (r + 1) wr (calls + 1) w (by omega) (by omega) h1 (by omega) (by omega)
              | false =>
                simp only [Bool.not_false, if_true, hr1, hw1]
                by_cases hne : r = wr
                · have hb' : (r != wr) = false := by simp [hne]
                  have hs : (if r ≠ wr then swapSlots slots r wr else slots) = slots := by simp [hne]
                  rw [hb', hs]
                  simp only [Bool.false_eq_true, if_false]
                  exact ih F slots (r + 1) (wr + 1) (calls + 1) w (by omega) (by omega) (by omega) (by omega) (by omega)
                · have hb' : (r != wr) = true := by simp [hne]
                  have hs : (if r ≠ wr then swapSlots slots r wr else slots) = swapSlots slots r wr := by simp [hne]
                  have hw : wr - 1 + 1 = wr := by omega
                  rw [hb', hs]
                  simp only [if_true, RsM.swap, bindW, hw]
                  exact ih F (swapSlots slots r wr) (r + 1) (wr + 1) (calls + 1) w (by omega) (by omega) (by omega) (by omega) (by omega)
      · have hd : decide (r < vlen) = false := by simpa using hlt
        rw [dedupLoop_done cb vlen f slots r wr calls w hlt]
        left
        simp only [hd, Bool.false_eq_true, if_false]
        refine ⟨trivial, by omega, fun _ => ⟨r, calls, rfl⟩, fun h => by simp at h⟩

/-! ## `dedup_by` -/

theorem truncLoop_bad_mono (c : Cfg) (slots : List (Option Elem)) :
    ∀ (k l : Nat) (w : W), w.bad.length ≤ (truncLoop c slots k l w).2.1.bad.length := by
  intro k
  induction k with
  | zero => intro l w; simp [truncLoop]
  | succ k ih =>
    intro l w
    unfold truncLoop
    cases (slots[l - 1]?).join with
    | none => simp [W.flag]
    | some e =>
      simp only []
      cases hp : (dropElem c w e).2 with
      | true => simp [dropElem_bad]
      | false =>
        simp only [Bool.false_eq_true, if_false]
        have := ih (l - 1) (dropElem c w e).1
        rw [dropElem_bad] at this
        exact this

theorem truncate_bad_mono (c : Cfg) (v : VS) (n : Nat) (w : W) : w.bad.length ≤ (V.truncate c v n w).2.1.bad.length := by
  unfold V.truncate
  exact truncLoop_bad_mono c v.slots (v.len - n) v.len w

theorem dedupBy_small {c : Cfg} {v : VS} {cb : Nat → Elem → Elem → Option Bool} {w : W} (h : v.len ≤ 1) :
    V.dedupBy c v cb w = V.truncate c v v.len w := by
  unfold V.dedupBy; exact if_pos h
theorem dedupBy_panic {c : Cfg} {v : VS} {cb : Nat → Elem → Elem → Option Bool} {w : W} (h : ¬ v.len ≤ 1)
    (hk : (dedupLoop cb v.len v.len v.slots 1 1 0 w).2.2.2 = false) :
    V.dedupBy c v cb w = ({ v with slots := (dedupLoop cb v.len v.len v.slots 1 1 0 w).1 }, (dedupLoop cb v.len v.len v.slots 1 1 0 w).2.2.1, none) := by
  unfold V.dedupBy; rw [if_neg h]
  generalize dedupLoop cb v.len v.len v.slots 1 1 0 w = m at hk ⊢
  obtain ⟨s, wr, w', ok⟩ := m
  simp only at hk
  subst hk; rfl
theorem dedupBy_ok {c : Cfg} {v : VS} {cb : Nat → Elem → Elem → Option Bool} {w : W} (h : ¬ v.len ≤ 1)
    (hk : (dedupLoop cb v.len v.len v.slots 1 1 0 w).2.2.2 = true) :
    V.dedupBy c v cb w =
      V.truncate c { v with slots := (dedupLoop cb v.len v.len v.slots 1 1 0 w).1 } (dedupLoop cb v.len v.len v.slots 1 1 0 w).2.1
        (dedupLoop cb v.len v.len v.slots 1 1 0 w).2.2.1 := by
  unfold V.dedupBy; rw [if_neg h]
  generalize dedupLoop cb v.len v.len v.slots 1 1 0 w = m at hk ⊢
  obtain ⟨s, wr, w', ok⟩ := m
  simp only at hk
  subst hk; rfl

/-- what `partition_dedup_by(self.as_mut_slice(), f)` leaves behind, against the model's loop -/
theorem gen_vec_partition_dedup_by (c : Cfg) (cb : Nat → Elem → Elem → Option Bool) (slots : List (Option Elem)) (vlen cap : Nat) (w : W)
    (hv : vlen < USIZE) (h2 : ¬ vlen ≤ 1) :
    ((dedupLoop cb vlen vlen slots 1 1 0 w).2.2.1 = w ∧
      ((dedupLoop cb vlen vlen slots 1 1 0 w).2.2.2 = true →
        Gen.Fn.vec_partition_dedup_by c (0, vlen) cb (⟨slots, vlen, cap⟩, w) =
          ((⟨(dedupLoop cb vlen vlen slots 1 1 0 w).1, vlen, cap⟩, w),
            .ok ((0, (dedupLoop cb vlen vlen slots 1 1 0 w).2.1),
                 (0 + (dedupLoop cb vlen vlen slots 1 1 0 w).2.1, vlen - (dedupLoop cb vlen vlen slots 1 1 0 w).2.1)))) ∧
      ((dedupLoop cb vlen vlen slots 1 1 0 w).2.2.2 = false →
        Gen.Fn.vec_partition_dedup_by c (0, vlen) cb (⟨slots, vlen, cap⟩, w) =
          ((⟨(dedupLoop cb vlen vlen slots 1 1 0 w).1, vlen, cap⟩, w), .panic))) ∨
    (w.bad.length < (dedupLoop cb vlen vlen slots 1 1 0 w).2.2.1.bad.length ∧
      ∃ s' why, Gen.Fn.vec_partition_dedup_by c (0, vlen) cb (⟨slots, vlen, cap⟩, w) = (s', .bad why) ∧ s'.2.bad = w.bad) := by
  have hd : decide (vlen ≤ 1) = false := by simpa using h2
  unfold Gen.Fn.vec_partition_dedup_by
  simp only [hd, Bool.false_eq_true, if_false]
  rcases gen_dedup_loop c cb vlen cap hv vlen USIZE slots 1 1 0 w (by omega) (by omega) (by omega) (by omega) (by omega)
    with ⟨hw, hle, hok, hpanic⟩ | ⟨hlt, s', why, hg, hb⟩
  · left
    refine ⟨hw, fun h => ?_, fun h => ?_⟩
    · obtain ⟨r', calls', hg⟩ := hok h
      have hdl : decide ((dedupLoop cb vlen vlen slots 1 1 0 w).2.1 ≤ vlen) = true := by simpa using hle
      simp only [hg, bindW, hdl, if_true]
    · simp only [hpanic h, bindW]
  · right
    exact ⟨hlt, s', why, by simp only [hg, bindW], hb⟩

/-- `Vec::dedup_by` as translated is the model's `dedupBy` -/
theorem gen_vec_dedup_by (c : Cfg) (v : VS) (cb : Nat → Elem → Elem → Option Bool) (w : W) (hv : v.len < USIZE) :
    agree w (toModel (Gen.Fn.vec_dedup_by c cb (v, w))) (V.dedupBy c v cb w) := by
  obtain ⟨slots, vlen, cap⟩ := v
  unfold Gen.Fn.vec_dedup_by
  by_cases h2 : vlen ≤ 1
  · rw [dedupBy_small (by exact h2)]
    have hd : decide (vlen ≤ 1) = true := by simpa using h2
    simp only [Gen.Fn.vec_partition_dedup_by, hd, if_true, bindW]
    rcases gen_vec_truncate_cases c ⟨slots, vlen, cap⟩ vlen w with ⟨s, h1, h2⟩ | ⟨s, h1, h2⟩ | ⟨s, why, h1, h2, h3⟩
    · left; rw [h1, h2]; rfl
    · left; rw [h1, h2]; rfl
    · right; rw [h1]; exact ⟨by simp [toModel, W.flag, h2], h3⟩
  · rcases gen_vec_partition_dedup_by c cb slots vlen cap w hv h2 with ⟨hw, hok, hpanic⟩ | ⟨hlt, s', why, hg, hb⟩
    · cases hk : (dedupLoop cb vlen vlen slots 1 1 0 w).2.2.2 with
      | false =>
        left
        rw [dedupBy_panic (by exact h2) (by exact hk), hpanic hk, hw]
        rfl
      | true =>
        rw [dedupBy_ok (by exact h2) (by exact hk), hok hk, hw]
        simp only [bindW]
        rcases gen_vec_truncate_cases c ⟨(dedupLoop cb vlen vlen slots 1 1 0 w).1, vlen, cap⟩ (dedupLoop cb vlen vlen slots 1 1 0 w).2.1 w
          with ⟨s, h1, h2⟩ | ⟨s, h1, h2⟩ | ⟨s, why, h1, h2, h3⟩
        · left; rw [h1, h2]; rfl
        · left; rw [h1, h2]; rfl
        · right; rw [h1]; exact ⟨by simp [toModel, W.flag, h2], h3⟩
    · right
      rw [hg]
      refine ⟨by simp [bindW, toModel, W.flag, hb], ?_⟩
      -- the model went on after the flagged read; truncation keeps the flag
      cases hk : (dedupLoop cb vlen vlen slots 1 1 0 w).2.2.2 with
      | false => rw [dedupBy_panic (by exact h2) (by exact hk)]; exact hlt
      | true =>
        rw [dedupBy_ok (by exact h2) (by exact hk)]
        exact Nat.lt_of_lt_of_le hlt (truncate_bad_mono c _ _ _)

#print axioms gen_dedup_loop
#print axioms gen_vec_partition_dedup_by
#print axioms gen_vec_dedup_by

end Bump.V
