import BumpVerif.Props.GenFnFooter
import BumpVerif.Gen.FnIter
import BumpVerif.Proofs.Inv
/-! # Chunk iteration as translated (`ChunkRawIter::next`, `ChunkFooter::as_raw_parts`) yields the model's `iterChunks`

`iter_allocated_chunks_raw` starts at the current footer and calls `next` until it returns `None`.  The model's
iteration is `iterChunks a = a.chunks.map (fun c => (c.ptr, c.footer - c.ptr))`. -/
namespace Bump
open Rs Gen

/-- run the translated `next` from `pos` until it yields `None` (at most `fuel` items) -/
def iterRun (E M : Nat) (s : St) : Nat → Chunk → Outcome (List (Nat × Nat))
  | 0, _ => .ok []
  | fuel + 1, pos =>
    bindP (Gen.Fn.chunk_raw_iter_next E M pos s) fun r =>
      match r.1 with
      | none => .ok []
      | some it => bindP (iterRun E M s fuel r.2) fun rest => .ok (it :: rest)

/-- what iteration needs of the chunk list: real chunks are not the static, have distinct footers, and their finger lies
inside them -/
structure IterOK (E : Nat) (cs : List Chunk) : Prop where
  notStatic : ∀ c ∈ cs, c.footer ≠ E
  distinct : cs.Pairwise (fun c d => c.footer ≠ d.footer)
  inside : ∀ c ∈ cs, c.data ≤ c.ptr ∧ c.ptr ≤ c.footer

theorem IterOK.tail {E c cs} (h : IterOK E (c :: cs)) : IterOK E cs :=
  ⟨fun d hd => h.notStatic d (List.mem_cons_of_mem _ hd), (List.pairwise_cons.1 h.distinct).2,
   fun d hd => h.inside d (List.mem_cons_of_mem _ hd)⟩

theorem prevIn_skip (d : Chunk) (pre : List Chunk) (c : Chunk) (rest : List Chunk)
    (hpre : ∀ p ∈ pre, p.footer ≠ c.footer) :
    prevIn c.footer d (pre ++ c :: rest) = rest.headD d := by
  induction pre with
  | nil =>
    show prevIn c.footer d (c :: rest) = _
    rw [prevIn]
    simp only [beq_self_eq_true, if_true]
  | cons p ps ih =>
    have hp : p.footer ≠ c.footer := hpre p (by simp)
    show prevIn c.footer d (p :: (ps ++ c :: rest)) = _
    rw [prevIn]
    have hb : (p.footer == c.footer) = false := by simpa using hp
    simp only [hb, Bool.false_eq_true, if_false]
    exact ih (fun q hq => hpre q (List.mem_cons_of_mem _ hq))

theorem next_static (E M : Nat) (s : St) :
    Gen.Fn.chunk_raw_iter_next E M (emptyChunk E) s = .ok (none, emptyChunk E) := by
  simp only [Gen.Fn.chunk_raw_iter_next, Gen.Fn.is_empty, bindP, beq_self_eq_true, if_true]

theorem iterRun_succ (E M : Nat) (s : St) (fuel : Nat) (pos : Chunk) :
    iterRun E M s (fuel + 1) pos =
      bindP (Gen.Fn.chunk_raw_iter_next E M pos s) fun r =>
        match r.1 with
        | none => .ok []
        | some it => bindP (iterRun E M s fuel r.2) fun rest => .ok (it :: rest) := rfl

/-- iterating from the `i`-th chunk on yields the model's items of that suffix -/
theorem iterRun_suffix (E M : Nat) (s : St) (pre suf : List Chunk) (hs : s.a.chunks = pre ++ suf)
    (hok : IterOK E (pre ++ suf)) :
    iterRun E M s (suf.length + 1) (suf.headD (emptyChunk E)) = .ok (suf.map (fun c => (c.ptr, c.footer - c.ptr))) := by
  induction suf generalizing pre with
  | nil =>
    show iterRun E M s (0 + 1) (emptyChunk E) = _
    rw [iterRun_succ, next_static]
    rfl
  | cons c rest ih =>
    have hmem : c ∈ pre ++ c :: rest := by simp
    have hns : c.footer ≠ E := hok.notStatic c hmem
    obtain ⟨hin1, hin2⟩ := hok.inside c hmem
    -- chunks before `c` have other footers
    have hpre : ∀ p ∈ pre, p.footer ≠ c.footer := by
      intro p hp
      have := List.pairwise_append.1 hok.distinct
      exact this.2.2 p hp c (by simp)
    have hprev : chunk_prev E s c = rest.headD (emptyChunk E) := by
      unfold chunk_prev; rw [hs]; exact prevIn_skip _ pre c rest hpre
    have hnext : Gen.Fn.chunk_raw_iter_next E M c s = .ok (some (c.ptr, c.footer - c.ptr), rest.headD (emptyChunk E)) := by
      simp only [Gen.Fn.chunk_raw_iter_next, Gen.Fn.is_empty, Gen.Fn.as_raw_parts, bindP, emptyChunk_footer, beq_iff_eq, hns,
        if_false, hin1, hin2, decide_true, if_true, hprev]
    have hih := ih (pre ++ [c]) (by simp [hs]) (by simpa using hok)
    show iterRun E M s ((rest.length + 1) + 1) c = _
    rw [iterRun_succ, hnext]
    simp only [bindP, hih, List.map_cons]

/-- the whole iteration: starting at the current footer, `next` until `None` = `iterChunks` -/
theorem gen_iter_chunks (E M : Nat) (s : St) (hok : IterOK E s.a.chunks) :
    iterRun E M s (s.a.chunks.length + 1) (s.a.cur E) = .ok (iterChunks s.a) := by
  have := iterRun_suffix E M s [] s.a.chunks (by simp) (by simpa using hok)
  simpa [Arena.cur, iterChunks] using this

/-- every well-formed arena satisfies the hypothesis of `gen_iter_chunks` -/
theorem IterOK.of_wf {E : Nat} {a : Arena} (h : ArenaWF E a) : IterOK E a.chunks := by
  have hF := FS
  refine ⟨?_, ?_, ?_⟩
  · intro c hc
    have hw := h.chunks c hc
    have hd := h.sdisj c hc
    have := hw.size_ge
    unfold Disj at hd
    unfold Chunk.footer
    omega
  · refine h.disj.imp_of_mem ?_
    intro c d hc hd hdisj
    have hwc := h.chunks c hc
    have hwd := h.chunks d hd
    have := hwc.size_ge; have := hwd.size_ge
    unfold Disj at hdisj
    unfold Chunk.footer
    omega
  · intro c hc
    exact ⟨(h.chunks c hc).ptr_ge, (h.chunks c hc).ptr_le⟩

/-- iteration of a well-formed arena through the translated `next` = the model's `iterChunks` -/
theorem gen_iter_chunks_wf (E M : Nat) (s : St) (h : ArenaWF E s.a) :
    iterRun E M s (s.a.chunks.length + 1) (s.a.cur E) = .ok (iterChunks s.a) :=
  gen_iter_chunks E M s (IterOK.of_wf h)

/-- the safe iterator (`ChunkIter::next`) yields exactly what the raw one yields, and moves as it moves -/
theorem gen_chunk_iter_next (E M : Nat) (c : Chunk) (s : St) :
    Gen.Fn.chunk_iter_next E M c s = Gen.Fn.chunk_raw_iter_next E M c s := by
  unfold Gen.Fn.chunk_iter_next
  cases h : Gen.Fn.chunk_raw_iter_next E M c s with
  | ok r =>
    obtain ⟨o, c'⟩ := r
    cases o with
    | none => rfl
    | some it => rfl
  | err => rfl
  | panic => rfl
  | bad w => rfl
  | envBad => rfl

/-- both constructors start at the arena's current chunk -/
theorem gen_iter_allocated_chunks_raw (E M : Nat) (s : St) : Gen.Fn.iter_allocated_chunks_raw E M s = .ok (s.a.cur E) := rfl
theorem gen_iter_allocated_chunks (E M : Nat) (s : St) : Gen.Fn.iter_allocated_chunks E M s = .ok (s.a.cur E) := rfl

#print axioms gen_chunk_iter_next
#print axioms gen_iter_allocated_chunks
#print axioms gen_iter_chunks
#print axioms gen_iter_chunks_wf
end Bump
