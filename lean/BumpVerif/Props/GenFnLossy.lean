import BumpVerif.Gen.FnLossy
import BumpVerif.Proofs.StrLossy
/-!
# `Utf8LossyChunksIter::next` as translated = the hand-written `lossyNext` (`Model/Lossy.lean`)

The source's `match (byte, safe_get(..))` arms become an `if`-chain in arm order, each arm with its own copy of what
follows; the model tests `bad3` / `bad4` once.  `arms3_eq` / `arms4_eq` say the two agree for every pair of bytes; the rest
is the same control flow.
-/
namespace Bump.Str
open Bump

/-- the four accepting arms of the width-3 `match`, in source order -/
def arms3 (b s : UInt8) : Bool :=
  ((b == 224) && (decide (160 ≤ s) && decide (s ≤ 191))) || ((decide (225 ≤ b) && decide (b ≤ 236)) && (decide (128 ≤ s) && decide (s ≤ 191)))
  || ((b == 237) && (decide (128 ≤ s) && decide (s ≤ 159))) || ((decide (238 ≤ b) && decide (b ≤ 239)) && (decide (128 ≤ s) && decide (s ≤ 191)))

/-- the three accepting arms of the width-4 `match` -/
def arms4 (b s : UInt8) : Bool :=
  ((b == 240) && (decide (144 ≤ s) && decide (s ≤ 191))) || ((decide (241 ≤ b) && decide (b ≤ 243)) && (decide (128 ≤ s) && decide (s ≤ 191)))
  || ((b == 244) && (decide (128 ≤ s) && decide (s ≤ 143)))

theorem arms3_eq (b s : UInt8) : arms3 b s = !(bad3 b s) := by
  rw [Bool.eq_iff_iff]
  simp only [arms3, bad3, UInt8.le_iff_toNat_le, ← UInt8.toNat_inj, Bool.or_eq_true, Bool.and_eq_true, beq_iff_eq, decide_eq_true_eq,
    Bool.not_not, UInt8.reduceToNat]
  omega

theorem arms4_eq (b s : UInt8) : arms4 b s = !(bad4 b s) := by
  rw [Bool.eq_iff_iff]
  simp only [arms4, bad4, UInt8.le_iff_toNat_le, ← UInt8.toNat_inj, Bool.or_eq_true, Bool.and_eq_true, beq_iff_eq, decide_eq_true_eq,
    Bool.not_not, UInt8.reduceToNat]
  omega

theorem ite_chain4 {α : Type} (c1 c2 c3 c4 : Bool) (a b : α) :
    (if c1 then a else if c2 then a else if c3 then a else if c4 then a else b) = if (c1 || c2 || c3 || c4) then a else b := by
  cases c1 <;> cases c2 <;> cases c3 <;> cases c4 <;> rfl

theorem ite_chain3 {α : Type} (c1 c2 c3 : Bool) (a b : α) :
    (if c1 then a else if c2 then a else if c3 then a else b) = if (c1 || c2 || c3) then a else b := by
  cases c1 <;> cases c2 <;> cases c3 <;> rfl

theorem gen_unsafe_get (xs : Bytes) (i : Nat) : Gen.Fn.lossy_unsafe_get xs i = xs.getD i 0 := rfl

theorem gen_safe_get (xs : Bytes) (i : Nat) : Gen.Fn.lossy_safe_get xs i = safeGet xs i := by
  unfold Gen.Fn.lossy_safe_get safeGet
  by_cases h : i ≥ xs.length <;> simp [h, gen_unsafe_get]

theorem notContTag_def (b : UInt8) : ((b &&& 192) != (128 : UInt8)) = notContTag b := rfl

theorem lt128 (b : UInt8) : decide (b < 128) = decide (b.toNat < 128) := by
  simp [UInt8.lt_iff_toNat_lt]

theorem nat_beq_true {x n : Nat} (h : x = n) : (x == n) = true := by subst h; simp
theorem nat_beq_false {x n : Nat} (h : ¬ x = n) : (x == n) = false := by simpa using h

/-- one turn of the translated loop, in the model's terms -/
theorem gen_lossy_loop_step (src : Bytes) (fuel i : Nat) :
    Gen.Fn.lossy_next.loop src (fuel + 1) i =
      if i < src.length then
        match lossyStep src i with
        | .adv j => Gen.Fn.lossy_next.loop src fuel j
        | .err i_ j => some (some ⟨src.take i_, (src.drop i_).take (j - i_), src.drop j⟩)
      else some (some ⟨src, [], []⟩) := by
  rw [Gen.Fn.lossy_next.loop]
  dsimp only [Gen.Fn.lossy_unsafe_get]
  by_cases hi : i < src.length
  · simp only [hi, decide_true, if_true, gen_safe_get, notContTag_def, List.drop_zero, Nat.sub_zero]
    unfold lossyStep
    simp only []
    rw [lt128]
    by_cases h128 : (src.getD i 0).toNat < 128
    · simp only [h128, decide_true, if_true]
    · simp only [h128, decide_false, Bool.false_eq_true, if_false]
      by_cases h2 : utf8CharWidth (src.getD i 0) = 2
      · simp only [nat_beq_true h2, if_true, h2]
        cases notContTag (safeGet src (i + 1)) <;> rfl
      · simp only [nat_beq_false h2, Bool.false_eq_true, if_false, h2]
        by_cases h3 : utf8CharWidth (src.getD i 0) = 3
        · simp only [nat_beq_true h3, if_true, h3]
          rw [ite_chain4]
          have := arms3_eq (src.getD i 0) (safeGet src (i + 1))
          unfold arms3 at this
          rw [this]
          cases bad3 (src.getD i 0) (safeGet src (i + 1)) with
          | true => rfl
          | false =>
            simp only [Bool.not_false, if_true, Bool.false_eq_true, if_false]
            cases notContTag (safeGet src (i + 1 + 1)) <;> rfl
        · simp only [nat_beq_false h3, Bool.false_eq_true, if_false, h3]
          by_cases h4 : utf8CharWidth (src.getD i 0) = 4
          · simp only [nat_beq_true h4, if_true, h4]
            rw [ite_chain3]
            have := arms4_eq (src.getD i 0) (safeGet src (i + 1))
            unfold arms4 at this
            rw [this]
            cases bad4 (src.getD i 0) (safeGet src (i + 1)) with
            | true => rfl
            | false =>
              simp only [Bool.not_false, if_true, Bool.false_eq_true, if_false]
              cases notContTag (safeGet src (i + 1 + 1)) with
              | true => rfl
              | false =>
                simp only [Bool.false_eq_true, if_false]
                cases notContTag (safeGet src (i + 1 + 1 + 1)) <;> rfl
          · simp only [nat_beq_false h4, Bool.false_eq_true, if_false, h4]
  · simp only [hi, decide_false, Bool.false_eq_true, if_false]

theorem gen_lossy_loop (src : Bytes) : ∀ (fuel i : Nat), Gen.Fn.lossy_next.loop src fuel i = (lossyScan src fuel i).map some := by
  intro fuel
  induction fuel with
  | zero => intro i; rfl
  | succ fuel ih =>
    intro i
    rw [gen_lossy_loop_step]
    conv => rhs; unfold lossyScan
    by_cases hi : i < src.length
    · simp only [hi, if_true]
      cases lossyStep src i with
      | adv j => simp only [ih]
      | err a b => rfl
    · simp only [hi, if_false]; rfl

/-- `Utf8LossyChunksIter::next` as translated is the model's `lossyNext` (and never runs out of fuel) -/
theorem gen_lossy_next (src : Bytes) : Gen.Fn.lossy_next src = some (lossyNext src) := by
  unfold Gen.Fn.lossy_next lossyNext
  by_cases h : src = []
  · subst h; rfl
  · have he : src.isEmpty = false := by simpa using h
    obtain ⟨ch, hch, _⟩ := lossyNext_spec h
    unfold lossyNext at hch
    rw [if_neg h] at hch
    simp only [he, Bool.false_eq_true, if_false, h, gen_lossy_loop, hch]
    rfl

theorem isEmpty_not_ne (b : Bytes) : (!b.isEmpty) = decide (b ≠ []) := by
  cases b <;> simp

theorem gen_lossy_in_loop (dbg : Bool) (v : Bytes) : ∀ (fuel : Nat) (it res : Bytes),
    Gen.Fn.from_utf8_lossy_in.loop dbg v fuel it res = lossyRest fuel it res := by
  intro fuel
  induction fuel with
  | zero => intro it res; rfl
  | succ fuel ih =>
    intro it res
    unfold Gen.Fn.from_utf8_lossy_in.loop lossyRest
    rw [gen_lossy_next]
    cases lossyNext it with
    | none => rfl
    | some ch =>
      simp only [isEmpty_not_ne, ih]
      by_cases hb : ch.broken = []
      · simp [hb]
      · simp [hb, REPLACEMENT]

/-- `String::from_utf8_lossy_in` as translated (over the translated chunk iterator) is the model's `fromUtf8Lossy` -/
theorem gen_from_utf8_lossy_in (dbg : Bool) (v : Bytes) : Gen.Fn.from_utf8_lossy_in dbg v = fromUtf8Lossy dbg v := by
  unfold Gen.Fn.from_utf8_lossy_in fromUtf8Lossy
  rw [gen_lossy_next]
  cases lossyNext v with
  | none => rfl
  | some ch =>
    simp only [isEmpty_not_ne, gen_lossy_in_loop]
    by_cases hl : ch.valid.length = v.length
    · by_cases hb : ch.broken = [] <;> simp [hl, hb]
    · have : (ch.valid.length == v.length) = false := by simpa using hl
      simp only [this, hl, Bool.false_eq_true, if_false]
      by_cases hb : ch.broken = []
      · simp [hb]
      · simp [hb, REPLACEMENT]

#print axioms arms3_eq
#print axioms arms4_eq
#print axioms gen_lossy_loop
#print axioms gen_lossy_next

end Bump.Str
#print axioms Bump.Str.gen_from_utf8_lossy_in
