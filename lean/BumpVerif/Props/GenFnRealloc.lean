import BumpVerif.Props.GenFnFast
import BumpVerif.Gen.FnRealloc
import BumpVerif.Props.GenFnDetails
/-! # The translated `try_alloc_layout`, `dealloc`, `shrink`, `grow` of `src/lib.rs` equal the hand-written model -/
namespace Bump
open Rs Gen

theorem simS_bindO {α β : Type} {x y : St × Outcome α} (f : St → α → St × Outcome β) (h : simS x y) :
    simS (bindO x f) (bindO y f) := by
  obtain ⟨xs, xo⟩ := x; obtain ⟨ys, yo⟩ := y
  obtain ⟨h1, h2⟩ := h
  simp only at h1; subst h1
  cases xo <;> cases yo <;> simp_all [Outcome.sim, bindO, simS] <;> exact Outcome.sim_refl _

theorem simS_trans {α : Type} {x y z : St × Outcome α} (h1 : simS x y) (h2 : simS y z) : simS x z := by
  obtain ⟨xs, xo⟩ := x; obtain ⟨ys, yo⟩ := y; obtain ⟨zs, zo⟩ := z
  obtain ⟨a1, a2⟩ := h1; obtain ⟨b1, b2⟩ := h2
  refine ⟨a1.trans b1, ?_⟩
  simp only at a2 b2 ⊢
  cases xo <;> cases yo <;> cases zo <;> simp_all [Outcome.sim]

theorem gen_is_last_allocation (E M p : Nat) (s : St) :
    Gen.Fn.is_last_allocation E M p s = .ok (isLast E s.a p) := rfl

/-- `try_alloc_layout`: the translated fast path, else the (hand-modelled) slow path -/
theorem gen_try_alloc_layout (E sz al : Nat) (s : St)
    (hM : P2 s.a.M) (hal : P2 al) (hsz : sz < USIZE) (hp : (s.a.cur E).ptr < USIZE)
    (hne : HeadNotStatic E s.a) :
    simS (Gen.Fn.try_alloc_layout E s.a.M ⟨sz, al⟩ s) (tryAllocLayout E sz al s) := by
  unfold Gen.Fn.try_alloc_layout
  refine simS_trans (simS_bindO _ (gen_try_alloc_layout_fast E sz al s hM hal hsz hp hne)) ?_
  unfold fastResult tryAllocLayout
  cases h : tryFast E s.a sz al with
  | ok r =>
    cases r with
    | none =>
      simp only [bindO, pureO, alloc_layout_slow, reifyS]
      generalize allocSlow E sz al s = q
      obtain ⟨qs, qo⟩ := q
      cases qo <;> simp [reify, simS, Outcome.sim]
    | some ap => obtain ⟨a', p⟩ := ap; simp [bindO, pureO, simS, Outcome.sim]
  | err => simp [bindO, pureO, simS, Outcome.sim]
  | panic => simp [bindO, pureO, simS, Outcome.sim]
  | bad w => simp [bindO, pureO, simS, Outcome.sim]
  | envBad => simp [bindO, pureO, simS, Outcome.sim]

theorem gen_dealloc (E p sz : Nat) (s : St) (al : Nat)
    (hM : P2 s.a.M) (hp : (s.a.cur E).ptr < USIZE) (hne : HeadNotStatic E s.a) :
    simS (Gen.Fn.dealloc E s.a.M p ⟨sz, al⟩ s) (dealloc E p sz s) := by
  simp only [Gen.Fn.dealloc, dealloc, gen_is_last_allocation, pureO, bindO]
  by_cases hl : isLast E s.a p = true
  case neg => simp [hl, simS, Outcome.sim]
  have hpe : (s.a.cur E).ptr = p := by simpa [isLast] using hl
  simp only [hl, if_true, hpe]
  by_cases hov : p + sz < USIZE
  case neg =>
    have : p + sz ≥ USIZE := by omega
    simp [hov, this, simS, Outcome.sim]
  have hov' : ¬ p + sz ≥ USIZE := by omega
  simp only [hov, hov', if_true, if_false]
  rcases gen_round_mut_ptr_up_to_unchecked (p + sz) s.a.M hM hov with ⟨x, hx, hg⟩ | ⟨hx, w, hg⟩
  · simp only [hx, hg]
    have hxU : x < USIZE := by
      unfold roundUpTo at hx; split at hx
      · injection hx with hx; subst hx
        exact Nat.lt_of_le_of_lt (Nat.div_mul_le_self _ _) (by assumption)
      · cases hx
    rw [gen_is_pointer_aligned_to _ _ hM hxU]
    by_cases hxa : x % s.a.M = 0
    · have := gen_set_ptr E s.a.M x s "dealloc: finger of the static empty chunk moved" hne
      simp only [hxa, beq_self_eq_true, if_true, ne_eq, not_true_eq_false, if_false]
      generalize Fn.set_ptr E s.a.M (s.a.cur E) x s = g at this
      obtain ⟨gs, go⟩ := g
      generalize storePtr E s x "dealloc: finger of the static empty chunk moved" = m at this
      obtain ⟨ms, mo⟩ := m
      obtain ⟨e1, e2⟩ := this
      simp only at e1 e2; subst e1
      cases go <;> cases mo <;> simp_all [simS, Outcome.sim]
    · simp [hxa, simS, Outcome.sim]
  · simp [hx, hg, simS, Outcome.sim]

theorem simS_reify {α : Type} {x y : St × Outcome α} (h : simS x y) : simS (x.1, reify x.2) (y.1, reify y.2) := by
  obtain ⟨xs, xo⟩ := x; obtain ⟨ys, yo⟩ := y
  obtain ⟨h1, h2⟩ := h
  simp only at h1 h2; subst h1
  cases xo <;> cases yo <;> simp_all [Outcome.sim, reify, simS]

/-- fresh allocation + `copy_nonoverlapping`, the shared tail of `shrink` (stricter alignment) and `grow` (fallback) -/
theorem gen_alloc_copy (E sz al p n : Nat) (why : String) (s : St)
    (hM : P2 s.a.M) (hal : P2 al) (hsz : sz < USIZE) (hp : (s.a.cur E).ptr < USIZE) (hne : HeadNotStatic E s.a) :
    simS
      (bindO (reifyS (Gen.Fn.try_alloc_layout E s.a.M ⟨sz, al⟩) s) fun s r_1 =>
        match r_1 with
        | none => (s, Outcome.err)
        | some x => bindO (Rs.copy_nonoverlapping p x n s) fun s _ => (s, Outcome.ok x))
      (bindO (tryAllocLayout E sz al s) fun s q => copyNonoverlapping p q n why s) := by
  have h := simS_reify (gen_try_alloc_layout E sz al s hM hal hsz hp hne)
  refine simS_trans (simS_bindO _ h) ?_
  generalize tryAllocLayout E sz al s = t
  obtain ⟨ts, to⟩ := t
  cases to with
  | ok q =>
    simp only [reify, bindO, Rs.copy_nonoverlapping, copyNonoverlapping]
    by_cases ho : rangesOverlap p q n = true <;> simp [ho, simS, Outcome.sim]
  | err => simp [reify, bindO, simS, Outcome.sim]
  | panic => simp [reify, bindO, simS, Outcome.sim]
  | bad w => simp [reify, bindO, simS, Outcome.sim]
  | envBad => simp [reify, bindO, simS, Outcome.sim]

theorem gen_shrink (E p osz oal nsz nal : Nat) (s : St)
    (hM : P2 s.a.M) (hnal : P2 nal) (hpU : p < USIZE) (hosz : osz + 1 < USIZE) (hnsz : nsz < USIZE)
    (hp : (s.a.cur E).ptr < USIZE) (hpd : (s.a.cur E).ptr + osz < USIZE) (hne : HeadNotStatic E s.a) :
    simS (Gen.Fn.shrink E s.a.M p ⟨osz, oal⟩ ⟨nsz, nal⟩ s) (shrink E p osz oal nsz nal s) := by
  simp only [Gen.Fn.shrink, shrink, gen_is_pointer_aligned_to p nal hnal hpU, pureO]
  by_cases ha : oal < nal
  · simp only [ha, decide_true, if_true, bindO]
    by_cases hpa : p % nal = 0
    · simp [hpa, simS, Outcome.sim]
    · simp only [hpa, beq_iff_eq, if_false]
      exact gen_alloc_copy E nsz nal p nsz _ s hM hnal hnsz hp hne
  · simp only [ha, decide_false, Bool.false_eq_true, if_false, bindO]
    by_cases hpa : p % nal = 0
    case neg => simp [hpa, simS, Outcome.sim]
    by_cases hsz : nsz ≤ osz
    case neg =>
      have : osz < nsz := by omega
      simp [hpa, hsz, this, simS, Outcome.sim]
    have hsz' : ¬ osz < nsz := by omega
    have hmax : P2 (max nal s.a.M) := p2_max hnal hM
    have hdl : osz - nsz < USIZE := by omega
    simp only [hpa, beq_self_eq_true, if_true, hsz, hsz', ne_eq, not_true_eq_false, if_false,
      gen_round_down_to _ _ hmax hdl, gen_is_last_allocation]
    generalize hdel : roundDownTo (osz - nsz) (max nal s.a.M) = delta
    have hdle : delta ≤ osz := by
      have := roundDownTo_le (osz - nsz) (max nal s.a.M)
      omega
    by_cases hl : isLast E s.a p = true
    case neg =>
      simp [hl, Gen.Fn.shrink.k_1, simS, Outcome.sim]
    simp only [hl, if_true, hosz, Bool.true_and]
    by_cases hd : delta ≥ (osz + 1) / 2
    case neg => simp [hd, Gen.Fn.shrink.k_1, simS, Outcome.sim]
    have hq : (s.a.cur E).ptr + delta < USIZE := by omega
    simp only [hd, decide_true, Gen.Fn.shrink.k_1, if_true, hq, gen_is_pointer_aligned_to _ _ hM hq, pureO, bindO]
    by_cases hqa : ((s.a.cur E).ptr + delta) % s.a.M = 0
    case neg => simp [hqa, simS, Outcome.sim]
    simp only [hqa, beq_self_eq_true, if_true, ne_eq, not_true_eq_false, if_false]
    have hs := gen_set_ptr E s.a.M ((s.a.cur E).ptr + delta) s "shrink: finger of the static empty chunk moved" hne
    generalize Fn.set_ptr E s.a.M (s.a.cur E) ((s.a.cur E).ptr + delta) s = g at hs
    obtain ⟨gs, go⟩ := g
    generalize storePtr E s ((s.a.cur E).ptr + delta) "shrink: finger of the static empty chunk moved" = m at hs
    obtain ⟨ms, mo⟩ := m
    obtain ⟨e1, e2⟩ := hs
    simp only at e1 e2; subst e1
    by_cases ho : rangesOverlap p ((s.a.cur E).ptr + delta) nsz = true <;>
      cases go <;> cases mo <;> simp_all [simS, Outcome.sim, Rs.copy_nonoverlapping, copyNonoverlapping]

theorem gen_grow (E p osz oal nsz nal : Nat) (s : St)
    (hM : P2 s.a.M) (hnal : P2 nal) (hnsz : nsz < USIZE)
    (hp : (s.a.cur E).ptr < USIZE) (hne : HeadNotStatic E s.a) :
    simS (Gen.Fn.grow E s.a.M p ⟨osz, oal⟩ ⟨nsz, nal⟩ s) (grow E p osz oal nsz nal s) := by
  have hfb : ∀ r x n1 b v, simS (Gen.Fn.grow.k_2 E s.a.M p ⟨osz, oal⟩ ⟨nsz, nal⟩ osz nsz r x n1 b v s)
      (growFallback E p osz nsz nal s) := by
    intro r x n1 b v
    simp only [Gen.Fn.grow.k_2, growFallback]
    exact gen_alloc_copy E nsz nal p osz _ s hM hnal hnsz hp hne
  rcases hr : roundUpTo nsz s.a.M with _ | ns
  · simp [Gen.Fn.grow, grow, gen_round_up_to nsz _ hM hnsz, pureO, bindO, hr, simS, Outcome.sim]
  simp only [Gen.Fn.grow, grow, gen_round_up_to nsz _ hM hnsz, pureO, bindO, gen_is_last_allocation, hr]
  by_cases hc : oal ≥ nal
  case neg =>
    simp only [hc, decide_false, Bool.false_and, Bool.false_eq_true, if_false, Gen.Fn.grow.k_1]
    exact hfb _ _ _ _ _
  by_cases hl : isLast E s.a p = true
  case neg =>
    simp only [hc, hl, decide_true, Bool.true_and, if_true, Bool.false_eq_true, if_false, Gen.Fn.grow.k_1]
    exact hfb _ _ _ _ _
  simp only [hc, hl, decide_true, Bool.true_and, if_true, Gen.Fn.grow.k_1]
  by_cases ho : osz ≤ ns
  case neg =>
    have : ns < osz := by omega
    simp [ho, this, simS, Outcome.sim]
  have ho' : ¬ ns < osz := by omega
  simp only [ho, ho', if_true, if_false, gen_layout_from_size_align, pureO, bindO]
  by_cases hv : validLayout (ns - osz) oal = true
  case neg => simp [hv, reify, simS, Outcome.sim]
  obtain ⟨hoal, hdl⟩ := validLayout_p2 hv
  have hf := gen_try_alloc_layout_fast E (ns - osz) oal s hM hoal hdl hp hne
  simp only [hv, if_true, reify, Bool.not_true, Bool.false_eq_true, if_false]
  unfold fastResult at hf
  generalize Fn.try_alloc_layout_fast E s.a.M ⟨ns - osz, oal⟩ s = g at hf
  obtain ⟨gs, go⟩ := g
  obtain ⟨e1, e2⟩ := hf
  generalize tryFast E s.a (ns - osz) oal = t at e1 e2 ⊢
  cases t with
  | ok r =>
    cases r with
    | none =>
      simp only at e1 e2; subst e1
      cases go with
      | ok g =>
        simp only [Outcome.sim] at e2
        injection e2 with e2; subst e2
        exact hfb _ _ _ _ _
      | _ => simp_all [Outcome.sim]
    | some ap =>
      obtain ⟨a', q⟩ := ap
      simp only at e1 e2; subst e1
      cases go with
      | ok g =>
        simp only [Outcome.sim] at e2
        injection e2 with e2; subst e2
        simp [Rs.copy, simS, Outcome.sim]
      | _ => simp_all [Outcome.sim]
  | err => simp only at e1 e2; subst e1; cases go <;> simp_all [Outcome.sim, simS]
  | panic => simp only at e1 e2; subst e1; cases go <;> simp_all [Outcome.sim, simS]
  | bad w => simp only at e1 e2; subst e1; cases go <;> simp_all [Outcome.sim, simS]
  | envBad => simp only at e1 e2; subst e1; cases go <;> simp_all [Outcome.sim, simS]

#print axioms gen_try_alloc_layout
#print axioms gen_dealloc
#print axioms gen_shrink
#print axioms gen_grow
end Bump
