import BumpVerif.Proofs.VecNth
import BumpVerif.Proofs.VecOwn
import BumpVerif.Proofs.VecFilter
import BumpVerif.Proofs.VecDrain
import BumpVerif.Proofs.VecMore
import BumpVerif.Proofs.VecExtend
import BumpVerif.Proofs.VecSplice
/-!
# C15 (Vec part) — every element is dropped exactly once, only by its owner

`Own ins xs evs held`: the ids owned by the vector (`xs = abs v`), the ids whose destructor ran
(`drop` events), the ids handed to the caller (`moveOut` events) and the ids held elsewhere
(other containers, the caller's pending arguments, deliberately leaked values) are, together,
a permutation of the ids ever created, which are pairwise distinct.  Consequences
(`C15_distinct`): owned ids are pairwise distinct and disjoint from dropped ∪ moved-out, no id
is dropped twice, nothing dropped is also moved out.

Each theorem: the method preserves `Own` with the *same* `held` (nothing leaks) — for the
methods proved below on every path, panicking ones included.  `C15_drop`: dropping the vector
empties `owned` and drops exactly `abs v`; `C15_into_bump_slice`: no event.  `C15_exactly_once`:
when nothing is owned or held any more, `drops ++ movedOut` is a duplicate-free permutation of
the created ids.

Status: proved for push, pop, insert, remove, swap_remove, truncate/clear (destructor panics
included), append, split_off, drain and into_iter (partially consumed from both ends, dropped or
forgotten), retain, drain_filter, dedup(_by/_by_key), extend and from_iter_in (caller's iterator),
drop, into_bump_slice, splice (every path: any range, any iterator, partially consumed, refused
growth, panics), into_boxed_slice (and the drop of the box), vec! (both forms, every path).
(resize, extend_from_slice and clone are proved in `Props/C16.lean`, for every panic point of
`Clone`, which includes "never".)
-/
namespace Bump.V.C15
open Bump Bump.V

theorem C15_distinct {ins xs evs held} (h : Own ins xs evs held) :
    (ids xs).Nodup ∧ (∀ i ∈ ids xs, i ∉ evDrops evs ∧ i ∉ evMoved evs) ∧ (evDrops evs).Nodup ∧
      (∀ i ∈ evDrops evs, i ∉ evMoved evs) := h.distinct

theorem C15_push {c : Cfg} {v : VS} {xs : List Elem} {ins held : List Nat} (hc : CfgOK c) (hd : c.needsDrop = true)
    (h : RepB c v xs) (e : Elem) (w : W) (ho : Own ins xs w.evs (e.id :: held)) :
    ∃ ys, RepB c (push c v e w).1 ys ∧ Own ins ys (push c v e w).2.1.evs held := push_own hc hd h e w ho

theorem C15_pop {c : Cfg} {v : VS} {xs : List Elem} {ins held : List Nat} (h : RepB c v xs) (w : W)
    (ho : Own ins xs w.evs held) :
    ∃ ys, RepB c (pop v w).1 ys ∧ Own ins ys (pop v w).2.1.evs held := pop_own h w ho

theorem C15_insert {c : Cfg} {v : VS} {xs : List Elem} {ins held : List Nat} (hc : CfgOK c) (hd : c.needsDrop = true)
    (h : RepB c v xs) (i : Nat) (e : Elem) (w : W) (ho : Own ins xs w.evs (e.id :: held)) :
    ∃ ys, RepB c (insert c v i e w).1 ys ∧ Own ins ys (insert c v i e w).2.1.evs held := insert_own hc hd h i e w ho

theorem C15_remove {c : Cfg} {v : VS} {xs : List Elem} {ins held : List Nat} (h : RepB c v xs) (i : Nat) (w : W)
    (ho : Own ins xs w.evs held) :
    ∃ ys, RepB c (remove c v i w).1 ys ∧ Own ins ys (remove c v i w).2.1.evs held := remove_own h i w ho

theorem C15_swap_remove {c : Cfg} {v : VS} {xs : List Elem} {ins held : List Nat} (h : RepB c v xs) (i : Nat) (w : W)
    (ho : Own ins xs w.evs held) :
    ∃ ys, RepB c (swapRemove c v i w).1 ys ∧ Own ins ys (swapRemove c v i w).2.1.evs held := swapRemove_own h i w ho

/-- `truncate` / `clear`, for every destructor panic point -/
theorem C15_truncate {c : Cfg} {v : VS} {xs : List Elem} {ins held : List Nat} (hd : c.needsDrop = true)
    (h : RepB c v xs) (n : Nat) (w : W) (ho : Own ins xs w.evs held) :
    ∃ ys, RepB c (truncate c v n w).1 ys ∧ Own ins ys (truncate c v n w).2.1.evs held := truncate_own hd h n w ho

/-- dropping the container empties `owned`: exactly the owned ids get a `drop` event -/
theorem C15_drop {c : Cfg} {v : VS} {xs : List Elem} {ins held : List Nat} (hd : c.needsDrop = true)
    (h : RepB c v xs) (w : W) (ho : Own ins xs w.evs held) :
    (dropVec c v w).1.evs = w.evs ++ dropEvs c xs ∧ Own ins [] (dropVec c v w).1.evs held := dropVec_own hd h w ho

/-- `into_bump_slice` is a pure function of the vector: it returns the contents and emits no
event (the ids pass to `held`: the arena slice keeps them alive, nobody drops them) -/
theorem C15_into_bump_slice {c : Cfg} {v : VS} {xs : List Elem} {ins held : List Nat} (h : RepB c v xs) (evs : List Ev)
    (ho : Own ins xs evs held) : intoBumpSlice v = xs ∧ Own ins [] evs (ids xs ++ held) := by
  refine ⟨h.toRep.abs_eq, ?_⟩
  apply ho.of_count
  intro a; simp [List.count_append]; omega

/-- `drain_filter` (any answers, any number of `next()` calls, iterator dropped): nothing leaks -/
theorem C15_drain_filter {c : Cfg} {v : VS} {xs : List Elem} {ins held : List Nat} (hd : c.needsDrop = true)
    (h : RepB c v xs) (cb : Nat → Elem → Option Bool) (take : Nat) (w : W) (ho : Own ins xs w.evs held) :
    ∃ ys, RepB c (drainFilterOp c v cb take false w).1 ys ∧ Own ins ys (drainFilterOp c v cb take false w).2.1.evs held := by
  obtain ⟨ys, lk, hr, hown, hlk⟩ := drainFilterOp_own hd h cb take false w ho
  have : lk = [] := hlk rfl
  subst this
  exact ⟨ys, hr, by simpa using hown⟩

theorem C15_retain {c : Cfg} {v : VS} {xs : List Elem} {ins held : List Nat} (hd : c.needsDrop = true)
    (h : RepB c v xs) (cb : Nat → Elem → Option Bool) (w : W) (ho : Own ins xs w.evs held) :
    ∃ ys, RepB c (retain c v cb w).1 ys ∧ Own ins ys (retain c v cb w).2.1.evs held := retain_own hd h cb w ho

/-- `drain` (any range incl. rejected ones, partially consumed from both ends, dropped or
leaked with `mem::forget`): leaks only for the forgotten iterator -/
theorem C15_drain {c : Cfg} {v : VS} {xs : List Elem} {ins held : List Nat} (hd : c.needsDrop = true)
    (h : RepB c v xs) (s e : Bd) (take back : Nat) (forget : Bool) (w : W) (ho : Own ins xs w.evs held) :
    ∃ ys lk, RepB c (drainOp c v s e take back forget w).1 ys ∧
      Own ins ys (drainOp c v s e take back forget w).2.1.evs (lk ++ held) ∧
      (forget = false → c.dropPanicAt = none → lk = []) := drainOp_own hd h s e take back forget w ho

/-- `into_iter` (partially consumed from both ends, dropped or forgotten) -/
theorem C15_into_iter {c : Cfg} {v : VS} {xs : List Elem} {ins held : List Nat} (hd : c.needsDrop = true)
    (h : RepB c v xs) (take back : Nat) (forget : Bool) (w : W) (ho : Own ins xs w.evs held) :
    ∃ lk, Own ins [] (intoIterOp c v take back forget w).1.evs (lk ++ held) ∧
      (forget = false → c.dropPanicAt = none → lk = []) := intoIterOp_own hd h take back forget w ho

/-- `append`: the two vectors together own the same ids before and after, no event -/
theorem C15_append {c : Cfg} {a b : VS} {xs ys : List Elem} {ins held : List Nat} (hc : CfgOK c)
    (ha : RepB c a xs) (hb : RepB c b ys) (w : W) (ho : Own ins (xs ++ ys) w.evs held) :
    ∃ xs' ys', RepB c (append c a b w).1 xs' ∧ RepB c (append c a b w).2.1 ys' ∧
      Own ins (xs' ++ ys') (append c a b w).2.2.1.evs held := by
  rcases append_spec hc ha hb w with ⟨a', b', hp, h1, h2⟩ | ⟨hp, _⟩
  · exact ⟨xs ++ ys, [], by rw [hp]; exact h1, by rw [hp]; exact h2, by rw [hp]; simpa using ho⟩
  · exact ⟨xs, ys, by rw [hp]; exact ha, by rw [hp]; exact hb, by rw [hp]; exact ho⟩

/-- `split_off`: the two vectors together own what the one owned, no event -/
theorem C15_split_off {c : Cfg} {v : VS} {xs : List Elem} {ins held : List Nat} (hc : CfgOK c)
    (h : RepB c v xs) (at_ : Nat) (w : W) (ho : Own ins xs w.evs held) :
    ∃ xs' ys', RepB c (splitOff c v at_ w).1 xs' ∧ (∀ o, (splitOff c v at_ w).2.1 = some o → RepB c o ys') ∧
      ((splitOff c v at_ w).2.1 = none → ys' = []) ∧ Own ins (xs' ++ ys') (splitOff c v at_ w).2.2.evs held := by
  rcases splitOff_spec hc h at_ w with ⟨_, v', o, hp, h1, h2⟩ | ⟨hp, _⟩
  · refine ⟨xs.take at_, xs.drop at_, by rw [hp]; exact h1, ?_, by rw [hp]; simp, by rw [hp]; simpa using ho⟩
    intro o' ho'; rw [hp] at ho'; simp at ho'; subst ho'; exact h2
  · exact ⟨xs, [], by rw [hp]; exact h, by rw [hp]; simp, fun _ => rfl, by rw [hp]; simpa using ho⟩

theorem C15_dedup_by {c : Cfg} {v : VS} {xs : List Elem} {ins held : List Nat} (hd : c.needsDrop = true)
    (h : RepB c v xs) (cb : Nat → Elem → Elem → Option Bool) (w : W) (ho : Own ins xs w.evs held) :
    ∃ ys, RepB c (dedupBy c v cb w).1 ys ∧ Own ins ys (dedupBy c v cb w).2.1.evs held := dedupBy_own hd h cb w ho

/-- `extend(iter)`: the items (held by the caller's iterator before) are owned by the vector
afterwards -/
theorem C15_extend {c : Cfg} {v : VS} {xs : List Elem} {ins held : List Nat} (hc : CfgOK c) (hd : c.needsDrop = true)
    (h : RepB c v xs) (s : Src) (w : W) (ho : Own ins xs w.evs (ids s.items ++ held)) :
    ∃ ys, RepB c (extend c v (.src s) w).1 ys ∧ Own ins ys (extend c v (.src s) w).2.1.evs held := extend_own hc hd h s w ho

/-- `splice(range, iter)`, `take` × `next()`, then the `Splice` is dropped: every element of the
drained range is handed to the caller or dropped exactly once, every item of the iterator ends up
in the vector or is dropped exactly once, the tail is owned once — on every path (rejected range,
iterator with a lying `size_hint`, iterator or destructor panicking, growth refused); nothing leaks -/
theorem C15_splice {c : Cfg} {v : VS} {xs : List Elem} {ins held : List Nat} (hc : CfgOK c) (hd : c.needsDrop = true)
    (h : RepB c v xs) (s e : Bd) (src : Src) (take : Nat) (w : W) (ho : Own ins xs w.evs (ids src.items ++ held)) :
    ∃ ys, RepB c (spliceOp c v s e (.src src) take w).1 ys ∧ Own ins ys (spliceOp c v s e (.src src) take w).2.1.evs held :=
  spliceOp_own hc hd h s e src take w ho

/-- `into_boxed_slice()` and the drop of the box: the box receives exactly the contents (no event),
dropping it drops each element exactly once — also when one destructor panics -/
theorem C15_into_boxed_slice {c : Cfg} {v : VS} {xs : List Elem} {ins held : List Nat} (hd : c.needsDrop = true)
    (h : RepB c v xs) (w : W) (ho : Own ins xs w.evs held) :
    (intoBoxedThenDrop c v w).1 = xs ∧ Own ins [] w.evs (ids xs ++ held) ∧
      (intoBoxedThenDrop c v w).2.1.evs = w.evs ++ dropEvs c xs ∧ Own ins [] (intoBoxedThenDrop c v w).2.1.evs held := by
  obtain ⟨h1, h2, _, _⟩ := intoBoxed_spec h w
  refine ⟨h1, ?_, h2, ?_⟩
  · apply ho.of_count
    intro a; simp [List.count_append]; omega
  · apply ho.of_count
    intro a
    simp only [h2, evDrops_append, evMoved_append, evDrops_dropEvs c hd, evMoved_dropEvs, ids_nil, List.count_append, List.count_nil]
    omega

/-- `vec![in b; a, b, c]`: the listed values are owned by the new vector; if a `push` is refused the
value being pushed and the ones already pushed are dropped exactly once (with the vector) and the
values of the expressions never evaluated (third component) remain the caller's -/
theorem C15_vec_macro_list {c : Cfg} {ins held : List Nat} (hc : CfgOK c) (hd : c.needsDrop = true) (es : List Elem) (w : W)
    (ho : Own ins [] w.evs (ids es ++ held)) :
    ∃ ys, (∀ v', (vmacroListOp c es w).1 = some v' → RepB c v' ys) ∧ ((vmacroListOp c es w).1 = none → ys = []) ∧
      Own ins ys (vmacroListOp c es w).2.1.evs (ids (vmacroListOp c es w).2.2 ++ held) :=
  vmacroListOp_own hc hd es w ho

/-- `vec![in b; elem; n]` (`n` a `usize`; `Clone` may panic at any call, the arena may refuse): the
clones made (fresh ids, `ins'`) are owned by the new vector or were dropped exactly once with it;
`elem` is moved in last, or dropped by the unwinding, or — `n = 0`, flag `false` — never evaluated -/
theorem C15_vec_macro_n {c : Cfg} {ins held : List Nat} (hc : CfgOK c) (hd : c.needsDrop = true) (hf : c.freshClone = true)
    (x : Elem) (n : Nat) (hnU : n < USIZE) (w : W) (ho : Own ins [] w.evs (x.id :: held)) (hfr : Fresh ins w.nextId) :
    ∃ ys ins', (∀ v', (vmacroN c x n w).1 = some v' → RepB c v' ys) ∧ ((vmacroN c x n w).1 = none → ys = []) ∧
      Own ins' ys (vmacroN c x n w).2.1.evs (if (vmacroN c x n w).2.2 then held else x.id :: held) ∧
      Fresh ins' (vmacroN c x n w).2.1.nextId :=
  vmacroN_own hc hd hf x n hnU w ho hfr

theorem C15_exactly_once {ins evs} (h : Own ins [] evs []) :
    (evDrops evs ++ evMoved evs).Perm ins ∧ (evDrops evs ++ evMoved evs).Nodup := h.exactly_once

/-- non-vacuity -/
example : Own [1, 2, 3] [⟨2, 0⟩] [.drop 3, .moveOut 1] [] := by
  refine ⟨?_, by decide⟩
  decide

end Bump.V.C15

#print axioms Bump.V.C15.C15_distinct
#print axioms Bump.V.C15.C15_push
#print axioms Bump.V.C15.C15_pop
#print axioms Bump.V.C15.C15_insert
#print axioms Bump.V.C15.C15_remove
#print axioms Bump.V.C15.C15_swap_remove
#print axioms Bump.V.C15.C15_truncate
#print axioms Bump.V.C15.C15_drop
#print axioms Bump.V.C15.C15_into_bump_slice
#print axioms Bump.V.C15.C15_exactly_once
#print axioms Bump.V.C15.C15_drain_filter
#print axioms Bump.V.C15.C15_retain
#print axioms Bump.V.C15.C15_drain
#print axioms Bump.V.C15.C15_into_iter
#print axioms Bump.V.C15.C15_append
#print axioms Bump.V.C15.C15_split_off
#print axioms Bump.V.C15.C15_dedup_by
#print axioms Bump.V.C15.C15_extend
#print axioms Bump.V.C15.C15_splice
#print axioms Bump.V.C15.C15_into_boxed_slice
#print axioms Bump.V.C15.C15_vec_macro_list
#print axioms Bump.V.C15.C15_vec_macro_n
-- `into_iter().nth(n)` (core's default `Iterator::nth` on the owning iterator), Proofs/VecNth.lean
#print axioms Bump.V.intoIterNthOp_own
#print axioms Bump.V.intoIterNthOp_own_leak
