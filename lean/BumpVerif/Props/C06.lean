import BumpVerif.Proofs.Frame
/-! # C06 — reset() recycles the arena completely -/
namespace Bump.C06
open Bump Gen

/-- After `reset` on an arena that holds memory: exactly one chunk (the newest) is kept, its finger
is at its footer so chunk iteration shows zero allocated bytes, the other chunks are freed in
list order, limit and minimum alignment are unchanged, and the invariant holds. -/
theorem reset_post {E c rest} (s : St) (h : ArenaWF E s.a) (hc : s.a.chunks = c :: rest) :
    (reset s).2 = .ok () ∧ ArenaWF E (reset s).1.a ∧
    (reset s).1.a.chunks = [{ c with ptr := c.footer, ab := c.size - FOOTER_SIZE }] ∧
    iterChunks (reset s).1.a = [(c.footer, 0)] ∧
    (reset s).1.evs = s.evs ++ rest.map freeEv ∧
    (reset s).1.a.limit = s.a.limit ∧ (reset s).1.a.M = s.a.M := by
  obtain ⟨_, h2, h3, _, h5, h6, h7⟩ := reset_spec s h
  rcases h7 with ⟨hn, _⟩ | ⟨c', rest', hc', hch, hev⟩
  · rw [hc] at hn; cases hn
  · rw [hc] at hc'; cases hc'
    refine ⟨h2, h3, hch, ?_, hev, h6, h5⟩
    simp [iterChunks, hch, Chunk.footer]

/-- resetting an arena that never obtained memory is a no-op -/
theorem reset_empty_noop (s : St) (hc : s.a.chunks = []) : (reset s).1 = s ∧ (reset s).2 = .ok () := by
  unfold reset; rw [hc]; exact ⟨rfl, rfl⟩

/-- After `reset` the full usable capacity of the kept chunk is available again without asking the
global allocator: any request with `align ≤ MIN_ALIGN` whose size rounded up to `MIN_ALIGN` is at
most the kept chunk's usable size is served by the fast path (no allocator event). -/
theorem reset_full_capacity {E c rest sz al asz} (s : St) (hE : EnvOK E) (h : ArenaWF E s.a)
    (hc : s.a.chunks = c :: rest) (hal : al ≤ s.a.M) (hr : roundUpTo sz s.a.M = some asz)
    (hfit : asz ≤ c.size - FOOTER_SIZE) :
    chunkCapacity (reset s).1.a E = c.size - FOOTER_SIZE ∧
    allocFast s.a.M ((reset s).1.a.cur E) sz al = some (c.footer - asz) := by
  obtain ⟨_, hwf, hch, _, _, _, _⟩ := reset_post s h hc
  have hw := h.chunks c (by rw [hc]; exact List.mem_cons_self)
  have hcur : (reset s).1.a.cur E = { c with ptr := c.footer, ab := c.size - FOOTER_SIZE } := by
    simp [Arena.cur, hch]
  have hfl := footer_lt hw
  have hge := hw.size_ge
  have := FS
  refine ⟨?_, ?_⟩
  · simp only [chunkCapacity, hcur, Chunk.footer]; omega
  · rw [hcur]
    have := allocFast_fits s.a.M { c with ptr := c.footer, ab := c.size - FOOTER_SIZE } sz al hal h.m_pos
      (by show c.data ≤ c.footer; unfold Chunk.footer; omega)
      (by show c.footer < 2 ^ 63; have := hw.hi; omega) asz hr
      (by show asz ≤ c.footer - c.data; unfold Chunk.footer; omega)
    exact this

/-- repeated resets: `reset` is idempotent on the arena -/
theorem reset_idem {E} (s : St) (h : ArenaWF E s.a) : (reset (reset s).1).1.a = (reset s).1.a := by
  obtain ⟨_, _, hwf, _, _, _, h7⟩ := reset_spec s h
  rcases h7 with ⟨hn, he⟩ | ⟨c, rest, hc, hch, _⟩
  · rw [he]; unfold reset; rw [hn]
  · obtain ⟨_, _, hch2, _⟩ := reset_post (reset s).1 hwf hch
    cases hs : (reset s).1 with
    | mk a ans evs mem uf =>
      rw [hs] at hch hch2
      cases ha : (reset { a := a, ans := ans, evs := evs, mem := mem, underflow := uf }).1.a with
      | mk M chunks limit =>
        have r2 := reset_spec { a := a, ans := ans, evs := evs, mem := mem, underflow := uf } (by rw [hs] at hwf; exact hwf)
        rw [ha] at hch2 r2
        simp only at hch hch2 r2
        cases a with
        | mk M0 ch0 l0 =>
          simp only at hch r2
          obtain ⟨_, _, _, _, hm, hl, _⟩ := r2
          subst hm; subst hl; subst hch; subst hch2
          simp [Chunk.footer]

example : (reset { a := ⟨1, [⟨4096, 496, 16, 4200, 448⟩], none⟩, ans := [] }).1.a.chunks = [⟨4096, 496, 16, 4544, 448⟩] := by decide

end Bump.C06

#print axioms Bump.C06.reset_post
#print axioms Bump.C06.reset_empty_noop
#print axioms Bump.C06.reset_full_capacity
#print axioms Bump.C06.reset_idem
