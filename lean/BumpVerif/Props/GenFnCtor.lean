import BumpVerif.Props.GenFnNewChunk
import BumpVerif.Props.GenFnDetails
import BumpVerif.Gen.FnCtor
import BumpVerif.Props.GenFnSlow
/-! # The translated constructors of `Bump` equal the hand-written model `newArena`

`new`, `try_new`, `with_capacity`, `try_with_capacity` (on `Bump<1>`), `with_min_align`,
`with_min_align_and_capacity`, `try_with_min_align_and_capacity`, `Default::default`.  The assertions on `MIN_ALIGN`
(power of two, at most `CHUNK_ALIGN`) are part of the translated bodies: a constructor that lost them no longer equals
`newArena`. -/
namespace Bump
open Rs Gen

theorem mkArena_static (E M : Nat) (l : Option Nat) : mkArena E M (emptyChunk E) l = ⟨M, [], l⟩ := by
  simp [mkArena]

theorem newChunk_footer_ne {E : Nat} {held : List Chunk} {M : Nat} {d : Details} {r p : Nat} {s s' : St} {c : Chunk}
    (hd : d.size = d.nswf + FOOTER_SIZE)
    (h : newChunk E held M d r p s = (s', .ok (some c))) : c.footer ≠ (emptyChunk E).footer := by
  rw [emptyChunk_footer]
  unfold newChunk at h
  split at h
  · cases h
  split at h
  · cases h
  rcases hm : s.malloc d.size d.align with ⟨s1, _ | addr⟩
  · rw [hm] at h; cases h
  · rw [hm] at h
    simp only at h
    split at h
    · cases h
    rename_i hok
    repeat' split at h
    all_goals first | (cases h; done) | skip
    injection h with _ h; injection h with h; injection h with h; subst h
    have hmk : mallocOK E held d.size d.align addr = true := by simpa using hok
    simp only [mallocOK, Bool.and_eq_true, decide_eq_true_eq, Bool.or_eq_true] at hmk
    obtain ⟨⟨⟨_, hst⟩, _⟩, _⟩ := hmk
    have hF := Bump.GenFacts.footer_size_pos
    simp only [Chunk.footer, hd, Nat.add_sub_cancel]
    rcases hst with h1 | h1 <;> omega

theorem gen_try_with_min_align_and_capacity (E M cap : Nat) (s : St) (hs : s.a.chunks = []) (hcap : cap < USIZE) :
    simS (Gen.Fn.try_with_min_align_and_capacity E M cap s) (newArena E M cap true s) := by
  simp only [Gen.Fn.try_with_min_align_and_capacity, newArena]
  by_cases hp : isPow2 M = true
  case neg => simp [hp, simS, Outcome.sim]
  by_cases hle : M ≤ CHUNK_ALIGN
  case neg =>
    have : M > CHUNK_ALIGN := by omega
    simp [hp, hle, this, simS, Outcome.sim]
  have hgt : ¬ M > CHUNK_ALIGN := by omega
  have hM : P2 M := ⟨hp, by have : CHUNK_ALIGN = 16 := rfl; unfold USIZE; omega⟩
  simp only [hp, hle, hgt, decide_true, decide_false, Bool.not_true, Bool.or_self, Bool.false_eq_true, if_true, if_false]
  by_cases h0 : cap = 0
  · subst h0; simp [mkArena_static, simS, Outcome.sim]
  have h0' : (cap == 0) = false := by simpa using h0
  simp only [h0, h0', Bool.false_eq_true, if_false, gen_layout_from_size_align, pureO, bindO_ok]
  by_cases hv : validLayout cap M = true
  case neg => simp [hv, reify, bindO, simS, Outcome.sim]
  simp only [hv, if_true, reify, Bool.not_true, Bool.false_eq_true, if_false]
  have hd := gen_new_chunk_memory_details M none cap M hM hM hcap
  cases hm : newChunkMemoryDetails M none cap M with
  | ok d =>
    rw [hm] at hd
    have hg : Gen.Fn.new_chunk_memory_details M none ⟨cap, M⟩ = .ok (some d) := by
      generalize Gen.Fn.new_chunk_memory_details M none ⟨cap, M⟩ = g at hd
      cases g <;> simp_all [reify, Outcome.sim]
    simp only [hg, bindO_ok]
    have hds := details_size hm
    have hnc := gen_new_chunk E M d cap M (emptyChunk E) s hM hds
    rw [hs] at hnc
    have hab : (emptyChunk E).ab = 0 := rfl
    rw [hab] at hnc
    generalize hgq : Gen.Fn.new_chunk E M d ⟨cap, M⟩ (emptyChunk E) s = g at hnc ⊢
    generalize hmq : newChunk E [] M d cap 0 s = m at hnc ⊢
    obtain ⟨gs, go⟩ := g
    obtain ⟨ms, mo⟩ := m
    obtain ⟨e1, e2⟩ := hnc
    simp only at e1 e2; subst e1
    cases go <;> cases mo <;> simp_all [Outcome.sim, bindO, simS]
    rename_i oc oc'
    subst e2
    cases oc with
    | none => exact ⟨rfl, rfl⟩
    | some c =>
      have hne := newChunk_footer_ne hds hmq
      simp [mkArena, hne]
  | err =>
    rw [hm] at hd
    have hg : Gen.Fn.new_chunk_memory_details M none ⟨cap, M⟩ = .ok none := by
      generalize Gen.Fn.new_chunk_memory_details M none ⟨cap, M⟩ = g at hd
      cases g <;> simp_all [reify, Outcome.sim]
    simp [hg, bindO_ok, simS, Outcome.sim]
  | panic =>
    rw [hm] at hd
    have hg : Gen.Fn.new_chunk_memory_details M none ⟨cap, M⟩ = .panic := by
      generalize Gen.Fn.new_chunk_memory_details M none ⟨cap, M⟩ = g at hd
      cases g <;> simp_all [reify, Outcome.sim]
    simp [hg, bindO, simS, Outcome.sim]
  | bad w =>
    rw [hm] at hd
    have hg : ∃ w', Gen.Fn.new_chunk_memory_details M none ⟨cap, M⟩ = .bad w' := by
      generalize Gen.Fn.new_chunk_memory_details M none ⟨cap, M⟩ = g at hd
      cases g <;> simp_all [reify, Outcome.sim]
    obtain ⟨w', hg⟩ := hg
    simp [hg, bindO, simS, Outcome.sim]
  | envBad =>
    rw [hm] at hd
    have hg : Gen.Fn.new_chunk_memory_details M none ⟨cap, M⟩ = .envBad := by
      generalize Gen.Fn.new_chunk_memory_details M none ⟨cap, M⟩ = g at hd
      cases g <;> simp_all [reify, Outcome.sim]
    simp [hg, bindO, simS, Outcome.sim]

/-- the infallible constructors: an allocation error becomes a panic (`oom()`), nothing else changes -/
def errToPanic {α : Type} (r : St × Outcome α) : St × Outcome α :=
  match r with
  | (s, .err) => (s, .panic)
  | r => r

theorem newChunk_ne_err (E : Nat) (held : List Chunk) (M : Nat) (d : Details) (r p : Nat) (s : St) :
    (newChunk E held M d r p s).2 ≠ .err ∧ (newChunk E held M d r p s).2 ≠ .panic := by
  unfold newChunk
  by_cases h1 : validLayout d.size d.align = true
  case neg => simp [h1]
  by_cases h2 : d.size < r
  case pos => simp [h1, h2]
  simp only [h1, h2, Bool.not_true, Bool.false_eq_true, if_false]
  rcases hs : s.malloc d.size d.align with ⟨s1, _ | addr⟩
  · simp
  · simp only
    repeat' split
    all_goals simp

theorem newArena_infallible (E M cap : Nat) (s : St) :
    newArena E M cap false s = errToPanic (newArena E M cap true s) := by
  unfold newArena errToPanic
  by_cases h1 : (!isPow2 M || decide (M > CHUNK_ALIGN)) = true
  · simp [h1]
  simp only [h1, Bool.false_eq_true, if_false]
  by_cases h2 : cap = 0
  · simp [h2]
  simp only [h2, if_false]
  by_cases h3 : validLayout cap M = true
  case neg => simp [h3]
  simp only [h3, Bool.not_true, Bool.false_eq_true, if_false, if_true]
  cases newChunkMemoryDetails M none cap M with
  | ok d =>
    simp only [bindO]
    have hne := newChunk_ne_err E [] M d cap 0 s
    generalize newChunk E [] M d cap 0 s = m at hne
    obtain ⟨ms, mo⟩ := m
    cases mo with
    | ok oc => cases oc <;> simp
    | err => exact absurd rfl hne.1
    | panic => exact absurd rfl hne.2
    | _ => simp
  | _ => simp

theorem gen_with_min_align_and_capacity (E M cap : Nat) (s : St) (hs : s.a.chunks = []) (hcap : cap < USIZE) :
    simS (Gen.Fn.with_min_align_and_capacity E M cap s) (newArena E M cap false s) := by
  unfold Gen.Fn.with_min_align_and_capacity reifyS
  rw [newArena_infallible]
  have hh := gen_try_with_min_align_and_capacity E M cap s hs hcap
  generalize Gen.Fn.try_with_min_align_and_capacity E M cap s = g at hh ⊢
  obtain ⟨gs, go⟩ := g
  
  generalize newArena E M cap true s = m at hh ⊢
  obtain ⟨ms, mo⟩ := m
  obtain ⟨e1, e2⟩ := hh
  simp only at e1 e2; subst e1
  cases go <;> cases mo <;> simp_all [reify, bindO, errToPanic, simS, Outcome.sim]

theorem gen_with_min_align (E M : Nat) (s : St) :
    Gen.Fn.with_min_align E M s = newArena E M 0 false s := by
  unfold Gen.Fn.with_min_align newArena
  by_cases hp : isPow2 M = true
  case neg => simp [hp]
  by_cases hle : M ≤ CHUNK_ALIGN
  · have : ¬ M > CHUNK_ALIGN := by omega
    simp [hp, hle, this, mkArena_static]
  · have : M > CHUNK_ALIGN := by omega
    simp [hp, hle, this]

/-- `Default::default()` is `with_min_align()`, assertions included -/
theorem gen_default (E M : Nat) (s : St) : Gen.Fn.default_ E M s = newArena E M 0 false s := by
  unfold Gen.Fn.default_
  rw [gen_with_min_align]
  generalize newArena E M 0 false s = r
  obtain ⟨rs, ro⟩ := r
  cases ro <;> rfl

theorem gen_try_with_capacity (E cap : Nat) (s : St) (hs : s.a.chunks = []) (hcap : cap < USIZE) :
    simS (Gen.Fn.try_with_capacity E 1 cap s) (newArena E 1 cap true s) := by
  unfold Gen.Fn.try_with_capacity reifyS
  have hh := gen_try_with_min_align_and_capacity E 1 cap s hs hcap
  generalize Gen.Fn.try_with_min_align_and_capacity E 1 cap s = g at hh ⊢
  obtain ⟨gs, go⟩ := g
  
  generalize newArena E 1 cap true s = m at hh ⊢
  obtain ⟨ms, mo⟩ := m
  obtain ⟨e1, e2⟩ := hh
  simp only at e1 e2; subst e1
  cases go <;> cases mo <;> simp_all [reify, bindO, errToPanic, simS, Outcome.sim]

theorem gen_with_capacity (E cap : Nat) (s : St) (hs : s.a.chunks = []) (hcap : cap < USIZE) :
    simS (Gen.Fn.with_capacity E 1 cap s) (newArena E 1 cap false s) := by
  unfold Gen.Fn.with_capacity reifyS
  rw [newArena_infallible]
  have hh := gen_try_with_capacity E cap s hs hcap
  generalize Gen.Fn.try_with_capacity E 1 cap s = g at hh ⊢
  obtain ⟨gs, go⟩ := g
  
  generalize newArena E 1 cap true s = m at hh ⊢
  obtain ⟨ms, mo⟩ := m
  obtain ⟨e1, e2⟩ := hh
  simp only at e1 e2; subst e1
  cases go <;> cases mo <;> simp_all [reify, bindO, errToPanic, simS, Outcome.sim]

theorem gen_try_new (E : Nat) (s : St) (hs : s.a.chunks = []) :
    simS (Gen.Fn.try_new E 1 s) (newArena E 1 0 true s) := by
  unfold Gen.Fn.try_new reifyS
  have hh := gen_try_with_capacity E 0 s hs (by unfold USIZE; omega)
  generalize Gen.Fn.try_with_capacity E 1 0 s = g at hh ⊢
  obtain ⟨gs, go⟩ := g
  
  generalize newArena E 1 0 true s = m at hh ⊢
  obtain ⟨ms, mo⟩ := m
  obtain ⟨e1, e2⟩ := hh
  simp only at e1 e2; subst e1
  cases go <;> cases mo <;> simp_all [reify, bindO, errToPanic, simS, Outcome.sim]

theorem gen_new (E : Nat) (s : St) (hs : s.a.chunks = []) :
    simS (Gen.Fn.new E 1 s) (newArena E 1 0 false s) := by
  unfold Gen.Fn.new
  have h := gen_with_capacity E 0 s hs (by unfold USIZE; omega)
  generalize Gen.Fn.with_capacity E 1 0 s = g at h ⊢
  obtain ⟨gs, go⟩ := g
  cases go <;> exact h

#print axioms gen_try_with_min_align_and_capacity
#print axioms gen_with_min_align_and_capacity
#print axioms gen_with_min_align
#print axioms gen_default
#print axioms gen_try_with_capacity
#print axioms gen_with_capacity
#print axioms gen_try_new
#print axioms gen_new
end Bump
