import BumpVerif.Props.GenFnRealloc
import BumpVerif.Gen.FnRewind
/-! # The rewind of a failed initializer (`alloc_try_with` / `try_alloc_try_with`, the `Err(e)` arm) equals the model

Only the statements of the `Err(e) => { … }` arm are translated (a *region*: the enclosing generic function with its
closure and `Result<T, E>` slot is the hand model `allocTryWith`).  Its free variables are the locals
`rewind_footer`, `rewind_ptr` (the current chunk and its finger on entry) and `inner_result_ptr` (the slot). -/
namespace Bump
open Rs Gen

/-- the footer recorded on entry, as the translated code has it (a chunk) and as the model has it (its identity) -/
def SameFooter (E : Nat) (rf : Chunk) (rid : Option Nat) : Prop :=
  match rid with
  | none => rf.footer = E
  | some a => rf.footer = a ∧ a ≠ E

theorem gen_rewind_core (E : Nat) (rf : Chunk) (rid : Option Nat) (rp slot : Nat) (s : St)
    (hne : HeadNotStatic E s.a) (hrf : SameFooter E rf rid)
    (g : Nat → Nat → Chunk → Nat → Nat → St → St × Outcome Unit)
    (hg : ∀ s', g E s.a.M rf rp slot s' =
      (pureO s' (Gen.Fn.is_last_allocation E s.a.M slot s') fun s r =>
        if r then
          (let current_footer_p := (s.a.cur E);
           let current_footer := current_footer_p;
           if (current_footer_p.footer == rf.footer) then
             (bindO (Gen.Fn.set_ptr E s.a.M current_footer rp s) fun s _ => (s, Outcome.ok ()))
           else
             (bindO (Gen.Fn.set_ptr E s.a.M current_footer current_footer_p.footer s) fun s _ => (s, Outcome.ok ())))
        else (s, Outcome.ok ()))) :
    simS (g E s.a.M rf rp slot s) (rewind E rid rp slot s) := by
  rw [hg]
  simp only [gen_is_last_allocation, pureO, bindO_ok, rewind]
  by_cases hl : isLast E s.a slot = true
  case neg => simp [hl, simS, Outcome.sim]
  simp only [hl, if_true]
  have hcond : ((s.a.cur E).footer == rf.footer) = (footerId s.a == rid) := by
    unfold footerId Arena.cur
    cases hc : s.a.chunks with
    | nil =>
      simp only [List.headD_nil, emptyChunk_footer, List.head?_nil, Option.map_none]
      cases rid with
      | none => simp [SameFooter] at hrf; simp [hrf]
      | some a =>
        obtain ⟨h1, h2⟩ := hrf
        have : ¬ E = rf.footer := by omega
        simp [this]
    | cons h rest =>
      have hh : h.footer ≠ E := hne h (by simp [hc])
      simp only [List.headD_cons, List.head?_cons, Option.map_some]
      cases rid with
      | none =>
        simp [SameFooter] at hrf
        have : ¬ h.footer = rf.footer := by omega
        simp [this]
      | some a =>
        obtain ⟨h1, h2⟩ := hrf
        simp [h1]
  have key : ∀ tgt, simS
      (bindO (Fn.set_ptr E s.a.M (s.a.cur E) tgt s) fun s (_ : Unit) => (s, Outcome.ok ()))
      (storePtr E s tgt "rewind: finger of the static empty chunk moved") := by
    intro tgt
    have hs := gen_set_ptr E s.a.M tgt s "rewind: finger of the static empty chunk moved" hne
    generalize Fn.set_ptr E s.a.M (s.a.cur E) tgt s = gg at hs ⊢
    obtain ⟨gs, go⟩ := gg
    generalize storePtr E s tgt "rewind: finger of the static empty chunk moved" = m at hs ⊢
    obtain ⟨ms, mo⟩ := m
    obtain ⟨e1, e2⟩ := hs
    simp only at e1 e2; subst e1
    cases go <;> cases mo <;> simp_all [simS, Outcome.sim, bindO]
  by_cases hcf : (footerId s.a == rid) = true
  · have h1 : ((s.a.cur E).footer == rf.footer) = true := by rw [hcond]; exact hcf
    simp only [h1, hcf, if_true]
    exact key rp
  · have hcf' : (footerId s.a == rid) = false := by simpa using hcf
    have h1 : ((s.a.cur E).footer == rf.footer) = false := by rw [hcond]; exact hcf'
    simp only [h1, hcf', Bool.false_eq_true, if_false]
    exact key _

theorem gen_alloc_try_with_rewind (E : Nat) (rf : Chunk) (rid : Option Nat) (rp slot : Nat) (s : St)
    (hne : HeadNotStatic E s.a) (hrf : SameFooter E rf rid) :
    simS (Gen.Fn.alloc_try_with_rewind E s.a.M rf rp slot s) (rewind E rid rp slot s) :=
  gen_rewind_core E rf rid rp slot s hne hrf Gen.Fn.alloc_try_with_rewind (fun _ => rfl)

theorem gen_try_alloc_try_with_rewind (E : Nat) (rf : Chunk) (rid : Option Nat) (rp slot : Nat) (s : St)
    (hne : HeadNotStatic E s.a) (hrf : SameFooter E rf rid) :
    simS (Gen.Fn.try_alloc_try_with_rewind E s.a.M rf rp slot s) (rewind E rid rp slot s) :=
  gen_rewind_core E rf rid rp slot s hne hrf Gen.Fn.try_alloc_try_with_rewind (fun _ => rfl)

#print axioms gen_alloc_try_with_rewind
#print axioms gen_try_alloc_try_with_rewind
end Bump
