import BumpVerif.Gen.FnTyped
/-!
# The typed allocation methods of `Bump` as translated: what is written where, what is called when

These are the C02 / C11 statements about `alloc`, `alloc_with`, `alloc_slice_copy`, `alloc_str`, `alloc_slice_fill_with`,
`alloc_slice_fill_copy` and their `try_` twins, proved of the *translated* bodies, relative to whatever the translated
`alloc_layout` / `try_alloc_layout` does on the arena state (its own equivalence with the arena model is `gen_alloc_layout` /
`gen_try_alloc_layout`):

* space first: when the allocation fails nothing is written and the closure is never called;
* on success the block returned is the one `alloc_layout` returned, element `i` is written at `p + i * size_of::<T>()` with the
  value the closure returned for `i` (or the `i`-th source element), closures are called exactly once per index, in index order;
* a closure that panics at index `e` has been called for `0..=e`, elements `0..e` are written, the arena state is the one after
  the allocation (the block stays allocated: no rewind in these methods).
-/
namespace Bump.RsT
open Bump Rs Gen

/-- a closure that only computes a value -/
def pureClo (g : Nat → Val) : Clo := fun i t => (t, .ok (g i))
/-- a closure that computes values and panics when called with `e` -/
def panicClo (g : Nat → Val) (e : Nat) : Clo := fun i t => if i = e then (t, .panic) else (t, .ok (g i))

theorem constClo_pure (v : Val) : constClo v = pureClo (fun _ => v) := rfl

/-- the result of a failed allocation carried through a typed method: nothing but the arena state changes -/
def afterAlloc {α β : Type} (t : TS) (r : St × Outcome α) (k : St → α → TS × Outcome β) : TS × Outcome β :=
  match r with
  | (s', .ok p) => k s' p
  | (s', .err) => ({ t with st := s' }, .err)
  | (s', .panic) => ({ t with st := s' }, .panic)
  | (s', .bad w) => ({ t with st := s' }, .bad w)
  | (s', .envBad) => ({ t with st := s' }, .envBad)

theorem bind_liftS {α β : Type} (f : St → St × Outcome α) (t : TS) (k : TS → α → TS × Outcome β) :
    bind (liftS f t) k = afterAlloc t (f t.st) (fun s' p => k { t with st := s' } p) := by
  unfold liftS afterAlloc bind
  generalize f t.st = r
  obtain ⟨s', o⟩ := r
  cases o <;> rfl

/-! ## the fill loop -/

theorem range_shift (n i0 : Nat) (h : Nat → Nat × Val) :
    h i0 :: (List.range n).map (fun k => h (i0 + 1 + k)) = (List.range (n + 1)).map (fun k => h (i0 + k)) := by
  rw [List.range_succ_eq_map]
  simp only [List.map_cons, List.map_map, Nat.add_zero]
  congr 1
  apply List.map_congr_left
  intro k _
  simp only [Function.comp]
  congr 1; omega

theorem range_shift' (n i0 : Nat) :
    i0 :: (List.range n).map (fun k => i0 + 1 + k) = (List.range (n + 1)).map (fun k => i0 + k) := by
  rw [List.range_succ_eq_map]
  simp only [List.map_cons, List.map_map, Nat.add_zero]
  congr 1
  apply List.map_congr_left
  intro k _
  simp only [Function.comp]
  omega

/-- pure closure: `n` iterations from index `i0` write elements `i0 .. i0+n` in order and call the closure once per index -/
theorem fill_loop_pure (E M esz eal len : Nat) (g : Nat → Val) (lay : Layout) (dst : Nat) :
    ∀ (n i0 : Nat) (t : TS),
    Gen.Fn.t_alloc_slice_fill_with.loop E M esz eal len (pureClo g) lay dst n i0 t =
      ({ t with wr := t.wr ++ (List.range n).map (fun k => (dst + (i0 + k) * esz, g (i0 + k))),
                calls := t.calls ++ (List.range n).map (fun k => i0 + k) }, .ok ()) := by
  intro n
  induction n with
  | zero => intro i0 t; simp [Gen.Fn.t_alloc_slice_fill_with.loop]
  | succ n ih =>
    intro i0 t
    unfold Gen.Fn.t_alloc_slice_fill_with.loop
    simp only [call, pureClo, bind, write, ih]
    have h1 := range_shift n i0 (fun j => (dst + j * esz, g j))
    have h2 := range_shift' n i0
    simp only [List.append_assoc, List.singleton_append, h1, h2]

/-- closure panicking at `e`: reached after the elements before it -/
theorem fill_loop_panic (E M esz eal len : Nat) (g : Nat → Val) (e : Nat) (lay : Layout) (dst : Nat) :
    ∀ (n i0 : Nat) (t : TS), i0 ≤ e → e < i0 + n →
    Gen.Fn.t_alloc_slice_fill_with.loop E M esz eal len (panicClo g e) lay dst n i0 t =
      ({ t with wr := t.wr ++ (List.range (e - i0)).map (fun k => (dst + (i0 + k) * esz, g (i0 + k))),
                calls := t.calls ++ (List.range (e - i0 + 1)).map (fun k => i0 + k) }, .panic) := by
  intro n
  induction n with
  | zero => intro i0 t h1 h2; omega
  | succ n ih =>
    intro i0 t h1 h2
    unfold Gen.Fn.t_alloc_slice_fill_with.loop
    by_cases he : i0 = e
    · subst he
      simp [call, panicClo, bind]
    · have hlt : i0 + 1 ≤ e := by omega
      simp only [call, panicClo, he, if_false, bind, write]
      rw [ih (i0 + 1) _ hlt (by omega)]
      have e1 : e - i0 = (e - (i0 + 1)) + 1 := by omega
      have h1' := range_shift (e - (i0 + 1)) i0 (fun j => (dst + j * esz, g j))
      have h2' := range_shift' (e - (i0 + 1) + 1) i0
      rw [e1]
      simp only [List.append_assoc, List.singleton_append, h1', h2']

/-- the `try_` twin's loop is the same function -/
theorem try_fill_loop_eq (E M esz eal len : Nat) (f : Clo) (lay : Layout) (dst : Nat) :
    ∀ (n i0 : Nat) (t : TS),
    Gen.Fn.t_try_alloc_slice_fill_with.loop E M esz eal len f lay dst n i0 t =
      Gen.Fn.t_alloc_slice_fill_with.loop E M esz eal len f lay dst n i0 t := by
  intro n
  induction n with
  | zero => intro i0 t; rfl
  | succ n ih =>
    intro i0 t
    unfold Gen.Fn.t_try_alloc_slice_fill_with.loop Gen.Fn.t_alloc_slice_fill_with.loop
    simp only [ih]

theorem arrayLayout_some {esz eal n total : Nat} (h : arrayLayout esz eal n = some total) : total = esz * n := by
  unfold arrayLayout at h
  split at h
  · cases h
  · cases h; rfl

/-! ## `alloc_slice_fill_with` / `try_alloc_slice_fill_with` -/

/-- what a successful fill leaves behind -/
def filled (t : TS) (s' : St) (esz p len : Nat) (g : Nat → Val) : TS :=
  { t with st := s', wr := t.wr ++ (List.range len).map (fun i => (p + i * esz, g i)), calls := t.calls ++ List.range len }

theorem gen_alloc_slice_fill_with (E M esz eal len : Nat) (g : Nat → Val) (t : TS) :
    Gen.Fn.t_alloc_slice_fill_with E M esz eal len (pureClo g) t =
      match arrayLayout esz eal len with
      | none => (t, .panic)
      | some total => afterAlloc t (Gen.Fn.alloc_layout E M ⟨total, eal⟩ t.st) fun s' p => (filled t s' esz p len g, .ok (p, len)) := by
  unfold Gen.Fn.t_alloc_slice_fill_with
  cases h : arrayLayout esz eal len with
  | none => rfl
  | some total =>
    have ht := arrayLayout_some h
    simp only [bind_liftS]
    congr 1
    funext s' p
    simp only [fill_loop_pure, bind, ht, beq_self_eq_true, if_true, filled, Nat.zero_add]
    simp

theorem gen_try_alloc_slice_fill_with (E M esz eal len : Nat) (g : Nat → Val) (t : TS) :
    Gen.Fn.t_try_alloc_slice_fill_with E M esz eal len (pureClo g) t =
      match arrayLayout esz eal len with
      | none => (t, .err)
      | some total => afterAlloc t (Gen.Fn.try_alloc_layout E M ⟨total, eal⟩ t.st) fun s' p => (filled t s' esz p len g, .ok (p, len)) := by
  unfold Gen.Fn.t_try_alloc_slice_fill_with
  cases h : arrayLayout esz eal len with
  | none => rfl
  | some total =>
    have ht := arrayLayout_some h
    simp only [bind_liftS]
    congr 1
    funext s' p
    simp only [try_fill_loop_eq, fill_loop_pure, bind, ht, beq_self_eq_true, if_true, filled, Nat.zero_add]
    simp

/-- C11 for the fill methods: a closure that panics at index `e < len` was called for `0..=e`, elements `0..e` are written, and the
arena is as the allocation left it -/
theorem gen_alloc_slice_fill_with_panic (E M esz eal len : Nat) (g : Nat → Val) (e : Nat) (he : e < len) (t : TS) :
    Gen.Fn.t_alloc_slice_fill_with E M esz eal len (panicClo g e) t =
      match arrayLayout esz eal len with
      | none => (t, .panic)
      | some total => afterAlloc t (Gen.Fn.alloc_layout E M ⟨total, eal⟩ t.st) fun s' p =>
          ({ t with st := s', wr := t.wr ++ (List.range e).map (fun i => (p + i * esz, g i)), calls := t.calls ++ List.range (e + 1) }, .panic) := by
  unfold Gen.Fn.t_alloc_slice_fill_with
  cases h : arrayLayout esz eal len with
  | none => rfl
  | some total =>
    simp only [bind_liftS]
    congr 1
    funext s' p
    rw [fill_loop_panic E M esz eal len g e _ p len 0 _ (by omega) (by omega)]
    simp [bind]

theorem gen_try_alloc_slice_fill_with_panic (E M esz eal len : Nat) (g : Nat → Val) (e : Nat) (he : e < len) (t : TS) :
    Gen.Fn.t_try_alloc_slice_fill_with E M esz eal len (panicClo g e) t =
      match arrayLayout esz eal len with
      | none => (t, .err)
      | some total => afterAlloc t (Gen.Fn.try_alloc_layout E M ⟨total, eal⟩ t.st) fun s' p =>
          ({ t with st := s', wr := t.wr ++ (List.range e).map (fun i => (p + i * esz, g i)), calls := t.calls ++ List.range (e + 1) }, .panic) := by
  unfold Gen.Fn.t_try_alloc_slice_fill_with
  cases h : arrayLayout esz eal len with
  | none => rfl
  | some total =>
    simp only [bind_liftS]
    congr 1
    funext s' p
    rw [try_fill_loop_eq, fill_loop_panic E M esz eal len g e _ p len 0 _ (by omega) (by omega)]
    simp [bind]

/-- `alloc_slice_fill_copy(len, v)` is `alloc_slice_fill_with(len, |_| v)` -/
theorem gen_alloc_slice_fill_copy (E M esz eal len : Nat) (v : Val) (t : TS) :
    Gen.Fn.t_alloc_slice_fill_copy E M esz eal len v t = Gen.Fn.t_alloc_slice_fill_with E M esz eal len (pureClo fun _ => v) t := by
  unfold Gen.Fn.t_alloc_slice_fill_copy
  rw [constClo_pure]
  generalize Gen.Fn.t_alloc_slice_fill_with E M esz eal len (pureClo fun _ => v) t = r
  obtain ⟨t', o⟩ := r
  cases o <;> rfl

theorem gen_try_alloc_slice_fill_copy (E M esz eal len : Nat) (v : Val) (t : TS) :
    Gen.Fn.t_try_alloc_slice_fill_copy E M esz eal len v t = Gen.Fn.t_try_alloc_slice_fill_with E M esz eal len (pureClo fun _ => v) t := by
  unfold Gen.Fn.t_try_alloc_slice_fill_copy
  rw [constClo_pure]
  generalize Gen.Fn.t_try_alloc_slice_fill_with E M esz eal len (pureClo fun _ => v) t = r
  obtain ⟨t', o⟩ := r
  cases o <;> rfl

/-! ## `alloc_with` / `try_alloc_with` / `alloc` / `try_alloc` -/

/-- space first, then the closure runs (once, logged as call `0`) on the state after the allocation, then its value is written at the
block: for *any* closure, also one that allocates from the same arena or panics -/
theorem gen_alloc_with (E M esz eal : Nat) (f : Clo) (t : TS) :
    Gen.Fn.t_alloc_with E M esz eal f t =
      afterAlloc t (Gen.Fn.alloc_layout E M ⟨esz, eal⟩ t.st) fun s' p =>
        bind (f 0 { t with st := s', calls := t.calls ++ [0] }) fun t' v => ({ t' with wr := t'.wr ++ [(p, v)] }, .ok p) := by
  unfold Gen.Fn.t_alloc_with Gen.Fn.t_alloc_with_inner_writer
  simp only [bind_liftS]
  congr 1
  funext s' p
  simp only [call]
  generalize f 0 _ = r
  obtain ⟨t', o⟩ := r
  cases o <;> rfl

theorem gen_try_alloc_with (E M esz eal : Nat) (f : Clo) (t : TS) :
    Gen.Fn.t_try_alloc_with E M esz eal f t =
      afterAlloc t (Gen.Fn.try_alloc_layout E M ⟨esz, eal⟩ t.st) fun s' p =>
        bind (f 0 { t with st := s', calls := t.calls ++ [0] }) fun t' v => ({ t' with wr := t'.wr ++ [(p, v)] }, .ok p) := by
  unfold Gen.Fn.t_try_alloc_with Gen.Fn.t_try_alloc_with_inner_writer
  simp only [bind_liftS]
  congr 1
  funext s' p
  simp only [call]
  generalize f 0 _ = r
  obtain ⟨t', o⟩ := r
  cases o <;> rfl

/-- `alloc(v)`: one block of `Layout::new::<T>()`, `v` written at it -/
theorem gen_alloc (E M esz eal : Nat) (v : Val) (t : TS) :
    Gen.Fn.t_alloc E M esz eal v t =
      afterAlloc t (Gen.Fn.alloc_layout E M ⟨esz, eal⟩ t.st) fun s' p =>
        ({ t with st := s', wr := t.wr ++ [(p, v)], calls := t.calls ++ [0] }, .ok p) := by
  unfold Gen.Fn.t_alloc
  rw [gen_alloc_with]
  unfold afterAlloc
  generalize Gen.Fn.alloc_layout E M ⟨esz, eal⟩ t.st = r
  obtain ⟨s', o⟩ := r
  cases o <;> rfl

theorem gen_try_alloc (E M esz eal : Nat) (v : Val) (t : TS) :
    Gen.Fn.t_try_alloc E M esz eal v t =
      afterAlloc t (Gen.Fn.try_alloc_layout E M ⟨esz, eal⟩ t.st) fun s' p =>
        ({ t with st := s', wr := t.wr ++ [(p, v)], calls := t.calls ++ [0] }, .ok p) := by
  unfold Gen.Fn.t_try_alloc
  rw [gen_try_alloc_with]
  unfold afterAlloc
  generalize Gen.Fn.try_alloc_layout E M ⟨esz, eal⟩ t.st = r
  obtain ⟨s', o⟩ := r
  cases o <;> rfl

/-! ## `alloc_slice_copy` / `alloc_str` -/

theorem gen_alloc_slice_copy (E M esz eal : Nat) (src : List Val) (t : TS) :
    Gen.Fn.t_alloc_slice_copy E M esz eal src t =
      afterAlloc t (Gen.Fn.alloc_layout E M ⟨esz * src.length, eal⟩ t.st) fun s' p =>
        ({ t with st := s', wr := t.wr ++ (List.range src.length).map fun i => (p + i * esz, src.getD i 0) }, .ok (p, src.length)) := by
  unfold Gen.Fn.t_alloc_slice_copy
  simp only [bind_liftS]
  rfl

theorem gen_try_alloc_slice_copy (E M esz eal : Nat) (src : List Val) (t : TS) :
    Gen.Fn.t_try_alloc_slice_copy E M esz eal src t =
      afterAlloc t (Gen.Fn.try_alloc_layout E M ⟨esz * src.length, eal⟩ t.st) fun s' p =>
        ({ t with st := s', wr := t.wr ++ (List.range src.length).map fun i => (p + i * esz, src.getD i 0) }, .ok (p, src.length)) := by
  unfold Gen.Fn.t_try_alloc_slice_copy
  simp only [bind_liftS]
  rfl

/-- `alloc_str(s)` is `alloc_slice_copy(s.as_bytes())` at `u8`: `len` bytes with alignment 1, byte `i` at `p + i` -/
theorem gen_alloc_str (E M : Nat) (src : List Val) (t : TS) :
    Gen.Fn.t_alloc_str E M src t =
      afterAlloc t (Gen.Fn.alloc_layout E M ⟨src.length, 1⟩ t.st) fun s' p =>
        ({ t with st := s', wr := t.wr ++ (List.range src.length).map fun i => (p + i, src.getD i 0) }, .ok (p, src.length)) := by
  unfold Gen.Fn.t_alloc_str
  rw [gen_alloc_slice_copy]
  simp only [Nat.one_mul, Nat.mul_one]
  unfold afterAlloc
  generalize Gen.Fn.alloc_layout E M ⟨src.length, 1⟩ t.st = r
  obtain ⟨s', o⟩ := r
  cases o <;> rfl

theorem gen_try_alloc_str (E M : Nat) (src : List Val) (t : TS) :
    Gen.Fn.t_try_alloc_str E M src t =
      afterAlloc t (Gen.Fn.try_alloc_layout E M ⟨src.length, 1⟩ t.st) fun s' p =>
        ({ t with st := s', wr := t.wr ++ (List.range src.length).map fun i => (p + i, src.getD i 0) }, .ok (p, src.length)) := by
  unfold Gen.Fn.t_try_alloc_str
  rw [gen_try_alloc_slice_copy]
  simp only [Nat.one_mul, Nat.mul_one]
  unfold afterAlloc
  generalize Gen.Fn.try_alloc_layout E M ⟨src.length, 1⟩ t.st = r
  obtain ⟨s', o⟩ := r
  cases o <;> rfl

/-! ## `clone` / `default` / `iter` variants -/

/-- the trailing `Ok(x)` / tail expression of a one-line wrapper -/
theorem bind_ok_id {α : Type} (r : TS × Outcome α) : bind r (fun t x => (t, Outcome.ok x)) = r := by
  obtain ⟨t, o⟩ := r
  cases o <;> rfl

/-- `alloc_slice_fill_clone(len, v)` is `alloc_slice_fill_with(len, |_| v.clone())` -/
theorem gen_alloc_slice_fill_clone (E M esz eal len : Nat) (cl : Val → TS → TS × Outcome Val) (v : Val) (t : TS) :
    Gen.Fn.t_alloc_slice_fill_clone E M esz eal cl len v t = Gen.Fn.t_alloc_slice_fill_with E M esz eal len (fun _ t => cl v t) t := by
  unfold Gen.Fn.t_alloc_slice_fill_clone
  simp only [bind_ok_id]
theorem gen_try_alloc_slice_fill_clone (E M esz eal len : Nat) (cl : Val → TS → TS × Outcome Val) (v : Val) (t : TS) :
    Gen.Fn.t_try_alloc_slice_fill_clone E M esz eal cl len v t = Gen.Fn.t_try_alloc_slice_fill_with E M esz eal len (fun _ t => cl v t) t := by
  unfold Gen.Fn.t_try_alloc_slice_fill_clone
  simp only [bind_ok_id]
/-- `alloc_slice_fill_default(len)` is `alloc_slice_fill_with(len, |_| T::default())` -/
theorem gen_alloc_slice_fill_default (E M esz eal len : Nat) (d : TS → TS × Outcome Val) (t : TS) :
    Gen.Fn.t_alloc_slice_fill_default E M esz eal d len t = Gen.Fn.t_alloc_slice_fill_with E M esz eal len (fun _ t => d t) t := by
  unfold Gen.Fn.t_alloc_slice_fill_default
  simp only [bind_ok_id]
theorem gen_try_alloc_slice_fill_default (E M esz eal len : Nat) (d : TS → TS × Outcome Val) (t : TS) :
    Gen.Fn.t_try_alloc_slice_fill_default E M esz eal d len t = Gen.Fn.t_try_alloc_slice_fill_with E M esz eal len (fun _ t => d t) t := by
  unfold Gen.Fn.t_try_alloc_slice_fill_default
  simp only [bind_ok_id]

/-- the closure `|_| iter.next().expect(..)` -/
def iterClo (items : List Val) : Clo := fun _ t =>
  bind (iter_next items t) fun t o => match o with | none => (t, .panic) | some x => (t, .ok x)

/-- `alloc_slice_fill_iter(iter)` is `alloc_slice_fill_with(iter.len(), |_| iter.next().expect(..))` -/
theorem gen_alloc_slice_fill_iter (E M esz eal : Nat) (items : List Val) (claimed : Nat) (t : TS) :
    Gen.Fn.t_alloc_slice_fill_iter E M esz eal items claimed t = Gen.Fn.t_alloc_slice_fill_with E M esz eal claimed (iterClo items) t := by
  unfold Gen.Fn.t_alloc_slice_fill_iter
  simp only [bind_ok_id]
  rfl
theorem gen_try_alloc_slice_fill_iter (E M esz eal : Nat) (items : List Val) (claimed : Nat) (t : TS) :
    Gen.Fn.t_try_alloc_slice_fill_iter E M esz eal items claimed t = Gen.Fn.t_try_alloc_slice_fill_with E M esz eal claimed (iterClo items) t := by
  unfold Gen.Fn.t_try_alloc_slice_fill_iter
  simp only [bind_ok_id]
  rfl

/-- the fill loop over an iterator that has enough items: element `i` is the `i`-th item, the iterator is advanced once per element -/
theorem fill_loop_iter (E M esz eal len : Nat) (items : List Val) (lay : Layout) (dst : Nat) :
    ∀ (n i0 : Nat) (t : TS), t.iterPos = i0 → i0 + n ≤ items.length →
    Gen.Fn.t_alloc_slice_fill_with.loop E M esz eal len (iterClo items) lay dst n i0 t =
      ({ t with wr := t.wr ++ (List.range n).map (fun k => (dst + (i0 + k) * esz, items.getD (i0 + k) 0)),
                calls := t.calls ++ (List.range n).map (fun k => i0 + k), iterPos := i0 + n }, .ok ()) := by
  intro n
  induction n with
  | zero => intro i0 t hp _; subst hp; simp [Gen.Fn.t_alloc_slice_fill_with.loop]
  | succ n ih =>
    intro i0 t hp hle
    unfold Gen.Fn.t_alloc_slice_fill_with.loop
    have hlt : i0 < items.length := by omega
    have hget : items[i0]? = some (items.getD i0 0) := by
      rw [List.getD_eq_getElem?_getD, List.getElem?_eq_getElem hlt]; rfl
    simp only [call, iterClo, iter_next, bind, hp, hget, write]
    rw [ih (i0 + 1) _ rfl (by omega)]
    have h1 := range_shift n i0 (fun j => (dst + j * esz, items.getD j 0))
    have h2 := range_shift' n i0
    simp only [List.append_assoc, List.singleton_append, h1, h2]
    congr 2
    omega

/-- an iterator with too few items: the closure panics at the first missing index, after the items that exist were written -/
theorem fill_loop_iter_short (E M esz eal len : Nat) (items : List Val) (lay : Layout) (dst : Nat) :
    ∀ (n i0 : Nat) (t : TS), t.iterPos = i0 → i0 ≤ items.length → items.length < i0 + n →
    Gen.Fn.t_alloc_slice_fill_with.loop E M esz eal len (iterClo items) lay dst n i0 t =
      ({ t with wr := t.wr ++ (List.range (items.length - i0)).map (fun k => (dst + (i0 + k) * esz, items.getD (i0 + k) 0)),
                calls := t.calls ++ (List.range (items.length - i0 + 1)).map (fun k => i0 + k), iterPos := items.length + 1 }, .panic) := by
  intro n
  induction n with
  | zero => intro i0 t _ h1 h2; omega
  | succ n ih =>
    intro i0 t hp h1 h2
    unfold Gen.Fn.t_alloc_slice_fill_with.loop
    by_cases he : i0 = items.length
    · have hget : items[i0]? = none := by rw [he]; exact List.getElem?_eq_none (Nat.le_refl _)
      simp only [call, iterClo, iter_next, bind, hp, hget]
      subst he
      simp
    · have hlt : i0 < items.length := by omega
      have hget : items[i0]? = some (items.getD i0 0) := by
        rw [List.getD_eq_getElem?_getD, List.getElem?_eq_getElem hlt]; rfl
      simp only [call, iterClo, iter_next, bind, hp, hget, write]
      rw [ih (i0 + 1) _ rfl (by omega) (by omega)]
      have e1 : items.length - i0 = (items.length - (i0 + 1)) + 1 := by omega
      have h1' := range_shift (items.length - (i0 + 1)) i0 (fun j => (dst + j * esz, items.getD j 0))
      have h2' := range_shift' (items.length - (i0 + 1) + 1) i0
      rw [e1]
      simp only [List.append_assoc, List.singleton_append, h1', h2']

/-- C02 for `alloc_slice_fill_iter`: an iterator that is as long as it says (a fresh one: nothing handed out yet) fills the slice
with its items in order -/
theorem gen_alloc_slice_fill_iter_exact (E M esz eal : Nat) (items : List Val) (t : TS) (hp : t.iterPos = 0) :
    Gen.Fn.t_alloc_slice_fill_iter E M esz eal items items.length t =
      match arrayLayout esz eal items.length with
      | none => (t, .panic)
      | some total => afterAlloc t (Gen.Fn.alloc_layout E M ⟨total, eal⟩ t.st) fun s' p =>
          ({ t with st := s', wr := t.wr ++ (List.range items.length).map (fun i => (p + i * esz, items.getD i 0)),
                    calls := t.calls ++ List.range items.length, iterPos := items.length }, .ok (p, items.length)) := by
  rw [gen_alloc_slice_fill_iter]
  unfold Gen.Fn.t_alloc_slice_fill_with
  cases h : arrayLayout esz eal items.length with
  | none => rfl
  | some total =>
    have ht := arrayLayout_some h
    simp only [bind_liftS]
    congr 1
    funext s' p
    rw [fill_loop_iter E M esz eal _ items _ p items.length 0 { t with st := s' } hp (by omega)]
    simp [bind, ht]

/-- `alloc_slice_clone(src)` with a `Clone` that only computes: element `i` is the clone of `src[i]`, cloned in index order -/
theorem slice_clone_loop (E M esz eal : Nat) (h : Val → Val) (src0 : List Val) (lay : Layout) (dst : Nat) :
    ∀ (xs : List Val) (i0 : Nat) (t : TS),
    Gen.Fn.t_alloc_slice_clone.loop E M esz eal (fun v t => (t, .ok (h v))) src0 lay dst xs i0 t =
      ({ t with wr := t.wr ++ (List.range xs.length).map (fun k => (dst + (i0 + k) * esz, h (xs.getD k 0))) }, .ok ()) := by
  intro xs
  induction xs with
  | nil => intro i0 t; simp [Gen.Fn.t_alloc_slice_clone.loop]
  | cons x xs ih =>
    intro i0 t
    unfold Gen.Fn.t_alloc_slice_clone.loop
    simp only [bind, write, ih, List.length_cons]
    rw [List.range_succ_eq_map]
    simp only [List.map_cons, List.map_map, List.append_assoc, List.singleton_append, Nat.add_zero, List.getD_cons_zero]
    congr 4
    apply List.map_congr_left
    intro k _
    simp only [Function.comp, List.getD_cons_succ]
    have : i0 + 1 + k = i0 + k.succ := by omega
    rw [this]

theorem gen_alloc_slice_clone (E M esz eal : Nat) (h : Val → Val) (src : List Val) (t : TS) :
    Gen.Fn.t_alloc_slice_clone E M esz eal (fun v t => (t, .ok (h v))) src t =
      afterAlloc t (Gen.Fn.alloc_layout E M ⟨esz * src.length, eal⟩ t.st) fun s' p =>
        ({ t with st := s', wr := t.wr ++ (List.range src.length).map fun i => (p + i * esz, h (src.getD i 0)) }, .ok (p, src.length)) := by
  unfold Gen.Fn.t_alloc_slice_clone
  simp only [bind_liftS]
  congr 1
  funext s' p
  simp [slice_clone_loop, bind]

theorem try_slice_clone_loop_eq (E M esz eal : Nat) (cl : Val → TS → TS × Outcome Val) (src0 : List Val) (lay : Layout) (dst : Nat) :
    ∀ (xs : List Val) (i0 : Nat) (t : TS),
    Gen.Fn.t_try_alloc_slice_clone.loop E M esz eal cl src0 lay dst xs i0 t = Gen.Fn.t_alloc_slice_clone.loop E M esz eal cl src0 lay dst xs i0 t := by
  intro xs
  induction xs with
  | nil => intro i0 t; rfl
  | cons x xs ih =>
    intro i0 t
    unfold Gen.Fn.t_try_alloc_slice_clone.loop Gen.Fn.t_alloc_slice_clone.loop
    simp only [ih]

theorem gen_try_alloc_slice_clone (E M esz eal : Nat) (h : Val → Val) (src : List Val) (t : TS) :
    Gen.Fn.t_try_alloc_slice_clone E M esz eal (fun v t => (t, .ok (h v))) src t =
      afterAlloc t (Gen.Fn.try_alloc_layout E M ⟨esz * src.length, eal⟩ t.st) fun s' p =>
        ({ t with st := s', wr := t.wr ++ (List.range src.length).map fun i => (p + i * esz, h (src.getD i 0)) }, .ok (p, src.length)) := by
  unfold Gen.Fn.t_try_alloc_slice_clone
  simp only [bind_liftS]
  congr 1
  funext s' p
  simp [try_slice_clone_loop_eq, slice_clone_loop, bind]

/-! ## `alloc_try_with` / `try_alloc_try_with`: the whole functions, over the rewind region of `Gen/FnRewind.lean` -/

theorem read_val_last (t : TS) (p : Nat) (v : Val) : read_val p { t with wr := t.wr ++ [(p, v)] } = some v := by
  simp [read_val]

/-- what follows the reservation in both functions, for the value `v` the initialiser returned: the value is in the slot; `Ok`
hands out the payload inside the slot and rewinds nothing; `Err` runs the rewind region with the footer and the finger recorded
*on entry* and hands the error value back -/
def afterInit (rewind : Chunk → Nat → Nat → St → St × Outcome Unit) (entry : St) (E okOff : Nat) (isOk : Val → Bool) (p : Nat) (t' : TS) (v : Val) :
    TS × Outcome (Except Val Nat) :=
  let t'' : TS := { t' with wr := t'.wr ++ [(p, v)] }
  if isOk v then (t'', .ok (.ok (p + okOff)))
  else bind (liftS (rewind (entry.a.cur E) (entry.a.cur E).ptr p) t'') fun t3 _ => (t3, .ok (.error v))

/-- `alloc_try_with(f)`, for any initialiser `f` (it may allocate from the same arena, or panic): space for the `Result` first —
a failed reservation runs nothing —, then `f` once on the state after the reservation, its value written into the slot, then
`afterInit` -/
theorem gen_alloc_try_with (E M rsz ral okOff : Nat) (isOk : Val → Bool) (f : Clo) (t : TS) :
    Gen.Fn.t_alloc_try_with E M rsz ral okOff isOk f t =
      afterAlloc t (Gen.Fn.alloc_layout E M ⟨rsz, ral⟩ t.st) fun s' p =>
        bind (f 0 { t with st := s', calls := t.calls ++ [0] }) fun t' v =>
          afterInit (Gen.Fn.alloc_try_with_rewind E M) t.st E okOff isOk p t' v := by
  unfold Gen.Fn.t_alloc_try_with
  simp only []
  rw [gen_alloc_with]
  unfold afterAlloc
  rcases Gen.Fn.alloc_layout E M ⟨rsz, ral⟩ t.st with ⟨s', o⟩
  cases o with
  | ok p =>
    simp only []
    rcases f 0 { t with st := s', calls := t.calls ++ [0] } with ⟨t', o2⟩
    cases o2 with
    | ok v => simp only [bind, read_val_last, afterInit]
    | _ => rfl
  | _ => rfl

theorem gen_try_alloc_try_with (E M rsz ral okOff : Nat) (isOk : Val → Bool) (f : Clo) (t : TS) :
    Gen.Fn.t_try_alloc_try_with E M rsz ral okOff isOk f t =
      afterAlloc t (Gen.Fn.try_alloc_layout E M ⟨rsz, ral⟩ t.st) fun s' p =>
        bind (f 0 { t with st := s', calls := t.calls ++ [0] }) fun t' v =>
          afterInit (Gen.Fn.try_alloc_try_with_rewind E M) t.st E okOff isOk p t' v := by
  unfold Gen.Fn.t_try_alloc_try_with
  simp only []
  rw [gen_try_alloc_with]
  unfold afterAlloc
  rcases Gen.Fn.try_alloc_layout E M ⟨rsz, ral⟩ t.st with ⟨s', o⟩
  cases o with
  | ok p =>
    simp only []
    rcases f 0 { t with st := s', calls := t.calls ++ [0] } with ⟨t', o2⟩
    cases o2 with
    | ok v => simp only [bind, read_val_last, afterInit]
    | _ => rfl
  | _ => rfl

/-! ## `alloc_slice_try_fill_with` / `alloc_slice_try_fill_iter`: an initialiser that may fail per element -/

/-- every element succeeds: the same writes and calls as `alloc_slice_fill_with`, then the exit branch of the loop -/
theorem try_fill_loop_ok (E M esz eal : Nat) (isOk : Val → Bool) (len : Nat) (g : Nat → Val) (lay : Layout) (base dst : Nat) :
    ∀ (n i0 : Nat) (t : TS), (∀ k, k < n → isOk (g (i0 + k)) = true) →
    Gen.Fn.t_alloc_slice_try_fill_with.loop E M esz eal isOk len (pureClo g) lay base dst n i0 t =
      Gen.Fn.t_alloc_slice_try_fill_with.loop E M esz eal isOk len (pureClo g) lay base dst 0 (i0 + n)
        { t with wr := t.wr ++ (List.range n).map (fun k => (dst + (i0 + k) * esz, g (i0 + k))),
                 calls := t.calls ++ (List.range n).map (fun k => i0 + k) } := by
  intro n
  induction n with
  | zero => intro i0 t _; simp [Gen.Fn.t_alloc_slice_try_fill_with.loop]
  | succ n ih =>
    intro i0 t hok
    have h0 : isOk (g i0) = true := by simpa using hok 0 (by omega)
    conv => lhs; unfold Gen.Fn.t_alloc_slice_try_fill_with.loop
    simp only [call, pureClo, bind, h0, if_true, write]
    rw [ih (i0 + 1) _ (fun k hk => by have := hok (k + 1) (by omega); rwa [show i0 + (k + 1) = i0 + 1 + k by omega] at this)]
    have h1 := range_shift n i0 (fun j => (dst + j * esz, g j))
    have h2 := range_shift' n i0
    simp only [List.append_assoc, List.singleton_append, h1, h2]
    congr 1
    omega

/-- the first failing element is `e`: elements before it are written, the closure was called for `i0..=e`, then the whole block
goes back through the private `dealloc` and the error value is handed to the caller -/
theorem try_fill_loop_err (E M esz eal : Nat) (isOk : Val → Bool) (len : Nat) (g : Nat → Val) (e : Nat) (lay : Layout) (base dst : Nat) :
    ∀ (n i0 : Nat) (t : TS), i0 ≤ e → e < i0 + n → (∀ j, i0 ≤ j → j < e → isOk (g j) = true) → isOk (g e) = false →
    Gen.Fn.t_alloc_slice_try_fill_with.loop E M esz eal isOk len (pureClo g) lay base dst n i0 t =
      bind (liftS (Gen.Fn.dealloc E M base lay)
        { t with wr := t.wr ++ (List.range (e - i0)).map (fun k => (dst + (i0 + k) * esz, g (i0 + k))),
                 calls := t.calls ++ (List.range (e - i0 + 1)).map (fun k => i0 + k) })
        fun t' _ => (t', .ok (.error (g e))) := by
  intro n
  induction n with
  | zero => intro i0 t h1 h2; omega
  | succ n ih =>
    intro i0 t h1 h2 hok herr
    conv => lhs; unfold Gen.Fn.t_alloc_slice_try_fill_with.loop
    by_cases he : i0 = e
    · subst he
      simp [call, pureClo, bind, herr]
    · have h0 : isOk (g i0) = true := hok i0 (Nat.le_refl _) (by omega)
      simp only [call, pureClo, bind, h0, if_true, write]
      rw [ih (i0 + 1) _ (by omega) (by omega) (fun j hj1 hj2 => hok j (by omega) hj2) herr]
      have e1 : e - i0 = (e - (i0 + 1)) + 1 := by omega
      have h1' := range_shift (e - (i0 + 1)) i0 (fun j => (dst + j * esz, g j))
      have h2' := range_shift' (e - (i0 + 1) + 1) i0
      rw [e1]
      simp only [List.append_assoc, List.singleton_append, h1', h2']
      rfl

/-- `alloc_slice_try_fill_with(len, f)` with every `f(i)` an `Ok`: the slice of `alloc_slice_fill_with`, wrapped in `Ok` -/
theorem gen_alloc_slice_try_fill_with_ok (E M esz eal len : Nat) (isOk : Val → Bool) (g : Nat → Val) (t : TS)
    (hok : ∀ k, k < len → isOk (g k) = true) :
    Gen.Fn.t_alloc_slice_try_fill_with E M esz eal isOk len (pureClo g) t =
      match arrayLayout esz eal len with
      | none => (t, .panic)
      | some total => afterAlloc t (Gen.Fn.alloc_layout E M ⟨total, eal⟩ t.st) fun s' p => (filled t s' esz p len g, .ok (.ok (p, len))) := by
  unfold Gen.Fn.t_alloc_slice_try_fill_with
  cases h : arrayLayout esz eal len with
  | none => rfl
  | some total =>
    have ht := arrayLayout_some h
    simp only [bind_liftS]
    congr 1
    funext s' p
    rw [try_fill_loop_ok E M esz eal isOk len g _ p p len 0 _ (fun k hk => by simpa using hok k hk)]
    simp [Gen.Fn.t_alloc_slice_try_fill_with.loop, ht, filled]

/-- C11 for `alloc_slice_try_fill_with`: the first `Err` at index `e < len` — elements `0..e` written, `f` called for `0..=e` and
never again, the block released through `dealloc(base, layout)` with the layout it was reserved with, the error returned -/
theorem gen_alloc_slice_try_fill_with_err (E M esz eal len : Nat) (isOk : Val → Bool) (g : Nat → Val) (e : Nat) (he : e < len) (t : TS)
    (hok : ∀ j, j < e → isOk (g j) = true) (herr : isOk (g e) = false) :
    Gen.Fn.t_alloc_slice_try_fill_with E M esz eal isOk len (pureClo g) t =
      match arrayLayout esz eal len with
      | none => (t, .panic)
      | some total => afterAlloc t (Gen.Fn.alloc_layout E M ⟨total, eal⟩ t.st) fun s' p =>
          bind (liftS (Gen.Fn.dealloc E M p ⟨total, eal⟩)
            { t with st := s', wr := t.wr ++ (List.range e).map (fun i => (p + i * esz, g i)), calls := t.calls ++ List.range (e + 1) })
            fun t' _ => (t', .ok (.error (g e))) := by
  unfold Gen.Fn.t_alloc_slice_try_fill_with
  cases h : arrayLayout esz eal len with
  | none => rfl
  | some total =>
    simp only [bind_liftS]
    congr 1
    funext s' p
    rw [try_fill_loop_err E M esz eal isOk len g e _ p p len 0 _ (by omega) (by omega) (fun j _ hj => hok j hj) herr]
    simp [bind_liftS]

/-- `alloc_slice_try_fill_iter(iter)` is `alloc_slice_try_fill_with(iter.len(), |_| iter.next().expect(..))` -/
theorem gen_alloc_slice_try_fill_iter (E M esz eal : Nat) (isOk : Val → Bool) (items : List Val) (claimed : Nat) (t : TS) :
    Gen.Fn.t_alloc_slice_try_fill_iter E M esz eal isOk items claimed t =
      Gen.Fn.t_alloc_slice_try_fill_with E M esz eal isOk claimed (iterClo items) t := by
  unfold Gen.Fn.t_alloc_slice_try_fill_iter
  simp only [bind_ok_id]
  rfl

/-- non-vacuity: a failed allocation leaves both logs untouched (`afterAlloc` on a failure) -/
example (t : TS) (s' : St) (k : St → Nat → TS × Outcome Nat) :
    (afterAlloc t (s', (Outcome.err : Outcome Nat)) k).1.wr = t.wr ∧ (afterAlloc t (s', (Outcome.err : Outcome Nat)) k).1.calls = t.calls :=
  ⟨rfl, rfl⟩

#print axioms gen_alloc_slice_fill_with
#print axioms gen_try_alloc_slice_fill_with
#print axioms gen_alloc_slice_fill_with_panic
#print axioms gen_try_alloc_slice_fill_with_panic
#print axioms gen_alloc_slice_fill_copy
#print axioms gen_try_alloc_slice_fill_copy
#print axioms gen_alloc_with
#print axioms gen_try_alloc_with
#print axioms gen_alloc
#print axioms gen_try_alloc
#print axioms gen_alloc_slice_copy
#print axioms gen_try_alloc_slice_copy
#print axioms gen_alloc_str
#print axioms gen_alloc_try_with
#print axioms gen_alloc_slice_try_fill_with_ok
#print axioms gen_alloc_slice_try_fill_with_err
#print axioms gen_alloc_slice_try_fill_iter
#print axioms gen_try_alloc_try_with
#print axioms gen_alloc_slice_fill_clone
#print axioms gen_alloc_slice_fill_default
#print axioms gen_alloc_slice_fill_iter
#print axioms gen_try_alloc_slice_fill_iter
#print axioms gen_alloc_slice_fill_iter_exact
#print axioms fill_loop_iter_short
#print axioms gen_alloc_slice_clone
#print axioms gen_try_alloc_slice_clone
#print axioms gen_try_alloc_str

end Bump.RsT
