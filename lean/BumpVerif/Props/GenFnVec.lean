import BumpVerif.Gen.FnVec
import BumpVerif.Model.Vec
import BumpVerif.Props.GenFnRawVec
/-!
# `src/collections/vec.rs` as translated = the hand-written slot model (`Model/Vec.lean`)

Each theorem is a plain equality `RsM.toModel (Gen.Fn.vec_f … (v, w)) = V.f … v w` between the function body
regenerated from the source and the model function the C13/C15/C16/C18 theorems are about.  Hypotheses, where
present, are facts of every represented vector (`Proofs/VecRaw.lean: RepB`): `len ≤ cap()` and `cap < 2^64`.
-/
namespace Bump.V
open Bump Rs RsV RsM

theorem gen_vec_len (c : Cfg) (s : VW) : Gen.Fn.vec_len c s = .ok s.1.len := rfl

theorem gen_vec_capacity (c : Cfg) (s : VW) : Gen.Fn.vec_capacity c s = .ok (capOf c s.1) := by
  simp [Gen.Fn.vec_capacity, gen_rv_cap, Rs.bindP]

theorem gen_vec_is_empty (c : Cfg) (s : VW) : Gen.Fn.vec_is_empty c s = .ok (s.1.len == 0) := by
  simp [Gen.Fn.vec_is_empty, gen_vec_len, Rs.bindP]

theorem gen_vec_set_len (c : Cfg) (n : Nat) (s : VW) :
    Gen.Fn.vec_set_len c n s = (({ s.1 with len := n }, s.2), .ok ()) := by
  simp [Gen.Fn.vec_set_len, RsM.set_len, bindW]

/-- what `Vec::reserve*` leaves behind: the model's vector after the capacity step, or a panic -/
theorem gen_vec_reserve (c : Cfg) (n : Nat) (v : VS) (w : W) :
    Gen.Fn.vec_reserve c n (v, w) =
      match rawReserve c v v.len n with
      | some v' => ((v', w), .ok ())
      | none => ((v, w), .panic) := by
  simp only [Gen.Fn.vec_reserve, liftV, gen_rv_reserve]
  cases rawReserve c v v.len n <;> simp [bindW]

theorem gen_vec_reserve_exact (c : Cfg) (n : Nat) (v : VS) (w : W) :
    Gen.Fn.vec_reserve_exact c n (v, w) =
      match reserveGen c v v.len n true with
      | .ok v' => ((v', w), .ok ())
      | .error _ => ((v, w), .panic) := by
  simp only [Gen.Fn.vec_reserve_exact, liftV, gen_rv_reserve_exact, reserveResult]
  cases reserveGen c v v.len n true <;> simp [bindW]

theorem gen_vec_try_reserve (c : Cfg) (n : Nat) (v : VS) (w : W) :
    Gen.Fn.vec_try_reserve c n (v, w) =
      match reserveGen c v v.len n false with
      | .ok v' => ((v', w), .ok (.ok ()))
      | .error e => ((v, w), .ok (.error e)) := by
  simp only [Gen.Fn.vec_try_reserve, liftV, gen_rv_try_reserve, tryReserveResult]
  cases reserveGen c v v.len n false <;> simp [bindW]

theorem gen_vec_try_reserve_exact (c : Cfg) (n : Nat) (v : VS) (w : W) :
    Gen.Fn.vec_try_reserve_exact c n (v, w) =
      match reserveGen c v v.len n true with
      | .ok v' => ((v', w), .ok (.ok ()))
      | .error e => ((v, w), .ok (.error e)) := by
  simp only [Gen.Fn.vec_try_reserve_exact, liftV, gen_rv_try_reserve_exact, tryReserveResult]
  cases reserveGen c v v.len n true <;> simp [bindW]

/-! ## the element-moving methods -/

theorem need_len (c : Cfg) (v : VS) (n : Nat) (w : W) (what : String) : (v.need c n w what).1.len = v.len := rfl
theorem write_len (c : Cfg) (v : VS) (i : Nat) (e : Elem) (w : W) : (v.write c i e w).1.len = v.len := rfl
theorem copy_len (c : Cfg) (v : VS) (a b n : Nat) (w : W) : (v.copy c a b n w).1.len = v.len := by
  unfold VS.copy; split <;> rfl

theorem checkedAdd_some {a b n : Nat} (h : checkedAdd a b = some n) : a + b < USIZE := by
  unfold checkedAdd at h
  split at h
  · assumption
  · cases h

theorem reserveInternal_shape {c : Cfg} {v v' : VS} {used extra : Nat} {exact : Bool}
    (h : reserveInternal c v used extra exact = .ok v') : v'.len = v.len ∧ used + extra < USIZE := by
  unfold reserveInternal at h
  cases hx : (if exact then checkedAdd used extra else amortizedNewCap c v used extra) with
  | none => rw [hx] at h; cases h
  | some nc =>
    rw [hx] at h
    simp only at h
    have hs : used + extra < USIZE := by
      cases exact
      · simp only [Bool.false_eq_true, if_false] at hx
        unfold amortizedNewCap at hx
        cases hy : checkedAdd used extra with
        | none => rw [hy] at hx; cases hx
        | some q => exact checkedAdd_some hy
      · simp only [if_true] at hx
        exact checkedAdd_some hx
    refine ⟨?_, hs⟩
    cases hm : checkedMul c.esz nc with
    | none => rw [hm] at h; cases h
    | some bytes =>
      rw [hm] at h
      simp only at h
      split at h
      · cases h
      · injection h with h; rw [← h]

/-- a successful `reserve(len, n)`, `n ≥ 1`, of a full vector means `len + n` is representable (stated for a generic
`n`: with the literal `1` the kernel would try to evaluate `1 ≤ wsub …`) -/
theorem rawReserve_full_lt_n {c : Cfg} {v v1 : VS} {n : Nat} (hn : 1 ≤ n) (hfull : v.len = capOf c v) (hc : capOf c v < USIZE)
    (h : rawReserve c v v.len n = some v1) : v.len + n < USIZE ∧ v1.len = v.len := by
  unfold rawReserve reserveGen at h
  have hw : ¬ wsub (capOf c v) v.len ≥ n := by
    rw [wsub_of_le (by omega) hc]; omega
  simp only [hw, if_false] at h
  cases hr : reserveInternal c v v.len n false with
  | error e => rw [hr] at h; cases h
  | ok v' =>
    rw [hr] at h
    obtain ⟨h1, h2⟩ := reserveInternal_shape hr
    injection h with h
    subst h; exact ⟨h2, h1⟩

theorem rawReserve_full_lt {c : Cfg} {v v1 : VS} (hfull : v.len = capOf c v) (hc : capOf c v < USIZE)
    (h : rawReserve c v v.len 1 = some v1) : v.len + 1 < USIZE ∧ v1.len = v.len :=
  rawReserve_full_lt_n (Nat.le_refl 1) hfull hc h

theorem gen_vec_push_k (c : Cfg) (e : Elem) (a r : Nat) (v : VS) (w : W) (h : v.len + 1 < USIZE) :
    toModel (Gen.Fn.vec_push.k_1 c e a r (v, w)) =
      ({ (v.write c v.len e w).1 with len := (v.write c v.len e w).1.len + 1 }, (v.write c v.len e w).2, some ()) := by
  simp only [Gen.Fn.vec_push.k_1, RsM.write, bindW, write_len, h, if_true, RsM.set_len, toModel]

/-! The model functions are taken apart by `unfold` + `rw` only: `simp` does not terminate on a `match` whose arm
binds a pair with `let (a, b) := …` (seen with `V.push`), so the case lemmas below avoid it. -/

theorem push_full_none {c : Cfg} {v : VS} {e : Elem} {w : W} (hfull : v.len = capOf c v) (hr : rawReserve c v v.len 1 = none) :
    V.push c v e w = (v, (dropElem c w e).1, none) := by
  unfold V.push; rw [if_pos hfull, hr]
theorem push_full_some {c : Cfg} {v v1 : VS} {e : Elem} {w : W} (hfull : v.len = capOf c v) (hr : rawReserve c v v.len 1 = some v1) :
    V.push c v e w = ({ (v1.write c v1.len e w).1 with len := (v1.write c v1.len e w).1.len + 1 }, (v1.write c v1.len e w).2, some ()) := by
  unfold V.push; rw [if_pos hfull, hr]
theorem push_not_full {c : Cfg} {v : VS} {e : Elem} {w : W} (hfull : ¬ v.len = capOf c v) :
    V.push c v e w = ({ (v.write c v.len e w).1 with len := (v.write c v.len e w).1.len + 1 }, (v.write c v.len e w).2, some ()) := by
  unfold V.push; rw [if_neg hfull]

/-- `Vec::push` as translated is the model's `push` -/
theorem gen_vec_push (c : Cfg) (v : VS) (e : Elem) (w : W) (hl : v.len ≤ capOf c v) (hc : v.cap < USIZE) :
    toModel (Gen.Fn.vec_push c e (v, w)) = V.push c v e w := by
  have hcap := capOf_lt c v hc
  simp only [Gen.Fn.vec_push, gen_rv_cap, pureW, bindW]
  by_cases hfull : v.len = capOf c v
  · have hb : (v.len == capOf c v) = true := by simpa using hfull
    rw [if_pos hb, gen_vec_reserve]
    cases hr : rawReserve c v v.len 1 with
    | none => rw [push_full_none hfull hr]; rfl
    | some v1 =>
      obtain ⟨hlt, hlen⟩ := rawReserve_full_lt hfull hcap hr
      rw [push_full_some hfull hr]
      simp only [bindU]
      rw [gen_vec_push_k c e _ _ v1 w (by omega)]
  · have hne : (v.len == capOf c v) = false := by simpa using hfull
    rw [push_not_full hfull, hne]
    simp only [Bool.false_eq_true, if_false]
    rw [gen_vec_push_k c e _ _ v w (by omega)]

/-! ### pop -/

/-- `pop` returns an `Option<T>` of its own: `Some(None)` of the translation is the model's `none` -/
def popView : VW × Outcome (Option Elem) → VS × W × Option Elem
  | (s, .ok x) => (s.1, s.2, x)
  | (s, .bad why) => (s.1, s.2.flag why, none)
  | (s, _) => (s.1, s.2.flag "pop cannot panic", none)

theorem pop_empty {v : VS} {w : W} (h : v.len = 0) : V.pop v w = (v, w, none) := by
  unfold V.pop; exact if_pos h
theorem pop_some {v : VS} {w : W} {e : Elem} (h : ¬ v.len = 0) (hr : ({ v with len := v.len - 1 } : VS).read (v.len - 1) = some e) :
    V.pop v w = ({ v with len := v.len - 1 }, w.moved e, some e) := by
  unfold V.pop; show (if v.len = 0 then _ else _) = _
  rw [if_neg h]; show (match ({ v with len := v.len - 1 } : VS).read (v.len - 1) with | some e => _ | none => _) = _
  rw [hr]
theorem pop_none {v : VS} {w : W} (h : ¬ v.len = 0) (hr : ({ v with len := v.len - 1 } : VS).read (v.len - 1) = none) :
    V.pop v w = ({ v with len := v.len - 1 }, w.flag "pop: read of an uninitialised slot", none) := by
  unfold V.pop; show (if v.len = 0 then _ else _) = _
  rw [if_neg h]; show (match ({ v with len := v.len - 1 } : VS).read (v.len - 1) with | some e => _ | none => _) = _
  rw [hr]

/-- `Vec::pop` as translated is the model's `pop` -/
theorem gen_vec_pop (c : Cfg) (v : VS) (w : W) : popView (Gen.Fn.vec_pop c (v, w)) = V.pop v w := by
  simp only [Gen.Fn.vec_pop]
  by_cases h0 : v.len = 0
  · have hb : (v.len == 0) = true := by simpa using h0
    rw [if_pos hb, pop_empty h0]; rfl
  · have hb : (v.len == 0) = false := by simpa using h0
    have h1 : 1 ≤ v.len := by omega
    rw [hb]
    simp only [Bool.false_eq_true, if_false, h1, if_true, RsM.set_len, bindW, pureW, gen_vec_len, RsM.read]
    cases hr : ({ v with len := v.len - 1 } : VS).read (v.len - 1) with
    | none => rw [pop_none h0 hr]; rfl
    | some e => rw [pop_some h0 hr]; rfl

/-! ### insert -/

theorem insert_oob {c : Cfg} {v : VS} {i : Nat} {e : Elem} {w : W} (h : i > v.len) :
    V.insert c v i e w = (v, (dropElem c w e).1, none) := by
  unfold V.insert; exact if_pos h
theorem insert_full_none {c : Cfg} {v : VS} {i : Nat} {e : Elem} {w : W} (h : ¬ i > v.len) (hfull : v.len = capOf c v)
    (hr : rawReserve c v v.len 1 = none) :
    V.insert c v i e w = (v, (dropElem c w e).1, none) := by
  unfold V.insert; show (if i > v.len then _ else _) = _
  rw [if_neg h, if_pos hfull, hr]
theorem insert_go {c : Cfg} {v v1 : VS} {i : Nat} {e : Elem} {w : W} (h : ¬ i > v.len)
    (hr : (if v.len = capOf c v then rawReserve c v v.len 1 else some v) = some v1) :
    V.insert c v i e w =
      ({ ((v1.copy c i (i + 1) (v.len - i) w).1.write c i e (v1.copy c i (i + 1) (v.len - i) w).2).1 with len := v.len + 1 },
        ((v1.copy c i (i + 1) (v.len - i) w).1.write c i e (v1.copy c i (i + 1) (v.len - i) w).2).2, some ()) := by
  unfold V.insert; show (if i > v.len then _ else _) = _
  rw [if_neg h, hr]

theorem gen_vec_insert_k (c : Cfg) (i : Nat) (e : Elem) (r len r1 : Nat) (v1 : VS) (w : W) (hi : i ≤ len) (hl : len + 1 < USIZE) :
    toModel (Gen.Fn.vec_insert.k_1 c i e r len r1 (v1, w)) =
      ({ ((v1.copy c i (i + 1) (len - i) w).1.write c i e (v1.copy c i (i + 1) (len - i) w).2).1 with len := len + 1 },
        ((v1.copy c i (i + 1) (len - i) w).1.write c i e (v1.copy c i (i + 1) (len - i) w).2).2, some ()) := by
  simp only [Gen.Fn.vec_insert.k_1, hi, hl, if_true, RsM.copy, RsM.write, bindW, gen_vec_set_len, toModel]

/-- `Vec::insert` as translated is the model's `insert` -/
theorem gen_vec_insert (c : Cfg) (v : VS) (i : Nat) (e : Elem) (w : W) (hl : v.len ≤ capOf c v) (hc : v.cap < USIZE) :
    toModel (Gen.Fn.vec_insert c i e (v, w)) = V.insert c v i e w := by
  have hcap := capOf_lt c v hc
  simp only [Gen.Fn.vec_insert, gen_vec_len, gen_rv_cap, pureW, bindW]
  by_cases hi : i ≤ v.len
  · have hd : decide (i ≤ v.len) = true := by simpa using hi
    have hgt : ¬ i > v.len := by omega
    rw [if_pos hd]
    by_cases hfull : v.len = capOf c v
    · have hb : (v.len == capOf c v) = true := by simpa using hfull
      rw [if_pos hb, gen_vec_reserve]
      cases hr : rawReserve c v v.len 1 with
      | none => rw [insert_full_none hgt hfull hr]; rfl
      | some v1 =>
        obtain ⟨hlt, _⟩ := rawReserve_full_lt hfull hcap hr
        rw [insert_go (v1 := v1) hgt (by rw [if_pos hfull, hr])]
        simp only [bindU]
        rw [gen_vec_insert_k c i e _ _ _ v1 w hi hlt]
    · have hne : (v.len == capOf c v) = false := by simpa using hfull
      rw [insert_go (v1 := v) hgt (by rw [if_neg hfull]), hne]
      simp only [Bool.false_eq_true, if_false]
      rw [gen_vec_insert_k c i e _ _ _ v w hi (by omega)]
  · have hd : decide (i ≤ v.len) = false := by simpa using hi
    rw [hd, insert_oob (by omega)]; rfl

/-! ### remove -/

theorem remove_oob {c : Cfg} {v : VS} {i : Nat} {w : W} (h : ¬ i < v.len) : V.remove c v i w = (v, w, none) := by
  unfold V.remove; exact if_pos h
theorem remove_none {c : Cfg} {v : VS} {i : Nat} {w : W} (h : i < v.len) (hr : v.read i = none) :
    V.remove c v i w = (v, w.flag "remove: read of an uninitialised slot", none) := by
  unfold V.remove; show (if ¬ i < v.len then _ else _) = _
  rw [if_neg (by simpa using h), hr]
theorem remove_some {c : Cfg} {v : VS} {i : Nat} {w : W} {x : Elem} (h : i < v.len) (hr : v.read i = some x) :
    V.remove c v i w = ({ (v.copy c (i + 1) i (v.len - i - 1) w).1 with len := v.len - 1 }, (v.copy c (i + 1) i (v.len - i - 1) w).2.moved x, some x) := by
  unfold V.remove; show (if ¬ i < v.len then _ else _) = _
  rw [if_neg (by simpa using h), hr]

/-- `Vec::remove` as translated is the model's `remove` -/
theorem gen_vec_remove (c : Cfg) (v : VS) (i : Nat) (w : W) :
    toModel (Gen.Fn.vec_remove c i (v, w)) = V.remove c v i w := by
  simp only [Gen.Fn.vec_remove, gen_vec_len, pureW, bindW, RsM.read]
  by_cases hi : i < v.len
  · have hd : decide (i < v.len) = true := by simpa using hi
    rw [if_pos hd]
    cases hr : v.read i with
    | none => rw [remove_none hi hr]; rfl
    | some x =>
      rw [remove_some hi hr]
      have h1 : i ≤ v.len := by omega
      have h2 : 1 ≤ v.len - i := by omega
      have h3 : 1 ≤ v.len := by omega
      simp only [h1, h2, h3, if_true, RsM.copy, bindW, bindU, gen_vec_set_len, RsM.moved, toModel]
  · have hd : decide (i < v.len) = false := by simpa using hi
    rw [hd, remove_oob hi]; rfl

/-! ### swap_remove -/

theorem swapRemove_oob {c : Cfg} {v : VS} {i : Nat} {w : W} (h : ¬ i < v.len) : V.swapRemove c v i w = (v, w, none) := by
  unfold V.swapRemove; exact if_pos h
theorem swapRemove_none1 {c : Cfg} {v : VS} {i : Nat} {w : W} (h : i < v.len) (hr : v.read (v.len - 1) = none) :
    V.swapRemove c v i w = (v, w.flag "swap_remove: read of an uninitialised slot", none) := by
  unfold V.swapRemove; rw [if_neg (by simpa using h), hr]
theorem swapRemove_none2 {c : Cfg} {v : VS} {i : Nat} {w : W} {last : Elem} (h : i < v.len) (hr : v.read (v.len - 1) = some last)
    (hr2 : ({ v with len := v.len - 1 } : VS).read i = none) :
    V.swapRemove c v i w = ({ v with len := v.len - 1 }, w.flag "swap_remove: read of an uninitialised slot", none) := by
  unfold V.swapRemove; rw [if_neg (by simpa using h), hr]
  show (match ({ v with len := v.len - 1 } : VS).read i with | none => _ | some old => _) = _
  rw [hr2]
theorem swapRemove_some {c : Cfg} {v : VS} {i : Nat} {w : W} {last old : Elem} (h : i < v.len) (hr : v.read (v.len - 1) = some last)
    (hr2 : ({ v with len := v.len - 1 } : VS).read i = some old) :
    V.swapRemove c v i w =
      ((({ v with len := v.len - 1 } : VS).write c i last w).1, (({ v with len := v.len - 1 } : VS).write c i last w).2.moved old, some old) := by
  unfold V.swapRemove; rw [if_neg (by simpa using h), hr]
  show (match ({ v with len := v.len - 1 } : VS).read i with | none => _ | some old => _) = _
  rw [hr2]

/-- `Vec::swap_remove` as translated is the model's `swapRemove` -/
theorem gen_vec_swap_remove (c : Cfg) (v : VS) (i : Nat) (w : W) :
    toModel (Gen.Fn.vec_swap_remove c i (v, w)) = V.swapRemove c v i w := by
  simp only [Gen.Fn.vec_swap_remove, RsM.read]
  by_cases hi : i < v.len
  · have hd : decide (i < v.len) = true := by simpa using hi
    have h1 : 1 ≤ v.len := by omega
    rw [if_pos hd]
    simp only [h1, if_true]
    cases hr : v.read (v.len - 1) with
    | none => rw [swapRemove_none1 hi hr]; rfl
    | some last =>
      simp only [RsM.set_len, bindW]
      cases hr2 : ({ v with len := v.len - 1 } : VS).read i with
      | none => rw [swapRemove_none2 hi hr hr2]; rfl
      | some old => rw [swapRemove_some hi hr hr2]; rfl
  · have hd : decide (i < v.len) = false := by simpa using hi
    rw [hd, swapRemove_oob hi]; rfl

#print axioms gen_vec_len
#print axioms gen_vec_capacity
#print axioms gen_vec_is_empty
#print axioms gen_vec_set_len
#print axioms gen_vec_reserve
#print axioms gen_vec_reserve_exact
#print axioms gen_vec_try_reserve
#print axioms gen_vec_try_reserve_exact
#print axioms gen_vec_push
#print axioms gen_vec_pop
#print axioms gen_vec_insert
#print axioms gen_vec_remove
#print axioms gen_vec_swap_remove

end Bump.V
