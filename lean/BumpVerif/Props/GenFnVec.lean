import BumpVerif.Gen.FnVec
import BumpVerif.Model.Vec
import BumpVerif.Props.GenFnRawVec
/-!
# `src/collections/vec.rs` as translated = the hand-written slot model (`Model/Vec.lean`)

Each theorem is a plain equality `RsM.toModel (Gen.Fn.vec_f … (v, w)) = V.f … v w` between the function body
regenerated from the source and the model function the C13/C15/C16/C18 theorems are about.  Hypotheses, where
present, are facts of every represented vector (`Proofs/VecRaw.lean: RepB`): `len ≤ cap()` and `cap < 2^64`.
-/
namespace Bump.V
open Bump Rs RsV RsM

theorem gen_vec_len (c : Cfg) (s : VW) : Gen.Fn.vec_len c s = .ok s.1.len := rfl

theorem gen_vec_capacity (c : Cfg) (s : VW) : Gen.Fn.vec_capacity c s = .ok (capOf c s.1) := by
  simp [Gen.Fn.vec_capacity, gen_rv_cap, Rs.bindP]

theorem gen_vec_is_empty (c : Cfg) (s : VW) : Gen.Fn.vec_is_empty c s = .ok (s.1.len == 0) := by
  simp [Gen.Fn.vec_is_empty, gen_vec_len, Rs.bindP]

theorem gen_vec_set_len (c : Cfg) (n : Nat) (s : VW) :
    Gen.Fn.vec_set_len c n s = (({ s.1 with len := n }, s.2), .ok ()) := by
  simp [Gen.Fn.vec_set_len, RsM.set_len, bindW]

/-- what `Vec::reserve*` leaves behind: the model's vector after the capacity step, or a panic -/
theorem gen_vec_reserve (c : Cfg) (n : Nat) (v : VS) (w : W) :
    Gen.Fn.vec_reserve c n (v, w) =
      match rawReserve c v v.len n with
      | some v' => ((v', w), .ok ())
      | none => ((v, w), .panic) := by
  simp only [Gen.Fn.vec_reserve, liftV, gen_rv_reserve]
  cases rawReserve c v v.len n <;> simp [bindW]

theorem gen_vec_reserve_exact (c : Cfg) (n : Nat) (v : VS) (w : W) :
    Gen.Fn.vec_reserve_exact c n (v, w) =
      match reserveGen c v v.len n true with
      | .ok v' => ((v', w), .ok ())
      | .error _ => ((v, w), .panic) := by
  simp only [Gen.Fn.vec_reserve_exact, liftV, gen_rv_reserve_exact, reserveResult]
  cases reserveGen c v v.len n true <;> simp [bindW]

theorem gen_vec_try_reserve (c : Cfg) (n : Nat) (v : VS) (w : W) :
    Gen.Fn.vec_try_reserve c n (v, w) =
      match reserveGen c v v.len n false with
      | .ok v' => ((v', w), .ok (.ok ()))
      | .error e => ((v, w), .ok (.error e)) := by
  simp only [Gen.Fn.vec_try_reserve, liftV, gen_rv_try_reserve, tryReserveResult]
  cases reserveGen c v v.len n false <;> simp [bindW]

theorem gen_vec_try_reserve_exact (c : Cfg) (n : Nat) (v : VS) (w : W) :
    Gen.Fn.vec_try_reserve_exact c n (v, w) =
      match reserveGen c v v.len n true with
      | .ok v' => ((v', w), .ok (.ok ()))
      | .error e => ((v, w), .ok (.error e)) := by
  simp only [Gen.Fn.vec_try_reserve_exact, liftV, gen_rv_try_reserve_exact, tryReserveResult]
  cases reserveGen c v v.len n true <;> simp [bindW]

/-! ## the element-moving methods -/

theorem need_len (c : Cfg) (v : VS) (n : Nat) (w : W) (what : String) : (v.need c n w what).1.len = v.len := rfl
theorem write_len (c : Cfg) (v : VS) (i : Nat) (e : Elem) (w : W) : (v.write c i e w).1.len = v.len := rfl
theorem copy_len (c : Cfg) (v : VS) (a b n : Nat) (w : W) : (v.copy c a b n w).1.len = v.len := by
  unfold VS.copy; split <;> rfl

theorem checkedAdd_some {a b n : Nat} (h : checkedAdd a b = some n) : a + b < USIZE := by
  unfold checkedAdd at h
  split at h
  · assumption
  · cases h

theorem reserveInternal_shape {c : Cfg} {v v' : VS} {used extra : Nat} {exact : Bool}
    (h : reserveInternal c v used extra exact = .ok v') : v'.len = v.len ∧ used + extra < USIZE := by
  unfold reserveInternal at h
  cases hx : (if exact then checkedAdd used extra else amortizedNewCap c v used extra) with
  | none => rw [hx] at h; cases h
  | some nc =>
    rw [hx] at h
    simp only at h
    have hs : used + extra < USIZE := by
      cases exact
      · simp only [Bool.false_eq_true, if_false] at hx
        unfold amortizedNewCap at hx
        cases hy : checkedAdd used extra with
        | none => rw [hy] at hx; cases hx
        | some q => exact checkedAdd_some hy
      · simp only [if_true] at hx
        exact checkedAdd_some hx
    refine ⟨?_, hs⟩
    cases hm : arrayLayout c.esz c.eal nc with
    | none => rw [hm] at h; cases h
    | some bytes =>
      rw [hm] at h
      simp only at h
      split at h
      · cases h
      · injection h with h; rw [← h]

/-- a successful `reserve(len, n)`, `n ≥ 1`, of a full vector means `len + n` is representable (stated for a generic
`n`: with the literal `1` the kernel would try to evaluate `1 ≤ wsub …`) -/
theorem rawReserve_full_lt_n {c : Cfg} {v v1 : VS} {n : Nat} (hn : 1 ≤ n) (hfull : v.len = capOf c v) (hc : capOf c v < USIZE)
    (h : rawReserve c v v.len n = some v1) : v.len + n < USIZE ∧ v1.len = v.len := by
  unfold rawReserve reserveGen at h
  have hw : ¬ wsub (capOf c v) v.len ≥ n := by
    rw [wsub_of_le (by omega) hc]; omega
  simp only [hw, if_false] at h
  cases hr : reserveInternal c v v.len n false with
  | error e => rw [hr] at h; cases h
  | ok v' =>
    rw [hr] at h
    obtain ⟨h1, h2⟩ := reserveInternal_shape hr
    injection h with h
    subst h; exact ⟨h2, h1⟩

theorem rawReserve_full_lt {c : Cfg} {v v1 : VS} (hfull : v.len = capOf c v) (hc : capOf c v < USIZE)
    (h : rawReserve c v v.len 1 = some v1) : v.len + 1 < USIZE ∧ v1.len = v.len :=
  rawReserve_full_lt_n (Nat.le_refl 1) hfull hc h

theorem gen_vec_push_k (c : Cfg) (e : Elem) (a r : Nat) (v : VS) (w : W) (h : v.len + 1 < USIZE) :
    toModel (Gen.Fn.vec_push.k_1 c e a r (v, w)) =
      ({ (v.write c v.len e w).1 with len := (v.write c v.len e w).1.len + 1 }, (v.write c v.len e w).2, some ()) := by
  simp only [Gen.Fn.vec_push.k_1, RsM.write, bindW, write_len, h, if_true, RsM.set_len, toModel]

/-! The model functions are taken apart by `unfold` + `rw` only: `simp` does not terminate on a `match` whose arm
binds a pair with `let (a, b) := …` (seen with `V.push`), so the case lemmas below avoid it. -/

theorem push_full_none {c : Cfg} {v : VS} {e : Elem} {w : W} (hfull : v.len = capOf c v) (hr : rawReserve c v v.len 1 = none) :
    V.push c v e w = (v, (dropElem c w e).1, none) := by
  unfold V.push; rw [if_pos hfull, hr]
theorem push_full_some {c : Cfg} {v v1 : VS} {e : Elem} {w : W} (hfull : v.len = capOf c v) (hr : rawReserve c v v.len 1 = some v1) :
    V.push c v e w = ({ (v1.write c v1.len e w).1 with len := (v1.write c v1.len e w).1.len + 1 }, (v1.write c v1.len e w).2, some ()) := by
  unfold V.push; rw [if_pos hfull, hr]
theorem push_not_full {c : Cfg} {v : VS} {e : Elem} {w : W} (hfull : ¬ v.len = capOf c v) :
    V.push c v e w = ({ (v.write c v.len e w).1 with len := (v.write c v.len e w).1.len + 1 }, (v.write c v.len e w).2, some ()) := by
  unfold V.push; rw [if_neg hfull]

/-- regroup `(vector, effects, outcome)` as the translator's `(state, outcome)` -/
def _root_.Prod.toVW {α : Type} (x : VS × W × Outcome α) : VW × Outcome α := ((x.1, x.2.1), x.2.2)

/-- `Vec::push` as translated is the model's `push` -/
theorem gen_vec_push (c : Cfg) (v : VS) (e : Elem) (w : W) (hl : v.len ≤ capOf c v) (hc : v.cap < USIZE) :
    toModel (Gen.Fn.vec_push c e (v, w)) = V.push c v e w := by
  have hcap := capOf_lt c v hc
  simp only [Gen.Fn.vec_push, gen_rv_cap, pureW, bindW]
  by_cases hfull : v.len = capOf c v
  · have hb : (v.len == capOf c v) = true := by simpa using hfull
    rw [if_pos hb, gen_vec_reserve]
    cases hr : rawReserve c v v.len 1 with
    | none => rw [push_full_none hfull hr]; rfl
    | some v1 =>
      obtain ⟨hlt, hlen⟩ := rawReserve_full_lt hfull hcap hr
      rw [push_full_some hfull hr]
      simp only [bindU]
      rw [gen_vec_push_k c e _ _ v1 w (by omega)]
  · have hne : (v.len == capOf c v) = false := by simpa using hfull
    rw [push_not_full hfull, hne]
    simp only [Bool.false_eq_true, if_false]
    rw [gen_vec_push_k c e _ _ v w (by omega)]

/-- the same without the `toModel` view: the translated `push` ends `ok` exactly when the model's does, and *panics* (no `bad`
step, no error value) when the model's is refused -/
theorem gen_vec_push_k_raw (c : Cfg) (e : Elem) (a r : Nat) (v : VS) (w : W) (h : v.len + 1 < USIZE) :
    Gen.Fn.vec_push.k_1 c e a r (v, w) =
      (({ (v.write c v.len e w).1 with len := (v.write c v.len e w).1.len + 1 }, (v.write c v.len e w).2), .ok ()) := by
  simp only [Gen.Fn.vec_push.k_1, RsM.write, bindW, write_len, h, if_true, RsM.set_len]

theorem gen_vec_push_raw (c : Cfg) (v : VS) (e : Elem) (w : W) (hl : v.len ≤ capOf c v) (hc : v.cap < USIZE) :
    Gen.Fn.vec_push c e (v, w) =
      ((V.push c v e w).1, (V.push c v e w).2.1, if (V.push c v e w).2.2.isSome then Outcome.ok () else Outcome.panic).toVW := by
  have hcap := capOf_lt c v hc
  simp only [Gen.Fn.vec_push, gen_rv_cap, pureW, bindW]
  by_cases hfull : v.len = capOf c v
  · have hb : (v.len == capOf c v) = true := by simpa using hfull
    rw [if_pos hb, gen_vec_reserve]
    cases hr : rawReserve c v v.len 1 with
    | none => rw [push_full_none hfull hr]; rfl
    | some v1 =>
      obtain ⟨hlt, hlen⟩ := rawReserve_full_lt hfull hcap hr
      rw [push_full_some hfull hr]
      simp only [bindU]
      rw [gen_vec_push_k_raw c e _ _ v1 w (by omega)]
      rfl
  · have hne : (v.len == capOf c v) = false := by simpa using hfull
    rw [push_not_full hfull, hne]
    simp only [Bool.false_eq_true, if_false]
    rw [gen_vec_push_k_raw c e _ _ v w (by omega)]
    rfl

/-! ### pop -/

/-- `pop` returns an `Option<T>` of its own: `Some(None)` of the translation is the model's `none` -/
def popView : VW × Outcome (Option Elem) → VS × W × Option Elem
  | (s, .ok x) => (s.1, s.2, x)
  | (s, .bad why) => (s.1, s.2.flag why, none)
  | (s, _) => (s.1, s.2.flag "pop cannot panic", none)

theorem pop_empty {v : VS} {w : W} (h : v.len = 0) : V.pop v w = (v, w, none) := by
  unfold V.pop; exact if_pos h
theorem pop_some {v : VS} {w : W} {e : Elem} (h : ¬ v.len = 0) (hr : ({ v with len := v.len - 1 } : VS).read (v.len - 1) = some e) :
    V.pop v w = ({ v with len := v.len - 1 }, w.moved e, some e) := by
  unfold V.pop; show (if v.len = 0 then _ else _) = _
  rw [if_neg h]; show (match ({ v with len := v.len - 1 } : VS).read (v.len - 1) with | some e => _ | none => _) = _
  rw [hr]
theorem pop_none {v : VS} {w : W} (h : ¬ v.len = 0) (hr : ({ v with len := v.len - 1 } : VS).read (v.len - 1) = none) :
    V.pop v w = ({ v with len := v.len - 1 }, w.flag "pop: read of an uninitialised slot", none) := by
  unfold V.pop; show (if v.len = 0 then _ else _) = _
  rw [if_neg h]; show (match ({ v with len := v.len - 1 } : VS).read (v.len - 1) with | some e => _ | none => _) = _
  rw [hr]

/-- `Vec::pop` as translated is the model's `pop` -/
theorem gen_vec_pop (c : Cfg) (v : VS) (w : W) : popView (Gen.Fn.vec_pop c (v, w)) = V.pop v w := by
  simp only [Gen.Fn.vec_pop]
  by_cases h0 : v.len = 0
  · have hb : (v.len == 0) = true := by simpa using h0
    rw [if_pos hb, pop_empty h0]; rfl
  · have hb : (v.len == 0) = false := by simpa using h0
    have h1 : 1 ≤ v.len := by omega
    rw [hb]
    simp only [Bool.false_eq_true, if_false, h1, if_true, RsM.set_len, bindW, pureW, gen_vec_len, RsM.read]
    cases hr : ({ v with len := v.len - 1 } : VS).read (v.len - 1) with
    | none => rw [pop_none h0 hr]; rfl
    | some e => rw [pop_some h0 hr]; rfl

/-! ### insert -/

theorem insert_oob {c : Cfg} {v : VS} {i : Nat} {e : Elem} {w : W} (h : i > v.len) :
    V.insert c v i e w = (v, (dropElem c w e).1, none) := by
  unfold V.insert; exact if_pos h
theorem insert_full_none {c : Cfg} {v : VS} {i : Nat} {e : Elem} {w : W} (h : ¬ i > v.len) (hfull : v.len = capOf c v)
    (hr : rawReserve c v v.len 1 = none) :
    V.insert c v i e w = (v, (dropElem c w e).1, none) := by
  unfold V.insert; show (if i > v.len then _ else _) = _
  rw [if_neg h, if_pos hfull, hr]
theorem insert_go {c : Cfg} {v v1 : VS} {i : Nat} {e : Elem} {w : W} (h : ¬ i > v.len)
    (hr : (if v.len = capOf c v then rawReserve c v v.len 1 else some v) = some v1) :
    V.insert c v i e w =
      ({ ((v1.copy c i (i + 1) (v.len - i) w).1.write c i e (v1.copy c i (i + 1) (v.len - i) w).2).1 with len := v.len + 1 },
        ((v1.copy c i (i + 1) (v.len - i) w).1.write c i e (v1.copy c i (i + 1) (v.len - i) w).2).2, some ()) := by
  unfold V.insert; show (if i > v.len then _ else _) = _
  rw [if_neg h, hr]

theorem gen_vec_insert_k (c : Cfg) (i : Nat) (e : Elem) (r len r1 : Nat) (v1 : VS) (w : W) (hi : i ≤ len) (hl : len + 1 < USIZE) :
    toModel (Gen.Fn.vec_insert.k_1 c i e r len r1 (v1, w)) =
      ({ ((v1.copy c i (i + 1) (len - i) w).1.write c i e (v1.copy c i (i + 1) (len - i) w).2).1 with len := len + 1 },
        ((v1.copy c i (i + 1) (len - i) w).1.write c i e (v1.copy c i (i + 1) (len - i) w).2).2, some ()) := by
  simp only [Gen.Fn.vec_insert.k_1, hi, hl, if_true, RsM.copy, RsM.write, bindW, gen_vec_set_len, toModel]

/-- `Vec::insert` as translated is the model's `insert` -/
theorem gen_vec_insert (c : Cfg) (v : VS) (i : Nat) (e : Elem) (w : W) (hl : v.len ≤ capOf c v) (hc : v.cap < USIZE) :
    toModel (Gen.Fn.vec_insert c i e (v, w)) = V.insert c v i e w := by
  have hcap := capOf_lt c v hc
  simp only [Gen.Fn.vec_insert, gen_vec_len, gen_rv_cap, pureW, bindW]
  by_cases hi : i ≤ v.len
  · have hd : decide (i ≤ v.len) = true := by simpa using hi
    have hgt : ¬ i > v.len := by omega
    rw [if_pos hd]
    by_cases hfull : v.len = capOf c v
    · have hb : (v.len == capOf c v) = true := by simpa using hfull
      rw [if_pos hb, gen_vec_reserve]
      cases hr : rawReserve c v v.len 1 with
      | none => rw [insert_full_none hgt hfull hr]; rfl
      | some v1 =>
        obtain ⟨hlt, _⟩ := rawReserve_full_lt hfull hcap hr
        rw [insert_go (v1 := v1) hgt (by rw [if_pos hfull, hr])]
        simp only [bindU]
        rw [gen_vec_insert_k c i e _ _ _ v1 w hi hlt]
    · have hne : (v.len == capOf c v) = false := by simpa using hfull
      rw [insert_go (v1 := v) hgt (by rw [if_neg hfull]), hne]
      simp only [Bool.false_eq_true, if_false]
      rw [gen_vec_insert_k c i e _ _ _ v w hi (by omega)]
  · have hd : decide (i ≤ v.len) = false := by simpa using hi
    rw [hd, insert_oob (by omega)]; rfl

/-! ### remove -/

theorem remove_oob {c : Cfg} {v : VS} {i : Nat} {w : W} (h : ¬ i < v.len) : V.remove c v i w = (v, w, none) := by
  unfold V.remove; exact if_pos h
theorem remove_none {c : Cfg} {v : VS} {i : Nat} {w : W} (h : i < v.len) (hr : v.read i = none) :
    V.remove c v i w = (v, w.flag "remove: read of an uninitialised slot", none) := by
  unfold V.remove; show (if ¬ i < v.len then _ else _) = _
  rw [if_neg (by simpa using h), hr]
theorem remove_some {c : Cfg} {v : VS} {i : Nat} {w : W} {x : Elem} (h : i < v.len) (hr : v.read i = some x) :
    V.remove c v i w = ({ (v.copy c (i + 1) i (v.len - i - 1) w).1 with len := v.len - 1 }, (v.copy c (i + 1) i (v.len - i - 1) w).2.moved x, some x) := by
  unfold V.remove; show (if ¬ i < v.len then _ else _) = _
  rw [if_neg (by simpa using h), hr]

/-- `Vec::remove` as translated is the model's `remove` -/
theorem gen_vec_remove (c : Cfg) (v : VS) (i : Nat) (w : W) :
    toModel (Gen.Fn.vec_remove c i (v, w)) = V.remove c v i w := by
  simp only [Gen.Fn.vec_remove, gen_vec_len, pureW, bindW, RsM.read]
  by_cases hi : i < v.len
  · have hd : decide (i < v.len) = true := by simpa using hi
    rw [if_pos hd]
    cases hr : v.read i with
    | none => rw [remove_none hi hr]; rfl
    | some x =>
      rw [remove_some hi hr]
      have h1 : i ≤ v.len := by omega
      have h2 : 1 ≤ v.len - i := by omega
      have h3 : 1 ≤ v.len := by omega
      simp only [h1, h2, h3, if_true, RsM.copy, bindW, bindU, gen_vec_set_len, RsM.moved, toModel]
  · have hd : decide (i < v.len) = false := by simpa using hi
    rw [hd, remove_oob hi]; rfl

/-! ### swap_remove -/

theorem swapRemove_oob {c : Cfg} {v : VS} {i : Nat} {w : W} (h : ¬ i < v.len) : V.swapRemove c v i w = (v, w, none) := by
  unfold V.swapRemove; exact if_pos h
theorem swapRemove_none1 {c : Cfg} {v : VS} {i : Nat} {w : W} (h : i < v.len) (hr : v.read (v.len - 1) = none) :
    V.swapRemove c v i w = (v, w.flag "swap_remove: read of an uninitialised slot", none) := by
  unfold V.swapRemove; rw [if_neg (by simpa using h), hr]
theorem swapRemove_none2 {c : Cfg} {v : VS} {i : Nat} {w : W} {last : Elem} (h : i < v.len) (hr : v.read (v.len - 1) = some last)
    (hr2 : ({ v with len := v.len - 1 } : VS).read i = none) :
    V.swapRemove c v i w = ({ v with len := v.len - 1 }, w.flag "swap_remove: read of an uninitialised slot", none) := by
  unfold V.swapRemove; rw [if_neg (by simpa using h), hr]
  show (match ({ v with len := v.len - 1 } : VS).read i with | none => _ | some old => _) = _
  rw [hr2]
theorem swapRemove_some {c : Cfg} {v : VS} {i : Nat} {w : W} {last old : Elem} (h : i < v.len) (hr : v.read (v.len - 1) = some last)
    (hr2 : ({ v with len := v.len - 1 } : VS).read i = some old) :
    V.swapRemove c v i w =
      ((({ v with len := v.len - 1 } : VS).write c i last w).1, (({ v with len := v.len - 1 } : VS).write c i last w).2.moved old, some old) := by
  unfold V.swapRemove; rw [if_neg (by simpa using h), hr]
  show (match ({ v with len := v.len - 1 } : VS).read i with | none => _ | some old => _) = _
  rw [hr2]

/-- `Vec::swap_remove` as translated is the model's `swapRemove` -/
theorem gen_vec_swap_remove (c : Cfg) (v : VS) (i : Nat) (w : W) :
    toModel (Gen.Fn.vec_swap_remove c i (v, w)) = V.swapRemove c v i w := by
  simp only [Gen.Fn.vec_swap_remove, RsM.read]
  by_cases hi : i < v.len
  · have hd : decide (i < v.len) = true := by simpa using hi
    have h1 : 1 ≤ v.len := by omega
    rw [if_pos hd]
    simp only [h1, if_true]
    cases hr : v.read (v.len - 1) with
    | none => rw [swapRemove_none1 hi hr]; rfl
    | some last =>
      simp only [RsM.set_len, bindW]
      cases hr2 : ({ v with len := v.len - 1 } : VS).read i with
      | none => rw [swapRemove_none2 hi hr hr2]; rfl
      | some old => rw [swapRemove_some hi hr hr2]; rfl
  · have hd : decide (i < v.len) = false := by simpa using hi
    rw [hd, swapRemove_oob hi]; rfl

/-! ### truncate / clear

The model records a step with a failed precondition (dropping an uninitialised slot: UB in the source) as a flag and
goes on; the translation stops with `bad`.  The two are compared with `agree`: equal, or both flagged. -/

/-- equal, or both recorded a UB step that the state `w` before the call had not -/
def agree {α : Type} (w : W) (a b : VS × W × Option α) : Prop :=
  a = b ∨ (w.bad.length < a.2.1.bad.length ∧ w.bad.length < b.2.1.bad.length)

theorem dropElem_bad (c : Cfg) (w : W) (e : Elem) : (dropElem c w e).1.bad = w.bad := by
  unfold dropElem; split <;> rfl

theorem gen_slod_decrement_len (l d : Nat) (h : d ≤ l) : Gen.Fn.slod_decrement_len l d = .ok ((), l - d) := by
  simp [Gen.Fn.slod_decrement_len, h]

theorem gen_slod_increment_len (l d : Nat) (h : l + d < USIZE) : Gen.Fn.slod_increment_len l d = .ok ((), l + d) := by
  simp [Gen.Fn.slod_increment_len, h]

/-- the loop of `truncate`: the translation's pointer and guard move together (`ptr = local_len`) and every iteration
is the model's -/
theorem gen_truncate_loop (c : Cfg) (len cur : Nat) (slots : List (Option Elem)) (vlen cap : Nat) :
    ∀ (k l : Nat) (w : W), k ≤ l →
      (((truncLoop c slots k l w).2.1.bad = w.bad) ∧
        Gen.Fn.vec_truncate.loop_1 c len cur k l l (⟨slots, vlen, cap⟩, w) =
          (if (truncLoop c slots k l w).2.2 then ((⟨slots, (truncLoop c slots k l w).1, cap⟩, (truncLoop c slots k l w).2.1), .panic)
           else ((⟨slots, vlen, cap⟩, (truncLoop c slots k l w).2.1), .ok ((truncLoop c slots k l w).1, (truncLoop c slots k l w).1)))) ∨
      (w.bad.length < (truncLoop c slots k l w).2.1.bad.length ∧
        ∃ s' why, Gen.Fn.vec_truncate.loop_1 c len cur k l l (⟨slots, vlen, cap⟩, w) = (s', .bad why) ∧ s'.2.bad = w.bad) := by
  intro k
  induction k with
  | zero => intro l w _; left; simp [truncLoop, Gen.Fn.vec_truncate.loop_1]
  | succ k ih =>
    intro l w hk
    have h1 : 1 ≤ l := by omega
    unfold Gen.Fn.vec_truncate.loop_1
    simp only [gen_slod_decrement_len l 1 h1, pureW, bindW, RsM.drop_in_place, VS.read]
    unfold truncLoop
    cases hs : (slots[l - 1]?).join with
    | none =>
      right
      simp [W.flag, bindU]
    | some e =>
      simp only []
      cases hp : (dropElem c w e).2 with
      | true =>
        left
        simp [bindU, RsM.store_len, dropElem_bad]
      | false =>
        have hb := dropElem_bad c w e
        simp only [bindU, Bool.false_eq_true, if_false]
        rcases ih (l - 1) (dropElem c w e).1 (by omega) with ⟨h1, h2⟩ | ⟨h1, s', why, h2, h3⟩
        · left; rw [hb] at h1; exact ⟨h1, h2⟩
        · right; rw [hb] at h1 h3; exact ⟨h1, s', why, h2, h3⟩

/-- `Vec::truncate` as translated against the model's `truncate`, outcome by outcome -/
theorem gen_vec_truncate_cases (c : Cfg) (v : VS) (n : Nat) (w : W) :
    (∃ s, Gen.Fn.vec_truncate c n (v, w) = (s, .ok ()) ∧ V.truncate c v n w = (s.1, s.2, some ())) ∨
    (∃ s, Gen.Fn.vec_truncate c n (v, w) = (s, .panic) ∧ V.truncate c v n w = (s.1, s.2, none)) ∨
    (∃ s why, Gen.Fn.vec_truncate c n (v, w) = (s, .bad why) ∧ s.2.bad = w.bad ∧
      w.bad.length < (V.truncate c v n w).2.1.bad.length) := by
  obtain ⟨slots, vlen, cap⟩ := v
  unfold V.truncate Gen.Fn.vec_truncate
  rcases gen_truncate_loop c n vlen slots vlen cap (vlen - n) vlen w (by omega) with ⟨h1, h2⟩ | ⟨h1, s', why, h2, h3⟩
  · simp only [h2]
    cases hp : (truncLoop c slots (vlen - n) vlen w).2.2 with
    | false => left; simp [bindW, RsM.set_len]
    | true => right; left; simp [bindW]
  · right; right
    exact ⟨s', why, by simp [h2, bindW], h3, h1⟩

/-- `Vec::truncate` as translated is the model's `truncate` -/
theorem gen_vec_truncate (c : Cfg) (v : VS) (n : Nat) (w : W) :
    agree w (toModel (Gen.Fn.vec_truncate c n (v, w))) (V.truncate c v n w) := by
  rcases gen_vec_truncate_cases c v n w with ⟨s, h1, h2⟩ | ⟨s, h1, h2⟩ | ⟨s, why, h1, h2, h3⟩
  · left; rw [h1, h2]; rfl
  · left; rw [h1, h2]; rfl
  · right; rw [h1]; exact ⟨by simp [toModel, W.flag, h2], h3⟩

theorem gen_vec_clear (c : Cfg) (v : VS) (w : W) :
    agree w (toModel (Gen.Fn.vec_clear c (v, w))) (V.clear c v w) := by
  have h := gen_vec_truncate c v 0 w
  unfold V.clear Gen.Fn.vec_clear
  cases hr : Gen.Fn.vec_truncate c 0 (v, w) with
  | mk s o =>
    rw [hr] at h
    cases o <;> simpa [bindW, toModel] using h

/-! ### extend_with / resize

The source keeps the growing length in the `SetLenOnDrop` guard and stores it when the scope ends; the model keeps it in
`len` all along.  The loop lemma relates the two: translation at vector `vg` with guard `ll` ↔ model at `{vg with len := ll}`. -/

theorem write_with_len (c : Cfg) (v : VS) (l i : Nat) (e : Elem) (w : W) :
    ({ v with len := l } : VS).write c i e w = ({ (v.write c i e w).1 with len := l }, (v.write c i e w).2) := rfl

theorem extendClones_zero (c : Cfg) (x : Elem) (v : VS) (w : W) : extendClones c x 0 v w = (v, w, true) := rfl
theorem extendClones_succ_none (c : Cfg) (x : Elem) (k : Nat) (v : VS) (w w' : W) (h : cloneElem c w x = (w', none)) :
    extendClones c x (k + 1) v w = (v, w', false) := by
  unfold extendClones; rw [h]
theorem extendClones_succ_some (c : Cfg) (x e : Elem) (k : Nat) (v : VS) (w w' : W) (h : cloneElem c w x = (w', some e)) :
    extendClones c x (k + 1) v w =
      extendClones c x k { (v.write c v.len e w').1 with len := (v.write c v.len e w').1.len + 1 } (v.write c v.len e w').2 := by
  conv => lhs; unfold extendClones
  rw [h]

theorem extendClones_len (c : Cfg) (x : Elem) : ∀ (k : Nat) (v : VS) (w : W), (extendClones c x k v w).1.len ≤ v.len + k := by
  intro k
  induction k with
  | zero => intro v w; simp [extendClones_zero]
  | succ k ih =>
    intro v w
    cases hc : cloneElem c w x with
    | mk w' o =>
      cases o with
      | none => rw [extendClones_succ_none c x k v w w' hc]; simp
      | some e =>
        rw [extendClones_succ_some c x e k v w w' hc]
        have h : (extendClones c x k { (v.write c v.len e w').1 with len := (v.write c v.len e w').1.len + 1 } (v.write c v.len e w').2).1.len
            ≤ (v.len + 1) + k := ih _ _
        omega

theorem gen_extend_loop (c : Cfg) (x : Elem) (n : Nat) (r : Unit) (r1 : Nat) :
    ∀ (k : Nat) (vg : VS) (ll : Nat) (w : W), ll + k < USIZE →
      Gen.Fn.vec_extend_with.loop_1 c n x r r1 k ll ll (vg, w) =
        (if (extendClones c x k { vg with len := ll } w).2.2 then
          (({ (extendClones c x k { vg with len := ll } w).1 with len := vg.len }, (extendClones c x k { vg with len := ll } w).2.1),
            .ok ((extendClones c x k { vg with len := ll } w).1.len, (extendClones c x k { vg with len := ll } w).1.len))
         else (((extendClones c x k { vg with len := ll } w).1,
                (dropElem c (extendClones c x k { vg with len := ll } w).2.1 x).1), .panic)) := by
  intro k
  induction k with
  | zero => intro vg ll w _; simp [extendClones_zero, Gen.Fn.vec_extend_with.loop_1]
  | succ k ih =>
    intro vg ll w hk
    unfold Gen.Fn.vec_extend_with.loop_1
    simp only [RsM.clone_next]
    cases hc : cloneElem c w x with
    | mk w' o =>
      cases o with
      | none =>
        rw [extendClones_succ_none c x k _ w w' hc]
        simp [bindU, RsM.store_len, RsM.drop_elem]
      | some e =>
        rw [extendClones_succ_some c x e k _ w w' hc]
        have hlt : ll + 1 < USIZE := by omega
        simp only [bindU, RsM.write, bindW, pureW, gen_slod_increment_len ll 1 hlt]
        rw [ih _ (ll + 1) _ (by omega)]
        simp only [write_with_len, write_len]
        rfl

theorem rawReserve_some_lt {c : Cfg} {v v1 : VS} {n : Nat} (hl : v.len ≤ capOf c v) (hc : capOf c v < USIZE)
    (h : rawReserve c v v.len n = some v1) : v.len + n < USIZE ∧ v1.len = v.len := by
  unfold rawReserve reserveGen at h
  by_cases hw : wsub (capOf c v) v.len ≥ n
  · rw [if_pos hw] at h
    injection h with h
    rw [wsub_of_le hl hc] at hw
    subst h; exact ⟨by omega, rfl⟩
  · rw [if_neg hw] at h
    cases hr : reserveInternal c v v.len n false with
    | error e => rw [hr] at h; cases h
    | ok v' =>
      rw [hr] at h
      obtain ⟨h1, h2⟩ := reserveInternal_shape hr
      injection h with h
      subst h; exact ⟨h2, h1⟩

theorem extendWith_none {c : Cfg} {v : VS} {n : Nat} {x : Elem} {w : W} (hr : rawReserve c v v.len n = none) :
    V.extendWith c v n x w = (v, (dropElem c w x).1, none) := by
  unfold V.extendWith; rw [hr]
theorem extendWith_fail {c : Cfg} {v v1 : VS} {n : Nat} {x : Elem} {w : W} (hr : rawReserve c v v.len n = some v1)
    (hk : (extendClones c x (n - 1) v1 w).2.2 = false) :
    V.extendWith c v n x w = ((extendClones c x (n - 1) v1 w).1, (dropElem c (extendClones c x (n - 1) v1 w).2.1 x).1, none) := by
  unfold V.extendWith; rw [hr]
  show (if (!(extendClones c x (n - 1) v1 w).2.2) = true then _ else _) = _
  rw [hk]; rfl
theorem extendWith_last {c : Cfg} {v v1 : VS} {n : Nat} {x : Elem} {w : W} (hr : rawReserve c v v.len n = some v1)
    (hk : (extendClones c x (n - 1) v1 w).2.2 = true) (hn : n > 0) :
    V.extendWith c v n x w =
      ({ ((extendClones c x (n - 1) v1 w).1.write c (extendClones c x (n - 1) v1 w).1.len x (extendClones c x (n - 1) v1 w).2.1).1 with
          len := ((extendClones c x (n - 1) v1 w).1.write c (extendClones c x (n - 1) v1 w).1.len x (extendClones c x (n - 1) v1 w).2.1).1.len + 1 },
        ((extendClones c x (n - 1) v1 w).1.write c (extendClones c x (n - 1) v1 w).1.len x (extendClones c x (n - 1) v1 w).2.1).2, some ()) := by
  unfold V.extendWith; rw [hr]
  show (if (!(extendClones c x (n - 1) v1 w).2.2) = true then _ else _) = _
  rw [hk]
  show (if n > 0 then _ else _) = _
  rw [if_pos hn]
  rfl
theorem extendWith_zero {c : Cfg} {v v1 : VS} {n : Nat} {x : Elem} {w : W} (hr : rawReserve c v v.len n = some v1)
    (hk : (extendClones c x (n - 1) v1 w).2.2 = true) (hn : ¬ n > 0) :
    V.extendWith c v n x w =
      ((extendClones c x (n - 1) v1 w).1, (dropElem c (extendClones c x (n - 1) v1 w).2.1 x).1,
        if (dropElem c (extendClones c x (n - 1) v1 w).2.1 x).2 then none else some ()) := by
  unfold V.extendWith; rw [hr]
  show (if (!(extendClones c x (n - 1) v1 w).2.2) = true then _ else _) = _
  rw [hk]
  show (if n > 0 then _ else _) = _
  rw [if_neg hn]
  rfl

/-- `Vec::extend_with` (behind `resize` and `vec![x; n]`) as translated is the model's `extendWith` -/
theorem gen_vec_extend_with (c : Cfg) (v : VS) (n : Nat) (x : Elem) (w : W) (hl : v.len ≤ capOf c v) (hc : v.cap < USIZE) :
    toModel (Gen.Fn.vec_extend_with c n x (v, w)) = V.extendWith c v n x w := by
  have hcap := capOf_lt c v hc
  unfold Gen.Fn.vec_extend_with
  rw [gen_vec_reserve]
  cases hr : rawReserve c v v.len n with
  | none => rw [extendWith_none hr]; rfl
  | some v1 =>
    obtain ⟨hlt, hlen⟩ := rawReserve_some_lt hl hcap hr
    simp only [bindU, pureW, bindW, gen_vec_len]
    have hk : v1.len + (n - 1) < USIZE := by omega
    rw [gen_extend_loop c x n _ _ (n - 1) v1 v1.len w hk]
    have heta : ({ v1 with len := v1.len } : VS) = v1 := rfl
    rw [heta]
    have hlen2 := extendClones_len c x (n - 1) v1 w
    cases hok : (extendClones c x (n - 1) v1 w).2.2 with
    | false =>
      rw [extendWith_fail hr hok]
      simp [toModel]
    | true =>
      simp only [if_true]
      by_cases hn : n > 0
      · have hd : decide (n > 0) = true := by simpa using hn
        have hinc : (extendClones c x (n - 1) v1 w).1.len + 1 < USIZE := by omega
        rw [extendWith_last hr hok hn, if_pos hd]
        simp only [RsM.write, bindW, pureW, gen_slod_increment_len _ 1 hinc, RsM.set_len, toModel, write_with_len, write_len]
      · have hd : decide (n > 0) = false := by simpa using hn
        rw [extendWith_zero hr hok hn, hd]
        simp only [Bool.false_eq_true, if_false, RsM.set_len, bindW, RsM.drop_local]
        cases hp : (dropElem c (extendClones c x (n - 1) v1 w).2.1 x).2 <;> simp [toModel]

theorem resize_grow {c : Cfg} {v : VS} {n : Nat} {x : Elem} {w : W} (h : n > v.len) :
    V.resize c v n x w = V.extendWith c v (n - v.len) x w := by
  unfold V.resize; exact if_pos h
theorem resize_shrink {c : Cfg} {v : VS} {n : Nat} {x : Elem} {w : W} (h : ¬ n > v.len) :
    V.resize c v n x w =
      ((V.truncate c v n w).1, (dropElem c (V.truncate c v n w).2.1 x).1,
        if (V.truncate c v n w).2.2.isNone || (dropElem c (V.truncate c v n w).2.1 x).2 then none else some ()) := by
  unfold V.resize; exact if_neg h

/-- `Vec::resize` as translated is the model's `resize` (up to `agree`, inherited from `truncate`) -/
theorem gen_vec_resize (c : Cfg) (v : VS) (n : Nat) (x : Elem) (w : W) (hl : v.len ≤ capOf c v) (hc : v.cap < USIZE) :
    agree w (toModel (Gen.Fn.vec_resize c n x (v, w))) (V.resize c v n x w) := by
  unfold Gen.Fn.vec_resize
  simp only [gen_vec_len, pureW, bindW]
  by_cases h : n > v.len
  · have hd : decide (n > v.len) = true := by simpa using h
    have hle : v.len ≤ n := by omega
    left
    rw [if_pos hd, if_pos hle, resize_grow h, ← gen_vec_extend_with c v (n - v.len) x w hl hc]
    cases Gen.Fn.vec_extend_with c (n - v.len) x (v, w) with
    | mk s o => cases o <;> rfl
  · have hd : decide (n > v.len) = false := by simpa using h
    rw [hd, resize_shrink h]
    simp only [Bool.false_eq_true, if_false]
    rcases gen_vec_truncate_cases c v n w with ⟨s, h1, h2⟩ | ⟨s, h1, h2⟩ | ⟨s, why, h1, h2, h3⟩
    · left
      rw [h1, h2]
      simp only [bindU, RsM.drop_local, bindW]
      cases hp : (dropElem c s.2 x).2 <;> simp [toModel]
    · left
      rw [h1, h2]
      simp [bindU, RsM.drop_elem, toModel]
    · right
      rw [h1]
      refine ⟨by simp [bindU, toModel, W.flag, h2], ?_⟩
      simp only [dropElem_bad]
      exact h3

/-- `Vec::shrink_to_fit` as translated is the model's `shrinkToFit` (`none` = panic) -/
theorem gen_vec_shrink_to_fit (c : Cfg) (v : VS) (w : W) (hb : c.esz * v.cap < USIZE) (hlim : c.esz * v.cap ≤ c.allocLimit) :
    Gen.Fn.vec_shrink_to_fit c (v, w) =
      match shrinkToFit c v with
      | some v' => ((v', w), .ok ())
      | none => ((v, w), .panic) := by
  unfold Gen.Fn.vec_shrink_to_fit
  simp only [gen_vec_capacity, pureW, bindW]
  by_cases h : capOf c v = v.len
  · have hb' : (capOf c v != v.len) = false := by simp [h]
    simp [hb', shrinkToFit, h]
  · have hb' : (capOf c v != v.len) = true := by simpa using h
    simp only [hb', if_true, liftV, gen_rv_shrink_to_fit c v hb hlim h]
    cases shrinkToFit c v <;> rfl

/-- `Vec::new_in` -/
theorem gen_vec_new_in (c : Cfg) : Gen.Fn.vec_new_in c () = .ok newVec := rfl
theorem gen_rv_new_in (c : Cfg) : Gen.Fn.rv_new_in c () = .ok newVec := rfl

/-- `RawVec::allocate_in` as translated is the model's `withCapacity` (`none` = panic) -/
theorem gen_rv_allocate_in (c : Cfg) (n : Nat) (z : Bool) :
    Gen.Fn.rv_allocate_in c n z () = match withCapacity c n with | some v => .ok v | none => .panic := by
  unfold Gen.Fn.rv_allocate_in withCapacity
  simp only []
  cases hm : checkedMul n c.esz with
  | none => rfl
  | some bytes =>
    have hb : bytes = n * c.esz := by
      unfold checkedMul at hm; split at hm
      · injection hm with hm; exact hm.symm
      · cases hm
    simp only [Gen.Fn.rv_allocate_in.k_1, gen_alloc_guard, Rs.bindP, Gen.Fn.rv_allocate_in.k_2]
    by_cases h0 : bytes = 0
    · simp [h0, Gen.Fn.rv_allocate_in.k_3]
    · have h0b : (bytes == 0) = false := by simpa using h0
      simp only [h0b, Bool.false_eq_true, if_false, h0, Rs.layoutFromSizeAlign]
      by_cases hv : validLayout bytes c.eal = true
      · have he : c.esz ≠ 0 := by intro he; rw [he] at hb; omega
        have hdiv : bytes / c.esz = n := by rw [hb]; exact Nat.mul_div_cancel n (Nat.pos_of_ne_zero he)
        have hk : ∀ z, Gen.Fn.rv_allocate_in.k_4 c n z () c.esz bytes bytes (.ok ()) c.eal ⟨bytes, c.eal⟩ ⟨bytes, c.eal⟩ (arena_alloc_buf c bytes) =
            if !c.allocOk || decide (bytes > c.allocLimit) then .panic else .ok ⟨List.replicate n none, 0, n⟩ := by
          intro z
          unfold Gen.Fn.rv_allocate_in.k_4 arena_alloc_buf arena_serves
          cases c.allocOk <;> by_cases hl : bytes > c.allocLimit <;> simp [hl, Gen.Fn.rv_allocate_in.k_3, hdiv]
        simp only [hv, if_true, Bool.not_true, Bool.false_eq_true, if_false]
        cases z <;> simp only [Bool.false_eq_true, if_false, if_true, hk] <;>
          (by_cases hs : (!c.allocOk || decide (bytes > c.allocLimit)) = true <;> simp [hs])
      · have hv' : validLayout bytes c.eal = false := by simpa using hv
        simp [hv']

theorem gen_vec_with_capacity_in (c : Cfg) (n : Nat) :
    Gen.Fn.vec_with_capacity_in c n () = match withCapacity c n with | some v => .ok v | none => .panic := by
  unfold Gen.Fn.vec_with_capacity_in Gen.Fn.rv_with_capacity_in
  simp only [gen_rv_allocate_in, Rs.bindP]
  unfold withCapacity
  cases checkedMul n c.esz with
  | none => rfl
  | some bytes =>
    simp only []
    by_cases h0 : bytes = 0
    · simp [h0]
    · simp only [h0, if_false]
      by_cases hv : validLayout bytes c.eal = true
      · simp only [hv, Bool.not_true, Bool.false_eq_true, if_false]
        by_cases hs : (!c.allocOk || decide (bytes > c.allocLimit)) = true <;> simp [hs]
      · have hv' : validLayout bytes c.eal = false := by simpa using hv
        simp [hv']

#print axioms gen_vec_with_capacity_in
#print axioms gen_vec_shrink_to_fit
#print axioms gen_vec_len
#print axioms gen_vec_capacity
#print axioms gen_vec_is_empty
#print axioms gen_vec_set_len
#print axioms gen_vec_reserve
#print axioms gen_vec_reserve_exact
#print axioms gen_vec_try_reserve
#print axioms gen_vec_try_reserve_exact
#print axioms gen_vec_push
#print axioms gen_vec_pop
#print axioms gen_vec_insert
#print axioms gen_vec_remove
#print axioms gen_vec_swap_remove
#print axioms gen_vec_truncate
#print axioms gen_vec_clear
#print axioms gen_vec_extend_with
#print axioms gen_vec_resize
#print axioms gen_slod_decrement_len
#print axioms gen_slod_increment_len

end Bump.V
