import BumpVerif.Gen.FnSplice
import BumpVerif.Props.GenFnVec
import BumpVerif.Proofs.VecRefine2
/-!
# `Drain::fill` and `Drain::move_tail` as translated = the model's `Drain.fill`, `Drain.moveTail`

The two helpers `Splice::drop` is built from.  `fill` writes items of a caller-owned iterator into the gap `[vec.len, tail_start)`,
raising `vec.len` after *each* write (so that a panic of `next()` or an exhausted iterator leaves exactly the written items
inside the vector); `move_tail` reserves room behind the tail and moves the tail up.
-/
namespace Bump.V
open Bump Bump.RsM

/-- the model's result of `fill` in the translator's shape -/
def fillView (m : VS × It × W × Option Bool) : VW × It × Outcome Bool :=
  ((m.1, m.2.2.1), m.2.1, match m.2.2.2 with | none => .panic | some b => .ok b)

theorem fill_loop (c : Cfg) (d : Drain) (ts tl a b : Nat) :
    ∀ (n place : Nat) (it : It) (v : VS) (w : W), place = v.len → v.len + n < USIZE →
    Gen.Fn.drain_fill.loop c ts tl a b n place it (v, w) = fillView (Drain.fill c d n v it w) := by
  intro n
  induction n with
  | zero => intro place it v w _ _; rfl
  | succ n ih =>
    intro place it v w hp hlt
    unfold Gen.Fn.drain_fill.loop Drain.fill
    simp only [it_next]
    rcases It.next c w it with ⟨w1, it1, o⟩
    cases o with
    | none => rfl
    | some oo =>
      cases oo with
      | none => rfl
      | some e =>
        subst hp
        have h1 : v.len + 1 < USIZE := by omega
        simp only [RsM.write, write_len, h1, if_true, RsM.set_len]
        exact ih (v.len + 1) it1 _ _ rfl (by simp only [write_len]; omega)

/-- `Drain::fill(replace_with)` as translated: the model's `Drain.fill` over the gap `[vec.len, tail_start)` — for an iterator that
runs dry, one that panics in `next`, and one that fills the gap -/
theorem gen_drain_fill (c : Cfg) (d : Drain) (tl : Nat) (it : It) (v : VS) (w : W) (hgap : v.len ≤ d.tailStart)
    (hlt : d.tailStart < USIZE) :
    Gen.Fn.drain_fill c d.tailStart tl it (v, w) = fillView (Drain.fill c d (d.tailStart - v.len) v it w) := by
  unfold Gen.Fn.drain_fill
  simp only [hgap, if_true]
  exact fill_loop c d _ _ _ _ (d.tailStart - v.len) v.len it v w rfl (by omega)

/-- `Drain::move_tail(extra)` as translated: room for `extra` more elements behind the tail, the tail moved up by `extra` — the
model's `Drain.moveTail`; the unchecked additions of the source cannot wrap once the reservation succeeded -/
theorem gen_drain_move_tail (c : Cfg) (hc : CfgOK c) (d : Drain) (extra : Nat) (v : VS) (w : W) (hb : BufOK c v)
    (hu : d.tailStart + d.tailLen ≤ capOf c v) :
    Gen.Fn.drain_move_tail c d.tailStart d.tailLen extra (v, w) =
      match Drain.moveTail c v d extra w with
      | none => ((v, w), .panic)
      | some (v', d', w') => ((v', w'), .ok d'.tailStart) := by
  have hcl := capOf_lt c v hb.capLt
  have h1 : d.tailStart + d.tailLen < USIZE := by omega
  unfold Gen.Fn.drain_move_tail Drain.moveTail
  simp only [h1, if_true, liftV, gen_rv_reserve]
  cases hr : rawReserve c v (d.tailStart + d.tailLen) extra with
  | none => rfl
  | some v1 =>
    obtain ⟨hb1, _, hcap, _, _⟩ := rawReserve_buf hc hb hu hr
    have hcl1 := capOf_lt c v1 hb1.capLt
    have h2 : d.tailStart + extra < USIZE := by omega
    simp only [h2, if_true, RsM.copy]

#print axioms gen_drain_fill
#print axioms gen_drain_move_tail

end Bump.V
