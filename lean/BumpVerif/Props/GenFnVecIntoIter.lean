import BumpVerif.Gen.FnVecIntoIter
import BumpVerif.Props.GenFnVecDrain
/-!
# `Vec::into_iter`, `IntoIter::{next, next_back, drop}` as translated = the model's `intoIterOp` pieces

The model runs an `IntoIter` as a `Drain` over the whole vector (`⟨len, 0, 0, len⟩`): `takeFront` / `takeBack` steps,
then `readRange` + `dropEach`.  `IntoIter`'s two pointers are the slot indices `(ptr, end)`.  For a zero-sized `T` the
source steps the pointers byte-wise and makes the values up (`mem::zeroed()`): that branch is characterised on its own
(`gen_intoiter_next_zst`: same pointer movement, same `Some`/`None`), the equalities with the model are for
`size_of::<T>() ≠ 0`.
-/
namespace Bump.V
open Bump Rs RsV RsM

theorem gen_vec_into_iter (c : Cfg) (v : VS) (w : W) : Gen.Fn.vec_into_iter c (v, w) = ((v, w), .ok (0, v.len)) := by
  unfold Gen.Fn.vec_into_iter
  by_cases h : c.esz = 0 <;> simp [h, gen_vec_len, pureW, bindW, Gen.Fn.vec_into_iter.k_1]

theorem gen_intoiter_next (c : Cfg) (he : c.esz ≠ 0) (lo hi : Nat) (v : VS) (w : W) (hle : lo ≤ hi) :
    Gen.Fn.intoiter_next c lo hi (v, w) =
      if lo < hi then
        match v.read lo with
        | none => ((v, w), .bad "next: read of an uninitialised slot")
        | some e => ((v, w), .ok (some e, lo + 1, hi))
      else ((v, w), .ok (none, lo, hi)) := by
  unfold Gen.Fn.intoiter_next
  have he' : (c.esz == 0) = false := by simpa using he
  by_cases h : lo < hi
  · have hb : (lo == hi) = false := by simp; omega
    simp only [hb, he', Bool.false_eq_true, if_false, h, if_true, RsM.read]
    cases v.read lo <;> rfl
  · have hb : (lo == hi) = true := by simp; omega
    simp only [hb, if_true, h, if_false]

theorem gen_intoiter_next_back (c : Cfg) (he : c.esz ≠ 0) (lo hi : Nat) (v : VS) (w : W) (hle : lo ≤ hi) :
    Gen.Fn.intoiter_next_back c lo hi (v, w) =
      if lo < hi then
        match v.read (hi - 1) with
        | none => ((v, w), .bad "next_back: read of an uninitialised slot")
        | some e => ((v, w), .ok (some e, lo, hi - 1))
      else ((v, w), .ok (none, lo, hi)) := by
  unfold Gen.Fn.intoiter_next_back
  have he' : (c.esz == 0) = false := by simpa using he
  by_cases h : lo < hi
  · have hb : (hi == lo) = false := by simp; omega
    simp only [hb, he', Bool.false_eq_true, if_false, h, if_true, RsM.read]
    cases v.read (hi - 1) <;> rfl
  · have hb : (hi == lo) = true := by simp; omega
    simp only [hb, if_true, h, if_false]

/-- zero-sized elements: the pointers move as for sized ones and `Some`/`None` is the same; the value is made up -/
theorem gen_intoiter_next_zst (c : Cfg) (he : c.esz = 0) (lo hi : Nat) (v : VS) (w : W) :
    Gen.Fn.intoiter_next c lo hi (v, w) =
      if lo == hi then ((v, w), .ok (none, lo, hi)) else ((v, w), .ok (some zst_any, lo + 1, hi)) := by
  unfold Gen.Fn.intoiter_next
  have he' : (c.esz == 0) = true := by simpa using he
  by_cases h : (lo == hi) = true <;> simp [h, he']

theorem gen_intoiter_next_back_zst (c : Cfg) (he : c.esz = 0) (lo hi : Nat) (v : VS) (w : W) :
    Gen.Fn.intoiter_next_back c lo hi (v, w) =
      if hi == lo then ((v, w), .ok (none, lo, hi)) else ((v, w), .ok (some zst_any, lo, hi - 1)) := by
  unfold Gen.Fn.intoiter_next_back
  have he' : (c.esz == 0) = true := by simpa using he
  by_cases h : (hi == lo) = true <;> simp [h, he']

/-- the model's `takeFront` on an `IntoIter` is `k` calls of the translated `next`, each followed by the hand-over event -/
def genIITakeFront (c : Cfg) (v : VS) : Nat → Drain → W → Drain × W × List Elem
  | 0, d, w => (d, w, [])
  | k + 1, d, w =>
    match Gen.Fn.intoiter_next c d.lo d.hi (v, w) with
    | (_, .ok (some e, lo, hi)) =>
      let r := genIITakeFront c v k { d with lo := lo, hi := hi } (w.moved e)
      (r.1, r.2.1, e :: r.2.2)
    | (_, .ok (none, _, _)) => (d, w, [])
    | (_, _) => (d, w.flag "drain read an uninitialised slot", [])

theorem takeFront_eq_gen_intoiter (c : Cfg) (he : c.esz ≠ 0) (v : VS) :
    ∀ (k : Nat) (d : Drain) (w : W), d.lo ≤ d.hi → Drain.takeFront v k d w = genIITakeFront c v k d w := by
  intro k
  induction k with
  | zero => intro d w _; rfl
  | succ k ih =>
    intro d w hle
    unfold Drain.takeFront genIITakeFront
    rw [gen_intoiter_next c he d.lo d.hi v w hle]
    by_cases h : d.lo < d.hi
    · simp only [h, if_true]
      cases hr : v.read d.lo with
      | none => rfl
      | some e => simp only []; rw [ih _ _ (by simp; omega)]
    · simp only [h, if_false]

def genIITakeBack (c : Cfg) (v : VS) : Nat → Drain → W → Drain × W × List Elem
  | 0, d, w => (d, w, [])
  | k + 1, d, w =>
    match Gen.Fn.intoiter_next_back c d.lo d.hi (v, w) with
    | (_, .ok (some e, lo, hi)) =>
      let r := genIITakeBack c v k { d with lo := lo, hi := hi } (w.moved e)
      (r.1, r.2.1, e :: r.2.2)
    | (_, .ok (none, _, _)) => (d, w, [])
    | (_, _) => (d, w.flag "drain read an uninitialised slot", [])

theorem takeBack_eq_gen_intoiter (c : Cfg) (he : c.esz ≠ 0) (v : VS) :
    ∀ (k : Nat) (d : Drain) (w : W), d.lo ≤ d.hi → Drain.takeBack v k d w = genIITakeBack c v k d w := by
  intro k
  induction k with
  | zero => intro d w _; rfl
  | succ k ih =>
    intro d w hle
    unfold Drain.takeBack genIITakeBack
    rw [gen_intoiter_next_back c he d.lo d.hi v w hle]
    by_cases h : d.lo < d.hi
    · simp only [h, if_true]
      cases hr : v.read (d.hi - 1) with
      | none => rfl
      | some e => simp only []; rw [ih _ _ (by simp; omega)]
    · simp only [h, if_false]

/-- `Drop for IntoIter` (`self.for_each(drop)`) on a represented vector: exactly the model's `dropEach` of what is left -/
theorem gen_intoiter_drop_loop (c : Cfg) (he : c.esz ≠ 0) (xs : List Elem) (rest : List (Option Elem)) (l cp : Nat) :
    ∀ (n lo hi F : Nat) (w : W), hi = lo + n → hi ≤ xs.length → n < F →
      Gen.Fn.intoiter_drop.loop_1 c F lo hi (⟨xs.map some ++ rest, l, cp⟩, w) =
        match (dropEach c ((xs.drop lo).take (hi - lo)) w).2 with
        | some _ => ((⟨xs.map some ++ rest, l, cp⟩, (dropEach c ((xs.drop lo).take (hi - lo)) w).1), .panic)
        | none => ((⟨xs.map some ++ rest, l, cp⟩, (dropEach c ((xs.drop lo).take (hi - lo)) w).1), .ok (hi, hi)) := by
  intro n
  induction n with
  | zero =>
    intro lo hi F w hh _ hF
    subst hh
    cases F with
    | zero => omega
    | succ F =>
      unfold Gen.Fn.intoiter_drop.loop_1
      simp [gen_intoiter_next c he, bindW, dropEach]
  | succ n ih =>
    intro lo hi F w hh hhi hF
    cases F with
    | zero => omega
    | succ F =>
      have hlt : lo < hi := by omega
      have hlx : lo < xs.length := by omega
      have hd : xs.drop lo = xs[lo] :: xs.drop (lo + 1) := (List.getElem_cons_drop (by omega)).symm
      have ht : (xs.drop lo).take (hi - lo) = xs[lo] :: (xs.drop (lo + 1)).take (hi - (lo + 1)) := by
        have : hi - lo = (hi - (lo + 1)) + 1 := by omega
        rw [hd, this, List.take_succ_cons]
      unfold Gen.Fn.intoiter_drop.loop_1
      rw [gen_intoiter_next c he lo hi _ w (by omega), if_pos hlt, read_map_some xs rest lo hlx l cp, ht, dropEach_cons]
      simp only [bindW, RsM.drop_local]
      cases hp : (dropElem c w xs[lo]).2 with
      | true => simp
      | false =>
        simp only [Bool.false_eq_true, if_false]
        exact ih (lo + 1) hi F (dropElem c w xs[lo]).1 (by omega) hhi (by omega)

/-- the destructor of an `IntoIter` over `[lo, hi)` of a represented vector: `none` = a destructor panicked -/
theorem gen_intoiter_drop (c : Cfg) (he : c.esz ≠ 0) (xs : List Elem) (rest : List (Option Elem)) (l cp lo hi : Nat) (w : W)
    (hle : lo ≤ hi) (hhi : hi ≤ xs.length) (hU : hi < USIZE) :
    dropView (Gen.Fn.intoiter_drop c lo hi (⟨xs.map some ++ rest, l, cp⟩, w)) =
      (⟨xs.map some ++ rest, l, cp⟩, (dropEach c ((xs.drop lo).take (hi - lo)) w).1, (dropEach c ((xs.drop lo).take (hi - lo)) w).2.isSome) := by
  unfold Gen.Fn.intoiter_drop
  rw [gen_intoiter_drop_loop c he xs rest l cp (hi - lo) lo hi USIZE w (by omega) hhi (by omega)]
  cases (dropEach c ((xs.drop lo).take (hi - lo)) w).2 <;> simp [bindW, dropView]

/-- `IntoIter::size_hint`: exactly what is left, `(hi - lo, Some(hi - lo))`, for sized and for zero-sized elements (where the two
"pointers" are counters and the difference is a wrapping subtraction); the fields do not change -/
theorem gen_intoiter_size_hint (c : Cfg) (lo hi : Nat) (hle : lo ≤ hi) (hU : hi < USIZE) :
    Gen.Fn.intoiter_size_hint c lo hi = .ok ((hi - lo, some (hi - lo)), lo, hi) := by
  unfold Gen.Fn.intoiter_size_hint Gen.Fn.intoiter_size_hint.k_1
  by_cases he : (c.esz == 0) = true
  · simp only [he, if_true, wsub_of_le hle hU]
  · simp only [he, if_false, hle, if_true, Bool.false_eq_true]

#print axioms gen_intoiter_size_hint

#print axioms gen_vec_into_iter
#print axioms gen_intoiter_next
#print axioms gen_intoiter_next_back
#print axioms gen_intoiter_next_zst
#print axioms gen_intoiter_next_back_zst
#print axioms takeFront_eq_gen_intoiter
#print axioms takeBack_eq_gen_intoiter
#print axioms gen_intoiter_drop

end Bump.V
