import BumpVerif.Gen.FnFwdCore
/-!
# The functions of lib.rs and raw_vec.rs that no body translator covers, pinned

One code per function, in source order: `0` a view of `self`, `1` a literal forward (the same method / trait function / comparison
operator on views of `self` and the parameters), otherwise `10 +` a fingerprint of the function's text.  The hand models and the
harness oracles for these functions were validated against exactly this: a forward that stops being one, any edit of one of the
other functions, or a function that appears or disappears changes the regenerated list and this obligation fails (the check then
looks for a failing input with the side-by-side runs).  Update the list by hand, after re-validating, when the source changes
legitimately.
-/
namespace Bump

theorem fwd_core_pinned : Gen.Fn.fwd_core = [
  1972089948 /- lib.rs: impl<E> From<AllocErr> for AllocOrInitError<E> :: from (other) -/,
  74581783 /- lib.rs: impl<E: Display> Display for AllocOrInitError<E> :: fmt (other) -/,
  3837560455 /- lib.rs: impl EmptyChunkFooter :: get (other) -/,
  3947418811 /- lib.rs:  :: allocation_size_overflow (other) -/,
  1202395053 /- lib.rs:  :: oom (other) -/,
  1472776443 /- raw_vec.rs: impl<'a, T> RawVec<'a, T> :: with_capacity_zeroed_in (other) -/,
  1590306029 /- raw_vec.rs: impl<'a, T> RawVec<'a, T> :: from_raw_parts_in (other) -/,
  1456110844 /- raw_vec.rs: impl<'a, T> RawVec<'a, T> :: ptr (other) -/,
  0 /- raw_vec.rs: impl<'a, T> RawVec<'a, T> :: bump (view) -/,
  75304360 /- raw_vec.rs: impl<'a, T> RawVec<'a, T> :: double (other) -/,
  853451519 /- raw_vec.rs: impl<'a, T> RawVec<'a, T> :: double_in_place (other) -/,
  2984071472 /- raw_vec.rs: impl<'a, T> RawVec<'a, T> :: reserve_in_place (other) -/,
  1394307882 /- raw_vec.rs: impl<'a, T> RawVec<'a, T> :: into_box (other) -/,
  831181484 /- raw_vec.rs: impl<'a, T> Drop for RawVec<'a, T> :: drop (other) -/,
  403277623 /- raw_vec.rs:  :: capacity_overflow (other) -/] := rfl

#print axioms fwd_core_pinned

end Bump
