import BumpVerif.Proofs.BoxOps
import BumpVerif.Gen.BoxImpls
/-! # C17 — `boxed::Box` owns its value like std's `Box`, without owning memory

Theorems about the ownership machine of `Model/Box.lean` (the functions of `src/boxed.rs` written
as `ManuallyDrop` / `ptr::read` / `drop_in_place` step sequences), for **all** programs (lists of
operations over a table of variables), all values, all panic positions of a destructor and all
downcast targets.  The Box parts of C15 (dropped exactly once; `into_raw`, `leak`, `into_inner`
never double-drop) and C16 (a panicking destructor inside a boxed-slice drop: no double drop) are
the theorems `never_dropped_twice`, `transfers_run_no_destructor`, `slice_drop_with_panicking_destructor`.

The delegation clause (comparison / hash / format / iterate / poll / `AsRef` / `Borrow` impls return
what the pointee's return): in the model they do by definition (`delegation_is_definitional`); that
the *source* has that form is re-read on every run by `tools/extract_box.py`, which regenerates
`Gen/BoxImpls.lean` — one row per method of those impls, with whether its body is literally a
forward to the pointee — and `delegating_impls_forward` below is the obligation that every row
says so.  The side-by-side run against `std::boxed::Box` samples the results themselves.  That the
model's step sequences are the ones the source executes is the correspondence run's job.
-/
namespace Bump.C17
open Bump.Bx

/-- states reachable by some program from the empty variable table -/
def Reachable (z : Bool) (w : W) : Prop := ∃ ns prog, w = run z prog (W.init ns)

/-- The ownership invariant holds after every program: no id occurs twice among the ids reachable
through a variable, the drop log and the moved-out log; these are exactly the ids created. -/
theorem own_all_programs (z : Bool) (ns : Nat) (prog : List (Env × Op)) : Own (run z prog (W.init ns)) :=
  run_own z prog _ (own_init ns)

/-- owned / escaped (`into_raw`) / leaked / dropped / moved-out (`into_inner`) are pairwise
disjoint and duplicate-free, and together are exactly the values ever created (conservation). -/
theorem five_classes (z : Bool) (w : W) (h : Reachable z w) :
    (w.owned ++ w.escaped ++ w.leaked ++ w.drops ++ w.moved).Nodup ∧
    w.created.Perm (w.owned ++ w.escaped ++ w.leaked ++ w.drops ++ w.moved) := by
  obtain ⟨ns, prog, rfl⟩ := h
  exact own_classes _ (own_all_programs z ns prog)

/-- In every reachable state: no value has had its destructor run twice, none was both dropped and
moved out, and nothing dropped or moved out is reachable through any variable (owned, raw or leaked). -/
theorem never_dropped_twice (z : Bool) (w : W) (h : Reachable z w) (id : Nat) :
    w.drops.count id + w.moved.count id ≤ 1 ∧ (id ∈ w.drops ∨ id ∈ w.moved → id ∉ w.live) := by
  obtain ⟨ns, prog, rfl⟩ := h
  have hc := own_count_le _ (own_all_programs z ns prog) id
  refine ⟨by omega, ?_⟩
  intro hm hl
  have h1 := List.count_pos_iff.mpr hl
  rcases hm with hm | hm <;> (have h2 := List.count_pos_iff.mpr hm; omega)

/-- what sits behind a raw pointer from `into_raw` or a leaked reference has not been dropped -/
theorem escaped_and_leaked_not_dropped (z : Bool) (w : W) (h : Reachable z w) (id : Nat)
    (hm : id ∈ w.escaped ∨ id ∈ w.leaked) : id ∉ w.drops := by
  have hn := (five_classes z w h).1
  intro hd
  have hc := (List.nodup_iff_count.mp hn) id
  simp only [List.count_append] at hc
  have h2 := List.count_pos_iff.mpr hd
  rcases hm with hm | hm <;> (have h1 := List.count_pos_iff.mpr hm; omega)

/-- `box_drop`: in any reachable state, dropping a `Box<T>` empties the variable, runs the value's
destructor exactly once (one new `drop id` event; the id then occurs exactly once in the whole
log), reads nothing out, and does not touch the arena (accounting unchanged, no allocator event). -/
theorem box_drop (z : Bool) (env : Env) (w : W) (hr : Reachable z w) (s tag : Nat) (c : Cell) (pa : Option Nat)
    (h : w.slots[s]? = some (.box tag c)) :
    let w' := step z env (.drop s pa) w
    w'.slots = w.slots.set s .empty ∧ w'.drops = w.drops ++ [c.id] ∧ w'.moved = w.moved ∧
    w'.drops.count c.id = 1 ∧ w'.acct = w.acct ∧ evtOf env (effOf z (.drop s pa) w).1 = 0 := by
  obtain ⟨ns, prog, rfl⟩ := hr
  obtain ⟨hs, he, _⟩ := Bx.box_drop z env _ s tag c pa h
  refine ⟨hs.slots, hs.drops, by simpa using hs.moved, ?_, hs.acct, he⟩
  have ho : Own (step z env (.drop s pa) (run z prog (W.init ns))) := step_own z env _ _ (own_all_programs z ns prog)
  have hc := own_count_le _ ho c.id
  have hm : c.id ∈ (step z env (.drop s pa) (run z prog (W.init ns))).drops := by rw [hs.drops]; simp
  have := List.count_pos_iff.mpr hm
  omega

/-- Dropping a boxed slice (or boxed array) drops each element exactly once, front to back, whether or
not the destructor of some element `k` panics: the remaining elements are still dropped, none twice
(C16, Box part); the call unwinds iff `k` is an element index; the arena is not touched. -/
theorem slice_drop_with_panicking_destructor (z : Bool) (env : Env) (w : W) (hr : Reachable z w) (s : Nat)
    (cs : List Cell) (cap : Option Nat) (pa : Option Nat) (h : w.slots[s]? = some (.slice cs cap)) :
    let w' := step z env (.drop s pa) w
    w'.slots = w.slots.set s .empty ∧ w'.drops = w.drops ++ cs.map (·.id) ∧ w'.moved = w.moved ∧
    (∀ c ∈ cs, w'.drops.count c.id = 1) ∧ w'.acct = w.acct ∧
    (effOf z (.drop s pa) w).2 = (match pa with | some k => if k < cs.length then "panic" else "ok" | none => "ok") := by
  obtain ⟨ns, prog, rfl⟩ := hr
  obtain ⟨hs, _, hres⟩ := Bx.slice_drop z env _ s cs cap pa h
  refine ⟨hs.slots, hs.drops, by simpa using hs.moved, ?_, hs.acct, hres⟩
  intro c hcm
  have ho : Own (step z env (.drop s pa) (run z prog (W.init ns))) := step_own z env _ _ (own_all_programs z ns prog)
  have hc := own_count_le _ ho c.id
  have hm : c.id ∈ (step z env (.drop s pa) (run z prog (W.init ns))).drops := by
    rw [hs.drops]; simp; exact Or.inr ⟨c, hcm, rfl⟩
  have := List.count_pos_iff.mpr hm
  omega

/-- the same for a boxed array -/
theorem arr_drop (z : Bool) (env : Env) (w : W) (s : Nat) (cs : List Cell) (cap : Option Nat) (pa : Option Nat)
    (h : w.slots[s]? = some (.arr cs cap)) :
    let w' := step z env (.drop s pa) w
    w'.slots = w.slots.set s .empty ∧ w'.drops = w.drops ++ cs.map (·.id) ∧ w'.moved = w.moved ∧ w'.acct = w.acct := by
  obtain ⟨hs, _⟩ := Bx.arr_drop z env w s cs cap pa h
  exact ⟨hs.slots, hs.drops, by simpa using hs.moved, hs.acct⟩

/-- `into_inner` moves the value out (one `moved` event, result = the value), `into_raw` / `leak` hand it
to a raw pointer / a reference, `from_raw` takes it back: in all of them no destructor runs, the value
(id and contents) is unchanged, the arena is untouched. -/
theorem transfers_run_no_destructor (z : Bool) (env : Env) (w : W) (s tag : Nat) (c : Cell) :
    (w.slots[s]? = some (.box tag c) →
      OnlySlot w (step z env (.intoInner s) w) s .empty [] [c.id] ∧ (effOf z (.intoInner s) w).2 = "ok " ++ showCells z [c] ∧
      OnlySlot w (step z env (.intoRaw s) w) s (.raw tag c) [] [] ∧
      OnlySlot w (step z env (.leak s) w) s (.leaked tag c) [] [] ∧
      OnlySlot w (step z env (.toAny s) w) s (.any tag c) [] []) ∧
    (w.slots[s]? = some (.raw tag c) ∨ w.slots[s]? = some (.leaked tag c) →
      OnlySlot w (step z env (.fromRaw s) w) s (.box tag c) [] []) := by
  refine ⟨fun h => ⟨(into_inner_spec z env w s tag c h).1, (into_inner_spec z env w s tag c h).2.2,
    (into_raw_spec z env w s tag c h).1, (leak_spec z env w s tag c h).1, to_any_spec z env w s tag c h⟩,
    fun h => (from_raw_spec z env w s tag c h).1⟩

/-- the same for boxed slices: the element sequence (order, ids, contents) is handed over unchanged -/
theorem slice_transfers_run_no_destructor (z : Bool) (env : Env) (w : W) (s : Nat) (cs : List Cell) (cap : Option Nat) :
    (w.slots[s]? = some (.slice cs cap) →
      OnlySlot w (step z env (.intoRaw s) w) s (.rawSlice cs cap) [] [] ∧
      OnlySlot w (step z env (.leak s) w) s (.leakedSlice cs cap) [] []) ∧
    (w.slots[s]? = some (.rawSlice cs cap) ∨ w.slots[s]? = some (.leakedSlice cs cap) →
      OnlySlot w (step z env (.fromRaw s) w) s (.slice cs cap) [] []) :=
  ⟨fun h => ⟨(into_raw_slice_spec z env w s cs cap h).1, (leak_slice_spec z env w s cs cap h).1⟩,
   fun h => (from_raw_slice_spec z env w s cs cap h).1⟩

/-- `from_raw(into_raw(b))` is `b` -/
theorem raw_round_trip (z : Bool) (e1 e2 : Env) (w : W) (s tag : Nat) (c : Cell)
    (h : w.slots[s]? = some (.box tag c)) (hs : s < w.slots.length) :
    OnlySlot w (step z e2 (.fromRaw s) (step z e1 (.intoRaw s) w)) s (.box tag c) [] [] :=
  Bx.raw_round_trip z e1 e2 w s tag c h hs

/-- `pin_in` / `From<Box> for Pin<Box>` / `Pin::into_inner`: the value is handed over, nothing dropped -/
theorem pinning (z : Bool) (env : Env) (w : W) (s : Nat) (c : Cell) (x : Nat) :
    (w.slots[s]? = some (.box 0 c) → OnlySlot w (step z env (.intoPin s) w) s (.pin c) [] []) ∧
    (w.slots[s]? = some (.pin c) → OnlySlot w (step z env (.unpin s) w) s (.box 0 c) [] []) ∧
    (w.slots[s]? = some .empty →
      (step z env (.pin s x) w).slots = w.slots.set s (.pin ⟨w.nextId, x⟩) ∧ (step z env (.pin s x) w).drops = w.drops ∧
      (step z env (.pin s x) w).moved = w.moved) :=
  ⟨into_pin_spec z env w s c, unpin_spec z env w s c, fun h => by
    have := pin_in_spec z env w s x h
    exact ⟨this.1, this.2.1, this.2.2.1⟩⟩

/-- `downcast::<T>`: for every target `t`, `Ok` carrying the same value when the concrete type's tag
is `t`, otherwise `Err` carrying the same box back; never a drop, never a copy. -/
theorem downcast (z : Bool) (env : Env) (w : W) (s tag t : Nat) (c : Cell) (h : w.slots[s]? = some (.any tag c)) :
    OnlySlot w (step z env (.downcast s t) w) s (if tag = t then .box t c else .any tag c) [] [] ∧
    (effOf z (.downcast s t) w).2 = (if tag = t then "Ok" else "Err") :=
  ⟨(downcast_spec z env w s tag t c h).1, (downcast_spec z env w s tag t c h).2.1⟩

/-- boxed array ⇄ boxed slice ⇄ arena `Vec`: the element sequence (order, ids, contents) is preserved,
no destructor runs, nothing is read out; `TryFrom` with the wrong length gives the same boxed slice back. -/
theorem conversions_preserve_sequence (z : Bool) (env : Env) (w : W) (s : Nat) (cs : List Cell) :
    (∀ cap, w.slots[s]? = some (.arr cs cap) → OnlySlot w (step z env (.arrToSlice s) w) s (.slice cs cap) [] []) ∧
    (∀ cap n, w.slots[s]? = some (.slice cs cap) → n ≤ 4 →
      OnlySlot w (step z env (.sliceToArr s n) w) s (if cs.length = n then .arr cs cap else .slice cs cap) [] [] ∧
      (effOf z (.sliceToArr s n) w).2 = (if cs.length = n then "Ok" else "Err")) ∧
    (∀ cap, w.slots[s]? = some (.vec cs cap) →
      OnlySlotV w (step z env (.intoBoxedSlice s) w) s (.slice cs (some cap)) [] [] ∧
      OnlySlotV w (step z env (.fromVec s) w) s (.slice cs (some cap)) [] []) ∧
    (∀ cap, w.slots[s]? = some (.slice cs cap) →
      OnlySlot w (step false env (.sliceToVec s) w) s (.vec cs cs.length) [] []) :=
  ⟨fun cap h => (arr_to_slice_spec z env w s cs cap h).1,
   fun cap n h hn => ⟨(slice_to_arr_spec z env w s n cs cap h hn).1, (slice_to_arr_spec z env w s n cs cap h hn).2.1⟩,
   fun cap h => into_boxed_slice_spec z env w s cs cap h,
   fun cap h => slice_to_vec_spec env w s cs cap h⟩

/-- `Box::from_iter_in`: the items in iteration order, each with a fresh id, nothing dropped -/
theorem from_iter_in_order (z : Bool) (env : Env) (w : W) (s : Nat) (xs : List Nat) (h : w.slots[s]? = some .empty) :
    let w' := step z env (.fromIter s xs) w
    w'.slots = w.slots.set s (.slice (mkCells w.nextId xs) none) ∧ (mkCells w.nextId xs).map (·.val) = xs ∧
    (mkCells w.nextId xs).map (·.id) = List.range' w.nextId xs.length ∧ w'.drops = w.drops ∧ w'.moved = w.moved :=
  from_iter_spec z env w s xs h

/-- `Box` never releases (or acquires) arena memory: every operation other than a constructor
(`Bump::alloc`), the `Vec` methods `into_boxed_slice` / `From<Vec>` and dropping an arena `Vec` (RawVec's dealloc) leaves `allocated_bytes`, the chunk
count and the bytes in use unchanged and causes no allocator event. -/
theorem arena_untouched (z : Bool) (env : Env) (op : Op) (w : W) (h1 : op.entersArena = false)
    (h2 : ∀ s pa, op = .drop s pa → ∀ cs cap, w.slots[s]? ≠ some (.vec cs cap)) :
    (step z env op w).acct = w.acct ∧ evtOf env (effOf z op w).1 = 0 :=
  box_ops_leave_arena_alone z env op w h1 h2

/-- destructors run only inside `drop`; values are read out (`ptr::read`) only by `into_inner` -/
theorem only_drop_drops (z : Bool) (env : Env) (op : Op) (w : W) :
    ((∀ s pa, op ≠ .drop s pa) → (step z env op w).drops = w.drops) ∧
    ((∀ s, op ≠ .intoInner s) → (step z env op w).moved = w.moved) :=
  ⟨drops_only_by_drop z env op w, moved_only_by_into_inner z env op w⟩

/-- at the end of the program the remaining owners are dropped; what escaped through `into_raw` or was
leaked is not: its destructor never runs -/
theorem end_drops_owned_only (w : W) : endDrops w = w.owned := rfl

/-- The delegating impls (`PartialEq`, `PartialOrd`, `Ord`, `Hash`, `Debug`, `Display`, `Iterator`,
`Future`, `AsRef`, `Borrow`) are *defined* in the model as the pointee's answer — this is a
definition, not a theorem about the crate; its assurance is the differential run against std
(sampled, not proved). -/
theorem delegation_is_definitional (z : Bool) (w : W) (a b : Nat) (p q : Cell)
    (ha : w.slots[a]? = some (.box 0 p)) (hb : w.slots[b]? = some (.box 0 q)) :
    (effOf z (.cmp a b) w).2 = cmpText (cmpList [p.val] [q.val]) := by
  simp [effOf, ha, hb]

/-- **The source delegates.** Every method of every impl through which a `Box` must behave as its
pointee (39 methods of 17 trait impls, regenerated from `src/boxed.rs` on every run) is literally a
forward to the pointee: same trait, same method, every parameter passed through unchanged and in
order, result returned as is.  A `Box` therefore compares / hashes / formats / iterates / polls
exactly as `**self` does, whatever the pointee's impls are. -/
theorem delegating_impls_forward : ∀ e ∈ Gen.boxImpls, e.forwards = true := by decide

/-- the table is the one the property needs: all seventeen impls are present with their methods -/
theorem delegating_impls_complete : Gen.boxImplCount = 39 ∧ Gen.boxImpls.length = Gen.boxImplCount ∧
    Gen.boxImplForwarding = Gen.boxImplCount := by decide

/-- the hypotheses above are satisfiable: a one-variable program reaching a `Box` -/
example : (step false ⟨⟨448, 1, 16⟩, 1⟩ (.new 0 5 0) (W.init 1)).slots[0]? = some (.box 0 ⟨1, 5⟩) := by decide
example : Reachable false (step false ⟨⟨448, 1, 16⟩, 1⟩ (.new 0 5 0) (W.init 1)) := ⟨1, [(⟨⟨448, 1, 16⟩, 1⟩, .new 0 5 0)], rfl⟩

end Bump.C17

#print axioms Bump.C17.own_all_programs
#print axioms Bump.C17.five_classes
#print axioms Bump.C17.never_dropped_twice
#print axioms Bump.C17.escaped_and_leaked_not_dropped
#print axioms Bump.C17.box_drop
#print axioms Bump.C17.slice_drop_with_panicking_destructor
#print axioms Bump.C17.arr_drop
#print axioms Bump.C17.transfers_run_no_destructor
#print axioms Bump.C17.slice_transfers_run_no_destructor
#print axioms Bump.C17.raw_round_trip
#print axioms Bump.C17.pinning
#print axioms Bump.C17.downcast
#print axioms Bump.C17.conversions_preserve_sequence
#print axioms Bump.C17.from_iter_in_order
#print axioms Bump.C17.arena_untouched
#print axioms Bump.C17.only_drop_drops
#print axioms Bump.C17.end_drops_owned_only
#print axioms Bump.C17.delegation_is_definitional
#print axioms Bump.C17.delegating_impls_forward
#print axioms Bump.C17.delegating_impls_complete
