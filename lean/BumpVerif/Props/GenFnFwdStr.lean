import BumpVerif.Gen.FnFwdStr
/-!
# The functions of string.rs and str/lossy.rs that no body translator covers, pinned

One code per function, in source order: `0` a view of `self`, `1` a literal forward (the same method / trait function / comparison
operator on views of `self` and the parameters), otherwise `10 +` a fingerprint of the function's text.  The hand models and the
harness oracles for these functions were validated against exactly this: a forward that stops being one, any edit of one of the
other functions, or a function that appears or disappears changes the regenerated list and this obligation fails (the check then
looks for a failing input with the side-by-side runs).  Update the list by hand, after re-validating, when the source changes
legitimately.
-/
namespace Bump

theorem fwd_str_pinned : Gen.Fn.fwd_str = [
  481737303 /- string.rs: impl<'bump> String<'bump> :: from_utf8 (unparsed) -/,
  4272021159 /- string.rs: impl<'bump> String<'bump> :: from_raw_parts_in (other) -/,
  355883020 /- string.rs: impl<'bump> String<'bump> :: from_utf8_unchecked (other) -/,
  1 /- string.rs: impl<'bump> String<'bump> :: bump (forward) -/,
  0 /- string.rs: impl<'bump> String<'bump> :: into_bytes (view) -/,
  2028826314 /- string.rs: impl<'bump> String<'bump> :: into_bump_str (other) -/,
  0 /- string.rs: impl<'bump> String<'bump> :: as_str (view) -/,
  0 /- string.rs: impl<'bump> String<'bump> :: as_mut_str (view) -/,
  0 /- string.rs: impl<'bump> String<'bump> :: as_bytes (view) -/,
  0 /- string.rs: impl<'bump> String<'bump> :: as_mut_vec (view) -/,
  454189273 /- string.rs: impl<'bump> FromUtf8Error<'bump> :: as_bytes (unparsed) -/,
  0 /- string.rs: impl<'bump> FromUtf8Error<'bump> :: into_bytes (view) -/,
  0 /- string.rs: impl<'bump> FromUtf8Error<'bump> :: utf8_error (view) -/,
  1 /- string.rs: impl<'bump> fmt::Display for FromUtf8Error<'bump> :: fmt (forward) -/,
  4204388141 /- string.rs: impl fmt::Display for FromUtf16Error :: fmt (other) -/,
  2567001087 /- string.rs: impl<'bump> Clone for String<'bump> :: clone (other) -/,
  2147177668 /- string.rs: impl<'bump> PartialEq for String<'bump> :: eq (unparsed) -/,
  2191821729 /- string.rs: impl<'a, 'bump> PartialEq<$rhs> for $lhs :: eq (unparsed) -/,
  3964883078 /- string.rs: impl<'a, 'b, 'bump> PartialEq<$lhs> for $rhs :: eq (unparsed) -/,
  1 /- string.rs: impl<'bump> fmt::Display for String<'bump> :: fmt (forward) -/,
  1 /- string.rs: impl<'bump> fmt::Debug for String<'bump> :: fmt (forward) -/,
  1 /- string.rs: impl<'bump> hash::Hash for String<'bump> :: hash (forward) -/,
  290256634 /- string.rs: impl<'bump> ops::Index<ops::Range<usize>> for String<'bump> :: index (unparsed) -/,
  1773147683 /- string.rs: impl<'bump> ops::Index<ops::RangeTo<usize>> for String<'bump :: index (unparsed) -/,
  3191414408 /- string.rs: impl<'bump> ops::Index<ops::RangeFrom<usize>> for String<'bu :: index (unparsed) -/,
  1942480739 /- string.rs: impl<'bump> ops::Index<ops::RangeFull> for String<'bump> :: index (other) -/,
  1 /- string.rs: impl<'bump> ops::Index<ops::RangeInclusive<usize>> for Strin :: index (forward) -/,
  1 /- string.rs: impl<'bump> ops::Index<ops::RangeToInclusive<usize>> for Str :: index (forward) -/,
  3142968697 /- string.rs: impl<'bump> ops::IndexMut<ops::Range<usize>> for String<'bum :: index_mut (unparsed) -/,
  3825104295 /- string.rs: impl<'bump> ops::IndexMut<ops::RangeTo<usize>> for String<'b :: index_mut (unparsed) -/,
  2323860979 /- string.rs: impl<'bump> ops::IndexMut<ops::RangeFrom<usize>> for String< :: index_mut (unparsed) -/,
  1681054028 /- string.rs: impl<'bump> ops::IndexMut<ops::RangeFull> for String<'bump> :: index_mut (other) -/,
  1 /- string.rs: impl<'bump> ops::IndexMut<ops::RangeInclusive<usize>> for St :: index_mut (forward) -/,
  1 /- string.rs: impl<'bump> ops::IndexMut<ops::RangeToInclusive<usize>> for  :: index_mut (forward) -/,
  1284984291 /- string.rs: impl<'bump> ops::Deref for String<'bump> :: deref (other) -/,
  469483488 /- string.rs: impl<'bump> ops::DerefMut for String<'bump> :: deref_mut (other) -/,
  0 /- string.rs: impl<'bump> AsRef<str> for String<'bump> :: as_ref (view) -/,
  1042050335 /- string.rs: impl<'bump> AsRef<[u8]> for String<'bump> :: as_ref (other) -/,
  3332328943 /- string.rs: impl<'bump> Borrow<str> for String<'bump> :: borrow (unparsed) -/,
  425473765 /- string.rs: impl<'bump> BorrowMut<str> for String<'bump> :: borrow_mut (unparsed) -/,
  1756303031 /- string.rs: impl<'a, 'bump> fmt::Debug for Drain<'a, 'bump> :: fmt (other) -/,
  1 /- string.rs: impl<'a, 'bump> Iterator for Drain<'a, 'bump> :: next (forward) -/,
  1 /- string.rs: impl<'a, 'bump> Iterator for Drain<'a, 'bump> :: size_hint (forward) -/,
  1 /- string.rs: impl<'a, 'bump> DoubleEndedIterator for Drain<'a, 'bump> :: next_back (forward) -/,
  2940297657 /- string.rs: impl<'bump> Serialize for String<'bump> :: serialize (other) -/,
  2747961723 /- lossy.rs: impl<'a> Utf8Lossy<'a> :: from_bytes (other) -/,
  542246139 /- lossy.rs: impl<'a> Utf8Lossy<'a> :: chunks (other) -/,
  2975051709 /- lossy.rs: impl<'a> fmt::Display for Utf8Lossy<'a> :: fmt (other) -/,
  1714298337 /- lossy.rs: impl<'a> fmt::Debug for Utf8Lossy<'a> :: fmt (unparsed) -/] := rfl

#print axioms fwd_str_pinned

end Bump
