import BumpVerif.Gen.FnBox
/-!
# `src/boxed.rs` (and `Vec::into_boxed_slice`) as translated = the step sequences of `Model/Box.lean`

Each function of the model was written by hand as "the source's sequence of primitive steps" (disarm the handle, take
the pointer, read, end of scope); here the same sequences are regenerated from the source and proved equal to them, for
every injected destructor panic `pa` (a disarmed handle never runs a destructor, whatever `pa` is).
-/
namespace Bump.Bx
open Bump Bump.RsB

theorem scopeEnd_disarmed {β : Type} (pa : Option Nat) (f : Frame) (fx : Fx) (k : Fx → Fx × Outcome β) (h : f.disarmed = true) :
    RsB.scopeEnd pa f fx k = k fx := by
  simp [RsB.scopeEnd, Frame.scopeEnd, h]

theorem gen_box_into_raw (pa : Option Nat) (b : List Cell) (fx : Fx) :
    Gen.Fn.box_into_raw pa b fx = ((intoRaw b fx).2, .ok (intoRaw b fx).1) := by
  simp [Gen.Fn.box_into_raw, intoRaw, scopeEnd_disarmed, Frame.manuallyDrop, Frame.arg, Frame.scopeEnd]

theorem gen_box_from_raw (pa : Option Nat) (p : List Cell) (fx : Fx) :
    Gen.Fn.box_from_raw pa p fx = (fx, .ok (fromRaw p)) := rfl

theorem gen_box_into_inner (pa : Option Nat) (b : List Cell) (fx : Fx) :
    Gen.Fn.box_into_inner pa b fx = ((intoInner b fx).2, .ok (intoInner b fx).1) := by
  simp [Gen.Fn.box_into_inner, gen_box_into_raw, RsB.bind, intoInner, Frame.arg]

theorem gen_box_leak (pa : Option Nat) (b : List Cell) (fx : Fx) :
    Gen.Fn.box_leak pa b fx = ((leak b fx).2, .ok (leak b fx).1) := by
  simp [Gen.Fn.box_leak, gen_box_into_raw, RsB.bind, leak, Frame.arg]

/-- `impl Drop for Box`: the pointee's drop glue; `panic` = a destructor unwound -/
theorem gen_box_drop (pa : Option Nat) (b : List Cell) (fx : Fx) :
    Gen.Fn.box_drop pa b fx = ((boxDrop b pa fx).2, if (boxDrop b pa fx).1 then .panic else .ok ()) := by
  simp only [Gen.Fn.box_drop, boxDrop, Frame.scopeEnd, Frame.arg]
  cases h : (dropGlue pa b 0 false fx).1 <;> simp [h]

theorem gen_box_downcast (pa : Option Nat) (tag target : Nat) (b : List Cell) (fx : Fx) :
    Gen.Fn.box_downcast pa tag target b fx =
      ((downcast tag target b fx).2.2,
        .ok (if (downcast tag target b fx).1 then .ok (downcast tag target b fx).2.1 else .error (downcast tag target b fx).2.1)) := by
  unfold Gen.Fn.box_downcast downcast
  by_cases h : (tag == target) = true
  · simp [h, gen_box_into_raw, gen_box_from_raw, RsB.bind, Frame.arg]
  · simp [h, Frame.arg]

theorem gen_box_arr_to_slice (pa : Option Nat) (a : List Cell) (fx : Fx) :
    Gen.Fn.box_arr_to_slice pa a.length a fx = ((arrToSlice a fx).2, .ok (arrToSlice a fx).1) := by
  simp [Gen.Fn.box_arr_to_slice, arrToSlice, gen_box_from_raw, RsB.bind, scopeEnd_disarmed, Frame.manuallyDrop, Frame.arg, Frame.scopeEnd]

theorem gen_box_slice_to_arr (pa : Option Nat) (n : Nat) (s : List Cell) (fx : Fx) :
    Gen.Fn.box_slice_to_arr pa n s fx =
      ((sliceToArr n s fx).2.2,
        .ok (if (sliceToArr n s fx).1 then .ok (sliceToArr n s fx).2.1 else .error (sliceToArr n s fx).2.1)) := by
  unfold Gen.Fn.box_slice_to_arr sliceToArr
  by_cases h : (s.length == n) = true
  · simp [h, gen_box_from_raw, RsB.bind, scopeEnd_disarmed, Frame.manuallyDrop, Frame.arg, Frame.scopeEnd]
  · simp [h, Frame.arg]

theorem gen_vec_into_boxed_slice (pa : Option Nat) (v : List Cell) (fx : Fx) :
    Gen.Fn.vec_into_boxed_slice pa v fx = ((intoBoxedSlice v fx).2, .ok (intoBoxedSlice v fx).1) := by
  simp [Gen.Fn.vec_into_boxed_slice, intoBoxedSlice, gen_box_from_raw, RsB.bind, scopeEnd_disarmed, Frame.manuallyDrop, Frame.arg, Frame.scopeEnd]

/-- `Box<dyn Any + Send>::downcast` is the same function as the `dyn Any` one: a failed downcast hands the same box back
(nothing dropped, nothing moved), a successful one re-wraps the same cells -/
theorem gen_box_downcast_send (pa : Option Nat) (tag target : Nat) (b : List Cell) (fx : Fx) :
    Gen.Fn.box_downcast_send pa tag target b fx = Gen.Fn.box_downcast pa tag target b fx := rfl

theorem gen_box_downcast_send_model (pa : Option Nat) (tag target : Nat) (b : List Cell) (fx : Fx) :
    Gen.Fn.box_downcast_send pa tag target b fx =
      ((downcast tag target b fx).2.2,
        .ok (if (downcast tag target b fx).1 then .ok (downcast tag target b fx).2.1 else .error (downcast tag target b fx).2.1)) := by
  rw [gen_box_downcast_send, gen_box_downcast]

/-- `Pin::from(box)`: the same box, no effect -/
theorem gen_box_pin_from (pa : Option Nat) (b : List Cell) (fx : Fx) :
    Gen.Fn.box_pin_from pa b fx = (fx, .ok b) := rfl

/-- `Box::new_in(x, a)`: the box owns exactly `x`; no destructor ran and nothing was moved out -/
theorem gen_box_new_in (pa : Option Nat) (x : List Cell) (fx : Fx) :
    Gen.Fn.box_new_in pa x fx = (fx, .ok x) := rfl

theorem gen_box_pin_in (pa : Option Nat) (x : List Cell) (fx : Fx) :
    Gen.Fn.box_pin_in pa x fx = (fx, .ok x) := rfl

theorem gen_box_from_iter_in (pa : Option Nat) (items : List Cell) (fx : Fx) :
    Gen.Fn.box_from_iter_in pa items fx = ((fromIterIn items fx).2, .ok (fromIterIn items fx).1) := by
  simp [Gen.Fn.box_from_iter_in, fromIterIn, gen_vec_into_boxed_slice, RsB.bind, RsB.vecExtend, Frame.arg]

/-- `From<Vec<T>> for Box<[T]>` is `into_boxed_slice`: the box owns exactly the vector's elements; nothing is dropped -/
theorem gen_vec_into_box_from (pa : Option Nat) (v : List Cell) (fx : Fx) :
    Gen.Fn.vec_into_box_from pa v fx = ((intoBoxedSlice v fx).2, .ok (intoBoxedSlice v fx).1) := by
  simp [Gen.Fn.vec_into_box_from, gen_vec_into_boxed_slice, RsB.bind, Frame.arg]

/-- `Vec::into_bump_slice`: the arena's slice is exactly the vector's elements, no destructor runs and nothing is moved
out (`mem::forget(self)`): the elements now live as long as the arena and are never dropped -/
theorem gen_vec_into_bump_slice (pa : Option Nat) (v : List Cell) (fx : Fx) :
    Gen.Fn.vec_into_bump_slice pa v fx = (fx, .ok v) := by
  simp [Gen.Fn.vec_into_bump_slice, scopeEnd_disarmed, Frame.manuallyDrop, Frame.arg]

theorem gen_vec_into_bump_slice_mut (pa : Option Nat) (v : List Cell) (fx : Fx) :
    Gen.Fn.vec_into_bump_slice_mut pa v fx = (fx, .ok v) := by
  simp [Gen.Fn.vec_into_bump_slice_mut, scopeEnd_disarmed, Frame.manuallyDrop, Frame.arg]

/-- `Drop for Vec`: the drop glue of the `len` initialised elements, front to back — what the model's frame does when a
vector handle goes out of scope armed -/
theorem gen_vec_drop (pa : Option Nat) (v : List Cell) (fx : Fx) :
    Gen.Fn.vec_drop pa v fx = ((boxDrop v pa fx).2, if (boxDrop v pa fx).1 then .panic else .ok ()) := by
  simp only [Gen.Fn.vec_drop, boxDrop, Frame.scopeEnd, Frame.arg, List.take_length]
  cases h : (dropGlue pa v 0 false fx).1 <;> simp [h]

#print axioms gen_vec_into_box_from
#print axioms gen_vec_into_bump_slice
#print axioms gen_vec_into_bump_slice_mut
#print axioms gen_vec_drop
#print axioms gen_box_downcast_send_model
#print axioms gen_box_pin_from
#print axioms gen_box_new_in
#print axioms gen_box_pin_in
#print axioms gen_box_from_iter_in
#print axioms gen_box_into_raw
#print axioms gen_box_from_raw
#print axioms gen_box_into_inner
#print axioms gen_box_leak
#print axioms gen_box_drop
#print axioms gen_box_downcast
#print axioms gen_box_arr_to_slice
#print axioms gen_box_slice_to_arr
#print axioms gen_vec_into_boxed_slice

end Bump.Bx
