import BumpVerif.Gen.FnStr
import BumpVerif.Proofs.StrUtf8
/-!
# `src/collections/string.rs` as translated = the byte-list model (`Model/Str.lean`)

A string enters a method as `(b, b.length)` (buffer = text; capacity beyond `len` is not modelled) and is read back as
`RsS.text`.  `≈` below is equality of outcomes up to the text of a `bad` diagnosis.
-/
namespace Bump.Str
open Bump Bump.RsS

/-- the result of a method: the text afterwards and the value returned -/
def fin {α : Type} (r : SB × Outcome α) : Outcome (Bytes × α) :=
  match r with
  | (s, .ok a) => .ok (text s, a)
  | (_, .err) => .err
  | (_, .panic) => .panic
  | (_, .bad w) => .bad w
  | (_, .envBad) => .envBad

def finU (r : SB × Outcome Unit) : Outcome Bytes :=
  match r with
  | (s, .ok _) => .ok (text s)
  | (_, .err) => .err
  | (_, .panic) => .panic
  | (_, .bad w) => .bad w
  | (_, .envBad) => .envBad

/-- equal up to the text of `bad` -/
def osim {α : Type} : Outcome α → Outcome α → Prop
  | .bad _, .bad _ => True
  | a, b => a = b

theorem osim_refl {α : Type} (a : Outcome α) : osim a a := by cases a <;> simp [osim]

@[simp] theorem text_full (b : Bytes) : text (b, b.length) = b := List.take_length

theorem take_all {l : Bytes} {n : Nat} (h : l.length ≤ n) : l.take n = l := List.take_of_length_le h

theorem encChar_len_pos (c : Char) : 1 ≤ (encChar c).length := by
  by_cases h1 : c.toNat ≤ 0x7f
  · rw [encChar_1 c h1]; simp
  · by_cases h2 : c.toNat ≤ 0x7ff
    · rw [encChar_2 c (by omega) h2]; simp
    · by_cases h3 : c.toNat ≤ 0xffff
      · rw [encChar_3 c (by omega) h3]; simp
      · rw [encChar_4 c (by omega)]; simp

theorem encChar_len_one (c : Char) (h : (encChar c).length = 1) : encChar c = [c.toNat.toUInt8] := by
  by_cases h1 : c.toNat ≤ 0x7f
  · rw [encChar_1 c h1]
  · exfalso
    by_cases h2 : c.toNat ≤ 0x7ff
    · rw [encChar_2 c (by omega) h2] at h; simp at h
    · by_cases h3 : c.toNat ≤ 0xffff
      · rw [encChar_3 c (by omega) h3] at h; simp at h
      · rw [encChar_4 c (by omega)] at h; simp at h

theorem gen_str_len (b : Bytes) : Gen.Fn.str_len (b, b.length) = ((b, b.length), .ok b.length) := rfl

theorem gen_str_is_empty (b : Bytes) : Gen.Fn.str_is_empty (b, b.length) = ((b, b.length), .ok (b.length == 0)) := rfl

/-- `String::push` (both arms) appends the character's encoding -/
theorem gen_str_push (b : Bytes) (c : Char) : finU (Gen.Fn.str_push c (b, b.length)) = .ok (push b c) := by
  unfold Gen.Fn.str_push push
  simp only []
  cases hb : ((encChar c).length == 1) with
  | false =>
    simp [RsS.extend, RsS.bind, finU, text]
    exact take_all (by simp [Char.utf8Size])
  | true =>
    have h : (encChar c).length = 1 := by simpa using hb
    simp [RsS.push, RsS.bind, finU, text, encChar_len_one c h]
    exact take_all (by simp)

theorem gen_str_push_str (b t : Bytes) : finU (Gen.Fn.str_push_str t (b, b.length)) = .ok (pushStr b t) := by
  simp [Gen.Fn.str_push_str, pushStr, RsS.extend, RsS.bind, finU, text]
  exact take_all (by simp)

theorem gen_str_clear (b : Bytes) : finU (Gen.Fn.str_clear (b, b.length)) = .ok (clear b) := by
  simp [Gen.Fn.str_clear, clear, RsS.truncate, RsS.bind, finU, text]

theorem gen_str_truncate (b : Bytes) (n : Nat) : finU (Gen.Fn.str_truncate n (b, b.length)) = truncate b n := by
  unfold Gen.Fn.str_truncate truncate
  by_cases h : n ≤ b.length
  · by_cases hb : isCharBoundary b n = true
    · simp [h, hb, RsS.truncate, RsS.bind, finU, text]
    · have hb' : isCharBoundary b n = false := by simpa using hb
      simp [h, hb', finU]
  · simp [h, finU]

/-- `String::pop` -/
theorem gen_str_pop (b : Bytes) :
    osim (match fin (Gen.Fn.str_pop (b, b.length)) with
          | .ok (t, r) => .ok (t, r.map Prod.fst) | .err => .err | .panic => .panic | .bad w => .bad w | .envBad => .envBad)
         (pop b) := by
  unfold Gen.Fn.str_pop pop RsS.last_char
  simp only [text_full]
  by_cases he : b = []
  · subst he; simp [RsS.bind, fin, osim, text]
  · simp only [he, if_false]
    cases hd : decodeHead (b.drop (lastStart b)) with
    | none => simp [RsS.bind, fin, osim]
    | some p =>
      obtain ⟨ch, n⟩ := p
      simp only []
      by_cases hj : lastStart b + n = b.length
      · have hn : n ≤ b.length := by omega
        simp [hj, RsS.bind, hn, RsS.set_len, fin, osim, text]
      · simp [hj, RsS.bind, fin, osim]

/-- `String::remove` -/
theorem gen_str_remove (b : Bytes) (idx : Nat) :
    osim (match fin (Gen.Fn.str_remove idx (b, b.length)) with
          | .ok (t, r) => .ok (t, r.1) | .err => .err | .panic => .panic | .bad w => .bad w | .envBad => .envBad)
         (remove b idx) := by
  unfold Gen.Fn.str_remove remove RsS.char_at
  simp only [text_full]
  by_cases hb : isCharBoundary b idx = true
  · simp only [hb, Bool.not_true, Bool.false_eq_true, if_false]
    cases hd : decodeHead (b.drop idx) with
    | none =>
      by_cases hi : idx = b.length <;> simp [hi, RsS.bind, fin, osim]
    | some p =>
      obtain ⟨ch, n⟩ := p
      simp only [RsS.bind]
      by_cases hn : idx + n > b.length
      · have : ¬ idx + n ≤ b.length := by omega
        simp [hn, this, fin, osim]
      · have h1 : idx + n ≤ b.length := by omega
        have h2 : idx ≤ idx + n := by omega
        have h3 : idx + n - idx ≤ b.length := by omega
        have h4 : n ≤ b.length := by omega
        simp [hn, h1, h3, h4, RsS.copy_within, RsS.set_len, RsS.bind, fin, osim, text]
  · have hb' : isCharBoundary b idx = false := by simpa using hb
    simp [hb', RsS.bind, fin, osim]

/-- `String::insert_bytes` (the caller has asserted `idx` is a char boundary, in particular `idx ≤ len`) -/
theorem gen_str_insert_bytes (b : Bytes) (idx : Nat) (bytes : Bytes) (h : idx ≤ b.length) :
    finU (Gen.Fn.str_insert_bytes idx bytes (b, b.length)) = .ok (insertBytes b idx bytes) := by
  simp [Gen.Fn.str_insert_bytes, insertBytes, RsS.reserve, RsS.copy_within, RsS.copy_in, RsS.set_len, RsS.bind, finU, text, h]

theorem isCharBoundary_le {b : Bytes} {i : Nat} (h : isCharBoundary b i = true) : i ≤ b.length := by
  unfold isCharBoundary at h
  by_cases h0 : i = 0
  · omega
  · by_cases h1 : i ≥ b.length
    · simp [h0, h1] at h; omega
    · omega

theorem gen_str_insert (b : Bytes) (idx : Nat) (c : Char) : finU (Gen.Fn.str_insert idx c (b, b.length)) = insert b idx c := by
  unfold Gen.Fn.str_insert insert
  by_cases hb : isCharBoundary b idx = true
  · have := gen_str_insert_bytes b idx (encChar c) (isCharBoundary_le hb)
    simp only [text_full, hb, if_true]
    generalize Gen.Fn.str_insert_bytes idx (encChar c) (b, b.length) = r at this ⊢
    obtain ⟨s, o⟩ := r
    cases o <;> simp_all [finU, RsS.bind]
  · have hb' : isCharBoundary b idx = false := by simpa using hb
    simp [hb', finU]

theorem gen_str_insert_str (b : Bytes) (idx : Nat) (t : Bytes) : finU (Gen.Fn.str_insert_str idx t (b, b.length)) = insertStr b idx t := by
  unfold Gen.Fn.str_insert_str insertStr
  by_cases hb : isCharBoundary b idx = true
  · have := gen_str_insert_bytes b idx t (isCharBoundary_le hb)
    simp only [text_full, hb, if_true]
    generalize Gen.Fn.str_insert_bytes idx t (b, b.length) = r at this ⊢
    obtain ⟨s, o⟩ := r
    cases o <;> simp_all [finU, RsS.bind]
  · have hb' : isCharBoundary b idx = false := by simpa using hb
    simp [hb', finU]

theorem gen_str_split_off (b : Bytes) (at_ : Nat) : fin (Gen.Fn.str_split_off at_ (b, b.length)) = splitOff b at_ := by
  unfold Gen.Fn.str_split_off splitOff
  by_cases hb : isCharBoundary b at_ = true
  · have hle := isCharBoundary_le hb
    simp [hb, hle, RsS.split_off, RsS.bind, fin, text]
  · have hb' : isCharBoundary b at_ = false := by simpa using hb
    simp [hb', fin]

/-! ## `retain` (with its `SetLenOnDrop` guard) -/

/-- what a caller can see of `retain`: the text afterwards and whether the closure's panic unwound out of it -/
def retView (r : SB × Outcome Unit) : Outcome (Bytes × Bool) :=
  match r with
  | (s, .ok _) => .ok (text s, false)
  | (s, .panic) => .ok (text s, true)
  | (_, .bad w) => .bad w
  | (_, .err) => .err
  | (_, .envBad) => .envBad

def retOut (r : Outcome RetainOut) : Outcome (Bytes × Bool) :=
  match r with
  | .ok o => .ok (o.bytes, o.panicked)
  | .panic => .panic
  | .bad w => .bad w
  | .err => .err
  | .envBad => .envBad

theorem copyWithin_len (b : Bytes) (src dst n : Nat) (h1 : src + n ≤ b.length) (h2 : dst + n ≤ b.length) :
    (copyWithin b src dst n).length = b.length := by
  unfold copyWithin
  simp only [List.length_append, List.length_take, List.length_drop]
  omega

theorem gen_guard_drop (buf : Bytes) (len idx del : Nat) (h1 : del ≤ idx) (h2 : idx - del ≤ len) :
    Gen.Fn.str_retain_guard_drop idx del (buf, len) = ((buf, idx - del), .ok ()) := by
  simp [Gen.Fn.str_retain_guard_drop, h1, h2, RsS.set_len, RsS.bind]

theorem retainLoop_succ (ans : Nat → Bool) (panicAt : Option Nat) (len fuel : Nat) (st : RetainSt) :
    retainLoop true ans panicAt len (fuel + 1) st =
      if st.idx < len then
        match decodeHead (st.buf.drop st.idx) with
        | none => .bad "retain: text is not UTF-8"
        | some (_, chLen) =>
          if st.idx + chLen > len then .bad "retain: char runs past len" else
          if panicAt = some st.calls then .ok ⟨st.buf.take (st.idx - st.del), true, st.calls + 1⟩
          else if !(ans st.calls) then
            retainLoop true ans panicAt len fuel { st with del := st.del + chLen, idx := st.idx + chLen, calls := st.calls + 1 }
          else if st.del > 0 then
            retainLoop true ans panicAt len fuel
              { buf := copyWithin st.buf st.idx (st.idx - st.del) chLen, idx := st.idx + chLen, del := st.del, calls := st.calls + 1 }
          else retainLoop true ans panicAt len fuel { st with idx := st.idx + chLen, calls := st.calls + 1 }
      else .ok ⟨if st.del > 0 then st.buf.take (len - st.del) else st.buf, false, st.calls⟩ := by
  conv => lhs; unfold retainLoop
  simp only [if_true]
  by_cases h : st.idx < len
  · simp only [h, if_true]
    cases decodeHead (st.buf.drop st.idx) with
    | none => rfl
    | some p => obtain ⟨c, n⟩ := p; rfl
  · simp only [h, if_false]

theorem gen_retain_loop (ans : Nat → Bool) (panicAt : Option Nat) (len : Nat) :
    ∀ (fuel : Nat) (buf : Bytes) (idx del calls : Nat), buf.length = len → del ≤ idx → idx ≤ len → len - idx < fuel →
      osim (retView (Gen.Fn.str_retain.loop ans panicAt len fuel calls del idx (buf, len)))
           (retOut (retainLoop true ans panicAt len fuel ⟨buf, idx, del, calls⟩)) := by
  intro fuel
  induction fuel with
  | zero => intro buf idx del calls _ _ _ h; omega
  | succ fuel ih =>
    intro buf idx del calls hlen hdi hil hf
    rw [retainLoop_succ]
    unfold Gen.Fn.str_retain.loop
    simp only []
    by_cases hlt : idx < len
    · have hd : decide (idx < len) = true := by simpa using hlt
      simp only [hd, if_true, hlt, RsS.char_unchecked]
      cases hdh : decodeHead (buf.drop idx) with
      | none => simp [RsS.bind, retView, retOut, osim]
      | some p =>
        obtain ⟨ch, n⟩ := p
        have hn1 : 1 ≤ n := by
          have := (decodeHead_some hdh).2
          rw [this]; exact encChar_len_pos ch
        simp only []
        by_cases hpast : idx + n > len
        · simp [hpast, RsS.bind, retView, retOut, osim]
        · have hle : idx + n ≤ len := by omega
          simp only [hpast, if_false, RsS.bind]
          by_cases hp : panicAt = some calls
          · simp only [hp, if_true]
            rw [gen_guard_drop buf len idx del hdi (by omega)]
            simp [RsS.stateOf, retView, retOut, osim, text]
          · simp only [hp, if_false]
            cases ha : ans calls with
            | false =>
              simp only [Bool.not_false, if_true]
              exact ih buf (idx + n) (del + n) (calls + 1) hlen (by omega) hle (by omega)
            | true =>
              simp only [Bool.not_true, Bool.false_eq_true, if_false]
              by_cases hdel : del > 0
              · have hdd : decide (del > 0) = true := by simpa using hdel
                simp only [hdd, if_true, hdel, hdi, RsS.copy_within, RsS.bind]
                exact ih (copyWithin buf idx (idx - del) n) (idx + n) del (calls + 1)
                  (by rw [copyWithin_len buf idx (idx - del) n (by omega) (by omega)]; exact hlen) (by omega) hle (by omega)
              · have hdd : decide (del > 0) = false := by simpa using hdel
                simp only [hdd, Bool.false_eq_true, if_false, hdel]
                exact ih buf (idx + n) del (calls + 1) hlen (by omega) hle (by omega)
    · have hd : decide (idx < len) = false := by simpa using hlt
      have hidx : idx = len := by omega
      simp only [hd, Bool.false_eq_true, if_false, hlt]
      rw [gen_guard_drop buf len idx del hdi (by omega)]
      subst hidx
      by_cases hdel : del > 0
      · simp [RsS.bind, retView, retOut, osim, text, hdel]
      · have : del = 0 := by omega
        subst this
        simp [RsS.bind, retView, retOut, osim, text]
        exact take_all (by omega)

/-- `String::retain` as translated is the model's `retainWith true` (the version with the unwind guard) -/
theorem gen_str_retain (b : Bytes) (ans : Nat → Bool) (panicAt : Option Nat) :
    osim (retView (Gen.Fn.str_retain ans panicAt (b, b.length))) (retOut (retainWith true b ans panicAt)) := by
  unfold Gen.Fn.str_retain retainWith
  exact gen_retain_loop ans panicAt b.length (b.length + 1) b 0 0 0 rfl (by omega) (by omega) (by omega)

/-! ## `drain` and `Drop for Drain` -/

/-- `String::drain(range)`: the bounds (`n + 1` checked), then the slicing check of `self[start..end]` -/
theorem gen_str_drain (b : Bytes) (sb eb : Bd) :
    Gen.Fn.str_drain (sb, eb) (b, b.length) =
      match rangeStart true sb with
      | .ok st =>
        (match rangeEnd true b.length eb with
         | .ok en => if sliceOk b st en then ((b, b.length), .ok (st, en)) else ((b, b.length), .panic)
         | _ => ((b, b.length), .panic))
      | _ => ((b, b.length), .panic) := by
  have hs : ∀ st en : Nat, RsS.bind (RsS.slice_check st en (b, b.length)) (fun s _ => (s, Outcome.ok (st, en))) =
      if sliceOk b st en then ((b, b.length), .ok (st, en)) else ((b, b.length), .panic) := by
    intro st en
    by_cases h : sliceOk b st en = true <;> simp [RsS.slice_check, RsS.bind, h]
  unfold Gen.Fn.str_drain
  cases sb with
  | unbounded =>
    cases eb with
    | unbounded => simp only [rangeStart, rangeEnd, hs]
    | incl m =>
      simp only [rangeStart, rangeEnd, addOne, checkedAdd]
      by_cases h : m + 1 < USIZE
      · simp only [h, if_true, hs]
      · simp [h]
    | excl m => simp only [rangeStart, rangeEnd, hs]
  | incl n =>
    cases eb with
    | unbounded => simp only [rangeStart, rangeEnd, hs]
    | incl m =>
      simp only [rangeStart, rangeEnd, addOne, checkedAdd]
      by_cases h : m + 1 < USIZE
      · simp only [h, if_true, hs]
      · simp [h]
    | excl m => simp only [rangeStart, rangeEnd, hs]
  | excl n =>
    simp only [rangeStart, addOne, checkedAdd]
    by_cases hn : n + 1 < USIZE
    · simp only [hn, if_true]
      cases eb with
      | unbounded => simp only [rangeEnd, hs]
      | incl m =>
        simp only [rangeEnd, addOne, checkedAdd]
        by_cases h : m + 1 < USIZE
        · simp only [h, if_true, hs]
        · simp [h]
      | excl m => simp only [rangeEnd, hs]
    · simp [hn]

/-- `Drop for Drain`: the range is removed through `Vec::drain` when it is (still) inside the string -/
theorem gen_str_drain_drop (b : Bytes) (st en : Nat) :
    finU (Gen.Fn.str_drain_drop st en (b, b.length)) = .ok (if st ≤ en ∧ en ≤ b.length then b.take st ++ b.drop en else b) := by
  unfold Gen.Fn.str_drain_drop
  by_cases h : st ≤ en ∧ en ≤ b.length
  · have hd : (decide (st ≤ en) && decide (en ≤ b.length)) = true := by simp [h.1, h.2]
    rw [if_pos hd, if_pos h]
    have hv : RsS.vec_drain st en (b, b.length) = ((b.take st ++ b.drop en, b.length - (en - st)), .ok ()) := by
      simp [RsS.vec_drain, h, text]
    simp only [hv, RsS.bind, finU, text]
    congr 1
    apply take_all
    simp only [List.length_append, List.length_take, List.length_drop]
    omega
  · have hd : (decide (st ≤ en) && decide (en ≤ b.length)) = false := by
      simp only [Bool.and_eq_false_iff, decide_eq_false_iff_not]
      by_cases h1 : st ≤ en
      · right; intro h2; exact h ⟨h1, h2⟩
      · left; exact h1
    rw [hd, if_neg h]
    simp [finU]

/-- … and of the model's `retain`, whose guard flag is regenerated from the source -/
theorem gen_str_retain_model (b : Bytes) (ans : Nat → Bool) (panicAt : Option Nat) (hflag : Gen.STR_RETAIN_GUARD = 1) :
    osim (retView (Gen.Fn.str_retain ans panicAt (b, b.length))) (retOut (retain b ans panicAt)) := by
  have : retain b ans panicAt = retainWith true b ans panicAt := by simp [retain, hflag]
  rw [this]; exact gen_str_retain b ans panicAt

/-! ## `replace_range` -/

theorem finU_ite (c : Bool) (x : SB × Outcome Unit) (s : SB) :
    finU (if c = true then x else (s, Outcome.panic)) = if c = true then finU x else .panic := by
  cases c <;> rfl

theorem splice_fin (ovf : Bool) (b : Bytes) (sb eb : Bd) (t : Bytes) :
    finU (RsS.bind (RsS.vec_splice ovf (sb, eb) t (b, b.length)) fun s _ => (s, Outcome.ok ())) =
      spliceBytes (vecDrainOvf ovf) b sb eb t := by
  unfold RsS.vec_splice
  simp only [text_full]
  have hsb : ∀ r, spliceBytes (vecDrainOvf ovf) b sb eb t = r → (r = .panic ∨ ∃ x, r = .ok x) := by
    intro r hr
    subst hr
    unfold spliceBytes
    cases rangeStart (vecDrainOvf ovf) sb <;> simp
    cases rangeEnd (vecDrainOvf ovf) b.length eb <;> simp
    split <;> simp
    omega
  rcases hsb _ rfl with h | ⟨x, h⟩
  · rw [h]; rfl
  · rw [h]; simp [RsS.bind, finU, text]

theorem replace_end (b : Bytes) (eb : Bd) (X : SB × Outcome Unit) (R : Outcome Bytes) (hs : finU X = R) (s0 : SB) :
    finU (match eb with
        | .incl n => (match checkedAdd n 1 with
          | some x => (if isCharBoundary b x = true then X else (s0, Outcome.panic))
          | none => (s0, Outcome.panic))
        | .excl n => (if isCharBoundary b n = true then X else (s0, Outcome.panic))
        | .unbounded => X) =
      (match endAssert true b eb with
       | .ok () => R
       | _ => .panic) := by
  cases eb with
  | unbounded => simpa [endAssert] using hs
  | incl m =>
    simp only [endAssert, addOne, checkedAdd]
    by_cases h : m + 1 < USIZE
    · simp only [h, if_true, finU_ite, hs]
      by_cases hb : isCharBoundary b (m + 1) = true <;> simp [hb]
    · simp [h, finU]
  | excl m =>
    simp only [endAssert, finU_ite, hs]
    by_cases hb : isCharBoundary b m = true <;> simp [hb]

/-- `String::replace_range` as translated: both boundary assertions with a checked `n + 1`, then the splice of the byte
vector (whose own `n + 1` is `Vec::drain`'s) -/
theorem gen_str_replace_range (ovf : Bool) (b : Bytes) (sb eb : Bd) (t : Bytes) :
    finU (Gen.Fn.str_replace_range ovf (sb, eb) t (b, b.length)) = replaceRangeWith true (vecDrainOvf ovf) b sb eb t := by
  have hend := replace_end b eb _ _ (splice_fin ovf b sb eb t) (b, b.length)
  unfold Gen.Fn.str_replace_range replaceRangeWith
  simp only [text_full, List.take_length]
  cases sb with
  | unbounded => simp only [startAssert]; exact hend
  | incl n =>
    simp only [startAssert, finU_ite]
    by_cases hn : isCharBoundary b n = true
    · simp only [hn, if_true]; exact hend
    · simp [hn]
  | excl n =>
    simp only [startAssert, addOne, checkedAdd]
    by_cases hn1 : n + 1 < USIZE
    · simp only [hn1, if_true, finU_ite]
      by_cases hn : isCharBoundary b (n + 1) = true
      · simp only [hn, if_true]; exact hend
      · simp [hn]
    · simp [hn1, finU]

/-- … and of the model's `replaceRange`, whose "is `n + 1` checked" flag is regenerated from the source -/
theorem gen_str_replace_range_model (ovf : Bool) (b : Bytes) (sb eb : Bd) (t : Bytes) (hflag : Gen.STR_REPLACE_RANGE_END_CHECKED = 1) :
    finU (Gen.Fn.str_replace_range ovf (sb, eb) t (b, b.length)) = replaceRange ovf b sb eb t := by
  have : replaceOvf ovf = true := by simp [replaceOvf, hflag]
  rw [replaceRange, this]; exact gen_str_replace_range ovf b sb eb t

/-! ## loops over what an iterator yields: `Extend<char>`, `Extend<&str>`, `from_iter_in`; `from_str_in`; `+`, `+=`, `fmt::Write` -/

/-- a state whose `len` is inside its buffer -/
def WFS (s : SB) : Prop := s.2 ≤ s.1.length

theorem text_len {s : SB} (h : WFS s) : (text s).length = s.2 := by
  unfold text WFS at *; simp [List.length_take]; omega

theorem push_any (c : Char) (s : SB) :
    Gen.Fn.str_push c s = ((text s ++ encChar c, s.2 + (encChar c).length), .ok ()) := by
  unfold Gen.Fn.str_push
  simp only []
  cases hb : ((encChar c).length == 1) with
  | false => simp [RsS.extend, RsS.bind]
  | true =>
    have h : (encChar c).length = 1 := by simpa using hb
    simp [RsS.push, RsS.bind, encChar_len_one c h, h]

theorem push_str_any (t : Bytes) (s : SB) :
    Gen.Fn.str_push_str t s = ((text s ++ t, s.2 + t.length), .ok ()) := by
  simp [Gen.Fn.str_push_str, RsS.extend, RsS.bind]

theorem text_after {s : SB} (h : WFS s) (t : Bytes) : text (text s ++ t, s.2 + t.length) = text s ++ t ∧ WFS (text s ++ t, s.2 + t.length) := by
  have hl := text_len h
  constructor
  · unfold text; simp only []; apply take_all; simp; omega
  · unfold WFS; simp; omega

theorem extend_chars_loop (cs : List Char) : ∀ (s : SB), WFS s →
    ∃ s', Gen.Fn.str_extend_chars.loop cs s = (s', .ok ()) ∧ text s' = cs.foldl push (text s) ∧ WFS s' := by
  induction cs with
  | nil => intro s h; exact ⟨s, rfl, rfl, h⟩
  | cons c cs ih =>
    intro s h
    unfold Gen.Fn.str_extend_chars.loop
    simp only [push_any, RsS.bind]
    obtain ⟨ht, hw⟩ := text_after h (encChar c)
    obtain ⟨s', h1, h2, h3⟩ := ih _ hw
    exact ⟨s', h1, by rw [h2, ht]; rfl, h3⟩

theorem from_iter_loop_eq (cs : List Char) : ∀ (s : SB), Gen.Fn.str_from_iter_in.loop cs s = Gen.Fn.str_extend_chars.loop cs s := by
  induction cs with
  | nil => intro s; rfl
  | cons c cs ih =>
    intro s
    unfold Gen.Fn.str_from_iter_in.loop Gen.Fn.str_extend_chars.loop
    simp only [ih]

theorem extend_strs_loop (ts : List Bytes) : ∀ (s : SB), WFS s →
    ∃ s', Gen.Fn.str_extend_strs.loop ts s = (s', .ok ()) ∧ text s' = ts.foldl pushStr (text s) ∧ WFS s' := by
  induction ts with
  | nil => intro s h; exact ⟨s, rfl, rfl, h⟩
  | cons t ts ih =>
    intro s h
    unfold Gen.Fn.str_extend_strs.loop
    simp only [push_str_any, RsS.bind]
    obtain ⟨ht, hw⟩ := text_after h t
    obtain ⟨s', h1, h2, h3⟩ := ih _ hw
    exact ⟨s', h1, by rw [h2, ht]; rfl, h3⟩

/-- `Extend<char>`: whatever lower bound the iterator reports, the characters are pushed in order -/
theorem gen_str_extend_chars (b : Bytes) (cs : List Char) (hint : Nat) :
    finU (Gen.Fn.str_extend_chars cs hint (b, b.length)) = .ok (extendChars b cs) := by
  unfold Gen.Fn.str_extend_chars
  simp only [RsS.reserve, RsS.bind, text_full]
  have hw : WFS (b ++ List.replicate hint 0, b.length) := by unfold WFS; simp
  have ht : text (b ++ List.replicate hint 0, b.length) = b := by unfold text; simp
  obtain ⟨s', h1, h2, _⟩ := extend_chars_loop cs _ hw
  rw [h1]
  simp only [finU, h2, ht, extendChars]

/-- `Extend<&str>` -/
theorem gen_str_extend_strs (b : Bytes) (ts : List Bytes) :
    finU (Gen.Fn.str_extend_strs ts (b, b.length)) = .ok (ts.foldl pushStr b) := by
  unfold Gen.Fn.str_extend_strs
  have hw : WFS (b, b.length) := by unfold WFS; simp
  obtain ⟨s', h1, h2, _⟩ := extend_strs_loop ts _ hw
  rw [h1]
  simp only [RsS.bind, finU, h2, text_full]


/-! ### The other `Extend` impls and `clone_from` -/

theorem bstrings_loop_eq (ts : List Bytes) : ∀ s, Gen.Fn.str_extend_bstrings.loop ts s = Gen.Fn.str_extend_strs.loop ts s := by
  induction ts with
  | nil => intro s; rfl
  | cons t ts ih =>
    intro s
    unfold Gen.Fn.str_extend_bstrings.loop Gen.Fn.str_extend_strs.loop
    congr 1; funext s' _; exact ih s'

theorem strings_loop_eq (ts : List Bytes) : ∀ s, Gen.Fn.str_extend_strings.loop ts s = Gen.Fn.str_extend_strs.loop ts s := by
  induction ts with
  | nil => intro s; rfl
  | cons t ts ih =>
    intro s
    unfold Gen.Fn.str_extend_strings.loop Gen.Fn.str_extend_strs.loop
    congr 1; funext s' _; exact ih s'

theorem cows_loop_eq (ts : List Bytes) : ∀ s, Gen.Fn.str_extend_cows.loop ts s = Gen.Fn.str_extend_strs.loop ts s := by
  induction ts with
  | nil => intro s; rfl
  | cons t ts ih =>
    intro s
    unfold Gen.Fn.str_extend_cows.loop Gen.Fn.str_extend_strs.loop
    congr 1; funext s' _; exact ih s'

/-- `Extend<String<'bump>>`, `Extend<std String>`, `Extend<Cow<str>>`: each item's text appended in order, as `Extend<&str>` -/
theorem gen_str_extend_bstrings (b : Bytes) (ts : List Bytes) :
    finU (Gen.Fn.str_extend_bstrings ts (b, b.length)) = .ok (ts.foldl pushStr b) := by
  rw [← gen_str_extend_strs]; unfold Gen.Fn.str_extend_bstrings Gen.Fn.str_extend_strs; rw [bstrings_loop_eq]

theorem gen_str_extend_strings (b : Bytes) (ts : List Bytes) :
    finU (Gen.Fn.str_extend_strings ts (b, b.length)) = .ok (ts.foldl pushStr b) := by
  rw [← gen_str_extend_strs]; unfold Gen.Fn.str_extend_strings Gen.Fn.str_extend_strs; rw [strings_loop_eq]

theorem gen_str_extend_cows (b : Bytes) (ts : List Bytes) :
    finU (Gen.Fn.str_extend_cows ts (b, b.length)) = .ok (ts.foldl pushStr b) := by
  rw [← gen_str_extend_strs]; unfold Gen.Fn.str_extend_cows Gen.Fn.str_extend_strs; rw [cows_loop_eq]

/-- `Extend<&char>` is `Extend<char>` of the copied characters -/
theorem gen_str_extend_char_refs (b : Bytes) (cs : List Char) (hint : Nat) :
    finU (Gen.Fn.str_extend_char_refs cs hint (b, b.length)) = .ok (extendChars b cs) := by
  rw [← gen_str_extend_chars b cs hint]
  unfold Gen.Fn.str_extend_char_refs
  rcases h : Gen.Fn.str_extend_chars cs hint (b, b.length) with ⟨s', o⟩
  cases o <;> simp [RsS.bind, finU]

/-- `String::clone_from`: afterwards the string is a copy of the source, whatever it held before (no panic, no
char-boundary condition on the old contents) -/
theorem gen_str_clone_from (src : Bytes) (s : SB) :
    finU (Gen.Fn.str_clone_from src s) = .ok (clone src) := by
  simp [Gen.Fn.str_clone_from, RsS.vec_clone_from, RsS.bind, finU, clone, text]

#print axioms gen_str_extend_bstrings
#print axioms gen_str_extend_strings
#print axioms gen_str_extend_cows
#print axioms gen_str_extend_char_refs
#print axioms gen_str_clone_from

/-- `String::from_iter_in`: a fresh string, then the characters pushed in order -/
theorem gen_str_from_iter_in (cs : List Char) (s0 : SB) :
    finU (Gen.Fn.str_from_iter_in cs s0) = .ok (fromIter cs) := by
  unfold Gen.Fn.str_from_iter_in
  simp only [from_iter_loop_eq]
  have hw : WFS (([] : Bytes), 0) := by unfold WFS; simp
  obtain ⟨s', h1, h2, _⟩ := extend_chars_loop cs _ hw
  rw [h1]
  simp only [RsS.bind, finU, h2, fromIter, extendChars]
  rfl

/-- `String::from_str_in(t)`: capacity for `t`, one copy, the length store — the text is `t` -/
theorem gen_str_from_str_in (t : Bytes) (s0 : SB) : finU (Gen.Fn.str_from_str_in t s0) = .ok t := by
  unfold Gen.Fn.str_from_str_in
  simp [RsS.reserve, RsS.copy_in, RsS.set_len, RsS.bind, finU, text]

theorem gen_str_add (b t : Bytes) : finU (Gen.Fn.str_add t (b, b.length)) = .ok (pushStr b t) := gen_str_push_str b t
theorem gen_str_add_assign (b t : Bytes) : finU (Gen.Fn.str_add_assign t (b, b.length)) = .ok (pushStr b t) := gen_str_push_str b t
theorem gen_str_write_str (b t : Bytes) : finU (Gen.Fn.str_write_str t (b, b.length)) = .ok (pushStr b t) := gen_str_push_str b t
theorem gen_str_write_char (b : Bytes) (c : Char) : finU (Gen.Fn.str_write_char c (b, b.length)) = .ok (push b c) := by
  have h := gen_str_push b c
  unfold Gen.Fn.str_write_char
  simp only []
  generalize Gen.Fn.str_push c (b, b.length) = r at h ⊢
  obtain ⟨s', o⟩ := r
  cases o <;> simp_all [RsS.bind, finU]

/-! ## `from_utf16_in`: std's `decode_utf16`, then push until the first error -/

theorem u16_loop_some (c : Char) (rest : List (Option Char)) (s : SB) :
    Gen.Fn.str_from_utf16_in.loop (some c :: rest) s =
      Gen.Fn.str_from_utf16_in.loop rest (text s ++ encChar c, s.2 + (encChar c).length) := by
  conv => lhs; unfold Gen.Fn.str_from_utf16_in.loop
  simp only [push_any, RsS.bind]
theorem u16_loop_none (rest : List (Option Char)) (s : SB) :
    Gen.Fn.str_from_utf16_in.loop (none :: rest) s = (s, .err) := by
  conv => lhs; unfold Gen.Fn.str_from_utf16_in.loop
theorem u16_loop_nil (s : SB) : Gen.Fn.str_from_utf16_in.loop [] s = (s, .ok ()) := by
  conv => lhs; unfold Gen.Fn.str_from_utf16_in.loop

theorem dec16_nil (f : Nat) : RsS.decodeUtf16Fuel f [] = [] := by cases f <;> rfl
theorem from16_nil (f : Nat) (acc : Bytes) : fromUtf16Fuel f [] acc = .ok acc := by cases f <;> rfl

/-- the result of the translated function read as the model's outcome -/
def u16View (r : SB × Outcome Unit) : Outcome Bytes :=
  match r with
  | (s', .ok _) => .ok (text s')
  | (_, .err) => .err
  | (_, .panic) => .panic
  | (_, .bad w) => .bad w
  | (_, .envBad) => .envBad

theorem from_utf16_loop : ∀ (f : Nat) (us : List Nat) (s : SB), WFS s → us.length ≤ f →
    u16View (Gen.Fn.str_from_utf16_in.loop (RsS.decodeUtf16Fuel f us) s) = fromUtf16Fuel f us (text s) := by
  intro f
  induction f with
  | zero =>
    intro us s _ hl
    have : us = [] := by cases us <;> simp_all
    subst this
    rw [dec16_nil, u16_loop_nil, from16_nil]; rfl
  | succ f ih =>
    intro us s hw hl
    cases us with
    | nil => rw [dec16_nil, u16_loop_nil, from16_nil]; rfl
    | cons u us =>
      have hl' : us.length ≤ f := by simpa using hl
      unfold RsS.decodeUtf16Fuel fromUtf16Fuel
      by_cases h1 : isSurrogate u = true
      · rw [h1]
        simp only [Bool.not_true, Bool.false_eq_true, if_false]
        by_cases h2 : u ≥ 0xDC00
        · rw [if_pos h2, if_pos h2, u16_loop_none]; rfl
        · rw [if_neg h2, if_neg h2]
          cases us with
          | nil => simp only []; rw [u16_loop_none]; rfl
          | cons u2 us' =>
            simp only []
            by_cases h3 : isLow u2 = true
            · rw [h3]
              simp only [Bool.not_true, Bool.false_eq_true, if_false]
              rw [u16_loop_some]
              obtain ⟨ht, hw'⟩ := text_after hw (encChar (Char.ofNat (((u - 0xD800) * 1024 + (u2 - 0xDC00)) + 0x10000)))
              have := ih us' _ hw' (by simp at hl'; omega)
              rw [ht] at this
              exact this
            · have h3' : isLow u2 = false := by simpa using h3
              rw [h3']
              simp only [Bool.not_false, if_true]
              rw [u16_loop_none]; rfl
      · have h1' : isSurrogate u = false := by simpa using h1
        rw [h1']
        simp only [Bool.not_false, if_true]
        rw [u16_loop_some]
        obtain ⟨ht, hw'⟩ := text_after hw (encChar (Char.ofNat u))
        have := ih us _ hw' hl'
        rw [ht] at this
        exact this

/-- `String::from_utf16_in(v)` as translated over std's `decode_utf16` is the model's `fromUtf16`: the decoded text, or `Err` at the
first lone surrogate -/
theorem gen_str_from_utf16_in (us : List Nat) (s0 : SB) :
    u16View (Gen.Fn.str_from_utf16_in us s0) = fromUtf16 us := by
  unfold Gen.Fn.str_from_utf16_in fromUtf16 RsS.decode_utf16
  simp only [RsS.reserve, RsS.bind]
  have hw : WFS ((text (([] : Bytes), 0) ++ List.replicate us.length 0, 0) : SB) := by unfold WFS; simp
  have := from_utf16_loop us.length us _ hw (Nat.le_refl _)
  simpa [text] using this

#print axioms gen_str_drain
#print axioms gen_str_from_utf16_in
#print axioms gen_str_extend_chars
#print axioms gen_str_extend_strs
#print axioms gen_str_from_iter_in
#print axioms gen_str_from_str_in
#print axioms gen_str_replace_range
#print axioms gen_str_drain_drop
#print axioms gen_str_retain
#print axioms gen_str_push
#print axioms gen_str_push_str
#print axioms gen_str_clear
#print axioms gen_str_truncate
#print axioms gen_str_pop
#print axioms gen_str_remove
#print axioms gen_str_insert_bytes
#print axioms gen_str_insert
#print axioms gen_str_insert_str
#print axioms gen_str_split_off

end Bump.Str
