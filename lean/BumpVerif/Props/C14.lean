import BumpVerif.Proofs.StrProgram
import BumpVerif.Proofs.StrLossySpec
import BumpVerif.Proofs.StrUtf16
/-!
# C14 — `collections::String` behaves like `std`'s `String` and is always UTF-8

Property theorems only (helpers live in `Proofs/Str*.lean`).  `Valid b := ∃ l, b = encode l`
with `encode` built from core's `String.utf8EncodeChar`; `C14_valid_is_core` ties it to core's
`ByteArray.IsValidUTF8`.  The `List Char` functions on the right-hand sides (`++`, `take`,
`dropLast`, `filter`, …) are the meaning of `std::string::String`, validated by running `std`
side by side in the harness.
-/
namespace Bump.Str

/-! ## the generated width table -/

/-- The regenerated `UTF8_CHAR_WIDTH` agrees with the lead-byte classes of RFC 3629
(`rfcWidth`: C2..DF ↦ 2, E0..EF ↦ 3, F0..F4 ↦ 4) wherever the decoder's behaviour depends on
it: for every byte `>= 128` (smaller ones never reach the lookup) the entry is 2 exactly for the
two-byte leads, 3 for the three-byte leads, 4 for the four-byte leads.  Checked by kernel
evaluation over the whole table; an edit of an entry that changes what the decoder accepts
breaks this obligation, one that cannot (the private table is not observable otherwise) does not. -/
theorem C14_table_rfc3629 :
    Gen.UTF8_CHAR_WIDTH.length = 256 ∧ ∀ n, n < 256 → 128 ≤ n →
      ((Gen.UTF8_CHAR_WIDTH.getD n 0 = 2 ↔ rfcWidth n = 2) ∧ (rfcWidth n = 3 → Gen.UTF8_CHAR_WIDTH.getD n 0 = 3)
        ∧ (rfcWidth n = 4 → Gen.UTF8_CHAR_WIDTH.getD n 0 = 4)) :=
  table_ok

theorem C14_tag_cont : Gen.TAG_CONT_U8 = 128 := by decide

/-! ## validity and boundaries -/

theorem C14_valid_is_core (b : Bytes) : Valid b ↔ (b.toByteArray).IsValidUTF8 := Valid_iff_core b

/-- `from_utf8` accepts exactly the valid byte strings and hands the same bytes back -/
theorem C14_from_utf8_accepts_iff_valid (b : Bytes) :
    (fromUtf8 b = .ok b ↔ Valid b) ∧ (fromUtf8 b = .err ↔ ¬ Valid b) := by
  rw [Valid_iff_validate]
  by_cases h : validate b = true <;> simp [fromUtf8, h]

/-- the source's `is_char_boundary` holds exactly at the split points of the text -/
theorem C14_boundary_iff (l : List Char) (i : Nat) :
    isCharBoundary (encode l) i = true ↔ ∃ k, k ≤ l.length ∧ i = (encode (l.take k)).length :=
  boundary_iff l i

/-- UTF-8 is uniquely decodable: the text of a valid string is well defined -/
theorem C14_chars_encode (l : List Char) : chars (encode l) = l := chars_encode l

/-! ## every method: refinement to `List Char`, validity, panic condition -/

theorem C14_push (l : List Char) (c : Char) : push (encode l) c = encode (l ++ [c]) := push_encode l c
theorem C14_push_str (l t : List Char) : pushStr (encode l) (encode t) = encode (l ++ t) := pushStr_encode l t
theorem C14_extend_chars (l cs : List Char) : extendChars (encode l) cs = encode (l ++ cs) := extendChars_encode l cs
theorem C14_extend_strs (l : List Char) (ts : List (List Char)) :
    extendStrs (encode l) (ts.map encode) = encode (l ++ ts.flatten) := extendStrs_encode l ts
theorem C14_from_iter (cs : List Char) : fromIter cs = encode cs := fromIter_encode cs
theorem C14_clone_into_bump_str (s : Bytes) : clone s = s ∧ intoBumpStr s = s ∧ clear s = [] := ⟨rfl, rfl, rfl⟩

/-- `pop` returns the last character and removes exactly it; `None` on the empty string -/
theorem C14_pop (l : List Char) :
    pop (encode l) = .ok (encode l.dropLast, l.getLast?) := by
  obtain ⟨s', r, h, -, h1, h2⟩ := pop_valid (Valid_encode l)
  rw [h, h2, chars_encode]
  have : s' = encode l.dropLast := by
    rcases List.eq_nil_or_concat l with rfl | ⟨l', c, rfl⟩
    · simp [pop] at h; simp [h.1]
    · rw [List.concat_eq_append, pop_snoc] at h; cases h; simp [List.concat_eq_append]
  rw [this]

/-- `truncate`: on a split point keeps the prefix; beyond the end does nothing; panics exactly
when `new_len <= len` is not a char boundary -/
theorem C14_truncate (l₁ l₂ : List Char) (s : Bytes) (n : Nat) :
    truncate (encode (l₁ ++ l₂)) (encode l₁).length = .ok (encode l₁)
    ∧ (s.length < n → truncate s n = .ok s)
    ∧ (truncate s n = .panic ↔ n ≤ s.length ∧ isCharBoundary s n = false) :=
  ⟨truncate_split l₁ l₂, truncate_beyond s n, truncate_panic_iff s n⟩

/-- `insert` / `insert_str`: on a split point the text gains the new characters there; panics
exactly when the index is not a char boundary (this includes every index beyond the end) -/
theorem C14_insert (l₁ l₂ : List Char) (c : Char) (t : List Char) (s : Bytes) (i : Nat) (b : Bytes) :
    insert (encode (l₁ ++ l₂)) (encode l₁).length c = .ok (encode (l₁ ++ c :: l₂))
    ∧ insertStr (encode (l₁ ++ l₂)) (encode l₁).length (encode t) = .ok (encode (l₁ ++ t ++ l₂))
    ∧ (insert s i c = .panic ↔ isCharBoundary s i = false)
    ∧ (insertStr s i b = .panic ↔ isCharBoundary s i = false) := by
  refine ⟨insert_split l₁ l₂ c, ?_, insert_panic_iff s i c, insertStr_panic_iff s i b⟩
  rw [insertStr_split, ← encode_append, ← encode_append]

/-- `remove`: returns the character starting at the index and deletes exactly it; panics at the
end of the string and on every index that is not a char boundary -/
theorem C14_remove (l₁ l₂ : List Char) (c : Char) (l : List Char) (s : Bytes) (i : Nat) :
    remove (encode (l₁ ++ c :: l₂)) (encode l₁).length = .ok (encode (l₁ ++ l₂), c)
    ∧ remove (encode l) (encode l).length = .panic
    ∧ (isCharBoundary s i = false → remove s i = .panic) :=
  ⟨remove_split l₁ l₂ c, remove_end l, remove_nonboundary s i⟩

/-- `split_off` -/
theorem C14_split_off (l₁ l₂ : List Char) (s : Bytes) (i : Nat) :
    splitOff (encode (l₁ ++ l₂)) (encode l₁).length = .ok (encode l₁, encode l₂)
    ∧ (splitOff s i = .panic ↔ isCharBoundary s i = false) :=
  ⟨splitOff_split l₁ l₂, splitOff_panic_iff s i⟩

/-- `retain` with a closure that returns normally is `filter` (closure called once per
character, in order; `ans k` = answer of the `k`-th call) -/
theorem C14_retain (l : List Char) (ans : Nat → Bool) :
    retain (encode l) ans none
      = .ok ⟨encode (((l.zipIdx 0).filter (fun p => ans p.2)).map (·.1)), false, l.length⟩ := by
  rw [retain_spec, retainSpec_eq_filter]

/-- `drain(start..end)`: yields the characters of the range (front and back), removes the range
when dropped, removes nothing when leaked; panics exactly when the slice `self[start..end]`
would (an end not on a boundary, beyond the end, or `start > end`) -/
theorem C14_drain (l₁ l₂ l₃ : List Char) (take back : Nat) (forget : Bool) (s : Bytes) (a b : Nat) (hv : Valid s) :
    drainCore (encode (l₁ ++ l₂ ++ l₃)) (encode l₁).length ((encode l₁).length + (encode l₂).length) take back forget
      = .ok ⟨if forget then encode (l₁ ++ l₂ ++ l₃) else encode (l₁ ++ l₃), l₂.take take,
             ((l₂.drop take).reverse).take back⟩
    ∧ (drainCore s a b take back forget = .panic ↔ sliceOk s a b = false) :=
  ⟨drainCore_split l₁ l₂ l₃ take back forget, drainCore_panic_iff s a b take back forget hv⟩

/-- range bounds away from `usize::MAX` mean what `RangeBounds` says, in either overflow mode -/
theorem C14_drain_bounds (ovf : Bool) (s : Bytes) (sb eb : Bd) (take back : Nat) (forget : Bool)
    (hs : BdOk sb) (he : BdOk eb) :
    drain ovf s sb eb take back forget = drainCore s (bdStart sb) (bdEnd s.length eb) take back forget :=
  drain_eq_core ovf s sb eb take back forget hs he

/-- `replace_range` -/
theorem C14_replace_range (ovf : Bool) (s : Bytes) (sb eb : Bd) (t : Bytes) (hs : BdOk sb) (he : BdOk eb)
    (l₁ l₂ l₃ r : List Char) :
    (replaceRange ovf s sb eb t =
      if isCharBoundary s (bdStart sb) = true ∧ isCharBoundary s (bdEnd s.length eb) = true
          ∧ bdStart sb ≤ bdEnd s.length eb
      then .ok (s.take (bdStart sb) ++ t ++ s.drop (bdEnd s.length eb)) else .panic)
    ∧ (bdStart sb = (encode l₁).length →
        bdEnd (encode (l₁ ++ l₂ ++ l₃)).length eb = (encode l₁).length + (encode l₂).length →
        replaceRange ovf (encode (l₁ ++ l₂ ++ l₃)) sb eb (encode r) = .ok (encode (l₁ ++ r ++ l₃))) := by
  refine ⟨replaceRange_eq ovf s sb eb t hs he, fun h1 h2 => ?_⟩
  rw [replaceRange_split ovf l₁ l₂ l₃ sb eb (encode r) hs he h1 h2, ← encode_append, ← encode_append]

/-- the source computes `n + 1` with `checked_add` at all three sites (flags regenerated from
src/collections/string.rs and vec.rs; reverting fix 894a021 flips them and breaks this) -/
theorem C14_range_arith_checked (ovf : Bool) :
    drainOvf ovf = true ∧ replaceOvf ovf = true ∧ vecDrainOvf ovf = true := by
  cases ovf <;> decide

/-- **Range bounds at `usize::MAX` panic in every build profile** (what `std` does): an
`Excluded` start or `Included` end of `usize::MAX` cannot be turned into a half-open range. -/
theorem C14_range_end_overflow_panics (ovf : Bool) (s t : Bytes) (sb eb : Bd) (take back : Nat) (forget : Bool) (n : Nat)
    (hn : ¬ n + 1 < USIZE) (h : sb = .excl n ∨ eb = .incl n) :
    drain ovf s sb eb take back forget = .panic ∧ replaceRange ovf s sb eb t = .panic := by
  obtain ⟨h1, h2, h3⟩ := C14_range_arith_checked ovf
  have hadd : addOne true n = .panic := by simp [addOne, hn]
  have hS : ∀ b, rangeStart true b = .panic ∨ ∃ m, rangeStart true b = .ok m := by
    intro b; cases b <;> simp [rangeStart, addOne] <;> (repeat' split) <;> simp <;> omega
  have hA : ∀ b, startAssert true s b = .panic ∨ startAssert true s b = .ok () := by
    intro b; cases b <;> simp [startAssert, addOne] <;> (repeat' split) <;> simp_all
  unfold drain drainWith replaceRange replaceRangeWith
  rw [h1, h2, h3]
  rcases h with rfl | rfl
  · simp [rangeStart, startAssert, hadd]
  · refine ⟨?_, ?_⟩
    · rcases hS sb with h | ⟨m, h⟩ <;> simp [h, rangeEnd, hadd]
    · rcases hA sb with h | h <;> simp [h, endAssert, hadd]

/-- what used to go wrong (F7 of bumpalo 3.17.0), kept as a statement about the unchecked
arithmetic: with a plain `n + 1` and overflow checks off, `..=usize::MAX` wraps to an empty
range at 0 instead of panicking -/
theorem C14_range_end_unchecked_wraps (s t : Bytes) (take back : Nat) (hv : Valid s) (o₂ : Bool) :
    replaceRangeWith false false s .unbounded (.incl (USIZE - 1)) t = .ok (t ++ s)
    ∧ replaceRangeWith true o₂ s .unbounded (.incl (USIZE - 1)) t = .panic
    ∧ drainWith false s .unbounded (.incl (USIZE - 1)) take back false = .ok ⟨s, [], []⟩
    ∧ drainWith true s .unbounded (.incl (USIZE - 1)) take back false = .panic :=
  ⟨replaceRange_wraps s t, replaceRange_checked o₂ s t, drain_wraps s take back hv, drain_checked s take back false⟩

/-! ## decoders -/

/-- **`lossy_valid`**: for every byte string `from_utf8_lossy_in` returns normally (its
`debug_assert!` cannot fire) and the output is valid UTF-8 -/
theorem C14_lossy_valid (dbg : Bool) (v : Bytes) : ∃ out, fromUtf8Lossy dbg v = .ok out ∧ Valid out :=
  fromUtf8Lossy_valid dbg v

/-- **`lossy_id`**: valid input comes back unchanged -/
theorem C14_lossy_id (dbg : Bool) (v : Bytes) (hv : Valid v) : fromUtf8Lossy dbg v = .ok v := by
  obtain ⟨l, rfl⟩ := hv; exact fromUtf8Lossy_id dbg l

/-- **`lossy_spec`**: the output is the reference decoding `RefLossy` — well-formed sequences
copied, every maximal subpart of an ill-formed subsequence (Unicode 3.9; defined from Table 3-7
through `encChar`/`decodeHead`, without the width table) replaced by one U+FFFD — and that
reference is a function -/
theorem C14_lossy_spec (dbg : Bool) (v : Bytes) :
    (∃ out, fromUtf8Lossy dbg v = .ok out ∧ RefLossy v out)
    ∧ (∀ o₁ o₂, RefLossy v o₁ → RefLossy v o₂ → o₁ = o₂)
    ∧ (∀ out, RefLossy v out → fromUtf8Lossy dbg v = .ok out) :=
  ⟨fromUtf8Lossy_spec dbg v, fun _ _ h₁ h₂ => RefLossy_functional h₁ h₂, fromUtf8Lossy_eq_ref dbg v⟩

/-- the reference on examples: a lone lead, a truncated 3-byte sequence (one U+FFFD for its
two-byte maximal subpart), a surrogate encoding (three U+FFFD) -/
example : fromUtf8Lossy true [0x61, 0xC3] = .ok [0x61, 0xEF, 0xBF, 0xBD]
    ∧ fromUtf8Lossy true [0xE2, 0x82, 0x41] = .ok [0xEF, 0xBF, 0xBD, 0x41]
    ∧ fromUtf8Lossy true [0xED, 0xA0, 0x80] = .ok [0xEF, 0xBF, 0xBD, 0xEF, 0xBF, 0xBD, 0xEF, 0xBF, 0xBD] := by
  decide

/-- one iteration of the decoder's loop accepts exactly the scalar values of Unicode Table 3-7
(`decodeHead`, defined without the width table), with the same length, and rejects the rest -/
theorem C14_lossy_step_table37 (t : Bytes) :
    (∀ n, sufStep t = .adv n → ∃ c, decodeHead t = some (c, n)) ∧
    (∀ k, sufStep t = .err k → decodeHead t = none) := sufStep_decode t

/-- **`from_utf16_in`** errs iff the units contain a lone surrogate (`text16 = none`), else it is
the UTF-8 encoding of the decoded scalars — hence valid -/
theorem C14_from_utf16 (us : List Nat) :
    (fromUtf16 us = match text16 us with | some cs => .ok (encode cs) | none => .err)
    ∧ (fromUtf16 us = .err ↔ text16 us = none)
    ∧ (∀ b, fromUtf16 us = .ok b → Valid b) :=
  ⟨fromUtf16_spec us, fromUtf16_err_iff us, fromUtf16_valid us⟩

example : text16 [0x61, 0xD83D, 0xDE00] = some ['a', '😀'] ∧ text16 [0xDC00] = none ∧ text16 [0xD800, 0x61] = none := by
  decide

/-! ## the invariant over whole programs -/

/-- **Always UTF-8**: for every program over the methods of the property, every argument (any
byte index, any range bound incl. `usize::MAX`), either overflow mode, with panicking calls caught: the string is valid UTF-8 after every operation and the model never reaches a `bad`
state (no read of non-UTF-8 text, no wrapping length arithmetic). -/
theorem C14_always_valid (ovf : Bool) (ops : List SOp) :
    ∃ s, runOps ovf [] ops = some s ∧ Valid s := runOps_valid ovf ops Valid_nil

theorem C14_step_valid (ovf : Bool) (s : Bytes) (hv : Valid s) (op : SOp) :
    ∃ s', stepOp ovf s op = some s' ∧ Valid s' := stepOp_valid ovf hv op

/-- the hypotheses are satisfiable: a concrete run -/
example : runOps true [] [.fromStr ['a', 'é', '€', '😀'], .insert 1 'z', .remove 2, .truncate 5, .pop]
    = some (encode ['a', 'z']) := by decide


end Bump.Str

#print axioms Bump.Str.C14_table_rfc3629
#print axioms Bump.Str.C14_tag_cont
#print axioms Bump.Str.C14_valid_is_core
#print axioms Bump.Str.C14_from_utf8_accepts_iff_valid
#print axioms Bump.Str.C14_boundary_iff
#print axioms Bump.Str.C14_chars_encode
#print axioms Bump.Str.C14_push
#print axioms Bump.Str.C14_push_str
#print axioms Bump.Str.C14_extend_chars
#print axioms Bump.Str.C14_extend_strs
#print axioms Bump.Str.C14_from_iter
#print axioms Bump.Str.C14_clone_into_bump_str
#print axioms Bump.Str.C14_pop
#print axioms Bump.Str.C14_truncate
#print axioms Bump.Str.C14_insert
#print axioms Bump.Str.C14_remove
#print axioms Bump.Str.C14_split_off
#print axioms Bump.Str.C14_retain
#print axioms Bump.Str.C14_drain
#print axioms Bump.Str.C14_drain_bounds
#print axioms Bump.Str.C14_replace_range
#print axioms Bump.Str.C14_range_arith_checked
#print axioms Bump.Str.C14_range_end_overflow_panics
#print axioms Bump.Str.C14_range_end_unchecked_wraps
#print axioms Bump.Str.C14_lossy_valid
#print axioms Bump.Str.C14_lossy_id
#print axioms Bump.Str.C14_lossy_spec
#print axioms Bump.Str.C14_lossy_step_table37
#print axioms Bump.Str.C14_from_utf16
#print axioms Bump.Str.C14_always_valid
#print axioms Bump.Str.C14_step_valid
