import BumpVerif.Proofs.Frame
/-! # C07 — the allocation limit is never exceeded by acquiring memory -/
namespace Bump.C07
open Bump Gen

/-- Whenever an allocation acquires a new chunk while a limit `L` is set, the bytes held for
allocation before (`allocated_bytes()` = sum of usable sizes, C08) plus the new chunk's usable
size do not exceed `L` — including when the limit is already below what is held (then no chunk is
acquired at all). -/
theorem limit_respected {E sz al p L c} (f : Bool) (s : St) (hE : EnvOK E) (h : ArenaWF E s.a)
    (hA : IsPow2 al) (hlay : sz + al ≤ 2 ^ 63) (hL : s.a.limit = some L)
    (hok : (allocMaybe E f sz al s).2 = .ok p)
    (hnew : (allocMaybe E f sz al s).1.a.chunks = c :: s.a.chunks) :
    sumUsable s.a.chunks + usable c ≤ L := by
  have sp := allocMaybe_spec f s hE h hA hlay
  obtain ⟨_, _, _, _, _, refs, _, hcase⟩ := sp.ok p hok
  rcases hcase with ⟨_, hlen⟩ | ⟨c', hc', _, _, hlim, _⟩
  · rw [hnew] at hlen; simp at hlen
  · rw [hnew] at hc'
    simp only [List.cons.injEq, and_true] at hc'
    subst hc'
    have := hlim L hL
    rw [show s.a.allocatedBytes E = sumUsable s.a.chunks from h.ab] at this
    exact this

/-- nothing is acquired once the limit is at or below what is held -/
theorem no_chunk_when_exhausted {E sz al p L} (f : Bool) (s : St) (hE : EnvOK E) (h : ArenaWF E s.a)
    (hA : IsPow2 al) (hlay : sz + al ≤ 2 ^ 63) (hL : s.a.limit = some L) (hex : L ≤ sumUsable s.a.chunks)
    (hok : (allocMaybe E f sz al s).2 = .ok p) :
    (allocMaybe E f sz al s).1.a.chunks.length = s.a.chunks.length := by
  have sp := allocMaybe_spec f s hE h hA hlay
  obtain ⟨_, _, _, _, _, refs, _, hcase⟩ := sp.ok p hok
  rcases hcase with ⟨_, hlen⟩ | ⟨c', _, _, hpos, hlim, _⟩
  · exact hlen
  · have h1 := hlim L hL
    rw [show s.a.allocatedBytes E = sumUsable s.a.chunks from h.ab] at h1
    omega

/-- a request that fits in the space left in the current chunk succeeds whatever the limit: the
fast path never consults the limit (and carries it along unchanged) -/
theorem fast_ignores_limit (E : Nat) (a : Arena) (sz al : Nat) (l : Option Nat) :
    tryFast E { a with limit := l } sz al =
      match tryFast E a sz al with
      | .ok (some (a', p)) => .ok (some ({ a' with limit := l }, p))
      | .ok none => .ok none
      | .err => .err
      | .panic => .panic
      | .bad w => .bad w
      | .envBad => .envBad := by
  cases a with
  | mk M chunks limit =>
  have hcur : ({ (⟨M, chunks, limit⟩ : Arena) with limit := l } : Arena).cur E = (⟨M, chunks, limit⟩ : Arena).cur E := rfl
  unfold tryFast
  simp only [hcur]
  generalize hc : (⟨M, chunks, limit⟩ : Arena).cur E = c at *
  by_cases h1 : fastPre M c = true
  · simp only [h1, Bool.not_true, Bool.false_eq_true, ↓reduceIte]
    by_cases h2 : (decide (al ≥ M) && (roundUpTo sz al).isNone) = true
    · simp only [h2, ↓reduceIte]
    · simp only [h2, Bool.false_eq_true, ↓reduceIte]
      cases allocFast M c sz al with
      | none => rfl
      | some p =>
        simp only
        by_cases h3 : fastPost M c al p = true
        · simp only [h3, Bool.not_true, Bool.false_eq_true, ↓reduceIte]
          unfold setCurPtr
          cases chunks with
          | nil => by_cases hp : p = E <;> simp [hp]
          | cons c cs => rfl
        · simp only [h3, Bool.not_false, ↓reduceIte]
  · simp only [h1, Bool.not_false, ↓reduceIte]

/-- with no limit set the slow path's limit machinery is inert: every candidate "fits" -/
theorem no_limit_transparent (E : Nat) (a : Arena) (d : Details) (hl : a.limit = none) :
    fitsUnderLimit (limitRemaining a E) d = true ∧ ∀ ab sz base, bypassMin a.limit ab sz base = false := by
  simp [fitsUnderLimit, limitRemaining, bypassMin, hl]

example : (allocMaybe 160 true 5000 1 { a := ⟨1, [⟨4096, 496, 16, 4096, 448⟩], some 500⟩, ans := [some 8192] }).2 = .err := by decide

end Bump.C07

#print axioms Bump.C07.limit_respected
#print axioms Bump.C07.no_chunk_when_exhausted
#print axioms Bump.C07.fast_ignores_limit
#print axioms Bump.C07.no_limit_transparent
