import BumpVerif.Proofs.Mem
/-! # C12 — the Allocator implementation obeys the allocator contract

`allocate` is `try_alloc_layout` (C01, C04, C09), `deallocate` is `dealloc`; this file covers
`grow`, `grow_zeroed` and `shrink` with arbitrary old and new layouts.
-/
namespace Bump.C12
open Bump Gen

/-- `shrink`: for every live block and every new layout with `new.size ≤ old.size` (any
alignments, zero sizes included): the result fits the new layout (aligned to `new.align` and to
`MIN_ALIGN`, `new.size` bytes inside the used part of a held chunk), every other region in a
used part that was disjoint from the old block is still in a used part and disjoint from the new
block, no assertion fires and `copy_nonoverlapping` is never applied to overlapping ranges;
on error nothing changed. -/
theorem shrink_contract {E p osz oal nsz nal} (s : St) (hE : EnvOK E) (h : ArenaWF E s.a)
    (hb : BlockOK s.a p osz oal) (hN : IsPow2 nal) (hle : nsz ≤ osz) (hlay : nsz + nal ≤ 2 ^ 63) :
    ReallocPost E s (shrink E p osz oal nsz nal s).1 p osz nsz nal (shrink E p osz oal nsz nal s).2 :=
  shrink_spec s hE h hb hN hle hlay

/-- `grow`: same contract with `new.size ≥ old.size`, in place (memmove downwards) when the
block is the last allocation and the alignment is compatible, by fresh allocation otherwise. -/
theorem grow_contract {E p osz oal nsz nal} (s : St) (hE : EnvOK E) (h : ArenaWF E s.a)
    (hb : BlockOK s.a p osz oal) (hN : IsPow2 nal) (hle : osz ≤ nsz) (hlay : nsz + nal ≤ 2 ^ 63) :
    ReallocPost E s (grow E p osz oal nsz nal s).1 p osz nsz nal (grow E p osz oal nsz nal s).2 :=
  grow_spec s hE h hb hN hle hlay

/-- contents: the first `min(old,new)` bytes are kept and nothing outside the new block changes
(so no other live block, being disjoint from it, is affected) -/
theorem realloc_keeps_prefix {E s s' p osz nsz nal q} (m : Mem) (post : ReallocPost E s s' p osz nsz nal (.ok q)) :
    (∀ i, i < min osz nsz → applyEffs m s'.mem (q + i) = applyEffs m s.mem (p + i)) ∧
    (∀ a, ¬ (q ≤ a ∧ a < q + nsz) → applyEffs m s'.mem a = applyEffs m s.mem a) :=
  realloc_contents m post

/-- `grow_zeroed`: additionally the added tail `[old.size, new.size)` reads as zero -/
theorem grow_zeroed_tail {E p osz oal nsz nal q} (m : Mem) (s : St) (hle : osz ≤ nsz)
    (hok : (step E (.agrow p osz oal nsz nal true) s).2 = .ptr q) :
    ∀ i, osz ≤ i → i < nsz → applyEffs m (step E (.agrow p osz oal nsz nal true) s).1.mem (q + i) = 0 := by
  intro i h1 h2
  simp only [step] at hok ⊢
  cases hg : grow E p osz oal nsz nal s with
  | mk s1 o1 =>
    rw [hg] at hok
    cases o1 with
    | ok q' =>
      simp only [bindO, Res.ofOutcome, ↓reduceIte, Res.ptr.injEq] at hok ⊢
      subst hok
      rw [applyEffs_append]
      simp only [applyEffs, List.foldl_cons, List.foldl_nil, applyEff]
      rw [if_pos ⟨by omega, by omega⟩]
    | err => simp [bindO, Res.ofOutcome] at hok
    | panic => simp [bindO, Res.ofOutcome] at hok
    | bad w => simp [bindO, Res.ofOutcome] at hok
    | envBad => simp [bindO, Res.ofOutcome] at hok

/-- on error the original block is untouched and still owned by the caller: arena and memory are
exactly as before -/
theorem realloc_err_frame {E s s' p osz nsz nal} (post : ReallocPost E s s' p osz nsz nal .err) :
    s'.a = s.a ∧ s'.mem = s.mem := ⟨(post.err rfl).1, (post.err rfl).2.1⟩

/-- `deallocate` accepts any live block in any order, keeps the invariant, and every other
`MIN_ALIGN`-aligned region in a used part that was disjoint from the block stays in a used part -/
theorem dealloc_contract {E p sz oal} (s : St) (hE : EnvOK E) (h : ArenaWF E s.a) (hb : BlockOK s.a p sz oal) :
    (dealloc E p sz s).2 = .ok () ∧ ArenaWF E (dealloc E p sz s).1.a ∧ (dealloc E p sz s).1.mem = s.mem ∧
    ∀ b bn, 0 < bn → InChunk s.a b bn → s.a.M ∣ b → (sz = 0 ∨ Disj b bn p sz) → InChunk (dealloc E p sz s).1.a b bn := by
  obtain ⟨h1, h2, h3, _, h5, _, h7⟩ := dealloc_spec (p := p) (sz := sz) s hE h (cur_block hE h hb)
  refine ⟨h1, h2, h3, ?_⟩
  intro b bn hbn ⟨x, hx, hx1, hx2⟩ hMb hd
  rcases h7 with he | ⟨c, cs, r, hc, hcp, hr, hrle, hc'⟩
  · rw [he]; exact ⟨x, hx, hx1, hx2⟩
  · rw [hc] at hx
    simp only [List.mem_cons] at hx
    rcases hx with rfl | hx
    · -- same chunk: the region starts at or after the end of the freed block, at a multiple of MIN_ALIGN
      have hge : p + sz ≤ b := by unfold Disj at hd; omega
      have hrb : r ≤ b := roundUpTo_le h.m_pos hr hMb hge
      exact ⟨{ x with ptr := r }, by rw [hc']; exact List.mem_cons_self, hrb, hx2⟩
    · exact ⟨x, by rw [hc']; exact List.mem_cons_of_mem _ hx, hx1, hx2⟩

example : (shrink 160 4500 100 1 50 1 { a := ⟨1, [⟨4096, 560, 16, 4500, 512⟩], none⟩, ans := [] }).2 = .ok 4550 := by decide
example : (shrink 160 4500 100 1 51 1 { a := ⟨1, [⟨4096, 560, 16, 4500, 512⟩], none⟩, ans := [] }).2 = .ok 4500 := by decide
example : (grow 160 4500 10 1 11 1 { a := ⟨1, [⟨4096, 560, 16, 4500, 512⟩], none⟩, ans := [] }).2 = .ok 4499 := by decide

end Bump.C12

#print axioms Bump.C12.shrink_contract
#print axioms Bump.C12.grow_contract
#print axioms Bump.C12.realloc_keeps_prefix
#print axioms Bump.C12.grow_zeroed_tail
#print axioms Bump.C12.realloc_err_frame
#print axioms Bump.C12.dealloc_contract
