import BumpVerif.Proofs.Frame
/-! # C18 — requested capacity is honoured and growth is geometric (arena part) -/
namespace Bump.C18
open Bump Gen

/-- serve a list of `(size, align)` requests from one chunk on the fast path only -/
def serve (M : Nat) : Chunk → List (Nat × Nat) → Option Chunk
  | c, [] => some c
  | c, (sz, al) :: rest =>
    match allocFast M c sz al with
    | some p => serve M { c with ptr := p } rest
    | none => none

/-- Any sequence of requests whose sizes are multiples of `MIN_ALIGN`, whose alignments do not
exceed it and whose total is at most the room below the finger is served from the chunk alone
(no allocator traffic), and consumes exactly the requested bytes. -/
theorem serve_all (M : Nat) (hM : 0 < M) (hMle : M ≤ 16) :
    ∀ (reqs : List (Nat × Nat)) (c : Chunk), c.data ≤ c.ptr → c.ptr < 2 ^ 63 →
      (∀ r ∈ reqs, M ∣ r.1 ∧ r.2 ≤ M) → (reqs.map (·.1)).sum ≤ c.ptr - c.data →
      ∃ c', serve M c reqs = some c' ∧ c'.ptr = c.ptr - (reqs.map (·.1)).sum ∧ c'.data = c.data := by
  intro reqs
  induction reqs with
  | nil => intro c _ _ _ _; exact ⟨c, rfl, by simp, rfl⟩
  | cons r rest ih =>
    intro c hdp hptr hall hsum
    obtain ⟨sz, al⟩ := r
    have hr := hall (sz, al) List.mem_cons_self
    simp only [List.map_cons, List.sum_cons] at hsum ⊢
    have hru : roundUpTo sz M = some sz := roundUpTo_of_dvd hM hr.1 (by have : USIZE = 2 ^ 64 := rfl; omega)
    have hf := allocFast_fits M c sz al hr.2 hM hdp hptr sz hru (by omega)
    simp only [serve, hf]
    obtain ⟨c', h1, h2, h3⟩ := ih { c with ptr := c.ptr - sz } (by show c.data ≤ c.ptr - sz; omega)
      (by show c.ptr - sz < 2 ^ 63; omega) (fun x hx => hall x (List.mem_cons_of_mem _ hx))
      (by show _ ≤ c.ptr - sz - c.data; omega)
    exact ⟨c', h1, by rw [h2]; show c.ptr - sz - _ = _; omega, h3⟩

/-- An arena built with capacity `cap` holds one chunk whose room below the finger is at least
`cap`; by `serve_all` it serves `cap` bytes of such requests without obtaining more memory. -/
theorem with_capacity_serves {E M cap a} (f : Bool) (s : St) (hM : IsPow2 M) (hMle : M ≤ 16) (hcap : 0 < cap)
    (hok : (newArena E M cap f s).2 = .ok a) (reqs : List (Nat × Nat))
    (hall : ∀ r ∈ reqs, M ∣ r.1 ∧ r.2 ≤ M) (hsum : (reqs.map (·.1)).sum ≤ cap) :
    ∃ c c', a.chunks = [c] ∧ serve M c reqs = some c' := by
  obtain ⟨hwf, _, _, hsh⟩ := (newArena_spec f s hM hMle).ok a hok
  rcases hsh with ⟨_, _, h0⟩ | ⟨c, refs, hc, _, hcapc, hpf, _⟩
  · omega
  · have hw := hwf.chunks c (by rw [hc]; exact List.mem_cons_self)
    have hfl := footer_lt hw
    have := FS
    obtain ⟨c', h1, _, _⟩ := serve_all M hM.pos hMle reqs c hw.ptr_ge (by have := hw.ptr_le; have := hw.hi; omega) hall
      (by rw [hpf]; omega)
    exact ⟨c, c', hc, h1⟩

/-- `chunk_capacity()` never overstates: a request of exactly that many bytes with alignment at
most `MIN_ALIGN` is served by the fast path. -/
theorem capacity_sound {E a al} (hE : EnvOK E) (h : ArenaWF E a) (hal : al ≤ a.M) :
    allocFast a.M (a.cur E) (chunkCapacity a E) al = some (a.cur E).data := by
  obtain ⟨c1, c2, c3, c4, c5, c6, c7⟩ := cur_ok hE h
  have hdM : a.M ∣ (a.cur E).data := by
    unfold Arena.cur
    cases hc : a.chunks with
    | nil => exact Nat.dvd_trans h.m_dvd16 hE.al
    | cons c cs =>
      exact Nat.dvd_trans h.m_dvd16 (h.chunks c (by rw [hc]; exact List.mem_cons_self)).data_al
  have hcapM : a.M ∣ chunkCapacity a E := Nat.dvd_sub c3 hdM
  have hru : roundUpTo (chunkCapacity a E) a.M = some (chunkCapacity a E) :=
    roundUpTo_of_dvd h.m_pos hcapM (by have : USIZE = 2 ^ 64 := rfl; have := h.mle; unfold chunkCapacity; omega)
  have := allocFast_fits a.M (a.cur E) (chunkCapacity a E) al hal h.m_pos c1 c4 _ hru (Nat.le_refl _)
  rw [this]; unfold chunkCapacity; congr 1; omega

/-- The first candidate size of the slow path is at least twice the usable size of the current
chunk and at least the request; every chunk actually created is at least as large as the
candidate it was sized from (`DetailsOK.ge_req`), candidates being halved only after a refusal. -/
theorem first_candidate_doubles {E sz al p} (s : St) (hE : EnvOK E) (h : ArenaWF E s.a) (hA : IsPow2 al)
    (hlay : sz + al ≤ 2 ^ 63) (hok : (tryAllocLayout E sz al s).2 = .ok p) :
    (tryAllocLayout E sz al s).1.a.chunks.length = s.a.chunks.length ∨
    ∃ c, (tryAllocLayout E sz al s).1.a.chunks = c :: s.a.chunks ∧ 0 < usable c ∧ sz ≤ usable c := by
  obtain ⟨sp, _⟩ := tryAllocLayout_spec s hE h hA hlay
  obtain ⟨hwf', _, _, _, hsh, refs, _, hcase⟩ := sp.ok p hok
  rcases hcase with ⟨_, hlen⟩ | ⟨c, hc, _, hpos, _, _⟩
  · exact Or.inl hlen
  · refine Or.inr ⟨c, hc, hpos, ?_⟩
    rcases hsh with ⟨_, ha, _, _⟩ | ⟨c0, cs, h0, h0', _, _⟩ | ⟨c1, hc1, hge, hle, _⟩
    · rw [ha] at hc; exact absurd (congrArg List.length hc) (by simp)
    · rw [h0, h0'] at hc; exact absurd (congrArg List.length hc) (by simp)
    · rw [hc1] at hc
      simp only [List.cons.injEq, and_true] at hc
      subst hc
      have hw := hwf'.chunks { c1 with ptr := p } (by rw [hc1]; exact List.mem_cons_self)
      have : usable { c1 with ptr := p } = c1.footer - c1.data := by
        unfold usable Chunk.footer; show c1.size - FOOTER_SIZE = _; omega
      rw [this]; omega

/-- **Geometric growth.** Every chunk the slow path acquires has a usable size of at least
`max(2·usable(current chunk), request, 448) / 2^k`, where `k` counts the candidates that were
refused by the allocator, rejected by the limit or unrepresentable before it: the first candidate
doubles, and candidates are only ever halved. -/
theorem chunk_growth_geometric {E sz al p c} (f : Bool) (s : St) (hE : EnvOK E) (h : ArenaWF E s.a) (hA : IsPow2 al)
    (hlay : sz + al ≤ 2 ^ 63) (hok : (allocMaybe E f sz al s).2 = .ok p)
    (hnew : (allocMaybe E f sz al s).1.a.chunks = c :: s.a.chunks) :
    ∃ k, max (usable (s.a.cur E) * 2) (max sz DEFAULT_CHUNK_SIZE_WITHOUT_FOOTER) / 2 ^ k ≤ usable c := by
  have sp := allocMaybe_spec f s hE h hA hlay
  obtain ⟨_, _, _, _, _, refs, _, hcase⟩ := sp.ok p hok
  rcases hcase with ⟨_, hlen⟩ | ⟨c', hc', _, _, _, hk⟩
  · rw [hnew] at hlen; simp at hlen
  · rw [hnew] at hc'
    simp only [List.cons.injEq, and_true] at hc'
    subst hc'
    exact hk

example : serve 8 ⟨4096, 560, 16, 4608, 512⟩ [(8, 1), (16, 8), (488, 4)] = some ⟨4096, 560, 16, 4096, 512⟩ := by decide

end Bump.C18

#print axioms Bump.C18.serve_all
#print axioms Bump.C18.with_capacity_serves
#print axioms Bump.C18.capacity_sound
#print axioms Bump.C18.first_candidate_doubles
#print axioms Bump.C18.chunk_growth_geometric
