import BumpVerif.Proofs.Rewind
import BumpVerif.Proofs.Refill
/-! # C11 — a failed initialiser hands back its error and leaves no residue -/
namespace Bump.C11
open Bump Gen

/-- The initialiser is not run if space cannot be reserved: when the reservation fails the call
returns that failure (`Err(Alloc)` / out-of-memory panic), the model never reaches the
initialiser (no inner pointers exist) and the arena is unchanged. -/
theorem init_not_run_on_alloc_failure {E sz al} (ok f : Bool) (inner : List Inner) (s : St)
    (hE : EnvOK E) (h : ArenaWF E s.a) (hA : IsPow2 al) (hlay : sz + al ≤ 2 ^ 63)
    (hfail : (allocMaybe E f sz al s).2 = .err ∨ (allocMaybe E f sz al s).2 = .panic) :
    (allocTryWith E sz al ok inner f s).1 = (allocMaybe E f sz al s).1 ∧
    ((allocTryWith E sz al ok inner f s).2 = .err ∨ (allocTryWith E sz al ok inner f s).2 = .panic) ∧
    (allocTryWith E sz al ok inner f s).1.a = s.a := by
  have sp := allocMaybe_spec f s hE h hA hlay
  have ha := (sp.fail hfail).1
  unfold allocTryWith
  cases hm : allocMaybe E f sz al s with
  | mk s1 o1 =>
    rw [hm] at hfail ha
    simp only at hfail ha
    rcases hfail with rfl | rfl
    · simp only [bindO, Res.ofOutcome]; exact ⟨(by triv), Or.inl (by triv), ha⟩
    · simp only [bindO, Res.ofOutcome]; exact ⟨(by triv), Or.inr (by triv), ha⟩

/-- **No residue.** If the initialiser allocated nothing and reported an error, the call returns
that error (`ierr`), the arena is the arena on entry (same-chunk case: the finger is restored to
its value on entry, reclaiming alignment padding too) or the arena on entry plus the *empty* chunk
that was acquired for the value (finger back at its footer), and a request of the same layout
made next is served by the fast path at the same address: no memory is obtained from the global
allocator for it. Holds for every remaining capacity (value lands in the current chunk or forces
a new one), every layout, every `MIN_ALIGN`, fallible or not. -/
theorem no_residue {E sz al slot} (f : Bool) (s : St) (hE : EnvOK E) (h : ArenaWF E s.a) (hA : IsPow2 al)
    (hlay : sz + al ≤ 2 ^ 63) (hok : (allocMaybe E f sz al s).2 = .ok slot) :
    (allocTryWith E sz al false [] f s).2 = .ierr [] ∧
    ArenaWF E (allocTryWith E sz al false [] f s).1.a ∧
    ((allocTryWith E sz al false [] f s).1.a = s.a ∨
      ∃ c, c.ptr = c.footer ∧ (allocTryWith E sz al false [] f s).1.a = { s.a with chunks := c :: s.a.chunks }) ∧
    tryFast E (allocTryWith E sz al false [] f s).1.a sz al = .ok (some ((allocMaybe E f sz al s).1.a, slot)) := by
  obtain ⟨h1, h2, _, _, h5, h6⟩ := atw_err_no_residue f s hE h hA hlay slot hok
  exact ⟨h1, h2, h5, h6⟩

/-- **Blocks the initialiser allocated and kept stay valid and untouched**, whatever else it did
(released blocks, acquired chunks) and whether or not the rewind took place: after a failed
`alloc_try_with`/`try_alloc_try_with` every block that was live on entry and every block the
initialiser kept is in the used part of a held chunk, they are pairwise disjoint (so nothing will
be handed out over them), and the arena wrote no memory (`mem` unchanged: C02). -/
theorem inner_blocks_kept {E sz al} (inner : List Inner) (f : Bool) (y : Sys) (hE : EnvOK E) (inv : LiveInv E y)
    (hA : IsPow2 al) (hlay : sz + al ≤ 2 ^ 63) (hin : ∀ i ∈ inner, InnerValid i) (ps : List Nat)
    (hres : (sysStep E (.atw sz al false inner f) y).2 = .ierr ps) :
    LiveInv E (sysStep E (.atw sz al false inner f) y).1 ∧
    (sysStep E (.atw sz al false inner f) y).1.live = y.live ++ keptBlocks inner ps := by
  have h := (sysStep_live_full hE y (.atw sz al false inner f) inv ⟨hA, hlay, hin⟩).2 (by rw [hres]; simp)
  refine ⟨h, ?_⟩
  simp only [sysStep, liveAfter] at hres ⊢
  rw [hres]

/-- **No residue after a failed slice fill**: `alloc_slice_try_fill_with` / `_iter` whose closure
fails at an index `i < n` hands back the error, and the same layout requested next is served by the
fast path at the same address without obtaining memory — for every Rust element type (alignment
divides size), every `MIN_ALIGN`, whether the reservation fitted the current chunk or forced a new one. -/
theorem fill_no_residue {E esz eal n i p} (s : St) (hE : EnvOK E) (wf : ArenaWF E s.a) (hA : IsPow2 eal)
    (hlay : esz * n + eal ≤ 2 ^ 63) (harr : arrayLayout esz eal n = some (esz * n)) (hi : i < n)
    (hdv : eal ∣ esz) (hok : (allocLayout E (esz * n) eal s).2 = .ok p) :
    (sliceTryFill E esz eal n (some i) s).2 = .ierr [] ∧
    tryFast E (sliceTryFill E esz eal n (some i) s).1.a (esz * n) eal = .ok (some ((allocLayout E (esz * n) eal s).1.a, p)) :=
  sliceTryFill_no_residue s hE wf hA hlay harr hi (Or.inr (Nat.dvd_mul_right_of_dvd hdv n)) hok

/-- On success the value's slot is the reserved block and the arena is whatever the reservation
and the initialiser's own allocations left: nothing is rewound. -/
theorem ok_keeps_slot {E sz al} (f : Bool) (s : St) (slot : Nat) (hok : (allocMaybe E f sz al s).2 = .ok slot) :
    allocTryWith E sz al true [] f s = ((allocMaybe E f sz al s).1, .ptrIn slot []) := by
  unfold allocTryWith
  cases hm : allocMaybe E f sz al s with
  | mk s1 o1 =>
    rw [hm] at hok
    simp only at hok
    subst hok
    simp [bindO, runInner, Res.ofOutcome]

/-- The fill loop of `alloc_slice_try_fill_with`: the closure is called with 0,1,2,… in order, and
not again after the first error. -/
def fillLoop (errat : Option Nat) : Nat → Nat → List Nat → List Nat × Bool
  | 0, _, acc => (acc, true)
  | k + 1, i, acc => if errat = some i then (acc ++ [i], false) else fillLoop errat k (i + 1) (acc ++ [i])

theorem fillLoop_spec (errat : Option Nat) : ∀ k i acc,
    (fillLoop errat k i acc).1 = acc ++ (List.range' i (match errat with
      | some e => if i ≤ e ∧ e < i + k then e + 1 - i else k
      | none => k)) := by
  intro k
  induction k with
  | zero =>
    intro i acc
    cases errat with
    | none => simp [fillLoop]
    | some e =>
      simp only [fillLoop, Nat.add_zero]
      have : ¬ (i ≤ e ∧ e < i) := by omega
      simp [this]
  | succ k ih =>
    intro i acc
    unfold fillLoop
    by_cases he : errat = some i
    · subst he
      simp only [↓reduceIte]
      have : i ≤ i ∧ i < i + (k + 1) := ⟨Nat.le_refl _, by omega⟩
      simp only [this, and_self, ↓reduceIte]
      have : i + 1 - i = 1 := by omega
      rw [this]; simp [List.range']
    · simp only [he, ↓reduceIte]
      rw [ih]
      cases errat with
      | none => simp [List.range'_succ, List.append_assoc]
      | some e =>
        have hne : e ≠ i := fun hh => he (by rw [hh])
        simp only
        by_cases hc : i ≤ e ∧ e < i + (k + 1)
        · have hc' : i + 1 ≤ e ∧ e < i + 1 + k := by omega
          simp only [hc, hc', and_self, ↓reduceIte]
          have : e + 1 - i = (e + 1 - (i + 1)) + 1 := by omega
          rw [this, List.range'_succ]; simp [List.append_assoc]
        · have hc' : ¬ (i + 1 ≤ e ∧ e < i + 1 + k) := by omega
          simp only [hc, hc', ↓reduceIte]
          rw [List.range'_succ]; simp [List.append_assoc]

example : (allocTryWith 160 1000 4 false [] false { a := ⟨1, [⟨4096, 112, 16, 4160, 64⟩], none⟩, ans := [some 8192] }).1.a.chunks
    = [⟨8192, 2032, 16, 10176, 2048⟩, ⟨4096, 112, 16, 4160, 64⟩] := by decide

end Bump.C11

#print axioms Bump.C11.init_not_run_on_alloc_failure
#print axioms Bump.C11.no_residue
#print axioms Bump.C11.inner_blocks_kept
#print axioms Bump.C11.fill_no_residue
#print axioms Bump.C11.ok_keeps_slot
#print axioms Bump.C11.fillLoop_spec
