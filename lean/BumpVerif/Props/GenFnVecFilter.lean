import BumpVerif.Gen.FnVecFilter
import BumpVerif.Props.GenFnVecDrain
/-!
# `Vec::drain_filter`, `DrainFilter::{next, drop}` and its `BackshiftOnDrop` guard as translated = the model's `dfNext`, `dfBackshift`, `dfDrop`

`DrainFilter`'s fields must survive a panic of the predicate (`panic_flag` is set *for* the unwinding destructor to see):
these methods are translated to return `Except Unit value × fields`, `.error ()` = the method unwound with these field
values.  The predicate is data (`pred k e` = the answer of its `k`-th call, `none` = that call panics; the call is counted
before its answer is known); that it may write through the `&mut T` it is handed is not modelled.
-/
namespace Bump.V
open Bump Rs RsV RsM

/-- `drain_filter(f)`: remember the length, set it to 0 (leak amplification guard), start at 0 -/
theorem gen_vec_drain_filter (c : Cfg) (cb : Nat → Elem → Option Bool) (v : VS) (w : W) :
    Gen.Fn.vec_drain_filter c cb (v, w) = ((({ v with len := 0 } : VS), w), .ok ⟨0, 0, v.len, 0, false⟩) := by
  simp [Gen.Fn.vec_drain_filter, gen_vec_len, gen_vec_set_len, pureW, bindW]

/-! ## the guard -/

theorem dfBackshift_eq (c : Cfg) (v : VS) (s : DF) (w : W) :
    dfBackshift c v s w =
      if s.idx < s.oldLen ∧ s.del > 0 then
        ({ (v.copy c s.idx (s.idx - s.del) (s.oldLen - s.idx) w).1 with len := s.oldLen - s.del }, (v.copy c s.idx (s.idx - s.del) (s.oldLen - s.idx) w).2)
      else ({ v with len := s.oldLen - s.del }, w) := by
  unfold dfBackshift
  by_cases h : s.idx < s.oldLen ∧ s.del > 0
  · rw [if_pos h, if_pos h]
  · rw [if_neg h, if_neg h]

/-- `BackshiftOnDrop::drop` as translated is the model's `dfBackshift` (it cannot unwind and changes no field) -/
theorem gen_df_backshift_drop (c : Cfg) (cb : Nat → Elem → Option Bool) (v : VS) (s : DF) (w : W)
    (h1 : s.del ≤ s.idx) (h2 : s.idx ≤ s.oldLen) :
    Gen.Fn.df_backshift_drop c cb s.idx s.del s.oldLen s.calls s.panicFlag (v, w) =
      (dfBackshift c v s w, .ok (.ok (), s.idx, s.del, s.oldLen, s.calls, s.panicFlag)) := by
  have h3 : s.del ≤ s.oldLen := by omega
  rw [dfBackshift_eq]
  unfold Gen.Fn.df_backshift_drop
  by_cases h : s.idx < s.oldLen ∧ s.del > 0
  · have hd : (decide (s.idx < s.oldLen) && decide (s.del > 0)) = true := by simp [h.1, h.2]
    rw [if_pos hd, if_pos h]
    simp [h1, h2, h3, RsM.copy, bindW, Gen.Fn.df_backshift_drop.k_1, gen_vec_set_len, bindK]
  · have hd : (decide (s.idx < s.oldLen) && decide (s.del > 0)) = false := by
      simp only [Bool.and_eq_false_iff, decide_eq_false_iff_not]
      by_cases h' : s.idx < s.oldLen
      · right; intro h''; exact h ⟨h', h''⟩
      · left; exact h'
    rw [hd, if_neg h]
    simp [h3, Gen.Fn.df_backshift_drop.k_1, gen_vec_set_len, bindK]

/-! ## `next` -/

theorem copySlots_one (s : List (Option Elem)) (i j : Nat) (x : Option Elem) (hi : s[i]? = some x) (hj : j < i) :
    copySlots s i j 1 = s.set j x := by
  have hil : i < s.length := (List.getElem?_eq_some_iff.mp hi).1
  have hx : s[i] = x := (List.getElem?_eq_some_iff.mp hi).2
  have hd : s.drop i = x :: s.drop (i + 1) := by
    rw [← hx]; exact (List.getElem_cons_drop hil).symm
  unfold copySlots
  rw [hd, List.set_eq_take_append_cons_drop]
  have : j < s.length := by omega
  simp [this]

/-- moving one initialised slot down is writing its value there -/
theorem copy_one_eq_write (c : Cfg) (v : VS) (i j : Nat) (e : Elem) (w : W) (hr : v.read i = some e) (hj : j < i) :
    v.copy c i j 1 w = v.write c j e w := by
  have hsi : v.slots[i]? = some (some e) := by
    unfold VS.read at hr
    cases h : v.slots[i]? with
    | none => simp [h] at hr
    | some x => simp [h] at hr; simp [hr]
  have hi : i < v.slots.length := (List.getElem?_eq_some_iff.mp hsi).1
  have hm : max i j + 1 ≤ v.slots.length := by omega
  have hj1 : j + 1 ≤ v.slots.length := by omega
  unfold VS.copy VS.write
  simp only [Nat.one_ne_zero, if_false, need_ok c v _ w _ hm, need_ok c v _ w _ hj1, copySlots_one v.slots i j (some e) hsi hj]

theorem write_w_of_read (c : Cfg) (v : VS) (i j : Nat) (e e' : Elem) (w : W) (hr : v.read i = some e) (hj : j < i) :
    (v.write c j e' w).2 = w := by
  have hsi : v.slots[i]? = some (some e) := by
    unfold VS.read at hr
    cases h : v.slots[i]? with
    | none => simp [h] at hr
    | some x => simp [h] at hr; simp [hr]
  have hi : i < v.slots.length := (List.getElem?_eq_some_iff.mp hsi).1
  unfold VS.write
  simp only [need_ok c v _ w _ (show j + 1 ≤ v.slots.length by omega)]

/-! the model's `dfNext`, case by case -/

theorem dfNext_done (c : Cfg) (cb : Nat → Elem → Option Bool) (f : Nat) (v : VS) (s : DF) (w : W) (h : s.idx = s.oldLen) :
    dfNext c cb (f + 1) v s w = (v, s, w, some none) := by
  conv => lhs; unfold dfNext
  rw [if_pos h]

theorem dfNext_ub (c : Cfg) (cb : Nat → Elem → Option Bool) (f : Nat) (v : VS) (s : DF) (w : W) (h : ¬ s.idx = s.oldLen)
    (hr : v.read s.idx = none) :
    dfNext c cb (f + 1) v s w = (v, s, w.flag "drain_filter read an uninitialised slot", some none) := by
  conv => lhs; unfold dfNext
  rw [if_neg h]
  show (match v.read s.idx with | none => _ | some e => _) = _
  rw [hr]

theorem dfNext_step (c : Cfg) (cb : Nat → Elem → Option Bool) (f : Nat) (v : VS) (s : DF) (w : W) (e : Elem) (h : ¬ s.idx = s.oldLen)
    (hr : v.read s.idx = some e) :
    dfNext c cb (f + 1) v s w =
      match cb s.calls e with
      | none => (v, { s with calls := s.calls + 1, panicFlag := true }, w, none)
      | some true => (v, { s with idx := s.idx + 1, del := s.del + 1, calls := s.calls + 1 }, w, some (some e))
      | some false =>
        if s.del > 0 then
          dfNext c cb f (v.write c (s.idx - s.del) e w).1 { s with idx := s.idx + 1, calls := s.calls + 1 } (v.write c (s.idx - s.del) e w).2
        else dfNext c cb f v { s with idx := s.idx + 1, calls := s.calls + 1 } w := by
  conv => lhs; unfold dfNext
  rw [if_neg h]
  show (match v.read s.idx with | none => _ | some e => _) = _
  rw [hr]
  rfl

/-- the translation's result shape seen as the model's -/
def dfView {α : Type} : VW × Outcome (Except Unit α × Nat × Nat × Nat × Nat × Bool) → Option (VS × DF × W × Option α)
  | (s, .ok (.ok x, i, d, o, k, p)) => some (s.1, ⟨i, d, o, k, p⟩, s.2, some x)
  | (s, .ok (.error _, i, d, o, k, p)) => some (s.1, ⟨i, d, o, k, p⟩, s.2, none)
  | (_, _) => none

/-- `DrainFilter::next` as translated is the model's `dfNext`, wherever the model records no UB step -/
theorem gen_df_next_loop (c : Cfg) (cb : Nat → Elem → Option Bool) (i0 d0 k0 : Nat) (p0 : Bool) :
    ∀ (f F : Nat) (v : VS) (s : DF) (w : W), s.oldLen - s.idx < f → s.oldLen - s.idx < F → s.idx ≤ s.oldLen → s.del ≤ s.idx →
      s.oldLen < USIZE → s.panicFlag = false → (dfNext c cb f v s w).2.2.1.bad = w.bad →
      dfView (Gen.Fn.df_next.loop_1 c cb i0 d0 s.oldLen k0 p0 F s.del s.idx s.panicFlag s.calls (v, w)) = some (dfNext c cb f v s w) := by
  intro f
  induction f with
  | zero => intro F v s w h; omega
  | succ f ih =>
    intro F v s w hf hF hio hdi hU hpf hbad
    obtain ⟨idx, del, old, calls, pf⟩ := s
    simp only at hf hF hio hdi hU hpf hbad ⊢
    subst hpf
    cases F with
    | zero => omega
    | succ F =>
      unfold Gen.Fn.df_next.loop_1
      by_cases hdone : idx = old
      · have hb : (idx != old) = false := by simp [hdone]
        rw [dfNext_done c cb f v _ w (by exact hdone), hb]
        rfl
      · have hb : (idx != old) = true := by simp [hdone]
        have hlt : idx < old := by omega
        have hdl : decide (idx < old) = true := by simpa using hlt
        simp only [hb, if_true, hdl, Nat.zero_add, RsM.read]
        cases hr : v.read idx with
        | none =>
          rw [dfNext_ub c cb f v _ w (by exact hdone) (by exact hr)] at hbad
          simp [W.flag] at hbad
        | some e =>
          rw [dfNext_step c cb f v _ w e (by exact hdone) (by exact hr)] at hbad ⊢
          simp only [] at hbad ⊢
          have h1 : idx + 1 < USIZE := by omega
          have h2 : del + 1 < USIZE := by omega
          cases hcb : cb calls e with
          | none => rfl
          | some ans =>
            rw [hcb] at hbad
            cases ans with
            | true => simp [h1, h2, hr, dfView]
            | false =>
              simp only [h1, if_true, Bool.false_eq_true, if_false] at hbad ⊢
              by_cases hd : del > 0
              · have hdd : decide (del > 0) = true := by simpa using hd
                have hle : del ≤ idx := hdi
                have hlt2 : decide (idx - del < old) = true := by simp; omega
                have hno : idx - del + 1 ≤ idx := by omega
                rw [if_pos hd] at hbad ⊢
                simp only [hdd, if_true, hle, hlt2, RsM.copy_nonoverlapping, Or.inr hno, bindW,
                  copy_one_eq_write c v idx (idx - del) e w hr (by omega)]
                have hw := write_w_of_read c v idx (idx - del) e e w hr (by omega)
                rw [hw] at hbad
                have := ih F (v.write c (idx - del) e w).1 ⟨idx + 1, del, old, calls + 1, false⟩ (v.write c (idx - del) e w).2
                  (by simp; omega) (by simp; omega) (by simp; omega) (by simp; omega) hU rfl (by rw [hw]; exact hbad)
                exact this
              · have hdd : decide (del > 0) = false := by simpa using hd
                rw [if_neg hd] at hbad ⊢
                simp only [hdd, Bool.false_eq_true, if_false]
                exact ih F v ⟨idx + 1, del, old, calls + 1, false⟩ w (by simp; omega) (by simp; omega) (by simp; omega) (by simp; omega) hU rfl hbad

/-- `DrainFilter::next` as translated is the model's `dfNext` with the fuel the model's callers give it -/
theorem gen_df_next (c : Cfg) (cb : Nat → Elem → Option Bool) (v : VS) (s : DF) (w : W)
    (h1 : s.idx ≤ s.oldLen) (h2 : s.del ≤ s.idx) (hU : s.oldLen < USIZE) (hp : s.panicFlag = false)
    (hbad : (dfNext c cb (s.oldLen - s.idx + 1) v s w).2.2.1.bad = w.bad) :
    dfView (Gen.Fn.df_next c cb s.idx s.del s.oldLen s.calls s.panicFlag (v, w)) = some (dfNext c cb (s.oldLen - s.idx + 1) v s w) := by
  unfold Gen.Fn.df_next
  exact gen_df_next_loop c cb _ _ _ _ (s.oldLen - s.idx + 1) USIZE v s w (by omega) (by omega) h1 h2 hU hp hbad

/-! ## `Drop for DrainFilter` -/

theorem dfView_some {α : Type} {g : VW × Outcome (Except Unit α × Nat × Nat × Nat × Nat × Bool)} {v' : VS} {s' : DF} {w' : W} {r : Option α}
    (h : dfView g = some (v', s', w', r)) :
    ∃ x, g = ((v', w'), .ok (x, s'.idx, s'.del, s'.oldLen, s'.calls, s'.panicFlag)) ∧
      r = (match x with | .ok a => some a | .error _ => none) := by
  obtain ⟨⟨gv, gw⟩, o⟩ := g
  cases o with
  | ok val =>
    obtain ⟨x, i, d, ol, k, p⟩ := val
    cases x with
    | ok a => simp [dfView] at h; obtain ⟨h1, h2, h3, h4⟩ := h; subst h1 h2 h3 h4; exact ⟨.ok a, rfl, rfl⟩
    | error u => simp [dfView] at h; obtain ⟨h1, h2, h3, h4⟩ := h; subst h1 h2 h3 h4; exact ⟨.error u, rfl, rfl⟩
  | err => simp [dfView] at h
  | panic => simp [dfView] at h
  | bad why => simp [dfView] at h
  | envBad => simp [dfView] at h

theorem dfView_some' {α : Type} {g : VW × Outcome (Except Unit α × Nat × Nat × Nat × Nat × Bool)} {m : VS × DF × W × Option α}
    (h : dfView g = some m) :
    ∃ x, g = ((m.1, m.2.2.1), .ok (x, m.2.1.idx, m.2.1.del, m.2.1.oldLen, m.2.1.calls, m.2.1.panicFlag)) ∧
      m.2.2.2 = (match x with | .ok a => some a | .error _ => none) := by
  obtain ⟨v', s', w', r⟩ := m
  exact dfView_some h

theorem write_bad_prefix (c : Cfg) (v : VS) (i : Nat) (e : Elem) (w : W) : ∃ l, (v.write c i e w).2.bad = w.bad ++ l := by
  unfold VS.write VS.need
  simp only []
  split
  · exact ⟨[], by simp⟩
  · exact ⟨_, rfl⟩

/-- the model's `dfNext` only ever appends to the UB log -/
theorem dfNext_bad_prefix (c : Cfg) (cb : Nat → Elem → Option Bool) :
    ∀ (f : Nat) (v : VS) (s : DF) (w : W), ∃ l, (dfNext c cb f v s w).2.2.1.bad = w.bad ++ l := by
  intro f
  induction f with
  | zero => intro v s w; exact ⟨[], by simp [dfNext]⟩
  | succ f ih =>
    intro v s w
    by_cases hdone : s.idx = s.oldLen
    · rw [dfNext_done c cb f v s w hdone]; exact ⟨[], by simp⟩
    · cases hr : v.read s.idx with
      | none => rw [dfNext_ub c cb f v s w hdone hr]; exact ⟨_, rfl⟩
      | some e =>
        rw [dfNext_step c cb f v s w e hdone hr]
        cases cb s.calls e with
        | none => exact ⟨[], by simp⟩
        | some ans =>
          cases ans with
          | true => exact ⟨[], by simp⟩
          | false =>
            simp only []
            by_cases hd : s.del > 0
            · rw [if_pos hd]
              obtain ⟨l1, h1⟩ := write_bad_prefix c v (s.idx - s.del) e w
              obtain ⟨l2, h2⟩ := ih (v.write c (s.idx - s.del) e w).1 { s with idx := s.idx + 1, calls := s.calls + 1 } (v.write c (s.idx - s.del) e w).2
              exact ⟨l1 ++ l2, by rw [h2, h1, List.append_assoc]⟩
            · rw [if_neg hd]; exact ih _ _ _

/-- what `dfNext` does to the bookkeeping fields -/
theorem dfNext_inv (c : Cfg) (cb : Nat → Elem → Option Bool) :
    ∀ (f : Nat) (v : VS) (s : DF) (w : W), s.idx ≤ s.oldLen → s.del ≤ s.idx → s.panicFlag = false →
      (dfNext c cb f v s w).2.1.oldLen = s.oldLen ∧ (dfNext c cb f v s w).2.1.idx ≤ s.oldLen ∧
      (dfNext c cb f v s w).2.1.del ≤ (dfNext c cb f v s w).2.1.idx ∧
      ((dfNext c cb f v s w).2.2.2 ≠ none → (dfNext c cb f v s w).2.1.panicFlag = false) ∧
      (∀ e, (dfNext c cb f v s w).2.2.2 = some (some e) → s.idx < (dfNext c cb f v s w).2.1.idx) := by
  intro f
  induction f with
  | zero => intro v s w h1 h2 h3; simp [dfNext, h1, h2, h3]
  | succ f ih =>
    intro v s w h1 h2 h3
    by_cases hdone : s.idx = s.oldLen
    · rw [dfNext_done c cb f v s w hdone]; simp [h1, h2, h3]
    · cases hr : v.read s.idx with
      | none => rw [dfNext_ub c cb f v s w hdone hr]; simp [h1, h2, h3]
      | some e =>
        rw [dfNext_step c cb f v s w e hdone hr]
        cases cb s.calls e with
        | none => simp [h1, h2]
        | some ans =>
          cases ans with
          | true => simp [h3]; omega
          | false =>
            simp only []
            have hlt : s.idx < s.oldLen := by omega
            by_cases hd : s.del > 0
            · rw [if_pos hd]
              have := ih (v.write c (s.idx - s.del) e w).1 { s with idx := s.idx + 1, calls := s.calls + 1 } (v.write c (s.idx - s.del) e w).2
                (by simp; omega) (by simp; omega) (by simp [h3])
              simp only [] at this
              obtain ⟨a1, a2, a3, a4, a5⟩ := this
              exact ⟨a1, a2, a3, a4, fun e' he' => by have := a5 e' he'; omega⟩
            · rw [if_neg hd]
              have := ih v { s with idx := s.idx + 1, calls := s.calls + 1 } w (by simp; omega) (by simp; omega) (by simp [h3])
              simp only [] at this
              obtain ⟨a1, a2, a3, a4, a5⟩ := this
              exact ⟨a1, a2, a3, a4, fun e' he' => by have := a5 e' he'; omega⟩

theorem dfDrain_succ (c : Cfg) (cb : Nat → Elem → Option Bool) (f : Nat) (v : VS) (s : DF) (w : W) :
    dfDrain c cb (f + 1) v s w =
      match (dfNext c cb (s.oldLen - s.idx + 1) v s w).2.2.2 with
      | none => ((dfNext c cb (s.oldLen - s.idx + 1) v s w).1, (dfNext c cb (s.oldLen - s.idx + 1) v s w).2.1,
                 (dfNext c cb (s.oldLen - s.idx + 1) v s w).2.2.1, false)
      | some none => ((dfNext c cb (s.oldLen - s.idx + 1) v s w).1, (dfNext c cb (s.oldLen - s.idx + 1) v s w).2.1,
                      (dfNext c cb (s.oldLen - s.idx + 1) v s w).2.2.1, true)
      | some (some e) =>
        if (dropElem c (dfNext c cb (s.oldLen - s.idx + 1) v s w).2.2.1 e).2 then
          ((dfNext c cb (s.oldLen - s.idx + 1) v s w).1, (dfNext c cb (s.oldLen - s.idx + 1) v s w).2.1,
           (dropElem c (dfNext c cb (s.oldLen - s.idx + 1) v s w).2.2.1 e).1, false)
        else dfDrain c cb f (dfNext c cb (s.oldLen - s.idx + 1) v s w).1 (dfNext c cb (s.oldLen - s.idx + 1) v s w).2.1
               (dropElem c (dfNext c cb (s.oldLen - s.idx + 1) v s w).2.2.1 e).1 := by
  conv => lhs; unfold dfDrain
  generalize dfNext c cb (s.oldLen - s.idx + 1) v s w = m
  obtain ⟨v', s', w', r⟩ := m
  cases r with
  | none => rfl
  | some r' => cases r' <;> rfl

theorem dfDrain_bad_prefix (c : Cfg) (cb : Nat → Elem → Option Bool) :
    ∀ (f : Nat) (v : VS) (s : DF) (w : W), ∃ l, (dfDrain c cb f v s w).2.2.1.bad = w.bad ++ l := by
  intro f
  induction f with
  | zero => intro v s w; exact ⟨[], by simp [dfDrain]⟩
  | succ f ih =>
    intro v s w
    rw [dfDrain_succ]
    obtain ⟨l1, h1⟩ := dfNext_bad_prefix c cb (s.oldLen - s.idx + 1) v s w
    cases (dfNext c cb (s.oldLen - s.idx + 1) v s w).2.2.2 with
    | none => exact ⟨l1, h1⟩
    | some r =>
      cases r with
      | none => exact ⟨l1, h1⟩
      | some e =>
        simp only []
        split
        · exact ⟨l1, by simp only [dropElem_bad]; exact h1⟩
        · obtain ⟨l2, h2⟩ := ih (dfNext c cb (s.oldLen - s.idx + 1) v s w).1 (dfNext c cb (s.oldLen - s.idx + 1) v s w).2.1
            (dropElem c (dfNext c cb (s.oldLen - s.idx + 1) v s w).2.2.1 e).1
          exact ⟨l1 ++ l2, by rw [h2, dropElem_bad, h1, List.append_assoc]⟩

/-- the translation's destructor result seen as the model's: `true` = it returned, `false` = it unwound -/
def dfDropView : VW × Outcome (Except Unit Unit × Nat × Nat × Nat × Nat × Bool) → Option (VS × W × Bool)
  | (s, .ok (.ok _, _)) => some (s.1, s.2, true)
  | (s, .ok (.error _, _)) => some (s.1, s.2, false)
  | (_, _) => none

theorem gen_df_drop_k (c : Cfg) (cb : Nat → Elem → Option Bool) (j1 j2 j3 j4 : Nat) (j5 : Bool) (v : VS) (s : DF) (w : W)
    (h1 : s.del ≤ s.idx) (h2 : s.idx ≤ s.oldLen) :
    dfDropView (Gen.Fn.df_drop.k_1 c cb j1 j2 j3 j4 j5 s.idx s.del s.oldLen s.calls s.panicFlag (v, w)) =
      some ((dfBackshift c v s w).1, (dfBackshift c v s w).2, true) := by
  unfold Gen.Fn.df_drop.k_1
  rw [gen_df_backshift_drop c cb v s w h1 h2]
  rfl

theorem gen_df_drain_loop (c : Cfg) (cb : Nat → Elem → Option Bool) (j1 j2 j3 j4 : Nat) (j5 : Bool) :
    ∀ (f F : Nat) (v : VS) (s : DF) (w : W), s.oldLen - s.idx < f → s.oldLen - s.idx < F → s.idx ≤ s.oldLen → s.del ≤ s.idx →
      s.oldLen < USIZE → s.panicFlag = false → (dfDrain c cb f v s w).2.2.1.bad = w.bad →
      dfDropView (Gen.Fn.df_drop.loop_2 c cb j1 j2 j3 j4 j5 F s.idx s.del s.oldLen s.calls s.panicFlag (v, w)) =
        some ((dfBackshift c (dfDrain c cb f v s w).1 (dfDrain c cb f v s w).2.1 (dfDrain c cb f v s w).2.2.1).1,
              (dfBackshift c (dfDrain c cb f v s w).1 (dfDrain c cb f v s w).2.1 (dfDrain c cb f v s w).2.2.1).2,
              (dfDrain c cb f v s w).2.2.2) := by
  intro f
  induction f with
  | zero => intro F v s w h; omega
  | succ f ih =>
    intro F v s w hf hF hio hdi hU hpf hbad
    cases F with
    | zero => omega
    | succ F =>
      obtain ⟨l1, hl1⟩ := dfNext_bad_prefix c cb (s.oldLen - s.idx + 1) v s w
      obtain ⟨i1, i2, i3, i4, i5⟩ := dfNext_inv c cb (s.oldLen - s.idx + 1) v s w hio hdi hpf
      have hnext := fun hb => dfView_some' (gen_df_next c cb v s w hio hdi hU hpf hb)
      rw [dfDrain_succ] at hbad ⊢
      unfold Gen.Fn.df_drop.loop_2
      -- from here on the model's `next` is an opaque result `(v', s', w', r)`
      generalize dfNext c cb (s.oldLen - s.idx + 1) v s w = m at hl1 i1 i2 i3 i4 i5 hbad hnext ⊢
      obtain ⟨v', s', w', r⟩ := m
      simp only at hl1 i1 i2 i3 i4 i5 hbad hnext ⊢
      rw [← i1] at i2
      cases r with
      | none =>
        simp only at hbad
        obtain ⟨x, hg, hx⟩ := hnext hbad
        cases x with
        | ok a => simp at hx
        | error u =>
          rw [hg]
          simp only [bindW]
          rw [gen_df_backshift_drop c cb v' s' w' i3 i2]
          rfl
      | some r =>
        cases r with
        | none =>
          simp only at hbad
          obtain ⟨x, hg, hx⟩ := hnext hbad
          cases x with
          | error u => simp at hx
          | ok a =>
            simp at hx
            subst hx
            rw [hg]
            simp only [bindW]
            exact gen_df_drop_k c cb _ _ _ _ _ v' s' w' i3 i2
        | some e =>
          simp only at hbad
          have hprog := i5 e rfl
          have hpf' := i4 (by simp)
          have hmb : w'.bad = w.bad := by
            by_cases hp : (dropElem c w' e).2 = true
            · rw [if_pos hp] at hbad
              simp only [dropElem_bad] at hbad
              exact hbad
            · rw [if_neg hp] at hbad
              obtain ⟨l2, hl2⟩ := dfDrain_bad_prefix c cb f v' s' (dropElem c w' e).1
              rw [hl2, dropElem_bad, hl1, List.append_assoc] at hbad
              have : l1 ++ l2 = [] := by
                have := congrArg List.length hbad
                simp at this
                exact List.eq_nil_of_length_eq_zero (by simp; omega)
              have hl1' : l1 = [] := (List.append_eq_nil_iff.mp this).1
              rw [hl1, hl1']; simp
          obtain ⟨x, hg, hx⟩ := hnext hmb
          cases x with
          | error u => simp at hx
          | ok a =>
            simp at hx
            subst hx
            rw [hg]
            simp only [bindW, RsM.drop_local]
            by_cases hp : (dropElem c w' e).2 = true
            · rw [if_pos hp, hp]
              simp only [if_true, bindK]
              rw [gen_df_backshift_drop c cb v' s' _ i3 i2]
              rfl
            · have hpf2 : (dropElem c w' e).2 = false := by simpa using hp
              rw [if_neg hp] at hbad ⊢
              rw [hpf2]
              simp only [Bool.false_eq_true, if_false, bindK]
              have hb2 : (dfDrain c cb f v' s' (dropElem c w' e).1).2.2.1.bad = (dropElem c w' e).1.bad := by
                rw [hbad, dropElem_bad, hmb]
              exact ih F v' s' (dropElem c w' e).1 (by rw [i1]; omega) (by rw [i1]; omega) i2 i3 (by rw [i1]; exact hU) hpf' hb2

/-- `Drop for DrainFilter` (with its `BackshiftOnDrop` guard running at the end and while unwinding) as translated is the
model's `dfDrop`, wherever the model records no UB step -/
theorem gen_df_drop (c : Cfg) (cb : Nat → Elem → Option Bool) (v : VS) (s : DF) (w : W)
    (h1 : s.idx ≤ s.oldLen) (h2 : s.del ≤ s.idx) (hU : s.oldLen < USIZE)
    (hbad : (dfDrain c cb (s.oldLen - s.idx + 1) v s w).2.2.1.bad = w.bad) :
    dfDropView (Gen.Fn.df_drop c cb s.idx s.del s.oldLen s.calls s.panicFlag (v, w)) = some (dfDrop c cb v s w) := by
  rw [dfDrop_unfold]
  unfold Gen.Fn.df_drop
  cases hp : s.panicFlag with
  | true =>
    simp only [Bool.not_true, Bool.false_eq_true, if_false, if_true]
    have := gen_df_drop_k c cb s.idx s.del s.oldLen s.calls s.panicFlag v s w h2 h1
    rw [hp] at this
    exact this
  | false =>
    simp only [Bool.not_false, if_true, Bool.false_eq_true, if_false]
    have := gen_df_drain_loop c cb s.idx s.del s.oldLen s.calls s.panicFlag (s.oldLen - s.idx + 1) USIZE v s w
      (by omega) (by omega) h1 h2 hU hp hbad
    rw [hp] at this
    exact this

theorem retain_aux (m : VS × W × Bool) (v0 : VS) (w0 : W) :
    (match (if true = false then (m.1, m.2.1, (none : Option (List Elem)))
            else if false = true then (v0, w0, some [])
            else (m.1, m.2.1, if m.2.2 = true then some [] else none)) with
      | (v, w, some _) => (v, w, some ())
      | (v, w, none) => (v, w, none)) = (m.1, m.2.1, if m.2.2 = true then some () else none) := by
  obtain ⟨a, b, ok⟩ := m
  cases ok <;> simp

/-- the model's `retain`, through `drainFilterOp` with no `next` taken by the caller -/
theorem retain_eq (c : Cfg) (v : VS) (cb : Nat → Elem → Option Bool) (w : W) :
    V.retain c v cb w =
      ((dfDrop c (fun k e => (cb k e).map (!·)) { v with len := 0 } ⟨0, 0, v.len, 0, false⟩ w).1,
       (dfDrop c (fun k e => (cb k e).map (!·)) { v with len := 0 } ⟨0, 0, v.len, 0, false⟩ w).2.1,
       if (dfDrop c (fun k e => (cb k e).map (!·)) { v with len := 0 } ⟨0, 0, v.len, 0, false⟩ w).2.2 then some () else none) := by
  unfold V.retain
  rw [drainFilterOp_unfold]
  simp only [dfTake]
  exact retain_aux _ _ _

/-- `Vec::retain` as translated (`self.drain_filter(|x| !f(x));`, the iterator a temporary) is the model's `retain`,
wherever the model records no UB step -/
theorem gen_vec_retain (c : Cfg) (v : VS) (cb : Nat → Elem → Option Bool) (w : W) (hU : v.len < USIZE)
    (hbad : (dfDrain c (fun k e => (cb k e).map (!·)) (v.len + 1) { v with len := 0 } ⟨0, 0, v.len, 0, false⟩ w).2.2.1.bad = w.bad) :
    toModel (Gen.Fn.vec_retain c cb (v, w)) = V.retain c v cb w := by
  rw [retain_eq]
  unfold Gen.Fn.vec_retain
  rw [gen_vec_drain_filter]
  simp only [bindW]
  have h := gen_df_drop c (fun k e => (cb k e).map (!·)) { v with len := 0 } ⟨0, 0, v.len, 0, false⟩ w (by simp) (by simp) (by simpa using hU)
    (by simpa using hbad)
  simp only [] at h
  generalize dfDrop c (fun k e => (cb k e).map (!·)) { v with len := 0 } ⟨0, 0, v.len, 0, false⟩ w = m at h ⊢
  generalize Gen.Fn.df_drop c (fun k_ e_ => (cb k_ e_).map (!·)) 0 0 v.len 0 false (({ v with len := 0 } : VS), w) = g at h ⊢
  obtain ⟨⟨gv, gw⟩, o⟩ := g
  cases o with
  | ok val =>
    obtain ⟨x, rest⟩ := val
    cases x with
    | ok a => simp [dfDropView] at h; subst h; rfl
    | error u => simp [dfDropView] at h; subst h; rfl
  | err => simp [dfDropView] at h
  | panic => simp [dfDropView] at h
  | bad why => simp [dfDropView] at h
  | envBad => simp [dfDropView] at h

#print axioms gen_vec_retain
#print axioms gen_vec_drain_filter
#print axioms gen_df_backshift_drop
#print axioms gen_df_next
#print axioms gen_df_drop

/-- `DrainFilter::size_hint`: `(0, Some(old_len - idx))` — at most the elements not yet visited; the fields do not change -/
theorem gen_df_size_hint (c : Cfg) (cb : Nat → Elem → Option Bool) (idx del oldLen calls : Nat) (pf : Bool) (h : idx ≤ oldLen) :
    Gen.Fn.df_size_hint c cb idx del oldLen calls pf = .ok (.ok (0, some (oldLen - idx)), idx, del, oldLen, calls, pf) := by
  simp [Gen.Fn.df_size_hint, h]

#print axioms gen_df_size_hint

end Bump.V
