import BumpVerif.Props.GenFnArith
import BumpVerif.Gen.FnBytes
/-! # The translated accounting getters of `src/lib.rs` (`allocated_bytes`, `chunk_capacity`) equal the hand-written model -/
namespace Bump
open Rs Gen

theorem gen_allocated_bytes (E M : Nat) (s : St) :
    Gen.Fn.allocated_bytes E M s = .ok (s.a.allocatedBytes E) := rfl

/-- `chunk_capacity`: `ptr - data` of the current chunk (the subtraction cannot wrap when `data ≤ ptr`) -/
theorem gen_chunk_capacity (E M : Nat) (s : St) (h : (s.a.cur E).data ≤ (s.a.cur E).ptr) :
    Gen.Fn.chunk_capacity E M s = .ok (chunkCapacity s.a E) := by
  simp only [Gen.Fn.chunk_capacity, chunkCapacity, h, if_true]

#print axioms gen_allocated_bytes
#print axioms gen_chunk_capacity
end Bump
