import BumpVerif.Proofs.VecCore
import BumpVerif.Proofs.VecFilter
import BumpVerif.Proofs.VecDrain
import BumpVerif.Proofs.VecMore
/-!
# C13 (Vec part) — `bumpalo::collections::Vec` refines the `List` specification

Abstraction: `abs v = (v.slots.take v.len).filterMap id` (`Bump.V.abs`); `RepB c v xs` says that
`v` represents `xs` (`abs v = xs`, every slot below `len` initialised, `len ≤ capacity()`, the
buffer has `cap` slots, machine bounds on `cap`); `RepB c v xs ↔` well-formed `∧ abs v = xs`
(`C13_rep_abs`).  For each method: the result represents `specM xs`, the returned value is the
spec's, and it panics exactly when the spec's precondition fails (index out of range, or the
growth is refused: capacity overflow / the arena refuses).  All statements hold for every
`Cfg` (sized and zero-sized elements, both `overflowChecks` settings, both debug settings).

Full list of the property and its status here:
* proved below: push, pop, insert, remove, swap_remove, truncate, clear, append, split_off, drain (all
  range forms: acceptance condition, profile independence, contents, returned items from both ends),
  retain, drain_filter (also dropped early), into_iter (front and back), reserve / reserve_exact /
  try_reserve(_exact) (`cap ≥ len + n`, growth `max(2·cap, len + n)`), `len ≤ cap` as part of `RepB`
  in every conclusion;
* NOT proved here (covered by the correspondence run — model = crate on every call — and the
  `std::vec::Vec` side-by-side oracle only): resize, extend, extend_from_slice(_copy),
  extend_from_slices_copy, splice, dedup(_by/_by_key), shrink_to_fit, clone, into_boxed_slice,
  from_iter_in/collect_in, vec!, io::Write.
-/
namespace Bump.V.C13
open Bump Bump.V

/-- the representation relation determines the abstraction -/
theorem C13_rep_abs {c : Cfg} {v : VS} {xs : List Elem} (h : RepB c v xs) : abs v = xs ∧ v.len ≤ capOf c v :=
  ⟨h.toRep.abs_eq, h.lenCap⟩

/-- `reserve(n)` / `try_reserve(n)` (amortized or exact) that returns: contents unchanged,
`capacity() ≥ len + n`, and the new `cap` is `len + n` (exact) or `max(2·cap, len + n)` -/
theorem C13_reserve {c : Cfg} {v v' : VS} {xs : List Elem} {n : Nat} {exact : Bool} (hc : CfgOK c) (h : RepB c v xs)
    (hr : reserveOp c v n exact = .ok v') :
    RepB c v' xs ∧ v.len + n ≤ capOf c v' ∧
      (v' = v ∨ (c.esz ≠ 0 ∧ capOf c v < v.len + n ∧ v'.cap = (if exact then v.len + n else max (v.cap * 2) (v.len + n)))) :=
  reserveGen_ok hc h (Nat.le_refl _) h.lenCap hr

/-- `push` appends, or panics because the growth was refused (then nothing changes and the
value is dropped by the unwinding) -/
theorem C13_push {c : Cfg} {v : VS} {xs : List Elem} (hc : CfgOK c) (h : RepB c v xs) (e : Elem) (w : W) :
    (∃ v', push c v e w = (v', w, some ()) ∧ RepB c v' (xs ++ [e])) ∨
    (push c v e w = (v, (dropElem c w e).1, none) ∧ v.len = capOf c v ∧ rawReserve c v v.len 1 = none) :=
  push_spec hc h e w

/-- `pop` returns the last element (or `None` on an empty vector) and never panics -/
theorem C13_pop {c : Cfg} {v : VS} {xs : List Elem} (h : RepB c v xs) (w : W) :
    (xs = [] ∧ pop v w = (v, w, none)) ∨
    (∃ (hne : xs ≠ []) (v' : VS), pop v w = (v', w.moved (xs.getLast hne), some (xs.getLast hne)) ∧ RepB c v' xs.dropLast) :=
  pop_spec h w

/-- `insert(i, e)`: panics iff `i > len` (or the growth is refused); else `e` lands at `i`
(`xs.take i ++ e :: xs.drop i = xs.insertIdx i e`) -/
theorem C13_insert {c : Cfg} {v : VS} {xs : List Elem} (hc : CfgOK c) (h : RepB c v xs) (i : Nat) (e : Elem) (w : W) :
    (i ≤ xs.length ∧ ∃ v', insert c v i e w = (v', w, some ()) ∧ RepB c v' (xs.take i ++ e :: xs.drop i)) ∨
    (insert c v i e w = (v, (dropElem c w e).1, none) ∧
      (xs.length < i ∨ (v.len = capOf c v ∧ rawReserve c v v.len 1 = none))) :=
  insert_spec hc h i e w

/-- `remove(i)`: panics iff `i ≥ len` (nothing changes); else returns `xs[i]`, leaves `xs.eraseIdx i` -/
theorem C13_remove {c : Cfg} {v : VS} {xs : List Elem} (h : RepB c v xs) (i : Nat) (w : W) :
    (∃ (hi : i < xs.length) (v' : VS), remove c v i w = (v', w.moved xs[i], some xs[i]) ∧ RepB c v' (xs.eraseIdx i)) ∨
    (xs.length ≤ i ∧ remove c v i w = (v, w, none)) :=
  remove_spec h i w

/-- `swap_remove(i)`: panics iff `i ≥ len`; else returns `xs[i]` and the last element takes its place -/
theorem C13_swap_remove {c : Cfg} {v : VS} {xs : List Elem} (h : RepB c v xs) (i : Nat) (w : W) :
    (∃ (hi : i < xs.length) (v' : VS), swapRemove c v i w = (v', w.moved xs[i], some xs[i]) ∧
        RepB c v' ((xs.set i (xs.getLast (by intro h0; simp [h0] at hi))).dropLast)) ∨
    (xs.length ≤ i ∧ swapRemove c v i w = (v, w, none)) :=
  swapRemove_spec h i w

/-- `truncate(n)` with destructors that do not panic: keeps `xs.take n`, drops the rest (from
the back), never panics -/
theorem C13_truncate {c : Cfg} {v : VS} {xs : List Elem} (h : RepB c v xs) (n : Nat) (w : W) (hnp : c.dropPanicAt = none) :
    ∃ (v' : VS) (w' : W), truncate c v n w = (v', w', some ()) ∧ RepB c v' (xs.take n) ∧
      w'.evs = w.evs ++ dropEvs c (xs.drop n).reverse ∧ w'.bad = w.bad := by
  obtain ⟨m, v', w', r, hp, _, _, hr, hev, hb, _, hm, hnone⟩ := truncate_spec h n w
  have hr1 := hnone hnp
  have hm1 := hm hr1
  subst hr1
  refine ⟨v', w', hp, ?_, ?_, hb⟩
  · have : xs.take m = xs.take n := by rw [hm1]; simp [List.take_eq_take_iff]
    rw [← this]; exact hr
  · have : xs.drop m = xs.drop n := by
      rw [hm1]
      by_cases hle : n ≤ xs.length
      · rw [Nat.min_eq_left hle]
      · rw [Nat.min_eq_right (by omega), List.drop_of_length_le (Nat.le_refl _), List.drop_of_length_le (by omega)]
    rw [← this]; exact hev

/-- `clear()` = `truncate(0)` -/
theorem C13_clear {c : Cfg} {v : VS} {xs : List Elem} (h : RepB c v xs) (w : W) (hnp : c.dropPanicAt = none) :
    ∃ (v' : VS) (w' : W), clear c v w = (v', w', some ()) ∧ RepB c v' [] ∧ w'.evs = w.evs ++ dropEvs c xs.reverse := by
  obtain ⟨v', w', hp, hr, hev, _⟩ := C13_truncate h 0 w hnp
  exact ⟨v', w', hp, by simpa using hr, by simpa using hev⟩

/-- `drain_filter(f)` for a predicate that is a function of the element (and destructors that
do not panic): exactly the elements satisfying `f` are removed, in order, also when the
iterator is dropped after `take` calls of `next()` — the first `take` of them are returned, the
others dropped by its destructor; the rest stays in order.  Never panics. -/
theorem C13_drain_filter {c : Cfg} {v : VS} {xs : List Elem} (h : RepB c v xs) (f : Elem → Bool) (take : Nat) (w : W)
    (hnp : c.dropPanicAt = none) :
    ∃ v' w', drainFilterOp c v (fun _ e => some (f e)) take false w = (v', w', some ((xs.filter f).take take)) ∧
      RepB c v' (xs.filter (fun e => !f e)) ∧
      w'.evs = w.evs ++ movedEvs ((xs.filter f).take take) ++ dropEvs c ((xs.filter f).drop take) ∧ w'.bad = w.bad :=
  drainFilterOp_pure h f take w hnp

/-- `retain(f)` keeps exactly `xs.filter f`, drops the others in order, never panics -/
theorem C13_retain {c : Cfg} {v : VS} {xs : List Elem} (h : RepB c v xs) (f : Elem → Bool) (w : W)
    (hnp : c.dropPanicAt = none) :
    ∃ v' w', retain c v (fun _ e => some (f e)) w = (v', w', some ()) ∧ RepB c v' (xs.filter f) ∧
      w'.evs = w.evs ++ dropEvs c (xs.filter (fun e => !f e)) ∧ w'.bad = w.bad :=
  retain_pure h f w hnp

/-- `drain(range)` panics — before touching anything — exactly when the range is not
acceptable: a bound of `usize::MAX` that would have to be incremented, `start > end`, or
`end > len` (`DrainOK` spells this out) -/
theorem C13_drain_panics {c : Cfg} {v : VS} {xs : List Elem} (h : RepB c v xs) {s e : Bd}
    (hbad : ¬ ∃ st en, DrainOK c xs.length s e st en) (take back : Nat) (forget : Bool) (w : W) :
    drainOp c v s e take back forget w = (v, w, none) := by
  apply drainOp_panics
  rw [h.len]; exact hbad

/-- the acceptable ranges are the same in every build profile: `Included(usize::MAX)` as end
(or `Excluded(usize::MAX)` as start) is rejected with and without overflow checks (this was F7
on the pinned tree: without overflow checks the bound wrapped to 0; fixed in /repo, 894a021) -/
theorem C13_drain_range_all_profiles (c c' : Cfg) (len : Nat) (s e : Bd) (st en : Nat) :
    DrainOK c len s e st en ↔ DrainOK c' len s e st en := by
  have h1 : rangeStart c s = rangeStart c' s := by cases s <;> rfl
  have h2 : rangeEnd c len e = rangeEnd c' len e := by cases e <;> rfl
  simp [DrainOK, h1, h2]

theorem C13_drain_max_rejected (c : Cfg) (len st en : Nat) (s : Bd) : ¬ DrainOK c len s (.inc USIZE_MAX) st en := by
  intro h; have := h.2.1; simp [rangeEnd, succU, USIZE_MAX, USIZE] at this

/-- `drain(st..en)` on an acceptable range, iterator used `take` times from the front and
`back` times from the back and then dropped (destructors do not panic): those items are
returned in that order, the rest of the range is dropped, the vector keeps
`xs.take st ++ xs.drop en` -/
theorem C13_drain {c : Cfg} {v : VS} {xs : List Elem} (h : RepB c v xs) {s e : Bd} {st en : Nat}
    (hok : DrainOK c xs.length s e st en) (take back : Nat) (w : W) (hnp : c.dropPanicAt = none) :
    let k1 := min take (en - st)
    let k2 := min back (en - (st + k1))
    let front := (xs.drop st).take k1
    let backs := ((xs.take en).drop (en - k2)).reverse
    let left := (xs.drop (st + k1)).take (en - k2 - (st + k1))
    ∃ v' w', drainOp c v s e take back false w = (v', w', some (front ++ backs)) ∧ RepB c v' (xs.take st ++ xs.drop en) ∧
      w'.evs = w.evs ++ movedEvs (front ++ backs) ++ dropEvs c left ∧ w'.bad = w.bad := by
  intro k1 k2 front backs left
  obtain ⟨v', w', r, kd, fin, hrun, _, hev, hb, _, _, _, hfin, _, hnp', hrep⟩ := drainOp_spec h hok take back false w
  have hf := hnp' hnp rfl
  subst hf
  obtain ⟨hkd, hr⟩ := hfin rfl
  refine ⟨v', w', by rw [hrun, hr], by simpa using hrep, ?_, hb⟩
  rw [hev, hkd, List.take_length]

/-- `into_iter()` used `take` times from the front and `back` times from the back, then
dropped: those items in that order, the others dropped in order -/
theorem C13_into_iter {c : Cfg} {v : VS} {xs : List Elem} (h : RepB c v xs) (take back : Nat) (w : W) (hnp : c.dropPanicAt = none) :
    ∃ w', intoIterOp c v take back false w =
        (w', some (xs.take (min take xs.length) ++ (xs.drop (xs.length - min back (xs.length - min take xs.length))).reverse)) ∧
      w'.evs = w.evs ++ movedEvs (xs.take (min take xs.length) ++ (xs.drop (xs.length - min back (xs.length - min take xs.length))).reverse) ++
        dropEvs c ((xs.drop (min take xs.length)).take (xs.length - min back (xs.length - min take xs.length) - min take xs.length)) ∧
      w'.bad = w.bad := by
  obtain ⟨w', r, kd, hrun, _, hev, hb, hr, _, hnp'⟩ := intoIterOp_spec h take back false w
  obtain ⟨hne, hkd⟩ := hnp' hnp rfl
  cases r with
  | none => exact absurd rfl hne
  | some m =>
    have := hr m rfl
    subst this
    exact ⟨w', hrun, by rw [hev, hkd, List.take_length], hb⟩

/-- `append(&mut other)`: `other`'s elements move to the end, `other` becomes empty; panics
(nothing changes) only when the growth is refused -/
theorem C13_append {c : Cfg} {a b : VS} {xs ys : List Elem} (hc : CfgOK c) (ha : RepB c a xs) (hb : RepB c b ys) (w : W) :
    (∃ a' b', append c a b w = (a', b', w, some ()) ∧ RepB c a' (xs ++ ys) ∧ RepB c b' []) ∨
    (append c a b w = (a, b, w, none) ∧ rawReserve c a a.len b.len = none) := append_spec hc ha hb w

/-- `split_off(at)`: panics iff `at > len` (or the new buffer is refused); else `xs.take at`
stays and the returned vector holds `xs.drop at` -/
theorem C13_split_off {c : Cfg} {v : VS} {xs : List Elem} (hc : CfgOK c) (h : RepB c v xs) (at_ : Nat) (w : W) :
    (at_ ≤ xs.length ∧ ∃ v' o, splitOff c v at_ w = (v', some o, w) ∧ RepB c v' (xs.take at_) ∧ RepB c o (xs.drop at_)) ∨
    (splitOff c v at_ w = (v, none, w) ∧ (xs.length < at_ ∨ withCapacity c (xs.length - at_) = none)) :=
  splitOff_spec hc h at_ w

/-- non-vacuity: a concrete vector with a stale slot after `len` satisfies the hypotheses -/
example : RepB {} ⟨[some ⟨1, 10⟩, some ⟨2, 20⟩, some ⟨2, 20⟩, none], 2, 4⟩ [⟨1, 10⟩, ⟨2, 20⟩] :=
  ⟨⟨⟨[some ⟨2, 20⟩, none], rfl⟩, rfl, fun _ => rfl, by decide⟩, by decide, fun _ => by decide⟩
example : CfgOK {} := by unfold CfgOK; decide

end Bump.V.C13

#print axioms Bump.V.C13.C13_rep_abs
#print axioms Bump.V.C13.C13_reserve
#print axioms Bump.V.C13.C13_push
#print axioms Bump.V.C13.C13_pop
#print axioms Bump.V.C13.C13_insert
#print axioms Bump.V.C13.C13_remove
#print axioms Bump.V.C13.C13_swap_remove
#print axioms Bump.V.C13.C13_truncate
#print axioms Bump.V.C13.C13_clear
#print axioms Bump.V.C13.C13_drain_filter
#print axioms Bump.V.C13.C13_retain
#print axioms Bump.V.C13.C13_drain_panics
#print axioms Bump.V.C13.C13_drain_range_all_profiles
#print axioms Bump.V.C13.C13_drain_max_rejected
#print axioms Bump.V.C13.C13_drain
#print axioms Bump.V.C13.C13_into_iter
#print axioms Bump.V.C13.C13_append
#print axioms Bump.V.C13.C13_split_off
