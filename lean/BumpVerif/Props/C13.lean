import BumpVerif.Proofs.VecNth
import BumpVerif.Proofs.VecCore
import BumpVerif.Proofs.VecFilter
import BumpVerif.Proofs.VecDrain
import BumpVerif.Proofs.VecMore
import BumpVerif.Proofs.VecSplice
/-!
# C13 (Vec part) — `bumpalo::collections::Vec` refines the `List` specification

Abstraction: `abs v = (v.slots.take v.len).filterMap id` (`Bump.V.abs`); `RepB c v xs` says that
`v` represents `xs` (`abs v = xs`, every slot below `len` initialised, `len ≤ capacity()`, the
buffer has `cap` slots, machine bounds on `cap`); `RepB c v xs ↔` well-formed `∧ abs v = xs`
(`C13_rep_abs`).  For each method: the result represents `specM xs`, the returned value is the
spec's, and it panics exactly when the spec's precondition fails (index out of range, or the
growth is refused: capacity overflow / the arena refuses).  All statements hold for every
`Cfg` (sized and zero-sized elements, both `overflowChecks` settings, both debug settings).

Full list of the property and its status here:
* proved below: push, pop, insert, remove, swap_remove, truncate, clear, append, split_off, drain (all
  range forms: acceptance condition, profile independence, contents, returned items from both ends),
  retain, drain_filter (also dropped early), into_iter (front and back), reserve / reserve_exact /
  try_reserve(_exact) (`cap ≥ len + n`, growth `max(2·cap, len + n)`), `len ≤ cap` as part of `RepB`
  in every conclusion;
* second group (helper lemmas in `Proofs/VecRefine2.lean`, `Proofs/VecSplice.lean`): splice (every
  path: `C13_splice_any`; the returning one: `C13_splice`), extend / from_iter_in / collect_in (caller's
  iterator with any `size_hint`), extend_from_slice, clone, resize (both branches), extend_from_slice_copy,
  extend_from_slices_copy, io::Write, dedup_by / dedup / dedup_by_key (comparison = function of the two
  elements), shrink_to_fit, into_boxed_slice, vec! (both forms).
  "Does not panic" is stated under `GrowOK c N` (the arena serves every buffer of up to `2·N`
  elements, `N` ≥ the final length — plus the iterator's claimed `size_hint`, which the code reserves
  blindly): a sufficient condition, not the exact one — the exact refusal condition of each individual
  reservation is the one of `C13_reserve`;
* restrictions that remain: `dedup*` with a comparison that depends on the call index or panics is
  covered by C15/C16 only (permutation + no leak), not by a contents theorem; `resize` shrinking /
  `truncate` with panicking destructors likewise (`C16_truncate`).
-/
namespace Bump.V.C13
open Bump Bump.V

/-- the representation relation determines the abstraction -/
theorem C13_rep_abs {c : Cfg} {v : VS} {xs : List Elem} (h : RepB c v xs) : abs v = xs ∧ v.len ≤ capOf c v :=
  ⟨h.toRep.abs_eq, h.lenCap⟩

/-- `reserve(n)` / `try_reserve(n)` (amortized or exact) that returns: contents unchanged,
`capacity() ≥ len + n`, and the new `cap` is `len + n` (exact) or `max(2·cap, len + n)` -/
theorem C13_reserve {c : Cfg} {v v' : VS} {xs : List Elem} {n : Nat} {exact : Bool} (hc : CfgOK c) (h : RepB c v xs)
    (hr : reserveOp c v n exact = .ok v') :
    RepB c v' xs ∧ v.len + n ≤ capOf c v' ∧
      (v' = v ∨ (c.esz ≠ 0 ∧ capOf c v < v.len + n ∧ v'.cap = (if exact then v.len + n else max (v.cap * 2) (v.len + n)))) :=
  reserveGen_ok hc h (Nat.le_refl _) h.lenCap hr

/-- `push` appends, or panics because the growth was refused (then nothing changes and the
value is dropped by the unwinding) -/
theorem C13_push {c : Cfg} {v : VS} {xs : List Elem} (hc : CfgOK c) (h : RepB c v xs) (e : Elem) (w : W) :
    (∃ v', push c v e w = (v', w, some ()) ∧ RepB c v' (xs ++ [e])) ∨
    (push c v e w = (v, (dropElem c w e).1, none) ∧ v.len = capOf c v ∧ rawReserve c v v.len 1 = none) :=
  push_spec hc h e w

/-- `pop` returns the last element (or `None` on an empty vector) and never panics -/
theorem C13_pop {c : Cfg} {v : VS} {xs : List Elem} (h : RepB c v xs) (w : W) :
    (xs = [] ∧ pop v w = (v, w, none)) ∨
    (∃ (hne : xs ≠ []) (v' : VS), pop v w = (v', w.moved (xs.getLast hne), some (xs.getLast hne)) ∧ RepB c v' xs.dropLast) :=
  pop_spec h w

/-- `insert(i, e)`: panics iff `i > len` (or the growth is refused); else `e` lands at `i`
(`xs.take i ++ e :: xs.drop i = xs.insertIdx i e`) -/
theorem C13_insert {c : Cfg} {v : VS} {xs : List Elem} (hc : CfgOK c) (h : RepB c v xs) (i : Nat) (e : Elem) (w : W) :
    (i ≤ xs.length ∧ ∃ v', insert c v i e w = (v', w, some ()) ∧ RepB c v' (xs.take i ++ e :: xs.drop i)) ∨
    (insert c v i e w = (v, (dropElem c w e).1, none) ∧
      (xs.length < i ∨ (v.len = capOf c v ∧ rawReserve c v v.len 1 = none))) :=
  insert_spec hc h i e w

/-- `remove(i)`: panics iff `i ≥ len` (nothing changes); else returns `xs[i]`, leaves `xs.eraseIdx i` -/
theorem C13_remove {c : Cfg} {v : VS} {xs : List Elem} (h : RepB c v xs) (i : Nat) (w : W) :
    (∃ (hi : i < xs.length) (v' : VS), remove c v i w = (v', w.moved xs[i], some xs[i]) ∧ RepB c v' (xs.eraseIdx i)) ∨
    (xs.length ≤ i ∧ remove c v i w = (v, w, none)) :=
  remove_spec h i w

/-- `swap_remove(i)`: panics iff `i ≥ len`; else returns `xs[i]` and the last element takes its place -/
theorem C13_swap_remove {c : Cfg} {v : VS} {xs : List Elem} (h : RepB c v xs) (i : Nat) (w : W) :
    (∃ (hi : i < xs.length) (v' : VS), swapRemove c v i w = (v', w.moved xs[i], some xs[i]) ∧
        RepB c v' ((xs.set i (xs.getLast (by intro h0; simp [h0] at hi))).dropLast)) ∨
    (xs.length ≤ i ∧ swapRemove c v i w = (v, w, none)) :=
  swapRemove_spec h i w

/-- `truncate(n)` with destructors that do not panic: keeps `xs.take n`, drops the rest (from
the back), never panics -/
theorem C13_truncate {c : Cfg} {v : VS} {xs : List Elem} (h : RepB c v xs) (n : Nat) (w : W) (hnp : c.dropPanicAt = none) :
    ∃ (v' : VS) (w' : W), truncate c v n w = (v', w', some ()) ∧ RepB c v' (xs.take n) ∧
      w'.evs = w.evs ++ dropEvs c (xs.drop n).reverse ∧ w'.bad = w.bad := by
  obtain ⟨m, v', w', r, hp, _, _, hr, hev, hb, _, hm, hnone⟩ := truncate_spec h n w
  have hr1 := hnone hnp
  have hm1 := hm hr1
  subst hr1
  refine ⟨v', w', hp, ?_, ?_, hb⟩
  · have : xs.take m = xs.take n := by rw [hm1]; simp [List.take_eq_take_iff]
    rw [← this]; exact hr
  · have : xs.drop m = xs.drop n := by
      rw [hm1]
      by_cases hle : n ≤ xs.length
      · rw [Nat.min_eq_left hle]
      · rw [Nat.min_eq_right (by omega), List.drop_of_length_le (Nat.le_refl _), List.drop_of_length_le (by omega)]
    rw [← this]; exact hev

/-- `clear()` = `truncate(0)` -/
theorem C13_clear {c : Cfg} {v : VS} {xs : List Elem} (h : RepB c v xs) (w : W) (hnp : c.dropPanicAt = none) :
    ∃ (v' : VS) (w' : W), clear c v w = (v', w', some ()) ∧ RepB c v' [] ∧ w'.evs = w.evs ++ dropEvs c xs.reverse := by
  obtain ⟨v', w', hp, hr, hev, _⟩ := C13_truncate h 0 w hnp
  exact ⟨v', w', hp, by simpa using hr, by simpa using hev⟩

/-- `drain_filter(f)` for a predicate that is a function of the element (and destructors that
do not panic): exactly the elements satisfying `f` are removed, in order, also when the
iterator is dropped after `take` calls of `next()` — the first `take` of them are returned, the
others dropped by its destructor; the rest stays in order.  Never panics. -/
theorem C13_drain_filter {c : Cfg} {v : VS} {xs : List Elem} (h : RepB c v xs) (f : Elem → Bool) (take : Nat) (w : W)
    (hnp : c.dropPanicAt = none) :
    ∃ v' w', drainFilterOp c v (fun _ e => some (f e)) take false w = (v', w', some ((xs.filter f).take take)) ∧
      RepB c v' (xs.filter (fun e => !f e)) ∧
      w'.evs = w.evs ++ movedEvs ((xs.filter f).take take) ++ dropEvs c ((xs.filter f).drop take) ∧ w'.bad = w.bad :=
  drainFilterOp_pure h f take w hnp

/-- `retain(f)` keeps exactly `xs.filter f`, drops the others in order, never panics -/
theorem C13_retain {c : Cfg} {v : VS} {xs : List Elem} (h : RepB c v xs) (f : Elem → Bool) (w : W)
    (hnp : c.dropPanicAt = none) :
    ∃ v' w', retain c v (fun _ e => some (f e)) w = (v', w', some ()) ∧ RepB c v' (xs.filter f) ∧
      w'.evs = w.evs ++ dropEvs c (xs.filter (fun e => !f e)) ∧ w'.bad = w.bad :=
  retain_pure h f w hnp

/-- `drain(range)` panics — before touching anything — exactly when the range is not
acceptable: a bound of `usize::MAX` that would have to be incremented, `start > end`, or
`end > len` (`DrainOK` spells this out) -/
theorem C13_drain_panics {c : Cfg} {v : VS} {xs : List Elem} (h : RepB c v xs) {s e : Bd}
    (hbad : ¬ ∃ st en, DrainOK c xs.length s e st en) (take back : Nat) (forget : Bool) (w : W) :
    drainOp c v s e take back forget w = (v, w, none) := by
  apply drainOp_panics
  rw [h.len]; exact hbad

/-- the acceptable ranges are the same in every build profile: `Included(usize::MAX)` as end
(or `Excluded(usize::MAX)` as start) is rejected with and without overflow checks (this was F7
on the pinned tree: without overflow checks the bound wrapped to 0; fixed in /repo, 894a021) -/
theorem C13_drain_range_all_profiles (c c' : Cfg) (len : Nat) (s e : Bd) (st en : Nat) :
    DrainOK c len s e st en ↔ DrainOK c' len s e st en := by
  have h1 : rangeStart c s = rangeStart c' s := by cases s <;> rfl
  have h2 : rangeEnd c len e = rangeEnd c' len e := by cases e <;> rfl
  simp [DrainOK, h1, h2]

theorem C13_drain_max_rejected (c : Cfg) (len st en : Nat) (s : Bd) : ¬ DrainOK c len s (.inc USIZE_MAX) st en := by
  intro h; have := h.2.1; simp [rangeEnd, succU, USIZE_MAX, USIZE] at this

/-- `drain(st..en)` on an acceptable range, iterator used `take` times from the front and
`back` times from the back and then dropped (destructors do not panic): those items are
returned in that order, the rest of the range is dropped, the vector keeps
`xs.take st ++ xs.drop en` -/
theorem C13_drain {c : Cfg} {v : VS} {xs : List Elem} (h : RepB c v xs) {s e : Bd} {st en : Nat}
    (hok : DrainOK c xs.length s e st en) (take back : Nat) (w : W) (hnp : c.dropPanicAt = none) :
    let k1 := min take (en - st)
    let k2 := min back (en - (st + k1))
    let front := (xs.drop st).take k1
    let backs := ((xs.take en).drop (en - k2)).reverse
    let left := (xs.drop (st + k1)).take (en - k2 - (st + k1))
    ∃ v' w', drainOp c v s e take back false w = (v', w', some (front ++ backs)) ∧ RepB c v' (xs.take st ++ xs.drop en) ∧
      w'.evs = w.evs ++ movedEvs (front ++ backs) ++ dropEvs c left ∧ w'.bad = w.bad := by
  intro k1 k2 front backs left
  obtain ⟨v', w', r, kd, fin, hrun, _, hev, hb, _, _, _, hfin, _, hnp', hrep⟩ := drainOp_spec h hok take back false w
  have hf := hnp' hnp rfl
  subst hf
  obtain ⟨hkd, hr⟩ := hfin rfl
  refine ⟨v', w', by rw [hrun, hr], by simpa using hrep, ?_, hb⟩
  rw [hev, hkd, List.take_length]

/-- `into_iter()` used `take` times from the front and `back` times from the back, then
dropped: those items in that order, the others dropped in order -/
theorem C13_into_iter {c : Cfg} {v : VS} {xs : List Elem} (h : RepB c v xs) (take back : Nat) (w : W) (hnp : c.dropPanicAt = none) :
    ∃ w', intoIterOp c v take back false w =
        (w', some (xs.take (min take xs.length) ++ (xs.drop (xs.length - min back (xs.length - min take xs.length))).reverse)) ∧
      w'.evs = w.evs ++ movedEvs (xs.take (min take xs.length) ++ (xs.drop (xs.length - min back (xs.length - min take xs.length))).reverse) ++
        dropEvs c ((xs.drop (min take xs.length)).take (xs.length - min back (xs.length - min take xs.length) - min take xs.length)) ∧
      w'.bad = w.bad := by
  obtain ⟨w', r, kd, hrun, _, hev, hb, hr, _, hnp'⟩ := intoIterOp_spec h take back false w
  obtain ⟨hne, hkd⟩ := hnp' hnp rfl
  cases r with
  | none => exact absurd rfl hne
  | some m =>
    have := hr m rfl
    subst this
    exact ⟨w', hrun, by rw [hev, hkd, List.take_length], hb⟩

/-- `append(&mut other)`: `other`'s elements move to the end, `other` becomes empty; panics
(nothing changes) only when the growth is refused -/
theorem C13_append {c : Cfg} {a b : VS} {xs ys : List Elem} (hc : CfgOK c) (ha : RepB c a xs) (hb : RepB c b ys) (w : W) :
    (∃ a' b', append c a b w = (a', b', w, some ()) ∧ RepB c a' (xs ++ ys) ∧ RepB c b' []) ∨
    (append c a b w = (a, b, w, none) ∧ rawReserve c a a.len b.len = none) := append_spec hc ha hb w

/-- `split_off(at)`: panics iff `at > len` (or the new buffer is refused); else `xs.take at`
stays and the returned vector holds `xs.drop at` -/
theorem C13_split_off {c : Cfg} {v : VS} {xs : List Elem} (hc : CfgOK c) (h : RepB c v xs) (at_ : Nat) (w : W) :
    (at_ ≤ xs.length ∧ ∃ v' o, splitOff c v at_ w = (v', some o, w) ∧ RepB c v' (xs.take at_) ∧ RepB c o (xs.drop at_)) ∨
    (splitOff c v at_ w = (v, none, w) ∧ (xs.length < at_ ∨ withCapacity c (xs.length - at_) = none)) :=
  splitOff_spec hc h at_ w

/-! ## second group: splice, extend family, resize, clone, dedup, shrink_to_fit, into_boxed_slice, vec!, io::Write -/

/-- `splice(range, iter)` on a rejected range panics before anything is touched; the iterator
argument is dropped by the unwinding -/
theorem C13_splice_panics {c : Cfg} {v : VS} {xs : List Elem} (h : RepB c v xs) {s e : Bd}
    (hbad : ¬ ∃ st en, DrainOK c xs.length s e st en) (it : It) (take : Nat) (w : W) :
    spliceOp c v s e it take w = (v, it.dropRest c w, none) := by
  apply spliceOp_panics
  rw [h.len]; exact hbad

/-- `splice(st..en, iter)`, `take` × `next()`, `Splice` dropped — *every* path (iterator with any
`size_hint`, panicking at any `next` call or never; destructors panicking or not; growth refused or
not).  The first `min take (en - st)` elements of the range are handed to the caller, the rest of the
range is dropped; the vector ends as `xs.take st ++ items.take j ++ xs.drop en`: the tail is always
moved back behind what was inserted (no hole, no duplicate); the `items.drop j` not inserted are
dropped in order.  The call returns (`r = some _`) only with `j = |items|`, and it does return when
nothing panics and the arena serves the growth. -/
theorem C13_splice_any {c : Cfg} (hc : CfgOK c) (N : Nat) {v : VS} {xs : List Elem} (h : RepB c v xs) {s e : Bd} {st en : Nat}
    (hok : DrainOK c xs.length s e st en) (src : Src) (take : Nat) (w : W) :
    ∃ (j : Nat) (v' : VS) (w' : W) (r : Option (List Elem)), spliceOp c v s e (.src src) take w = (v', w', r) ∧
      j ≤ src.items.length ∧ RepB c v' (xs.take st ++ src.items.take j ++ xs.drop en) ∧
      w'.evs = w.evs ++ movedEvs ((xs.drop st).take (min take (en - st))) ++
        dropEvs c ((xs.drop (st + min take (en - st))).take (en - (st + min take (en - st)))) ++ dropEvs c (src.items.drop j) ∧
      w'.bad = w.bad ∧ w'.nextId = w.nextId ∧
      (∀ m, r = some m → m = (xs.drop st).take (min take (en - st)) ∧ j = src.items.length) ∧
      (src.panicAt = none → c.dropPanicAt = none → GrowOK c N → xs.length + src.items.length + src.hint ≤ N →
        r = some ((xs.drop st).take (min take (en - st)))) :=
  spliceOp_spec hc N h hok src take w

/-- `splice(st..en, iter)` when nothing panics and the arena serves the growth: the drained range is
replaced by the iterator's items — `xs.take st ++ items ++ xs.drop en` = `List` splice —, the first
`take` drained elements are returned in order, the others dropped; the iterator's `size_hint` may
claim anything -/
theorem C13_splice {c : Cfg} (hc : CfgOK c) (N : Nat) {v : VS} {xs : List Elem} (h : RepB c v xs) {s e : Bd} {st en : Nat}
    (hok : DrainOK c xs.length s e st en) (src : Src) (take : Nat) (w : W) (hip : src.panicAt = none)
    (hdp : c.dropPanicAt = none) (hg : GrowOK c N) (hN : xs.length + src.items.length + src.hint ≤ N) :
    ∃ v' w', spliceOp c v s e (.src src) take w = (v', w', some ((xs.drop st).take (min take (en - st)))) ∧
      RepB c v' (xs.take st ++ src.items ++ xs.drop en) ∧
      w'.evs = w.evs ++ movedEvs ((xs.drop st).take (min take (en - st))) ++
        dropEvs c ((xs.drop (st + min take (en - st))).take (en - (st + min take (en - st)))) ∧ w'.bad = w.bad := by
  obtain ⟨j, v', w', r, hrun, _, hrep, hev, hb, _, hres, hgood⟩ := spliceOp_spec hc N h hok src take w
  have hr := hgood hip hdp hg hN
  subst hr
  obtain ⟨_, hj⟩ := hres _ rfl
  subst hj
  refine ⟨v', w', hrun, by simpa using hrep, by simpa [dropEvs] using hev, hb⟩

/-- `extend(iter)` with the caller's iterator (any `size_hint`; may panic at any `next` call): a
prefix of the items is appended in order, the others are dropped by the unwinding; all of them are
appended, and nothing is dropped, unless the iterator panics or the growth is refused -/
theorem C13_extend {c : Cfg} (hc : CfgOK c) (N : Nat) {v : VS} {xs : List Elem} (h : RepB c v xs) (s : Src) (w : W) :
    ∃ (j : Nat) (v' : VS) (w' : W) (r : Option Unit), extend c v (.src s) w = (v', w', r) ∧ j ≤ s.items.length ∧
      RepB c v' (xs ++ s.items.take j) ∧ w'.evs = w.evs ++ dropEvs c (s.items.drop j) ∧ w'.bad = w.bad ∧ w'.nextId = w.nextId ∧
      (r = some () → j = s.items.length) ∧
      (s.panicAt = none → GrowOK c N → xs.length + s.items.length ≤ N → xs.length + (s.hint - s.consumed) ≤ N → r = some ()) :=
  extend_src_spec hc N h s w

/-- `from_iter_in(iter, bump)` / `collect_in`: the vector of the items, in order, no other effect; if
the iterator panics (or the growth is refused) every item is dropped exactly once -/
theorem C13_from_iter {c : Cfg} (hc : CfgOK c) (N : Nat) (s : Src) (w : W) :
    ∃ (j : Nat) (r : Option VS) (w' : W), fromIter c (.src s) w = (r, w') ∧ j ≤ s.items.length ∧ w'.bad = w.bad ∧
      (∀ v', r = some v' → RepB c v' s.items ∧ w'.evs = w.evs) ∧
      (r = none → w'.evs = w.evs ++ dropEvs c (s.items.drop j) ++ dropEvs c (s.items.take j)) ∧
      (s.panicAt = none → GrowOK c N → s.items.length ≤ N → s.hint - s.consumed ≤ N → r ≠ none) :=
  fromIter_spec hc N s w

/-- `extend_from_slice(other)`: the clones of `other`'s elements (`clonesFrom`: same values, fresh
identities for a type whose `Clone` makes new values) are appended in order — all of them unless
`Clone` panics or the growth is refused; a clone whose `push` is refused is dropped -/
theorem C13_extend_from_slice {c : Cfg} (hc : CfgOK c) (N : Nat) {v : VS} {xs : List Elem} (h : RepB c v xs) (src : List Elem) (w : W) :
    ∃ (j m : Nat) (v' : VS) (w' : W) (r : Option Unit), extend c v (.cloned src) w = (v', w', r) ∧ j + m ≤ src.length ∧
      RepB c v' (xs ++ (clonesFrom c w.nextId src).take j) ∧
      w'.evs = w.evs ++ dropEvs c (((clonesFrom c w.nextId src).drop j).take m) ∧ w'.bad = w.bad ∧ w.nextId ≤ w'.nextId ∧
      (r = some () → j = src.length ∧ m = 0) ∧ (CloneOK c → GrowOK c N → xs.length + src.length ≤ N → r = some ()) :=
  extendFromSlice_spec hc N h src w

/-- clones carry the values of their originals, in order -/
theorem C13_clones_vals (c : Cfg) (n : Nat) (src : List Elem) :
    (clonesFrom c n src).map (·.val) = src.map (·.val) ∧ (clonesFrom c n src).length = src.length :=
  ⟨clonesFrom_vals c n src, clonesFrom_length c n src⟩

/-- `clone()`: a new vector with the clones of the elements, in order; the original is untouched;
if `Clone` panics the partly built vector is dropped -/
theorem C13_clone {c : Cfg} (hc : CfgOK c) (N : Nat) {v : VS} {xs : List Elem} (h : RepB c v xs) (w : W) :
    ∃ (r : Option VS) (w' : W), cloneVec c v w = (r, w') ∧ w'.bad = w.bad ∧
      (∀ nv, r = some nv → RepB c nv (clonesFrom c w.nextId xs) ∧ w'.evs = w.evs) ∧
      (r = none → ∃ j m, j + m ≤ xs.length ∧ w'.evs = w.evs ++ dropEvs c (((clonesFrom c w.nextId xs).drop j).take m) ++
        dropEvs c ((clonesFrom c w.nextId xs).take j)) ∧
      (CloneOK c → GrowOK c N → xs.length ≤ N → withCapacity c xs.length ≠ none → r ≠ none) :=
  cloneVec_spec hc N h w

/-- `resize(n, value)`, growing (`n > len`), `Clone` does not panic, growth served: `n - len - 1` clones
of `value` and then `value` itself are appended — `n - len` elements with `value`'s value -/
theorem C13_resize_grow {c : Cfg} (hc : CfgOK c) (N : Nat) {v : VS} {xs : List Elem} (h : RepB c v xs) (n : Nat) (x : Elem) (w : W)
    (hn : xs.length < n) (hco : CloneOK c) (hg : GrowOK c N) (hN : n ≤ N) :
    ∃ v' w' ys, resize c v n x w = (v', w', some ()) ∧ RepB c v' (xs ++ ys) ∧ ys.length = n - xs.length ∧
      ys = clonesFrom c w.nextId (List.replicate (n - xs.length - 1) x) ++ [x] ∧
      ys.map (·.val) = List.replicate (n - xs.length) x.val ∧ w'.evs = w.evs ∧ w'.bad = w.bad := by
  obtain ⟨v', w', hrun, hrep, hev, hb⟩ := resize_grow_spec hc N h n x w hn hco hg hN
  refine ⟨v', w', _, hrun, by simpa [List.append_assoc] using hrep, ?_, rfl, ?_, hev, hb⟩
  · simp [clonesFrom_length]; omega
  · rw [List.map_append, clonesFrom_vals]
    have : n - xs.length = (n - xs.length - 1) + 1 := by omega
    rw [this, List.replicate_succ']
    simp

/-- `resize(n, value)`, shrinking (`n ≤ len`), destructors do not panic: `truncate(n)` — the elements
from `n` on are dropped from the back — and then `value` is dropped -/
theorem C13_resize_shrink {c : Cfg} {v : VS} {xs : List Elem} (h : RepB c v xs) (n : Nat) (x : Elem) (w : W)
    (hn : n ≤ xs.length) (hnp : c.dropPanicAt = none) :
    ∃ v' w', resize c v n x w = (v', w', some ()) ∧ RepB c v' (xs.take n) ∧
      w'.evs = w.evs ++ dropEvs c (xs.drop n).reverse ++ dropEvs c [x] ∧ w'.bad = w.bad :=
  resize_shrink_spec h n x w hn hnp

/-- `extend_from_slice_copy(other)` (`T: Copy`): `other` is appended by one `copy_nonoverlapping`;
panics — nothing changes — only when the growth is refused -/
theorem C13_extend_from_slice_copy {c : Cfg} (hc : CfgOK c) {v : VS} {xs : List Elem} (h : RepB c v xs) (src : List Elem) (w : W) :
    (∃ v', extendFromSliceCopy c v src w = (v', w, some ()) ∧ RepB c v' (xs ++ src)) ∨
    (extendFromSliceCopy c v src w = (v, w, none) ∧ rawReserve c v v.len src.length = none) :=
  extendFromSliceCopy_spec hc h src w

/-- `extend_from_slices_copy(slices)`: one reservation of the total, then the slices are appended in
order (`xs ++ slices.flatten`); the unchecked copies stay inside the reserved capacity (no debug
assertion fires: `w` unchanged, in particular `w.bad`) -/
theorem C13_extend_from_slices_copy {c : Cfg} (hc : CfgOK c) {v : VS} {xs : List Elem} (h : RepB c v xs)
    (srcs : List (List Elem)) (w : W) :
    (∃ v', extendFromSlicesCopy c v srcs w = (v', w, some ()) ∧ RepB c v' (xs ++ srcs.flatten)) ∨
    (extendFromSlicesCopy c v srcs w = (v, w, none) ∧ rawReserve c v v.len (srcs.map List.length).sum = none) :=
  extendFromSlicesCopy_spec hc h srcs w

/-- the total the code computes: `slices.iter().try_fold(0, |t, s| t.checked_add(s.len()))` (after fix F11; the pinned code
summed with a wrapping `usize` sum) -/
def checkedTotal : List (List Elem) → Option Nat
  | [] => some 0
  | s :: ss => (checkedTotal ss).bind fun t => checkedAdd s.length t

theorem checkedTotal_some {srcs : List (List Elem)} {t : Nat} (h : checkedTotal srcs = some t) :
    t = (srcs.map List.length).sum ∧ t < USIZE := by
  induction srcs generalizing t with
  | nil => simp [checkedTotal] at h; subst h; simp [USIZE]
  | cons s ss ih =>
    simp only [checkedTotal] at h
    cases ht : checkedTotal ss with
    | none => simp [ht] at h
    | some t' =>
      simp only [ht, Option.bind_some, checkedAdd] at h
      split at h
      · have := (ih ht).1
        simp at h; subst h
        constructor
        · simp [this]
        · assumption
      · simp at h

theorem checkedTotal_none {srcs : List (List Elem)} (h : checkedTotal srcs = none) : USIZE ≤ (srcs.map List.length).sum := by
  induction srcs with
  | nil => simp [checkedTotal] at h
  | cons s ss ih =>
    simp only [checkedTotal] at h
    cases ht : checkedTotal ss with
    | none => have := ih ht; simp; omega
    | some t' =>
      simp only [ht, Option.bind_some, checkedAdd] at h
      have := (checkedTotal_some ht).1
      split at h
      · simp at h
      · simp; omega

/-- C19 for `extend_from_slices_copy` (F11): a total element count that `usize` cannot represent is refused — the call
panics and neither the vector nor the world changes — whatever the element size (zero included) and whatever is already in
the vector.  With `checkedTotal_none` this covers exactly the inputs on which the code's checked sum gives up. -/
theorem C19_extend_from_slices_copy_total_overflow (c : Cfg) (v : VS) (srcs : List (List Elem)) (w : W)
    (h : USIZE ≤ (srcs.map List.length).sum) :
    extendFromSlicesCopy c v srcs w = (v, w, none) := by
  have hw : wsub (capOf c v) v.len < USIZE := by unfold wsub; exact Nat.mod_lt _ (by simp [USIZE])
  have h1 : ¬ (wsub (capOf c v) v.len ≥ (srcs.map List.length).sum) := by omega
  have h2 : checkedAdd v.len (srcs.map List.length).sum = none := by
    unfold checkedAdd; rw [if_neg]; omega
  unfold extendFromSlicesCopy rawReserve reserveGen
  rw [if_neg h1]
  unfold reserveInternal amortizedNewCap
  simp [h2]

/-- and the same total below `usize::MAX` is *not* refused by the sum: whether the call panics is then `reserve`'s decision
(`C13_extend_from_slices_copy`) -/
theorem checkedTotal_eq_some_of_lt {srcs : List (List Elem)} (h : (srcs.map List.length).sum < USIZE) :
    checkedTotal srcs = some (srcs.map List.length).sum := by
  cases ht : checkedTotal srcs with
  | none => have := checkedTotal_none ht; omega
  | some t => rw [(checkedTotal_some ht).1]

example : checkedTotal [[⟨1, 1⟩, ⟨2, 2⟩], [⟨3, 3⟩]] = some 3 := by decide

/-- `io::Write::write` / `write_all` on a `Vec<u8>`: the bytes are appended, `write` reports
`buf.len()`; `flush` is a no-op -/
theorem C13_io_write {c : Cfg} (hc : CfgOK c) {v : VS} {xs : List Elem} (h : RepB c v xs) (buf : List Elem) (w : W) :
    (∃ v', ioWrite c v buf w = (v', w, some buf.length) ∧ RepB c v' (xs ++ buf)) ∨
    (ioWrite c v buf w = (v, w, none) ∧ rawReserve c v v.len buf.length = none) :=
  ioWrite_spec hc h buf w

/-- `dedup_by(same)` for a comparison that is a function of the two elements (destructors do not
panic): the vector keeps `dedupSpec same xs` — the first element of every run of consecutive "same"
elements, each later element compared with the last *kept* one —, the removed ones are dropped (the
swap-based partition permutes them, so only "some order"), the call returns -/
theorem C13_dedup_by {c : Cfg} {v : VS} {xs : List Elem} (h : RepB c v xs) (same : Elem → Elem → Bool) (w : W)
    (hnp : c.dropPanicAt = none) :
    ∃ (v' : VS) (w' : W) (zs : List Elem), dedupBy c v (fun _ a b => some (same a b)) w = (v', w', some ()) ∧
      RepB c v' (dedupSpec same xs) ∧ w'.evs = w.evs ++ dropEvs c zs ∧ zs.Perm (dedupRemoved same xs) ∧ w'.bad = w.bad :=
  dedupBy_pure_spec h same w hnp

/-- `dedup()` = `dedup_by(|a, b| a == b)` -/
theorem C13_dedup {c : Cfg} {v : VS} {xs : List Elem} (h : RepB c v xs) (w : W) (hnp : c.dropPanicAt = none) :
    ∃ (v' : VS) (w' : W), dedupBy c v (fun _ a b => some (a.val == b.val)) w = (v', w', some ()) ∧
      RepB c v' (dedupSpec (fun a b => a.val == b.val) xs) ∧ w'.bad = w.bad := by
  obtain ⟨v', w', _, hrun, hrep, _, _, hb⟩ := dedupBy_pure_spec h (fun a b => a.val == b.val) w hnp
  exact ⟨v', w', hrun, hrep, hb⟩

/-- `dedup_by_key(key)` = `dedup_by(|a, b| key(a) == key(b))` -/
theorem C13_dedup_by_key {c : Cfg} {v : VS} {xs : List Elem} (h : RepB c v xs) (key : Elem → Nat) (w : W) (hnp : c.dropPanicAt = none) :
    ∃ (v' : VS) (w' : W), dedupBy c v (fun _ a b => some (key a == key b)) w = (v', w', some ()) ∧
      RepB c v' (dedupSpec (fun a b => key a == key b) xs) ∧ w'.bad = w.bad := by
  obtain ⟨v', w', _, hrun, hrep, _, _, hb⟩ := dedupBy_pure_spec h (fun a b => key a == key b) w hnp
  exact ⟨v', w', hrun, hrep, hb⟩

/-- `shrink_to_fit()`: contents unchanged, `capacity() = len` afterwards (sized elements); panics only
when the arena refuses the reallocation -/
theorem C13_shrink_to_fit {c : Cfg} {v : VS} {xs : List Elem} (h : RepB c v xs) :
    (∃ v', shrinkToFit c v = some v' ∧ RepB c v' xs ∧ (c.esz ≠ 0 → capOf c v' = xs.length)) ∨
    (shrinkToFit c v = none ∧ c.allocOk = false ∧ c.esz ≠ 0 ∧ xs.length ≠ 0 ∧ xs.length < v.cap) :=
  shrinkToFit_spec h

/-- `into_boxed_slice()`: the box holds exactly the contents (no shrinking, no event); dropping the
box drops them in order -/
theorem C13_into_boxed_slice {c : Cfg} {v : VS} {xs : List Elem} (h : RepB c v xs) (w : W) :
    (intoBoxedThenDrop c v w).1 = xs ∧ (intoBoxedThenDrop c v w).2.1.evs = w.evs ++ dropEvs c xs ∧
      (intoBoxedThenDrop c v w).2.1.bad = w.bad ∧ (c.dropPanicAt = none → (intoBoxedThenDrop c v w).2.2 = false) :=
  intoBoxed_spec h w

/-- `vec![in b; elem; n]` (`Clone` does not panic, requests served): `n` elements with `elem`'s
value — `n - 1` clones, then `elem` itself; for `n = 0` an empty vector and `elem` is not evaluated -/
theorem C13_vec_macro_n {c : Cfg} (hc : CfgOK c) (N : Nat) (x : Elem) (n : Nat) (w : W) (hco : CloneOK c) (hg : GrowOK c N)
    (hN : n ≤ N) (hwc : withCapacity c n ≠ none) :
    ∃ v' w' ys, vmacroN c x n w = (some v', w', decide (n > 0)) ∧ RepB c v' ys ∧ ys.map (·.val) = List.replicate n x.val ∧
      w'.evs = w.evs ∧ w'.bad = w.bad := by
  obtain ⟨v', w', hrun, hev, hb, hrep⟩ := vmacroN_spec hc N x n w hco hg hN hwc
  refine ⟨v', w', _, hrun, hrep, ?_, hev, hb⟩
  by_cases hn0 : n = 0
  · simp [hn0]
  · simp only [hn0, ↓reduceIte, List.map_append, clonesFrom_vals]
    have : n = (n - 1) + 1 := by omega
    conv => rhs; rw [this, List.replicate_succ']
    simp

/-- `vec![in b; a, b, c]` (requests served): the vector of the listed values, no other effect -/
theorem C13_vec_macro_list {c : Cfg} (hc : CfgOK c) (N : Nat) (es : List Elem) (w : W) (hg : GrowOK c N) (hN : es.length ≤ N) :
    ∃ v', vmacroListOp c es w = (some v', w, []) ∧ RepB c v' es :=
  vmacroListOp_spec hc N es w hg hN

/-- non-vacuity of the hypotheses of the second group -/
example : GrowOK {} 1000 := by unfold GrowOK; decide
example : CloneOK {} := fun _ => rfl
example : DrainOK {} 3 (.inc 0) (.exc 1) 0 1 := by unfold DrainOK; decide
/-- a concrete run: `[1,2,3].splice(0..1, [7,8])` with a `size_hint` of 0 gives `[7,8,2,3]` and
returns the drained `1` -/
example :
    let xs : List Elem := [⟨1, 1⟩, ⟨2, 2⟩, ⟨3, 3⟩]
    let r := spliceOp {} ⟨xs.map some, 3, 3⟩ (.inc 0) (.exc 1) (.src ⟨[⟨7, 7⟩, ⟨8, 8⟩], 0, 0, 0, none⟩) 5 {}
    r.1.owned.map (·.id) = [7, 8, 2, 3] ∧ r.2.1.evs = [.moveOut 1] ∧ r.2.2.map (·.map (·.id)) = some [1] := by
  decide

/-- non-vacuity: a concrete vector with a stale slot after `len` satisfies the hypotheses -/
example : RepB {} ⟨[some ⟨1, 10⟩, some ⟨2, 20⟩, some ⟨2, 20⟩, none], 2, 4⟩ [⟨1, 10⟩, ⟨2, 20⟩] :=
  ⟨⟨⟨[some ⟨2, 20⟩, none], rfl⟩, rfl, fun _ => rfl, by decide⟩, by decide, fun _ => by decide⟩
example : CfgOK {} := by unfold CfgOK; decide

end Bump.V.C13

#print axioms Bump.V.C13.C13_rep_abs
#print axioms Bump.V.C13.C13_reserve
#print axioms Bump.V.C13.C13_push
#print axioms Bump.V.C13.C13_pop
#print axioms Bump.V.C13.C13_insert
#print axioms Bump.V.C13.C13_remove
#print axioms Bump.V.C13.C13_swap_remove
#print axioms Bump.V.C13.C13_truncate
#print axioms Bump.V.C13.C13_clear
#print axioms Bump.V.C13.C13_drain_filter
#print axioms Bump.V.C13.C13_retain
#print axioms Bump.V.C13.C13_drain_panics
#print axioms Bump.V.C13.C13_drain_range_all_profiles
#print axioms Bump.V.C13.C13_drain_max_rejected
#print axioms Bump.V.C13.C13_drain
#print axioms Bump.V.C13.C13_into_iter
#print axioms Bump.V.C13.C13_append
#print axioms Bump.V.C13.C13_split_off
#print axioms Bump.V.C13.C13_splice_panics
#print axioms Bump.V.C13.C13_splice_any
#print axioms Bump.V.C13.C13_splice
#print axioms Bump.V.C13.C13_extend
#print axioms Bump.V.C13.C13_from_iter
#print axioms Bump.V.C13.C13_extend_from_slice
#print axioms Bump.V.C13.C13_clones_vals
#print axioms Bump.V.C13.C13_clone
#print axioms Bump.V.C13.C13_resize_grow
#print axioms Bump.V.C13.C13_resize_shrink
#print axioms Bump.V.C13.C13_extend_from_slice_copy
#print axioms Bump.V.C13.C13_extend_from_slices_copy
#print axioms Bump.V.C13.C19_extend_from_slices_copy_total_overflow
#print axioms Bump.V.C13.checkedTotal_none
#print axioms Bump.V.C13.C13_io_write
#print axioms Bump.V.C13.C13_dedup_by
#print axioms Bump.V.C13.C13_dedup
#print axioms Bump.V.C13.C13_dedup_by_key
#print axioms Bump.V.C13.C13_shrink_to_fit
#print axioms Bump.V.C13.C13_into_boxed_slice
#print axioms Bump.V.C13.C13_vec_macro_n
#print axioms Bump.V.C13.C13_vec_macro_list
-- `into_iter().nth(n)` (core's default `Iterator::nth` on the owning iterator), Proofs/VecNth.lean
#print axioms Bump.V.intoIterNthOp_result
#print axioms Bump.V.intoIterNthOp_result_any
#print axioms Bump.V.intoIterNthOp_noUB
