import BumpVerif.Props.GenFnNewChunk
import BumpVerif.Props.GenFnDetails
import BumpVerif.Props.GenFnLimit
import BumpVerif.Props.GenFnFast
import BumpVerif.Gen.FnSlow
import BumpVerif.Proofs.Slow
import BumpVerif.Proofs.Alloc
/-! # The translated slow path (`alloc_layout_slow`, its candidate loop) equals the hand-written model -/
namespace Bump
open Rs Gen

theorem newChunk_arena (E : Nat) (held : List Chunk) (M : Nat) (d : Details) (r p : Nat) (s : St) :
    (newChunk E held M d r p s).1.a = s.a := by
  unfold newChunk
  by_cases h1 : validLayout d.size d.align = true
  case neg => simp [h1]
  by_cases h2 : d.size < r
  case pos => simp [h1, h2]
  simp only [h1, h2, Bool.not_true, Bool.false_eq_true, if_false]
  have hm := (malloc_fst s d.size d.align).1
  rcases hs : s.malloc d.size d.align with ⟨s1, _ | addr⟩
  · rw [hs] at hm; simpa using hm
  · rw [hs] at hm
    simp only at hm ⊢
    repeat' split
    all_goals exact hm

/-- `new_chunk_memory_details` yields `size = usable + footer` -/
theorem details_size {M : Nat} {req : Option Nat} {sz al : Nat} {d : Details}
    (h : newChunkMemoryDetails M req sz al = .ok d) : d.size = d.nswf + FOOTER_SIZE := by
  unfold newChunkMemoryDetails at h
  simp only at h
  repeat' split at h
  all_goals first | (cases h; done) | skip
  all_goals (injection h with h; subst h; rename_i hh; simp only [checkedAdd] at hh; split at hh <;> simp_all)

theorem bypass_eq (limit : Option Nat) (ab sz base : Nat) :
    bypassMin limit ab sz base =
      match limit with
      | some l => (decide (sz < l) && decide (base ≥ max sz 1) && decide (l < DEFAULT_CHUNK_SIZE_WITHOUT_FOOTER)) && (ab == 0)
      | none => false := by
  unfold bypassMin
  have : decide (ab = 0) = (ab == 0) := by by_cases h : ab = 0 <;> simp [h]
  cases limit <;> simp [this]

/-- one candidate: details, limit test, `new_chunk`, and on refusal the rest of the loop -/
def slowStep (E : Nat) (a : Arena) (sz al : Nat) (rem : Option Nat) (base : Nat) (s : St)
    (rest : St → St × Outcome (Option Chunk)) : St × Outcome (Option Chunk) :=
  match newChunkMemoryDetails a.M (some base) sz al with
  | .ok d =>
    if fitsUnderLimit rem d then
      bindO (newChunk E a.chunks a.M d sz (a.allocatedBytes E) s) fun s oc =>
        match oc with
        | some c => (s, .ok (some c))
        | none => rest s
    else rest s
  | .err => (s, .ok none)
  | .panic => (s, .panic)
  | .bad w => (s, .bad w)
  | .envBad => (s, .envBad)

theorem slowLoop_succ (E : Nat) (a : Arena) (sz al : Nat) (rem : Option Nat) (minNew n base : Nat) (s : St) :
    slowLoop E a.chunks a.M a.limit (a.allocatedBytes E) sz al rem minNew (n + 1) base s =
      if decide (base ≥ minNew) || bypassMin a.limit (a.allocatedBytes E) sz base then
        slowStep E a sz al rem base s
          (fun s => slowLoop E a.chunks a.M a.limit (a.allocatedBytes E) sz al rem minNew n (base / 2) s)
      else (s, .ok none) := by
  rw [slowLoop]
  unfold slowStep
  split
  · cases newChunkMemoryDetails a.M (some base) sz al <;> rfl
  · rfl

theorem gen_slow_loop (E : Nat) (a : Arena) (sz al : Nat) (rem r : Option Nat) (cl : Layout) (minNew x : Nat)
    (hM : P2 a.M) (hal : P2 al) (hsz : sz < USIZE) :
    ∀ (fuel base : Nat) (s : St), s.a = a →
      simS (Gen.Fn.alloc_layout_slow.loop_1 E a.M ⟨sz, al⟩ r rem (a.cur E) cl minNew x fuel base s)
        (slowLoop E a.chunks a.M a.limit (a.allocatedBytes E) sz al rem minNew fuel base s) := by
  intro fuel
  induction fuel with
  | zero =>
    intro base s _
    simp [Gen.Fn.alloc_layout_slow.loop_1, slowLoop, simS, Outcome.sim]
  | succ n ih =>
    intro base s hsa
    -- the continuation "try the next candidate" on both sides, related by the induction hypothesis
    have hrest : ∀ b' s', s'.a = a →
        simS (Gen.Fn.alloc_layout_slow.loop_1 E a.M ⟨sz, al⟩ r rem (a.cur E) cl minNew x n b' s')
          (slowLoop E a.chunks a.M a.limit (a.allocatedBytes E) sz al rem minNew n b' s') := fun b' s' h => ih b' s' h
    -- the candidate step, shared by every copy of the duplicated continuation
    have hstep : ∀ (b' : Nat),
        simS
          (bindO (s, Gen.Fn.new_chunk_memory_details a.M (some base) ⟨sz, al⟩) fun s r_11 =>
            match r_11 with
            | none => (s, Outcome.ok none)
            | some d =>
              bindO (s, Gen.Fn.chunk_fits_under_limit a.M rem d) fun s r_12 =>
                if r_12 then
                  bindO (Gen.Fn.new_chunk E a.M d ⟨sz, al⟩ (a.cur E) s) fun s r_14 =>
                    match r_14 with
                    | some y => (s, Outcome.ok (some y))
                    | none => Gen.Fn.alloc_layout_slow.loop_1 E a.M ⟨sz, al⟩ r rem (a.cur E) cl minNew x n b' s
                else Gen.Fn.alloc_layout_slow.loop_1 E a.M ⟨sz, al⟩ r rem (a.cur E) cl minNew x n b' s)
          (slowStep E a sz al rem base s
            (fun s => slowLoop E a.chunks a.M a.limit (a.allocatedBytes E) sz al rem minNew n b' s)) := by
      intro b'
      have hd := gen_new_chunk_memory_details a.M (some base) sz al hM hal hsz
      unfold slowStep
      cases hm : newChunkMemoryDetails a.M (some base) sz al with
      | ok d =>
        rw [hm] at hd
        have hg : Gen.Fn.new_chunk_memory_details a.M (some base) ⟨sz, al⟩ = .ok (some d) := by
          generalize Gen.Fn.new_chunk_memory_details a.M (some base) ⟨sz, al⟩ = g at hd
          cases g <;> simp_all [reify, Outcome.sim]
        simp only [hg, pureO, bindO_ok, gen_chunk_fits_under_limit]
        by_cases hfit : fitsUnderLimit rem d = true
        · simp only [hfit, if_true]
          have hnc := gen_new_chunk E a.M d sz al (a.cur E) s hM (details_size hm)
          have hab : (a.cur E).ab = a.allocatedBytes E := rfl
          rw [hsa, hab] at hnc
          generalize Gen.Fn.new_chunk E a.M d ⟨sz, al⟩ (a.cur E) s = g at hnc ⊢
          have harena := newChunk_arena E a.chunks a.M d sz (a.allocatedBytes E) s
          generalize newChunk E a.chunks a.M d sz (a.allocatedBytes E) s = m at hnc harena ⊢
          obtain ⟨gs, go⟩ := g
          obtain ⟨ms, mo⟩ := m
          obtain ⟨e1, e2⟩ := hnc
          simp only at e1 e2 harena; subst e1
          cases go <;> cases mo <;> simp_all [Outcome.sim, bindO]
          · rename_i oc oc'
            subst e2
            cases oc with
            | some c => exact simS_refl _
            | none => exact hrest b' gs harena
          all_goals first | exact simS_refl _ | exact ⟨rfl, trivial⟩
        · have hfit' : fitsUnderLimit rem d = false := by simpa using hfit
          simp only [hfit', Bool.false_eq_true, if_false]
          exact hrest b' s hsa
      | err =>
        rw [hm] at hd
        have hg : Gen.Fn.new_chunk_memory_details a.M (some base) ⟨sz, al⟩ = .ok none := by
          generalize Gen.Fn.new_chunk_memory_details a.M (some base) ⟨sz, al⟩ = g at hd
          cases g <;> simp_all [reify, Outcome.sim]
        simp only [hg, pureO, bindO_ok]
        exact simS_refl _
      | panic =>
        rw [hm] at hd
        have hg : Gen.Fn.new_chunk_memory_details a.M (some base) ⟨sz, al⟩ = .panic := by
          generalize Gen.Fn.new_chunk_memory_details a.M (some base) ⟨sz, al⟩ = g at hd
          cases g <;> simp_all [reify, Outcome.sim]
        simp only [hg, pureO, bindO]
        exact simS_refl _
      | bad w =>
        rw [hm] at hd
        have hg : ∃ w', Gen.Fn.new_chunk_memory_details a.M (some base) ⟨sz, al⟩ = .bad w' := by
          generalize Gen.Fn.new_chunk_memory_details a.M (some base) ⟨sz, al⟩ = g at hd
          cases g <;> simp_all [reify, Outcome.sim]
        obtain ⟨w', hg⟩ := hg
        simp only [hg, pureO, bindO]
        exact ⟨rfl, trivial⟩
      | envBad =>
        rw [hm] at hd
        have hg : Gen.Fn.new_chunk_memory_details a.M (some base) ⟨sz, al⟩ = .envBad := by
          generalize Gen.Fn.new_chunk_memory_details a.M (some base) ⟨sz, al⟩ = g at hd
          cases g <;> simp_all [reify, Outcome.sim]
        simp only [hg, pureO, bindO]
        exact simS_refl _
    rw [slowLoop_succ, bypass_eq]
    simp only [Gen.Fn.alloc_layout_slow.loop_1, gen_allocation_limit, gen_allocated_bytes, pureO, bindO_ok, hsa]
    cases hl : a.limit with
    | none =>
      simp only [Bool.or_false]
      by_cases hc : base ≥ minNew
      · simp only [hc, decide_true, if_true]
        have h := hstep (base / 2); rw [hl] at h; exact h
      · simp only [hc, decide_false, Bool.false_eq_true, if_false]
        exact simS_refl _
    | some l =>
      simp only []
      by_cases hb : (decide (sz < l) && decide (base ≥ max sz 1) && decide (l < DEFAULT_CHUNK_SIZE_WITHOUT_FOOTER)) = true
      · simp only [hb, if_true, Bool.true_and]
        by_cases hc : (decide (base ≥ minNew) || (a.allocatedBytes E == 0)) = true
        · simp only [hc, if_true]
          have h := hstep (base / 2); rw [hl] at h; exact h
        · have hc' : (decide (base ≥ minNew) || (a.allocatedBytes E == 0)) = false := by simpa using hc
          simp only [hc', Bool.false_eq_true, if_false]
          exact simS_refl _
      · have hb' : (decide (sz < l) && decide (base ≥ max sz 1) && decide (l < DEFAULT_CHUNK_SIZE_WITHOUT_FOOTER)) = false := by
          simpa using hb
        simp only [hb', Bool.false_eq_true, if_false, Bool.false_and, Bool.or_false]
        by_cases hc : base ≥ minNew
        · simp only [hc, decide_true, if_true]
          have h := hstep (base / 2); rw [hl] at h; exact h
        · simp only [hc, decide_false, Bool.false_eq_true, if_false]
          exact simS_refl _

theorem tryFast_ok_or_bad (E : Nat) (a : Arena) (sz al : Nat) :
    (∃ r, tryFast E a sz al = .ok r) ∨ (∃ w, tryFast E a sz al = .bad w) := by
  unfold tryFast
  simp only
  repeat' split
  all_goals first | exact Or.inl ⟨_, rfl⟩ | exact Or.inr ⟨_, rfl⟩

theorem p2_of_isPow2 {n : Nat} (h : IsPow2 n) (hlt : n < USIZE) : P2 n := ⟨isPow2_iff.2 h, hlt⟩

/-- a chunk fresh from the allocator is not the static and its finger is a `usize` -/
theorem fresh_head {E : Nat} {held : List Chunk} {M : Nat} {d : Details} {ab : Nat} {c : Chunk}
    (hfc : FreshChunk E held M d ab c) : c.footer ≠ E ∧ c.ptr < USIZE := by
  have h1 := hfc.wf.size_ge
  have h2 := hfc.wf.hi
  have h3 := hfc.sdisj
  have h4 := hfc.ptr_eq
  have hF := FS
  unfold Disj at h3
  unfold Chunk.footer at *
  unfold USIZE
  constructor <;> omega

/-- `alloc_layout_slow` as translated = the hand model `allocSlow` (seen through `Rs.alloc_layout_slow`, which is what
the translated callers reach), on every well-formed arena -/
theorem gen_alloc_layout_slow (E sz al : Nat) (s : St) (hE : EnvOK E) (h : ArenaWF E s.a) (hA : IsPow2 al)
    (hlay : sz + al ≤ 2 ^ 63) :
    simS (Gen.Fn.alloc_layout_slow E s.a.M ⟨sz, al⟩ s) (Rs.alloc_layout_slow E s.a.M ⟨sz, al⟩ s) := by
  have hU : USIZE = 2 ^ 64 := rfl
  have hM : P2 s.a.M := p2_of_isPow2 h.mpow (by have := h.mle; omega)
  have hal : P2 al := p2_of_isPow2 hA (by omega)
  have hsz : sz < USIZE := by omega
  obtain ⟨c1, c2, c3, c4, c5, c6, c7⟩ := cur_ok hE h
  have := FS; have := DF
  have hbase : max (((s.a.cur E).size - FOOTER_SIZE) * 2) (max sz DEFAULT_CHUNK_SIZE_WITHOUT_FOOTER) ≤ 2 ^ 64 - 96 := by omega
  have hsp := slowLoop_spec (E := E) (held := s.a.chunks) (M := s.a.M) (limit := s.a.limit)
    (ab := s.a.allocatedBytes E) (sz := sz) (al := al) (rem := limitRemaining s.a E)
    (minNew := max sz DEFAULT_CHUNK_SIZE_WITHOUT_FOOTER) h.mpow h.mle hA hlay (by omega) (ab_le_sumSize h)
    69 _ s (by omega) hbase
  have hloop := gen_slow_loop E s.a sz al (limitRemaining s.a E) (limitRemaining s.a E)
    ⟨(s.a.cur E).size, (s.a.cur E).align⟩ (max sz DEFAULT_CHUNK_SIZE_WITHOUT_FOOTER) (((s.a.cur E).size - FOOTER_SIZE) * 2)
    hM hal hsz 70
    (max (((s.a.cur E).size - FOOTER_SIZE) * 2) (max sz DEFAULT_CHUNK_SIZE_WITHOUT_FOOTER)) s rfl
  have hfs : FOOTER_SIZE ≤ (s.a.cur E).size := c5
  have hfs' : ¬ (s.a.cur E).size < FOOTER_SIZE := by omega
  simp only [Gen.Fn.alloc_layout_slow, Rs.alloc_layout_slow, reifyS, allocSlow, gen_allocation_limit_remaining, pureO,
    bindO_ok, hfs, hfs', if_true, if_false, checkedMul_two (show (s.a.cur E).size - FOOTER_SIZE ≤ 2 ^ 63 - 48 by omega)]
  generalize Gen.Fn.alloc_layout_slow.loop_1 E s.a.M ⟨sz, al⟩ (limitRemaining s.a E) (limitRemaining s.a E) (s.a.cur E)
    ⟨(s.a.cur E).size, (s.a.cur E).align⟩ (max sz DEFAULT_CHUNK_SIZE_WITHOUT_FOOTER) (((s.a.cur E).size - FOOTER_SIZE) * 2) 70
    (max (((s.a.cur E).size - FOOTER_SIZE) * 2) (max sz DEFAULT_CHUNK_SIZE_WITHOUT_FOOTER)) s = g at hloop ⊢
  generalize slowLoop E s.a.chunks s.a.M s.a.limit (s.a.allocatedBytes E) sz al (limitRemaining s.a E)
    (max sz DEFAULT_CHUNK_SIZE_WITHOUT_FOOTER) 70 _ s = m at hsp hloop ⊢
  obtain ⟨gs, go⟩ := g
  obtain ⟨s1, o1⟩ := m
  obtain ⟨ha, _, hc⟩ := hsp
  obtain ⟨e1, e2⟩ := hloop
  simp only at ha hc e1 e2
  subst e1
  rcases hc with ⟨ho, _⟩ | ho | ⟨c, d, n0, refs, ho, hd, hfc, _, _, _, _⟩
  · subst ho
    cases go <;> simp_all [Outcome.sim, bindO, reify, simS]
  · subst ho
    cases go <;> simp_all [Outcome.sim, bindO, reify, simS]
  · subst ho
    have hgo : go = .ok (some c) := by cases go <;> simp_all [Outcome.sim]
    subst hgo
    have hdvd : c.data % al = 0 := Nat.mod_eq_zero_of_dvd (Nat.dvd_trans hd.align_al hfc.al_dvd)
    have hal0 : al ≠ 0 := by have := hA.pos; omega
    simp only [bindO_ok, hal0, ne_eq, not_false_eq_true, if_true, hdvd, beq_self_eq_true, set_current_footer]
    -- the fast path on the arena with the fresh chunk in front
    have hfh := fresh_head hfc
    let s2 : St := { gs with a := { gs.a with chunks := c :: gs.a.chunks } }
    have hne2 : HeadNotStatic E s2.a := by
      intro hh hmem
      simp only [s2, List.head?_cons, Option.mem_def, Option.some.injEq] at hmem
      subst hmem; exact hfh.1
    have hcur2 : (s2.a.cur E) = c := by simp [s2, Arena.cur]
    have hM2 : P2 s2.a.M := by simpa [s2, ha] using hM
    have hf := gen_try_alloc_layout_fast E sz al s2 hM2 hal hsz (by rw [hcur2]; exact hfh.2) hne2
    have hMeq : s2.a.M = s.a.M := by simp [s2, ha]
    rw [hMeq] at hf
    unfold fastResult at hf
    show simS (bindO (Gen.Fn.try_alloc_layout_fast E s.a.M ⟨sz, al⟩ s2) _) _
    generalize Gen.Fn.try_alloc_layout_fast E s.a.M ⟨sz, al⟩ s2 = g2 at hf ⊢
    obtain ⟨g2s, g2o⟩ := g2
    obtain ⟨f1, f2⟩ := hf
    have hs2a : s2.a = { gs.a with chunks := c :: gs.a.chunks } := rfl
    simp only [bindO, pureO]
    generalize htf : tryFast E s2.a sz al = tf at f1 f2 ⊢
    have fin : ∀ (x y : St × Outcome (Option Nat)), x.1 = y.1 → Outcome.sim x.2 y.2 → simS x y := fun _ _ h1 h2 => ⟨h1, h2⟩
    cases tf with
    | ok r =>
      cases r with
      | none =>
        simp only at f1 f2; subst f1
        cases g2o with
        | ok a =>
          simp only [Outcome.sim] at f2
          injection f2 with f2; subst f2
          exact fin _ _ rfl trivial
        | _ => simp [Outcome.sim] at f2
      | some ap =>
        obtain ⟨a'', p⟩ := ap
        simp only at f1 f2; subst f1
        cases g2o with
        | ok a =>
          simp only [Outcome.sim] at f2
          injection f2 with f2; subst f2
          exact fin _ _ rfl rfl
        | _ => simp [Outcome.sim] at f2
    | err => rcases tryFast_ok_or_bad E s2.a sz al with ⟨r, hr⟩ | ⟨w, hr⟩ <;> rw [hr] at htf <;> cases htf
    | panic => rcases tryFast_ok_or_bad E s2.a sz al with ⟨r, hr⟩ | ⟨w, hr⟩ <;> rw [hr] at htf <;> cases htf
    | bad w =>
      simp only at f1 f2; subst f1
      cases g2o <;> first | (simp [Outcome.sim] at f2; done) | exact fin _ _ rfl trivial
    | envBad => rcases tryFast_ok_or_bad E s2.a sz al with ⟨r, hr⟩ | ⟨w, hr⟩ <;> rw [hr] at htf <;> cases htf

#print axioms gen_alloc_layout_slow
#print axioms gen_slow_loop
end Bump
