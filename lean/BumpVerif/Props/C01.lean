import BumpVerif.Proofs.Rewind
/-!
# C01 — live allocations are in-bounds and never overlap

Shape of the argument: `ArenaWF` is an invariant of every arena operation (constructor,
every allocation flavour, `dealloc`, `reset`); every block handed out lies in the *used part*
`[ptr, footer)` of a chunk the arena holds — hence inside memory obtained from the global
allocator and strictly below that chunk's footer (its bookkeeping) — and is disjoint from every
region that was in a used part before the call, i.e. from every block still live.
Allocator answers are universally quantified (subject to the allocator contract `mallocOK`,
whose violation shows up as the distinct outcome `envBad`).
-/
namespace Bump.C01
open Bump Gen

/-- Every successful allocation (fallible or not, any size incl. 0, any power-of-two alignment, any
`MIN_ALIGN`, any finger position, any chunk base the allocator returned, any refusal pattern):
non-null, inside the used part of a held chunk, disjoint from everything that was in a used part
before, and the arena stays well-formed.  No assertion fires, no unchecked arithmetic wraps. -/
theorem alloc_in_bounds_disjoint {E sz al p} (f : Bool) (s : St) (hE : EnvOK E) (h : ArenaWF E s.a)
    (hA : IsPow2 al) (hlay : sz + al ≤ 2 ^ 63)
    (hok : (allocMaybe E f sz al s).2 = .ok p) :
    0 < p ∧ ArenaWF E (allocMaybe E f sz al s).1.a ∧
    (0 < sz → InChunk (allocMaybe E f sz al s).1.a p sz) ∧
    (∀ b bn, InChunk s.a b bn → InChunk (allocMaybe E f sz al s).1.a b bn ∧ Disj p sz b bn) := by
  have sp := allocMaybe_spec f s hE h hA hlay
  obtain ⟨hwf', _, _, hpos, hsh, _⟩ := sp.ok p hok
  obtain ⟨f1, f2⟩ := hsh.frame h hwf'
  exact ⟨hpos, hwf', f2, f1⟩

/-- never an assertion failure, wrap-around or undefined behaviour on any allocation path -/
theorem alloc_no_ub {E sz al} (f : Bool) (s : St) (hE : EnvOK E) (h : ArenaWF E s.a)
    (hA : IsPow2 al) (hlay : sz + al ≤ 2 ^ 63) (w : String) :
    (allocMaybe E f sz al s).2 ≠ .bad w :=
  (allocMaybe_spec f s hE h hA hlay).nobad w

/-- a region in the used part of a chunk is inside memory the arena holds and outside the
chunk footer (the arena's own bookkeeping) -/
theorem inChunk_in_held {E a b bn} (h : ArenaWF E a) (hb : InChunk a b bn) :
    ∃ c ∈ a.chunks, c.data ≤ b ∧ b + bn ≤ c.footer ∧ c.footer + FOOTER_SIZE = c.data + c.size := by
  obtain ⟨c, hc, h1, h2⟩ := hb
  have hw := h.chunks c hc
  exact ⟨c, hc, by have := hw.ptr_ge; omega, h2, footer_lt hw⟩

/-- a zero-sized request never changes where existing blocks are (it may only lower the finger by
alignment padding) and yields a non-null aligned pointer -/
theorem zero_sized_harmless {E al p} (f : Bool) (s : St) (hE : EnvOK E) (h : ArenaWF E s.a)
    (hA : IsPow2 al) (hlay : 0 + al ≤ 2 ^ 63) (hok : (allocMaybe E f 0 al s).2 = .ok p) :
    0 < p ∧ al ∣ p ∧ s.a.M ∣ p ∧ (allocMaybe E f 0 al s).1.mem = s.mem ∧
    ∀ b bn, InChunk s.a b bn → InChunk (allocMaybe E f 0 al s).1.a b bn := by
  have sp := allocMaybe_spec f s hE h hA hlay
  obtain ⟨hwf', ha, hm, hpos, hsh, _⟩ := sp.ok p hok
  exact ⟨hpos, ha, hm, sp.mem_eq, fun b bn hb => ((hsh.frame h hwf').1 b bn hb).1⟩

/-- constructors establish the invariant -/
theorem ctor_wf {E M cap a} (f : Bool) (s : St) (hM : IsPow2 M) (hMle : M ≤ 16)
    (hok : (newArena E M cap f s).2 = .ok a) : ArenaWF E a :=
  ((newArena_spec f s hM hMle).ok a hok).1

/-- `reset` keeps the invariant (and leaves nothing in any used part: see C06) -/
theorem reset_wf {E} (s : St) (h : ArenaWF E s.a) : ArenaWF E (reset s).1.a := (reset_spec s h).2.2.1

/-- `dealloc` (any live block, any order) keeps the invariant -/
theorem dealloc_wf {E p sz} (s : St) (hE : EnvOK E) (h : ArenaWF E s.a)
    (hblk : (s.a.cur E).ptr = p → p + sz ≤ (s.a.cur E).footer) : ArenaWF E (dealloc E p sz s).1.a :=
  (dealloc_spec s hE h hblk).2.1

/-- **Main theorem (all histories).** Start from any arena a constructor returned, with no live
blocks, and run *any* admissible history — any mix of allocation flavours (fallible or not, typed,
slices, strings, fills), Allocator-trait `allocate`/`deallocate`/`grow`/`grow_zeroed`/`shrink` on
any live block in any order, fallible initialisers that succeed or fail after allocating, keeping
and releasing blocks in the same arena, `reset`, limit changes — with any allocator answers that
respect the allocator contract. Then at the end (hence at every point): the arena is well-formed;
every live block has a `MIN_ALIGN`-aligned non-null address and, if non-empty, lies in the used
part `[finger, footer)` of a chunk the arena holds; live blocks of non-zero size are pairwise
disjoint; and no step produced an assertion failure, a wrap-around or UB. -/
theorem history {E M cap a} (f : Bool) (s0 : St) (hE : EnvOK E) (hM : IsPow2 M) (hMle : M ≤ 16)
    (hctor : (newArena E M cap f s0).2 = .ok a) (ops : List Op)
    (hrun : RunOKFull E ops ⟨{ (newArena E M cap f s0).1 with a := a }, []⟩) :
    LiveInv E (sysRun E ops ⟨{ (newArena E M cap f s0).1 with a := a }, []⟩).1 ∧
    ∀ r ∈ (sysRun E ops ⟨{ (newArena E M cap f s0).1 with a := a }, []⟩).2, ∀ w, r ≠ .bad w :=
  sysRun_live_full hE ops _ (init_live _ (ctor_wf f s0 hM hMle hctor) rfl) hrun

/-- the same from any state that satisfies the invariant (e.g. after a panic in user code, C16A) -/
theorem history_from {E} (hE : EnvOK E) (ops : List Op) (y : Sys) (inv : LiveInv E y) (hrun : RunOKFull E ops y) :
    LiveInv E (sysRun E ops y).1 ∧ ∀ r ∈ (sysRun E ops y).2, ∀ w, r ≠ .bad w :=
  sysRun_live_full hE ops y inv hrun

/-- what the invariant says about two live blocks -/
theorem live_blocks_disjoint {E y b c} (inv : LiveInv E y) (hb : b ∈ y.live) (hc : c ∈ y.live) (hne : b ≠ c)
    (hbs : 0 < b.size) (hcs : 0 < c.size) : Disj b.ptr b.size c.ptr c.size := by
  have hp := inv.disj
  have : ∀ (l : List Block), l.Pairwise NoOverlap → b ∈ l → c ∈ l → NoOverlap b c := by
    intro l hl
    induction hl with
    | nil => intro h; cases h
    | cons hh _ ih =>
      intro h1 h2
      simp only [List.mem_cons] at h1 h2
      rcases h1 with rfl | h1 <;> rcases h2 with rfl | h2
      · exact absurd rfl hne
      · exact hh _ h2
      · exact (hh _ h1).symm
      · exact ih h1 h2
  have hno := this y.live hp hb hc
  unfold NoOverlap at hno
  rcases hno with h0 | h0 | h0
  · omega
  · omega
  · exact h0

/-- non-vacuity: a two-chunk arena satisfies the invariant -/
example : ArenaWF 160 ⟨8, [⟨8192, 1008, 16, 9000, 1408⟩, ⟨4096, 496, 16, 4200, 448⟩], some 5000⟩ := by
  refine ⟨⟨3, rfl⟩, by decide, ?_, by decide, ?_, ?_, by decide⟩
  · intro c hc
    simp only [List.mem_cons, List.not_mem_nil, or_false] at hc
    rcases hc with rfl | rfl <;> exact ⟨by decide, by decide, by decide, by decide, by decide, by decide, by decide, by decide⟩
  · simp [Disj, FS]
  · intro c hc
    simp only [List.mem_cons, List.not_mem_nil, or_false] at hc
    rcases hc with rfl | rfl <;> simp [Disj, FS]

end Bump.C01

#print axioms Bump.C01.alloc_in_bounds_disjoint
#print axioms Bump.C01.alloc_no_ub
#print axioms Bump.C01.inChunk_in_held
#print axioms Bump.C01.zero_sized_harmless
#print axioms Bump.C01.ctor_wf
#print axioms Bump.C01.reset_wf
#print axioms Bump.C01.dealloc_wf
#print axioms Bump.C01.history
#print axioms Bump.C01.history_from
#print axioms Bump.C01.live_blocks_disjoint
