import BumpVerif.Gen.FnGlue
import BumpVerif.Props.GenFnRealloc
/-!
# The thin layers over the allocation kernel, as translated

`alloc_layout`, `set_allocation_limit`, `min_align`, the `Alloc` impl for `&Bump` (`alloc`, `dealloc`, `realloc` — the path
`RawVec` grows through) and the `Allocator` impl (`allocate`, `deallocate`, `shrink`, `grow`, `grow_zeroed`) are regenerated
from the source and proved to add nothing to `tryAllocLayout` / `dealloc` / `shrink` / `grow` but what the model's operation
alphabet says (`Model/Arena.lean: step`): the error-to-panic conversion, the length of the returned slice, the zeroing of the
grown part.  (`~` = same state, same outcome up to the text of a `bad` diagnosis.)
-/
namespace Bump
open Bump.Rs Gen

/-- post-compose the value of a successful outcome -/
def mapOk {α β : Type} (f : α → β) (r : St × Outcome α) : St × Outcome β :=
  match r with
  | (s, .ok a) => (s, .ok (f a))
  | (s, .err) => (s, .err)
  | (s, .panic) => (s, .panic)
  | (s, .bad w) => (s, .bad w)
  | (s, .envBad) => (s, .envBad)

theorem simS_mapOk {α β : Type} (f : α → β) {x y : St × Outcome α} (h : simS x y) : simS (mapOk f x) (mapOk f y) := by
  obtain ⟨xs, xo⟩ := x; obtain ⟨ys, yo⟩ := y
  obtain ⟨h1, h2⟩ := h
  simp only at h1 h2; subst h1
  cases xo <;> cases yo <;> simp_all [Outcome.sim, mapOk, simS]

/-- `bindO (reifyS f s) (some x ↦ ok (g x) | none ↦ err)` is `mapOk g (f s)` -/
theorem bind_reify_map {α β : Type} (g : α → β) (r : St × Outcome α) :
    bindO (r.1, reify r.2) (fun s o => match o with | some x => (s, Outcome.ok (g x)) | none => (s, Outcome.err)) = mapOk g r := by
  obtain ⟨s, o⟩ := r
  cases o <;> rfl

theorem gen_alloc_layout (E sz al : Nat) (s : St) (hM : P2 s.a.M) (hal : P2 al) (hsz : sz < USIZE) (hp : (s.a.cur E).ptr < USIZE)
    (hne : HeadNotStatic E s.a) :
    simS (Gen.Fn.alloc_layout E s.a.M ⟨sz, al⟩ s) (allocLayout E sz al s) := by
  unfold Gen.Fn.alloc_layout
  have h0 := gen_try_alloc_layout E sz al s hM hal hsz hp hne
  refine simS_trans (simS_bindO _ (simS_reify h0)) ?_
  unfold allocLayout
  generalize tryAllocLayout E sz al s = r
  obtain ⟨s', o⟩ := r
  cases o <;> exact simS_refl _

theorem gen_set_allocation_limit (E M : Nat) (l : Option Nat) (s : St) :
    Gen.Fn.set_allocation_limit E M l s = ({ s with a := { s.a with limit := l } }, .ok ()) := rfl

theorem gen_min_align (E M : Nat) (s : St) : Gen.Fn.min_align E M s = .ok M := rfl

/-! ## `impl Alloc for &Bump` -/

theorem gen_alloc_alloc (E sz al : Nat) (s : St) (hM : P2 s.a.M) (hal : P2 al) (hsz : sz < USIZE) (hp : (s.a.cur E).ptr < USIZE)
    (hne : HeadNotStatic E s.a) :
    simS (Gen.Fn.alloc_alloc E s.a.M ⟨sz, al⟩ s) (tryAllocLayout E sz al s) := by
  unfold Gen.Fn.alloc_alloc
  have h0 := gen_try_alloc_layout E sz al s hM hal hsz hp hne
  refine simS_trans (simS_bindO _ (simS_reify h0)) ?_
  generalize tryAllocLayout E sz al s = r
  obtain ⟨s', o⟩ := r
  cases o <;> exact simS_refl _

theorem gen_alloc_dealloc (E p sz al : Nat) (s : St) (hM : P2 s.a.M) (hp : (s.a.cur E).ptr < USIZE) (hne : HeadNotStatic E s.a) :
    simS (Gen.Fn.alloc_dealloc E s.a.M p ⟨sz, al⟩ s) (dealloc E p sz s) := by
  unfold Gen.Fn.alloc_dealloc
  have h0 := gen_dealloc E p sz s al hM hp hne
  refine simS_trans (simS_bindO _ h0) ?_
  generalize dealloc E p sz s = r
  obtain ⟨s', o⟩ := r
  cases o <;> exact simS_refl _

/-- what `RawVec` asks of the arena when it grows or shrinks its buffer -/
def reallocModel (E p osz al nsz : Nat) (s : St) : St × Outcome Nat :=
  if osz = 0 then tryAllocLayout E osz al s
  else if validLayout nsz al then (if nsz ≤ osz then shrink E p osz al nsz al s else grow E p osz al nsz al s)
  else (s, .err)

theorem gen_alloc_realloc (E p osz al nsz : Nat) (s : St)
    (hM : P2 s.a.M) (hal : P2 al) (hpU : p < USIZE) (hosz : osz + 1 < USIZE)
    (hp : (s.a.cur E).ptr < USIZE) (hpd : (s.a.cur E).ptr + osz < USIZE) (hne : HeadNotStatic E s.a) :
    simS (Gen.Fn.alloc_realloc E s.a.M p ⟨osz, al⟩ nsz s) (reallocModel E p osz al nsz s) := by
  unfold Gen.Fn.alloc_realloc reallocModel
  by_cases h0 : osz = 0
  · have hb : (osz == 0) = true := by simpa using h0
    simp only [hb, if_true, h0]
    have h1 := gen_try_alloc_layout E 0 al s hM hal (by simp [USIZE]) hp hne
    subst h0
    refine simS_trans (simS_bindO _ (simS_reify h1)) ?_
    generalize tryAllocLayout E 0 al s = r
    obtain ⟨s', o⟩ := r
    cases o <;> exact simS_refl _
  · have hb : (osz == 0) = false := by simpa using h0
    simp only [hb, Bool.false_eq_true, if_false, h0, gen_layout_from_size_align, pureO]
    by_cases hv : validLayout nsz al = true
    · have hnsz := (validLayout_p2 hv).2
      simp only [hv, if_true, reify, bindO]
      by_cases hle : nsz ≤ osz
      · have hd : decide (nsz ≤ osz) = true := by simpa using hle
        simp only [hd, if_true, hle]
        have h1 := gen_shrink E p osz al nsz al s hM hal hpU hosz hnsz hp hpd hne
        refine simS_trans (simS_bindO _ (simS_reify h1)) ?_
        generalize shrink E p osz al nsz al s = r
        obtain ⟨s', o⟩ := r
        cases o <;> exact simS_refl _
      · have hd : decide (nsz ≤ osz) = false := by simpa using hle
        simp only [hd, Bool.false_eq_true, if_false, hle]
        have h1 := gen_grow E p osz al nsz al s hM hal hnsz hp hne
        refine simS_trans (simS_bindO _ (simS_reify h1)) ?_
        generalize grow E p osz al nsz al s = r
        obtain ⟨s', o⟩ := r
        cases o <;> exact simS_refl _
    · have hv' : validLayout nsz al = false := by simpa using hv
      simp only [hv', Bool.false_eq_true, if_false, reify, bindO]
      exact simS_refl _

/-! ## `impl Allocator for &Bump` -/

theorem gen_allocator_allocate (E sz al : Nat) (s : St) (hM : P2 s.a.M) (hal : P2 al) (hsz : sz < USIZE) (hp : (s.a.cur E).ptr < USIZE)
    (hne : HeadNotStatic E s.a) :
    simS (Gen.Fn.allocator_allocate E s.a.M ⟨sz, al⟩ s) (mapOk (fun p => (p, sz)) (tryAllocLayout E sz al s)) := by
  unfold Gen.Fn.allocator_allocate
  have h0 := gen_try_alloc_layout E sz al s hM hal hsz hp hne
  refine simS_trans (simS_bindO _ (simS_reify h0)) ?_
  generalize tryAllocLayout E sz al s = r
  obtain ⟨s', o⟩ := r
  cases o <;> exact simS_refl _

theorem gen_allocator_deallocate (E p sz al : Nat) (s : St) (hM : P2 s.a.M) (hp : (s.a.cur E).ptr < USIZE) (hne : HeadNotStatic E s.a) :
    simS (Gen.Fn.allocator_deallocate E s.a.M p ⟨sz, al⟩ s) (dealloc E p sz s) := by
  unfold Gen.Fn.allocator_deallocate
  have h0 := gen_dealloc E p sz s al hM hp hne
  refine simS_trans (simS_bindO _ h0) ?_
  generalize dealloc E p sz s = r
  obtain ⟨s', o⟩ := r
  cases o <;> exact simS_refl _

theorem gen_allocator_shrink (E p osz oal nsz nal : Nat) (s : St)
    (hM : P2 s.a.M) (hnal : P2 nal) (hpU : p < USIZE) (hosz : osz + 1 < USIZE) (hnsz : nsz < USIZE)
    (hp : (s.a.cur E).ptr < USIZE) (hpd : (s.a.cur E).ptr + osz < USIZE) (hne : HeadNotStatic E s.a) :
    simS (Gen.Fn.allocator_shrink E s.a.M p ⟨osz, oal⟩ ⟨nsz, nal⟩ s) (mapOk (fun q => (q, nsz)) (shrink E p osz oal nsz nal s)) := by
  unfold Gen.Fn.allocator_shrink
  have h1 := gen_shrink E p osz oal nsz nal s hM hnal hpU hosz hnsz hp hpd hne
  refine simS_trans (simS_bindO _ (simS_reify h1)) ?_
  generalize shrink E p osz oal nsz nal s = r
  obtain ⟨s', o⟩ := r
  cases o <;> exact simS_refl _

theorem gen_allocator_grow (E p osz oal nsz nal : Nat) (s : St)
    (hM : P2 s.a.M) (hnal : P2 nal) (hnsz : nsz < USIZE) (hp : (s.a.cur E).ptr < USIZE) (hne : HeadNotStatic E s.a) :
    simS (Gen.Fn.allocator_grow E s.a.M p ⟨osz, oal⟩ ⟨nsz, nal⟩ s) (mapOk (fun q => (q, nsz)) (grow E p osz oal nsz nal s)) := by
  unfold Gen.Fn.allocator_grow
  have h1 := gen_grow E p osz oal nsz nal s hM hnal hnsz hp hne
  refine simS_trans (simS_bindO _ (simS_reify h1)) ?_
  generalize grow E p osz oal nsz nal s = r
  obtain ⟨s', o⟩ := r
  cases o <;> exact simS_refl _

/-- `grow_zeroed` is the model's `agrow … (zeroed := true)` step: grow, then zero the bytes past the old size -/
theorem gen_allocator_grow_zeroed (E p osz oal nsz nal : Nat) (s : St)
    (hM : P2 s.a.M) (hnal : P2 nal) (hnsz : nsz < USIZE) (hp : (s.a.cur E).ptr < USIZE) (hne : HeadNotStatic E s.a)
    (hle : osz ≤ nsz) (hq : ∀ s' q, grow E p osz oal nsz nal s = (s', .ok q) → q + osz < USIZE) :
    simS (Gen.Fn.allocator_grow_zeroed E s.a.M p ⟨osz, oal⟩ ⟨nsz, nal⟩ s)
      (mapOk (fun q => (q, nsz)) (bindO (grow E p osz oal nsz nal s) fun s q =>
        ({ s with mem := s.mem ++ [.zero (q + osz) (nsz - osz)] }, .ok q))) := by
  unfold Gen.Fn.allocator_grow_zeroed
  have h1 := gen_allocator_grow E p osz oal nsz nal s hM hnal hnsz hp hne
  refine simS_trans (simS_bindO _ (simS_reify h1)) ?_
  generalize hg : grow E p osz oal nsz nal s = r at hq
  obtain ⟨s', o⟩ := r
  cases o with
  | ok q =>
    have := hq s' q rfl
    have hd : decide (osz ≤ nsz) = true := by simpa using hle
    simp [mapOk, reify, bindO, hd, this, Rs.zero_fill]
    exact simS_refl _
  | err => exact simS_refl _
  | panic => exact simS_refl _
  | bad w => exact simS_refl _
  | envBad => exact simS_refl _

#print axioms gen_alloc_layout
#print axioms gen_set_allocation_limit
#print axioms gen_min_align
#print axioms gen_alloc_alloc
#print axioms gen_alloc_dealloc
#print axioms gen_alloc_realloc
#print axioms gen_allocator_allocate
#print axioms gen_allocator_deallocate
#print axioms gen_allocator_shrink
#print axioms gen_allocator_grow
#print axioms gen_allocator_grow_zeroed

end Bump
