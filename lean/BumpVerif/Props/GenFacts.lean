import BumpVerif.Model.Arena
/-! Numeric side conditions on the constants regenerated from /repo/src on every run.
A harmless change of a constant keeps these true; a harmful one breaks a named fact. -/
namespace Bump.GenFacts
open Gen

theorem footer_size_pos : 0 < FOOTER_SIZE := by decide
theorem chunk_align_eq : CHUNK_ALIGN = 16 := by decide
theorem footer_size_dvd : CHUNK_ALIGN ∣ FOOTER_SIZE := by decide
theorem footer_align_le : FOOTER_ALIGN ≤ CHUNK_ALIGN := by decide
/-- the static empty chunk is aligned for every supported `MIN_ALIGN` -/
theorem empty_align_ok : CHUNK_ALIGN ∣ EMPTY_ALIGN := by decide
theorem overhead_eq : OVERHEAD = (MALLOC_OVERHEAD + FOOTER_SIZE + (CHUNK_ALIGN - 1)) / CHUNK_ALIGN * CHUNK_ALIGN := by decide
theorem overhead_ge_footer : FOOTER_SIZE ≤ OVERHEAD := by decide
theorem overhead_dvd : CHUNK_ALIGN ∣ OVERHEAD := by decide
theorem overhead_lt_goal : OVERHEAD < FIRST_ALLOCATION_GOAL := by decide
theorem default_eq : DEFAULT_CHUNK_SIZE_WITHOUT_FOOTER = FIRST_ALLOCATION_GOAL - OVERHEAD := by decide
theorem default_dvd : CHUNK_ALIGN ∣ DEFAULT_CHUNK_SIZE_WITHOUT_FOOTER := by decide
theorem page_pow2 : TYPICAL_PAGE_SIZE = 2 ^ 12 := by decide
theorem goal_pow2 : FIRST_ALLOCATION_GOAL = 2 ^ 9 := by decide
theorem default_lt_page : DEFAULT_CHUNK_SIZE_WITHOUT_FOOTER < TYPICAL_PAGE_SIZE := by decide
/-- both constructors assert `MIN_ALIGN.is_power_of_two()` and `MIN_ALIGN <= CHUNK_ALIGN` -/
theorem ctor_asserts : CTOR_ASSERTS_OK = 1 := by decide
/-- new chunks are requested with `CHUNK_ALIGN.max(MIN_ALIGN).max(layout.align())` -/
theorem new_chunk_align : NEW_CHUNK_ALIGN_MAX3 = 1 := by decide

/-- every store of a chunk's bump finger goes through `ChunkFooter::set_ptr`, which never writes
to the shared static empty chunk -/
theorem static_store_guarded : STATIC_STORE_GUARDED = 1 := by decide

end Bump.GenFacts
