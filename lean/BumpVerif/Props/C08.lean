import BumpVerif.Proofs.Rewind
/-! # C08 — byte accounting matches what the arena really holds -/
namespace Bump.C08
open Bump Gen

theorem sumUsable_add_footers (cs : List Chunk) (h : ∀ c ∈ cs, FOOTER_SIZE ≤ c.size) :
    sumUsable cs + cs.length * FOOTER_SIZE = sumSize cs := by
  induction cs with
  | nil => simp [sumUsable, sumSize]
  | cons c cs ih =>
    have hc := h c List.mem_cons_self
    have := ih (fun x hx => h x (List.mem_cons_of_mem _ hx))
    simp only [sumUsable, sumSize, usable, List.map_cons, List.sum_cons, List.length_cons] at *
    rw [Nat.add_mul]; omega

/-- In every well-formed arena `allocated_bytes_including_metadata()` is the total size of the
chunks held, `allocated_bytes()` is that minus one footer per chunk, and both are 0 for an arena
that holds no memory. (`ArenaWF` is preserved by every operation: C01.) -/
theorem accounting {E a} (h : ArenaWF E a) :
    allocatedBytesIncludingMetadata a E = sumSize a.chunks ∧
    a.allocatedBytes E + a.chunks.length * FOOTER_SIZE = sumSize a.chunks ∧
    (a.chunks = [] → a.allocatedBytes E = 0 ∧ allocatedBytesIncludingMetadata a E = 0) := by
  have hs := sumUsable_add_footers a.chunks (fun c hc => (h.chunks c hc).size_ge)
  have hab : a.allocatedBytes E = sumUsable a.chunks := h.ab
  refine ⟨?_, ?_, ?_⟩
  · unfold allocatedBytesIncludingMetadata; rw [hab]; exact hs
  · rw [hab]; exact hs
  · intro hn
    unfold allocatedBytesIncludingMetadata
    rw [hab, hn]; simp [sumUsable]

/-- **All histories.** After any admissible history (constructors, allocations, failed
allocations, deallocate/grow/shrink, limit changes, resets, any number of times) both figures
are exact. -/
theorem history_accounting {E} (hE : EnvOK E) (ops : List Op) (y : Sys) (inv : LiveInv E y) (hrun : RunOKFull E ops y) :
    allocatedBytesIncludingMetadata (sysRun E ops y).1.st.a E = sumSize (sysRun E ops y).1.st.a.chunks ∧
    (sysRun E ops y).1.st.a.allocatedBytes E + (sysRun E ops y).1.st.a.chunks.length * FOOTER_SIZE
      = sumSize (sysRun E ops y).1.st.a.chunks := by
  have h := accounting (sysRun_live_full hE ops y inv hrun).1.wf
  exact ⟨h.1, h.2.1⟩

/-- An allocation that does not acquire a chunk changes neither figure. -/
theorem alloc_frame {E sz al p} (f : Bool) (s : St) (hE : EnvOK E) (h : ArenaWF E s.a)
    (hA : IsPow2 al) (hlay : sz + al ≤ 2 ^ 63) (hok : (allocMaybe E f sz al s).2 = .ok p)
    (hsame : (allocMaybe E f sz al s).1.a.chunks.length = s.a.chunks.length) :
    (allocMaybe E f sz al s).1.a.allocatedBytes E = s.a.allocatedBytes E ∧
    allocatedBytesIncludingMetadata (allocMaybe E f sz al s).1.a E = allocatedBytesIncludingMetadata s.a E := by
  have sp := allocMaybe_spec f s hE h hA hlay
  obtain ⟨hwf', _, _, _, hsh, _⟩ := sp.ok p hok
  have e : (allocMaybe E f sz al s).1.a.allocatedBytes E = s.a.allocatedBytes E := by
    rcases hsh with ⟨_, ha, _, _⟩ | ⟨c, cs, hc, hc', _, _⟩ | ⟨c, hc', _⟩
    · rw [ha]
    · simp [Arena.allocatedBytes, Arena.cur, hc, hc']
    · rw [hc'] at hsame; simp at hsame
  exact ⟨e, by unfold allocatedBytesIncludingMetadata; rw [e, hsame]⟩

/-- A failed allocation changes nothing at all. -/
theorem failure_frame {E sz al} (f : Bool) (s : St) (hE : EnvOK E) (h : ArenaWF E s.a)
    (hA : IsPow2 al) (hlay : sz + al ≤ 2 ^ 63)
    (hfail : (allocMaybe E f sz al s).2 = .err ∨ (allocMaybe E f sz al s).2 = .panic) :
    (allocMaybe E f sz al s).1.a = s.a :=
  ((allocMaybe_spec f s hE h hA hlay).fail hfail).1

/-- `dealloc` and limit changes never touch the figures; `reset` recomputes them for the kept chunk. -/
theorem dealloc_frame {E p sz} (s : St) (hE : EnvOK E) (h : ArenaWF E s.a)
    (hblk : (s.a.cur E).ptr = p → p + sz ≤ (s.a.cur E).footer) :
    (dealloc E p sz s).1.a.allocatedBytes E = s.a.allocatedBytes E ∧
    (dealloc E p sz s).1.a.chunks.length = s.a.chunks.length := by
  obtain ⟨_, _, _, _, _, _, h7⟩ := dealloc_spec s hE h hblk
  rcases h7 with he | ⟨c, cs, r, hc, _, _, _, hc'⟩
  · rw [he]; exact ⟨rfl, rfl⟩
  · simp [Arena.allocatedBytes, Arena.cur, hc, hc']

theorem reset_accounting {E c rest} (s : St) (h : ArenaWF E s.a) (hc : s.a.chunks = c :: rest) :
    (reset s).1.a.allocatedBytes E = c.size - FOOTER_SIZE ∧
    allocatedBytesIncludingMetadata (reset s).1.a E = c.size := by
  obtain ⟨_, _, hwf, _, _, _, h7⟩ := reset_spec s h
  rcases h7 with ⟨hn, _⟩ | ⟨c', rest', hc', hch, _⟩
  · rw [hc] at hn; cases hn
  · rw [hc] at hc'; cases hc'
    have hw := h.chunks c (by rw [hc]; exact List.mem_cons_self)
    have := hw.size_ge
    simp only [allocatedBytesIncludingMetadata, Arena.allocatedBytes, Arena.cur, hch, List.headD_cons, List.length_cons, List.length_nil, FS] at *
    constructor <;> omega

example : allocatedBytesIncludingMetadata ⟨1, [⟨4096, 496, 16, 4200, 448⟩], none⟩ 160 = 496 := by decide

end Bump.C08

#print axioms Bump.C08.accounting
#print axioms Bump.C08.history_accounting
#print axioms Bump.C08.alloc_frame
#print axioms Bump.C08.failure_frame
#print axioms Bump.C08.dealloc_frame
#print axioms Bump.C08.reset_accounting
