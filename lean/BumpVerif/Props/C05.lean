import BumpVerif.Model.AutoTraits
import BumpVerif.Model.Borrow
import BumpVerif.Proofs.Borrow
import BumpVerif.Proofs.BorrowAccept
import BumpVerif.Gen.Api
/-!
# C05 — borrow rules make misuse a compile error

Proved over the *signature model*: `Gen.Api.table` is regenerated from `/repo/src` on every run
(receiver kind, lifetime carried by the return type, `unsafe`, struct fields, explicit auto-trait
impls, `Drop` impls); `Model/Borrow.lean` is a loan-liveness checker for straight-line client
programs over one arena, `Model/AutoTraits.lean` the structural `Send`/`Sync` rule.

* the rejection theorems hold for **every** program that contains the misuse pattern: arbitrary
  statements before, between and after (`pre`, `mid`, `post`, `post'` are universally quantified
  lists of arbitrary statements, so any number of other live allocations and the misuse at any
  position), for every method of the named class, by induction over the program;
* the acceptance theorems hold for every program of the accepted shape (`benign`: any number of
  allocation calls, container constructors, plain queries and uses, in any order);
* each has `GoodSigs t` as its only hypothesis about the crate, and `GoodSigs Gen.Api.table` is
  decided on the generated table — a signature change (`reset(&self)`, a dropped lifetime link, a
  safe `&self` chunk iterator) makes `good_sigs_generated` fail; an added `impl Sync for Bump`
  makes `bump_not_sync` fail.

What is *not* proved here: that rustc's borrow checker agrees with `accepts`.  That is validated
on generated probe programs compiled against the crate (tools/families/borrow.py), not modelled.
-/
namespace Bump.C05
open Bump.Sig Bump.Borrow

/-! ## the generated signatures are good -/

theorem good_sigs_generated : GoodSigs Gen.Api.table := by decide

/-! ## rejected families -/

/-- methods whose result holds a shared loan on the arena: every allocation method of `Bump` and
every constructor of `Vec`, `String`, `Box`, `RawVec` -/
def sharedHolderIds : List MId := allocNames.map (fun n => ⟨"Bump", n⟩) ++ ctorIds

/-- `m` hands out something that borrows the arena: shared (allocation methods, constructors) or
exclusive (`iter_allocated_chunks`) -/
def IsHolder (m : MId) (k : LoanKind) : Prop :=
  (m ∈ sharedHolderIds ∧ k = .shared) ∨ (m = ⟨"Bump", "iter_allocated_chunks"⟩ ∧ k = .excl)

theorem holder_of_isHolder {t : Sigs} (hg : GoodSigs t) {m : MId} {k : LoanKind}
    (h : IsHolder m k) : Holder t m k := by
  cases h with
  | inl h =>
    obtain ⟨hm, hk⟩ := h
    subst hk
    unfold sharedHolderIds at hm
    rw [List.mem_append] at hm
    cases hm with
    | inl hm =>
      rw [List.mem_map] at hm
      obtain ⟨n, hn, rfl⟩ := hm
      exact alloc_holder hg hn
    | inr hm => exact (ctor_holder hg hm).holder
  | inr h =>
    obtain ⟨hm, hk⟩ := h
    subst hm; subst hk
    exact iter_holder hg

/-- statements that invalidate everything allocated so far: `b.reset()`,
`b.iter_allocated_chunks()`, `drop(b)`, the end of `b`'s scope, moving `b` away -/
def Invalidates (c : Stmt) : Prop :=
  (∃ y e, e ∈ exclNames ∧ c = .call y ⟨"Bump", e⟩ none) ∨ (∃ how, c = .endArena how) ∨ c = .moveArena

theorem invalidates_access {t : Sigs} (hg : GoodSigs t) {c : Stmt} (h : Invalidates c) :
    ∃ a, access t c = some a ∧ ∀ k, conflicts a k = true := by
  cases h with
  | inl h =>
    obtain ⟨y, e, he, rfl⟩ := h
    exact ⟨.excl, excl_access hg he y none, fun k => by cases k <;> rfl⟩
  | inr h =>
    cases h with
    | inl h =>
      obtain ⟨how, rfl⟩ := h
      cases how with
      | dropCall => exact ⟨.moveOut, rfl, fun k => by cases k <;> rfl⟩
      | scopeEnd => exact ⟨.scopeOut, rfl, fun k => by cases k <;> rfl⟩
    | inr h =>
      subst h
      exact ⟨.moveOut, rfl, fun k => by cases k <;> rfl⟩

/-- **Master rejection theorem.**  For good signatures, every program in which a value obtained
from the arena (reference, slice, `str`, `Vec`, `String`, `Box`, `RawVec`, chunk iterator) is used
after a statement that invalidates the arena's contents is rejected — whatever else the program
does before, in between and afterwards. -/
theorem misuse_rejected {t : Sigs} (hg : GoodSigs t) {m : MId} {k : LoanKind} {c : Stmt}
    (hm : IsHolder m k) (hc : Invalidates c)
    (pre mid post post' : List Stmt) (x : Var) (src : Option Var) :
    accepts t (pre ++ .call (some x) m src :: (mid ++ c :: (post ++ .use x :: post'))) = false := by
  obtain ⟨a, ha, hcf⟩ := invalidates_access hg hc
  exact holder_conflict_rej (holder_of_isHolder hg hm) ha (hcf k) pre mid post post' x src

/-- use-after-reset: a reference handed out by any allocation method, used after `reset` (or
after starting a chunk iteration), with anything before, between and after. -/
theorem use_after_reset_rejected {t : Sigs} (hg : GoodSigs t) {n e : String}
    (hn : n ∈ allocNames) (he : e ∈ exclNames)
    (pre mid post post' : List Stmt) (x : Var) (src y : Option Var) :
    accepts t (pre ++ .call (some x) ⟨"Bump", n⟩ src ::
      (mid ++ .call y ⟨"Bump", e⟩ none :: (post ++ .use x :: post'))) = false :=
  misuse_rejected hg
    (Or.inl ⟨by unfold sharedHolderIds; exact List.mem_append_left _ (List.mem_map_of_mem hn), rfl⟩)
    (Or.inl ⟨y, e, he, rfl⟩) pre mid post post' x src

/-- the same for `Vec`, `String`, `Box`, `RawVec` obtained from any of their constructors -/
theorem container_use_after_reset_rejected {t : Sigs} (hg : GoodSigs t) {m : MId} {e : String}
    (hm : m ∈ ctorIds) (he : e ∈ exclNames)
    (pre mid post post' : List Stmt) (x : Var) (src y : Option Var) :
    accepts t (pre ++ .call (some x) m src ::
      (mid ++ .call y ⟨"Bump", e⟩ none :: (post ++ .use x :: post'))) = false :=
  misuse_rejected hg (Or.inl ⟨by unfold sharedHolderIds; exact List.mem_append_right _ hm, rfl⟩)
    (Or.inl ⟨y, e, he, rfl⟩) pre mid post post' x src

/-- invalidating statements inside the arena's scope: everything of `Invalidates` except the end
of the arena's own block (there an unused container is block-local and dies before the arena) -/
def InvalidatesInScope (c : Stmt) : Prop :=
  (∃ y e, e ∈ exclNames ∧ c = .call y ⟨"Bump", e⟩ none) ∨ c = .endArena .dropCall ∨ c = .moveArena

/-- a container that is still alive (not dropped or consumed in between) makes `reset`, chunk
iteration, dropping and moving the arena an error even when it is never used again: its
destructor runs at the end of the scope. -/
theorem container_alive_across_invalidation_rejected {t : Sigs} (hg : GoodSigs t) {m : MId}
    {c : Stmt} (hm : m ∈ ctorIds) (hc : InvalidatesInScope c) (pre mid post : List Stmt) (x : Var)
    (src : Option Var) (hnk : mid.all (fun s => !kills t x s) = true) :
    accepts t (pre ++ .call (some x) m src :: (mid ++ c :: post)) = false := by
  have : ∃ a, access t c = some a ∧ conflicts a .shared = true ∧ a.glueCounts = true := by
    cases hc with
    | inl h =>
      obtain ⟨y, e, he, rfl⟩ := h
      exact ⟨.excl, excl_access hg he y none, rfl, rfl⟩
    | inr h =>
      cases h with
      | inl h => subst h; exact ⟨.moveOut, rfl, rfl, rfl⟩
      | inr h => subst h; exact ⟨.moveOut, rfl, rfl, rfl⟩
  obtain ⟨a, ha, hcf, hgc⟩ := this
  exact glue_conflict_rej (ctor_holder hg hm) ha hcf hgc pre mid post x src hnk

/-- use-after-drop and escaping the arena's scope: anything obtained from the arena, used after
`drop(b)` or after the block that declared `b` has ended. -/
theorem use_after_drop_rejected {t : Sigs} (hg : GoodSigs t) {m : MId} {k : LoanKind}
    (hm : IsHolder m k) (how : EndHow) (pre mid post post' : List Stmt) (x : Var) (src : Option Var) :
    accepts t (pre ++ .call (some x) m src ::
      (mid ++ .endArena how :: (post ++ .use x :: post'))) = false :=
  misuse_rejected hg hm (Or.inr (Or.inl ⟨how, rfl⟩)) pre mid post post' x src

/-- move-while-borrowed: the arena moved into another binding or thread while something obtained
from it is used afterwards. -/
theorem move_while_borrowed_rejected {t : Sigs} (hg : GoodSigs t) {m : MId} {k : LoanKind}
    (hm : IsHolder m k) (pre mid post post' : List Stmt) (x : Var) (src : Option Var) :
    accepts t (pre ++ .call (some x) m src ::
      (mid ++ .moveArena :: (post ++ .use x :: post'))) = false :=
  misuse_rejected hg hm (Or.inr (Or.inr rfl)) pre mid post post' x src

/-- the statement takes (at least) shared access to the arena: any allocation method, any plain
`&self` query, any container constructor -/
def TouchesArena (c : Stmt) : Prop :=
  (∃ y n src, (n ∈ allocNames ∨ n ∈ plainNames) ∧ c = .call y ⟨"Bump", n⟩ src) ∨
  (∃ y m src, m ∈ ctorIds ∧ c = .call y m src)

/-- allocate-during-iteration: while the chunk iterator is used later, no allocation, query or
container construction on the same arena is accepted (nor a second iteration or a reset:
`misuse_rejected` with the exclusive holder). -/
theorem allocate_during_iteration_rejected {t : Sigs} (hg : GoodSigs t) {c : Stmt}
    (hc : TouchesArena c) (pre mid post post' : List Stmt) (it : Var) :
    accepts t (pre ++ .call (some it) ⟨"Bump", "iter_allocated_chunks"⟩ none ::
      (mid ++ c :: (post ++ .use it :: post'))) = false := by
  have ha : access t c = some .shared := by
    cases hc with
    | inl h =>
      obtain ⟨y, n, src, hn, rfl⟩ := h
      cases hn with
      | inl hn => exact alloc_access hg hn y src
      | inr hn => exact plain_access hg hn y src
    | inr h =>
      obtain ⟨y, m, src, hm, rfl⟩ := h
      exact ctor_access hg hm y src
  exact holder_conflict_rej (iter_holder hg) ha rfl pre mid post post' it none

/-- values derived from a container or iterator (`into_bump_slice`, `into_bump_str`, `drain`,
`into_iter`, `as_slice`, `as_str`, `bump()`, `Box::leak`, `ChunkIter::next` …) still carry the
arena: using them after the arena was invalidated is rejected. -/
theorem derived_use_after_invalidation_rejected {t : Sigs} (hg : GoodSigs t) {m : MId}
    {k : LoanKind} {d : MId × Recv} {c : Stmt} (hm : IsHolder m k) (hd : d ∈ deriveIds)
    (hc : Invalidates c) (pre mid1 mid2 post post' : List Stmt) (x y : Var) (src : Option Var) :
    accepts t (pre ++ .call (some x) m src ::
      (mid1 ++ .derive y d.1 x :: (mid2 ++ c :: (post ++ .use y :: post')))) = false := by
  obtain ⟨a, ha, hcf⟩ := invalidates_access hg hc
  exact derived_conflict_rej (holder_of_isHolder hg hm) (good_derive hg hd) ha (hcf k)
    pre mid1 mid2 post post' x y src

/-- a chunk handed out by `ChunkIter::next` is still an exclusive borrow of the arena: allocating
while the chunk is used later is rejected. -/
theorem chunk_use_after_allocation_rejected {t : Sigs} (hg : GoodSigs t) {c : Stmt}
    (hc : TouchesArena c) (pre mid1 mid2 post post' : List Stmt) (it ch : Var) :
    accepts t (pre ++ .call (some it) ⟨"Bump", "iter_allocated_chunks"⟩ none ::
      (mid1 ++ .derive ch ⟨"ChunkIter", "next"⟩ it :: (mid2 ++ c :: (post ++ .use ch :: post')))) = false := by
  have ha : access t c = some .shared := by
    cases hc with
    | inl h =>
      obtain ⟨y, n, src, hn, rfl⟩ := h
      cases hn with
      | inl hn => exact alloc_access hg hn y src
      | inr hn => exact plain_access hg hn y src
    | inr h =>
      obtain ⟨y, m, src, hm, rfl⟩ := h
      exact ctor_access hg hm y src
  exact derived_conflict_rej (iter_holder hg)
    (good_derive hg (d := (⟨"ChunkIter", "next"⟩, .refMut)) (by decide)) ha rfl
    pre mid1 mid2 post post' it ch none

/-- a result escaping by `return` from the function that owns the arena -/
theorem escape_by_return_rejected {t : Sigs} (hg : GoodSigs t) {m : MId} {k : LoanKind}
    (hm : IsHolder m k) (pre mid post : List Stmt) (x : Var) (src : Option Var) :
    accepts t (pre ++ .call (some x) m src :: (mid ++ .ret x :: post)) = false :=
  ret_rej (holder_of_isHolder hg hm) pre mid post x src

/-! ## accepted families -/

/-- many allocations alive at once: any number of allocation calls, container constructions,
plain queries and uses of any earlier result, in any order. -/
theorem many_allocations_alive_accepted {t : Sigs} (hg : GoodSigs t) {p : Program}
    (h : benign true [] [] p = true) : accepts t p = true :=
  benign_accepts hg h

/-- moving an idle arena (into another binding or thread): allocations whose results are plain
references no longer used afterwards, the move, then any benign program over new names. -/
theorem idle_arena_move_accepted {t : Sigs} (hg : GoodSigs t) {p1 p2 : List Stmt}
    (h1 : benign false [] [] p1 = true) (h2 : benign true (outB [] p1) [] p2 = true) :
    accepts t (p1 ++ .moveArena :: p2) = true :=
  idle_move_go hg h1 h2

/-- a result outliving the source it was copied from (`alloc_str`, `alloc_slice_copy`,
`String::from_str_in` …: any allocation method or constructor). -/
theorem result_outlives_source_accepted {t : Sigs} (hg : GoodSigs t) {pre post : List Stmt}
    {m : MId} {s x : Var} (hpre : benign true [] [] pre = true)
    (hm : m ∈ sharedHolderIds) (hs : s ∉ outB [] pre) (hx : x ∉ outB [] pre) (hxs : x ≠ s)
    (hpost : benign true (x :: s :: outB [] pre) (x :: outB [] pre) post = true) :
    accepts t (pre ++ .newSrc s :: .call (some x) m (some s) :: .dropVar s :: .use x :: post) = true := by
  apply outlives_source_go hg hpre _ hs hx hxs hpost
  unfold sharedHolderIds at hm
  rw [List.mem_append] at hm
  rw [Bool.or_eq_true]
  cases hm with
  | inl hm =>
    rw [List.mem_map] at hm
    obtain ⟨n, hn, rfl⟩ := hm
    left
    rw [Bool.and_eq_true]
    exact ⟨by simp, List.contains_iff_mem.mpr hn⟩
  | inr hm =>
    right
    rw [Bool.and_eq_true]
    exact ⟨rfl, List.contains_iff_mem.mpr hm⟩

/-! the hypotheses are satisfiable, and the theorems apply to the generated table -/

example : benign true [] []
    [.call (some 1) ⟨"Bump", "alloc"⟩ none, .call (some 2) ⟨"Vec", "new_in"⟩ none,
     .call (some 3) ⟨"Bump", "alloc_str"⟩ none, .use 1, .call none ⟨"Bump", "chunk_capacity"⟩ none,
     .use 3, .use 2, .use 1] = true := by decide

example : accepts Gen.Api.table
    [.call (some 1) ⟨"Bump", "alloc"⟩ none, .call (some 2) ⟨"Vec", "new_in"⟩ none, .use 1, .use 2] = true :=
  many_allocations_alive_accepted good_sigs_generated (by decide)

example : accepts Gen.Api.table
    [.call (some 1) ⟨"Bump", "alloc"⟩ none, .call none ⟨"Bump", "reset"⟩ none, .use 1] = false :=
  use_after_reset_rejected good_sigs_generated (by decide) (by decide) [] [] [] [] 1 none none

example : accepts Gen.Api.table
    [.call (some 1) ⟨"Bump", "alloc"⟩ none, .use 1, .moveArena, .call (some 2) ⟨"Bump", "alloc"⟩ none, .use 2] = true :=
  idle_arena_move_accepted good_sigs_generated (p1 := [.call (some 1) ⟨"Bump", "alloc"⟩ none, .use 1])
    (by decide) (by decide)

example : accepts Gen.Api.table
    [.newSrc 1, .call (some 2) ⟨"Bump", "alloc_str"⟩ (some 1), .dropVar 1, .use 2] = true :=
  result_outlives_source_accepted good_sigs_generated (pre := []) (by decide) (by decide) (by decide)
    (by decide) (by decide) (by decide)

/-! ## auto traits of the generated struct table -/

open Gen.Api in
/-- `Bump: Send` (by its explicit impl; the fields alone would not be) -/
theorem bump_send : structSend table "Bump" (true, true) = true := by decide

open Gen.Api in
/-- `Bump: !Sync` (`Cell` fields, no explicit impl) -/
theorem bump_not_sync : structSync table "Bump" (true, true) = false := by decide

open Gen.Api in
/-- `&Bump: !Send` (sharing one arena between threads), while `&mut Bump: Send` -/
theorem ref_bump_not_send :
    isSend table [] (.ref (.adt "Bump" [])) = false ∧ isSend table [] (.refMut (.adt "Bump" [])) = true := by
  decide

open Gen.Api in
/-- `Vec`, `String`, `RawVec`, `FromUtf8Error`, `DrainFilter`, `ChunkIter`, `ChunkRawIter` are
neither `Send` nor `Sync`, whatever their type parameters are -/
theorem containers_not_send_not_sync :
    ∀ n ∈ ["Vec", "String", "RawVec", "FromUtf8Error", "vec::DrainFilter", "ChunkIter", "ChunkRawIter"],
      ∀ s y : Bool, structSend table n (s, y) = false ∧ structSync table n (s, y) = false := by
  decide

open Gen.Api in
/-- `Box<'a, T>: Send` iff `T: Send`, `Sync` iff `T: Sync` -/
theorem box_send_iff : ∀ s y : Bool,
    structSend table "Box" (s, y) = s ∧ structSync table "Box" (s, y) = y := by decide

open Gen.Api in
/-- `vec::IntoIter<'bump, T>` (explicit impls): `Send` iff `T: Send`, `Sync` iff `T: Sync` -/
theorem into_iter_send_iff : ∀ s y : Bool,
    structSend table "vec::IntoIter" (s, y) = s ∧ structSync table "vec::IntoIter" (s, y) = y := by decide

/-- public types that reach a shared arena and are nevertheless `Send` by an explicit impl of the
crate (directly or through a field).  `vec::Drain` and `string::Drain` only move memory in their
destructors; `vec::Splice` contains a `vec::Drain` and its destructor allocates from the arena:
that is finding F10 (see the probe `thread/splice-send` of the borrow family). -/
def knownSendCarriers : List String := ["vec::Drain", "vec::Splice", "string::Drain"]

/-
FULL statement (false on the pinned tree — finding F10):
  ∀ d ∈ table.structs, d.isPub → sharesArena table FUEL d.self →
    ∀ s y, isSend table (d.envAll (s, y)) d.self = false
i.e. no public type through which a *shared* arena can be reached is `Send`.  The proved part
excludes exactly the three types above.
-/
open Gen.Api in
theorem shared_arena_carriers_not_send_partial :
    ∀ d ∈ table.structs, d.isPub = true → sharesArena table FUEL d.self = true →
      d.name ∉ knownSendCarriers → ∀ s y : Bool, isSend table (d.envAll (s, y)) d.self = false := by
  decide

end Bump.C05

#print axioms Bump.C05.good_sigs_generated
#print axioms Bump.C05.misuse_rejected
#print axioms Bump.C05.use_after_reset_rejected
#print axioms Bump.C05.container_use_after_reset_rejected
#print axioms Bump.C05.container_alive_across_invalidation_rejected
#print axioms Bump.C05.use_after_drop_rejected
#print axioms Bump.C05.move_while_borrowed_rejected
#print axioms Bump.C05.allocate_during_iteration_rejected
#print axioms Bump.C05.derived_use_after_invalidation_rejected
#print axioms Bump.C05.chunk_use_after_allocation_rejected
#print axioms Bump.C05.escape_by_return_rejected
#print axioms Bump.C05.many_allocations_alive_accepted
#print axioms Bump.C05.idle_arena_move_accepted
#print axioms Bump.C05.result_outlives_source_accepted
#print axioms Bump.C05.bump_send
#print axioms Bump.C05.bump_not_sync
#print axioms Bump.C05.ref_bump_not_send
#print axioms Bump.C05.containers_not_send_not_sync
#print axioms Bump.C05.box_send_iff
#print axioms Bump.C05.into_iter_send_iff
#print axioms Bump.C05.shared_arena_carriers_not_send_partial
