import BumpVerif.Proofs.VecRaw
/-!
# C18, Vec/String clause: reserved capacity is honoured in place

`Vec::push` reserves 1, `extend_from_slice` / `String::push_str` reserve the slice length, `String::push`
reserves `ch.len_utf8()` (1 through `Vec::push`, else through `extend_from_slice` of the encoding): every growing
call is `RawVec::reserve(len, k)` followed by writing `k` elements and `set_len(len + k)`.  The theorem: as long
as the running length stays within the capacity, none of these reservations reallocates — the capacity field and
the buffer (slot list) are unchanged, for every sequence of chunk sizes `ks`.
-/
namespace Bump.V.C18
open Bump

/-- a sequence of growing calls of `k₁, k₂, …` elements, seen by `RawVec` -/
def growBy (c : Cfg) : VS → List Nat → Option VS
  | v, [] => some v
  | v, k :: ks =>
    match rawReserve c v v.len k with
    | none => none
    | some v1 => growBy c { v1 with len := v1.len + k } ks

theorem rawReserve_noop {c : Cfg} {v : VS} {k : Nat} (hcap : v.cap < USIZE) (h : v.len + k ≤ capOf c v) :
    rawReserve c v v.len k = some v := by
  unfold rawReserve reserveGen
  have hlt := capOf_lt c v hcap
  have : wsub (capOf c v) v.len = capOf c v - v.len := wsub_of_le (by omega) hlt
  have hge : wsub (capOf c v) v.len ≥ k := by omega
  simp [hge]

/-- reserved capacity accepts that many elements without moving -/
theorem reserved_capacity_honoured (c : Cfg) (ks : List Nat) :
    ∀ (v : VS), v.cap < USIZE → v.len + ks.sum ≤ capOf c v →
      growBy c v ks = some { v with len := v.len + ks.sum } := by
  induction ks with
  | nil => intro v _ _; simp [growBy]
  | cons k ks ih =>
    intro v hcap h
    simp only [List.sum_cons] at h
    have hk : v.len + k ≤ capOf c v := by omega
    simp only [growBy, rawReserve_noop hcap hk]
    have := ih { v with len := v.len + k } hcap (by simp only [capOf] at h ⊢; omega)
    rw [this]
    simp [List.sum_cons, Nat.add_assoc]

/-- after `reserve(n)` (or `with_capacity_in(n)`): whatever the reservation did, `n` more elements fit in place -/
theorem reserve_then_grow_in_place (c : Cfg) (v v' : VS) (n : Nat) (ks : List Nat)
    (hres : v'.cap < USIZE) (hroom : v'.len + n ≤ capOf c v') (hks : ks.sum ≤ n) :
    ∃ v'', growBy c v' ks = some v'' ∧ v''.cap = v'.cap ∧ v''.slots = v'.slots ∧ v''.len = v'.len + ks.sum := by
  refine ⟨_, reserved_capacity_honoured c ks v' hres (by omega), rfl, rfl, rfl⟩

/-- non-vacuity: a byte vector of capacity 12 and length 10 takes a 2-byte char without moving -/
example : growBy { esz := 1, eal := 1 } ⟨List.replicate 12 none, 10, 12⟩ [2] =
    some ⟨List.replicate 12 none, 12, 12⟩ := by decide

end Bump.V.C18

#print axioms Bump.V.C18.rawReserve_noop
#print axioms Bump.V.C18.reserved_capacity_honoured
#print axioms Bump.V.C18.reserve_then_grow_in_place
