import BumpVerif.Props.GenFnArith
import BumpVerif.Gen.FnFooter
/-! # The translated `ChunkFooter::is_empty` / `set_ptr` of `src/lib.rs` equal the hand-written model

`set_ptr` is the only place a chunk's bump finger is stored; `gen_set_ptr` shows that the source's body never
stores to the shared static empty chunk (the primitive `Rs.chunk_ptr_set` is `bad` there) and otherwise is the
model's `storePtr`. -/
namespace Bump
open Rs Gen

/-- agreement of two state-passing results: same state, outcomes equal up to the `bad` text -/
def simS {α : Type} (x y : St × Outcome α) : Prop := x.1 = y.1 ∧ Outcome.sim x.2 y.2

theorem simS_refl {α : Type} (x : St × Outcome α) : simS x x := ⟨rfl, Outcome.sim_refl _⟩

theorem bindO_ok {α β : Type} (s : St) (a : α) (f : St → α → St × Outcome β) : bindO (s, Outcome.ok a) f = f s a := rfl

theorem emptyChunk_footer (E : Nat) : (emptyChunk E).footer = E := by
  simp [emptyChunk, Chunk.footer]

/-- no real chunk's footer sits at the address of the static empty chunk -/
def HeadNotStatic (E : Nat) (a : Arena) : Prop := ∀ h ∈ a.chunks.head?, h.footer ≠ E

theorem gen_set_ptr (E M p : Nat) (s : St) (why : String) (hne : HeadNotStatic E s.a) :
    simS (Gen.Fn.set_ptr E M (s.a.cur E) p s) (storePtr E s p why) := by
  unfold Gen.Fn.set_ptr Gen.Fn.is_empty storePtr setCurPtr Arena.cur
  cases hc : s.a.chunks with
  | nil =>
    simp only [List.headD_nil, pureO, bindO, emptyChunk_footer, beq_self_eq_true, if_true]
    by_cases hp : p = E
    · subst hp; simp [emptyChunk, simS, Outcome.sim]
    · have : ¬ (emptyChunk E).ptr = p := by simp [emptyChunk]; omega
      simp [hp, this, simS, Outcome.sim]
  | cons h rest =>
    have hh : h.footer ≠ E := hne h (by simp [hc])
    simp only [List.headD_cons, pureO, bindO, emptyChunk_footer, chunk_ptr_set, hc]
    simp [hh, simS, Outcome.sim]

#print axioms gen_set_ptr
end Bump
