import BumpVerif.Proofs.ArenaExt
/-!
# `alloc_slice_try_fill_with` whose closure allocates in the arena (`sliceTryFillIn`, Model/ArenaExt.lean)

The composite is not a constructor of the operation alphabet `Op`; the property theorems about it are stated here
(proofs in Proofs/ArenaExt.lean, by composition of the lemmas about `allocLayout`, `runInner`, `dealloc`):
C01 — well-formedness and the live-block invariant are preserved, nothing `bad` happens; C03 — it only ever appends
`malloc` events (no chunk is returned); C11 — on the error path the blocks the closure kept are still live, in bounds,
inside the allocated part of a chunk, and the arena's own writes touch no memory.
-/
#print axioms Bump.sliceTryFillIn_main
#print axioms Bump.sliceTryFillIn_wf
#print axioms Bump.sliceTryFillIn_nobad
#print axioms Bump.sliceTryFillIn_ledger
#print axioms Bump.sliceTryFillIn_only_mallocs
#print axioms Bump.sliceTryFillIn_blocks_kept
#print axioms Bump.sliceTryFillIn_kept_inChunk
#print axioms Bump.sliceTryFillIn_err_result
#print axioms Bump.sliceTryFillIn_ok_live
#print axioms Bump.sliceTryFillIn_mem
#print axioms Bump.sliceTryFillIn_nil
