import BumpVerif.Props.GenFnFooter
import BumpVerif.Gen.FnReset
/-! # The translated `Bump::reset` of `src/lib.rs` equals the hand-written model

The source frees the older chunks *before* its `debug_assert!` on the footer's alignment; the model checks first.
Where an assertion fails both are `bad` (which the property theorems show unreachable) and the states are not
compared (`simB`); everywhere else state and outcome are equal. -/
namespace Bump
open Rs Gen

/-- both `bad`, or equal -/
def simB {α : Type} (x y : St × Outcome α) : Prop := (x.2.isBad = true ∧ y.2.isBad = true) ∨ x = y

theorem gen_reset (E : Nat) (s : St) (hM : P2 s.a.M) (hne : HeadNotStatic E s.a)
    (hf : ∀ h ∈ s.a.chunks.head?, h.footer < USIZE) :
    simB (Gen.Fn.reset E s.a.M s) (reset s) := by
  unfold Gen.Fn.reset reset
  cases hc : s.a.chunks with
  | nil =>
    right
    simp [Gen.Fn.is_empty, Arena.cur, hc, pureO, bindO]
  | cons c rest =>
    have hcf : c.footer ≠ E := hne c (by simp [hc])
    have hfu : c.footer < USIZE := hf c (by simp [hc])
    have hcur : s.a.cur E = c := by simp [Arena.cur, hc]
    simp only [Gen.Fn.is_empty, hcur, emptyChunk_footer, pureO, bindO, beq_iff_eq, hcf, if_false,
      chunk_prev_replace, hc, beq_self_eq_true, Bool.and_self, if_true, dealloc_chunk_list,
      gen_is_pointer_aligned_to _ _ hM hfu]
    by_cases ha : c.footer % s.a.M = 0
    case neg => left; simp [ha, Outcome.isBad]
    simp only [ha, beq_self_eq_true, if_true, ne_eq, not_true_eq_false, if_false]
    -- the finger store
    simp only [Gen.Fn.set_ptr, Gen.Fn.is_empty, emptyChunk_footer, pureO, bindO, beq_iff_eq, hcf, if_false, chunk_ptr_set,
      beq_self_eq_true, if_true]
    by_cases hs : FOOTER_SIZE ≤ c.size
    case neg =>
      left
      have : c.size < FOOTER_SIZE := by omega
      simp [hs, this, Outcome.isBad]
    have hs' : ¬ c.size < FOOTER_SIZE := by omega
    simp only [hs, hs', if_true, if_false, chunk_ab_set, beq_self_eq_true, Chunk.footer, chunk_prev, prevIn, Arena.cur,
      List.headD_cons, List.headD_nil, emptyChunk]
    right
    simp [Chunk.footer]


#print axioms gen_reset
end Bump
