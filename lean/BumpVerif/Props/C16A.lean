import BumpVerif.Proofs.Rewind
/-!
# C16 / C15 — arena part

The arena never looks at the values stored in it: none of its operations has a memory effect on
a live block (C02) and none runs a destructor (the model has no such step; the harness checks
on the real crate that no destructor of an arena-resident value runs during fills, `reset` and
`drop`). What a panic in user code can do to the arena: initialiser closures (`alloc_with`,
`alloc_try_with`, `alloc_slice_fill_with/clone/iter/default`) run *after* the space has been
reserved; if they unwind, the arena is simply in the state right after the reservation.
-/
namespace Bump.C16A
open Bump Gen

/-- A panic in the initialiser of any `alloc*_with` / slice fill leaves the arena in the state
right after the reservation: well-formed, all live blocks intact, the reserved block leaked (it
stays counted as live, so nothing can ever be placed over the partially initialised elements),
and the arena fully usable (the invariant of C01 holds, so every later operation behaves). -/
theorem panic_after_reservation_keeps_invariant {E sz al p} (f : Bool) (s : St) (live : List Block)
    (hE : EnvOK E) (inv : LiveInv E ⟨s, live⟩) (hA : IsPow2 al) (hlay : sz + al ≤ 2 ^ 63)
    (hok : (allocMaybe E f sz al s).2 = .ok p) :
    LiveInv E ⟨(allocMaybe E f sz al s).1, live ++ [⟨p, sz⟩]⟩ ∧ (allocMaybe E f sz al s).1.mem = s.mem :=
  ⟨allocPost_live hE inv (allocMaybe_spec f s hE inv.wf hA hlay) hok, (allocMaybe_spec f s hE inv.wf hA hlay).mem_eq⟩

/-- `reset` and dropping the arena only talk to the allocator (free events); they write no memory
and — there being no such step in the arena — run no destructor of any value stored in it. -/
theorem reset_and_drop_touch_no_value {E} (s : St) (h : ArenaWF E s.a) :
    (reset s).1.mem = s.mem ∧ (dropArena s).mem = s.mem ∧
    (∀ e ∈ (dropArena s).evs, e ∈ s.evs ∨ ∃ c ∈ s.a.chunks, e = freeEv c) := by
  refine ⟨(reset_spec s h).2.2.2.1, rfl, ?_⟩
  intro e he
  simp only [dropArena, List.mem_append, List.mem_map] at he
  rcases he with h1 | ⟨c, hc, rfl⟩
  · exact Or.inl h1
  · exact Or.inr ⟨c, hc, rfl⟩

/-- after such a panic the arena keeps working for every later admissible history -/
theorem usable_after_panic {E sz al p} (f : Bool) (s : St) (live : List Block) (hE : EnvOK E)
    (inv : LiveInv E ⟨s, live⟩) (hA : IsPow2 al) (hlay : sz + al ≤ 2 ^ 63)
    (hok : (allocMaybe E f sz al s).2 = .ok p) (ops : List Op)
    (hrun : RunOKFull E ops ⟨(allocMaybe E f sz al s).1, live ++ [⟨p, sz⟩]⟩) :
    LiveInv E (sysRun E ops ⟨(allocMaybe E f sz al s).1, live ++ [⟨p, sz⟩]⟩).1 :=
  (sysRun_live_full hE ops _ (panic_after_reservation_keeps_invariant f s live hE inv hA hlay hok).1 hrun).1

end Bump.C16A

#print axioms Bump.C16A.panic_after_reservation_keeps_invariant
#print axioms Bump.C16A.reset_and_drop_touch_no_value
#print axioms Bump.C16A.usable_after_panic
