import BumpVerif.Gen.FnSlices
import BumpVerif.Props.GenFnVecCopy
/-!
# `Vec::extend_from_slices_copy` as translated = the model (site of defect F11)

The generated function computes the total of the slice lengths with the source's own `try_fold` of `checked_add`
(`vec_extend_from_slices_copy.fold_1`), panics when that gives `None`, reserves the total once and copies slice by slice with the
translated `extend_from_slice_copy_unchecked`.  The model's `extendFromSlicesCopy` sums in `Nat` and lets `RawVec::reserve` refuse:
the theorem shows the two agree on **every** input — in particular on totals at and above `2^64`, where the pinned code's wrapping
`sum()` reserved too little (F11): a translation of that code does not satisfy this theorem.
-/
namespace Bump.V
open Bump Bump.RsM

/-- the source's `try_fold(acc, checked_add)`: the exact total when it fits a `usize`, `None` otherwise -/
theorem fold_total (srcs : List (List (Option Elem))) : ∀ acc : Nat, acc < USIZE →
    Gen.Fn.vec_extend_from_slices_copy.fold_1 srcs acc =
      if acc + (srcs.map List.length).sum < USIZE then some (acc + (srcs.map List.length).sum) else none := by
  induction srcs with
  | nil => intro acc hacc; simp [Gen.Fn.vec_extend_from_slices_copy.fold_1, hacc]
  | cons s ss ih =>
    intro acc hacc
    unfold Gen.Fn.vec_extend_from_slices_copy.fold_1
    simp only [checkedAdd, List.map_cons, List.sum_cons]
    by_cases h : acc + s.length < USIZE
    · simp only [h, if_true, ih _ h]
      simp only [Nat.add_assoc]
    · simp only [h, if_false]
      rw [if_neg]; omega

theorem capOf_copy_len (c : Cfg) (v : VS) (src : List (Option Elem)) (dst n : Nat) (w : W) :
    capOf c { (v.copyFrom c src dst w).1 with len := n } = capOf c v := by
  unfold VS.copyFrom capOf
  by_cases he : src.isEmpty = true <;> simp [he, VS.need]

/-- the unchecked copies after the single reservation: no debug assertion fires, no unchecked add wraps -/
theorem each_copySlices (c : Cfg) (srcs : List (List Elem)) : ∀ (v : VS) (w : W),
    capOf c v < USIZE → v.len + (srcs.map List.length).sum ≤ capOf c v →
    Gen.Fn.vec_extend_from_slices_copy.each_1 c (srcs.map (·.map some)) (v, w) = (copySlices c srcs v w, .ok ()) := by
  induction srcs with
  | nil => intro v w _ _; simp [Gen.Fn.vec_extend_from_slices_copy.each_1, copySlices]
  | cons s ss ih =>
    intro v w hcap hroom
    simp only [List.map_cons, List.sum_cons] at hroom
    simp only [List.map_cons]
    unfold Gen.Fn.vec_extend_from_slices_copy.each_1
    have hr1 : v.len + (s.map some).length ≤ capOf c v := by simp; omega
    rw [gen_vec_extend_from_slice_copy_unchecked c (s.map some) v w hr1 hcap]
    have hdbg : (c.dbg && decide (v.len + s.length > capOf c v)) = false := by
      have : ¬ v.len + s.length > capOf c v := by omega
      simp [this]
    simp only [bindW, copySlices, hdbg, Bool.false_eq_true, if_false, List.length_map]
    have hc2 := capOf_copy_len c v (s.map some) v.len (v.len + s.length) w
    rw [ih _ _ (by rw [hc2]; exact hcap) (by rw [hc2]; simp only []; omega)]
    simp only [copyFrom_len]

/-- `extend_from_slices_copy` as translated is the model's `extendFromSlicesCopy`, for every list of slices: it panics exactly
when the total does not fit a `usize` or `reserve` refuses it, and otherwise appends the slices in order -/
theorem gen_vec_extend_from_slices_copy_raw (c : Cfg) (srcs : List (List Elem)) (v : VS) (w : W) (hc : CfgOK c) (hb : BufOK c v)
    (hl : v.len ≤ capOf c v) :
    Gen.Fn.vec_extend_from_slices_copy c (srcs.map (·.map some)) (v, w) = ofModel (extendFromSlicesCopy c v srcs w) := by
  unfold Gen.Fn.vec_extend_from_slices_copy
  rw [fold_total _ 0 (by simp [USIZE])]
  have hsum : ((srcs.map (·.map some)).map List.length).sum = (srcs.map List.length).sum := by
    simp [List.map_map, Function.comp_def]
  simp only [hsum, Nat.zero_add]
  by_cases ht : (srcs.map List.length).sum < USIZE
  · simp only [ht, if_true, gen_vec_reserve]
    unfold extendFromSlicesCopy
    cases hr : rawReserve c v v.len (srcs.map List.length).sum with
    | none => rfl
    | some v1 =>
      obtain ⟨hb1, hlen, hcap, _, _⟩ := rawReserve_buf hc hb hl hr
      have hlt := capOf_lt c v1 hb1.capLt
      simp only [bindW]
      rw [each_copySlices c srcs v1 w hlt (by omega)]
      rcases copySlices c srcs v1 w with ⟨v2, w2⟩
      rfl
  · simp only [ht, if_false]
    -- the model: `reserve` of a total above `usize::MAX` is a capacity overflow
    have hw : wsub (capOf c v) v.len < USIZE := by unfold wsub; exact Nat.mod_lt _ (by simp [USIZE])
    have h1 : ¬ (wsub (capOf c v) v.len ≥ (srcs.map List.length).sum) := by omega
    have h2 : checkedAdd v.len (srcs.map List.length).sum = none := by
      unfold checkedAdd; rw [if_neg]; omega
    have hm : extendFromSlicesCopy c v srcs w = (v, w, none) := by
      unfold extendFromSlicesCopy rawReserve reserveGen
      rw [if_neg h1]
      unfold reserveInternal amortizedNewCap
      simp [h2]
    rw [hm]; rfl

theorem gen_vec_extend_from_slices_copy (c : Cfg) (srcs : List (List Elem)) (v : VS) (w : W) (hc : CfgOK c) (hb : BufOK c v)
    (hl : v.len ≤ capOf c v) :
    toModel (Gen.Fn.vec_extend_from_slices_copy c (srcs.map (·.map some)) (v, w)) = extendFromSlicesCopy c v srcs w := by
  rw [gen_vec_extend_from_slices_copy_raw c srcs v w hc hb hl, toModel_ofModel]

/-- F11 as a statement about the translated code: zero-sized slices of `usize::MAX` and 3 elements are refused -/
example (c : Cfg) (s : VW) (a b : List (Option Elem)) (ha : a.length = USIZE_MAX) (hb : b.length = 3) :
    Gen.Fn.vec_extend_from_slices_copy c [a, b] s = (s, .panic) := by
  unfold Gen.Fn.vec_extend_from_slices_copy
  rw [fold_total _ 0 (by simp [USIZE])]
  simp [ha, hb, USIZE, USIZE_MAX]

#print axioms gen_vec_extend_from_slices_copy_raw
#print axioms gen_vec_extend_from_slices_copy

end Bump.V
