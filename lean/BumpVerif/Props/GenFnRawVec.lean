import BumpVerif.Gen.FnRawVec
import BumpVerif.Proofs.VecRaw
/-! # The translated capacity logic of `src/collections/raw_vec.rs` equals the hand-written model

`cap`, `alloc_guard`, `amortized_new_size`, the inlined capacity test of `(in)fallible_reserve_internal`, the
`reserve_internal_or_*` wrappers and the four public entry points `reserve`, `reserve_exact`, `try_reserve`,
`try_reserve_exact` are regenerated from the source on every run; `reserve_internal` itself is the hand model
`V.reserveInternal` (see `Model/RsVec.lean`). -/
namespace Bump.V
open Bump Rs RsV

theorem gen_rv_cap (c : Cfg) (v : VS) : Gen.Fn.rv_cap c v = .ok (capOf c v) := by
  unfold Gen.Fn.rv_cap capOf
  by_cases h : c.esz = 0 <;> simp [h, bnot]

/-- on a 64-bit target `alloc_guard` never refuses -/
theorem gen_alloc_guard (n : Nat) : Gen.Fn.alloc_guard n = .ok (.ok ()) := by
  simp [Gen.Fn.alloc_guard]

/-- `amortized_new_size` = `max(2·cap, used + extra)`, `CapacityOverflow` when the sum does not fit; the doubling is
unchecked in the source and cannot wrap for a capacity the invariant allows (`cap·2 < 2^64`) -/
theorem gen_amortized_new_size (c : Cfg) (v : VS) (used extra : Nat) (h : v.cap * 2 < USIZE) :
    Gen.Fn.amortized_new_size c used extra v = .ok (okOr (amortizedNewCap c v used extra) .capOverflow) := by
  unfold Gen.Fn.amortized_new_size amortizedNewCap
  cases checkedAdd used extra <;> simp [okOr, h]

/-- what a caller of the fallible entry points sees -/
def tryReserveResult (c : Cfg) (v : VS) (used extra : Nat) (exact : Bool) : VS × Outcome (Except RErr Unit) :=
  match reserveGen c v used extra exact with
  | .ok v' => (v', .ok (.ok ()))
  | .error e => (v, .ok (.error e))

/-- what a caller of the infallible entry points sees: every error is a panic -/
def reserveResult (c : Cfg) (v : VS) (used extra : Nat) (exact : Bool) : VS × Outcome Unit :=
  match reserveGen c v used extra exact with
  | .ok v' => (v', .ok ())
  | .error _ => (v, .panic)

theorem gen_fallible_reserve_internal (c : Cfg) (v : VS) (used extra : Nat) (st : Strategy) :
    Gen.Fn.fallible_reserve_internal c used extra st v = tryReserveResult c v used extra (st == .exact) := by
  simp only [Gen.Fn.fallible_reserve_internal, gen_rv_cap, pureV, bindV, tryReserveResult, reserveGen,
    Gen.Fn.reserve_internal_or_error, reserve_internal]
  by_cases h : wsub (capOf c v) used ≥ extra
  · simp [h]
  · simp only [h, decide_false, Bool.false_eq_true, if_false]
    cases hr : reserveInternal c v used extra (st == .exact) with
    | ok v' => simp
    | error e => cases e <;> simp

theorem gen_infallible_reserve_internal (c : Cfg) (v : VS) (used extra : Nat) (st : Strategy) :
    Gen.Fn.infallible_reserve_internal c used extra st v = reserveResult c v used extra (st == .exact) := by
  simp only [Gen.Fn.infallible_reserve_internal, gen_rv_cap, pureV, bindV, reserveResult, reserveGen,
    Gen.Fn.reserve_internal_or_panic, reserve_internal]
  by_cases h : wsub (capOf c v) used ≥ extra
  · simp [h]
  · simp only [h, decide_false, Bool.false_eq_true, if_false]
    cases hr : reserveInternal c v used extra (st == .exact) with
    | ok v' => simp
    | error e => cases e <;> simp

/-- `RawVec::reserve(used, extra)` is the model's `rawReserve` (`none` = panic) -/
theorem gen_rv_reserve (c : Cfg) (v : VS) (used extra : Nat) :
    Gen.Fn.rv_reserve c used extra v =
      match rawReserve c v used extra with
      | some v' => (v', .ok ())
      | none => (v, .panic) := by
  simp only [Gen.Fn.rv_reserve, gen_infallible_reserve_internal, bindV, reserveResult, rawReserve]
  have : (Strategy.amortized == Strategy.exact) = false := by decide
  rw [this]
  cases reserveGen c v used extra false <;> simp

theorem gen_rv_reserve_exact (c : Cfg) (v : VS) (used extra : Nat) :
    Gen.Fn.rv_reserve_exact c used extra v = reserveResult c v used extra true := by
  simp only [Gen.Fn.rv_reserve_exact, gen_infallible_reserve_internal, bindV]
  have : (Strategy.exact == Strategy.exact) = true := by decide
  rw [this]
  unfold reserveResult
  cases reserveGen c v used extra true <;> simp

theorem gen_rv_try_reserve (c : Cfg) (v : VS) (used extra : Nat) :
    Gen.Fn.rv_try_reserve c used extra v = tryReserveResult c v used extra false := by
  simp only [Gen.Fn.rv_try_reserve, gen_fallible_reserve_internal, bindV]
  have : (Strategy.amortized == Strategy.exact) = false := by decide
  rw [this]
  unfold tryReserveResult
  cases reserveGen c v used extra false <;> simp

theorem gen_rv_try_reserve_exact (c : Cfg) (v : VS) (used extra : Nat) :
    Gen.Fn.rv_try_reserve_exact c used extra v = tryReserveResult c v used extra true := by
  simp only [Gen.Fn.rv_try_reserve_exact, gen_fallible_reserve_internal, bindV]
  have : (Strategy.exact == Strategy.exact) = true := by decide
  rw [this]
  unfold tryReserveResult
  cases reserveGen c v used extra true <;> simp

#print axioms gen_rv_cap
#print axioms gen_alloc_guard
#print axioms gen_amortized_new_size
#print axioms gen_fallible_reserve_internal
#print axioms gen_infallible_reserve_internal
#print axioms gen_rv_reserve
#print axioms gen_rv_reserve_exact
#print axioms gen_rv_try_reserve
#print axioms gen_rv_try_reserve_exact
end Bump.V
