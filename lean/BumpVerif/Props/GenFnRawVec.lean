import BumpVerif.Gen.FnRawVec
import BumpVerif.Proofs.VecRaw
/-! # The translated capacity logic of `src/collections/raw_vec.rs` equals the hand-written model

`cap`, `alloc_guard`, `amortized_new_size`, the inlined capacity test of `(in)fallible_reserve_internal`, the
`reserve_internal_or_*` wrappers and the four public entry points `reserve`, `reserve_exact`, `try_reserve`,
`try_reserve_exact` are regenerated from the source on every run; `reserve_internal` itself is the hand model
`V.reserveInternal` (see `Model/RsVec.lean`). -/
namespace Bump.V
open Bump Rs RsV

theorem gen_rv_cap (c : Cfg) (v : VS) : Gen.Fn.rv_cap c v = .ok (capOf c v) := by
  unfold Gen.Fn.rv_cap capOf
  by_cases h : c.esz = 0 <;> simp [h, bnot]

/-- on a 64-bit target `alloc_guard` never refuses -/
theorem gen_alloc_guard (n : Nat) : Gen.Fn.alloc_guard n = .ok (.ok ()) := by
  simp [Gen.Fn.alloc_guard]

/-- `amortized_new_size` = `max(2·cap, used + extra)`, `CapacityOverflow` when the sum does not fit; the doubling is
unchecked in the source and cannot wrap for a capacity the invariant allows (`cap·2 < 2^64`) -/
theorem gen_amortized_new_size (c : Cfg) (v : VS) (used extra : Nat) (h : v.cap * 2 < USIZE) :
    Gen.Fn.amortized_new_size c used extra v = .ok (okOr (amortizedNewCap c v used extra) .capOverflow) := by
  unfold Gen.Fn.amortized_new_size amortizedNewCap
  cases checkedAdd used extra <;> simp [okOr, h]

/-- what a caller of the fallible entry points sees -/
def tryReserveResult (c : Cfg) (v : VS) (used extra : Nat) (exact : Bool) : VS × Outcome (Except RErr Unit) :=
  match reserveGen c v used extra exact with
  | .ok v' => (v', .ok (.ok ()))
  | .error e => (v, .ok (.error e))

/-- what a caller of the infallible entry points sees: every error is a panic -/
def reserveResult (c : Cfg) (v : VS) (used extra : Nat) (exact : Bool) : VS × Outcome Unit :=
  match reserveGen c v used extra exact with
  | .ok v' => (v', .ok ())
  | .error _ => (v, .panic)

theorem gen_fallible_reserve_internal (c : Cfg) (v : VS) (used extra : Nat) (st : Strategy) :
    Gen.Fn.fallible_reserve_internal c used extra st v = tryReserveResult c v used extra (st == .exact) := by
  simp only [Gen.Fn.fallible_reserve_internal, gen_rv_cap, pureV, bindV, tryReserveResult, reserveGen,
    Gen.Fn.reserve_internal_or_error, reserve_internal]
  by_cases h : wsub (capOf c v) used ≥ extra
  · simp [h]
  · simp only [h, decide_false, Bool.false_eq_true, if_false]
    cases hr : reserveInternal c v used extra (st == .exact) with
    | ok v' => simp
    | error e => cases e <;> simp

theorem gen_infallible_reserve_internal (c : Cfg) (v : VS) (used extra : Nat) (st : Strategy) :
    Gen.Fn.infallible_reserve_internal c used extra st v = reserveResult c v used extra (st == .exact) := by
  simp only [Gen.Fn.infallible_reserve_internal, gen_rv_cap, pureV, bindV, reserveResult, reserveGen,
    Gen.Fn.reserve_internal_or_panic, reserve_internal]
  by_cases h : wsub (capOf c v) used ≥ extra
  · simp [h]
  · simp only [h, decide_false, Bool.false_eq_true, if_false]
    cases hr : reserveInternal c v used extra (st == .exact) with
    | ok v' => simp
    | error e => cases e <;> simp

/-- `RawVec::reserve(used, extra)` is the model's `rawReserve` (`none` = panic) -/
theorem gen_rv_reserve (c : Cfg) (v : VS) (used extra : Nat) :
    Gen.Fn.rv_reserve c used extra v =
      match rawReserve c v used extra with
      | some v' => (v', .ok ())
      | none => (v, .panic) := by
  simp only [Gen.Fn.rv_reserve, gen_infallible_reserve_internal, bindV, reserveResult, rawReserve]
  have : (Strategy.amortized == Strategy.exact) = false := by decide
  rw [this]
  cases reserveGen c v used extra false <;> simp

theorem gen_rv_reserve_exact (c : Cfg) (v : VS) (used extra : Nat) :
    Gen.Fn.rv_reserve_exact c used extra v = reserveResult c v used extra true := by
  simp only [Gen.Fn.rv_reserve_exact, gen_infallible_reserve_internal, bindV]
  have : (Strategy.exact == Strategy.exact) = true := by decide
  rw [this]
  unfold reserveResult
  cases reserveGen c v used extra true <;> simp

theorem gen_rv_try_reserve (c : Cfg) (v : VS) (used extra : Nat) :
    Gen.Fn.rv_try_reserve c used extra v = tryReserveResult c v used extra false := by
  simp only [Gen.Fn.rv_try_reserve, gen_fallible_reserve_internal, bindV]
  have : (Strategy.amortized == Strategy.exact) = false := by decide
  rw [this]
  unfold tryReserveResult
  cases reserveGen c v used extra false <;> simp

theorem gen_rv_try_reserve_exact (c : Cfg) (v : VS) (used extra : Nat) :
    Gen.Fn.rv_try_reserve_exact c used extra v = tryReserveResult c v used extra true := by
  simp only [Gen.Fn.rv_try_reserve_exact, gen_fallible_reserve_internal, bindV]
  have : (Strategy.exact == Strategy.exact) = true := by decide
  rw [this]
  unfold tryReserveResult
  cases reserveGen c v used extra true <;> simp

/-- `current_layout`: `None` for an unallocated vector, else `size_of::<T>() * cap` bytes at `align_of::<T>()` -/
theorem gen_current_layout (c : Cfg) (v : VS) (h : c.esz * v.cap < USIZE) :
    Gen.Fn.current_layout c v = .ok (if v.cap = 0 then none else some ⟨c.esz * v.cap, c.eal⟩) := by
  unfold Gen.Fn.current_layout
  by_cases h0 : v.cap = 0 <;> simp [h0, h]

theorem arena_realloc_eq (c : Cfg) (bytes : Nat) (v : VS) :
    arena_realloc c bytes v =
      if !c.allocOk || decide (bytes > c.allocLimit) then (v, .ok none)
      else ({ v with slots := resizeSlots v.slots (bytes / c.esz) }, .ok (some ())) := by
  unfold arena_realloc arena_serves
  cases c.allocOk <;> by_cases h : bytes > c.allocLimit <;> simp [h]

/-- `reserve_internal` as translated — new capacity, `Layout::array`, the arena's answer, `handle_alloc_error` for the
infallible flavour, the assignment of `ptr`/`cap` — is the hand model the callers are proved against (sized elements; for a
zero-sized `T` the function is only reached to report `CapacityOverflow`) -/
theorem gen_rv_reserve_internal (c : Cfg) (v : VS) (used extra : Nat) (f : Fallibility) (st : Strategy)
    (he : c.esz ≠ 0) (hh : v.cap * 2 < USIZE) (hb : c.esz * v.cap < USIZE) :
    Gen.Fn.rv_reserve_internal c used extra f st v = reserve_internal c used extra f st v := by
  have hk2 : ∀ (a1 a2 a3 nc : Nat) (l1 l2 : Layout) (r1 : Except RErr Unit) (u : Unit) (ol : Option Layout) (res : Option Unit) (v' : VS),
      Gen.Fn.rv_reserve_internal.k_2 c a1 a2 f st a3 nc l1 l2 r1 u ol res v' =
        match res with
        | none => if f == .infallible then (v', .panic) else (v', .ok (.error .allocErr))
        | some _ => ({ v' with cap := nc }, .ok (.ok ())) := by
    intro a1 a2 a3 nc l1 l2 r1 u ol res v'
    unfold Gen.Fn.rv_reserve_internal.k_2
    cases res <;> cases f <;> simp [set_cap, bindV]
  have key : ∀ (nc : Nat), Gen.Fn.rv_reserve_internal.k_1 c used extra f st nc v =
      match arrayLayout c.esz c.eal nc with
      | none => (v, .ok (.error .capOverflow))
      | some bytes =>
        if !c.allocOk || decide (bytes > c.allocLimit) then
          (if f == .infallible then (v, .panic) else (v, .ok (.error .allocErr)))
        else ({ v with cap := nc, slots := resizeSlots v.slots nc }, .ok (.ok ())) := by
    intro nc
    unfold Gen.Fn.rv_reserve_internal.k_1
    simp only [layoutArray]
    cases hl : arrayLayout c.esz c.eal nc with
    | none => simp [okOr]
    | some bytes =>
      have hbytes : bytes = c.esz * nc := by
        unfold arrayLayout at hl
        split at hl
        · cases hl
        · injection hl with hl; exact hl.symm
      have hdiv : bytes / c.esz = nc := by rw [hbytes]; exact Nat.mul_div_cancel_left nc (Nat.pos_of_ne_zero he)
      simp only [Option.map_some, okOr, gen_alloc_guard, pureV, bindV, gen_current_layout c v hb, arena_realloc_eq, hk2]
      by_cases hs : (!c.allocOk || decide (bytes > c.allocLimit)) = true
      · by_cases h0 : v.cap = 0 <;> simp [h0, hs]
      · by_cases h0 : v.cap = 0 <;> simp [h0, hs, hdiv]
  unfold Gen.Fn.rv_reserve_internal reserve_internal reserveInternal
  cases st with
  | exact =>
    simp only [beq_self_eq_true, if_true]
    cases hc : checkedAdd used extra with
    | none => simp [okOr]
    | some nc =>
      simp only [okOr, key]
      cases arrayLayout c.esz c.eal nc with
      | none => rfl
      | some bytes =>
        simp only []
        by_cases hs : (!c.allocOk || decide (bytes > c.allocLimit)) = true
        · simp only [hs, if_true]
        · simp only [hs, Bool.false_eq_true, if_false]
  | amortized =>
    have hne : (Strategy.amortized == Strategy.exact) = false := by decide
    simp only [hne, Bool.false_eq_true, if_false, gen_amortized_new_size c v used extra hh, pureV, bindV]
    cases hc : amortizedNewCap c v used extra with
    | none => simp [okOr]
    | some nc =>
      simp only [okOr, key]
      cases arrayLayout c.esz c.eal nc with
      | none => rfl
      | some bytes =>
        simp only []
        by_cases hs : (!c.allocOk || decide (bytes > c.allocLimit)) = true
        · simp only [hs, if_true]
        · simp only [hs, Bool.false_eq_true, if_false]

theorem gen_dealloc_buffer (c : Cfg) (v : VS) (hb : c.esz * v.cap < USIZE) : Gen.Fn.dealloc_buffer c v = (v, .ok ()) := by
  unfold Gen.Fn.dealloc_buffer
  by_cases he : c.esz = 0
  · simp [he]
  · have : (c.esz != 0) = true := by simpa using he
    simp only [this, if_true, gen_current_layout c v hb, pureV, bindV]
    by_cases h0 : v.cap = 0 <;> simp [h0, arena_dealloc]

/-- `Vec::shrink_to_fit` → `RawVec::shrink_to_fit(len)` as translated is the model's `shrinkToFit` (`none` = panic); the buffer
the vector holds was served by the arena, so the smaller one is within the arena's limit too -/
theorem gen_rv_shrink_to_fit (c : Cfg) (v : VS) (hb : c.esz * v.cap < USIZE) (hlim : c.esz * v.cap ≤ c.allocLimit)
    (hne : capOf c v ≠ v.len) :
    Gen.Fn.rv_shrink_to_fit c v.len v = match shrinkToFit c v with | some v' => (v', .ok ()) | none => (v, .panic) := by
  unfold Gen.Fn.rv_shrink_to_fit shrinkToFit
  rw [if_neg hne]
  by_cases he : c.esz = 0
  · simp [he, set_cap, bindV]
  · have heb : (c.esz == 0) = false := by simpa using he
    have hcap : capOf c v = v.cap := by simp [capOf, he]
    rw [hcap] at hne
    simp only [heb, Bool.false_eq_true, if_false, he]
    by_cases hlt : v.cap < v.len
    · have hd : decide (v.cap ≥ v.len) = false := by simp; omega
      simp [hd, hlt]
    · have hd : decide (v.cap ≥ v.len) = true := by simp; omega
      simp only [hd, if_true, hlt, if_false]
      by_cases h0 : v.len = 0
      · simp [h0, gen_dealloc_buffer c v hb, reset_new, bindV]
      · have h0b : (v.len == 0) = false := by simpa using h0
        have hneb : (v.cap != v.len) = true := by simpa using hne
        have hle : c.esz * v.len ≤ c.esz * v.cap := Nat.mul_le_mul_left _ (by omega)
        have h1 : c.esz * v.len < USIZE := by omega
        have hdiv : c.esz * v.len / c.esz = v.len := Nat.mul_div_cancel_left _ (Nat.pos_of_ne_zero he)
        have hnl : ¬ c.esz * v.len > c.allocLimit := by omega
        simp only [h0b, Bool.false_eq_true, if_false, hneb, if_true, hb, h1, h0, arena_realloc_eq, bindV]
        cases hok : c.allocOk <;> simp [hnl, hdiv, set_cap, bindV]

#print axioms gen_rv_reserve_internal
#print axioms gen_rv_shrink_to_fit
#print axioms gen_rv_cap
#print axioms gen_alloc_guard
#print axioms gen_amortized_new_size
#print axioms gen_fallible_reserve_internal
#print axioms gen_infallible_reserve_internal
#print axioms gen_rv_reserve
#print axioms gen_rv_reserve_exact
#print axioms gen_rv_try_reserve
#print axioms gen_rv_try_reserve_exact
end Bump.V
