import BumpVerif.Props.GenFnArith
import BumpVerif.Props.GenFacts
import BumpVerif.Gen.FnDetails
/-! # The translated chunk-sizing functions of `src/lib.rs` equal the hand-written model -/
namespace Bump
open Rs Gen

theorem p2_max {a b : Nat} (ha : P2 a) (hb : P2 b) : P2 (max a b) := by
  by_cases h : a ≤ b
  · rw [Nat.max_eq_right h]; exact hb
  · rw [Nat.max_eq_left (by omega)]; exact ha

theorem p2_chunk_align : P2 CHUNK_ALIGN := ⟨by decide, by decide⟩
theorem p2_page : P2 TYPICAL_PAGE_SIZE := ⟨by decide, by decide⟩

/-- the common tail of both size branches -/
private theorem details_tail (A a : Nat) (hge : OVERHEAD ≤ a) :
    Outcome.sim
      (if OVERHEAD ≤ a then
        if CHUNK_ALIGN ≠ 0 then
          if (A % CHUNK_ALIGN == 0) = true then
            if CHUNK_ALIGN ≠ 0 then
              if ((a - OVERHEAD) % CHUNK_ALIGN == 0) = true then
                match checkedAdd (a - OVERHEAD) FOOTER_SIZE with
                | some x_1 => Outcome.ok (some { nswf := a - OVERHEAD, align := A, size := x_1 : Details })
                | none => Outcome.panic
              else Outcome.bad "new_chunk_memory_details: debug_assert_eq!"
            else Outcome.panic
          else Outcome.bad "new_chunk_memory_details: debug_assert_eq!"
        else Outcome.panic
      else Outcome.bad "new_chunk_memory_details: unchecked sub wraps")
      (reify
        (if A % CHUNK_ALIGN ≠ 0 ∨ (a - OVERHEAD) % CHUNK_ALIGN ≠ 0 then Outcome.bad "details: alignment assertion"
        else
          match checkedAdd (a - OVERHEAD) FOOTER_SIZE with
          | none => Outcome.panic
          | some size => Outcome.ok { nswf := a - OVERHEAD, align := A, size := size : Details })) := by
  have hc : CHUNK_ALIGN ≠ 0 := by decide
  simp only [hge, hc, if_true, ne_eq, not_false_eq_true, beq_iff_eq]
  by_cases h1 : A % CHUNK_ALIGN = 0
  · by_cases h2 : (a - OVERHEAD) % CHUNK_ALIGN = 0
    · simp only [h1, h2, if_true, not_true_eq_false, or_self, if_false]
      cases checkedAdd (a - OVERHEAD) FOOTER_SIZE <;> simp [reify, Outcome.sim]
    · simp [h1, h2, reify, Outcome.sim]
  · simp [h1, reify, Outcome.sim]

theorem gen_new_chunk_memory_details (M : Nat) (req : Option Nat) (sz al : Nat)
    (hM : P2 M) (hal : P2 al) (hsz : sz < USIZE) :
    Outcome.sim (Gen.Fn.new_chunk_memory_details M req ⟨sz, al⟩)
      (reify (newChunkMemoryDetails M req sz al)) := by
  have hA : P2 (max (max CHUNK_ALIGN M) al) := p2_max (p2_max p2_chunk_align hM) hal
  simp only [Gen.Fn.new_chunk_memory_details, Gen.Fn.new_chunk_memory_details.k_1, Gen.Fn.new_chunk_memory_details.k_2,
    Gen.Fn.new_chunk_memory_details.k_3, newChunkMemoryDetails]
  rw [gen_round_up_to sz _ hA hsz]
  simp only [bindP]
  cases hr : roundUpTo sz (max (max CHUNK_ALIGN M) al) with
  | none => simp [reify, Outcome.sim]
  | some rs =>
    simp only []
    generalize max (req.getD DEFAULT_CHUNK_SIZE_WITHOUT_FOOTER) rs = n1
    generalize max (max CHUNK_ALIGN M) al = A
    by_cases hov : n1 + OVERHEAD < USIZE
    · have hov' : ¬ (n1 + OVERHEAD ≥ USIZE) := by omega
      simp only [hov, hov', if_true, if_false]
      by_cases hpg : n1 < TYPICAL_PAGE_SIZE
      · simp only [hpg, decide_true, if_true]
        have hnp : nextPow2 (n1 + OVERHEAD) < USIZE := by
          have h1 : 1 ≤ n1 + OVERHEAD := by have : 0 < OVERHEAD := by decide
                                            omega
          have := nextPow2_lt_two_mul h1
          have h2 : TYPICAL_PAGE_SIZE = 4096 := by decide
          have h3 : OVERHEAD < 4096 := by decide
          unfold USIZE; omega
        have hge : OVERHEAD ≤ nextPow2 (n1 + OVERHEAD) := Nat.le_trans (by omega) (le_nextPow2 _)
        simp only [next_power_of_two, hnp, if_true]
        exact details_tail A _ hge
      · simp only [hpg, decide_false, if_false, Bool.false_eq_true]
        rw [gen_round_up_to _ _ p2_page hov]
        cases hr2 : roundUpTo (n1 + OVERHEAD) TYPICAL_PAGE_SIZE with
        | none => simp [reify, Outcome.sim]
        | some x =>
          simp only [Option.map_some]
          have := (roundUpTo_some (by decide) hr2).1
          exact details_tail A x (by omega)
    · have hov' : n1 + OVERHEAD ≥ USIZE := by omega
      simp only [hov, hov', if_true, if_false]
      by_cases hpg : n1 < TYPICAL_PAGE_SIZE <;> simp [hpg, reify, Outcome.sim]

theorem gen_chunk_fits_under_limit (M : Nat) (rem : Option Nat) (d : Details) :
    Gen.Fn.chunk_fits_under_limit M rem d = .ok (fitsUnderLimit rem d) := by
  unfold Gen.Fn.chunk_fits_under_limit Gen.Fn.chunk_fits_under_limit.k_1 fitsUnderLimit
  cases rem <;> simp

#print axioms gen_new_chunk_memory_details
#print axioms gen_chunk_fits_under_limit
end Bump
