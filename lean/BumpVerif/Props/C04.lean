import BumpVerif.Proofs.Rewind
import BumpVerif.Props.GenFacts
/-!
# C04 — returned pointers honour the requested and the minimum alignment
-/
namespace Bump.C04
open Bump Gen

/-- Fast path: every pointer it returns is aligned to the request and to `MIN_ALIGN`,
for every power-of-two `MIN_ALIGN` and alignment, zero sizes included. -/
theorem fast_aligned (M : Nat) (c : Chunk) (sz al p : Nat)
    (hM : IsPow2 M) (hA : IsPow2 al)
    (hdp : c.data ≤ c.ptr) (hptr : c.ptr < 2 ^ 63) (hMp : M ∣ c.ptr)
    (h : allocFast M c sz al = some p) : al ∣ p ∧ M ∣ p :=
  let ⟨_, _, h3, h4⟩ := allocFast_ok M c sz al p hM hA hdp hptr hMp h
  ⟨h3, h4⟩

/-- Every allocation flavour (fast path, slow path with a fresh chunk, fallible or not), at every
well-formed arena state — chunk-less included — returns a pointer aligned to the request and to
`MIN_ALIGN`, whatever chunk base the allocator returned. -/
theorem alloc_aligned {E sz al p} (f : Bool) (s : St) (hE : EnvOK E) (h : ArenaWF E s.a)
    (hA : IsPow2 al) (hlay : sz + al ≤ 2 ^ 63) (hok : (allocMaybe E f sz al s).2 = .ok p) :
    al ∣ p ∧ s.a.M ∣ p := by
  obtain ⟨_, ha, hm, _⟩ := (allocMaybe_spec f s hE h hA hlay).ok p hok
  exact ⟨ha, hm⟩

/-- `dealloc` keeps the finger aligned to `MIN_ALIGN` (part of `ArenaWF`) -/
theorem dealloc_keeps_finger_aligned {E p sz} (s : St) (hE : EnvOK E) (h : ArenaWF E s.a)
    (hblk : (s.a.cur E).ptr = p → p + sz ≤ (s.a.cur E).footer) :
    ∀ c ∈ (dealloc E p sz s).1.a.chunks, (dealloc E p sz s).1.a.M ∣ c.ptr :=
  fun c hc => ((dealloc_spec s hE h hblk).2.1.chunks c hc).ptr_al

/-- **All histories.** After any admissible history every live block's address is a multiple of
`MIN_ALIGN` (and non-null), and every chunk finger is `MIN_ALIGN`-aligned — including blocks that
came out of `grow`/`shrink` and fingers moved by `dealloc`, rewinds and `reset`. -/
theorem history_min_align {E} (hE : EnvOK E) (ops : List Op) (y : Sys) (inv : LiveInv E y) (hrun : RunOKFull E ops y) :
    (∀ b ∈ (sysRun E ops y).1.live, (sysRun E ops y).1.st.a.M ∣ b.ptr ∧ 0 < b.ptr) ∧
    (∀ c ∈ (sysRun E ops y).1.st.a.chunks, (sysRun E ops y).1.st.a.M ∣ c.ptr) := by
  have h := (sysRun_live_full hE ops y inv hrun).1
  exact ⟨fun b hb => ⟨(h.blocks b hb).1, (h.blocks b hb).2.1⟩, fun c hc => (h.wf.chunks c hc).ptr_al⟩

/-- `grow` and `shrink` results honour the new alignment and `MIN_ALIGN` -/
theorem realloc_aligned {E s s' p osz nsz nal q} (post : ReallocPost E s s' p osz nsz nal (.ok q)) :
    nal ∣ q ∧ s.a.M ∣ q :=
  ⟨(post.ok q rfl).2.1, (post.ok q rfl).2.2.1⟩

/-- Constructors refuse an unsupported minimum alignment with a panic. -/
theorem ctor_refuses (E M cap : Nat) (f : Bool) (s : St)
    (h : ¬ (IsPow2 M ∧ M ≤ CHUNK_ALIGN)) : (newArena E M cap f s).2 = .panic := by
  unfold newArena
  have : (!isPow2 M || decide (M > CHUNK_ALIGN)) = true := by
    by_cases hp : isPow2 M = true
    · have := isPow2_iff.mp hp
      have hgt : M > CHUNK_ALIGN := by
        apply Nat.lt_of_not_le; intro hle; exact h ⟨this, hle⟩
      simp [hgt]
    · simp [hp]
  rw [if_pos this]

/-- the static empty chunk is aligned to the largest supported `MIN_ALIGN`
(regenerated from the `repr` attribute of `EmptyChunkFooter`) -/
theorem static_aligned : CHUNK_ALIGN ∣ EMPTY_ALIGN := GenFacts.empty_align_ok

/-- non-vacuity: a concrete chunk and request meet the hypotheses -/
example : allocFast 8 ⟨4096, 560, 16, 4608, 512⟩ 13 4 = some 4592 := by decide

end Bump.C04

#print axioms Bump.C04.fast_aligned
#print axioms Bump.C04.alloc_aligned
#print axioms Bump.C04.dealloc_keeps_finger_aligned
#print axioms Bump.C04.history_min_align
#print axioms Bump.C04.realloc_aligned
#print axioms Bump.C04.ctor_refuses
#print axioms Bump.C04.static_aligned
