import BumpVerif.Gen.FnFwdVec
/-!
# The functions of vec.rs that no body translator covers, pinned

One code per function, in source order: `0` a view of `self`, `1` a literal forward (the same method / trait function / comparison
operator on views of `self` and the parameters), otherwise `10 +` a fingerprint of the function's text.  The hand models and the
harness oracles for these functions were validated against exactly this: a forward that stops being one, any edit of one of the
other functions, or a function that appears or disappears changes the regenerated list and this obligation fails (the check then
looks for a failing input with the side-by-side runs).  Update the list by hand, after re-validating, when the source changes
legitimately.
-/
namespace Bump

theorem fwd_vec_pinned : Gen.Fn.fwd_vec = [
  2148098800 /- vec.rs:  :: arith_offset (other) -/,
  2947371703 /- vec.rs:  :: offset_from (other) -/,
  4256122634 /- vec.rs: impl<'bump, T: 'bump> Vec<'bump, T> :: from_raw_parts_in (other) -/,
  1 /- vec.rs: impl<'bump, T: 'bump> Vec<'bump, T> :: bump (forward) -/,
  0 /- vec.rs: impl<'bump, T: 'bump> Vec<'bump, T> :: as_slice (view) -/,
  0 /- vec.rs: impl<'bump, T: 'bump> Vec<'bump, T> :: as_mut_slice (view) -/,
  3923781448 /- vec.rs: impl<'bump, T: 'bump> Vec<'bump, T> :: as_ptr (other) -/,
  2111376471 /- vec.rs: impl<'bump, T: 'bump> Vec<'bump, T> :: as_mut_ptr (other) -/,
  308361499 /- vec.rs:  :: next (unparsed) -/,
  692687721 /- vec.rs:  :: last (other) -/,
  3529541181 /- vec.rs: impl<T: Clone> ExtendWith<T> for ExtendElement<T> :: next (other) -/,
  0 /- vec.rs: impl<T: Clone> ExtendWith<T> for ExtendElement<T> :: last (view) -/,
  501353608 /- vec.rs: impl<'a> SetLenOnDrop<'a> :: new (other) -/,
  1890747369 /- vec.rs: impl<'a> Drop for SetLenOnDrop<'a> :: drop (other) -/,
  771427006 /- vec.rs: impl<'bump, T: 'bump + Clone> Clone for Vec<'bump, T> :: clone (other) -/,
  1 /- vec.rs: impl<'bump, T: 'bump + Hash> Hash for Vec<'bump, T> :: hash (forward) -/,
  1 /- vec.rs:  :: index (forward) -/,
  1 /- vec.rs:  :: index_mut (forward) -/,
  1551147716 /- vec.rs: impl<'bump, T: 'bump> ops::Deref for Vec<'bump, T> :: deref (other) -/,
  3856808701 /- vec.rs: impl<'bump, T: 'bump> ops::DerefMut for Vec<'bump, T> :: deref_mut (other) -/,
  2699786897 /- vec.rs: impl<'a, 'bump, T> IntoIterator for &'a Vec<'bump, T> :: into_iter (other) -/,
  934836660 /- vec.rs: impl<'a, 'bump, T> IntoIterator for &'a mut Vec<'bump, T> :: into_iter (other) -/,
  2782637028 /- vec.rs: impl<'bump, T: 'bump> Vec<'bump, T> :: splice (other) -/,
  1810815330 /- vec.rs:  :: eq (unparsed) -/,
  1810815330 /- vec.rs:  :: eq (unparsed) -/,
  1 /- vec.rs: impl<'bump, T: 'bump + PartialOrd> PartialOrd for Vec<'bump, :: partial_cmp (forward) -/,
  1 /- vec.rs: impl<'bump, T: 'bump + Ord> Ord for Vec<'bump, T> :: cmp (forward) -/,
  1 /- vec.rs: impl<'bump, T: 'bump + fmt::Debug> fmt::Debug for Vec<'bump, :: fmt (forward) -/,
  0 /- vec.rs: impl<'bump, T: 'bump> AsRef<Vec<'bump, T>> for Vec<'bump, T> :: as_ref (view) -/,
  0 /- vec.rs: impl<'bump, T: 'bump> AsMut<Vec<'bump, T>> for Vec<'bump, T> :: as_mut (view) -/,
  0 /- vec.rs: impl<'bump, T: 'bump> AsRef<[T]> for Vec<'bump, T> :: as_ref (view) -/,
  0 /- vec.rs: impl<'bump, T: 'bump> AsMut<[T]> for Vec<'bump, T> :: as_mut (view) -/,
  804764774 /- vec.rs: impl<'bump, T: 'bump> Borrow<[T]> for Vec<'bump, T> :: borrow (unparsed) -/,
  615213030 /- vec.rs: impl<'bump, T: 'bump> BorrowMut<[T]> for Vec<'bump, T> :: borrow_mut (unparsed) -/,
  143949383 /- vec.rs: impl<'bump, T: fmt::Debug> fmt::Debug for IntoIter<'bump, T> :: fmt (other) -/,
  1410768059 /- vec.rs: impl<'bump, T: 'bump> IntoIter<'bump, T> :: as_slice (other) -/,
  3969559809 /- vec.rs: impl<'bump, T: 'bump> IntoIter<'bump, T> :: as_mut_slice (other) -/,
  769551140 /- vec.rs: impl<'bump, T: 'bump> Iterator for IntoIter<'bump, T> :: count (other) -/,
  629813591 /- vec.rs: impl<'a, 'bump, T: 'a + 'bump + fmt::Debug> fmt::Debug for D :: fmt (other) -/,
  1 /- vec.rs: impl<'a, 'bump, T> Iterator for Drain<'a, 'bump, T> :: size_hint (forward) -/,
  1 /- vec.rs: impl<'a, 'bump, I: Iterator> Iterator for Splice<'a, 'bump,  :: next (forward) -/,
  1 /- vec.rs: impl<'a, 'bump, I: Iterator> Iterator for Splice<'a, 'bump,  :: size_hint (forward) -/,
  1 /- vec.rs: impl<'a, 'bump, I: Iterator> DoubleEndedIterator for Splice< :: next_back (forward) -/,
  1435845364 /- vec.rs:  :: serialize (other) -/] := rfl

#print axioms fwd_vec_pinned

end Bump
