import BumpVerif.Gen.FnChunks
import BumpVerif.Props.GenFnIter
/-!
# The chunk-list walkers of `src/lib.rs` as translated = their specifications

* `dealloc_chunk_list` (the `while` loop over `prev` links) frees exactly the chunks of the chain, newest first, each with the
  layout it was obtained with: it *is* `Rs.dealloc_chunk_list`, the primitive `reset`'s translation calls;
* `Drop for Bump` emits exactly the events of the model's `dropArena`;
* `allocated_bytes_including_metadata` (`iter_allocated_chunks_raw().count() * size_of::<ChunkFooter>() + allocated_bytes()`)
  is the model's `allocatedBytesIncludingMetadata` on every arena whose chunk list is iterable (`IterOK`, which `ArenaWF`
  implies) and whose total fits a `usize`.
-/
namespace Bump
open Rs Gen

theorem dealloc_loop (E M : Nat) : ∀ (chain : List Chunk) (fuel : Nat) (s : St),
    (∀ c ∈ chain, c.footer ≠ E) → chain.length < fuel →
    Gen.Fn.dealloc_chunk_list.loop E M fuel chain s = ({ s with evs := s.evs ++ chain.map freeEv }, .ok ()) := by
  intro chain
  induction chain with
  | nil =>
    intro fuel s _ hf
    cases fuel with
    | zero => omega
    | succ fuel =>
      simp [Gen.Fn.dealloc_chunk_list.loop, Gen.Fn.is_empty, bindO, chain_head]
  | cons c rest ih =>
    intro fuel s hne hf
    cases fuel with
    | zero => simp at hf
    | succ fuel =>
      have hc : c.footer ≠ E := hne c (by simp)
      have hb : (c.footer == (emptyChunk E).footer) = false := by simpa [emptyChunk_footer] using hc
      unfold Gen.Fn.dealloc_chunk_list.loop
      simp only [Gen.Fn.is_empty, bindO, chain_head, List.headD_cons, hb, Bool.not_false, if_true, global_dealloc, List.tail_cons]
      rw [ih fuel _ (fun q hq => hne q (List.mem_cons_of_mem _ hq)) (by simpa using hf)]
      simp [freeEv, List.append_assoc]

/-- `dealloc_chunk_list` as translated is the primitive the translation of `reset` assumes -/
theorem gen_dealloc_chunk_list (E M : Nat) (chain : List Chunk) (s : St) (hne : ∀ c ∈ chain, c.footer ≠ E) :
    Gen.Fn.dealloc_chunk_list E M chain s = Rs.dealloc_chunk_list chain s := by
  unfold Gen.Fn.dealloc_chunk_list Rs.dealloc_chunk_list
  exact dealloc_loop E M chain _ s hne (by omega)

/-- `Drop for Bump` as translated: every chunk held goes back to the global allocator, newest first — the events of the model's
`dropArena` (which, in addition, forgets the list: the arena no longer exists) -/
theorem gen_bump_drop (E M : Nat) (s : St) (hok : IterOK E s.a.chunks) :
    (Gen.Fn.bump_drop E M s).2 = .ok () ∧ (Gen.Fn.bump_drop E M s).1.evs = (dropArena s).evs ∧
      (Gen.Fn.bump_drop E M s).1.a = s.a := by
  unfold Gen.Fn.bump_drop
  rw [gen_dealloc_chunk_list E M _ s hok.notStatic]
  simp [Rs.dealloc_chunk_list, bindO, dropArena]

theorem count_suffix (E M : Nat) (s : St) (pre suf : List Chunk) (hs : s.a.chunks = pre ++ suf)
    (hok : IterOK E (pre ++ suf)) (n fuel : Nat) (hf : suf.length < fuel) :
    Gen.Fn.chunk_raw_iter_count E M s fuel (suf.headD (emptyChunk E)) n = .ok (n + suf.length) := by
  induction suf generalizing pre n fuel with
  | nil =>
    cases fuel with
    | zero => simp at hf
    | succ fuel =>
      show Gen.Fn.chunk_raw_iter_count E M s (fuel + 1) (emptyChunk E) n = _
      unfold Gen.Fn.chunk_raw_iter_count
      rw [next_static]
      rfl
  | cons c rest ih =>
    cases fuel with
    | zero => simp at hf
    | succ fuel =>
      have hmem : c ∈ pre ++ c :: rest := by simp
      have hns : c.footer ≠ E := hok.notStatic c hmem
      obtain ⟨hin1, hin2⟩ := hok.inside c hmem
      have hpre : ∀ p ∈ pre, p.footer ≠ c.footer := by
        intro p hp
        have := List.pairwise_append.1 hok.distinct
        exact this.2.2 p hp c (by simp)
      have hprev : chunk_prev E s c = rest.headD (emptyChunk E) := by
        unfold chunk_prev; rw [hs]; exact prevIn_skip _ pre c rest hpre
      have hnext : Gen.Fn.chunk_raw_iter_next E M c s = .ok (some (c.ptr, c.footer - c.ptr), rest.headD (emptyChunk E)) := by
        simp only [Gen.Fn.chunk_raw_iter_next, Gen.Fn.is_empty, Gen.Fn.as_raw_parts, bindP, emptyChunk_footer, beq_iff_eq, hns,
          if_false, hin1, hin2, decide_true, if_true, hprev]
      have hih := ih (pre ++ [c]) (by simp [hs]) (by simpa using hok) (n + 1) fuel (by simpa using hf)
      show Gen.Fn.chunk_raw_iter_count E M s (fuel + 1) c n = _
      unfold Gen.Fn.chunk_raw_iter_count
      rw [hnext]
      simp only [bindP, hih, List.length_cons]
      congr 1; omega

/-- `Iterator::count` over the translated raw chunk iterator is the number of chunks -/
theorem gen_chunk_count (E M : Nat) (s : St) (hok : IterOK E s.a.chunks) :
    Gen.Fn.chunk_raw_iter_count E M s (s.a.chunks.length + 1) (s.a.cur E) 0 = .ok s.a.chunks.length := by
  have := count_suffix E M s [] s.a.chunks (by simp) (by simpa using hok) 0 (s.a.chunks.length + 1) (by omega)
  simpa [Arena.cur] using this

/-- `allocated_bytes_including_metadata` as translated is the model's `allocatedBytesIncludingMetadata` -/
theorem gen_allocated_bytes_including_metadata (E M : Nat) (s : St) (hok : IterOK E s.a.chunks)
    (hfit : allocatedBytesIncludingMetadata s.a E < USIZE) :
    Gen.Fn.allocated_bytes_including_metadata E M s = (s, .ok (allocatedBytesIncludingMetadata s.a E)) := by
  unfold allocatedBytesIncludingMetadata Arena.allocatedBytes at *
  have h1 : s.a.chunks.length * Gen.FOOTER_SIZE < USIZE := by
    have : Gen.FOOTER_SIZE = FOOTER_SIZE := rfl
    omega
  have h2 : (s.a.cur E).ab + s.a.chunks.length * Gen.FOOTER_SIZE < USIZE := by
    have : Gen.FOOTER_SIZE = FOOTER_SIZE := rfl
    omega
  unfold Gen.Fn.allocated_bytes_including_metadata
  simp only [gen_iter_allocated_chunks_raw, bindO, gen_chunk_count E M s hok, h1, if_true, Gen.Fn.allocated_bytes, h2]

/-- … in particular on every well-formed arena -/
theorem gen_allocated_bytes_including_metadata_wf (E M : Nat) (s : St) (h : ArenaWF E s.a)
    (hfit : allocatedBytesIncludingMetadata s.a E < USIZE) :
    Gen.Fn.allocated_bytes_including_metadata E M s = (s, .ok (allocatedBytesIncludingMetadata s.a E)) :=
  gen_allocated_bytes_including_metadata E M s (IterOK.of_wf h) hfit

#print axioms gen_dealloc_chunk_list
#print axioms gen_bump_drop
#print axioms gen_chunk_count
#print axioms gen_allocated_bytes_including_metadata

end Bump
