import BumpVerif.Proofs.VecBasic
/-!
# RawVec capacity arithmetic: what a successful reservation guarantees
-/
namespace Bump.V
open Bump

theorem resizeSlots_prefix (pre rest : List (Option Elem)) (n : Nat) (h : pre.length ≤ n) :
    ∃ rest', resizeSlots (pre ++ rest) n = pre ++ rest' := by
  refine ⟨rest.take (n - pre.length) ++ List.replicate (n - (pre ++ rest).length) none, ?_⟩
  simp [resizeSlots, List.take_append, List.take_of_length_le h]

theorem length_resizeSlots (s : List (Option Elem)) (n : Nat) : (resizeSlots s n).length = n := by
  simp [resizeSlots]; omega

theorem wsub_of_le {a b : Nat} (h : b ≤ a) (ha : a < USIZE) : wsub a b = a - b := by
  unfold wsub
  have : a + USIZE - b = (a - b) + USIZE := by omega
  rw [this, Nat.add_mod_right, Nat.mod_eq_of_lt]; omega

theorem capOf_lt (c : Cfg) (v : VS) (h : v.cap < USIZE) : capOf c v < USIZE := by
  unfold capOf; split
  · simp [USIZE_MAX, USIZE]
  · exact h

/-- the arena never serves more than `isize::MAX` bytes -/
def CfgOK (c : Cfg) : Prop := c.allocLimit < 2 ^ 63 ∧ c.allocLimit + c.eal ≤ 2 ^ 63

/-- `Rep` plus the machine bounds on the `cap` field -/
structure RepB (c : Cfg) (v : VS) (xs : List Elem) : Prop extends Rep c v xs where
  capLt : v.cap < USIZE
  capHalf : c.esz ≠ 0 → v.cap * 2 < USIZE

theorem newCap_eq {c : Cfg} {v : VS} {used extra newCap : Nat} {exact : Bool} (hh : v.cap * 2 < USIZE)
    (h : (if exact then checkedAdd used extra else amortizedNewCap c v used extra) = some newCap) :
    used + extra < USIZE ∧ newCap = (if exact then used + extra else max (v.cap * 2) (used + extra)) := by
  by_cases hs : used + extra < USIZE
  · cases exact
    · simp [amortizedNewCap, checkedAdd, hs, hh] at h
      exact ⟨hs, by simp [h]⟩
    · simp [checkedAdd, hs] at h
      exact ⟨hs, by simp [h]⟩
  · cases exact <;> simp [amortizedNewCap, checkedAdd, hs] at h

theorem reserveInternal_ok {c : Cfg} {v v' : VS} {used extra : Nat} {exact : Bool} (hc : CfgOK c)
    (hh : v.cap * 2 < USIZE) (he : c.esz ≠ 0)
    (h : reserveInternal c v used extra exact = .ok v') :
    used + extra < USIZE ∧ v'.len = v.len ∧ v'.slots = resizeSlots v.slots v'.cap ∧ v'.cap * 2 < USIZE ∧
      v'.cap = (if exact then used + extra else max (v.cap * 2) (used + extra)) := by
  unfold reserveInternal at h
  split at h
  · cases h
  · rename_i newCap hnc
    have hn := newCap_eq hh hnc
    split at h
    · cases h
    · rename_i bytes hb
      split at h
      · cases h
      · rename_i hal
        cases h
        simp only [arrayLayout] at hb
        split at hb
        · cases hb
        · cases hb
          simp only [Bool.or_eq_true, Bool.not_eq_eq_eq_not, Bool.not_true, decide_eq_true_eq, not_or,
            Bool.not_eq_false, Nat.not_lt] at hal
          have hsz : c.esz * newCap < 2 ^ 63 := by have := hal.2; unfold CfgOK at hc; omega
          have hnc2 : newCap < 2 ^ 63 := by
            have : 1 * newCap ≤ c.esz * newCap := Nat.mul_le_mul_right _ (by omega)
            omega
          have hU : USIZE = 2 ^ 64 := rfl
          exact ⟨hn.1, rfl, rfl, by simp only [hU]; omega, hn.2⟩

/-- what a successful `RawVec::reserve*(used, extra)` guarantees -/
theorem reserveGen_ok {c : Cfg} {v v' : VS} {xs : List Elem} {used extra : Nat} {exact : Bool} (hc : CfgOK c)
    (h : RepB c v xs) (hu : v.len ≤ used) (huc : used ≤ capOf c v)
    (hr : reserveGen c v used extra exact = .ok v') :
    RepB c v' xs ∧ used + extra ≤ capOf c v' ∧
      (v' = v ∨ (c.esz ≠ 0 ∧ capOf c v < used + extra ∧
        v'.cap = (if exact then used + extra else max (v.cap * 2) (used + extra)))) := by
  unfold reserveGen at hr
  have hcl := capOf_lt c v h.capLt
  rw [wsub_of_le huc hcl] at hr
  split at hr
  · cases hr
    exact ⟨h, by omega, Or.inl rfl⟩
  · rename_i hslow
    by_cases he : c.esz = 0
    · -- zero-sized elements: the sum does not fit a usize, `reserve_internal` reports an overflow
      exfalso
      have hcap : capOf c v = USIZE_MAX := by simp [capOf, he]
      have hov : ¬ used + extra < USIZE := by simp only [USIZE_MAX, USIZE] at *; omega
      unfold reserveInternal at hr
      cases exact <;> simp [amortizedNewCap, checkedAdd, hov] at hr
    · have hci := reserveInternal_ok hc (h.capHalf he) he hr
      obtain ⟨hsum, hlen, hslots, hhalf, hcap⟩ := hci
      have hcapv : capOf c v = v.cap := by simp [capOf, he]
      have hcapv' : capOf c v' = v'.cap := by simp [capOf, he]
      have hge : used + extra ≤ v'.cap := by
        rw [hcap]; cases exact <;> simp <;> omega
      obtain ⟨rest, hs⟩ := h.slots
      have hpre := resizeSlots_prefix (xs.map some) rest v'.cap (by simp; have := h.len; omega)
      obtain ⟨rest', hs'⟩ := hpre
      refine ⟨⟨⟨⟨rest', by rw [hslots, hs, hs']⟩, by rw [hlen]; exact h.len, fun _ => by rw [hslots, length_resizeSlots],
          by rw [hcapv', hlen]; omega⟩, by simp only [USIZE] at *; omega, fun _ => hhalf⟩, by rw [hcapv']; exact hge, Or.inr ⟨he, by omega, hcap⟩⟩

/-- `Vec::reserve(n)`: afterwards `capacity() ≥ len + n`, contents unchanged; growth is
`max(2·cap, len + n)` -/
theorem rawReserve_some {c : Cfg} {v v' : VS} {xs : List Elem} {n : Nat} (hc : CfgOK c) (h : RepB c v xs)
    (hr : rawReserve c v v.len n = some v') :
    RepB c v' xs ∧ v.len + n ≤ capOf c v' ∧
      (v' = v ∨ (c.esz ≠ 0 ∧ capOf c v < v.len + n ∧ v'.cap = max (v.cap * 2) (v.len + n))) := by
  unfold rawReserve at hr
  split at hr
  · rename_i vv heq
    cases hr
    have := reserveGen_ok hc h (Nat.le_refl _) h.lenCap heq
    simpa using this
  · cases hr

end Bump.V
