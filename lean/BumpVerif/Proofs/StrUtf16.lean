import BumpVerif.Proofs.StrOps
/-!
# `from_utf16_in` fails iff a lone surrogate occurs, otherwise encodes the decoded scalars
-/
namespace Bump.Str

/-- the scalar of a surrogate pair -/
def pairScalar (hi lo : Nat) : Char := Char.ofNat (((hi - 0xD800) * 1024 + (lo - 0xDC00)) + 0x10000)

/-- Reference meaning of a UTF-16 unit sequence (Unicode D91): every unit outside
`D800..DFFF` is a scalar, a high surrogate must be followed by a low one and the two form one
scalar; anything else is a lone surrogate (`none`). -/
def text16 : List Nat → Option (List Char)
  | [] => some []
  | [u] => if isSurrogate u then none else some [Char.ofNat u]
  | u :: u2 :: us =>
    if !(isSurrogate u) then (text16 (u2 :: us)).map (Char.ofNat u :: ·)
    else if isHigh u && isLow u2 then (text16 us).map (pairScalar u u2 :: ·)
    else none

theorem fromUtf16Fuel_spec : ∀ (f : Nat) (us : List Nat) (acc : List Char), us.length ≤ f →
    fromUtf16Fuel f us (encode acc) =
      match text16 us with
      | some cs => .ok (encode (acc ++ cs))
      | none => .err := by
  intro f
  induction f with
  | zero =>
    intro us acc h
    have : us = [] := List.eq_nil_of_length_eq_zero (by omega)
    subst this; simp [fromUtf16Fuel, text16]
  | succ f ih =>
    intro us acc h
    match us, h with
    | [], _ => simp [fromUtf16Fuel, text16]
    | [u], _ =>
      by_cases hs : isSurrogate u = true
      · simp [fromUtf16Fuel, text16, hs]
      · have hs' : isSurrogate u = false := by simpa using hs
        simp [fromUtf16Fuel, hs', text16, push_encode]
    | u :: u2 :: us, h =>
      by_cases hs : isSurrogate u = true
      · have hnot : (!isSurrogate u) = false := by simp [hs]
        simp only [fromUtf16Fuel, hnot, Bool.false_eq_true, if_false, text16]
        by_cases hge : u ≥ 0xDC00
        · have hhi : isHigh u = false := by simp [isHigh]; omega
          simp [hge, hhi]
        · have hhi : isHigh u = true := by
            simp only [isSurrogate, Bool.and_eq_true, decide_eq_true_eq] at hs
            simp only [isHigh, Bool.and_eq_true, decide_eq_true_eq]; omega
          simp only [hge, if_false, hhi, Bool.true_and]
          by_cases hlo : isLow u2 = true
          · simp only [hlo, Bool.not_true, Bool.false_eq_true, if_false, if_true, push_encode]
            have := ih us (acc ++ [pairScalar u u2]) (by simp at h; omega)
            rw [pairScalar] at this
            rw [this]
            cases text16 us <;> simp [pairScalar]
          · have hlo' : isLow u2 = false := by simpa using hlo
            simp [hlo']
      · have hs' : isSurrogate u = false := by simpa using hs
        simp only [fromUtf16Fuel, hs', Bool.not_false, if_true, text16, push_encode]
        have := ih (u2 :: us) (acc ++ [Char.ofNat u]) (by simp at h ⊢; omega)
        rw [this]
        cases text16 (u2 :: us) <;> simp

/-- **`from_utf16_in` errs iff a lone surrogate occurs, else encodes the decoded scalars** (so
its result is valid UTF-8); it never reaches a `bad` state. -/
theorem fromUtf16_spec (us : List Nat) :
    fromUtf16 us = match text16 us with
      | some cs => .ok (encode cs)
      | none => .err := by
  have := fromUtf16Fuel_spec us.length us [] (Nat.le_refl _)
  simpa [fromUtf16] using this

theorem fromUtf16_err_iff (us : List Nat) : fromUtf16 us = .err ↔ text16 us = none := by
  rw [fromUtf16_spec]; cases text16 us <;> simp

theorem fromUtf16_valid (us : List Nat) (b : Bytes) (h : fromUtf16 us = .ok b) : Valid b := by
  rw [fromUtf16_spec] at h
  cases ht : text16 us with
  | none => simp [ht] at h
  | some cs => simp [ht] at h; subst h; exact Valid_encode cs

end Bump.Str
