import BumpVerif.Proofs.StrOps
/-!
# `drain` and `replace_range`: ranges on char boundaries; the unchecked `n + 1` (F7)
-/
namespace Bump.Str

theorem encode3 (l₁ l₂ l₃ : List Char) : encode (l₁ ++ l₂ ++ l₃) = encode l₁ ++ encode l₂ ++ encode l₃ := by
  simp [encode_append]

theorem sliceOk_split (l₁ l₂ l₃ : List Char) :
    sliceOk (encode (l₁ ++ l₂ ++ l₃)) (encode l₁).length ((encode l₁).length + (encode l₂).length) = true := by
  have h1 : isCharBoundary (encode (l₁ ++ l₂ ++ l₃)) (encode l₁).length = true := by
    rw [List.append_assoc]; exact boundary_of_split l₁ (l₂ ++ l₃)
  have h2 : isCharBoundary (encode (l₁ ++ l₂ ++ l₃)) ((encode l₁).length + (encode l₂).length) = true := by
    have := boundary_of_split (l₁ ++ l₂) l₃
    have e : (encode (l₁ ++ l₂)).length = (encode l₁).length + (encode l₂).length := by
      rw [encode_append, List.length_append]
    rwa [e] at this
  simp only [sliceOk, h1, h2, Nat.le_add_right, decide_true, Bool.and_self]

theorem encode_take_mono (L : List Char) {k k' : Nat} (h : k ≤ k') :
    encode (L.take k') = encode (L.take k) ++ encode ((L.take k').drop k) := by
  rw [← encode_append]
  congr 1
  have : L.take k = (L.take k').take k := by rw [List.take_take]; congr 1; omega
  rw [this, List.take_append_drop]

/-- for valid text a slice that does not panic is a split of the text in three -/
theorem sliceOk_exists {s : Bytes} (hv : Valid s) {a b : Nat} (h : sliceOk s a b = true) :
    ∃ l₁ l₂ l₃, s = encode (l₁ ++ l₂ ++ l₃) ∧ a = (encode l₁).length ∧ b = a + (encode l₂).length := by
  obtain ⟨L, rfl⟩ := hv
  simp only [sliceOk, Bool.and_eq_true, decide_eq_true_eq] at h
  obtain ⟨⟨hab, ha⟩, hb⟩ := h
  obtain ⟨k, hk, rfl⟩ := (boundary_iff L a).mp ha
  obtain ⟨k', hk', rfl⟩ := (boundary_iff L b).mp hb
  by_cases hkk : k ≤ k'
  · refine ⟨L.take k, (L.take k').drop k, L.drop k', ?_, rfl, ?_⟩
    · congr 1
      have : L.take k = (L.take k').take k := by rw [List.take_take]; congr 1; omega
      rw [this, List.take_append_drop, List.take_append_drop]
    · rw [encode_take_mono L hkk, List.length_append]
  · -- then the two prefixes have the same length: use the empty middle
    have hm := encode_take_mono L (show k' ≤ k by omega)
    have hle : (encode (L.take k')).length ≤ (encode (L.take k)).length := by
      rw [hm, List.length_append]; omega
    have heq : (encode (L.take k)).length = (encode (L.take k')).length := by omega
    refine ⟨L.take k', [], L.drop k', by simp, heq, by simp [heq]⟩

theorem drainCore_split (l₁ l₂ l₃ : List Char) (take back : Nat) (forget : Bool) :
    drainCore (encode (l₁ ++ l₂ ++ l₃)) (encode l₁).length ((encode l₁).length + (encode l₂).length) take back forget
      = .ok ⟨if forget then encode (l₁ ++ l₂ ++ l₃) else encode (l₁ ++ l₃), l₂.take take,
             ((l₂.drop take).reverse).take back⟩ := by
  have hs := sliceOk_split l₁ l₂ l₃
  have hmid : ((encode (l₁ ++ l₂ ++ l₃)).drop (encode l₁).length).take
      ((encode l₁).length + (encode l₂).length - (encode l₁).length) = encode l₂ := by
    rw [encode3, List.append_assoc, List.drop_left' rfl, Nat.add_sub_cancel_left, List.take_left' rfl]
  have hle : (encode l₁).length ≤ (encode l₁).length + (encode l₂).length ∧
      (encode l₁).length + (encode l₂).length ≤ (encode (l₁ ++ l₂ ++ l₃)).length := by
    rw [encode3]; simp only [List.length_append]; omega
  have ht : (encode (l₁ ++ l₂ ++ l₃)).take (encode l₁).length = encode l₁ := by
    rw [encode3, List.append_assoc]; exact List.take_left' rfl
  have hd : (encode (l₁ ++ l₂ ++ l₃)).drop ((encode l₁).length + (encode l₂).length) = encode l₃ := by
    rw [encode3]; exact List.drop_left' (by simp)
  simp only [drainCore, hs, Bool.not_true, Bool.false_eq_true, if_false, hmid, decodeAll_encode, hle, and_self,
    if_true, ht, hd]
  cases forget <;> simp [encode_append]

theorem drainCore_panic_iff (s : Bytes) (a b take back : Nat) (forget : Bool) (hv : Valid s) :
    drainCore s a b take back forget = .panic ↔ sliceOk s a b = false := by
  by_cases h : sliceOk s a b = true
  · obtain ⟨l₁, l₂, l₃, rfl, rfl, rfl⟩ := sliceOk_exists hv h
    rw [drainCore_split, h]; simp
  · simp [drainCore, h]

/-! ### bounds -/

/-- the bound does not sit at `usize::MAX` -/
def BdOk : Bd → Prop
  | .incl n => n + 1 < USIZE
  | .excl n => n + 1 < USIZE
  | .unbounded => True

def bdStart : Bd → Nat
  | .incl n => n
  | .excl n => n + 1
  | .unbounded => 0

def bdEnd (len : Nat) : Bd → Nat
  | .incl n => n + 1
  | .excl n => n
  | .unbounded => len

theorem addOne_lt (ovf : Bool) (n : Nat) (h : n + 1 < USIZE) : addOne ovf n = .ok (n + 1) := by
  simp [addOne, h]

/-- **F7**: at `usize::MAX` the source's `n + 1` wraps to 0 when overflow checks are off … -/
theorem addOne_wraps : addOne false (USIZE - 1) = .ok 0 := by decide
/-- … and panics when they are on (what `std` does in every profile). -/
theorem addOne_checked : addOne true (USIZE - 1) = .panic := by decide

theorem rangeStart_ok (ovf : Bool) (sb : Bd) (h : BdOk sb) : rangeStart ovf sb = .ok (bdStart sb) := by
  cases sb <;> simp [rangeStart, bdStart, addOne_lt, BdOk] at * <;> exact addOne_lt _ _ h

theorem rangeEnd_ok (ovf : Bool) (len : Nat) (eb : Bd) (h : BdOk eb) : rangeEnd ovf len eb = .ok (bdEnd len eb) := by
  cases eb <;> simp [rangeEnd, bdEnd, BdOk] at * <;> exact addOne_lt _ _ h

theorem drainWith_eq_core (o : Bool) (s : Bytes) (sb eb : Bd) (take back : Nat) (forget : Bool)
    (hs : BdOk sb) (he : BdOk eb) :
    drainWith o s sb eb take back forget = drainCore s (bdStart sb) (bdEnd s.length eb) take back forget := by
  simp [drainWith, rangeStart_ok _ _ hs, rangeEnd_ok _ _ _ he]

theorem drain_eq_core (ovf : Bool) (s : Bytes) (sb eb : Bd) (take back : Nat) (forget : Bool)
    (hs : BdOk sb) (he : BdOk eb) :
    drain ovf s sb eb take back forget = drainCore s (bdStart sb) (bdEnd s.length eb) take back forget :=
  drainWith_eq_core _ s sb eb take back forget hs he

theorem startAssert_ok (ovf : Bool) (s : Bytes) (sb : Bd) (h : BdOk sb) :
    startAssert ovf s sb = if isCharBoundary s (bdStart sb) then .ok () else .panic := by
  cases sb with
  | incl n => rfl
  | excl n => simp only [startAssert, bdStart, addOne_lt _ _ h] <;> rfl
  | unbounded => simp [startAssert, bdStart, isCharBoundary_zero]

theorem endAssert_ok (ovf : Bool) (s : Bytes) (eb : Bd) (h : BdOk eb) :
    endAssert ovf s eb = if isCharBoundary s (bdEnd s.length eb) then .ok () else .panic := by
  cases eb with
  | incl n => simp only [endAssert, bdEnd, addOne_lt _ _ h] <;> rfl
  | excl n => rfl
  | unbounded => simp [endAssert, bdEnd, isCharBoundary_length]

/-- `replace_range` with bounds away from `usize::MAX`: panics unless both ends are char
boundaries and `start <= end`; otherwise head ++ replacement ++ tail -/
theorem replaceRangeWith_eq (o₁ o₂ : Bool) (s : Bytes) (sb eb : Bd) (t : Bytes) (hs : BdOk sb) (he : BdOk eb) :
    replaceRangeWith o₁ o₂ s sb eb t =
      if isCharBoundary s (bdStart sb) = true ∧ isCharBoundary s (bdEnd s.length eb) = true
          ∧ bdStart sb ≤ bdEnd s.length eb
      then .ok (s.take (bdStart sb) ++ t ++ s.drop (bdEnd s.length eb)) else .panic := by
  unfold replaceRangeWith spliceBytes
  rw [startAssert_ok _ _ _ hs, endAssert_ok _ _ _ he, rangeStart_ok _ _ hs, rangeEnd_ok _ _ _ he]
  by_cases hA : isCharBoundary s (bdStart sb) = true
  · by_cases hB : isCharBoundary s (bdEnd s.length eb) = true
    · have := isCharBoundary_le hB
      simp only [hA, hB, if_true, true_and, this, and_true]
    · simp [hA, hB]
  · simp [hA]

theorem replaceRange_eq (ovf : Bool) (s : Bytes) (sb eb : Bd) (t : Bytes) (hs : BdOk sb) (he : BdOk eb) :
    replaceRange ovf s sb eb t =
      if isCharBoundary s (bdStart sb) = true ∧ isCharBoundary s (bdEnd s.length eb) = true
          ∧ bdStart sb ≤ bdEnd s.length eb
      then .ok (s.take (bdStart sb) ++ t ++ s.drop (bdEnd s.length eb)) else .panic :=
  replaceRangeWith_eq _ _ s sb eb t hs he

theorem replaceRange_split (ovf : Bool) (l₁ l₂ l₃ : List Char) (sb eb : Bd) (t : Bytes)
    (hs : BdOk sb) (he : BdOk eb) (h1 : bdStart sb = (encode l₁).length)
    (h2 : bdEnd (encode (l₁ ++ l₂ ++ l₃)).length eb = (encode l₁).length + (encode l₂).length) :
    replaceRange ovf (encode (l₁ ++ l₂ ++ l₃)) sb eb t = .ok (encode l₁ ++ t ++ encode l₃) := by
  rw [replaceRange_eq _ _ _ _ _ hs he, h1, h2]
  have hs' := sliceOk_split l₁ l₂ l₃
  simp only [sliceOk, Bool.and_eq_true, decide_eq_true_eq] at hs'
  have ht : (encode (l₁ ++ l₂ ++ l₃)).take (encode l₁).length = encode l₁ := by
    rw [encode3, List.append_assoc]; exact List.take_left' rfl
  have hd : (encode (l₁ ++ l₂ ++ l₃)).drop ((encode l₁).length + (encode l₂).length) = encode l₃ := by
    rw [encode3]; exact List.drop_left' (by simp)
  simp only [hs'.1.2, hs'.2, ht, hd, and_self, true_and, Nat.le_add_right, if_true]

/-- **F7 on the model**: when `n + 1` is not overflow-checked, `s.replace_range(..=usize::MAX, t)`
does not panic: it inserts `t` in front (std panics) … -/
theorem replaceRange_wraps (s t : Bytes) :
    replaceRangeWith false false s .unbounded (.incl (USIZE - 1)) t = .ok (t ++ s) := by
  have h0 := isCharBoundary_zero s
  have hw : addOne false (USIZE - 1) = .ok 0 := by decide
  simp [replaceRangeWith, startAssert, endAssert, spliceBytes, rangeStart, rangeEnd, hw, h0]

/-- … and panics as soon as `replace_range`'s own `n + 1` is checked (overflow checks of the
profile, or `checked_add` in the source). -/
theorem replaceRange_checked (o₂ : Bool) (s t : Bytes) :
    replaceRangeWith true o₂ s .unbounded (.incl (USIZE - 1)) t = .panic := by
  have hw : addOne true (USIZE - 1) = .panic := by decide
  simp [replaceRangeWith, startAssert, endAssert, hw]

/-- **F7 on the model**: `s.drain(..=usize::MAX)` drains nothing when `n + 1` is unchecked … -/
theorem drain_wraps (s : Bytes) (take back : Nat) (hv : Valid s) :
    drainWith false s .unbounded (.incl (USIZE - 1)) take back false = .ok ⟨s, [], []⟩ := by
  have hw : addOne false (USIZE - 1) = .ok 0 := by decide
  obtain ⟨l, rfl⟩ := hv
  have := drainCore_split [] [] l take back false
  simp only [List.nil_append, encode_nil, List.length_nil, Nat.add_zero] at this
  simp only [drainWith, rangeStart, rangeEnd, hw]
  simpa using this

/-- … and panics when it is checked. -/
theorem drain_checked (s : Bytes) (take back : Nat) (forget : Bool) :
    drainWith true s .unbounded (.incl (USIZE - 1)) take back forget = .panic := by
  have hw : addOne true (USIZE - 1) = .panic := by decide
  simp [drainWith, rangeStart, rangeEnd, hw]

/-- which of the two the build has: checked iff the profile checks overflow or the source uses
`checked_add` (flag regenerated from the source) -/
theorem drain_profile (ovf : Bool) (s : Bytes) (sb eb : Bd) (take back : Nat) (forget : Bool) :
    drain ovf s sb eb take back forget
      = drainWith (ovf || Gen.STR_DRAIN_END_CHECKED == 1) s sb eb take back forget := rfl

theorem replaceRange_profile (ovf : Bool) (s : Bytes) (sb eb : Bd) (t : Bytes) :
    replaceRange ovf s sb eb t
      = replaceRangeWith (ovf || Gen.STR_REPLACE_RANGE_END_CHECKED == 1) (ovf || Gen.VEC_DRAIN_END_CHECKED == 1)
          s sb eb t := rfl

end Bump.Str
