import BumpVerif.Proofs.VecCore
/-!
# Ownership ledger over the event log

`Own ins xs evs held`: the ids owned by the vector (`xs`), the ids whose destructor ran, the
ids handed to the caller and the ids held elsewhere (other containers, the caller's pending
arguments, leaked values) together are exactly the ids ever created (`ins`), each once.
-/
namespace Bump.V
open Bump

def evDrops (evs : List Ev) : List Nat := evs.filterMap fun | .drop i => some i | _ => none
def evMoved (evs : List Ev) : List Nat := evs.filterMap fun | .moveOut i => some i | _ => none
def ids (xs : List Elem) : List Nat := xs.map (·.id)

def Own (ins : List Nat) (xs : List Elem) (evs : List Ev) (held : List Nat) : Prop :=
  (ids xs ++ evDrops evs ++ evMoved evs ++ held).Perm ins ∧ ins.Nodup

@[simp] theorem evDrops_append (a b : List Ev) : evDrops (a ++ b) = evDrops a ++ evDrops b := by simp [evDrops]
@[simp] theorem evMoved_append (a b : List Ev) : evMoved (a ++ b) = evMoved a ++ evMoved b := by simp [evMoved]
@[simp] theorem ids_append (a b : List Elem) : ids (a ++ b) = ids a ++ ids b := by simp [ids]
@[simp] theorem ids_cons (a : Elem) (b : List Elem) : ids (a :: b) = a.id :: ids b := rfl
@[simp] theorem ids_nil : ids [] = [] := rfl
@[simp] theorem ids_reverse (a : List Elem) : ids a.reverse = (ids a).reverse := by simp [ids]
@[simp] theorem evDrops_moved (i : Nat) : evDrops [Ev.moveOut i] = [] := rfl
@[simp] theorem evDrops_drop (i : Nat) : evDrops [Ev.drop i] = [i] := rfl
@[simp] theorem evMoved_moved (i : Nat) : evMoved [Ev.moveOut i] = [i] := rfl
@[simp] theorem evMoved_drop (i : Nat) : evMoved [Ev.drop i] = [] := rfl
@[simp] theorem evDrops_nil : evDrops [] = [] := rfl
@[simp] theorem evMoved_nil : evMoved [] = [] := rfl

theorem evDrops_dropEvs (c : Cfg) (h : c.needsDrop = true) (es : List Elem) : evDrops (dropEvs c es) = ids es := by
  induction es with
  | nil => simp [dropEvs, h]
  | cons e es ih => simp [dropEvs, h] at ih ⊢; simp [evDrops, ids] at ih ⊢; exact ih

theorem evMoved_dropEvs (c : Cfg) (es : List Elem) : evMoved (dropEvs c es) = [] := by
  induction es with
  | nil => unfold dropEvs; split <;> rfl
  | cons e es ih => unfold dropEvs at ih ⊢; split <;> simp_all [evMoved]

/-- nothing owned has been dropped or moved out, and owned ids are pairwise distinct -/
theorem Own.distinct {ins xs evs held} (h : Own ins xs evs held) :
    (ids xs).Nodup ∧ (∀ i ∈ ids xs, i ∉ evDrops evs ∧ i ∉ evMoved evs) ∧ (evDrops evs).Nodup ∧
      (∀ i ∈ evDrops evs, i ∉ evMoved evs) := by
  have hn : (ids xs ++ evDrops evs ++ evMoved evs ++ held).Nodup := (h.1.nodup_iff).mpr h.2
  simp only [List.nodup_append, List.mem_append] at hn
  obtain ⟨⟨⟨hx, hd, hxd⟩, hm, hxdm⟩, hh, hall⟩ := hn
  refine ⟨hx, ?_, hd, ?_⟩
  · intro i hi
    refine ⟨fun hd' => hxd i hi i hd' rfl, fun hm' => hxdm i (Or.inl hi) i hm' rfl⟩
  · intro i hi hm'
    exact hxdm i (Or.inr hi) i hm' rfl

/-- counting argument: the ledger moves ids between its four parts -/
theorem Own.of_count {ins xs evs held xs' evs' held'} (h : Own ins xs evs held)
    (hc : ∀ a, (ids xs').count a + (evDrops evs').count a + (evMoved evs').count a + held'.count a
             = (ids xs).count a + (evDrops evs).count a + (evMoved evs).count a + held.count a) :
    Own ins xs' evs' held' := by
  refine ⟨?_, h.2⟩
  apply List.Perm.trans _ h.1
  rw [List.perm_iff_count]
  intro a
  simp only [List.count_append]
  exact hc a

/-! ## the core methods preserve the ledger -/

theorem count_take_drop_succ (xs : List Elem) (i : Nat) (hi : i < xs.length) (a : Nat) :
    (ids xs).count a = (ids (xs.take i)).count a + ((ids (xs.drop (i + 1))).count a + (if xs[i].id == a then 1 else 0)) := by
  have := congrArg (fun l => (ids l).count a) (take_drop_succ xs i hi)
  simp only [ids_append, ids_cons, List.count_append, List.count_cons] at this
  exact this

theorem count_take_drop (xs : List Elem) (i : Nat) (a : Nat) :
    (ids xs).count a = (ids (xs.take i)).count a + (ids (xs.drop i)).count a := by
  have := congrArg (fun l => (ids l).count a) (List.take_append_drop i xs)
  simp only [ids_append, List.count_append] at this
  exact this.symm

theorem count_dropLast (xs : List Elem) (hne : xs ≠ []) (a : Nat) :
    (ids xs).count a = (ids xs.dropLast).count a + (if (xs.getLast hne).id == a then 1 else 0) := by
  have := congrArg (fun l => (ids l).count a) (List.dropLast_concat_getLast hne)
  simp only [ids_append, ids_cons, ids_nil, List.count_append, List.count_cons, List.count_nil, Nat.zero_add] at this
  exact this.symm

/-- `push`: the pushed value passes from the caller to the vector (or is dropped when the
growth is refused) -/
theorem push_own {c : Cfg} {v : VS} {xs : List Elem} {ins held : List Nat} (hc : CfgOK c) (hd : c.needsDrop = true)
    (h : RepB c v xs) (e : Elem) (w : W) (ho : Own ins xs w.evs (e.id :: held)) :
    ∃ ys, RepB c (push c v e w).1 ys ∧ Own ins ys (push c v e w).2.1.evs held := by
  rcases push_spec hc h e w with ⟨v', hp, hr⟩ | ⟨hp, _, _⟩
  · refine ⟨xs ++ [e], by rw [hp]; exact hr, ?_⟩
    rw [hp]
    apply ho.of_count
    intro a; simp [List.count_append, List.count_cons]; omega
  · refine ⟨xs, by rw [hp]; exact h, ?_⟩
    rw [hp]
    apply ho.of_count
    intro a
    simp [(dropElem_evs c w e).1, hd, List.count_append, List.count_cons]; omega

theorem pop_own {c : Cfg} {v : VS} {xs : List Elem} {ins held : List Nat} (h : RepB c v xs) (w : W)
    (ho : Own ins xs w.evs held) :
    ∃ ys, RepB c (pop v w).1 ys ∧ Own ins ys (pop v w).2.1.evs held := by
  rcases pop_spec h w with ⟨hx, hp⟩ | ⟨hne, v', hp, hr⟩
  · exact ⟨xs, by rw [hp]; exact h, by rw [hp]; exact ho⟩
  · refine ⟨xs.dropLast, by rw [hp]; exact hr, ?_⟩
    rw [hp]
    apply ho.of_count
    intro a
    simp only [W.moved, W.emit, evDrops_append, evMoved_append, evDrops_moved, evMoved_moved, List.count_append,
      List.count_cons, List.count_nil, count_dropLast xs hne a]
    omega

theorem insert_own {c : Cfg} {v : VS} {xs : List Elem} {ins held : List Nat} (hc : CfgOK c) (hd : c.needsDrop = true)
    (h : RepB c v xs) (i : Nat) (e : Elem) (w : W) (ho : Own ins xs w.evs (e.id :: held)) :
    ∃ ys, RepB c (insert c v i e w).1 ys ∧ Own ins ys (insert c v i e w).2.1.evs held := by
  rcases insert_spec hc h i e w with ⟨_, v', hp, hr⟩ | ⟨hp, _⟩
  · refine ⟨_, by rw [hp]; exact hr, ?_⟩
    rw [hp]
    apply ho.of_count
    intro a
    simp only [ids_append, ids_cons, List.count_append, List.count_cons, count_take_drop xs i a]; omega
  · refine ⟨xs, by rw [hp]; exact h, ?_⟩
    rw [hp]
    apply ho.of_count
    intro a
    simp [(dropElem_evs c w e).1, hd, List.count_append, List.count_cons]; omega

theorem remove_own {c : Cfg} {v : VS} {xs : List Elem} {ins held : List Nat} (h : RepB c v xs) (i : Nat) (w : W)
    (ho : Own ins xs w.evs held) :
    ∃ ys, RepB c (remove c v i w).1 ys ∧ Own ins ys (remove c v i w).2.1.evs held := by
  rcases remove_spec h i w with ⟨hi, v', hp, hr⟩ | ⟨_, hp⟩
  · refine ⟨_, by rw [hp]; exact hr, ?_⟩
    rw [hp]
    apply ho.of_count
    intro a
    rw [List.eraseIdx_eq_take_drop_succ]
    simp only [W.moved, W.emit, ids_append, evDrops_append, evMoved_append, evDrops_moved, evMoved_moved, List.count_append,
      List.count_cons, List.count_nil, count_take_drop_succ xs i hi a]
    omega
  · exact ⟨xs, by rw [hp]; exact h, by rw [hp]; exact ho⟩

theorem count_set_getLast_dropLast (xs : List Elem) (i : Nat) (hi : i < xs.length) (hne : xs ≠ []) (a : Nat) :
    (ids xs).count a = (ids (xs.set i (xs.getLast hne)).dropLast).count a + (if xs[i].id == a then 1 else 0) := by
  -- either `i` is the last index (then the vector just loses it) or the last element moves to `i`
  by_cases hil : i = xs.length - 1
  · have hset : xs.set i (xs.getLast hne) = xs := by
      apply List.ext_getElem (by simp)
      intro k h1 h2
      by_cases hk : k = i
      · subst hk; simp [List.getLast_eq_getElem, hil]
      · simp [Ne.symm hk]
    have hlast : xs.getLast hne = xs[i] := by simp [List.getLast_eq_getElem, hil]
    rw [hset, count_dropLast xs hne a, hlast]
  · have hlt : i < xs.length - 1 := by omega
    have hdl : (xs.set i (xs.getLast hne)).dropLast = xs.dropLast.set i (xs.getLast hne) := by
      rw [List.dropLast_eq_take, List.dropLast_eq_take, List.length_set, List.take_set]
    have hi' : i < xs.dropLast.length := by simp; omega
    have hget : xs.dropLast[i] = xs[i] := by simp [List.getElem_dropLast]
    rw [hdl, count_dropLast xs hne a]
    have h1 := count_take_drop_succ xs.dropLast i hi' a
    have h2 := count_take_drop_succ (xs.dropLast.set i (xs.getLast hne)) i (by simpa using hi') a
    simp only [List.take_set_of_le (Nat.le_refl i), List.drop_set_of_lt (show i < i + 1 by omega), List.getElem_set_self] at h2
    rw [hget] at h1
    omega

theorem swapRemove_own {c : Cfg} {v : VS} {xs : List Elem} {ins held : List Nat} (h : RepB c v xs) (i : Nat) (w : W)
    (ho : Own ins xs w.evs held) :
    ∃ ys, RepB c (swapRemove c v i w).1 ys ∧ Own ins ys (swapRemove c v i w).2.1.evs held := by
  rcases swapRemove_spec h i w with ⟨hi, v', hp, hr⟩ | ⟨_, hp⟩
  · refine ⟨_, by rw [hp]; exact hr, ?_⟩
    rw [hp]
    apply ho.of_count
    intro a
    have hne : xs ≠ [] := by intro h0; simp [h0] at hi
    simp only [W.moved, W.emit, evDrops_append, evMoved_append, evDrops_moved, evMoved_moved, List.count_append,
      List.count_cons, List.count_nil, count_set_getLast_dropLast xs i hi hne a]
    omega
  · exact ⟨xs, by rw [hp]; exact h, by rw [hp]; exact ho⟩

/-- `truncate`, also when a destructor panics: what is no longer owned has been dropped -/
theorem truncate_own {c : Cfg} {v : VS} {xs : List Elem} {ins held : List Nat} (hd : c.needsDrop = true)
    (h : RepB c v xs) (n : Nat) (w : W) (ho : Own ins xs w.evs held) :
    ∃ ys, RepB c (truncate c v n w).1 ys ∧ Own ins ys (truncate c v n w).2.1.evs held := by
  obtain ⟨m, v', w', r, hp, _, _, hr, hev, _⟩ := truncate_spec h n w
  refine ⟨xs.take m, by rw [hp]; exact hr, ?_⟩
  rw [hp]
  apply ho.of_count
  intro a
  simp only [hev, evDrops_append, evMoved_append, evDrops_dropEvs c hd, evMoved_dropEvs, ids_reverse, List.count_append,
    List.count_reverse, List.count_nil, count_take_drop xs m a]
  omega

theorem dropAll_evs (c : Cfg) (es : List Elem) (w : W) : (dropAll c es w).1.evs = w.evs ++ dropEvs c es := by
  induction es generalizing w with
  | nil => simp [dropAll, dropEvs]
  | cons e es ih =>
    simp only [dropAll]
    rw [ih, dropElem_evs', List.append_assoc, ← dropEvs_append]
    rfl

/-- dropping the vector drops exactly what it owns (every element, also after one destructor
panicked) and nothing else -/
theorem dropVec_own {c : Cfg} {v : VS} {xs : List Elem} {ins held : List Nat} (hd : c.needsDrop = true)
    (h : RepB c v xs) (w : W) (ho : Own ins xs w.evs held) :
    (dropVec c v w).1.evs = w.evs ++ dropEvs c xs ∧ Own ins [] (dropVec c v w).1.evs held := by
  have hown : v.owned = xs := h.toRep.abs_eq
  have hev : (dropVec c v w).1.evs = w.evs ++ dropEvs c xs := by rw [dropVec, hown, dropAll_evs]
  refine ⟨hev, ?_⟩
  apply ho.of_count
  intro a
  simp only [hev, evDrops_append, evMoved_append, evDrops_dropEvs c hd, evMoved_dropEvs, ids_nil, List.count_append, List.count_nil]
  omega

/-- once the vector is gone and nothing is held elsewhere: every id ever created was dropped or
handed to the caller, exactly once -/
theorem Own.exactly_once {ins evs} (h : Own ins [] evs []) :
    (evDrops evs ++ evMoved evs).Perm ins ∧ (evDrops evs ++ evMoved evs).Nodup := by
  have hp : (evDrops evs ++ evMoved evs).Perm ins := by simpa [Own] using h.1
  exact ⟨hp, hp.nodup_iff.mpr h.2⟩

end Bump.V
