import BumpVerif.Proofs.Tiling
/-! A block that was reserved and given straight back (`alloc_slice_try_fill_*` on the first
error) leaves no residue: the same layout is served again from the same place. -/
namespace Bump
open Gen

theorem roundUpTo_add_mul {p x M r : Nat} (hM : 0 < M) (hp : M ∣ p) (hr : roundUpTo x M = some r)
    (hlt : p + x + (M - 1) < USIZE) : roundUpTo (p + x) M = some (p + r) := by
  obtain ⟨r1, r2, r3, _⟩ := roundUpTo_some hM hr
  obtain ⟨q, hq⟩ := roundUpTo_isSome (n := p + x) (d := M) hlt
  obtain ⟨q1, q2, q3, _⟩ := roundUpTo_some hM hq
  have h1 : q ≤ p + r := roundUpTo_le hM hq (Nat.dvd_add hp r3) (by omega)
  have h2 : M ∣ q - p := Nat.dvd_sub q3 hp
  have h3 : r ≤ q - p := roundUpTo_le hM hr h2 (by omega)
  rw [hq]; congr 1; omega

/-- After `dealloc` of the block the fast path just handed out, the fast path hands out the very
same block again — provided the alignment does not exceed `MIN_ALIGN` or divides the size (as it
does for every Rust array layout). -/
theorem allocFast_again (M : Nat) (c : Chunk) (sz al p : Nat) (hM : IsPow2 M) (hA : IsPow2 al)
    (hdp : c.data ≤ c.ptr) (hptr : c.ptr < 2 ^ 63) (hMp : M ∣ c.ptr) (hMle : M ≤ 16) (hdpos : 0 < c.data)
    (h : allocFast M c sz al = some p) (hdv : al ≤ M ∨ al ∣ sz) :
    ∃ r, roundUpTo (p + sz) M = some r ∧ p ≤ r ∧ r ≤ c.ptr ∧ M ∣ r ∧
      allocFast M { c with ptr := r } sz al = some p := by
  have hU : USIZE = 2 ^ 64 := rfl
  have hMpos := hM.pos
  obtain ⟨b1, b2, b3, b4⟩ := allocFast_ok M c sz al p hM hA hdp hptr hMp h
  by_cases hle : al ≤ M
  · -- the reserved size was rounded up to MIN_ALIGN: the release restores the finger exactly
    obtain ⟨asz, hasz⟩ := roundUpTo_isSome (n := sz) (d := M) (by omega)
    obtain ⟨a1, a2, a3, _⟩ := roundUpTo_some hMpos hasz
    have hp : p = c.ptr - asz ∧ asz ≤ c.ptr - c.data := by
      by_cases hfit : asz ≤ c.ptr - c.data
      · have := allocFast_fits M c sz al hle hMpos hdp hptr asz hasz hfit
        rw [this] at h; simp only [Option.some.injEq] at h
        exact ⟨h.symm, hfit⟩
      · exfalso
        unfold allocFast at h
        by_cases hlt : al < M
        · rw [if_pos hlt, hasz] at h; simp only at h; rw [if_pos (by omega)] at h; cases h
        · have he : al = M := by omega
          subst he
          rw [if_neg hlt, if_pos rfl, hasz] at h; simp only at h; rw [if_pos (by omega)] at h; cases h
    obtain ⟨hpe, hfit⟩ := hp
    have hr := roundUpTo_add_mul (p := p) (x := sz) hMpos b4 hasz (by omega)
    have hpr : p + asz = c.ptr := by omega
    rw [hpr] at hr
    refine ⟨c.ptr, hr, by omega, Nat.le_refl _, hMp, ?_⟩
    have : ({ c with ptr := c.ptr } : Chunk) = c := by cases c; rfl
    rw [this]; exact h
  · -- over-aligned request whose size is a multiple of its alignment
    have hgt : M < al := by omega
    have hds : al ∣ sz := hdv.resolve_left hle
    have hMal : M ∣ al := hM.dvd_of_le hA (by omega)
    have hasz : roundUpTo sz al = some sz := roundUpTo_of_dvd hA.pos hds (by
      have : al ≤ p := Nat.le_of_dvd (by omega) b3
      omega)
    -- p = roundDown(ptr, al) - sz
    have hp : p + sz = roundDownTo c.ptr al ∧ c.data + sz ≤ roundDownTo c.ptr al := by
      unfold allocFast at h
      rw [if_neg (by omega), if_neg (by omega), hasz] at h
      simp only at h
      have hmod : c.ptr % al ≤ c.ptr := Nat.mod_le _ _
      rw [wsub_eq hmod (by omega), sub_mod_eq_roundDownTo] at h
      have hle' := roundDownTo_le c.ptr al
      generalize roundDownTo c.ptr al = ap at *
      split at h
      · cases h
      · rename_i hcond
        have hge : c.data ≤ ap := by omega
        rw [wsub_eq hge (by omega)] at hcond
        simp only [Option.some.injEq] at h
        rw [wsub_eq (by omega) (by omega)] at h
        omega
    obtain ⟨hps, hroom⟩ := hp
    have hapdv := roundDownTo_dvd c.ptr al
    have haple := roundDownTo_le c.ptr al
    generalize roundDownTo c.ptr al = ap at *
    have hMap : M ∣ ap := Nat.dvd_trans hMal hapdv
    have hr : roundUpTo (p + sz) M = some ap := by rw [hps]; exact roundUpTo_of_dvd hMpos hMap (by omega)
    refine ⟨ap, hr, by omega, haple, hMap, ?_⟩
    unfold allocFast
    rw [if_neg (by omega), if_neg (by omega), hasz]
    simp only
    have hmod0 : ap % al = 0 := Nat.mod_eq_zero_of_dvd hapdv
    rw [hmod0, wsub_eq (Nat.zero_le _) (by omega), Nat.sub_zero, wsub_eq (by omega) (by omega)]
    rw [if_neg (by omega), wsub_eq (by omega) (by omega)]
    congr 1; omega

end Bump

namespace Bump
open Gen

/-- the general step: on a well-formed arena whose head chunk `c` just served `p` for `(sz, al)`
(finger now at `p`), `dealloc (p, sz)` followed by the same request yields `p` again on the fast path -/
theorem dealloc_then_fast {E sz al p} {c : Chunk} {cs : List Chunk} (s1 : St) (hE : EnvOK E) (wf1 : ArenaWF E s1.a)
    (hc1 : s1.a.chunks = { c with ptr := p } :: cs) (hA : IsPow2 al) (hlay : sz + al ≤ 2 ^ 63)
    (hwc : ChunkWF s1.a.M c) (haf : allocFast s1.a.M c sz al = some p) (hdv : al ≤ s1.a.M ∨ al ∣ sz) :
    (dealloc E p sz s1).2 = .ok () ∧
    tryFast E (dealloc E p sz s1).1.a sz al = .ok (some (s1.a, p)) := by
  have hU : USIZE = 2 ^ 64 := rfl
  have hfl := footer_lt hwc
  have := FS
  have hptr : c.ptr < 2 ^ 63 := by have := hwc.hi; have := hwc.ptr_le; omega
  obtain ⟨r, hr, hpr, hrle, hMr, hagain⟩ := allocFast_again s1.a.M c sz al p wf1.mpow hA hwc.ptr_ge hptr hwc.ptr_al wf1.mle
    hwc.data_pos haf hdv
  obtain ⟨b1, b2, _, _⟩ := allocFast_ok s1.a.M c sz al p wf1.mpow hA hwc.ptr_ge hptr hwc.ptr_al haf
  have hdl := dealloc_last (E := E) (p := p) (sz := sz) s1 hc1 rfl (by omega) hr (Nat.mod_eq_zero_of_dvd hMr)
  rw [hdl]
  refine ⟨rfl, ?_⟩
  simp only
  -- the arena after the release
  have hceq : ({ ({ c with ptr := p } : Chunk) with ptr := r } : Chunk) = { c with ptr := r } := rfl
  rw [hceq]
  have wf2 : ArenaWF E ({ s1.a with chunks := { c with ptr := r } :: cs } : Arena) := by
    have := setPtr_wf wf1 hc1 (p := r) (by show c.data ≤ r; omega) (by show r ≤ c.footer; have := hwc.ptr_le; omega) hMr
    exact this
  rcases tryFast_cases (sz := sz) (al := al) hE wf2 hA hlay with ⟨_, hn⟩ | ⟨a'', p', htf, hp', _, _⟩
  · have hcur : ({ s1.a with chunks := { c with ptr := r } :: cs } : Arena).cur E = { c with ptr := r } := by simp [Arena.cur]
    rw [hcur] at hn
    simp only at hn
    rw [hagain] at hn; cases hn
  · have hcur : ({ s1.a with chunks := { c with ptr := r } :: cs } : Arena).cur E = { c with ptr := r } := by simp [Arena.cur]
    rw [hcur] at hp'
    simp only at hp'
    rw [hagain] at hp'
    simp only [Option.some.injEq] at hp'
    subst hp'
    rw [htf]
    have hs := tryFast_inv htf
    simp only [setCurPtr, Option.some.injEq] at hs
    congr 3
    rw [← hs]
    cases hs1 : s1.a with
    | mk M chunks limit =>
      rw [hs1] at hc1
      simp only at hc1
      subst hc1
      rfl

end Bump

namespace Bump
open Gen

/-- **No residue after a failed slice fill** (C11): `alloc_slice_try_fill_with/iter` whose closure
fails at index `i < n` returns the error, and a request of the same layout made next is served by
the fast path, at the same address, with no allocator traffic — whenever the element alignment
does not exceed `MIN_ALIGN` or divides the element size (true of every Rust type). -/
theorem sliceTryFill_no_residue {E esz eal n i p} (s : St) (hE : EnvOK E) (wf : ArenaWF E s.a) (hA : IsPow2 eal)
    (hlay : esz * n + eal ≤ 2 ^ 63) (harr : arrayLayout esz eal n = some (esz * n)) (hi : i < n)
    (hdv : eal ≤ s.a.M ∨ eal ∣ esz * n) (hok : (allocLayout E (esz * n) eal s).2 = .ok p) :
    (sliceTryFill E esz eal n (some i) s).2 = .ierr [] ∧
    tryFast E (sliceTryFill E esz eal n (some i) s).1.a (esz * n) eal = .ok (some ((allocLayout E (esz * n) eal s).1.a, p)) := by
  have sp := allocLayout_spec (sz := esz * n) (al := eal) s hE wf hA hlay
  obtain ⟨wf', _, _, _, _, _⟩ := sp.ok p hok
  have hvia := sp.via p hok
  have hMeq := sp.m_eq
  -- reduce the statement to one about `dealloc` after the reservation
  have key : (dealloc E p (esz * n) (allocLayout E (esz * n) eal s).1).2 = .ok () ∧
      tryFast E (dealloc E p (esz * n) (allocLayout E (esz * n) eal s).1).1.a (esz * n) eal
        = .ok (some ((allocLayout E (esz * n) eal s).1.a, p)) := by
    rcases hvia with htf | ⟨C, hpf, hc', htf⟩
    · have haf := tryFast_allocFast htf
      have hs := tryFast_inv htf
      cases hc : s.a.chunks with
      | nil =>
        -- chunk-less arena, zero-sized fill: nothing moves
        unfold setCurPtr at hs
        rw [hc] at hs
        simp only at hs
        split at hs
        · simp only [Option.some.injEq] at hs
          have hnil : (allocLayout E (esz * n) eal s).1.a.chunks = [] := by rw [← hs, hc]
          have hcur0 : s.a.cur E = emptyChunk E := by simp [Arena.cur, hc]
          obtain ⟨c1, _, c3, c4, _, _, _⟩ := cur_ok hE wf
          obtain ⟨b1, b2, _, _⟩ := allocFast_ok s.a.M (s.a.cur E) (esz * n) eal p wf.mpow hA c1 c4 c3 haf
          rw [hcur0] at b1 b2
          simp only [emptyChunk] at b1 b2
          have hsz0 : esz * n = 0 := by omega
          obtain ⟨d1, _, _, _, _, _, d7⟩ := dealloc_spec (E := E) (p := p) (sz := esz * n) (allocLayout E (esz * n) eal s).1 hE wf'
            (by
              intro hpp
              have h0 := (cur_ok hE wf').2.1
              rw [hpp] at h0
              have hz : p + esz * n = p := by rw [hsz0, Nat.add_zero]
              rw [hz]; exact h0)
          rcases d7 with he | ⟨c, cs, _, hcc, _⟩
          · refine ⟨d1, ?_⟩
            rw [he]
            have : tryFast E (allocLayout E (esz * n) eal s).1.a (esz * n) eal = tryFast E s.a (esz * n) eal := by rw [← hs]
            rw [this]; exact htf
          · rw [hnil] at hcc; cases hcc
        · cases hs
      | cons c cs =>
        have hcur : s.a.cur E = c := by simp [Arena.cur, hc]
        rw [hcur] at haf
        have hs' : (allocLayout E (esz * n) eal s).1.a.chunks = { c with ptr := p } :: cs := by
          unfold setCurPtr at hs; rw [hc] at hs; simp only [Option.some.injEq] at hs; rw [← hs]
        have hwc : ChunkWF (allocLayout E (esz * n) eal s).1.a.M c := by
          rw [hMeq]; exact wf.chunks c (by rw [hc]; exact List.mem_cons_self)
        exact dealloc_then_fast _ hE wf' hs' hA hlay hwc (by rw [hMeq]; exact haf) (by rw [hMeq]; exact hdv)
    · have hmem' : ({ C with ptr := p } : Chunk) ∈ (allocLayout E (esz * n) eal s).1.a.chunks := by rw [hc']; exact List.mem_cons_self
      have hwC' := wf'.chunks _ hmem'
      have hfe : ({ C with ptr := p } : Chunk).footer = C.footer := rfl
      have hwC : ChunkWF (allocLayout E (esz * n) eal s).1.a.M C :=
        ⟨hwC'.size_ge, hwC'.data_pos, hwC'.data_al, hwC'.usable_al,
          (by rw [hpf]; have := hwC'.ptr_ge; have := hwC'.ptr_le; rw [hfe] at *; simp only at *; omega),
          (by rw [hpf]; exact Nat.le_refl _),
          (by rw [hpf]; have := Nat.dvd_trans wf'.m_dvd16 (footer_al hwC'); rw [hfe] at this; exact this), hwC'.hi⟩
      have haf := tryFast_allocFast htf
      have hcurC : ({ s.a with chunks := C :: s.a.chunks } : Arena).cur E = C := by simp [Arena.cur]
      rw [hcurC] at haf
      exact dealloc_then_fast _ hE wf' hc' hA hlay hwC (by rw [hMeq]; exact haf) (by rw [hMeq]; exact hdv)
  obtain ⟨k1, k2⟩ := key
  unfold sliceTryFill
  rw [harr]
  simp only
  cases hr : allocLayout E (esz * n) eal s with
  | mk s1 o1 =>
    rw [hr] at hok k1 k2
    simp only at hok k1 k2
    subst hok
    simp only [bindO, hi, ↓reduceIte]
    cases hdd : dealloc E p (esz * n) s1 with
    | mk s2 o2 =>
      rw [hdd] at k1 k2
      simp only at k1 k2
      subst k1
      simp only [bindO, Res.ofOutcome, id]
      exact ⟨(by triv), k2⟩

end Bump
