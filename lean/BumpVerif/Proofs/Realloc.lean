import BumpVerif.Proofs.Frame
/-! `shrink` and `grow` (lib.rs:2246-2371): alignment, placement, frame and copy facts. -/
namespace Bump
open Gen

/-- caller obligations for a block passed back to the arena: it was handed out by this arena
with this layout and is still live -/
structure BlockOK (a : Arena) (p osz oal : Nat) : Prop where
  oal_pow : IsPow2 oal
  oal_dvd : oal ∣ p
  m_dvd : a.M ∣ p
  pos : 0 < p
  hi : p + osz < 2 ^ 63
  loc : osz = 0 ∨ InChunk a p osz

/-- if the block is the last allocation it ends at or before the current chunk's footer -/
theorem cur_block {E a p osz oal} (hE : EnvOK E) (h : ArenaWF E a) (hb : BlockOK a p osz oal)
    (hp : (a.cur E).ptr = p) : p + osz ≤ (a.cur E).footer := by
  obtain ⟨c1, c2, _⟩ := cur_ok hE h
  rcases hb.loc with h0 | ⟨c, hc, hc1, hc2⟩
  · omega
  · cases hch : a.chunks with
    | nil => rw [hch] at hc; cases hc
    | cons x xs =>
      have hcur : a.cur E = x := by simp [Arena.cur, hch]
      rw [hcur] at hp c1 c2 ⊢
      rw [hch] at hc
      simp only [List.mem_cons] at hc
      rcases hc with rfl | hc
      · exact hc2
      · exfalso
        have hwx := h.chunks x (by rw [hch]; exact List.mem_cons_self)
        have hwc := h.chunks c (by rw [hch]; exact List.mem_cons_of_mem _ hc)
        have hd := h.disj; rw [hch] at hd
        have hxc := (List.pairwise_cons.mp hd).1 c hc
        have f1 := footer_lt hwx; have f2 := footer_lt hwc
        have := hwc.ptr_ge; have := FS
        by_cases hz : osz = 0
        · -- a zero-sized block may sit on a chunk boundary only if the chunks touch; still fine
          subst hz; unfold Disj at hxc; omega
        · unfold Disj at hxc; omega

structure ReallocPost (E : Nat) (s s' : St) (p osz nsz nal : Nat) (o : Outcome Nat) : Prop where
  nobad : ∀ w, o ≠ .bad w
  nopanic : o ≠ .panic
  m_eq : s'.a.M = s.a.M
  lim_eq : s'.a.limit = s.a.limit
  hi : ∀ q, o = .ok q → q + nsz < 2 ^ 63
  ok : ∀ q, o = .ok q → ArenaWF E s'.a ∧ nal ∣ q ∧ s.a.M ∣ q ∧ 0 < q ∧
        (nsz = 0 ∨ InChunk s'.a q nsz) ∧
        (∀ b bn, 0 < bn → InChunk s.a b bn → (osz = 0 ∨ Disj b bn p osz) → InChunk s'.a b bn ∧ (nsz = 0 ∨ Disj b bn q nsz)) ∧
        ((q = p ∧ s'.mem = s.mem) ∨
         (s'.mem = s.mem ++ [.copyNonoverlapping p q (min osz nsz)] ∧ Disj p (min osz nsz) q (min osz nsz)) ∨
         (s'.mem = s.mem ++ [.copy p q (min osz nsz)]))
  err : o = .err → s'.a = s.a ∧ s'.mem = s.mem ∧ ∃ refs, AllRefused refs ∧ s'.evs = s.evs ++ refs

theorem rangesOverlap_false {a b n : Nat} (h : Disj a n b n) : rangesOverlap a b n = false := by
  unfold rangesOverlap Disj at *
  by_cases hn : n > 0
  · simp only [hn, decide_true, Bool.true_and, Bool.and_eq_false_iff, decide_eq_false_iff_not]
    rcases h with h | h
    · right; omega
    · left; omega
  · simp [hn]

theorem pow2_le_dvd {a b p : Nat} (ha : IsPow2 a) (hb : IsPow2 b) (hle : a ≤ b) (hp : b ∣ p) : a ∣ p :=
  Nat.dvd_trans (ha.dvd_of_le hb hle) hp

/-- `shrink` -/
theorem shrink_spec {E p osz oal nsz nal} (s : St) (hE : EnvOK E) (h : ArenaWF E s.a)
    (hb : BlockOK s.a p osz oal) (hN : IsPow2 nal) (hle : nsz ≤ osz) (hlay : nsz + nal ≤ 2 ^ 63) :
    ReallocPost E s (shrink E p osz oal nsz nal s).1 p osz nsz nal (shrink E p osz oal nsz nal s).2 := by
  have hU : USIZE = 2 ^ 64 := rfl
  have hmin : min osz nsz = nsz := Nat.min_eq_right hle
  unfold shrink
  by_cases hlt : oal < nal
  · simp only [hlt, ↓reduceIte]
    by_cases hal : p % nal = 0
    · simp only [hal, ↓reduceIte]
      refine ⟨(by intro w; simp), (by simp), rfl, rfl, (by intro q' hq'; cases hq'; have := hb.hi; omega), ?_, (by intro hh; cases hh)⟩
      intro q hq; cases hq
      refine ⟨h, Nat.dvd_of_mod_eq_zero hal, hb.m_dvd, hb.pos, ?_, ?_, Or.inl ⟨rfl, rfl⟩⟩
      · rcases hb.loc with h0 | ⟨c, hc, h1, h2⟩
        · left; omega
        · by_cases hz : nsz = 0
          · exact Or.inl hz
          · exact Or.inr ⟨c, hc, h1, by omega⟩
      · intro b bn _ hib hd
        exact ⟨hib, by unfold Disj at *; omega⟩
    · simp only [hal, ↓reduceIte]
      obtain ⟨sp, hnp⟩ := tryAllocLayout_spec (sz := nsz) (al := nal) s hE h hN hlay
      cases hr : tryAllocLayout E nsz nal s with
      | mk s1 o1 =>
        rw [hr] at sp hnp
        simp only at sp hnp
        cases o1 with
        | ok q =>
          simp only [bindO, copyNonoverlapping]
          obtain ⟨hwf', ha, hm, hpos, hsh, _⟩ := sp.ok q rfl
          obtain ⟨f1, f2⟩ := hsh.frame h hwf'
          have hdisj : Disj p nsz q nsz := by
            rcases hb.loc with h0 | hin
            · have : nsz = 0 := by omega
              subst this; unfold Disj; omega
            · have := (f1 p osz hin).2
              unfold Disj at *; omega
          rw [rangesOverlap_false hdisj]
          simp only [Bool.false_eq_true, ↓reduceIte]
          refine ⟨(by intro w; simp), (by simp), sp.m_eq, sp.lim_eq, (by intro q' hq'; cases hq'; exact AllocShape.hi hE h hwf' hsh), ?_, (by intro hh; cases hh)⟩
          intro q' hq'; cases hq'
          refine ⟨hwf', ha, hm, hpos, ?_, ?_, Or.inr (Or.inl ⟨by rw [hmin, sp.mem_eq], by rw [hmin]; exact hdisj⟩)⟩
          · by_cases hz : nsz = 0
            · exact Or.inl hz
            · exact Or.inr (f2 (by omega))
          · intro b bn _ hib _
            obtain ⟨g1, g2⟩ := f1 b bn hib
            exact ⟨g1, by unfold Disj at *; omega⟩
        | err =>
          simp only [bindO]
          obtain ⟨ha, refs, hrf, hev⟩ := sp.fail (Or.inl rfl)
          exact ⟨(by intro w; simp), (by simp), sp.m_eq, sp.lim_eq, (by intro q' hq'; cases hq'), (by intro q hq; cases hq), fun _ => ⟨ha, sp.mem_eq, refs, hrf, hev⟩⟩
        | panic => exact absurd rfl hnp
        | bad w => exact absurd rfl (sp.nobad w)
        | envBad =>
          simp only [bindO]
          exact ⟨(by intro w; simp), (by simp), sp.m_eq, sp.lim_eq, (by intro q' hq'; cases hq'), (by intro q hq; cases hq), (by intro hh; cases hh)⟩
  · simp only [hlt, ↓reduceIte]
    have hnal_dvd : nal ∣ p := pow2_le_dvd hN hb.oal_pow (by omega) hb.oal_dvd
    rw [if_neg (by intro hh; exact hh (Nat.mod_eq_zero_of_dvd hnal_dvd)), if_neg (by omega)]
    have hkeep : ∀ (s0 : St), s0 = s →
        ReallocPost E s s0 p osz nsz nal (.ok p) := by
      intro s0 hs0; subst hs0
      refine ⟨(by intro w; simp), (by simp), rfl, rfl, (by intro q' hq'; cases hq'; have := hb.hi; omega), ?_, (by intro hh; cases hh)⟩
      intro q hq; cases hq
      refine ⟨h, hnal_dvd, hb.m_dvd, hb.pos, ?_, ?_, Or.inl ⟨rfl, rfl⟩⟩
      · rcases hb.loc with h0 | ⟨c, hc, h1, h2⟩
        · left; omega
        · by_cases hz : nsz = 0
          · exact Or.inl hz
          · exact Or.inr ⟨c, hc, h1, by omega⟩
      · intro b bn _ hib hd
        exact ⟨hib, by unfold Disj at *; omega⟩
    by_cases hcond : (isLast E s.a p && decide (roundDownTo (osz - nsz) (max nal s.a.M) ≥ (osz + 1) / 2)) = true
    · simp only [hcond, ↓reduceIte]
      simp only [Bool.and_eq_true, decide_eq_true_eq] at hcond
      obtain ⟨hl, hdelta⟩ := hcond
      have hp : (s.a.cur E).ptr = p := by simpa [isLast] using hl
      have hblk := cur_block hE h hb hp
      have hmaxpow : IsPow2 (max nal s.a.M) := IsPow2.max hN h.mpow
      have hdle := roundDownTo_le (osz - nsz) (max nal s.a.M)
      have hddv := roundDownTo_dvd (osz - nsz) (max nal s.a.M)
      generalize roundDownTo (osz - nsz) (max nal s.a.M) = delta at *
      have hMd : s.a.M ∣ delta := Nat.dvd_trans (h.mpow.dvd_of_le hmaxpow (by omega)) hddv
      have hNd : nal ∣ delta := Nat.dvd_trans (hN.dvd_of_le hmaxpow (by omega)) hddv
      rw [hp]
      have hqM : s.a.M ∣ p + delta := Nat.dvd_add hb.m_dvd hMd
      rw [if_neg (by intro hh; exact hh (Nat.mod_eq_zero_of_dvd hqM))]
      have hdisj : Disj p nsz (p + delta) nsz := by unfold Disj; left; omega
      cases hc : s.a.chunks with
      | nil =>
        have hcur : s.a.cur E = emptyChunk E := by simp [Arena.cur, hc]
        rw [hcur] at hp hblk
        simp only [emptyChunk, Chunk.footer] at hp hblk
        have hosz : osz = 0 := by omega
        have hnsz : nsz = 0 := by omega
        have hd0 : delta = 0 := by omega
        subst hosz; subst hnsz; subst hd0; subst hp
        simp only [storePtr, setCurPtr, hc, Nat.add_zero, ↓reduceIte, bindO, copyNonoverlapping]
        rw [rangesOverlap_false (by unfold Disj; omega)]
        simp only [Bool.false_eq_true, ↓reduceIte]
        refine ⟨(by intro w; simp), (by simp), rfl, rfl, (by intro q' hq'; cases hq'; have := hE.hi; have := FS; omega), ?_, (by intro hh; cases hh)⟩
        intro q hq; cases hq
        refine ⟨h, Nat.dvd_trans (hN.dvd_of_le hb.oal_pow (by omega)) hb.oal_dvd, hb.m_dvd, hb.pos, Or.inl rfl, ?_, Or.inr (Or.inl ⟨rfl, by unfold Disj; omega⟩)⟩
        intro b bn _ hib _
        obtain ⟨x, hx, _⟩ := hib
        rw [hc] at hx; cases hx
      | cons c cs =>
        have hcur : s.a.cur E = c := by simp [Arena.cur, hc]
        rw [hcur] at hp hblk
        have hw := h.chunks c (by rw [hc]; exact List.mem_cons_self)
        simp only [storePtr, setCurPtr, hc, bindO, copyNonoverlapping]
        rw [rangesOverlap_false hdisj]
        simp only [Bool.false_eq_true, ↓reduceIte]
        have hwf' := setPtr_wf h hc (p := p + delta) (by have := hw.ptr_ge; omega) (by omega) hqM
        refine ⟨(by intro w; simp), (by simp), rfl, rfl, (by intro q' hq'; cases hq'; have := footer_lt hw; have := hw.hi; have := FS; omega), ?_, (by intro hh; cases hh)⟩
        intro q hq; cases hq
        refine ⟨hwf', Nat.dvd_add hnal_dvd hNd, hqM, (by have := hb.pos; omega), ?_, ?_, Or.inr (Or.inl ⟨by rw [hmin], by rw [hmin]; exact hdisj⟩)⟩
        · by_cases hz : nsz = 0
          · exact Or.inl hz
          · exact Or.inr ⟨{ c with ptr := p + delta }, List.mem_cons_self, Nat.le_refl _, by show p + delta + nsz ≤ c.footer; omega⟩
        · intro b bn hbn ⟨x, hx, hx1, hx2⟩ hd
          rw [hc] at hx
          simp only [List.mem_cons] at hx
          rcases hx with rfl | hx
          · have : p + osz ≤ b := by unfold Disj at hd; omega
            exact ⟨⟨{ x with ptr := p + delta }, List.mem_cons_self, by show p + delta ≤ b; omega, hx2⟩, by unfold Disj; right; omega⟩
          · refine ⟨⟨x, List.mem_cons_of_mem _ hx, hx1, hx2⟩, ?_⟩
            have hwx := h.chunks x (by rw [hc]; exact List.mem_cons_of_mem _ hx)
            have hdd := h.disj; rw [hc] at hdd
            have hcx := (List.pairwise_cons.mp hdd).1 x hx
            have := disj_of_chunks hw hwx hcx (x := p + delta) (xn := nsz) ⟨by have := hw.ptr_ge; omega, by omega⟩
              (y := b) (yn := bn) ⟨by have := hwx.ptr_ge; omega, hx2⟩
            unfold Disj at *; omega
    · simp only [hcond, Bool.false_eq_true, ↓reduceIte]
      exact hkeep s rfl

end Bump

namespace Bump
open Gen

theorem growFallback_spec {E p osz oal nsz nal} (s : St) (hE : EnvOK E) (h : ArenaWF E s.a)
    (hb : BlockOK s.a p osz oal) (hN : IsPow2 nal) (hle : osz ≤ nsz) (hlay : nsz + nal ≤ 2 ^ 63) :
    ReallocPost E s (growFallback E p osz nsz nal s).1 p osz nsz nal (growFallback E p osz nsz nal s).2 := by
  have hmin : min osz nsz = osz := Nat.min_eq_left hle
  unfold growFallback
  obtain ⟨sp, hnp⟩ := tryAllocLayout_spec (sz := nsz) (al := nal) s hE h hN hlay
  cases hr : tryAllocLayout E nsz nal s with
  | mk s1 o1 =>
    rw [hr] at sp hnp
    simp only at sp hnp
    cases o1 with
    | ok q =>
      simp only [bindO, copyNonoverlapping]
      obtain ⟨hwf', ha, hm, hpos, hsh, _⟩ := sp.ok q rfl
      obtain ⟨f1, f2⟩ := hsh.frame h hwf'
      have hdisj : Disj p osz q osz := by
        rcases hb.loc with h0 | hin
        · subst h0; unfold Disj; omega
        · have := (f1 p osz hin).2
          unfold Disj at *; omega
      rw [rangesOverlap_false hdisj]
      simp only [Bool.false_eq_true, ↓reduceIte]
      refine ⟨(by intro w; simp), (by simp), sp.m_eq, sp.lim_eq, (by intro q' hq'; cases hq'; exact AllocShape.hi hE h hwf' hsh), ?_, (by intro hh; cases hh)⟩
      intro q' hq'; cases hq'
      refine ⟨hwf', ha, hm, hpos, ?_, ?_, Or.inr (Or.inl ⟨by rw [hmin, sp.mem_eq], by rw [hmin]; exact hdisj⟩)⟩
      · by_cases hz : nsz = 0
        · exact Or.inl hz
        · exact Or.inr (f2 (by omega))
      · intro b bn _ hib _
        obtain ⟨g1, g2⟩ := f1 b bn hib
        exact ⟨g1, by unfold Disj at *; omega⟩
    | err =>
      simp only [bindO]
      obtain ⟨ha, refs, hrf, hev⟩ := sp.fail (Or.inl rfl)
      exact ⟨(by intro w; simp), (by simp), sp.m_eq, sp.lim_eq, (by intro q' hq'; cases hq'), (by intro q hq; cases hq), fun _ => ⟨ha, sp.mem_eq, refs, hrf, hev⟩⟩
    | panic => exact absurd rfl hnp
    | bad w => exact absurd rfl (sp.nobad w)
    | envBad =>
      simp only [bindO]
      exact ⟨(by intro w; simp), (by simp), sp.m_eq, sp.lim_eq, (by intro q' hq'; cases hq'), (by intro q hq; cases hq), (by intro hh; cases hh)⟩

/-- `grow` -/
theorem grow_spec {E p osz oal nsz nal} (s : St) (hE : EnvOK E) (h : ArenaWF E s.a)
    (hb : BlockOK s.a p osz oal) (hN : IsPow2 nal) (hle : osz ≤ nsz) (hlay : nsz + nal ≤ 2 ^ 63) :
    ReallocPost E s (grow E p osz oal nsz nal s).1 p osz nsz nal (grow E p osz oal nsz nal s).2 := by
  have hU : USIZE = 2 ^ 64 := rfl
  have hmin : min osz nsz = osz := Nat.min_eq_left hle
  have hsame : ∀ (o : Outcome Nat), o = .err → ReallocPost E s s p osz nsz nal o := by
    intro o ho; subst ho
    exact ⟨(by intro w; simp), (by simp), rfl, rfl, (by intro q' hq'; cases hq'), (by intro q hq; cases hq), fun _ => ⟨rfl, rfl, [], AllRefused.nil, by simp⟩⟩
  unfold grow
  cases hru : roundUpTo nsz s.a.M with
  | none => exact hsame _ rfl
  | some ns =>
    obtain ⟨r1, r2, r3, r4⟩ := roundUpTo_some h.m_pos hru
    simp only
    by_cases hcond : (decide (oal ≥ nal) && isLast E s.a p) = true
    · simp only [hcond, ↓reduceIte]
      simp only [Bool.and_eq_true, decide_eq_true_eq] at hcond
      obtain ⟨hge, hl⟩ := hcond
      have hp : (s.a.cur E).ptr = p := by simpa [isLast] using hl
      have hblk := cur_block hE h hb hp
      rw [if_neg (by omega)]
      by_cases hv : validLayout (ns - osz) oal = true
      · simp only [hv, Bool.not_true, Bool.false_eq_true, ↓reduceIte]
        have hdl : ns - osz + oal ≤ 2 ^ 63 := by
          simp only [validLayout, Bool.and_eq_true, decide_eq_true_eq] at hv; exact hv.2
        rcases tryFast_cases (sz := ns - osz) (al := oal) hE h hb.oal_pow hdl with ⟨htf, _⟩ | ⟨a', q, htf, _, hwf', eff⟩
        · rw [htf]
          simp only [pureO, bindO]
          exact growFallback_spec s hE h hb hN hle hlay
        · rw [htf]
          simp only [pureO, bindO]
          refine ⟨(by intro w; simp), (by simp), eff.m_eq, eff.lim_eq, ?_, ?_, (by intro hh; cases hh)⟩
          · intro q' hq'; cases hq'
            have := hb.hi
            rcases eff.shape with ⟨hnil, _, hq, hd0⟩ | ⟨c, cs, hc, _, _, hle'⟩
            · have hcur : s.a.cur E = emptyChunk E := by simp [Arena.cur, hnil]
              rw [hcur] at hp
              simp only [emptyChunk] at hp
              omega
            · have hcur : s.a.cur E = c := by simp [Arena.cur, hc]
              rw [hcur] at hp
              omega
          intro q' hq'; cases hq'
          have hnalq : nal ∣ q := pow2_le_dvd hN hb.oal_pow hge eff.al_dvd
          rcases eff.shape with ⟨hnil, ha, hq, hd0⟩ | ⟨c, cs, hc, hc', hge', hle'⟩
          · -- chunk-less arena: the block is zero-sized at the static address and stays there
            have hcur : s.a.cur E = emptyChunk E := by simp [Arena.cur, hnil]
            rw [hcur] at hp hblk
            simp only [emptyChunk, Chunk.footer] at hp hblk
            have hosz : osz = 0 := by omega
            have hnsz : nsz = 0 := by omega
            subst ha
            refine ⟨h, hnalq, eff.m_dvd, eff.nz, Or.inl hnsz, ?_, Or.inr (Or.inr (by rw [hmin]))⟩
            intro b bn _ ⟨x, hx, _⟩ _
            rw [hnil] at hx; cases hx
          · have hcur : s.a.cur E = c := by simp [Arena.cur, hc]
            rw [hcur] at hp hblk
            have hw := h.chunks c (by rw [hc]; exact List.mem_cons_self)
            refine ⟨hwf', hnalq, eff.m_dvd, eff.nz, ?_, ?_, Or.inr (Or.inr (by rw [hmin]))⟩
            · by_cases hz : nsz = 0
              · exact Or.inl hz
              · exact Or.inr ⟨{ c with ptr := q }, by rw [hc']; exact List.mem_cons_self, Nat.le_refl _, by show q + nsz ≤ c.footer; omega⟩
            · intro b bn hbn ⟨x, hx, hx1, hx2⟩ hd
              rw [hc] at hx
              simp only [List.mem_cons] at hx
              rcases hx with rfl | hx
              · have : p + osz ≤ b := by unfold Disj at hd; omega
                exact ⟨⟨{ x with ptr := q }, by rw [hc']; exact List.mem_cons_self, by show q ≤ b; omega, hx2⟩, by unfold Disj; right; omega⟩
              · refine ⟨⟨x, by rw [hc']; exact List.mem_cons_of_mem _ hx, hx1, hx2⟩, ?_⟩
                have hwx := h.chunks x (by rw [hc]; exact List.mem_cons_of_mem _ hx)
                have hdd := h.disj; rw [hc] at hdd
                have hcx := (List.pairwise_cons.mp hdd).1 x hx
                have := disj_of_chunks hw hwx hcx (x := q) (xn := nsz) ⟨hge', by omega⟩
                  (y := b) (yn := bn) ⟨by have := hwx.ptr_ge; omega, hx2⟩
                unfold Disj at *; omega
      · simp only [hv, Bool.not_false, ↓reduceIte]
        exact hsame _ rfl
    · simp only [hcond, Bool.false_eq_true, ↓reduceIte]
      exact growFallback_spec s hE h hb hN hle hlay

end Bump
