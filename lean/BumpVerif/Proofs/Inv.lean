import BumpVerif.Model.Arena
import BumpVerif.Proofs.Arith
import BumpVerif.Proofs.Fast
/-! The arena well-formedness invariant and what each primitive does to it. -/
namespace Bump
open Gen

/-- what is assumed of the static empty chunk's address -/
structure EnvOK (E : Nat) : Prop where
  pos : 0 < E
  al : 16 ∣ E
  hi : E + FOOTER_SIZE ≤ 2 ^ 63

/-- ranges `[a, a+an)` and `[b, b+bn)` do not overlap -/
def Disj (a an b bn : Nat) : Prop := a + an ≤ b ∨ b + bn ≤ a

def usable (c : Chunk) : Nat := c.size - FOOTER_SIZE
def sumUsable (cs : List Chunk) : Nat := (cs.map usable).sum

structure ChunkWF (M : Nat) (c : Chunk) : Prop where
  size_ge : FOOTER_SIZE ≤ c.size
  data_pos : 0 < c.data
  data_al : 16 ∣ c.data
  usable_al : 16 ∣ c.size - FOOTER_SIZE
  ptr_ge : c.data ≤ c.ptr
  ptr_le : c.ptr ≤ c.footer
  ptr_al : M ∣ c.ptr
  hi : c.data + c.size ≤ 2 ^ 63

structure ArenaWF (E : Nat) (a : Arena) : Prop where
  mpow : IsPow2 a.M
  mle : a.M ≤ 16
  chunks : ∀ c ∈ a.chunks, ChunkWF a.M c
  ab : (a.cur E).ab = sumUsable a.chunks
  disj : a.chunks.Pairwise (fun c d => Disj c.data c.size d.data d.size)
  sdisj : ∀ c ∈ a.chunks, Disj c.data c.size E FOOTER_SIZE
  total : sumSize a.chunks ≤ 2 ^ 63

theorem FS : FOOTER_SIZE = 48 := rfl

theorem ArenaWF.m_dvd16 {E a} (h : ArenaWF E a) : a.M ∣ 16 := h.mpow.dvd_of_le isPow2_16 h.mle
theorem ArenaWF.m_pos {E a} (h : ArenaWF E a) : 0 < a.M := h.mpow.pos

theorem footer_al {M c} (h : ChunkWF M c) : 16 ∣ c.footer := by
  unfold Chunk.footer; exact Nat.dvd_add h.data_al h.usable_al

theorem footer_lt {M c} (h : ChunkWF M c) : c.footer + FOOTER_SIZE = c.data + c.size := by
  unfold Chunk.footer; have := h.size_ge; omega

/-- the current chunk (possibly the static) satisfies what the fast path asserts -/
theorem cur_ok {E a} (hE : EnvOK E) (h : ArenaWF E a) :
    (a.cur E).data ≤ (a.cur E).ptr ∧ (a.cur E).ptr ≤ (a.cur E).footer ∧ a.M ∣ (a.cur E).ptr ∧
    (a.cur E).ptr < 2 ^ 63 ∧ FOOTER_SIZE ≤ (a.cur E).size ∧ 0 < (a.cur E).data ∧
    (a.cur E).data + (a.cur E).size ≤ 2 ^ 63 := by
  unfold Arena.cur
  cases hc : a.chunks with
  | nil =>
    simp only [List.headD_nil, emptyChunk, Chunk.footer]
    have := hE.pos; have := hE.hi; have := FS
    refine ⟨Nat.le_refl _, by omega, Nat.dvd_trans h.m_dvd16 hE.al, by omega, Nat.le_refl _, by omega, by omega⟩
  | cons c cs =>
    simp only [List.headD_cons]
    have hw := h.chunks c (by rw [hc]; exact List.mem_cons_self)
    have := footer_lt hw; have := FS
    exact ⟨hw.ptr_ge, hw.ptr_le, hw.ptr_al, by have := hw.ptr_le; have := hw.hi; omega, hw.size_ge, hw.data_pos, hw.hi⟩

/-- effect of a successful fast-path allocation -/
structure FastEffect (E : Nat) (a a' : Arena) (p sz al : Nat) : Prop where
  m_eq : a'.M = a.M
  lim_eq : a'.limit = a.limit
  al_dvd : al ∣ p
  m_dvd : a.M ∣ p
  nz : 0 < p
  shape : (a.chunks = [] ∧ a' = a ∧ p = E ∧ sz = 0) ∨
    (∃ c cs, a.chunks = c :: cs ∧ a'.chunks = { c with ptr := p } :: cs ∧ c.data ≤ p ∧ p + sz ≤ c.ptr)

theorem setPtr_wf {E a c cs p} (h : ArenaWF E a) (hc : a.chunks = c :: cs) (hge : c.data ≤ p) (hle : p ≤ c.footer)
    (hal : a.M ∣ p) : ArenaWF E { a with chunks := { c with ptr := p } :: cs } := by
  have hw := h.chunks c (by rw [hc]; exact List.mem_cons_self)
  refine ⟨h.mpow, h.mle, ?_, ?_, ?_, ?_, ?_⟩
  · intro d hd
    simp only [List.mem_cons] at hd
    rcases hd with rfl | hd
    · exact ⟨hw.size_ge, hw.data_pos, hw.data_al, hw.usable_al, hge, hle, hal, hw.hi⟩
    · exact h.chunks d (by rw [hc]; exact List.mem_cons_of_mem _ hd)
  · have := h.ab
    simp only [Arena.cur, hc, List.headD_cons, sumUsable, List.map_cons, usable] at this ⊢
    exact this
  · have := h.disj; rw [hc] at this
    simp only [List.pairwise_cons] at this ⊢
    exact this
  · intro d hd
    simp only [List.mem_cons] at hd
    rcases hd with rfl | hd
    · exact h.sdisj c (by rw [hc]; exact List.mem_cons_self)
    · exact h.sdisj d (by rw [hc]; exact List.mem_cons_of_mem _ hd)
  · have := h.total; rw [hc] at this
    simpa [sumSize] using this

/-- `try_alloc_layout_fast` never trips an assertion; it either does not fit or yields a
well-formed arena with the block below the old finger. -/
theorem tryFast_cases {E a sz al} (hE : EnvOK E) (h : ArenaWF E a) (hA : IsPow2 al) (hlay : sz + al ≤ 2 ^ 63) :
    (tryFast E a sz al = .ok none ∧ allocFast a.M (a.cur E) sz al = none) ∨
    (∃ a' p, tryFast E a sz al = .ok (some (a', p)) ∧ allocFast a.M (a.cur E) sz al = some p ∧
      ArenaWF E a' ∧ FastEffect E a a' p sz al) := by
  obtain ⟨h1, h2, h3, h4, h5, h6, h7⟩ := cur_ok hE h
  have hU : USIZE = 2 ^ 64 := rfl
  have hApos := hA.pos
  unfold tryFast
  have hpre : fastPre a.M (a.cur E) = true := by
    simp [fastPre, h1, h2, Nat.mod_eq_zero_of_dvd h3]
  simp only [hpre, Bool.not_true, Bool.false_eq_true, ↓reduceIte]
  have hru : (roundUpTo sz al).isNone = false := by
    obtain ⟨r, hr⟩ := roundUpTo_isSome (n := sz) (d := al) (by omega)
    simp [hr]
  simp only [hru, Bool.and_false, Bool.false_eq_true, ↓reduceIte]
  cases hf : allocFast a.M (a.cur E) sz al with
  | none => left; exact ⟨rfl, rfl⟩
  | some p =>
    right
    obtain ⟨g1, g2, g3, g4⟩ := allocFast_ok a.M (a.cur E) sz al p h.mpow hA h1 h4 h3 hf
    have hpost : fastPost a.M (a.cur E) al p = true := by
      simp [fastPost, Nat.mod_eq_zero_of_dvd g3, Nat.mod_eq_zero_of_dvd g4, g1]
      omega
    simp only [hpost, Bool.not_true, Bool.false_eq_true, ↓reduceIte]
    cases hc : a.chunks with
    | nil =>
      have hcur : a.cur E = emptyChunk E := by simp [Arena.cur, hc]
      rw [hcur] at g1 g2
      simp only [emptyChunk] at g1 g2
      have hp : p = E := by omega
      have hsz : sz = 0 := by omega
      subst hp
      have := hE.pos
      simp only [setCurPtr, hc, ↓reduceIte]
      exact ⟨a, p, rfl, rfl, h, ⟨rfl, rfl, g3, g4, by omega, Or.inl ⟨hc, rfl, rfl, hsz⟩⟩⟩
    | cons c cs =>
      have hcur : a.cur E = c := by simp [Arena.cur, hc]
      rw [hcur] at g1 g2 h2 h6
      simp only [setCurPtr, hc]
      refine ⟨_, p, rfl, rfl, setPtr_wf h hc g1 (by omega) g4, ⟨rfl, rfl, g3, g4, by omega, Or.inr ⟨c, cs, hc, rfl, g1, g2⟩⟩⟩

end Bump
