import BumpVerif.Proofs.VecMore
/-!
# `dedup_by` (vec.rs:114-201, 1396): the swap-based partition keeps the slice a permutation at
every moment, whatever the callback answers and wherever it panics
-/
namespace Bump.V
open Bump

theorem getElem?_join_map_some (ys : List Elem) (rest : List (Option Elem)) (i : Nat) (hi : i < ys.length) :
    ((ys.map some ++ rest)[i]?).join = some ys[i] := by
  simp [List.getElem?_append_left, hi]

theorem swapSlots_rep (ys : List Elem) (rest : List (Option Elem)) (i j : Nat) (hi : i < ys.length) (hj : j < ys.length) :
    swapSlots (ys.map some ++ rest) i j = ((ys.set i ys[j]).set j ys[i]).map some ++ rest := by
  unfold swapSlots
  rw [getElem?_join_map_some ys rest j hj, getElem?_join_map_some ys rest i hi]
  rw [List.set_append_left _ _ (by simpa using hi), ← List.map_set]
  rw [List.set_append_left _ _ (by simpa using hj), ← List.map_set]

/-- the loop of `partition_dedup_by`: the initialised prefix stays a permutation of the original
elements; no effect other than the swaps -/
theorem dedupLoop_spec (cb : Nat → Elem → Elem → Option Bool) (xs : List Elem) (rest : List (Option Elem)) :
    ∀ (fuel : Nat) (ys : List Elem) (r wr calls : Nat) (w : W), ys.Perm xs → 1 ≤ wr → wr ≤ r →
      ∃ (ys' : List Elem) (wr' : Nat) (ok : Bool), dedupLoop cb xs.length fuel (ys.map some ++ rest) r wr calls w = (ys'.map some ++ rest, wr', w, ok) ∧
        ys'.Perm xs ∧ 1 ≤ wr' ∧ (wr' ≤ xs.length ∨ wr' ≤ r) := by
  intro fuel
  induction fuel with
  | zero => intro ys r wr calls w hp h1 h2; exact ⟨ys, wr, true, rfl, hp, h1, Or.inr h2⟩
  | succ f ih =>
    intro ys r wr calls w hp h1 h2
    have hlen : ys.length = xs.length := hp.length_eq
    by_cases hr : r < xs.length
    · have hr' : r < ys.length := by omega
      have hw' : wr - 1 < ys.length := by omega
      have ha := getElem?_join_map_some ys rest r hr'
      have hb := getElem?_join_map_some ys rest (wr - 1) hw'
      cases hcb : cb calls ys[r] ys[wr - 1] with
      | none =>
        refine ⟨ys, wr, false, ?_, hp, h1, Or.inl (by omega)⟩
        simp [dedupLoop, hr, ha, hb, hcb]
      | some same =>
        cases same with
        | true =>
          obtain ⟨ys', wr', ok, hrun, hp', h1', h2'⟩ := ih ys (r + 1) wr (calls + 1) w hp h1 (by omega)
          refine ⟨ys', wr', ok, ?_, hp', h1', ?_⟩
          · simp [dedupLoop, hr, ha, hb, hcb, hrun]
          · rcases h2' with h | h
            · exact Or.inl h
            · exact Or.inl (by omega)
        | false =>
          by_cases hne : r ≠ wr
          · have hwr : wr < ys.length := by omega
            have hsw := swapSlots_rep ys rest r wr hr' hwr
            have hperm : ((ys.set r ys[wr]).set wr ys[r]).Perm xs := (List.set_set_perm hr' hwr).trans hp
            obtain ⟨ys', wr', ok, hrun, hp', h1', h2'⟩ := ih _ (r + 1) (wr + 1) (calls + 1) w hperm (by omega) (by omega)
            refine ⟨ys', wr', ok, ?_, hp', h1', ?_⟩
            · simp [dedupLoop, hr, ha, hb, hcb, hne, hsw, hrun]
            · rcases h2' with h | h
              · exact Or.inl h
              · exact Or.inl (by omega)
          · have heq : r = wr := by omega
            obtain ⟨ys', wr', ok, hrun, hp', h1', h2'⟩ := ih ys (r + 1) (wr + 1) (calls + 1) w hp (by omega) (by omega)
            refine ⟨ys', wr', ok, ?_, hp', h1', ?_⟩
            · simp [dedupLoop, hr, ha, hb, hcb, heq, hrun]
            · rcases h2' with h | h
              · exact Or.inl h
              · exact Or.inl (by omega)
    · refine ⟨ys, wr, true, ?_, hp, h1, Or.inr h2⟩
      simp [dedupLoop, hr]

end Bump.V
