import BumpVerif.Proofs.VecMore
/-!
# `dedup_by` (vec.rs:114-201, 1396): the swap-based partition keeps the slice a permutation at
every moment, whatever the callback answers and wherever it panics
-/
namespace Bump.V
open Bump

theorem getElem?_join_map_some (ys : List Elem) (rest : List (Option Elem)) (i : Nat) (hi : i < ys.length) :
    ((ys.map some ++ rest)[i]?).join = some ys[i] := by
  simp [List.getElem?_append_left, hi]

theorem swapSlots_rep (ys : List Elem) (rest : List (Option Elem)) (i j : Nat) (hi : i < ys.length) (hj : j < ys.length) :
    swapSlots (ys.map some ++ rest) i j = ((ys.set i ys[j]).set j ys[i]).map some ++ rest := by
  unfold swapSlots
  rw [getElem?_join_map_some ys rest j hj, getElem?_join_map_some ys rest i hi]
  rw [List.set_append_left _ _ (by simpa using hi), ← List.map_set]
  rw [List.set_append_left _ _ (by simpa using hj), ← List.map_set]

/-- the loop of `partition_dedup_by`: the initialised prefix stays a permutation of the original
elements; no effect other than the swaps -/
theorem dedupLoop_spec (cb : Nat → Elem → Elem → Option Bool) (xs : List Elem) (rest : List (Option Elem)) :
    ∀ (fuel : Nat) (ys : List Elem) (r wr calls : Nat) (w : W), ys.Perm xs → 1 ≤ wr → wr ≤ r →
      ∃ (ys' : List Elem) (wr' : Nat) (ok : Bool), dedupLoop cb xs.length fuel (ys.map some ++ rest) r wr calls w = (ys'.map some ++ rest, wr', w, ok) ∧
        ys'.Perm xs ∧ 1 ≤ wr' ∧ (wr' ≤ xs.length ∨ wr' ≤ r) := by
  intro fuel
  induction fuel with
  | zero => intro ys r wr calls w hp h1 h2; exact ⟨ys, wr, true, rfl, hp, h1, Or.inr h2⟩
  | succ f ih =>
    intro ys r wr calls w hp h1 h2
    have hlen : ys.length = xs.length := hp.length_eq
    by_cases hr : r < xs.length
    · have hr' : r < ys.length := by omega
      have hw' : wr - 1 < ys.length := by omega
      have ha := getElem?_join_map_some ys rest r hr'
      have hb := getElem?_join_map_some ys rest (wr - 1) hw'
      cases hcb : cb calls ys[r] ys[wr - 1] with
      | none =>
        refine ⟨ys, wr, false, ?_, hp, h1, Or.inl (by omega)⟩
        simp [dedupLoop, hr, ha, hb, hcb]
      | some same =>
        cases same with
        | true =>
          obtain ⟨ys', wr', ok, hrun, hp', h1', h2'⟩ := ih ys (r + 1) wr (calls + 1) w hp h1 (by omega)
          refine ⟨ys', wr', ok, ?_, hp', h1', ?_⟩
          · simp [dedupLoop, hr, ha, hb, hcb, hrun]
          · rcases h2' with h | h
            · exact Or.inl h
            · exact Or.inl (by omega)
        | false =>
          by_cases hne : r ≠ wr
          · have hwr : wr < ys.length := by omega
            have hsw := swapSlots_rep ys rest r wr hr' hwr
            have hperm : ((ys.set r ys[wr]).set wr ys[r]).Perm xs := (List.set_set_perm hr' hwr).trans hp
            obtain ⟨ys', wr', ok, hrun, hp', h1', h2'⟩ := ih _ (r + 1) (wr + 1) (calls + 1) w hperm (by omega) (by omega)
            refine ⟨ys', wr', ok, ?_, hp', h1', ?_⟩
            · rw [dedupLoop]
              simp only [hr, not_true_eq_false, ↓reduceIte, ha, hb, hcb, hne, ne_eq, not_false_eq_true, hsw]
              exact hrun
            · rcases h2' with h | h
              · exact Or.inl h
              · exact Or.inl (by omega)
          · have heq : r = wr := by omega
            obtain ⟨ys', wr', ok, hrun, hp', h1', h2'⟩ := ih ys (r + 1) (wr + 1) (calls + 1) w hp (by omega) (by omega)
            refine ⟨ys', wr', ok, ?_, hp', h1', ?_⟩
            · rw [dedupLoop]
              simp only [hr, not_true_eq_false, ↓reduceIte, ha, hb, hcb, hne]
              exact hrun
            · rcases h2' with h | h
              · exact Or.inl h
              · exact Or.inl (by omega)
    · refine ⟨ys, wr, true, ?_, hp, h1, Or.inr h2⟩
      simp [dedupLoop, hr]

theorem Own.of_perm {ins xs ys evs held} (h : Own ins xs evs held) (hp : ys.Perm xs) : Own ins ys evs held := by
  apply h.of_count
  intro a
  have : (ids ys).count a = (ids xs).count a := (hp.map (fun e : Elem => e.id)).count_eq a
  omega

theorem dedupBy_unfold (c : Cfg) (v : VS) (cb : Nat → Elem → Elem → Option Bool) (w : W) :
    dedupBy c v cb w =
      if v.len ≤ 1 then truncate c v v.len w
      else
        let r := dedupLoop cb v.len v.len v.slots 1 1 0 w
        if r.2.2.2 then truncate c { v with slots := r.1 } r.2.1 r.2.2.1
        else ({ v with slots := r.1 }, r.2.2.1, none) := by
  unfold dedupBy
  split
  · rfl
  · generalize dedupLoop cb v.len v.len v.slots 1 1 0 w = r
    rcases r with ⟨s, wr, w1, ok⟩
    cases ok <;> rfl

/-- `dedup_by` / `dedup_by_key` / `dedup` with *any* callback (any answers, any panic point, and
destructors that may panic in the final `truncate`): the ledger is preserved and nothing
leaks — at every moment the slice is a permutation of the original elements -/
theorem dedupBy_own {c : Cfg} {v : VS} {xs : List Elem} {ins held : List Nat} (hd : c.needsDrop = true)
    (h : RepB c v xs) (cb : Nat → Elem → Elem → Option Bool) (w : W) (ho : Own ins xs w.evs held) :
    ∃ ys, RepB c (dedupBy c v cb w).1 ys ∧ Own ins ys (dedupBy c v cb w).2.1.evs held := by
  rw [dedupBy_unfold]
  by_cases h1 : v.len ≤ 1
  · simp only [h1, ↓reduceIte]
    exact truncate_own hd h v.len w ho
  · simp only [h1, ↓reduceIte]
    rcases v with ⟨sl, l, cp⟩
    obtain ⟨rest, rfl, rfl⟩ := h.toRep.nf
    obtain ⟨ys', wr', ok, hrun, hp', _, _⟩ := dedupLoop_spec cb xs rest xs.length xs 1 1 0 w (List.Perm.refl _) (Nat.le_refl _) (Nat.le_refl _)
    simp only [hrun]
    have hlen : ys'.length = xs.length := hp'.length_eq
    have hrep : RepB c ⟨ys'.map some ++ rest, xs.length, cp⟩ ys' := by
      have := h.shrink (ys := ys') (rest' := rest) (by simp [hlen]) (by omega)
      rw [hlen] at this
      exact this
    have ho' : Own ins ys' w.evs held := ho.of_perm hp'
    cases ok with
    | true => exact truncate_own hd hrep wr' w ho'
    | false => exact ⟨ys', hrep, ho'⟩

end Bump.V
