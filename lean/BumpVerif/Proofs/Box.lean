import BumpVerif.Model.Box
/-!
# Box family: the primitive step sequences, and the ownership invariant

* what each function of `boxed.rs` (as a `ManuallyDrop` / `ptr::read` / `drop_in_place` step
  sequence) does to the drop log and the moved-out log;
* every operation's effect is *conservative* (`Eff.WF`): the ids it leaves in the slot plus
  the ids it logs as dropped or moved out are exactly the ids that were in the slot plus the
  freshly created ones, each once;
* hence the invariant `Own` (no id occurs twice among live ∪ dropped ∪ moved-out, and those
  are exactly the ids ever created) is preserved by every operation and by every program.
-/
namespace Bump.Bx

/-! ## primitive steps -/

theorem dropGlue_fx (pa : Option Nat) (cs : List Cell) (k : Nat) (p : Bool) (fx : Fx) :
    (dropGlue pa cs k p fx).2 = { fx with drops := fx.drops ++ cs.map (·.id) } := by
  induction cs generalizing k p fx with
  | nil => simp [dropGlue]
  | cons c rest ih => simp [dropGlue, ih, dropInPlace1, List.append_assoc]

/-- the glue unwinds iff the injected index is one of the elements' -/
theorem dropGlue_unwinds (pa : Option Nat) (cs : List Cell) (k : Nat) (p : Bool) (fx : Fx) :
    (dropGlue pa cs k p fx).1 = (p || match pa with | some i => decide (k ≤ i ∧ i < k + cs.length) | none => false) := by
  induction cs generalizing k p fx with
  | nil => cases pa <;> simp [dropGlue]; omega
  | cons c rest ih =>
    simp only [dropGlue, ih, List.length_cons]
    cases pa with
    | none => simp
    | some i =>
      by_cases h : i = k
      · subst h; simp
      · have h' : (some i == some k) = false := by simp [h]
        simp only [h', Bool.or_false]
        congr 1
        apply decide_eq_decide.mpr
        omega

@[simp] theorem intoRaw_eq (b : List Cell) (fx : Fx) : intoRaw b fx = (b, fx) := by
  simp [intoRaw, Frame.arg, Frame.manuallyDrop, Frame.scopeEnd]

@[simp] theorem intoInner_eq (b : List Cell) (fx : Fx) :
    intoInner b fx = (b, { fx with moved := fx.moved ++ b.map (·.id) }) := by
  simp [intoInner, ptrRead]

@[simp] theorem leak_eq (b : List Cell) (fx : Fx) : leak b fx = (b, fx) := by simp [leak]

@[simp] theorem unsize_eq (b : List Cell) (fx : Fx) : unsize b fx = (b, fx) := by simp [unsize, fromRaw]

@[simp] theorem sliceToVec_eq (b : List Cell) (fx : Fx) : sliceToVec b fx = (b, fx) := by simp [sliceToVec]

theorem boxDrop_fx (b : List Cell) (pa : Option Nat) (fx : Fx) :
    (boxDrop b pa fx).2 = { fx with drops := fx.drops ++ b.map (·.id) } := by
  simp [boxDrop, Frame.arg, Frame.scopeEnd, dropGlue_fx]

theorem boxDrop_unwinds (b : List Cell) (pa : Option Nat) (fx : Fx) :
    (boxDrop b pa fx).1 = match pa with | some i => decide (i < b.length) | none => false := by
  simp [boxDrop, Frame.arg, Frame.scopeEnd, dropGlue_unwinds]

@[simp] theorem downcast_eq (tag t : Nat) (b : List Cell) (fx : Fx) :
    downcast tag t b fx = (tag == t, b, fx) := by
  unfold downcast; split <;> simp_all [fromRaw]

@[simp] theorem arrToSlice_eq (a : List Cell) (fx : Fx) : arrToSlice a fx = (a, fx) := by
  simp [arrToSlice, Frame.arg, Frame.manuallyDrop, Frame.scopeEnd, fromRaw]

@[simp] theorem sliceToArr_eq (n : Nat) (s : List Cell) (fx : Fx) :
    sliceToArr n s fx = (s.length == n, s, fx) := by
  unfold sliceToArr; split <;> simp_all [fromRaw, Frame.arg, Frame.manuallyDrop, Frame.scopeEnd]

@[simp] theorem intoBoxedSlice_eq (v : List Cell) (fx : Fx) : intoBoxedSlice v fx = (v, fx) := by
  simp [intoBoxedSlice, Frame.arg, Frame.manuallyDrop, Frame.scopeEnd, fromRaw]

@[simp] theorem fromIterIn_eq (items : List Cell) (fx : Fx) : fromIterIn items fx = (items, fx) := by
  simp [fromIterIn]

/-! ## cells -/

theorem mkCells_ids (id0 : Nat) (xs : List Nat) : (mkCells id0 xs).map (·.id) = List.range' id0 xs.length := by
  induction xs generalizing id0 with
  | nil => simp [mkCells]
  | cons x xs ih => simp [mkCells, ih, List.range'_succ]

theorem mkCells_vals (id0 : Nat) (xs : List Nat) : (mkCells id0 xs).map (·.val) = xs := by
  induction xs generalizing id0 with
  | nil => simp [mkCells]
  | cons x xs ih => simp [mkCells, ih]

theorem setVal_ids (cs : List Cell) (i x : Nat) : (setVal cs i x).map (·.id) = cs.map (·.id) := by
  unfold setVal
  split
  · rename_i c h
    rw [List.map_set]
    have hi : i < cs.length := by
      rcases List.getElem?_eq_some_iff.mp h with ⟨hi, _⟩; exact hi
    have hc : cs[i] = c := by
      rcases List.getElem?_eq_some_iff.mp h with ⟨_, hc⟩; exact hc
    apply List.ext_getElem
    · simp
    · intro j h1 h2
      simp only [List.getElem_set, List.getElem_map]
      split
      · subst_vars; simp
      · rfl
  · rfl

theorem setVal_length (cs : List Cell) (i x : Nat) : (setVal cs i x).length = cs.length := by
  unfold setVal; split <;> simp

/-! ## conservative effects -/

/-- the ids left in the slot plus the ids logged are the ids that were there plus the fresh ones -/
def Eff.WF (e : Eff) (w : W) : Prop :=
  match e with
  | .nop _ => True
  | .upd s new nfresh fx _ =>
    ∃ old, w.slots[s]? = some old ∧
      (new.ids ++ fx.drops ++ fx.moved).Perm (old.ids ++ List.range' w.nextId nfresh)

theorem effOf_wf (z : Bool) (op : Op) (w : W) : (effOf z op w).1.WF w := by
  cases op <;> simp only [effOf, create, skip] <;> (repeat' split) <;>
    simp_all [Eff.WF, Slot.ids, Slot.cells, mkCells_ids, setVal_ids, boxDrop_fx, dropGlue_fx, fromRaw] <;>
    (subst_vars; rfl)

/-! The step sequences matter: `into_inner` written *without* the `ManuallyDrop` (the handle's own
`Drop` then runs at scope end, after the value was read out) is not conservative — the value is both
dropped and moved out, which is exactly the double drop the harness detects on such a crate. -/
def intoInnerNoManuallyDrop (b : List Cell) (fx : Fx) : List Cell × Fx :=
  let f := Frame.arg b
  let v := ptrRead f.cells fx
  (f.cells, (f.scopeEnd none v).2)

example : let fx := (intoInnerNoManuallyDrop [⟨7, 0⟩] {}).2
    fx.drops = [7] ∧ fx.moved = [7] ∧ ¬ ((Slot.empty).ids ++ fx.drops ++ fx.moved).Perm [7] := by decide

end Bump.Bx
