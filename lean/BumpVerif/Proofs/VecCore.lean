import BumpVerif.Proofs.VecRaw
/-!
# Core Vec methods refine their `List` specification (helper lemmas)

Everything is stated on the normal form of a represented vector,
`⟨xs.map some ++ rest, xs.length, cap⟩`.
-/
namespace Bump.V
open Bump

/-- normal form of a represented vector -/
theorem Rep.nf {c : Cfg} {s : List (Option Elem)} {l cp : Nat} {xs : List Elem} (h : Rep c ⟨s, l, cp⟩ xs) :
    ∃ rest, s = xs.map some ++ rest ∧ l = xs.length := by
  obtain ⟨rest, hs⟩ := h.slots
  exact ⟨rest, hs, h.len⟩

theorem need_ok (c : Cfg) (v : VS) (n : Nat) (w : W) (what : String) (h : n ≤ v.slots.length) :
    v.need c n w what = (v, w) := by
  simp [VS.need, padTo_of_le h, h]

/-- make room for one more slot after the represented prefix (free for zero-sized elements) -/
theorem need_room (c : Cfg) (pre rest : List (Option Elem)) (l cp : Nat) (w : W) (what : String)
    (hroom : c.esz ≠ 0 → rest ≠ []) :
    ∃ r rs, (VS.mk (pre ++ rest) l cp).need c (pre.length + 1) w what = (⟨pre ++ r :: rs, l, cp⟩, w) ∧
      (rest ≠ [] → rest = r :: rs) ∧ (rest = [] → c.esz = 0) := by
  cases rest with
  | nil =>
    have he : c.esz = 0 := by
      apply Classical.byContradiction; intro h; exact hroom h rfl
    exact ⟨none, [], by simp [VS.need, padTo, he], by simp, fun _ => he⟩
  | cons r rs =>
    exact ⟨r, rs, by simp [VS.need, padTo], by simp, by simp⟩

/-- `ptr::write` to the first slot after the represented prefix -/
theorem write_end (c : Cfg) (xs : List Elem) (rest : List (Option Elem)) (len cap : Nat) (e : Elem) (w : W)
    (hroom : c.esz ≠ 0 → rest ≠ []) :
    ∃ rest', (VS.mk (xs.map some ++ rest) len cap).write c xs.length e w
        = (VS.mk ((xs ++ [e]).map some ++ rest') len cap, w) ∧
      (rest ≠ [] → ((xs ++ [e]).map some ++ rest').length = (xs.map some ++ rest).length) := by
  obtain ⟨r, rs, hn, hr, _⟩ := need_room c (xs.map some) rest len cap w "write outside the buffer" hroom
  refine ⟨rs, ?_, ?_⟩
  · simp only [List.length_map] at hn
    simp [VS.write, hn]
  · intro hne; rw [hr hne]; simp

/-- `ptr::write` over an initialised slot -/
theorem write_in (c : Cfg) (xs : List Elem) (rest : List (Option Elem)) (len cap i : Nat) (e : Elem) (w : W)
    (hi : i < xs.length) :
    (VS.mk (xs.map some ++ rest) len cap).write c i e w = (VS.mk ((xs.set i e).map some ++ rest) len cap, w) := by
  have hle : i + 1 ≤ (xs.map some ++ rest).length := by simp; omega
  simp only [VS.write, need_ok c (VS.mk (xs.map some ++ rest) len cap) (i + 1) w _ hle]
  simp [hi, List.map_set]

theorem dropElem_evs (c : Cfg) (w : W) (e : Elem) :
    (dropElem c w e).1.evs = w.evs ++ (if c.needsDrop then [Ev.drop e.id] else []) ∧
    (dropElem c w e).1.bad = w.bad ∧ (dropElem c w e).1.nextId = w.nextId := by
  unfold dropElem; split <;> simp

theorem dropElem_noPanic (c : Cfg) (w : W) (e : Elem) (h : c.dropPanicAt = none) : (dropElem c w e).2 = false := by
  unfold dropElem; split <;> simp [h]

/-! ## push -/

theorem push_noGrow (c : Cfg) (xs : List Elem) (rest : List (Option Elem)) (cap : Nat) (e : Elem) (w : W)
    (hne : xs.length ≠ capOf c ⟨xs.map some ++ rest, xs.length, cap⟩) (hroom : c.esz ≠ 0 → rest ≠ []) :
    ∃ rest', push c ⟨xs.map some ++ rest, xs.length, cap⟩ e w
      = (⟨(xs ++ [e]).map some ++ rest', xs.length + 1, cap⟩, w, some ()) ∧
      (rest ≠ [] → ((xs ++ [e]).map some ++ rest').length = (xs.map some ++ rest).length) := by
  obtain ⟨rest', hw, hl⟩ := write_end c xs rest xs.length cap e w hroom
  refine ⟨rest', ?_, hl⟩
  simp only [push, hne, ↓reduceIte, hw]

/-- a represented vector with spare capacity has a slot after its prefix -/
theorem RepB.room {c : Cfg} {xs : List Elem} {rest : List (Option Elem)} {cap : Nat}
    (h : RepB c ⟨xs.map some ++ rest, xs.length, cap⟩ xs) (hlt : xs.length < capOf c ⟨xs.map some ++ rest, xs.length, cap⟩) :
    c.esz ≠ 0 → rest ≠ [] := by
  intro he hr
  have hb := h.buf he
  subst hr
  simp [capOf, he] at hlt hb
  omega

theorem RepB.of_nf {c : Cfg} {ys : List Elem} {rest : List (Option Elem)} {cap : Nat}
    (hbuf : c.esz ≠ 0 → (ys.map some ++ rest).length = cap) (hcap : cap < USIZE) (hhalf : c.esz ≠ 0 → cap * 2 < USIZE)
    (hz : c.esz = 0 → ys.length ≤ USIZE_MAX) : RepB c ⟨ys.map some ++ rest, ys.length, cap⟩ ys := by
  refine ⟨⟨⟨rest, rfl⟩, rfl, hbuf, ?_⟩, hcap, hhalf⟩
  by_cases he : c.esz = 0
  · simp [capOf, he]; exact hz he
  · have := hbuf he; simp [capOf, he]; simp at this; omega

/-- `push`: either the element is appended, or the growth was refused (capacity overflow /
allocation failure), the vector is unchanged and the element is dropped by the unwinding -/
theorem push_spec {c : Cfg} {v : VS} {xs : List Elem} (hc : CfgOK c) (h : RepB c v xs) (e : Elem) (w : W) :
    (∃ v', push c v e w = (v', w, some ()) ∧ RepB c v' (xs ++ [e])) ∨
    (push c v e w = (v, (dropElem c w e).1, none) ∧ v.len = capOf c v ∧ rawReserve c v v.len 1 = none) := by
  by_cases hfull : v.len = capOf c v
  · cases hr : rawReserve c v v.len 1 with
    | none => right; exact ⟨by rw [push, if_pos hfull, hr], hfull, rfl⟩
    | some v1 =>
      left
      obtain ⟨h1, hge, _⟩ := rawReserve_some hc h hr
      rcases v1 with ⟨s1, l1, cp1⟩
      obtain ⟨rest1, rfl, rfl⟩ := h1.toRep.nf
      have hlt : xs.length < capOf c ⟨xs.map some ++ rest1, xs.length, cp1⟩ := by have := h.len; omega
      obtain ⟨rest', hw, hl⟩ := write_end c xs rest1 xs.length cp1 e w (h1.room hlt)
      refine ⟨⟨(xs ++ [e]).map some ++ rest', xs.length + 1, cp1⟩, ?_, ?_⟩
      · rw [push, if_pos hfull, hr]; simp only [hw]
      · have := RepB.of_nf (c := c) (ys := xs ++ [e]) (rest := rest') (cap := cp1)
          (fun he => by rw [hl (h1.room hlt he)]; exact h1.buf he) h1.capLt h1.capHalf
          (fun he => by simp [capOf, he] at hlt; simp; omega)
        simpa using this
  · left
    rcases v with ⟨s, l, cp⟩
    obtain ⟨rest, rfl, rfl⟩ := h.toRep.nf
    have hlt : xs.length < capOf c ⟨xs.map some ++ rest, xs.length, cp⟩ := by
      have := h.lenCap; simp only at this hfull; omega
    obtain ⟨rest', hp, hl⟩ := push_noGrow c xs rest cp e w hfull (h.room hlt)
    refine ⟨_, hp, ?_⟩
    have := RepB.of_nf (c := c) (ys := xs ++ [e]) (rest := rest') (cap := cp)
      (fun he => by rw [hl (h.room hlt he)]; exact h.buf he) h.capLt h.capHalf
      (fun he => by simp [capOf, he] at hlt; simp; omega)
    simpa using this

/-! ## pop -/

theorem RepB.shrink {c : Cfg} {xs ys : List Elem} {rest rest' : List (Option Elem)} {cap : Nat}
    (h : RepB c ⟨xs.map some ++ rest, xs.length, cap⟩ xs)
    (hl : (ys.map some ++ rest').length = (xs.map some ++ rest).length) (hle : ys.length ≤ xs.length) :
    RepB c ⟨ys.map some ++ rest', ys.length, cap⟩ ys := by
  apply RepB.of_nf (fun he => by rw [hl]; exact h.buf he) h.capLt h.capHalf
  intro he
  have := h.lenCap; simp [capOf, he] at this; omega

/-- `pop`: the last element (moved out) or `None`; never panics -/
theorem pop_spec {c : Cfg} {v : VS} {xs : List Elem} (h : RepB c v xs) (w : W) :
    (xs = [] ∧ pop v w = (v, w, none)) ∨
    (∃ (hne : xs ≠ []) (v' : VS), pop v w = (v', w.moved (xs.getLast hne), some (xs.getLast hne)) ∧ RepB c v' xs.dropLast) := by
  rcases v with ⟨s, l, cp⟩
  obtain ⟨rest, rfl, rfl⟩ := h.toRep.nf
  by_cases hne : xs = []
  · left; subst hne; simp [pop]
  · right
    refine ⟨hne, ⟨xs.map some ++ rest, xs.length - 1, cp⟩, ?_, ?_⟩
    · have hpos : xs.length ≠ 0 := by simpa using hne
      have hlt : xs.length - 1 < xs.length := by omega
      have hr := read_map_some xs rest (xs.length - 1) hlt (xs.length - 1) cp
      simp only [pop, hpos, ↓reduceIte, hr]
      simp [List.getLast_eq_getElem]
    · have hx : xs = xs.dropLast ++ [xs.getLast hne] := (List.dropLast_concat_getLast hne).symm
      have hs : xs.map some ++ rest = xs.dropLast.map some ++ (some (xs.getLast hne) :: rest) := by
        conv => lhs; rw [hx]
        simp
      have hl : xs.length - 1 = xs.dropLast.length := by simp
      rw [hs, hl]
      apply h.shrink (by rw [← hs]) (by simp)

/-! ## insert -/

/-- memmove up by one slot, then write the hole -/
theorem copy_up_set (A B C : List (Option Elem)) (c x : Option Elem) :
    (copySlots (A ++ (B ++ c :: C)) A.length (A.length + 1) B.length).set A.length x = A ++ (x :: (B ++ C)) := by
  have h1 : A.length + 1 + B.length = (A ++ (B ++ [c])).length := by simp; omega
  have h2 : A ++ (B ++ c :: C) = (A ++ (B ++ [c])) ++ C := by simp
  simp only [copySlots]
  rw [List.drop_left, h1, h2, List.drop_left]
  rw [← h2]
  cases B with
  | nil => simp [List.take_append, List.take_of_length_le]
  | cons b B => simp [List.take_append, List.take_of_length_le]

theorem split_at (xs : List Elem) (i : Nat) :
    xs.map some = (xs.take i).map some ++ (xs.drop i).map some := by
  rw [← List.map_append, List.take_append_drop]

/-- the slot steps of `insert` once there is room: shift the tail up, write the hole -/
theorem insert_steps (c : Cfg) (xs : List Elem) (r : Option Elem) (rs : List (Option Elem)) (l cp i : Nat) (e : Elem) (w : W)
    (hi : i ≤ xs.length) :
    let v1 : VS := ⟨xs.map some ++ r :: rs, l, cp⟩
    let (v2, w2) := v1.copy c i (i + 1) (xs.length - i) w
    v2.write c i e w2 = (⟨(xs.take i ++ e :: xs.drop i).map some ++ rs, l, cp⟩, w) := by
  have hA : ((xs.take i).map some).length = i := by simp; omega
  have hB : ((xs.drop i).map some).length = xs.length - i := by simp
  have hset := copy_up_set ((xs.take i).map some) ((xs.drop i).map some) rs r (some e)
  rw [hA, hB] at hset
  have hlen : (xs.map some ++ r :: rs).length = xs.length + 1 + rs.length := by simp; omega
  by_cases hn : xs.length - i = 0
  · -- inserting at the end: nothing to shift
    have hil : i = xs.length := by omega
    subst hil
    have hle : xs.length + 1 ≤ (xs.map some ++ r :: rs).length := by omega
    simp only [VS.copy, hn, ↓reduceIte, VS.write, need_ok c (VS.mk (xs.map some ++ r :: rs) l cp) (xs.length + 1) w _ hle]
    simp
  · have hmax : max i (i + 1) + (xs.length - i) = xs.length + 1 := by omega
    have hle : max i (i + 1) + (xs.length - i) ≤ (xs.map some ++ r :: rs).length := by omega
    simp only [VS.copy, hn, ↓reduceIte, need_ok c (VS.mk (xs.map some ++ r :: rs) l cp) _ w _ hle]
    have hle2 : i + 1 ≤ (copySlots (xs.map some ++ r :: rs) i (i + 1) (xs.length - i)).length := by
      simp [copySlots]; omega
    simp only [VS.write, need_ok c (VS.mk (copySlots (xs.map some ++ r :: rs) i (i + 1) (xs.length - i)) l cp) (i + 1) w _ hle2]
    rw [split_at xs i, List.append_assoc, hset]
    simp

/-- zero-sized elements: one more (virtual) uninitialised slot changes nothing -/
theorem need_pad (c : Cfg) (s : List (Option Elem)) (l cp n : Nat) (w : W) (what : String) (he : c.esz = 0)
    (hn : s.length + 1 ≤ n) :
    (VS.mk s l cp).need c n w what = (VS.mk (s ++ [none]) l cp).need c n w what := by
  have : n - s.length = (n - (s.length + 1)) + 1 := by omega
  simp [VS.need, he, padTo, this, List.replicate_succ]

theorem write_pad (c : Cfg) (s : List (Option Elem)) (l cp i : Nat) (e : Elem) (w : W) (he : c.esz = 0)
    (hi : s.length ≤ i) :
    (VS.mk s l cp).write c i e w = (VS.mk (s ++ [none]) l cp).write c i e w := by
  simp only [VS.write, need_pad c s l cp (i + 1) w _ he (by omega)]

theorem copy_pad (c : Cfg) (s : List (Option Elem)) (l cp src dst n : Nat) (w : W) (he : c.esz = 0)
    (hn : n = 0 ∨ s.length + 1 ≤ max src dst + n) :
    (VS.mk s l cp).copy c src dst n w = (if n = 0 then (VS.mk s l cp, w) else (VS.mk (s ++ [none]) l cp).copy c src dst n w) := by
  by_cases h0 : n = 0
  · simp [VS.copy, h0]
  · have hn' : s.length + 1 ≤ max src dst + n := by cases hn with | inl h => exact absurd h h0 | inr h => exact h
    simp only [VS.copy, h0, ↓reduceIte, need_pad c s l cp _ w _ he hn']

/-- `insert` with the pair matches written as projections -/
theorem insert_unfold (c : Cfg) (v : VS) (i : Nat) (e : Elem) (w : W) :
    insert c v i e w =
      if i > v.len then (v, (dropElem c w e).1, none)
      else match (if v.len = capOf c v then rawReserve c v v.len 1 else some v) with
        | none => (v, (dropElem c w e).1, none)
        | some v1 =>
          let p := v1.copy c i (i + 1) (v.len - i) w
          let q := p.1.write c i e p.2
          ({ q.1 with len := v.len + 1 }, q.2, some ()) := rfl

/-- `insert`: `index > len` panics (the element is dropped by the unwinding), so does a refused
growth; otherwise the element ends up at `index` -/
theorem insert_spec {c : Cfg} {v : VS} {xs : List Elem} (hc : CfgOK c) (h : RepB c v xs) (i : Nat) (e : Elem) (w : W) :
    (i ≤ xs.length ∧ ∃ v', insert c v i e w = (v', w, some ()) ∧ RepB c v' (xs.take i ++ e :: xs.drop i)) ∨
    (insert c v i e w = (v, (dropElem c w e).1, none) ∧
      (xs.length < i ∨ (v.len = capOf c v ∧ rawReserve c v v.len 1 = none))) := by
  have hlen := h.len
  rw [insert_unfold]
  by_cases hi : i > v.len
  · right; exact ⟨by simp [hi], Or.inl (by omega)⟩
  · -- after the optional growth there is room for one more slot
    have key : ∀ v1 : VS, RepB c v1 xs → v1.len < capOf c v1 →
        ∃ v', (let p := v1.copy c i (i + 1) (v.len - i) w
               let q := p.1.write c i e p.2
               (({ q.1 with len := v.len + 1 } : VS), q.2, some ())) = (v', w, some ()) ∧ RepB c v' (xs.take i ++ e :: xs.drop i) := by
      intro v1 h1 hlt
      rcases v1 with ⟨s1, l1, cp1⟩
      obtain ⟨rest1, rfl, rfl⟩ := h1.toRep.nf
      have hroom := h1.room hlt
      have hil : i ≤ xs.length := by omega
      have hlen' : (xs.take i ++ e :: xs.drop i).length = xs.length + 1 := by simp; omega
      -- reduce to a buffer that has a slot after the prefix
      have red : ∃ r rs, (rest1 ≠ [] → rest1 = r :: rs) ∧
          (let p := (VS.mk (xs.map some ++ rest1) xs.length cp1).copy c i (i + 1) (xs.length - i) w
           p.1.write c i e p.2) =
          (let p := (VS.mk (xs.map some ++ r :: rs) xs.length cp1).copy c i (i + 1) (xs.length - i) w
           p.1.write c i e p.2) := by
        cases rest1 with
        | cons r rs => exact ⟨r, rs, fun _ => rfl, rfl⟩
        | nil =>
          have he : c.esz = 0 := by
            apply Classical.byContradiction; intro hne; exact hroom hne rfl
          refine ⟨none, [], by simp, ?_⟩
          rw [List.append_nil, copy_pad c _ _ _ _ _ _ w he (by simp; omega)]
          by_cases h0 : xs.length - i = 0
          · have : i = xs.length := by omega
            subst this
            simp only [h0, ↓reduceIte, VS.copy]
            exact write_pad c _ _ _ _ e w he (by simp)
          · simp [h0]
      obtain ⟨r, rs, hr, hred⟩ := red
      have hst := insert_steps c xs r rs xs.length cp1 i e w hil
      simp only at hst hred
      rw [hlen]
      refine ⟨⟨(xs.take i ++ e :: xs.drop i).map some ++ rs, xs.length + 1, cp1⟩, ?_, ?_⟩
      · simp only [hred, hst]
      · rw [← hlen']
        apply RepB.of_nf _ h1.capLt h1.capHalf
        · intro he; simp [capOf, he] at hlt; omega
        · intro he
          have hb := h1.buf he
          rw [hr (hroom he)] at hb
          simp at hb ⊢; omega
    by_cases hfull : v.len = capOf c v
    · cases hr : rawReserve c v v.len 1 with
      | none =>
        right
        refine ⟨?_, Or.inr ⟨hfull, rfl⟩⟩
        rw [if_neg hi, if_pos hfull]
      | some v1 =>
        left
        obtain ⟨h1, hge, _⟩ := rawReserve_some hc h hr
        have hl1 : v1.len = xs.length := h1.len
        obtain ⟨v', hv', hrep⟩ := key v1 h1 (by omega)
        refine ⟨by omega, v', ?_, hrep⟩
        rw [if_neg hi, if_pos hfull]
        exact hv'
    · left
      have hlt : v.len < capOf c v := by have := h.lenCap; omega
      obtain ⟨v', hv', hrep⟩ := key v h hlt
      refine ⟨by omega, v', ?_, hrep⟩
      rw [if_neg hi, if_neg hfull]
      exact hv'

/-! ## remove / swap_remove -/

theorem drop_len_cons (B C : List (Option Elem)) (a : Option Elem) :
    ∃ st, (a :: (B ++ C)).drop B.length = st :: C := by
  induction B generalizing a with
  | nil => exact ⟨a, rfl⟩
  | cons b B ih => obtain ⟨st, h⟩ := ih b; exact ⟨st, by simpa using h⟩

/-- memmove down by one slot: the hole disappears, a stale copy of the last moved slot stays -/
theorem copy_down (A B C : List (Option Elem)) (a : Option Elem) :
    ∃ st, copySlots (A ++ a :: (B ++ C)) (A.length + 1) A.length B.length = A ++ (B ++ st :: C) := by
  obtain ⟨st, hst⟩ := drop_len_cons B C a
  refine ⟨st, ?_⟩
  have h1 : A ++ a :: (B ++ C) = (A ++ [a]) ++ (B ++ C) := by simp
  have h2 : A.length + 1 = (A ++ [a]).length := by simp
  simp only [copySlots]
  rw [List.take_left, List.drop_length_add_append, List.drop_length_add_append, hst]
  simp

theorem remove_unfold (c : Cfg) (v : VS) (i : Nat) (w : W) :
    remove c v i w =
      if ¬ i < v.len then (v, w, none)
      else match v.read i with
        | none => (v, w.flag "remove: read of an uninitialised slot", none)
        | some ret =>
          let p := v.copy c (i + 1) i (v.len - i - 1) w
          ({ p.1 with len := v.len - 1 }, p.2.moved ret, some ret) := rfl

theorem take_drop_succ (xs : List Elem) (i : Nat) (h : i < xs.length) :
    xs = xs.take i ++ xs[i] :: xs.drop (i + 1) := by
  rw [List.getElem_cons_drop h, List.take_append_drop]

/-- `remove`: `index ≥ len` panics and changes nothing; otherwise the element is moved out and
the tail shifts down -/
theorem remove_spec {c : Cfg} {v : VS} {xs : List Elem} (h : RepB c v xs) (i : Nat) (w : W) :
    (∃ (hi : i < xs.length) (v' : VS), remove c v i w = (v', w.moved xs[i], some xs[i]) ∧ RepB c v' (xs.eraseIdx i)) ∨
    (xs.length ≤ i ∧ remove c v i w = (v, w, none)) := by
  rcases v with ⟨s, l, cp⟩
  obtain ⟨rest, rfl, rfl⟩ := h.toRep.nf
  rw [remove_unfold]
  by_cases hi : i < xs.length
  · left
    have hr := read_map_some xs rest i hi xs.length cp
    have hsplit : xs.map some ++ rest = (xs.take i).map some ++ some xs[i] :: ((xs.drop (i + 1)).map some ++ rest) := by
      have hx := take_drop_succ xs i hi
      calc xs.map some ++ rest = (xs.take i ++ xs[i] :: xs.drop (i + 1)).map some ++ rest := by rw [← hx]
        _ = _ := by simp only [List.map_append, List.map_cons, List.append_assoc, List.cons_append]
    have hA : ((xs.take i).map some).length = i := by simp; omega
    have hB : ((xs.drop (i + 1)).map some).length = xs.length - i - 1 := by simp; omega
    obtain ⟨st, hcd⟩ := copy_down ((xs.take i).map some) ((xs.drop (i + 1)).map some) rest (some xs[i])
    rw [hA, hB, ← hsplit] at hcd
    have hcopy : (VS.mk (xs.map some ++ rest) xs.length cp).copy c (i + 1) i (xs.length - i - 1) w
        = (⟨(xs.eraseIdx i).map some ++ st :: rest, xs.length, cp⟩, w) := by
      by_cases hn : xs.length - i - 1 = 0
      · -- removing the last element: nothing to shift, the slot itself becomes the stale one
        have hil : i + 1 = xs.length := by omega
        simp only [VS.copy, hn, ↓reduceIte]
        have : xs.drop (i + 1) = [] := by simp; omega
        simp [copySlots, this, hn] at hcd
        rw [List.eraseIdx_eq_take_drop_succ, this]
        simp [hcd]
      · have hle : max (i + 1) i + (xs.length - i - 1) ≤ (xs.map some ++ rest).length := by simp; omega
        simp only [VS.copy, hn, ↓reduceIte, need_ok c (VS.mk (xs.map some ++ rest) xs.length cp) _ w _ hle, hcd]
        rw [List.eraseIdx_eq_take_drop_succ]; simp
    refine ⟨hi, ⟨(xs.eraseIdx i).map some ++ st :: rest, xs.length - 1, cp⟩, ?_, ?_⟩
    · simp only [hi, not_true_eq_false, ↓reduceIte, hr, hcopy]
    · have hl : (xs.eraseIdx i).length = xs.length - 1 := by simp [List.length_eraseIdx, hi]
      rw [← hl]
      apply h.shrink (by simp [hl]; omega) (by omega)
  · right
    exact ⟨by omega, by simp [hi]⟩

theorem swapRemove_unfold (c : Cfg) (v : VS) (i : Nat) (w : W) :
    swapRemove c v i w =
      if ¬ i < v.len then (v, w, none)
      else match v.read (v.len - 1) with
        | none => (v, w.flag "swap_remove: read of an uninitialised slot", none)
        | some last =>
          match ({ v with len := v.len - 1 } : VS).read i with
          | none => ({ v with len := v.len - 1 }, w.flag "swap_remove: read of an uninitialised slot", none)
          | some old =>
            let p := ({ v with len := v.len - 1 } : VS).write c i last w
            (p.1, p.2.moved old, some old) := rfl

/-- `swap_remove`: `index ≥ len` panics and changes nothing; otherwise the element is moved out
and replaced by the last one -/
theorem swapRemove_spec {c : Cfg} {v : VS} {xs : List Elem} (h : RepB c v xs) (i : Nat) (w : W) :
    (∃ (hi : i < xs.length) (v' : VS), swapRemove c v i w = (v', w.moved xs[i], some xs[i]) ∧
        RepB c v' ((xs.set i (xs.getLast (by intro h0; simp [h0] at hi))).dropLast)) ∨
    (xs.length ≤ i ∧ swapRemove c v i w = (v, w, none)) := by
  rcases v with ⟨s, l, cp⟩
  obtain ⟨rest, rfl, rfl⟩ := h.toRep.nf
  rw [swapRemove_unfold]
  by_cases hi : i < xs.length
  · left
    have hne : xs ≠ [] := by intro h0; simp [h0] at hi
    have hlast := read_map_some xs rest (xs.length - 1) (by omega) xs.length cp
    have hold := read_map_some xs rest i hi (xs.length - 1) cp
    have hw := write_in c xs rest (xs.length - 1) cp i (xs.getLast hne) w hi
    have hgl : xs[xs.length - 1]'(by omega) = xs.getLast hne := by simp [List.getLast_eq_getElem]
    refine ⟨hi, ⟨(xs.set i (xs.getLast hne)).map some ++ rest, xs.length - 1, cp⟩, ?_, ?_⟩
    · simp only [hi, not_true_eq_false, ↓reduceIte, hlast, hold, hgl, hw]
    · let ys := xs.set i (xs.getLast hne)
      have hys : ys ≠ [] := by simp [ys, hne]
      have hx : ys = ys.dropLast ++ [ys.getLast hys] := (List.dropLast_concat_getLast hys).symm
      have hs : ys.map some ++ rest = ys.dropLast.map some ++ (some (ys.getLast hys) :: rest) := by
        conv => lhs; rw [hx]
        simp
      have hl : xs.length - 1 = ys.dropLast.length := by simp [ys]
      show RepB c ⟨ys.map some ++ rest, xs.length - 1, cp⟩ ys.dropLast
      rw [hs, hl]
      apply h.shrink (by rw [← hs]; simp [ys]) (by simp [ys])
  · right
    exact ⟨by omega, by simp [hi]⟩

/-! ## truncate / clear -/

/-- the `drop` events of a list of elements (none for plain data) -/
def dropEvs (c : Cfg) (es : List Elem) : List Ev := if c.needsDrop then es.map (fun e => Ev.drop e.id) else []

theorem dropEvs_append (c : Cfg) (a b : List Elem) : dropEvs c (a ++ b) = dropEvs c a ++ dropEvs c b := by
  unfold dropEvs; split <;> simp

theorem dropElem_evs' (c : Cfg) (w : W) (e : Elem) : (dropElem c w e).1.evs = w.evs ++ dropEvs c [e] := by
  rw [(dropElem_evs c w e).1]; simp [dropEvs]

theorem take_drop_last (xs : List Elem) (l j : Nat) (hl : l ≤ xs.length) (hj : j + 1 ≤ l) :
    (xs.take l).drop (l - (j + 1)) = (xs.take (l - 1)).drop (l - 1 - j) ++ [xs[l - 1]'(by omega)] := by
  have h1 : xs.take l = xs.take (l - 1) ++ [xs[l - 1]'(by omega)] := by
    have : l = (l - 1) + 1 := by omega
    conv => lhs; rw [this]
    rw [List.take_succ_eq_append_getElem (by omega)]
  rw [h1, List.drop_append_of_le_length (by simp; omega)]
  congr 2; omega

/-- the loop of `truncate`: `j ≤ k` elements are dropped from the back, in reverse order; fewer
than `k` only when a destructor panicked (and then the guard stores the decremented length) -/
theorem truncLoop_spec (c : Cfg) (xs : List Elem) (rest : List (Option Elem)) :
    ∀ (k l : Nat) (w : W), l ≤ xs.length → k ≤ l →
      ∃ (j : Nat) (w' : W) (p : Bool), truncLoop c (xs.map some ++ rest) k l w = (l - j, w', p) ∧ j ≤ k ∧
        w'.evs = w.evs ++ dropEvs c ((xs.take l).drop (l - j)).reverse ∧ w'.bad = w.bad ∧ w'.nextId = w.nextId ∧
        (p = false → j = k) ∧ (c.dropPanicAt = none → p = false) := by
  intro k
  induction k with
  | zero =>
    intro l w hl hk
    exact ⟨0, w, false, by simp [truncLoop], Nat.le_refl _, by simp [dropEvs], rfl, rfl, fun _ => rfl, fun _ => rfl⟩
  | succ k ih =>
    intro l w hl hk
    have hlt : l - 1 < xs.length := by omega
    have hread : ((xs.map some ++ rest)[l - 1]?).join = some (xs[l - 1]'hlt) := by
      simp [List.getElem?_append_left, hlt]
    obtain ⟨hev, hbad, hnid⟩ := dropElem_evs c w (xs[l - 1]'hlt)
    cases hp : (dropElem c w (xs[l - 1]'hlt)).2 with
    | true =>
      refine ⟨1, (dropElem c w (xs[l - 1]'hlt)).1, true, ?_, by omega, ?_, hbad, hnid, by simp, ?_⟩
      · simp only [truncLoop, hread]
        simp [hp]
      · rw [dropElem_evs']
        have := take_drop_last xs l 0 hl (by omega)
        simp only [Nat.zero_add, Nat.sub_zero] at this
        rw [this]; simp
      · intro hn; rw [dropElem_noPanic c w _ hn] at hp; cases hp
    | false =>
      obtain ⟨j, w', p, hrun, hj, hevs, hb, hn, hpk, hnp⟩ := ih (l - 1) (dropElem c w (xs[l - 1]'hlt)).1 (by omega) (by omega)
      refine ⟨j + 1, w', p, ?_, by omega, ?_, by rw [hb, hbad], by rw [hn, hnid], fun h => by rw [hpk h], hnp⟩
      · simp only [truncLoop, hread]
        simp only [hp, Bool.false_eq_true, ↓reduceIte, hrun]
        congr 1; omega
      · rw [hevs, dropElem_evs', List.append_assoc, ← dropEvs_append]
        rw [take_drop_last xs l j hl (by omega)]
        simp

/-- `truncate(n)`: keeps the first `n` elements, drops the others from the back.  If a
destructor panics the length covers exactly what has not been dropped yet. -/
theorem truncate_spec {c : Cfg} {v : VS} {xs : List Elem} (h : RepB c v xs) (n : Nat) (w : W) :
    ∃ (m : Nat) (v' : VS) (w' : W) (r : Option Unit), truncate c v n w = (v', w', r) ∧
      min n xs.length ≤ m ∧ m ≤ xs.length ∧ RepB c v' (xs.take m) ∧
      w'.evs = w.evs ++ dropEvs c (xs.drop m).reverse ∧ w'.bad = w.bad ∧ w'.nextId = w.nextId ∧
      (r = some () → m = min n xs.length) ∧ (c.dropPanicAt = none → r = some ()) := by
  rcases v with ⟨s, l, cp⟩
  obtain ⟨rest, rfl, rfl⟩ := h.toRep.nf
  obtain ⟨j, w', p, hrun, hj, hevs, hb, hn, hpk, hnp⟩ :=
    truncLoop_spec c xs rest (xs.length - n) xs.length w (Nat.le_refl _) (by omega)
  have hm : (xs.take (xs.length - j)).length = xs.length - j := by simp
  refine ⟨xs.length - j, ⟨xs.map some ++ rest, xs.length - j, cp⟩, w', if p then none else some (), ?_, by omega, by omega, ?_, ?_, hb, hn, ?_, ?_⟩
  · simp only [truncate, hrun]
  · have hs : xs.map some ++ rest = (xs.take (xs.length - j)).map some ++ ((xs.drop (xs.length - j)).map some ++ rest) := by
      rw [← List.append_assoc, ← List.map_append, List.take_append_drop]
    rw [hs]
    have := h.shrink (ys := xs.take (xs.length - j)) (rest' := (xs.drop (xs.length - j)).map some ++ rest)
      (by rw [← hs]) (by simp)
    rw [hm] at this
    exact this
  · rw [hevs]; simp
  · intro hr
    cases p with
    | true => simp at hr
    | false => have := hpk rfl; omega
  · intro hnone; rw [hnp hnone]; rfl

end Bump.V
