import BumpVerif.Proofs.BoxOwn
/-!
# Box family: what each operation does (post-conditions on the model of boxed.rs)
-/
namespace Bump.Bx

/-- an operation's observable outcome: new world, result text, allocator events -/
def outcome (z : Bool) (env : Env) (op : Op) (w : W) : W × String × Nat :=
  (step z env op w, (effOf z op w).2, evtOf env (effOf z op w).1)

/-- the world differs from `w` only in slot `s` and in the two logs -/
structure OnlySlot (w w' : W) (s : Nat) (new : Slot) (drops moved : List Nat) : Prop where
  slots : w'.slots = w.slots.set s new
  drops : w'.drops = w.drops ++ drops
  moved : w'.moved = w.moved ++ moved
  created : w'.created = w.created
  nextId : w'.nextId = w.nextId
  acct : w'.acct = w.acct

/-- the same without a statement about the arena (operations of `Vec`, which may consult the arena) -/
structure OnlySlotV (w w' : W) (s : Nat) (new : Slot) (drops moved : List Nat) : Prop where
  slots : w'.slots = w.slots.set s new
  drops : w'.drops = w.drops ++ drops
  moved : w'.moved = w.moved ++ moved
  created : w'.created = w.created
  nextId : w'.nextId = w.nextId

/-! ## dropping -/

/-- `box_drop`: dropping a `Box<T>` runs the value's destructor exactly once and leaves the arena alone -/
theorem box_drop (z : Bool) (env : Env) (w : W) (s tag : Nat) (c : Cell) (pa : Option Nat)
    (h : w.slots[s]? = some (.box tag c)) :
    OnlySlot w (step z env (.drop s pa) w) s .empty [c.id] [] ∧ evtOf env (effOf z (.drop s pa) w).1 = 0 ∧
    (effOf z (.drop s pa) w).2 = (if pa = some 0 then "panic" else "ok") := by
  refine ⟨⟨?_, ?_, ?_, ?_, ?_, ?_⟩, ?_, ?_⟩ <;>
    simp [step, effOf, h, applyEff, Slot.cat, Slot.cells, boxDrop_fx, boxDrop_unwinds, evtOf, Eff.alloc]
  cases pa <;> simp

/-- Dropping a boxed slice runs every element's destructor once, front to back — also when the
destructor of element `k` panics (drop glue of `[T]` goes on with the remaining elements). -/
theorem slice_drop (z : Bool) (env : Env) (w : W) (s : Nat) (cs : List Cell) (cap : Option Nat) (pa : Option Nat)
    (h : w.slots[s]? = some (.slice cs cap)) :
    OnlySlot w (step z env (.drop s pa) w) s .empty (cs.map (·.id)) [] ∧ evtOf env (effOf z (.drop s pa) w).1 = 0 ∧
    (effOf z (.drop s pa) w).2 = (match pa with | some k => if k < cs.length then "panic" else "ok" | none => "ok") := by
  refine ⟨⟨?_, ?_, ?_, ?_, ?_, ?_⟩, ?_, ?_⟩ <;>
    simp [step, effOf, h, applyEff, Slot.cat, Slot.cells, boxDrop_fx, boxDrop_unwinds, evtOf, Eff.alloc]
  cases pa <;> simp

theorem arr_drop (z : Bool) (env : Env) (w : W) (s : Nat) (cs : List Cell) (cap : Option Nat) (pa : Option Nat)
    (h : w.slots[s]? = some (.arr cs cap)) :
    OnlySlot w (step z env (.drop s pa) w) s .empty (cs.map (·.id)) [] ∧ evtOf env (effOf z (.drop s pa) w).1 = 0 := by
  refine ⟨⟨?_, ?_, ?_, ?_, ?_, ?_⟩, ?_⟩ <;>
    simp [step, effOf, h, applyEff, Slot.cat, Slot.cells, boxDrop_fx, evtOf, Eff.alloc]

/-- pinned boxes, `dyn Any` boxes and boxed closures drop their one value once -/
theorem single_drop (z : Bool) (env : Env) (w : W) (s : Nat) (sl : Slot) (c : Cell) (pa : Option Nat)
    (h : w.slots[s]? = some sl) (hk : sl = .pin c ∨ (∃ t, sl = .any t c) ∨ sl = .fn c) :
    OnlySlot w (step z env (.drop s pa) w) s .empty [c.id] [] ∧ evtOf env (effOf z (.drop s pa) w).1 = 0 := by
  rcases hk with rfl | ⟨t, rfl⟩ | rfl <;>
  (refine ⟨⟨?_, ?_, ?_, ?_, ?_, ?_⟩, ?_⟩ <;>
    simp [step, effOf, h, applyEff, Slot.cat, Slot.cells, boxDrop_fx, evtOf, Eff.alloc])

/-- dropping an arena `Vec` drops the initialised prefix once, in order; only here does the arena's
accounting move (RawVec gives its block back) -/
theorem vec_drop (z : Bool) (env : Env) (w : W) (s : Nat) (cs : List Cell) (cap : Nat) (pa : Option Nat)
    (h : w.slots[s]? = some (.vec cs cap)) :
    let w' := step z env (.drop s pa) w
    w'.slots = w.slots.set s .empty ∧ w'.drops = w.drops ++ cs.map (·.id) ∧ w'.moved = w.moved := by
  simp [step, effOf, h, applyEff, dropGlue_fx]

/-! ## transfers: no destructor runs, nothing is duplicated -/

theorem into_inner_spec (z : Bool) (env : Env) (w : W) (s tag : Nat) (c : Cell)
    (h : w.slots[s]? = some (.box tag c)) :
    OnlySlot w (step z env (.intoInner s) w) s .empty [] [c.id] ∧ evtOf env (effOf z (.intoInner s) w).1 = 0 ∧
    (effOf z (.intoInner s) w).2 = "ok " ++ showCells z [c] := by
  refine ⟨⟨?_, ?_, ?_, ?_, ?_, ?_⟩, ?_, ?_⟩ <;> simp [step, effOf, h, applyEff, evtOf, Eff.alloc]

theorem into_raw_spec (z : Bool) (env : Env) (w : W) (s tag : Nat) (c : Cell)
    (h : w.slots[s]? = some (.box tag c)) :
    OnlySlot w (step z env (.intoRaw s) w) s (.raw tag c) [] [] ∧ evtOf env (effOf z (.intoRaw s) w).1 = 0 := by
  refine ⟨⟨?_, ?_, ?_, ?_, ?_, ?_⟩, ?_⟩ <;> simp [step, effOf, h, applyEff, evtOf, Eff.alloc]

theorem into_raw_slice_spec (z : Bool) (env : Env) (w : W) (s : Nat) (cs : List Cell) (cap : Option Nat)
    (h : w.slots[s]? = some (.slice cs cap)) :
    OnlySlot w (step z env (.intoRaw s) w) s (.rawSlice cs cap) [] [] ∧ evtOf env (effOf z (.intoRaw s) w).1 = 0 := by
  refine ⟨⟨?_, ?_, ?_, ?_, ?_, ?_⟩, ?_⟩ <;> simp [step, effOf, h, applyEff, evtOf, Eff.alloc]

theorem from_raw_spec (z : Bool) (env : Env) (w : W) (s tag : Nat) (c : Cell)
    (h : w.slots[s]? = some (.raw tag c) ∨ w.slots[s]? = some (.leaked tag c)) :
    OnlySlot w (step z env (.fromRaw s) w) s (.box tag c) [] [] ∧ evtOf env (effOf z (.fromRaw s) w).1 = 0 := by
  rcases h with h | h <;>
  (refine ⟨⟨?_, ?_, ?_, ?_, ?_, ?_⟩, ?_⟩ <;> simp [step, effOf, h, applyEff, evtOf, Eff.alloc, fromRaw])

theorem from_raw_slice_spec (z : Bool) (env : Env) (w : W) (s : Nat) (cs : List Cell) (cap : Option Nat)
    (h : w.slots[s]? = some (.rawSlice cs cap) ∨ w.slots[s]? = some (.leakedSlice cs cap)) :
    OnlySlot w (step z env (.fromRaw s) w) s (.slice cs cap) [] [] ∧ evtOf env (effOf z (.fromRaw s) w).1 = 0 := by
  rcases h with h | h <;>
  (refine ⟨⟨?_, ?_, ?_, ?_, ?_, ?_⟩, ?_⟩ <;> simp [step, effOf, h, applyEff, evtOf, Eff.alloc, fromRaw])

/-- `into_raw` then `from_raw` gives the box back -/
theorem raw_round_trip (z : Bool) (e1 e2 : Env) (w : W) (s tag : Nat) (c : Cell)
    (h : w.slots[s]? = some (.box tag c)) (hs : s < w.slots.length) :
    OnlySlot w (step z e2 (.fromRaw s) (step z e1 (.intoRaw s) w)) s (.box tag c) [] [] := by
  have h1 := (into_raw_spec z e1 w s tag c h).1
  have hget : (step z e1 (.intoRaw s) w).slots[s]? = some (.raw tag c) := by
    rw [h1.slots]; simp [hs]
  have h2 := (from_raw_spec z e2 _ s tag c (Or.inl hget)).1
  refine ⟨?_, ?_, ?_, ?_, ?_, ?_⟩
  · rw [h2.slots, h1.slots]; simp
  · rw [h2.drops, h1.drops]; simp
  · rw [h2.moved, h1.moved]; simp
  · rw [h2.created, h1.created]
  · rw [h2.nextId, h1.nextId]
  · rw [h2.acct, h1.acct]

theorem leak_spec (z : Bool) (env : Env) (w : W) (s tag : Nat) (c : Cell)
    (h : w.slots[s]? = some (.box tag c)) :
    OnlySlot w (step z env (.leak s) w) s (.leaked tag c) [] [] ∧ evtOf env (effOf z (.leak s) w).1 = 0 := by
  refine ⟨⟨?_, ?_, ?_, ?_, ?_, ?_⟩, ?_⟩ <;> simp [step, effOf, h, applyEff, evtOf, Eff.alloc]

theorem leak_slice_spec (z : Bool) (env : Env) (w : W) (s : Nat) (cs : List Cell) (cap : Option Nat)
    (h : w.slots[s]? = some (.slice cs cap)) :
    OnlySlot w (step z env (.leak s) w) s (.leakedSlice cs cap) [] [] ∧ evtOf env (effOf z (.leak s) w).1 = 0 := by
  refine ⟨⟨?_, ?_, ?_, ?_, ?_, ?_⟩, ?_⟩ <;> simp [step, effOf, h, applyEff, evtOf, Eff.alloc]

theorem into_pin_spec (z : Bool) (env : Env) (w : W) (s : Nat) (c : Cell)
    (h : w.slots[s]? = some (.box 0 c)) :
    OnlySlot w (step z env (.intoPin s) w) s (.pin c) [] [] := by
  refine ⟨?_, ?_, ?_, ?_, ?_, ?_⟩ <;> simp [step, effOf, h, applyEff]

theorem unpin_spec (z : Bool) (env : Env) (w : W) (s : Nat) (c : Cell)
    (h : w.slots[s]? = some (.pin c)) :
    OnlySlot w (step z env (.unpin s) w) s (.box 0 c) [] [] := by
  refine ⟨?_, ?_, ?_, ?_, ?_, ?_⟩ <;> simp [step, effOf, h, applyEff]

/-- `pin_in` creates an owned pinned value with a fresh id; nothing is dropped -/
theorem pin_in_spec (z : Bool) (env : Env) (w : W) (s x : Nat) (h : w.slots[s]? = some .empty) :
    let w' := step z env (.pin s x) w
    w'.slots = w.slots.set s (.pin ⟨w.nextId, x⟩) ∧ w'.drops = w.drops ∧ w'.moved = w.moved ∧
    w'.created = w.created ++ [w.nextId] ∧ w'.nextId = w.nextId + 1 := by
  simp [step, effOf, create, h, applyEff, List.range'_succ]

theorem new_in_spec (z : Bool) (env : Env) (w : W) (s x : Nat) (h : w.slots[s]? = some .empty) :
    let w' := step z env (.new s x 0) w
    w'.slots = w.slots.set s (.box 0 ⟨w.nextId, x⟩) ∧ w'.drops = w.drops ∧ w'.moved = w.moved ∧
    w'.created = w.created ++ [w.nextId] ∧ w'.nextId = w.nextId + 1 := by
  simp [step, effOf, create, h, applyEff, List.range'_succ]

/-! ## downcast -/

/-- `downcast`: `Ok` with the same value when the type tags agree, otherwise `Err` with the same box back -/
theorem downcast_spec (z : Bool) (env : Env) (w : W) (s tag t : Nat) (c : Cell)
    (h : w.slots[s]? = some (.any tag c)) :
    OnlySlot w (step z env (.downcast s t) w) s (if tag = t then .box t c else .any tag c) [] [] ∧
    (effOf z (.downcast s t) w).2 = (if tag = t then "Ok" else "Err") ∧
    evtOf env (effOf z (.downcast s t) w).1 = 0 := by
  by_cases ht : tag = t <;>
  (refine ⟨⟨?_, ?_, ?_, ?_, ?_, ?_⟩, ?_, ?_⟩ <;> simp [step, effOf, h, applyEff, evtOf, Eff.alloc, ht])

theorem to_any_spec (z : Bool) (env : Env) (w : W) (s tag : Nat) (c : Cell)
    (h : w.slots[s]? = some (.box tag c)) :
    OnlySlot w (step z env (.toAny s) w) s (.any tag c) [] [] := by
  refine ⟨?_, ?_, ?_, ?_, ?_, ?_⟩ <;> simp [step, effOf, h, applyEff]

/-! ## conversions between boxed arrays, boxed slices and arena vectors keep the element sequence -/

theorem arr_to_slice_spec (z : Bool) (env : Env) (w : W) (s : Nat) (cs : List Cell) (cap : Option Nat)
    (h : w.slots[s]? = some (.arr cs cap)) :
    OnlySlot w (step z env (.arrToSlice s) w) s (.slice cs cap) [] [] ∧ evtOf env (effOf z (.arrToSlice s) w).1 = 0 := by
  refine ⟨⟨?_, ?_, ?_, ?_, ?_, ?_⟩, ?_⟩ <;> simp [step, effOf, h, applyEff, evtOf, Eff.alloc]

/-- `TryFrom`: the array when the length is `n`, otherwise the same boxed slice back -/
theorem slice_to_arr_spec (z : Bool) (env : Env) (w : W) (s n : Nat) (cs : List Cell) (cap : Option Nat)
    (h : w.slots[s]? = some (.slice cs cap)) (hn : n ≤ 4) :
    OnlySlot w (step z env (.sliceToArr s n) w) s (if cs.length = n then .arr cs cap else .slice cs cap) [] [] ∧
    (effOf z (.sliceToArr s n) w).2 = (if cs.length = n then "Ok" else "Err") ∧
    evtOf env (effOf z (.sliceToArr s n) w).1 = 0 := by
  by_cases hl : cs.length = n <;>
  (refine ⟨⟨?_, ?_, ?_, ?_, ?_, ?_⟩, ?_, ?_⟩ <;> simp [step, effOf, h, applyEff, evtOf, Eff.alloc, hl, hn])

/-- `Vec::into_boxed_slice` / `From<Vec>`: exactly the `len` initialised elements, in order, no drop, nothing read out -/
theorem into_boxed_slice_spec (z : Bool) (env : Env) (w : W) (s : Nat) (cs : List Cell) (cap : Nat)
    (h : w.slots[s]? = some (.vec cs cap)) :
    OnlySlotV w (step z env (.intoBoxedSlice s) w) s (.slice cs (some cap)) [] [] ∧
    OnlySlotV w (step z env (.fromVec s) w) s (.slice cs (some cap)) [] [] := by
  refine ⟨⟨?_, ?_, ?_, ?_, ?_⟩, ⟨?_, ?_, ?_, ?_, ?_⟩⟩ <;> simp [step, effOf, h, applyEff]

theorem slice_to_vec_spec (env : Env) (w : W) (s : Nat) (cs : List Cell) (cap : Option Nat)
    (h : w.slots[s]? = some (.slice cs cap)) :
    OnlySlot w (step false env (.sliceToVec s) w) s (.vec cs cs.length) [] [] := by
  refine ⟨?_, ?_, ?_, ?_, ?_, ?_⟩ <;> simp [step, effOf, h, applyEff]

/-- `Box::from_iter_in`: a boxed slice of the items in iteration order, with fresh ids -/
theorem from_iter_spec (z : Bool) (env : Env) (w : W) (s : Nat) (xs : List Nat) (h : w.slots[s]? = some .empty) :
    let w' := step z env (.fromIter s xs) w
    w'.slots = w.slots.set s (.slice (mkCells w.nextId xs) none) ∧ (mkCells w.nextId xs).map (·.val) = xs ∧
    (mkCells w.nextId xs).map (·.id) = List.range' w.nextId xs.length ∧
    w'.drops = w.drops ∧ w'.moved = w.moved := by
  simp [step, effOf, create, h, applyEff, mkCells_vals, mkCells_ids]

/-! ## the arena is touched only by constructors (and by dropping an arena `Vec`) -/

/-- operations that call `Bump::alloc*`, or are methods of `Vec` that may consult the arena -/
def Op.entersArena : Op → Bool
  | .new .. | .pin .. | .newArr .. | .fromIter .. | .vec .. | .newAny .. | .newFn .. | .newStr ..
  | .intoBoxedSlice _ | .fromVec _ | .iterProbe .. | .pollProbe _ | .hasherProbe _ => true
  | _ => false

theorem acct_frame (z : Bool) (env : Env) (op : Op) (w : W) (h : (effOf z op w).1.alloc = false) :
    (step z env op w).acct = w.acct ∧ evtOf env (effOf z op w).1 = 0 := by
  unfold step evtOf
  cases he : (effOf z op w).1 <;> simp_all [applyEff, Eff.alloc]

theorem alloc_only_in_arena_calls (z : Bool) (op : Op) (w : W) (h : (effOf z op w).1.alloc = true) :
    op.entersArena = true ∨ ∃ s pa cs cap, op = .drop s pa ∧ w.slots[s]? = some (.vec cs cap) := by
  cases op <;> simp only [effOf, create, skip] at h <;> (try (simp [Op.entersArena]; done)) <;>
    (revert h; (repeat' split) <;> simp_all [Eff.alloc])

/-- every `Box` operation that is not a constructor leaves the arena's accounting unchanged -/
theorem box_ops_leave_arena_alone (z : Bool) (env : Env) (op : Op) (w : W) (h1 : op.entersArena = false)
    (h2 : ∀ s pa, op = .drop s pa → ∀ cs cap, w.slots[s]? ≠ some (.vec cs cap)) :
    (step z env op w).acct = w.acct ∧ evtOf env (effOf z op w).1 = 0 := by
  apply acct_frame
  cases ha : (effOf z op w).1.alloc with
  | false => rfl
  | true =>
    rcases alloc_only_in_arena_calls z op w ha with h | ⟨s, pa, cs, cap, rfl, hs⟩
    · simp [h] at h1
    · exact absurd hs (h2 s pa rfl cs cap)

/-! ## destructors run only in `drop`, values are read out only by `into_inner` -/

theorem drops_only_by_drop (z : Bool) (env : Env) (op : Op) (w : W) (h : ∀ s pa, op ≠ .drop s pa) :
    (step z env op w).drops = w.drops := by
  unfold step
  cases op <;> simp only [effOf, create, skip] <;> (try (exact absurd rfl (h _ _))) <;>
    (repeat' split) <;> simp_all [applyEff]

theorem moved_only_by_into_inner (z : Bool) (env : Env) (op : Op) (w : W) (h : ∀ s, op ≠ .intoInner s) :
    (step z env op w).moved = w.moved := by
  unfold step
  cases op <;> simp only [effOf, create, skip] <;> (try (exact absurd rfl (h _))) <;>
    (repeat' split) <;> simp_all [applyEff, boxDrop_fx, dropGlue_fx]

theorem own_count_le (w : W) (h : Own w) (a : Nat) : w.live.count a + w.drops.count a + w.moved.count a ≤ 1 := by
  have := (List.nodup_iff_count.mp h.nodup) a
  simp only [W.all, List.count_append] at this; omega

end Bump.Bx
