import BumpVerif.Proofs.Borrow
/-!
# Acceptance lemmas for the loan-liveness checker

Programs that only take shared access to the arena (`benign`: allocation calls, container
constructors, plain `&self` queries, uses of the results) are accepted under `GoodSigs`, in any
number and order; the state they leave behind satisfies `SharedInv`, from which the accepted
families of C05 (moving an idle arena, dropping the source of a copy) are stepped by hand.
-/
namespace Bump.Borrow
open Bump.Sig

/-! ### what `GoodSigs` says about the named methods -/

theorem goodSigs_parts {t : Sigs} (h : GoodSigs t) :
    (∀ n ∈ allocNames, goodAlloc t n = true) ∧ (∀ m ∈ ctorIds, goodCtor t m = true) ∧
    (∀ n ∈ exclNames, goodExcl t n = true) ∧ (∀ n ∈ plainNames, goodPlain t n = true) ∧
    (∀ d ∈ deriveIds, goodDerive t d = true) ∧ (∀ c ∈ carriers, goodCarrier t c = true) := by
  unfold GoodSigs goodSigs at h
  simp only [Bool.and_eq_true, List.all_eq_true] at h
  obtain ⟨⟨⟨⟨⟨⟨⟨h1, h2⟩, h3⟩, h4⟩, h5⟩, h6⟩, _⟩, _⟩ := h
  exact ⟨h1, h2, h3, h4, h5, h6⟩

theorem good_alloc {t : Sigs} (h : GoodSigs t) {n : String} (hn : n ∈ allocNames) :
    ∃ sg, lookup t ⟨"Bump", n⟩ = some sg ∧ sg.recv = .ref ∧ sg.retRecv = true ∧
      sg.retOther = false ∧ sg.retAdt = none := by
  have := (goodSigs_parts h).1 n hn
  unfold goodAlloc at this
  cases hl : lookup t ⟨"Bump", n⟩ with
  | none => rw [hl] at this; cases this
  | some sg =>
    rw [hl] at this
    simp only [Bool.and_eq_true, beq_iff_eq, Bool.not_eq_true'] at this
    obtain ⟨⟨⟨⟨a, b⟩, c⟩, _⟩, e⟩ := this
    exact ⟨sg, rfl, a, b, c, e⟩

theorem good_ctor {t : Sigs} (h : GoodSigs t) {m : MId} (hm : m ∈ ctorIds) :
    ∃ sg, lookup t m = some sg ∧ sg.recv = .none ∧ sg.arenaArg = true ∧ sg.retArena = true ∧
      sg.retOther = false ∧ glueOf t sg = true := by
  have := (goodSigs_parts h).2.1 m hm
  unfold goodCtor at this
  cases hl : lookup t m with
  | none => rw [hl] at this; cases this
  | some sg =>
    rw [hl] at this
    simp only [Bool.and_eq_true, beq_iff_eq, Bool.not_eq_true'] at this
    obtain ⟨⟨⟨⟨⟨a, b⟩, c⟩, d⟩, _⟩, f⟩ := this
    exact ⟨sg, rfl, a, b, c, d, f⟩

theorem good_excl {t : Sigs} (h : GoodSigs t) {n : String} (hn : n ∈ exclNames) :
    ∃ sg, lookup t ⟨"Bump", n⟩ = some sg ∧ sg.recv = .refMut := by
  have := (goodSigs_parts h).2.2.1 n hn
  unfold goodExcl at this
  cases hl : lookup t ⟨"Bump", n⟩ with
  | none => rw [hl] at this; cases this
  | some sg =>
    rw [hl] at this
    simp only [Bool.and_eq_true, beq_iff_eq] at this
    exact ⟨sg, rfl, this.1⟩

theorem good_plain {t : Sigs} (h : GoodSigs t) {n : String} (hn : n ∈ plainNames) :
    ∃ sg, lookup t ⟨"Bump", n⟩ = some sg ∧ sg.recv = .ref ∧ sg.retRecv = false := by
  have := (goodSigs_parts h).2.2.2.1 n hn
  unfold goodPlain at this
  cases hl : lookup t ⟨"Bump", n⟩ with
  | none => rw [hl] at this; cases this
  | some sg =>
    rw [hl] at this
    simp only [Bool.and_eq_true, beq_iff_eq, Bool.not_eq_true'] at this
    obtain ⟨⟨⟨⟨a, b⟩, _⟩, _⟩, _⟩ := this
    exact ⟨sg, rfl, a, b⟩

theorem good_derive {t : Sigs} (h : GoodSigs t) {d : MId × Recv} (hd : d ∈ deriveIds) :
    Carrier t d.1 := by
  have := (goodSigs_parts h).2.2.2.2.1 d hd
  unfold goodDerive at this
  cases hl : lookup t d.1 with
  | none => rw [hl] at this; cases this
  | some sg =>
    rw [hl] at this
    simp only [Bool.and_eq_true] at this
    exact ⟨sg, hl, this.1.2⟩

theorem good_iter {t : Sigs} (h : GoodSigs t) :
    ∃ sg, lookup t ⟨"Bump", "iter_allocated_chunks"⟩ = some sg ∧ sg.recv = .refMut ∧ sg.retRecv = true := by
  obtain ⟨sg, hl, hr⟩ := good_excl h (n := "iter_allocated_chunks") (by decide)
  unfold GoodSigs goodSigs at h
  simp only [Bool.and_eq_true] at h
  have h8 := h.2
  rw [hl] at h8
  simp only [Bool.and_eq_true] at h8
  exact ⟨sg, hl, hr, h8.1⟩

/-! holders and accesses of the named methods -/

theorem alloc_holder {t : Sigs} (h : GoodSigs t) {n : String} (hn : n ∈ allocNames) :
    Holder t ⟨"Bump", n⟩ .shared := by
  obtain ⟨sg, hl, hr, hrr, _, _⟩ := good_alloc h hn
  exact ⟨sg, hl, by simp [loanOf, hr, hrr]⟩

theorem ctor_holder {t : Sigs} (h : GoodSigs t) {m : MId} (hm : m ∈ ctorIds) :
    GlueHolder t m .shared := by
  obtain ⟨sg, hl, hr, ha, hra, _, hg⟩ := good_ctor h hm
  exact ⟨sg, hl, by simp [loanOf, hr, ha, hra], hg⟩

theorem GlueHolder.holder {t : Sigs} {m : MId} {k : LoanKind} (h : GlueHolder t m k) :
    Holder t m k := by
  obtain ⟨sg, hl, hk, _⟩ := h
  exact ⟨sg, hl, hk⟩

theorem iter_holder {t : Sigs} (h : GoodSigs t) :
    Holder t ⟨"Bump", "iter_allocated_chunks"⟩ .excl := by
  obtain ⟨sg, hl, hr, hrr⟩ := good_iter h
  exact ⟨sg, hl, by simp [loanOf, hr, hrr]⟩

theorem excl_access {t : Sigs} (h : GoodSigs t) {n : String} (hn : n ∈ exclNames)
    (y : Option Var) (src : Option Var) : access t (.call y ⟨"Bump", n⟩ src) = some .excl := by
  obtain ⟨sg, hl, hr⟩ := good_excl h hn
  simp [access, hl, hr]

theorem alloc_access {t : Sigs} (h : GoodSigs t) {n : String} (hn : n ∈ allocNames)
    (y : Option Var) (src : Option Var) : access t (.call y ⟨"Bump", n⟩ src) = some .shared := by
  obtain ⟨sg, hl, hr, _⟩ := good_alloc h hn
  simp [access, hl, hr]

theorem plain_access {t : Sigs} (h : GoodSigs t) {n : String} (hn : n ∈ plainNames)
    (y : Option Var) (src : Option Var) : access t (.call y ⟨"Bump", n⟩ src) = some .shared := by
  obtain ⟨sg, hl, hr, _⟩ := good_plain h hn
  simp [access, hl, hr]

theorem ctor_access {t : Sigs} (h : GoodSigs t) {m : MId} (hm : m ∈ ctorIds)
    (y : Option Var) (src : Option Var) : access t (.call y m src) = some .shared := by
  obtain ⟨sg, hl, hr, ha, _⟩ := good_ctor h hm
  simp [access, hl, hr, ha]

/-! ### programs that only take shared access -/

/-- `benign g bound avail p`: every statement of `p` is an allocation call / (when `g`) a container
constructor binding a fresh variable, a plain `&self` query, or a use of an available variable.
`bound` are the names already taken, `avail` the variables that may be used. -/
def benign (g : Bool) : List Var → List Var → List Stmt → Bool
  | _, _, [] => true
  | b, a, .call (some x) m none :: rest =>
    ((m.owner == "Bump" && allocNames.contains m.name) || (g && ctorIds.contains m))
      && !b.contains x && benign g (x :: b) (x :: a) rest
  | b, a, .call none m none :: rest =>
    (m.owner == "Bump" && (allocNames.contains m.name || plainNames.contains m.name))
      && benign g b a rest
  | b, a, .use x :: rest => a.contains x && benign g b a rest
  | _, _, _ => false

/-- names bound after running `p` (mirrors `benign`) -/
def outB : List Var → List Stmt → List Var
  | b, [] => b
  | b, .call (some x) _ _ :: rest => outB (x :: b) rest
  | b, _ :: rest => outB b rest

structure SharedInv (σ : State) (b a : List Var) : Prop where
  alive : σ.arenaAlive = true
  noExcl : ∀ p ∈ σ.vars, p.2.loan ≠ some .excl
  noSrc : ∀ p ∈ σ.vars, p.2.src = none
  fresh : ∀ x, x ∉ b → find σ.vars x = none
  avail : ∀ x ∈ a, ∃ i, find σ.vars x = some i ∧ i.moved = false

def NoGlue (σ : State) : Prop := ∀ p ∈ σ.vars, p.2.glue = false

theorem sharedInv_init : SharedInv State.init [] [] :=
  ⟨rfl, fun _ h => (by cases h), fun _ h => (by cases h), fun _ _ => rfl, fun _ h => (by cases h)⟩

theorem liveLoan_excl_false {vars : List (Var × Info)} (h : ∀ p ∈ vars, p.2.loan ≠ some .excl)
    (rest : List Stmt) (g : Bool) : liveLoan vars rest .excl g = false := by
  unfold liveLoan
  rw [List.any_eq_false]
  intro p hp
  have := h p hp
  cases hl : p.2.loan with
  | none => simp
  | some k =>
    cases k with
    | shared => simp
    | excl => exact absurd hl this

theorem arenaErr_shared_none {σ : State} {b a : List Var} (h : SharedInv σ b a) (rest : List Stmt) :
    arenaErr σ rest .shared = none := by
  unfold arenaErr
  simp [h.alive, liveLoan_excl_false h.noExcl]

/-- a method that takes at most shared access and whose result holds at most a shared loan -/
def SharedSig (sg : MethodSig) : Prop := sg.recv = .ref ∨ sg.recv = .none

theorem sharedSig_loan {sg : MethodSig} (h : SharedSig sg) : loanOf sg ≠ some .excl := by
  unfold loanOf
  cases h with
  | inl h => rw [h]; simp only; split <;> simp
  | inr h => rw [h]; simp only; split <;> simp

theorem sharedSig_access {t : Sigs} {m : MId} {sg : MethodSig} (hl : lookup t m = some sg)
    (h : SharedSig sg) (y src : Option Var) :
    access t (.call y m src) = some .shared ∨ access t (.call y m src) = none := by
  simp only [access, hl]
  cases h with
  | inl h => rw [h]; exact Or.inl rfl
  | inr h =>
    rw [h]
    simp only
    cases sg.arenaArg with
    | true => exact Or.inl rfl
    | false => exact Or.inr rfl

/-- one call with shared access, binding a fresh variable (optionally copying from an available
source variable): accepted, invariant kept -/
theorem step_shared_let {t : Sigs} {σ : State} {b a : List Var} {m : MId} {sg : MethodSig}
    {x : Var} {src : Option Var} (rest : List Stmt) (hl : lookup t m = some sg) (hs : SharedSig sg)
    (hro : sg.retOther = false) (hinv : SharedInv σ b a) (hx : x ∉ b)
    (hsrc : ∀ v, src = some v → v ∈ a) :
    check t σ (.call (some x) m src) rest = none ∧
      SharedInv (update t σ (.call (some x) m src)) (x :: b) (x :: a) ∧
      (glueOf t sg = false → NoGlue σ → NoGlue (update t σ (.call (some x) m src))) := by
  have hfx : find σ.vars x = none := hinv.fresh x hx
  refine ⟨?_, ?_, ?_⟩
  · unfold check
    have hw : wf t σ (.call (some x) m src) = none := by
      cases src with
      | none => simp [wf, hl, needFresh, hfx]
      | some v =>
        obtain ⟨i, hf, hm⟩ := hinv.avail v (hsrc v rfl)
        simp [wf, hl, needFresh, hfx, needVar, hf, hm]
    rw [hw]
    simp only [other]
    cases sharedSig_access hl hs (some x) src with
    | inl h => rw [h]; exact arenaErr_shared_none hinv rest
    | inr h => rw [h]
  · simp only [update, hl, bind, hro]
    constructor
    · exact hinv.alive
    · intro p hp
      cases hp with
      | head => exact sharedSig_loan hs
      | tail _ hp => exact hinv.noExcl p hp
    · intro p hp
      cases hp with
      | head => simp
      | tail _ hp => exact hinv.noSrc p hp
    · intro y hy
      have hyx : ¬ x = y := fun h => hy (by rw [h]; exact List.mem_cons_self)
      rw [find_cons_ne hyx]
      exact hinv.fresh y (fun h => hy (List.mem_cons_of_mem _ h))
    · intro y hy
      by_cases hyx : x = y
      · subst hyx
        exact ⟨_, find_cons_eq, rfl⟩
      · rw [find_cons_ne hyx]
        cases hy with
        | head => exact absurd rfl hyx
        | tail _ hy => exact hinv.avail y hy
  · intro hg hng
    simp only [update, hl, bind]
    intro p hp
    cases hp with
    | head => exact hg
    | tail _ hp => exact hng p hp

theorem step_shared_unit {t : Sigs} {σ : State} {b a : List Var} {m : MId} {sg : MethodSig}
    (rest : List Stmt) (hl : lookup t m = some sg) (hs : SharedSig sg) (hinv : SharedInv σ b a) :
    check t σ (.call none m none) rest = none := by
  unfold check
  have hw : wf t σ (.call none m none) = none := by simp [wf, hl]
  rw [hw]
  simp only [other]
  cases sharedSig_access hl hs none none with
  | inl h => rw [h]; exact arenaErr_shared_none hinv rest
  | inr h => rw [h]

theorem step_use {t : Sigs} {σ : State} {b a : List Var} {x : Var} (rest : List Stmt)
    (hinv : SharedInv σ b a) (hx : x ∈ a) : check t σ (.use x) rest = none := by
  obtain ⟨i, hf, hm⟩ := hinv.avail x hx
  unfold check
  have hw : wf t σ (.use x) = none := by simp [wf, needVar, hf, hm]
  rw [hw]
  simp [other, access]

theorem mid_eq {m : MId} (h : (m.owner == "Bump") = true) : m = ⟨"Bump", m.name⟩ := by
  cases m with
  | mk o n =>
    simp only [beq_iff_eq] at h
    rw [h]

/-- the methods a benign binding may call -/
theorem benign_let_sig {t : Sigs} (hg : GoodSigs t) {g : Bool} {m : MId}
    (h : ((m.owner == "Bump" && allocNames.contains m.name) || (g && ctorIds.contains m)) = true) :
    ∃ sg, lookup t m = some sg ∧ SharedSig sg ∧ sg.retOther = false ∧
      (g = false → glueOf t sg = false) := by
  rw [Bool.or_eq_true] at h
  cases h with
  | inl h =>
    rw [Bool.and_eq_true] at h
    have hn : m.name ∈ allocNames := List.contains_iff_mem.mp h.2
    obtain ⟨sg, hl, hr, _, hro, hadt⟩ := good_alloc hg hn
    rw [← mid_eq h.1] at hl
    exact ⟨sg, hl, Or.inl hr, hro, fun _ => by simp [glueOf, hadt]⟩
  | inr h =>
    rw [Bool.and_eq_true] at h
    have hm : m ∈ ctorIds := List.contains_iff_mem.mp h.2
    obtain ⟨sg, hl, hr, _, _, hro, _⟩ := good_ctor hg hm
    exact ⟨sg, hl, Or.inr hr, hro, fun hf => by rw [hf] at h; exact absurd h.1 (by decide)⟩

theorem benign_unit_sig {t : Sigs} (hg : GoodSigs t) {m : MId}
    (h : (m.owner == "Bump" && (allocNames.contains m.name || plainNames.contains m.name)) = true) :
    ∃ sg, lookup t m = some sg ∧ SharedSig sg := by
  rw [Bool.and_eq_true, Bool.or_eq_true] at h
  cases h.2 with
  | inl h2 =>
    obtain ⟨sg, hl, hr, _⟩ := good_alloc hg (List.contains_iff_mem.mp h2)
    rw [← mid_eq h.1] at hl
    exact ⟨sg, hl, Or.inl hr⟩
  | inr h2 =>
    obtain ⟨sg, hl, hr, _⟩ := good_plain hg (List.contains_iff_mem.mp h2)
    rw [← mid_eq h.1] at hl
    exact ⟨sg, hl, Or.inl hr⟩

/-- **Benign programs run through.**  From a state satisfying the invariant, a benign prefix `p`
is accepted statement by statement whatever follows it (`q`), and leaves a state satisfying the
invariant for the names `outB b p` / `outB a p`. -/
theorem benign_go {t : Sigs} (hg : GoodSigs t) (g : Bool) (q : List Stmt) :
    ∀ (p : List Stmt) (b a : List Var) (σ : State), SharedInv σ b a → benign g b a p = true →
      ∃ σ', go t σ (p ++ q) = go t σ' q ∧ SharedInv σ' (outB b p) (outB a p) ∧
        (g = false → NoGlue σ → NoGlue σ')
  | [], b, a, σ, hinv, _ => ⟨σ, rfl, hinv, fun _ h => h⟩
  | s :: p, b, a, σ, hinv, hb => by
    cases s with
    | call y m src =>
      cases src with
      | some v => cases y <;> simp [benign] at hb
      | none =>
        cases y with
        | some x =>
          simp only [benign, Bool.and_eq_true, Bool.not_eq_true'] at hb
          obtain ⟨⟨hm, hxb⟩, hrest⟩ := hb
          obtain ⟨sg, hl, hs, hro, hgl⟩ := benign_let_sig hg hm
          have hxb' : x ∉ b := by
            intro hmem
            rw [List.contains_iff_mem.mpr hmem] at hxb
            cases hxb
          obtain ⟨hck, hinv', hng⟩ := step_shared_let (x := x) (src := none) (p ++ q) hl hs hro hinv hxb'
            (fun _ h => by cases h)
          obtain ⟨σ', hgo, hI, hN⟩ := benign_go hg g q p (x :: b) (x :: a) _ hinv' hrest
          refine ⟨σ', ?_, hI, fun hf hn => hN hf (hng (hgl hf) hn)⟩
          rw [List.cons_append, go, hck]
          exact hgo
        | none =>
          simp only [benign, Bool.and_eq_true] at hb
          obtain ⟨hm, hrest⟩ := hb
          obtain ⟨sg, hl, hs⟩ := benign_unit_sig hg (by rw [Bool.and_eq_true]; exact hm)
          have hck := step_shared_unit (p ++ q) hl hs hinv
          obtain ⟨σ', hgo, hI, hN⟩ := benign_go hg g q p b a σ hinv hrest
          refine ⟨σ', ?_, hI, hN⟩
          rw [List.cons_append, go, hck]
          exact hgo
    | use x =>
      simp only [benign, Bool.and_eq_true] at hb
      obtain ⟨hx, hrest⟩ := hb
      have hck := step_use (t := t) (p ++ q) hinv (List.contains_iff_mem.mp hx)
      obtain ⟨σ', hgo, hI, hN⟩ := benign_go hg g q p b a σ hinv hrest
      refine ⟨σ', ?_, hI, hN⟩
      rw [List.cons_append, go, hck]
      exact hgo
    | derive _ _ _ => simp [benign] at hb
    | dropVar _ => simp [benign] at hb
    | newSrc _ => simp [benign] at hb
    | moveArena => simp [benign] at hb
    | endArena _ => simp [benign] at hb
    | ret _ => simp [benign] at hb

theorem accepts_of_go_none {t : Sigs} {p : Program} (h : go t State.init p = none) :
    accepts t p = true := by
  unfold accepts run
  rw [h]
  rfl

/-! ### the accepted families -/

/-- many allocations alive at once -/
theorem benign_accepts {t : Sigs} (hg : GoodSigs t) {p : Program} (h : benign true [] [] p = true) :
    accepts t p = true := by
  obtain ⟨σ', hgo, _, _⟩ := benign_go hg true [] p [] [] State.init sharedInv_init h
  rw [List.append_nil] at hgo
  apply accepts_of_go_none
  rw [hgo, go]

/-- a benign program never mentions a taken name that is not available -/
theorem usedLater_benign_false {g : Bool} {x : Var} :
    ∀ (p : List Stmt) (b a : List Var), benign g b a p = true → x ∈ b → x ∉ a →
      usedLater x p = false
  | [], _, _, _, _, _ => rfl
  | s :: p, b, a, hb, hxb, hxa => by
    unfold usedLater
    rw [List.any_cons]
    cases s with
    | call y m src =>
      cases src with
      | some v => cases y <;> simp [benign] at hb
      | none =>
        cases y with
        | some z =>
          simp only [benign, Bool.and_eq_true, Bool.not_eq_true'] at hb
          obtain ⟨⟨_, hzb⟩, hrest⟩ := hb
          have hzx : z ≠ x := by
            intro h
            subst h
            rw [List.contains_iff_mem.mpr hxb] at hzb
            cases hzb
          have := usedLater_benign_false p (z :: b) (z :: a) hrest (List.mem_cons_of_mem _ hxb)
            (by
              intro h
              cases h with
              | head => exact hzx rfl
              | tail _ h => exact hxa h)
          unfold usedLater at this
          simp [mentions, this]
        | none =>
          simp only [benign, Bool.and_eq_true] at hb
          have := usedLater_benign_false p b a hb.2 hxb hxa
          unfold usedLater at this
          simp [mentions, this]
    | use z =>
      simp only [benign, Bool.and_eq_true] at hb
      have hza : z ∈ a := List.contains_iff_mem.mp hb.1
      have hzx : ¬ z = x := fun h => hxa (h ▸ hza)
      have := usedLater_benign_false p b a hb.2 hxb hxa
      unfold usedLater at this
      simp [mentions, this, hzx]
    | derive _ _ _ => simp [benign] at hb
    | dropVar _ => simp [benign] at hb
    | newSrc _ => simp [benign] at hb
    | moveArena => simp [benign] at hb
    | endArena _ => simp [benign] at hb
    | ret _ => simp [benign] at hb

theorem liveLoan_false_of_dead {vars : List (Var × Info)} {rest : List Stmt} {k : LoanKind}
    {g : Bool} (h : ∀ p ∈ vars, p.2.live p.1 rest g = false) : liveLoan vars rest k g = false := by
  unfold liveLoan
  rw [List.any_eq_false]
  intro p hp
  simp [h p hp]

theorem SharedInv.weaken {σ : State} {b a : List Var} (h : SharedInv σ b a) :
    SharedInv σ b [] :=
  ⟨h.alive, h.noExcl, h.noSrc, h.fresh, fun _ hx => (by cases hx)⟩

/-- moving an idle arena: allocations whose results have no destructor and are no longer used,
then the move, then any benign program over new names. -/
theorem idle_move_go {t : Sigs} (hg : GoodSigs t) {p1 p2 : List Stmt}
    (h1 : benign false [] [] p1 = true) (h2 : benign true (outB [] p1) [] p2 = true) :
    accepts t (p1 ++ .moveArena :: p2) = true := by
  obtain ⟨σ', hgo, hinv, hng⟩ :=
    benign_go hg false (.moveArena :: p2) p1 [] [] State.init sharedInv_init h1
  have hng' : NoGlue σ' := hng rfl (fun _ h => by cases h)
  apply accepts_of_go_none
  rw [hgo, go]
  have hdead : ∀ p ∈ σ'.vars, p.2.live p.1 p2 true = false := by
    intro p hp
    have hb : p.1 ∈ outB [] p1 := by
      apply Classical.byContradiction
      intro hnb
      have hnone := hinv.fresh p.1 hnb
      have hsome := find_isSome_of_mem (x := p.1) (i := p.2) hp
      rw [hnone] at hsome
      cases hsome
    have hu := usedLater_benign_false (x := p.1) p2 _ [] h2 hb (fun h => by cases h)
    unfold Info.live
    rw [hng' p hp, hu]
    simp
  have hck : check t σ' .moveArena p2 = none := by
    unfold check
    have hgc : Access.moveOut.glueCounts = true := rfl
    simp only [wf, other, access, arenaErr, hinv.alive, hgc, liveLoan_false_of_dead hdead]
    rfl
  rw [hck]
  simp only [update]
  obtain ⟨σ'', hgo2, _, _⟩ := benign_go hg true [] p2 _ [] σ' hinv.weaken h2
  rw [List.append_nil] at hgo2
  rw [hgo2, go]

/-! dropping the source of a copy -/

theorem mem_markMoved {v : Var} {p : Var × Info} : ∀ {vars : List (Var × Info)},
    p ∈ markMoved v vars → ∃ q ∈ vars, p.1 = q.1 ∧ p.2.loan = q.2.loan ∧ p.2.src = q.2.src
  | [], h => by cases h
  | (y, i) :: rest, h => by
    unfold markMoved at h
    cases h with
    | head =>
      refine ⟨(y, i), List.mem_cons_self, ?_⟩
      by_cases hyv : y = v <;> simp [hyv]
    | tail _ h =>
      obtain ⟨q, hq, hh⟩ := mem_markMoved h
      exact ⟨q, List.mem_cons_of_mem _ hq, hh⟩

theorem liveSrc_false {vars : List (Var × Info)} (h : ∀ p ∈ vars, p.2.src = none)
    (rest : List Stmt) (s : Var) : liveSrc vars rest s = false := by
  unfold liveSrc
  rw [List.any_eq_false]
  intro p hp
  simp [h p hp]

theorem step_newSrc {t : Sigs} {σ : State} {b a : List Var} {s : Var} (rest : List Stmt)
    (hinv : SharedInv σ b a) (hs : s ∉ b) :
    check t σ (.newSrc s) rest = none ∧ SharedInv (update t σ (.newSrc s)) (s :: b) (s :: a) := by
  have hfs : find σ.vars s = none := hinv.fresh s hs
  refine ⟨?_, ?_⟩
  · unfold check
    simp [wf, needFresh, hfs, other, access]
  · simp only [update, bind]
    constructor
    · exact hinv.alive
    · intro p hp
      cases hp with
      | head => simp
      | tail _ hp => exact hinv.noExcl p hp
    · intro p hp
      cases hp with
      | head => rfl
      | tail _ hp => exact hinv.noSrc p hp
    · intro y hy
      have hyx : ¬ s = y := fun h => hy (by rw [h]; exact List.mem_cons_self)
      rw [find_cons_ne hyx]
      exact hinv.fresh y (fun h => hy (List.mem_cons_of_mem _ h))
    · intro y hy
      by_cases hyx : s = y
      · subst hyx
        exact ⟨_, find_cons_eq, rfl⟩
      · rw [find_cons_ne hyx]
        cases hy with
        | head => exact absurd rfl hyx
        | tail _ hy => exact hinv.avail y hy

theorem step_dropVar {t : Sigs} {σ : State} {b a a' : List Var} {s : Var} (rest : List Stmt)
    (hinv : SharedInv σ b a) (hs : s ∈ a) (hsub : ∀ y ∈ a', y ∈ a) (hns : s ∉ a') :
    check t σ (.dropVar s) rest = none ∧ SharedInv (update t σ (.dropVar s)) b a' := by
  obtain ⟨i, hf, hm⟩ := hinv.avail s hs
  refine ⟨?_, ?_⟩
  · unfold check
    simp [wf, needVar, hf, hm, other, liveSrc_false hinv.noSrc, access]
  · simp only [update]
    constructor
    · exact hinv.alive
    · intro p hp
      obtain ⟨q, hq, _, hl, _⟩ := mem_markMoved hp
      rw [hl]
      exact hinv.noExcl q hq
    · intro p hp
      obtain ⟨q, hq, _, _, hsr⟩ := mem_markMoved hp
      rw [hsr]
      exact hinv.noSrc q hq
    · intro y hy
      rw [find_markMoved, hinv.fresh y hy]
      rfl
    · intro y hy
      obtain ⟨j, hfj, hmj⟩ := hinv.avail y (hsub y hy)
      have hys : ¬ y = s := fun h => hns (h ▸ hy)
      rw [find_markMoved, hfj]
      exact ⟨j, by simp [hys], hmj⟩

/-- a result outliving the source it was copied from: after any benign prefix, `let s = <owned>`,
`let x = m(&s)` for an allocation method or a constructor, `drop(s)`, `use x`, then any benign
program in which `x` (and everything from before) is still available. -/
theorem outlives_source_go {t : Sigs} (hg : GoodSigs t) {pre post : List Stmt} {m : MId}
    {s x : Var}
    (hpre : benign true [] [] pre = true)
    (hm : ((m.owner == "Bump" && allocNames.contains m.name) || (true && ctorIds.contains m)) = true)
    (hs : s ∉ outB [] pre) (hx : x ∉ outB [] pre) (hxs : x ≠ s)
    (hpost : benign true (x :: s :: outB [] pre) (x :: outB [] pre) post = true) :
    accepts t (pre ++ .newSrc s :: .call (some x) m (some s) :: .dropVar s :: .use x :: post) = true := by
  obtain ⟨σ1, hgo, hinv1, _⟩ := benign_go hg true
    (.newSrc s :: .call (some x) m (some s) :: .dropVar s :: .use x :: post) pre [] [] State.init
    sharedInv_init hpre
  apply accepts_of_go_none
  rw [hgo]
  obtain ⟨hc2, hinv2⟩ := step_newSrc (t := t)
    (.call (some x) m (some s) :: .dropVar s :: .use x :: post) hinv1 hs
  rw [go, hc2]
  obtain ⟨sg, hl, hss, hro, _⟩ := benign_let_sig hg hm
  have hx2 : x ∉ s :: outB [] pre := by
    intro h
    cases h with
    | head => exact hxs rfl
    | tail _ h => exact hx h
  obtain ⟨hc3, hinv3, _⟩ := step_shared_let (x := x) (src := some s) (.dropVar s :: .use x :: post)
    hl hss hro hinv2 hx2 (fun v hv => by cases hv; exact List.mem_cons_self)
  rw [go, hc3]
  have hsub : ∀ y ∈ x :: outB [] pre, y ∈ x :: s :: outB [] pre := by
    intro y hy
    cases hy with
    | head => exact List.mem_cons_self
    | tail _ hy => exact List.mem_cons_of_mem _ (List.mem_cons_of_mem _ hy)
  have hns : s ∉ x :: outB [] pre := by
    intro h
    cases h with
    | head => exact hxs rfl
    | tail _ h => exact hs h
  obtain ⟨hc4, hinv4⟩ := step_dropVar (t := t) (.use x :: post) hinv3
    (List.mem_cons_of_mem _ List.mem_cons_self) hsub hns
  rw [go, hc4]
  have hc5 := step_use (t := t) post hinv4 List.mem_cons_self
  rw [go, hc5]
  have hu : ∀ σ : State, update t σ (.use x) = σ := fun _ => rfl
  obtain ⟨σ', hgo', _, _⟩ := benign_go hg true [] post _ _ _ hinv4 hpost
  rw [List.append_nil] at hgo'
  rw [hu, hgo', go]

end Bump.Borrow
