import BumpVerif.Proofs.StrUtf8
/-!
# Validity, whole-string decoding, char boundaries
-/
namespace Bump.Str

@[simp] theorem encode_nil : encode [] = [] := rfl
@[simp] theorem encode_cons (c : Char) (l : List Char) : encode (c :: l) = encChar c ++ encode l := by
  simp [encode, List.flatMap_cons]
theorem encode_append (l₁ l₂ : List Char) : encode (l₁ ++ l₂) = encode l₁ ++ encode l₂ := by
  simp [encode, List.flatMap_append]
theorem encode_singleton (c : Char) : encode [c] = encChar c := by simp

theorem encChar_length_pos (c : Char) : 0 < (encChar c).length := by
  rw [String.length_utf8EncodeChar]; exact Char.utf8Size_pos c
theorem encChar_length_le (c : Char) : (encChar c).length ≤ 4 := by
  rw [String.length_utf8EncodeChar]; exact Char.utf8Size_le_four c
theorem encChar_ne_nil (c : Char) : encChar c ≠ [] := by
  intro h; have := encChar_length_pos c; rw [h] at this; simp at this

theorem Valid_nil : Valid [] := ⟨[], rfl⟩
theorem Valid_encode (l : List Char) : Valid (encode l) := ⟨l, rfl⟩
theorem Valid_encChar (c : Char) : Valid (encChar c) := ⟨[c], by simp⟩
theorem Valid_append {a b : Bytes} (ha : Valid a) (hb : Valid b) : Valid (a ++ b) := by
  obtain ⟨la, rfl⟩ := ha; obtain ⟨lb, rfl⟩ := hb
  exact ⟨la ++ lb, (encode_append la lb).symm⟩

/-- `Valid` is core's `ByteArray.IsValidUTF8` on the same bytes -/
theorem Valid_iff_core (b : Bytes) : Valid b ↔ (b.toByteArray).IsValidUTF8 := by
  constructor
  · rintro ⟨l, rfl⟩; exact ⟨l, rfl⟩
  · rintro ⟨l, h⟩
    refine ⟨l, ?_⟩
    have := congrArg (fun a => a.data.toList) h
    simpa [List.utf8Encode, encode] using this

/-! ## the first byte of an encoded char is not a continuation byte, the others are -/

theorem enc_shape (c : Char) :
    ∃ b t, encChar c = b :: t ∧ isCont b = false ∧ (∀ x ∈ t, isCont x = true) ∧ t.length ≤ 3 := by
  have hv := char_valid c
  by_cases h1 : c.toNat ≤ 0x7f
  · refine ⟨_, _, encChar_1 c h1, ?_, ?_, ?_⟩
    · rw [isCont_false_iff, UInt8.toNat_ofNat']; omega
    · simp
    · simp
  · by_cases h2 : c.toNat ≤ 0x7ff
    · refine ⟨_, _, encChar_2 c (by omega) h2, ?_, ?_, ?_⟩
      · rw [isCont_false_iff, UInt8.toNat_ofNat']; omega
      · intro x hx; simp only [List.mem_cons, List.not_mem_nil, or_false] at hx; subst hx
        rw [isCont_iff, UInt8.toNat_ofNat']; omega
      · simp
    · by_cases h3 : c.toNat ≤ 0xffff
      · refine ⟨_, _, encChar_3 c (by omega) h3, ?_, ?_, ?_⟩
        · rw [isCont_false_iff, UInt8.toNat_ofNat']; omega
        · intro x hx; simp only [List.mem_cons, List.not_mem_nil, or_false] at hx
          rcases hx with rfl | rfl <;> (rw [isCont_iff, UInt8.toNat_ofNat']; omega)
        · simp
      · refine ⟨_, _, encChar_4 c (by omega), ?_, ?_, ?_⟩
        · rw [isCont_false_iff, UInt8.toNat_ofNat']; omega
        · intro x hx; simp only [List.mem_cons, List.not_mem_nil, or_false] at hx
          rcases hx with rfl | rfl | rfl <;> (rw [isCont_iff, UInt8.toNat_ofNat']; omega)
        · simp

/-! ## whole-string decoding -/

theorem decodeFuel_encode (l : List Char) : ∀ f, (encode l).length ≤ f → decodeFuel f (encode l) = some l := by
  induction l with
  | nil => intro f _; cases f <;> simp [decodeFuel]
  | cons c l ih =>
    intro f hf
    obtain ⟨b, t, hbt, -⟩ := enc_shape c
    have hlen := encChar_length_pos c
    rw [encode_cons] at hf ⊢
    rw [List.length_append] at hf
    match f, hf with
    | 0, hf => omega
    | f + 1, hf =>
      have hd := decodeHead_enc c (encode l)
      rw [hbt] at hd ⊢
      simp only [List.cons_append] at hd ⊢
      simp only [decodeFuel, hd]
      have : List.drop (b :: t).length (b :: (t ++ encode l)) = encode l := by
        rw [← List.cons_append]; exact List.drop_left' rfl
      rw [this, ih f (by rw [hbt] at hf; simp at hf ⊢; omega)]
      rfl

theorem decodeFuel_some : ∀ (f : Nat) (bs : Bytes) (l : List Char), decodeFuel f bs = some l → bs = encode l := by
  intro f
  induction f with
  | zero =>
    intro bs l h
    cases bs with
    | nil => simp [decodeFuel] at h; subst h; rfl
    | cons b bs => simp [decodeFuel] at h
  | succ f ih =>
    intro bs l h
    cases bs with
    | nil => simp [decodeFuel] at h; subst h; rfl
    | cons b bs =>
      simp only [decodeFuel] at h
      cases hd : decodeHead (b :: bs) with
      | none => simp [hd] at h
      | some p =>
        obtain ⟨c, n⟩ := p
        simp only [hd, Option.map_eq_some_iff] at h
        obtain ⟨l', hl', rfl⟩ := h
        have := ih _ _ hl'
        obtain ⟨h1, -⟩ := decodeHead_some hd
        rw [encode_cons, ← this]; exact h1

theorem decodeAll_encode (l : List Char) : decodeAll (encode l) = some l :=
  decodeFuel_encode l _ (Nat.le_refl _)

theorem decodeAll_some {bs : Bytes} {l : List Char} (h : decodeAll bs = some l) : bs = encode l :=
  decodeFuel_some _ _ _ h

/-- encoding is injective (UTF-8 is uniquely decodable) -/
theorem encode_inj {l₁ l₂ : List Char} (h : encode l₁ = encode l₂) : l₁ = l₂ := by
  have h1 := decodeAll_encode l₁
  rw [h, decodeAll_encode] at h1
  exact (Option.some.inj h1).symm

@[simp] theorem chars_encode (l : List Char) : chars (encode l) = l := by
  simp [chars, decodeAll_encode]

theorem Valid_iff_validate (b : Bytes) : Valid b ↔ validate b = true := by
  constructor
  · rintro ⟨l, rfl⟩; simp [validate, decodeAll_encode]
  · intro h
    simp only [validate, Option.isSome_iff_exists] at h
    obtain ⟨l, hl⟩ := h
    exact ⟨l, decodeAll_some hl⟩

instance (b : Bytes) : Decidable (Valid b) := decidable_of_iff _ (Valid_iff_validate b).symm

theorem Valid.eq_encode_chars {b : Bytes} (h : Valid b) : b = encode (chars b) := by
  obtain ⟨l, rfl⟩ := h; simp

/-! ## char boundaries -/

theorem isCharBoundary_zero (b : Bytes) : isCharBoundary b 0 = true := by simp [isCharBoundary]
theorem isCharBoundary_length (b : Bytes) : isCharBoundary b b.length = true := by
  simp [isCharBoundary]
theorem isCharBoundary_gt {b : Bytes} {i : Nat} (h : b.length < i) : isCharBoundary b i = false := by
  have : i ≠ 0 := by omega
  have h2 : i ≥ b.length := by omega
  simp [isCharBoundary, this, h2]; omega

theorem isCharBoundary_le {b : Bytes} {i : Nat} (h : isCharBoundary b i = true) : i ≤ b.length := by
  by_cases h' : b.length < i
  · rw [isCharBoundary_gt h'] at h; simp at h
  · omega

/-- inside the encoding of the first character there is no boundary; past it, the question
moves to the rest of the text -/
theorem isCharBoundary_enc_append (c : Char) (r : Bytes) (hr : r = [] ∨ ∃ x t, r = x :: t ∧ isCont x = false)
    (i : Nat) :
    isCharBoundary (encChar c ++ r) i =
      if i = 0 then true else if i < (encChar c).length then false
      else isCharBoundary r (i - (encChar c).length) := by
  obtain ⟨b, t, hbt, hb, ht, htl⟩ := enc_shape c
  by_cases h0 : i = 0
  · simp [h0, isCharBoundary]
  · simp only [h0, if_false]
    by_cases h1 : i < (encChar c).length
    · simp only [h1, if_true]
      have hlt : ¬ i ≥ (encChar c ++ r).length := by rw [List.length_append]; omega
      simp only [isCharBoundary, h0, hlt, if_false]
      rw [List.getD_eq_getElem?_getD, List.getElem?_append_left h1, hbt]
      rw [hbt] at h1
      match i, h0, h1 with
      | i + 1, _, h1 =>
        simp only [List.length_cons, Nat.add_lt_add_iff_right] at h1
        simp only [List.getElem?_cons_succ, List.getElem?_eq_getElem h1, Option.getD_some]
        rw [ht _ (List.getElem_mem h1)]; rfl
    · simp only [h1, if_false]
      have hge : (encChar c).length ≤ i := by omega
      have hpos := encChar_length_pos c
      simp only [isCharBoundary, h0, if_false, List.length_append]
      by_cases h2 : i ≥ (encChar c).length + r.length
      · have h2' : i - (encChar c).length ≥ r.length := by omega
        by_cases h3 : i - (encChar c).length = 0
        · have : r.length = 0 := by omega
          rw [if_pos h2, if_pos h3, decide_eq_true_eq]; omega
        · simp only [h2, h2', h3, if_true, if_false]
          congr 1; apply propext; omega
      · have h2' : ¬ i - (encChar c).length ≥ r.length := by omega
        simp only [h2, h2', if_false]
        rw [List.getD_eq_getElem?_getD, List.getElem?_append_right hge]
        by_cases h3 : i - (encChar c).length = 0
        · simp only [h3, if_true]
          rcases hr with rfl | ⟨x, t', rfl, hx⟩
          · simp at h2'
          · simp [hx]
        · simp only [h3, if_false, List.getD_eq_getElem?_getD]

theorem encode_head_not_cont (l : List Char) :
    encode l = [] ∨ ∃ x t, encode l = x :: t ∧ isCont x = false := by
  cases l with
  | nil => left; rfl
  | cons c l =>
    right
    obtain ⟨b, t, hbt, hb, -⟩ := enc_shape c
    exact ⟨b, t ++ encode l, by rw [encode_cons, hbt]; rfl, hb⟩

/-- **Boundaries are exactly the split points of the text.** -/
theorem boundary_iff (l : List Char) : ∀ i, isCharBoundary (encode l) i = true ↔
    ∃ k, k ≤ l.length ∧ i = (encode (l.take k)).length := by
  induction l with
  | nil =>
    intro i
    simp only [encode_nil, List.length_nil, Nat.le_zero_eq, List.take_nil]
    constructor
    · intro h; have := isCharBoundary_le h; simp at this; exact ⟨0, rfl, by simp [this]⟩
    · rintro ⟨k, -, rfl⟩; simp [isCharBoundary]
  | cons c l ih =>
    intro i
    rw [encode_cons, isCharBoundary_enc_append c _ (encode_head_not_cont l)]
    have hpos := encChar_length_pos c
    by_cases h0 : i = 0
    · simp only [h0, if_true, true_iff]; exact ⟨0, by simp, by simp⟩
    · simp only [h0, if_false]
      by_cases h1 : i < (encChar c).length
      · simp only [h1, if_true, Bool.false_eq_true, false_iff]
        rintro ⟨k, hk, rfl⟩
        cases k with
        | zero => simp at h0
        | succ k =>
          simp only [List.take_succ_cons, encode_cons, List.length_append] at h1; omega
      · simp only [h1, if_false, ih]
        constructor
        · rintro ⟨k, hk, hi⟩
          refine ⟨k + 1, by simp; omega, ?_⟩
          simp only [List.take_succ_cons, encode_cons, List.length_append]; omega
        · rintro ⟨k, hk, hi⟩
          cases k with
          | zero => simp at hi; omega
          | succ k =>
            refine ⟨k, by simp at hk; omega, ?_⟩
            simp only [List.take_succ_cons, encode_cons, List.length_append] at hi; omega

theorem take_encode (l : List Char) (k : Nat) :
    (encode l).take (encode (l.take k)).length = encode (l.take k) := by
  have : encode l = encode (l.take k) ++ encode (l.drop k) := by
    rw [← encode_append, List.take_append_drop]
  rw [this]; exact List.take_left' rfl

theorem drop_encode (l : List Char) (k : Nat) :
    (encode l).drop (encode (l.take k)).length = encode (l.drop k) := by
  have : encode l = encode (l.take k) ++ encode (l.drop k) := by
    rw [← encode_append, List.take_append_drop]
  rw [this]; exact List.drop_left' rfl

/-- on a boundary both halves are valid text -/
theorem boundary_split {b : Bytes} (hb : Valid b) {i : Nat} (h : isCharBoundary b i = true) :
    ∃ l₁ l₂, chars b = l₁ ++ l₂ ∧ b.take i = encode l₁ ∧ b.drop i = encode l₂ ∧ i = (encode l₁).length := by
  obtain ⟨l, rfl⟩ := hb
  obtain ⟨k, hk, rfl⟩ := (boundary_iff l i).mp h
  exact ⟨l.take k, l.drop k, by simp, take_encode l k, drop_encode l k, rfl⟩

/-- the converse: a split of the text is a boundary -/
theorem boundary_of_split (l₁ l₂ : List Char) : isCharBoundary (encode (l₁ ++ l₂)) (encode l₁).length = true := by
  rw [boundary_iff]
  exact ⟨l₁.length, by simp, by simp⟩

end Bump.Str
