import BumpVerif.Proofs.Live
/-! The rewind of a failed initialiser that did allocate in the arena (the general case of
`alloc_try_with` / `try_alloc_try_with` returning `Err`). -/
namespace Bump
open Gen

/-- two chunks of a well-formed arena that contain a common address are the same chunk -/
theorem chunk_of_point {E a c d x} (h : ArenaWF E a) (hc : c ∈ a.chunks) (hd : d ∈ a.chunks)
    (hcx : c.data ≤ x ∧ x ≤ c.footer) (hdx : d.data ≤ x ∧ x ≤ d.footer) : c.data = d.data ∧ c.size = d.size := by
  have hwc := h.chunks c hc
  have hwd := h.chunks d hd
  have fc := footer_lt hwc
  have fd := footer_lt hwd
  have := FS
  have key : ∀ (l : List Chunk), l.Pairwise (fun c d => Disj c.data c.size d.data d.size) → c ∈ l → d ∈ l →
      c.data ≠ d.data → Disj c.data c.size d.data d.size := by
    intro l hl
    induction hl with
    | nil => intro hx; cases hx
    | cons hhead _ ih =>
      intro hx hy hne
      simp only [List.mem_cons] at hx hy
      rcases hx with rfl | hx <;> rcases hy with rfl | hy
      · exact absurd rfl hne
      · exact hhead _ hy
      · have := hhead _ hx; unfold Disj at *; omega
      · exact ih hx hy hne
  by_cases hne : c.data = d.data
  · refine ⟨hne, ?_⟩
    -- same start: if the sizes differed the chunks would still overlap, so compare through Disj with itself
    by_cases hs : c.size = d.size
    · exact hs
    · exfalso
      -- c and d are different list elements with the same data: find them in the pairwise list
      have : ∀ (l : List Chunk), l.Pairwise (fun c d => Disj c.data c.size d.data d.size) → c ∈ l → d ∈ l →
          c.size ≠ d.size → (∀ x ∈ l, FOOTER_SIZE ≤ x.size) → False := by
        intro l hl
        induction hl with
        | nil => intro hx; cases hx
        | cons hhead _ ih =>
          intro hx hy hne2 hsz
          simp only [List.mem_cons] at hx hy
          rcases hx with rfl | hx <;> rcases hy with rfl | hy
          · exact hne2 rfl
          · have := hhead _ hy; have := hsz _ List.mem_cons_self; have := hsz d (List.mem_cons_of_mem _ hy)
            unfold Disj at *; omega
          · have := hhead _ hx; have := hsz _ List.mem_cons_self; have := hsz c (List.mem_cons_of_mem _ hx)
            unfold Disj at *; omega
          · exact ih hx hy hne2 (fun x hx => hsz x (List.mem_cons_of_mem _ hx))
      exact this a.chunks h.disj hc hd hs (fun x hx => (h.chunks x hx).size_ge)
  · exfalso
    have := key a.chunks h.disj hc hd hne
    unfold Disj at this
    omega

theorem LiveInv.sublist {E s} {l l' : List Block} (inv : LiveInv E ⟨s, l⟩) (hs : l'.Sublist l) : LiveInv E ⟨s, l'⟩ :=
  ⟨inv.wf, fun b hb => inv.blocks b (hs.subset hb), inv.disj.sublist hs⟩

theorem InChunk.head_or_tail {a : Arena} {c cs b bn} (hc : a.chunks = c :: cs) (h : InChunk a b bn) :
    (c.ptr ≤ b ∧ b + bn ≤ c.footer) ∨ ∃ x ∈ cs, x.ptr ≤ b ∧ b + bn ≤ x.footer := by
  obtain ⟨x, hx, h1, h2⟩ := h
  rw [hc] at hx
  simp only [List.mem_cons] at hx
  rcases hx with rfl | hx
  · exact Or.inl ⟨h1, h2⟩
  · exact Or.inr ⟨x, hx, h1, h2⟩

/-- Raising the finger of the head chunk over a live block that starts at the finger (and removing
that block from the live set) keeps the invariant: every other live block in that chunk lies at or
above the end of the removed block. -/
theorem raise_finger_live {E} {s : St} {pre post : List Block} {c : Chunk} {cs : List Chunk} {slot pad : Nat}
    (inv : LiveInv E ⟨s, pre ++ [⟨slot, pad⟩] ++ post⟩) (hc : s.a.chunks = c :: cs) (hptr : c.ptr = slot)
    (hle : slot + pad ≤ c.footer) (hM : s.a.M ∣ slot + pad) :
    LiveInv E ⟨{ s with a := { s.a with chunks := { c with ptr := slot + pad } :: cs } }, pre ++ post⟩ := by
  have hw := inv.wf.chunks c (by rw [hc]; exact List.mem_cons_self)
  have hwf' := setPtr_wf inv.wf hc (p := slot + pad) (by have := hw.ptr_ge; omega) hle hM
  have hsub : (pre ++ post).Sublist (pre ++ [⟨slot, pad⟩] ++ post) := by
    rw [List.append_assoc]
    exact List.Sublist.append (List.Sublist.refl _) (List.sublist_append_right _ _)
  refine ⟨hwf', ?_, inv.disj.sublist hsub⟩
  intro b hbm
  have hbl : b ∈ pre ++ [⟨slot, pad⟩] ++ post := hsub.subset hbm
  obtain ⟨g1, g2, g3, g4⟩ := inv.blocks b hbl
  refine ⟨g1, g2, g3, ?_⟩
  by_cases hz : b.size = 0
  · exact Or.inl hz
  · right
    have hi := g4.resolve_left hz
    -- b and the removed block do not overlap (pairwise, whichever side b is on)
    have hrel : NoOverlap b ⟨slot, pad⟩ := by
      have hd := inv.disj
      rw [List.append_assoc, List.pairwise_append] at hd
      obtain ⟨_, hd2, hd3⟩ := hd
      rcases List.mem_append.mp hbm with hb1 | hb2
      · exact hd3 b hb1 ⟨slot, pad⟩ (by simp)
      · have := (List.pairwise_cons.mp (by simpa using hd2)).1 b hb2
        exact this.symm
    simp only [NoOverlap] at hrel
    rcases InChunk.head_or_tail hc hi with ⟨h1, h2⟩ | ⟨x, hx, h1, h2⟩
    · refine ⟨{ c with ptr := slot + pad }, List.mem_cons_self, ?_, h2⟩
      show slot + pad ≤ b.ptr
      rcases hrel with h0 | h0 | h0
      · exact absurd h0 hz
      · omega
      · unfold Disj at h0; omega
    · exact ⟨x, List.mem_cons_of_mem _ hx, h1, h2⟩

end Bump

namespace Bump
open Gen

/-- the reservation of a fallible initialiser's slot, with its alignment padding: the region
`[slot, slot+pad)` is what the rewind will give back -/
def PadShape (E : Nat) (a a1 : Arena) (slot pad : Nat) : Prop :=
  (a.chunks = [] ∧ a1 = a ∧ slot = E ∧ pad = 0) ∨
  (∃ (c : Chunk) (cs : List Chunk), a.chunks = c :: cs ∧ a1.chunks = { c with ptr := slot } :: cs ∧ slot + pad = c.ptr) ∨
  (∃ C : Chunk, a1.chunks = { C with ptr := slot } :: a.chunks ∧ slot + pad = C.footer ∧
      (∀ h ∈ a.chunks, Disj C.data C.size h.data h.size) ∧ Disj C.data C.size E FOOTER_SIZE)

theorem alloc_live_padded {E sz p} {s s1 : St} {live : List Block} (hE : EnvOK E) (inv : LiveInv E ⟨s, live⟩)
    (hwf' : ArenaWF E s1.a) (hm : s1.a.M = s.a.M) (hal : s.a.M ∣ p) (hpos : 0 < p)
    (sh : AllocShape E s.a s1.a p sz) :
    ∃ pad, sz ≤ pad ∧ PadShape E s.a s1.a p pad ∧ LiveInv E ⟨s1, live ++ [⟨p, pad⟩]⟩ := by
  have := FS
  rcases sh with ⟨hnil, ha, hp, hsz⟩ | ⟨c, cs, hc, hc', hge, hle⟩ | ⟨C, hc', hge, hle, hpf, hdis, hsd, hab⟩
  · -- chunk-less arena, zero-sized slot at the static address
    refine ⟨0, by omega, Or.inl ⟨hnil, ha, hp, rfl⟩, ?_⟩
    have hs1 : LiveInv E ⟨s1, live⟩ := live_same_arena inv ha
    refine ⟨hs1.wf, ?_, ?_⟩
    · intro b hb
      simp only [List.mem_append, List.mem_singleton] at hb
      rcases hb with hb | rfl
      · exact hs1.blocks b hb
      · exact ⟨by show s1.a.M ∣ p; rw [hm]; exact hal, hpos, by show p + 0 < 2 ^ 63; have := hE.hi; omega, Or.inl rfl⟩
    · rw [List.pairwise_append]
      refine ⟨inv.disj, List.pairwise_singleton _ _, ?_⟩
      intro b _ c hc
      simp only [List.mem_singleton] at hc; subst hc
      exact Or.inr (Or.inl rfl)
  · -- same chunk: pad up to the old finger
    have hw := inv.wf.chunks c (by rw [hc]; exact List.mem_cons_self)
    have hpl := hw.ptr_le
    have hfl := footer_lt hw
    have hhi := hw.hi
    refine ⟨c.ptr - p, by omega, Or.inr (Or.inl ⟨c, cs, hc, hc', by omega⟩), hwf', ?_, ?_⟩
    · intro b hb
      simp only [List.mem_append, List.mem_singleton] at hb
      rcases hb with hb | rfl
      · refine (inv.blocks b hb).mono hm ?_
        intro x xn ⟨y, hy, h1, h2⟩
        rw [hc] at hy
        simp only [List.mem_cons] at hy
        rcases hy with rfl | hy
        · exact ⟨{ y with ptr := p }, by rw [hc']; exact List.mem_cons_self, by show p ≤ x; omega, h2⟩
        · exact ⟨y, by rw [hc']; exact List.mem_cons_of_mem _ hy, h1, h2⟩
      · refine ⟨by show s1.a.M ∣ p; rw [hm]; exact hal, hpos, by show p + (c.ptr - p) < 2 ^ 63; omega, ?_⟩
        by_cases hz : c.ptr - p = 0
        · exact Or.inl hz
        · exact Or.inr ⟨{ c with ptr := p }, by rw [hc']; exact List.mem_cons_self, Nat.le_refl _, by show p + (c.ptr - p) ≤ c.footer; omega⟩
    · rw [List.pairwise_append]
      refine ⟨inv.disj, List.pairwise_singleton _ _, ?_⟩
      intro b hb x hx
      simp only [List.mem_singleton] at hx; subst hx
      obtain ⟨_, _, _, g4⟩ := inv.blocks b hb
      simp only [NoOverlap]
      by_cases hz : b.size = 0
      · exact Or.inl hz
      · right; right
        obtain ⟨y, hy, h1, h2⟩ := g4.resolve_left hz
        rw [hc] at hy
        simp only [List.mem_cons] at hy
        rcases hy with rfl | hy
        · unfold Disj; right; omega
        · have hwy := inv.wf.chunks y (by rw [hc]; exact List.mem_cons_of_mem _ hy)
          have hd := inv.wf.disj; rw [hc] at hd
          have hcy := (List.pairwise_cons.mp hd).1 y hy
          have := disj_of_chunks hw hwy hcy (x := p) (xn := c.ptr - p) ⟨hge, by omega⟩
            (y := b.ptr) (yn := b.size) ⟨by have := hwy.ptr_ge; omega, h2⟩
          unfold Disj at *; omega
  · -- fresh chunk: pad up to its footer
    have hw' := hwf'.chunks { C with ptr := p } (by rw [hc']; exact List.mem_cons_self)
    have hfl := footer_lt hw'
    have hhi := hw'.hi
    have hfe : ({ C with ptr := p } : Chunk).footer = C.footer := rfl
    refine ⟨C.footer - p, by omega, Or.inr (Or.inr ⟨C, hc', by omega, hdis, hsd⟩), hwf', ?_, ?_⟩
    · intro b hb
      simp only [List.mem_append, List.mem_singleton] at hb
      rcases hb with hb | rfl
      · refine (inv.blocks b hb).mono hm ?_
        intro x xn ⟨y, hy, h1, h2⟩
        exact ⟨y, by rw [hc']; exact List.mem_cons_of_mem _ hy, h1, h2⟩
      · refine ⟨by show s1.a.M ∣ p; rw [hm]; exact hal, hpos, by show p + (C.footer - p) < 2 ^ 63; omega, ?_⟩
        by_cases hz : C.footer - p = 0
        · exact Or.inl hz
        · exact Or.inr ⟨{ C with ptr := p }, by rw [hc']; exact List.mem_cons_self, Nat.le_refl _, by show p + (C.footer - p) ≤ C.footer; omega⟩
    · rw [List.pairwise_append]
      refine ⟨inv.disj, List.pairwise_singleton _ _, ?_⟩
      intro b hb x hx
      simp only [List.mem_singleton] at hx; subst hx
      obtain ⟨_, _, _, g4⟩ := inv.blocks b hb
      simp only [NoOverlap]
      by_cases hz : b.size = 0
      · exact Or.inl hz
      · right; right
        obtain ⟨y, hy, h1, h2⟩ := g4.resolve_left hz
        have hwy' := hwf'.chunks y (by rw [hc']; exact List.mem_cons_of_mem _ hy)
        have := disj_of_chunks hw' hwy' (hdis y hy) (x := p) (xn := C.footer - p) ⟨hge, by omega⟩
          (y := b.ptr) (yn := b.size) ⟨by have := hwy'.ptr_ge; omega, h2⟩
        unfold Disj at *; omega

end Bump

namespace Bump
open Gen

theorem head_contains_ptr {E a c cs} (h : ArenaWF E a) (hc : a.chunks = c :: cs) : c.data ≤ c.ptr ∧ c.ptr ≤ c.footer := by
  have hw := h.chunks c (by rw [hc]; exact List.mem_cons_self)
  exact ⟨hw.ptr_ge, hw.ptr_le⟩

/-- **The rewind is safe in general.** `s` is the state on entry, `s1` right after the slot was
reserved (with its padding `pad`), `s2` after the initialiser ran (it may have allocated, kept and
released blocks, even acquired chunks). Whatever the rewind does, the blocks that were live on
entry and the blocks the initialiser kept are all still in used parts, pairwise disjoint. -/
theorem rewind_live {E} {s s1 s2 : St} {live kept : List Block} {slot pad : Nat} (hE : EnvOK E)
    (wf0 : ArenaWF E s.a) (wf1 : ArenaWF E s1.a) (hm1 : s1.a.M = s.a.M)
    (hps : PadShape E s.a s1.a slot pad) (hpers : Persist s1.a s2.a)
    (inv2 : LiveInv E ⟨s2, live ++ [⟨slot, pad⟩] ++ kept⟩) :
    (rewind E (footerId s.a) (s.a.cur E).ptr slot s2).2 = .ok () ∧
    LiveInv E ⟨(rewind E (footerId s.a) (s.a.cur E).ptr slot s2).1, live ++ kept⟩ := by
  have := FS
  have hsub : (live ++ kept).Sublist (live ++ [⟨slot, pad⟩] ++ kept) := by
    rw [List.append_assoc]
    exact List.Sublist.append (List.Sublist.refl _) (List.sublist_append_right _ _)
  unfold rewind
  by_cases hl : isLast E s2.a slot = true
  · simp only [hl, ↓reduceIte]
    have hcp : (s2.a.cur E).ptr = slot := by simpa [isLast] using hl
    cases hc2 : s2.a.chunks with
    | nil =>
      -- nothing was ever acquired: the arena was chunk-less on entry and still is
      have hs1nil : s1.a.chunks = [] := by
        cases h1 : s1.a.chunks with
        | nil => rfl
        | cons x xs =>
          obtain ⟨y, hy, _, _⟩ := hpers.2 x (by rw [h1]; exact List.mem_cons_self)
          rw [hc2] at hy; cases hy
      rcases hps with ⟨hnil, ha, hslot, hpad⟩ | ⟨c, cs, _, hc1, _⟩ | ⟨C, hc1, _⟩
      · have hf2 : footerId s2.a = none := by simp [footerId, hc2]
        have hf0 : footerId s.a = none := by simp [footerId, hnil]
        have hr : (s.a.cur E).ptr = E := by simp [Arena.cur, hnil, emptyChunk]
        simp only [hf2, hf0, beq_self_eq_true, ↓reduceIte, hr, storePtr, setCurPtr, hc2]
        exact ⟨(by triv), inv2.sublist hsub⟩
      · rw [hs1nil] at hc1; cases hc1
      · rw [hs1nil] at hc1; cases hc1
    | cons H Hs =>
      have hcur2 : s2.a.cur E = H := by simp [Arena.cur, hc2]
      rw [hcur2] at hcp
      have hH := head_contains_ptr inv2.wf hc2
      have hHmem : H ∈ s2.a.chunks := by rw [hc2]; exact List.mem_cons_self
      have hwH := inv2.wf.chunks H hHmem
      have hM2 : s2.a.M = s.a.M := by rw [hpers.1, hm1]
      rcases hps with ⟨hnil, ha, hslot, hpad⟩ | ⟨c, cs, hc0, hc1, hsp⟩ | ⟨C, hc1, hsp, hdis, hsd⟩
      · -- chunk-less on entry with a zero-sized slot at the static: a real chunk's finger is never there
        exfalso
        have := inv2.wf.sdisj H hHmem
        have f := footer_lt hwH
        unfold Disj at this
        omega
      · -- the slot went into the chunk that was current on entry
        have hc'mem : ({ c with ptr := slot } : Chunk) ∈ s1.a.chunks := by rw [hc1]; exact List.mem_cons_self
        have hwc' := wf1.chunks _ hc'mem
        obtain ⟨c'', hc''mem, hd'', hs''⟩ := hpers.2 _ hc'mem
        have hwc'' := inv2.wf.chunks c'' hc''mem
        have hcc : c''.data ≤ slot ∧ slot ≤ c''.footer := by
          have h1 := hwc'.ptr_ge; have h2 := hwc'.ptr_le
          simp only [Chunk.footer] at h2 ⊢
          simp only at hd'' hs'' h1 h2
          rw [hd'', hs'']; exact ⟨h1, h2⟩
        obtain ⟨e1, e2⟩ := chunk_of_point inv2.wf hHmem hc''mem ⟨by omega, by omega⟩ hcc
        have hHf : H.footer = c.footer := by
          simp only [Chunk.footer]; rw [e1, e2, hd'', hs'']
        have hf2 : footerId s2.a = some c.footer := by simp [footerId, hc2, hHf]
        have hf0 : footerId s.a = some c.footer := by simp [footerId, hc0]
        have hr : (s.a.cur E).ptr = c.ptr := by simp [Arena.cur, hc0]
        simp only [hf2, hf0, beq_self_eq_true, ↓reduceIte, hr, storePtr, setCurPtr, hc2]
        have hw0 := wf0.chunks c (by rw [hc0]; exact List.mem_cons_self)
        have hraise := raise_finger_live (pad := pad) inv2 hc2 hcp (by rw [hsp, hHf]; exact hw0.ptr_le)
          (by rw [hsp, hM2]; exact hw0.ptr_al)
        rw [hsp] at hraise
        exact ⟨(by triv), hraise⟩
      · -- the slot forced a fresh chunk, which is still the current one
        have hC'mem : ({ C with ptr := slot } : Chunk) ∈ s1.a.chunks := by rw [hc1]; exact List.mem_cons_self
        have hwC' := wf1.chunks _ hC'mem
        obtain ⟨C'', hC''mem, hd'', hs''⟩ := hpers.2 _ hC'mem
        have hCC : C''.data ≤ slot ∧ slot ≤ C''.footer := by
          have h1 := hwC'.ptr_ge; have h2 := hwC'.ptr_le
          simp only [Chunk.footer] at h2 ⊢
          simp only at hd'' hs'' h1 h2
          rw [hd'', hs'']; exact ⟨h1, h2⟩
        obtain ⟨e1, e2⟩ := chunk_of_point inv2.wf hHmem hC''mem ⟨by omega, by omega⟩ hCC
        have hHf : H.footer = C.footer := by
          simp only [Chunk.footer]; rw [e1, e2, hd'', hs'']
        have hne : (footerId s2.a == footerId s.a) = false := by
          have hf2 : footerId s2.a = some H.footer := by simp [footerId, hc2]
          rw [hf2]
          cases hc0 : s.a.chunks with
          | nil => simp [footerId, hc0]
          | cons h0 hs0 =>
            simp only [footerId, hc0, List.head?_cons, Option.map_some, beq_eq_false_iff_ne, ne_eq, Option.some.injEq]
            intro hfe
            -- h0 persists into s2; it would share its footer point with H, hence its start with C: but C is disjoint from h0
            have h0mem1 : h0 ∈ s1.a.chunks := by rw [hc1, hc0]; exact List.mem_cons_of_mem _ List.mem_cons_self
            obtain ⟨h0'', hh0mem, hd0, hs0'⟩ := hpers.2 _ h0mem1
            have hwh0'' := inv2.wf.chunks h0'' hh0mem
            have hf0'' : h0''.footer = h0.footer := by simp only [Chunk.footer]; rw [hd0, hs0']
            have hpt : h0''.data ≤ H.footer ∧ H.footer ≤ h0''.footer := by
              rw [hfe, hf0'']
              have := hwh0''.ptr_ge; have := hwh0''.ptr_le
              rw [← hf0'']; omega
            obtain ⟨e3, _⟩ := chunk_of_point inv2.wf hHmem hh0mem ⟨by omega, Nat.le_refl _⟩ hpt
            have hd := hdis h0 (by rw [hc0]; exact List.mem_cons_self)
            have hw00 := wf0.chunks h0 (by rw [hc0]; exact List.mem_cons_self)
            have := hw00.size_ge
            have := hwC'.size_ge
            simp only at this
            unfold Disj at hd
            have hCd : C.data = h0.data := by rw [← hd'', ← e1, e3, hd0]
            omega
        simp only [hne, Bool.false_eq_true, ↓reduceIte, hcur2, storePtr, setCurPtr, hc2]
        have hraise := raise_finger_live (pad := pad) inv2 hc2 hcp (by rw [hsp, hHf]; exact Nat.le_refl _)
          (by rw [hsp, ← hHf]; exact Nat.dvd_trans inv2.wf.m_dvd16 (footer_al hwH))
        rw [hsp, ← hHf] at hraise
        exact ⟨(by triv), hraise⟩
  · simp only [hl, Bool.false_eq_true, ↓reduceIte]
    exact ⟨(by triv), inv2.sublist hsub⟩

end Bump

namespace Bump
open Gen

theorem innerValid_of_match {inner : List Inner} (h : ∀ i ∈ inner, InnerValid i) :
    ∀ i ∈ inner, match i with | .keep s a => IsPow2 a ∧ s + a ≤ 2 ^ 63 | .release s a => IsPow2 a ∧ s + a ≤ 2 ^ 63 := by
  intro i hi; have := h i hi; cases i <;> exact this

/-- **One step, all operations.** As `sysStep_live`, including initialisers that allocate in the
arena (keep and release blocks, acquire chunks) and then fail. -/
theorem sysStep_live_full {E} (hE : EnvOK E) (y : Sys) (op : Op) (inv : LiveInv E y) (hv : OpValidFull y op) :
    (∀ w, (sysStep E op y).2 ≠ .bad w) ∧ ((sysStep E op y).2 ≠ .envBad → LiveInv E (sysStep E op y).1) := by
  cases op with
  | atw sz al ok inner f =>
    obtain ⟨hA, hlay, hin⟩ := hv
    cases ok with
    | true => exact sysStep_live hE y _ inv ⟨hA, hlay, innerValid_of_match hin, Or.inl rfl⟩
    | false =>
      obtain ⟨s, live⟩ := y
      have sp := allocMaybe_spec f s hE inv.wf hA hlay
      simp only [sysStep, step]
      cases ho : (allocMaybe E f sz al s).2 with
      | ok slot =>
        obtain ⟨wf1, _, hMs, hpos, hsh, _⟩ := sp.ok slot ho
        obtain ⟨pad, _, hps, inv1⟩ := alloc_live_padded hE inv wf1 sp.m_eq hMs hpos hsh
        unfold allocTryWith
        cases hm : allocMaybe E f sz al s with
        | mk s1 o1 =>
          rw [hm] at ho wf1 hps inv1
          have hm1 := sp.m_eq; rw [hm] at hm1
          simp only at ho wf1 hps inv1 hm1
          subst ho
          obtain ⟨b1, b2, b3, b4⟩ := runInner_live hE inner s1 (live ++ [⟨slot, pad⟩]) [] inv1 hin
          simp only [bindO]
          cases hri : runInner E inner s1 [] with
          | mk s2 o2 =>
            rw [hri] at b1 b2 b3 b4
            simp only at b1 b2 b3 b4
            cases o2 with
            | ok ps =>
              obtain ⟨ps', hpe, hl, hpers⟩ := b4 ps rfl
              simp only [List.nil_append] at hpe
              subst hpe
              obtain ⟨r1, r2⟩ := rewind_live (s := s) (s1 := s1) (s2 := s2) hE inv.wf wf1 hm1 hps hpers hl
              simp only [Bool.false_eq_true, ↓reduceIte]
              cases hrw : rewind E (footerId s.a) (s.a.cur E).ptr slot s2 with
              | mk s3 o3 =>
                rw [hrw] at r1 r2
                simp only at r1 r2
                subst r1
                simp only [Res.ofOutcome, id, liveAfter]
                exact ⟨(by intro w; simp), fun _ => r2⟩
            | err => exact absurd rfl b2
            | panic => exact absurd rfl b3
            | bad w => exact absurd rfl (b1 w)
            | envBad =>
              simp only [Res.ofOutcome]
              exact ⟨(by intro w; simp), fun h => absurd rfl h⟩
      | err =>
        obtain ⟨e1, _, _⟩ := atw_not_ok_res (E := E) (sz := sz) (al := al) false inner f s
        rw [e1 ho]
        simp only [liveAfter]
        refine ⟨(by intro w; simp), fun _ => ?_⟩
        rcases atw_not_ok (E := E) (sz := sz) (al := al) false inner f s with he | ⟨p, hp⟩
        · rw [he]; exact allocPost_fail_live inv sp (Or.inl ho)
        · rw [ho] at hp; cases hp
      | panic =>
        obtain ⟨_, e2, _⟩ := atw_not_ok_res (E := E) (sz := sz) (al := al) false inner f s
        rw [e2 ho]
        simp only [liveAfter]
        refine ⟨(by intro w; simp), fun _ => ?_⟩
        rcases atw_not_ok (E := E) (sz := sz) (al := al) false inner f s with he | ⟨p, hp⟩
        · rw [he]; exact allocPost_fail_live inv sp (Or.inr ho)
        · rw [ho] at hp; cases hp
      | bad w => exact absurd ho (sp.nobad w)
      | envBad =>
        obtain ⟨_, _, e3⟩ := atw_not_ok_res (E := E) (sz := sz) (al := al) false inner f s
        rw [e3 ho]
        exact ⟨(by intro w; simp), fun h => absurd rfl h⟩
  | alloc sz al f => exact sysStep_live hE y _ inv hv
  | array esz eal n f => exact sysStep_live hE y _ inv hv
  | tfill esz eal n errat => exact sysStep_live hE y _ inv hv
  | aalloc sz al => exact sysStep_live hE y _ inv hv
  | afree p sz al => exact sysStep_live hE y _ inv hv
  | agrow p osz oal nsz nal z => exact sysStep_live hE y _ inv hv
  | ashrink p osz oal nsz nal => exact sysStep_live hE y _ inv hv
  | reset => exact sysStep_live hE y _ inv hv
  | limit v => exact sysStep_live hE y _ inv hv

/-- admissible histories, full operation alphabet -/
def RunOKFull (E : Nat) : List Op → Sys → Prop
  | [], _ => True
  | op :: ops, y => OpValidFull y op ∧ (sysStep E op y).2 ≠ .envBad ∧ RunOKFull E ops (sysStep E op y).1

/-- **All histories, all operations.** -/
theorem sysRun_live_full {E} (hE : EnvOK E) : ∀ (ops : List Op) (y : Sys), LiveInv E y → RunOKFull E ops y →
    LiveInv E (sysRun E ops y).1 ∧ ∀ r ∈ (sysRun E ops y).2, ∀ w, r ≠ .bad w := by
  intro ops
  induction ops with
  | nil => intro y inv _; exact ⟨inv, by intro r hr; cases hr⟩
  | cons op ops ih =>
    intro y inv hrun
    obtain ⟨hv, hne, hrest⟩ := hrun
    obtain ⟨h1, h2⟩ := sysStep_live_full hE y op inv hv
    obtain ⟨i1, i2⟩ := ih (sysStep E op y).1 (h2 hne) hrest
    refine ⟨i1, ?_⟩
    intro r hr
    simp only [sysRun, List.mem_cons] at hr
    rcases hr with rfl | hr
    · exact h1
    · exact i2 r hr

end Bump
