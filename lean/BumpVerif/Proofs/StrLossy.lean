import BumpVerif.Proofs.StrOps
import BumpVerif.Model.Lossy
/-!
# The lossy decoder: output always valid, identity on valid input

`lossyStep` (one iteration of the `while` loop of `Utf8LossyChunksIter::next`) is re-expressed
on the suffix `source[i..]` (`sufStep`) and shown to accept exactly what the Table 3-7 decoder
`decodeHead` accepts, with the same length — through the GENERATED width table, whose 256
entries are checked against the RFC 3629 lead-byte classes by kernel evaluation.
-/
set_option linter.unusedSimpArgs false
namespace Bump.Str

/-- lead-byte classes of RFC 3629 -/
def rfcWidth (n : Nat) : Nat :=
  if n < 0x80 then 1 else if n < 0xC2 then 0 else if n < 0xE0 then 2 else if n < 0xF0 then 3
  else if n < 0xF5 then 4 else 0

/-- What the decoder needs of the generated table (bytes below 128 never reach the lookup):
an entry is 2 exactly for the two-byte leads `C2..DF`, it is 3 for `E0..EF` and 4 for `F0..F4`.
(Entries for other bytes only matter in that they are not 2: widths 3 and 4 are re-checked
against the lead by the `match` arms.)  Today's table equals `rfcWidth` everywhere. -/
def TableOK : Prop :=
  Gen.UTF8_CHAR_WIDTH.length = 256 ∧ ∀ n, n < 256 → 128 ≤ n →
    ((Gen.UTF8_CHAR_WIDTH.getD n 0 = 2 ↔ rfcWidth n = 2) ∧ (rfcWidth n = 3 → Gen.UTF8_CHAR_WIDTH.getD n 0 = 3)
      ∧ (rfcWidth n = 4 → Gen.UTF8_CHAR_WIDTH.getD n 0 = 4))

instance : Decidable TableOK := by unfold TableOK; infer_instance

/-- all 128 relevant entries of the regenerated table, checked by kernel evaluation -/
theorem table_ok : TableOK := by decide +kernel

theorem width_two (b : UInt8) (h0 : 0xC2 ≤ b.toNat) (h1 : b.toNat < 0xE0) : utf8CharWidth b = 2 :=
  ((table_ok.2 b.toNat (UInt8.toNat_lt b) (by omega)).1).mpr (by simp only [rfcWidth]; (repeat' split) <;> omega)

theorem width_three (b : UInt8) (h0 : 0xE0 ≤ b.toNat) (h1 : b.toNat < 0xF0) : utf8CharWidth b = 3 :=
  (table_ok.2 b.toNat (UInt8.toNat_lt b) (by omega)).2.1 (by simp only [rfcWidth]; (repeat' split) <;> omega)

theorem width_four (b : UInt8) (h0 : 0xF0 ≤ b.toNat) (h1 : b.toNat < 0xF5) : utf8CharWidth b = 4 :=
  (table_ok.2 b.toNat (UInt8.toNat_lt b) (by omega)).2.2 (by simp only [rfcWidth]; (repeat' split) <;> omega)

theorem width_ne_two (b : UInt8) (h0 : 0x80 ≤ b.toNat) (h : b.toNat < 0xC2 ∨ 0xF5 ≤ b.toNat) : utf8CharWidth b ≠ 2 := by
  intro hw
  have := ((table_ok.2 b.toNat (UInt8.toNat_lt b) (by omega)).1).mp hw
  simp only [rfcWidth] at this
  (repeat' split at this) <;> omega

theorem notContTag_aux : ∀ n, n < 256 → notContTag (UInt8.ofNat n) = !(isCont (UInt8.ofNat n)) := by
  decide +kernel

theorem notContTag_eq (b : UInt8) : notContTag b = !(isCont b) := by
  have := notContTag_aux b.toNat (UInt8.toNat_lt b)
  rwa [UInt8.ofNat_toNat] at this

theorem bad3_false_iff (b s : UInt8) : bad3 b s = false ↔
    0xE0 ≤ b.toNat ∧ b.toNat ≤ 0xEF ∧ 0x80 ≤ s.toNat ∧ s.toNat ≤ 0xBF ∧ (b.toNat = 0xE0 → 0xA0 ≤ s.toNat)
      ∧ (b.toNat = 0xED → s.toNat ≤ 0x9F) := by
  simp only [bad3, Bool.not_eq_false', decide_eq_true_eq]; omega

theorem bad4_false_iff (b s : UInt8) : bad4 b s = false ↔
    0xF0 ≤ b.toNat ∧ b.toNat ≤ 0xF4 ∧ 0x80 ≤ s.toNat ∧ s.toNat ≤ 0xBF ∧ (b.toNat = 0xF0 → 0x90 ≤ s.toNat)
      ∧ (b.toNat = 0xF4 → s.toNat ≤ 0x8F) := by
  simp only [bad4, Bool.not_eq_false', decide_eq_true_eq]; omega

theorem safeGet_drop (src : Bytes) (i k : Nat) : safeGet src (i + k) = (src.drop i).getD k 0 := by
  unfold safeGet
  rw [List.getD_eq_getElem?_getD, List.getD_eq_getElem?_getD, List.getElem?_drop]
  split
  · rename_i h; rw [List.getElem?_eq_none (by omega)]; rfl
  · rfl

/-- result of one loop iteration seen from the suffix `source[i..]` -/
inductive SufR where
  | adv (n : Nat)
  | err (k : Nat)
  deriving DecidableEq

/-- `lossyStep` as a function of the suffix starting at `i` -/
def sufStep : Bytes → SufR
  | [] => .err 0
  | b0 :: t =>
    if b0.toNat < 128 then .adv 1
    else
      let w := utf8CharWidth b0
      if w = 2 then
        if notContTag (t.getD 0 0) then .err 1 else .adv 2
      else if w = 3 then
        if bad3 b0 (t.getD 0 0) then .err 1
        else if notContTag (t.getD 1 0) then .err 2 else .adv 3
      else if w = 4 then
        if bad4 b0 (t.getD 0 0) then .err 1
        else if notContTag (t.getD 1 0) then .err 2
        else if notContTag (t.getD 2 0) then .err 3 else .adv 4
      else .err 1

theorem lossyStep_eq (src : Bytes) (i : Nat) (h : i < src.length) :
    lossyStep src i = match sufStep (src.drop i) with
      | .adv n => .adv (i + n)
      | .err k => .err i (i + k) := by
  have hd : src.drop i = src.getD i 0 :: src.drop (i + 1) := by
    rw [List.getD_eq_getElem?_getD, List.getElem?_eq_getElem h, Option.getD_some]
    exact List.drop_eq_getElem_cons h
  have g0 := safeGet_drop src (i + 1) 0
  have g1 := safeGet_drop src (i + 1) 1
  have g2 := safeGet_drop src (i + 1) 2
  simp only [Nat.add_zero] at g0
  rw [hd]
  simp only [lossyStep, sufStep, g0, g1, g2, Nat.add_assoc]
  (repeat' split) <;> simp_all
theorem isCont_zero : isCont 0 = false := by decide
theorem bad3_zero (b : UInt8) : bad3 b 0 = true := by
  cases h : bad3 b 0 with
  | true => rfl
  | false => have := (bad3_false_iff b 0).mp h; simp at this
theorem bad4_zero (b : UInt8) : bad4 b 0 = true := by
  cases h : bad4 b 0 with
  | true => rfl
  | false => have := (bad4_false_iff b 0).mp h; simp at this

theorem bad3_eq (b s : UInt8) (h0 : 0xE0 ≤ b.toNat) (h1 : b.toNat < 0xF0) :
    bad3 b s = !(inRange (secondLo b.toNat) (secondHi b.toNat) s) := by
  cases h : bad3 b s with
  | false =>
    have := (bad3_false_iff b s).mp h
    symm; rw [Bool.not_eq_false', second_iff]; omega
  | true =>
    symm; rw [Bool.not_eq_true', ← Bool.not_eq_true, second_iff]
    intro hc
    have : bad3 b s = false := (bad3_false_iff b s).mpr (by omega)
    rw [h] at this; cases this

theorem bad4_eq (b s : UInt8) (h0 : 0xF0 ≤ b.toNat) (h1 : b.toNat < 0xF5) :
    bad4 b s = !(inRange (secondLo b.toNat) (secondHi b.toNat) s) := by
  cases h : bad4 b s with
  | false =>
    have := (bad4_false_iff b s).mp h
    symm; rw [Bool.not_eq_false', second_iff]; omega
  | true =>
    symm; rw [Bool.not_eq_true', ← Bool.not_eq_true, second_iff]
    intro hc
    have : bad4 b s = false := (bad4_false_iff b s).mpr (by omega)
    rw [h] at this; cases this

theorem sufStep_invalid_lead (b0 : UInt8) (t : Bytes) (h0 : 0x80 ≤ b0.toNat)
    (h : b0.toNat < 0xC2 ∨ 0xF5 ≤ b0.toNat) : sufStep (b0 :: t) = .err 1 := by
  have h2 := width_ne_two b0 h0 h
  have c1 : ¬ b0.toNat < 128 := by omega
  have b3 : ∀ s, bad3 b0 s = true := by
    intro s; cases hb : bad3 b0 s with
    | true => rfl
    | false => have := (bad3_false_iff b0 s).mp hb; omega
  have b4 : ∀ s, bad4 b0 s = true := by
    intro s; cases hb : bad4 b0 s with
    | true => rfl
    | false => have := (bad4_false_iff b0 s).mp hb; omega
  simp only [sufStep, c1, if_false, h2, b3, b4, if_true]
  (repeat' split) <;> rfl

/-- the loop body accepts exactly the scalar values Table 3-7 accepts, with the same length -/
theorem sufStep_decode (t : Bytes) :
    (∀ n, sufStep t = .adv n → ∃ c, decodeHead t = some (c, n)) ∧
    (∀ k, sufStep t = .err k → decodeHead t = none) := by
  match t with
  | [] => simp [sufStep, decodeHead]
  | b0 :: t' =>
    by_cases c1 : b0.toNat < 0x80
    · simp [sufStep, c1, decodeHead_1 _ _ c1]
    · have c1' : ¬ b0.toNat < 128 := c1
      by_cases c2 : b0.toNat < 0xC2
      · simp [sufStep_invalid_lead b0 t' (by omega) (Or.inl c2), decodeHead, c1, c2]
      · by_cases c3 : b0.toNat < 0xE0
        · have hw := width_two b0 (by omega) c3
          match t' with
          | [] => simp [sufStep, c1', hw, notContTag_eq, isCont_zero, decodeHead, c1, c2, c3]
          | b1 :: t'' =>
            by_cases k1 : isCont b1 = true
            · simp [sufStep, c1', hw, notContTag_eq, k1, decodeHead_2 _ _ _ (by omega) c3 k1]
            · simp [sufStep, c1', hw, notContTag_eq, k1, decodeHead, c1, c2, c3]
        · by_cases c4 : b0.toNat < 0xF0
          · have hw := width_three b0 (by omega) c4
            match t' with
            | [] => simp [sufStep, c1', hw, bad3_zero, decodeHead, c1, c2, c3, c4]
            | [b1] =>
              by_cases k1 : inRange (secondLo b0.toNat) (secondHi b0.toNat) b1 = true
              · simp [sufStep, c1', hw, bad3_eq _ _ (Nat.le_of_not_lt c3) c4, k1, notContTag_eq, isCont_zero, decodeHead, c1, c2, c3, c4]
              · simp [sufStep, c1', hw, bad3_eq _ _ (Nat.le_of_not_lt c3) c4, k1, decodeHead, c1, c2, c3, c4]
            | b1 :: b2 :: t'' =>
              by_cases k1 : inRange (secondLo b0.toNat) (secondHi b0.toNat) b1 = true
              · by_cases k2 : isCont b2 = true
                · simp [sufStep, c1', hw, bad3_eq _ _ (Nat.le_of_not_lt c3) c4, k1, k2, notContTag_eq,
                    decodeHead_3 _ _ _ _ (Nat.le_of_not_lt c3) c4 k1 k2]
                · simp [sufStep, c1', hw, bad3_eq _ _ (Nat.le_of_not_lt c3) c4, k1, k2, notContTag_eq, decodeHead, c1, c2, c3, c4]
              · simp [sufStep, c1', hw, bad3_eq _ _ (Nat.le_of_not_lt c3) c4, k1, decodeHead, c1, c2, c3, c4]
          · by_cases c5 : b0.toNat < 0xF5
            · have hw := width_four b0 (by omega) c5
              have e4 := fun s => bad4_eq b0 s (Nat.le_of_not_lt c4) c5
              match t' with
              | [] => simp [sufStep, c1', hw, bad4_zero, decodeHead, c1, c2, c3, c4, c5]
              | [b1] =>
                by_cases k1 : inRange (secondLo b0.toNat) (secondHi b0.toNat) b1 = true
                · simp [sufStep, c1', hw, e4, k1, notContTag_eq, isCont_zero, decodeHead, c1, c2, c3, c4, c5]
                · simp [sufStep, c1', hw, e4, k1, decodeHead, c1, c2, c3, c4, c5]
              | [b1, b2] =>
                by_cases k1 : inRange (secondLo b0.toNat) (secondHi b0.toNat) b1 = true
                · by_cases k2 : isCont b2 = true
                  · simp [sufStep, c1', hw, e4, k1, k2, notContTag_eq, isCont_zero, decodeHead, c1, c2, c3, c4, c5]
                  · simp [sufStep, c1', hw, e4, k1, k2, notContTag_eq, decodeHead, c1, c2, c3, c4, c5]
                · simp [sufStep, c1', hw, e4, k1, decodeHead, c1, c2, c3, c4, c5]
              | b1 :: b2 :: b3 :: t'' =>
                by_cases k1 : inRange (secondLo b0.toNat) (secondHi b0.toNat) b1 = true
                · by_cases k2 : isCont b2 = true
                  · by_cases k3 : isCont b3 = true
                    · simp [sufStep, c1', hw, e4, k1, k2, k3, notContTag_eq,
                        decodeHead_4 _ _ _ _ _ (Nat.le_of_not_lt c4) c5 k1 k2 k3]
                    · simp [sufStep, c1', hw, e4, k1, k2, k3, notContTag_eq, decodeHead, c1, c2, c3, c4, c5]
                  · simp [sufStep, c1', hw, e4, k1, k2, notContTag_eq, decodeHead, c1, c2, c3, c4, c5]
                · simp [sufStep, c1', hw, e4, k1, decodeHead, c1, c2, c3, c4, c5]
            · simp [sufStep_invalid_lead b0 t' (by omega) (Or.inr (by omega)), decodeHead, c1, c2, c3, c4, c5]
end Bump.Str

namespace Bump.Str

theorem sufStep_err_pos {t : Bytes} {k : Nat} (ht : t ≠ []) (h : sufStep t = .err k) : 1 ≤ k := by
  match t, ht with
  | b0 :: t', _ =>
    simp only [sufStep] at h
    (repeat' split at h) <;> simp_all <;> omega

/-- what a chunk returned by `next` satisfies -/
structure ChunkOK (src : Bytes) (ch : Chunk) : Prop where
  valid : Valid ch.valid
  cat : src = ch.valid ++ ch.broken ++ ch.rest
  cases : (ch.broken = [] ∧ ch.rest = [] ∧ ch.valid = src) ∨
          (ch.broken ≠ [] ∧ ch.valid.length < src.length ∧ decodeHead (ch.broken ++ ch.rest) = none)

theorem take_succ_valid {src : Bytes} {i n : Nat} {c : Char} (hv : Valid (src.take i))
    (hd : src.drop i = encChar c ++ (src.drop i).drop n) (hn : n = (encChar c).length) :
    Valid (src.take (i + n)) := by
  have : src.take (i + n) = src.take i ++ (src.drop i).take n := by
    rw [List.take_add]
  rw [this]
  apply Valid_append hv
  rw [hd, hn, List.take_left' rfl]
  exact Valid_encChar c

theorem lossyScan_spec (src : Bytes) : ∀ (fuel i : Nat), i ≤ src.length → src.length - i < fuel →
    Valid (src.take i) → ∃ ch, lossyScan src fuel i = some ch ∧ ChunkOK src ch := by
  intro fuel
  induction fuel with
  | zero => intro i _ h; omega
  | succ f ih =>
    intro i hi hf hv
    by_cases hlt : i < src.length
    · simp only [lossyScan, hlt, if_true, lossyStep_eq src i hlt]
      have hne : src.drop i ≠ [] := by
        intro h; have := congrArg List.length h; simp at this; omega
      cases hs : sufStep (src.drop i) with
      | adv n =>
        obtain ⟨c, hc⟩ := (sufStep_decode (src.drop i)).1 n hs
        obtain ⟨hd, hn⟩ := decodeHead_some hc
        have hpos := encChar_length_pos c
        have hle : i + n ≤ src.length := by
          have := congrArg List.length hd
          simp only [List.length_drop, List.length_append] at this; omega
        simp only []
        exact ih (i + n) hle (by omega) (take_succ_valid hv hd hn)
      | err k =>
        have hk := sufStep_err_pos hne hs
        have hnone := (sufStep_decode (src.drop i)).2 k hs
        simp only []
        refine ⟨_, rfl, hv, ?_, Or.inr ⟨?_, ?_, ?_⟩⟩
        · simp only [Nat.add_sub_cancel_left]
          rw [List.append_assoc, ← List.drop_drop, List.take_append_drop, List.take_append_drop]
        · simp only [Nat.add_sub_cancel_left]
          intro h
          have := congrArg List.length h
          simp only [List.length_take, List.length_drop, List.length_nil] at this; omega
        · simp only [List.length_take]; omega
        · simp only [Nat.add_sub_cancel_left]
          rw [← List.drop_drop, List.take_append_drop]; exact hnone
    · have hi' : i = src.length := by omega
      simp only [lossyScan, hlt, if_false]
      refine ⟨_, rfl, ?_, by simp, Or.inl ⟨rfl, rfl, rfl⟩⟩
      rw [hi', List.take_length] at hv; exact hv

theorem lossyNext_spec {src : Bytes} (hne : src ≠ []) : ∃ ch, lossyNext src = some ch ∧ ChunkOK src ch := by
  simp only [lossyNext, hne, if_false]
  exact lossyScan_spec src _ 0 (Nat.zero_le _) (by omega) (by simpa using Valid_nil)

theorem REPLACEMENT_valid : Valid REPLACEMENT := ⟨['�'], by decide⟩

theorem ChunkOK.rest_lt {src : Bytes} {ch : Chunk} (h : ChunkOK src ch) (hne : src ≠ []) :
    ch.rest.length < src.length := by
  rcases h.cases with ⟨-, hr, -⟩ | ⟨hb, -, -⟩
  · rw [hr]; cases src with
    | nil => exact absurd rfl hne
    | cons => simp
  · have := congrArg List.length h.cat
    simp only [List.length_append] at this
    have : 0 < ch.broken.length := List.length_pos_iff.mpr hb
    omega

theorem lossyRest_valid : ∀ (fuel : Nat) (src res : Bytes), src.length < fuel → Valid res →
    ∃ out, lossyRest fuel src res = .ok out ∧ Valid out := by
  intro fuel
  induction fuel with
  | zero => intro src res h; omega
  | succ f ih =>
    intro src res hf hv
    by_cases hne : src = []
    · subst hne; exact ⟨res, by simp [lossyRest, lossyNext], hv⟩
    · obtain ⟨ch, hch, hok⟩ := lossyNext_spec hne
      simp only [lossyRest, hch]
      have hlt := hok.rest_lt hne
      apply ih _ _ (by omega)
      have h1 : Valid (pushStr res ch.valid) := Valid_append hv hok.valid
      split
      · exact Valid_append h1 REPLACEMENT_valid
      · exact h1

/-- **`lossy_valid`**: for every byte string, `from_utf8_lossy_in` returns normally (no panic —
the `debug_assert!` cannot fire —, no `bad` state) and its output is valid UTF-8. -/
theorem fromUtf8Lossy_valid (dbg : Bool) (v : Bytes) :
    ∃ out, fromUtf8Lossy dbg v = .ok out ∧ Valid out := by
  by_cases hne : v = []
  · subst hne; exact ⟨[], by simp [fromUtf8Lossy, lossyNext], Valid_nil⟩
  · obtain ⟨ch, hch, hok⟩ := lossyNext_spec hne
    simp only [fromUtf8Lossy, hch]
    by_cases hlen : ch.valid.length = v.length
    · simp only [hlen, if_true]
      rcases hok.cases with ⟨hb, -, hval⟩ | ⟨-, hlt, -⟩
      · refine ⟨v, by simp [hb], ?_⟩
        rw [← hval]; exact hok.valid
      · omega
    · simp only [hlen, if_false]
      have hlt := hok.rest_lt hne
      apply lossyRest_valid _ _ _ (by omega)
      have h1 : Valid (pushStr [] ch.valid) := by simpa [pushStr] using hok.valid
      split
      · exact Valid_append h1 REPLACEMENT_valid
      · exact h1

/-! ## identity on valid input -/

theorem lossyScan_encode (l₂ : List Char) : ∀ (l₁ : List Char) (fuel : Nat),
    (encode l₂).length < fuel →
    lossyScan (encode (l₁ ++ l₂)) fuel (encode l₁).length = some ⟨encode (l₁ ++ l₂), [], []⟩ := by
  induction l₂ with
  | nil =>
    intro l₁ fuel hf
    match fuel, hf with
    | f + 1, _ => simp [lossyScan]
  | cons c l₂ ih =>
    intro l₁ fuel hf
    match fuel, hf with
    | f + 1, hf =>
      have hpos := encChar_length_pos c
      have hlt : (encode l₁).length < (encode (l₁ ++ c :: l₂)).length := by
        simp only [encode_append, encode_cons, List.length_append]; omega
      have hd : (encode (l₁ ++ c :: l₂)).drop (encode l₁).length = encChar c ++ encode l₂ := by
        rw [encode_append, List.drop_left' rfl, encode_cons]
      simp only [lossyScan, hlt, if_true, lossyStep_eq _ _ hlt, hd]
      have hdec := decodeHead_enc c (encode l₂)
      cases hs : sufStep (encChar c ++ encode l₂) with
      | err k =>
        have := (sufStep_decode _).2 k hs
        rw [hdec] at this; cases this
      | adv n =>
        obtain ⟨c', hc'⟩ := (sufStep_decode _).1 n hs
        rw [hdec] at hc'
        simp only [Option.some.injEq, Prod.mk.injEq] at hc'
        obtain ⟨-, rfl⟩ := hc'
        simp only []
        have e1 : (encode l₁).length + (encChar c).length = (encode (l₁ ++ [c])).length := by
          simp [encode_append]
        have e2 : l₁ ++ c :: l₂ = (l₁ ++ [c]) ++ l₂ := by simp
        rw [e1, e2]
        apply ih
        simp only [encode_cons, List.length_append] at hf; omega

/-- **`lossy_id`**: on valid UTF-8 the lossy decoder returns its input unchanged. -/
theorem fromUtf8Lossy_id (dbg : Bool) (l : List Char) : fromUtf8Lossy dbg (encode l) = .ok (encode l) := by
  by_cases hne : encode l = []
  · rw [hne]; simp [fromUtf8Lossy, lossyNext]
  · have := lossyScan_encode l [] ((encode l).length + 1) (by omega)
    simp only [List.nil_append, encode_nil, List.length_nil] at this
    simp [fromUtf8Lossy, lossyNext, hne, this]

end Bump.Str
