import BumpVerif.Proofs.VecExtend
/-!
# `resize` / `extend_with` (vec.rs:1742, 1924-1956) with a `Clone` that may panic
-/
namespace Bump.V
open Bump

theorem Own.add_owned {ins xs evs held} (h : Own ins xs evs held) (e : Elem) (hi : e.id ∉ ins) :
    Own (e.id :: ins) (xs ++ [e]) evs held := by
  have := (h.add_fresh e.id hi)
  apply this.of_count
  intro a
  simp only [ids_append, ids_cons, ids_nil, List.count_append, List.count_cons, List.count_nil]
  omega

/-- the clone loop of `extend_with`: `j ≤ k` fresh clones are appended (fewer than `k` only when
`Clone` panicked); the buffer length does not change -/
theorem extendClones_own {c : Cfg} {held : List Nat} (hf : c.freshClone = true) (x : Elem) (cp : Nat) :
    ∀ (k : Nat) (ys : List Elem) (rest : List (Option Elem)) (w : W) (ins : List Nat),
      (c.esz ≠ 0 → k ≤ rest.length) → Own ins ys w.evs held → Fresh ins w.nextId →
      ∃ (ys' : List Elem) (rest' : List (Option Elem)) (w' : W) (ok : Bool) (ins' : List Nat),
        extendClones c x k ⟨ys.map some ++ rest, ys.length, cp⟩ w = (⟨ys'.map some ++ rest', ys'.length, cp⟩, w', ok) ∧
        Own ins' ys' w'.evs held ∧ Fresh ins' w'.nextId ∧ w'.evs = w.evs ∧ w'.bad = w.bad ∧
        ys'.length ≤ ys.length + k ∧ (ok = true → ys'.length = ys.length + k) ∧
        (c.esz ≠ 0 → ys'.length + rest'.length = ys.length + rest.length) ∧
        (∀ i ∈ ins, i ∈ ins') ∧ (c.clonePanicAt = none → ok = true) := by
  intro k
  induction k with
  | zero =>
    intro ys rest w ins _ ho hfr
    exact ⟨ys, rest, w, true, ins, rfl, ho, hfr, rfl, rfl, by omega, fun _ => rfl, fun _ => rfl, fun _ h => h, fun _ => rfl⟩
  | succ k ih =>
    intro ys rest w ins hroom ho hfr
    by_cases hp : c.clonePanicAt == some w.cloneCalls
    · have hcl : cloneElem c w x = ({ w with cloneCalls := w.cloneCalls + 1 }, none) := by simp [cloneElem, hf, hp]
      refine ⟨ys, rest, { w with cloneCalls := w.cloneCalls + 1 }, false, ins, by simp [extendClones, hcl], ho, hfr, rfl, rfl, by omega, by simp, fun _ => rfl, fun _ h => h, ?_⟩
      intro hn; rw [hn] at hp; simp at hp
    · let e' : Elem := ⟨w.nextId, x.val⟩
      let w1 : W := { w with cloneCalls := w.cloneCalls + 1, nextId := w.nextId + 1 }
      have hcl : cloneElem c w x = (w1, some e') := by simp [cloneElem, hf, hp, w1, e']
      have hni : e'.id ∉ ins := fun hin => Nat.lt_irrefl _ (hfr _ hin)
      have ho1 : Own (e'.id :: ins) (ys ++ [e']) w1.evs held := ho.add_owned e' hni
      have hfr1 : Fresh (e'.id :: ins) w1.nextId := by
        intro i hi
        simp only [List.mem_cons] at hi
        rcases hi with rfl | hi
        · simp [w1, e']
        · have := hfr i hi; simp [w1]; omega
      have hroom1 : c.esz ≠ 0 → rest ≠ [] := by
        intro he hnil; have := hroom he; subst hnil; simp at this
      obtain ⟨rest1, hw, hl⟩ := write_end c ys rest ys.length cp e' w1 hroom1
      have hroomk : c.esz ≠ 0 → k ≤ rest1.length := by
        intro he
        have h1 := hroom he
        have h2 := hl (hroom1 he)
        simp at h2; omega
      obtain ⟨ys', rest', w', ok, ins', hrun, ho', hfr', hev, hb, hle, hok, hlen, hsub, hnp⟩ := ih (ys ++ [e']) rest1 w1 (e'.id :: ins) hroomk ho1 hfr1
      refine ⟨ys', rest', w', ok, ins', ?_, ho', hfr', by rw [hev], by rw [hb], by simp at hle; omega, fun h => by have := hok h; simp at this; omega, ?_,
        fun i hi => hsub i (List.mem_cons_of_mem _ hi), hnp⟩
      · simp only [extendClones, hcl, hw]
        have : ys.length + 1 = (ys ++ [e']).length := by simp
        rw [this]; exact hrun
      · intro he
        have h2 := hl (hroom1 he)
        have h3 := hlen he
        simp at h2 h3; omega

theorem extendWith_unfold (c : Cfg) (v : VS) (n : Nat) (x : Elem) (w : W) :
    extendWith c v n x w =
      match rawReserve c v v.len n with
      | none => (v, (dropElem c w x).1, none)
      | some v1 =>
        let r := extendClones c x (n - 1) v1 w
        if !r.2.2 then (r.1, (dropElem c r.2.1 x).1, none)
        else if n > 0 then
          let p := r.1.write c r.1.len x r.2.1
          ({ p.1 with len := p.1.len + 1 }, p.2, some ())
        else (r.1, (dropElem c r.2.1 x).1, if (dropElem c r.2.1 x).2 then none else some ()) := by
  unfold extendWith
  cases rawReserve c v v.len n with
  | none => rfl
  | some v1 =>
    simp only

theorem Own.drop_held {c : Cfg} {ins xs held} {w : W} (hd : c.needsDrop = true) (x : Elem) (h : Own ins xs w.evs (x.id :: held)) :
    Own ins xs (dropElem c w x).1.evs held := by
  apply h.of_count
  intro a
  simp only [(dropElem_evs c w x).1, hd, ↓reduceIte, evDrops_append, evMoved_append, evDrops_drop, evMoved_drop,
    List.count_append, List.count_cons, List.count_nil]
  omega

/-- `extend_with(n, value)` (the growing branch of `resize`) with a `Clone` that panics at any
call: the clones made so far are owned by the vector, `value` is moved in last or dropped by
the unwinding; nothing is dropped twice, nothing leaks -/
theorem extendWith_own {c : Cfg} {v : VS} {xs : List Elem} {ins held : List Nat} (hc : CfgOK c) (hd : c.needsDrop = true)
    (hf : c.freshClone = true) (h : RepB c v xs) (n : Nat) (x : Elem) (w : W)
    (ho : Own ins xs w.evs (x.id :: held)) (hfr : Fresh ins w.nextId) :
    ∃ ys ins', RepB c (extendWith c v n x w).1 ys ∧ Own ins' ys (extendWith c v n x w).2.1.evs held ∧
      Fresh ins' (extendWith c v n x w).2.1.nextId := by
  rw [extendWith_unfold]
  cases hr : rawReserve c v v.len n with
  | none => exact ⟨xs, ins, h, ho.drop_held hd x, by rw [(dropElem_evs c w x).2.2]; exact hfr⟩
  | some v1 =>
    obtain ⟨h1, hge, _⟩ := rawReserve_some hc h hr
    rcases v1 with ⟨s1, l1, cp1⟩
    obtain ⟨rest1, rfl, rfl⟩ := h1.toRep.nf
    have hlen := h.len
    have hroom : c.esz ≠ 0 → n ≤ rest1.length := by
      intro he
      have hbuf := h1.buf he
      simp [capOf, he] at hge hbuf
      omega
    obtain ⟨ys', rest', w', ok, ins', hrun, ho', hfr', hev, hb, hle, hok, hlen', hsub, _⟩ :=
      extendClones_own (held := x.id :: held) hf x cp1 (n - 1) xs rest1 w ins (fun he => by have := hroom he; omega) ho hfr
    simp only [hrun]
    have hrepYs : RepB c ⟨ys'.map some ++ rest', ys'.length, cp1⟩ ys' := by
      apply RepB.of_nf _ h1.capLt h1.capHalf
      · intro he; simp [capOf, he] at hge; omega
      · intro he
        have := h1.buf he
        have := hlen' he
        simp at *; omega
    cases ok with
    | false =>
      simp only [Bool.not_false, ↓reduceIte]
      exact ⟨ys', ins', hrepYs, ho'.drop_held hd x, by rw [(dropElem_evs c w' x).2.2]; exact hfr'⟩
    | true =>
      simp only [Bool.not_true, Bool.false_eq_true, ↓reduceIte]
      by_cases hn : n > 0
      · simp only [hn, ↓reduceIte]
        have hroom1 : c.esz ≠ 0 → rest' ≠ [] := by
          intro he hnil
          have h1' := hroom he
          have h2 := hlen' he
          have h3 := hok rfl
          subst hnil; simp at h2; omega
        obtain ⟨rest2, hw, hl⟩ := write_end c ys' rest' ys'.length cp1 x w' hroom1
        simp only [hw]
        refine ⟨ys' ++ [x], ins', ?_, ?_, hfr'⟩
        · have hl2 : ys'.length + 1 = (ys' ++ [x]).length := by simp
          rw [hl2]
          apply RepB.of_nf _ h1.capLt h1.capHalf
          · intro he; have := hok rfl; simp [capOf, he] at hge; simp; omega
          · intro he
            rw [hl (hroom1 he)]
            have := h1.buf he
            have := hlen' he
            simp at *; omega
        · apply ho'.of_count
          intro a
          simp only [ids_append, ids_cons, ids_nil, List.count_append, List.count_cons, List.count_nil]
          omega
      · simp only [hn, ↓reduceIte]
        exact ⟨ys', ins', hrepYs, ho'.drop_held hd x, by rw [(dropElem_evs c w' x).2.2]; exact hfr'⟩

/-- `resize(new_len, value)` with a `Clone` or a destructor that panics at any call -/
theorem resize_own {c : Cfg} {v : VS} {xs : List Elem} {ins held : List Nat} (hc : CfgOK c) (hd : c.needsDrop = true)
    (hf : c.freshClone = true) (h : RepB c v xs) (n : Nat) (x : Elem) (w : W)
    (ho : Own ins xs w.evs (x.id :: held)) (hfr : Fresh ins w.nextId) :
    ∃ ys ins', RepB c (resize c v n x w).1 ys ∧ Own ins' ys (resize c v n x w).2.1.evs held ∧
      Fresh ins' (resize c v n x w).2.1.nextId := by
  unfold resize
  split
  · exact extendWith_own hc hd hf h (n - v.len) x w ho hfr
  · obtain ⟨m, v', w', r, hp, _, _, hr, hev, _, hn, _⟩ := truncate_spec h n w
    obtain ⟨ys, hry, hoy⟩ := truncate_own hd h n w ho
    rw [hp] at hry hoy
    simp only [hp]
    exact ⟨ys, ins, hry, hoy.drop_held hd x, by rw [(dropElem_evs c w' x).2.2, hn]; exact hfr⟩

end Bump.V
