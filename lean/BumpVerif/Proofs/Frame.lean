import BumpVerif.Proofs.Ops
/-! Where blocks live: regions inside the used part `[ptr, footer)` of a chunk, and how the
allocation shapes relate old and new regions (the frame lemmas behind C01/C02/C12). -/
namespace Bump
open Gen

/-- the region `[b, b+bn)` lies in the used part of some chunk -/
def InChunk (a : Arena) (b bn : Nat) : Prop := ∃ c ∈ a.chunks, c.ptr ≤ b ∧ b + bn ≤ c.footer

theorem chunk_span {M c} (h : ChunkWF M c) : c.data ≤ c.ptr ∧ c.ptr ≤ c.footer ∧ c.footer + FOOTER_SIZE = c.data + c.size :=
  ⟨h.ptr_ge, h.ptr_le, footer_lt h⟩

/-- two regions inside different (disjoint) chunks are disjoint -/
theorem disj_of_chunks {M c d x xn y yn} (hc : ChunkWF M c) (hd : ChunkWF M d) (hcd : Disj c.data c.size d.data d.size)
    (hx : c.data ≤ x ∧ x + xn ≤ c.footer) (hy : d.data ≤ y ∧ y + yn ≤ d.footer) : Disj x xn y yn := by
  obtain ⟨_, _, c3⟩ := chunk_span hc
  obtain ⟨_, _, d3⟩ := chunk_span hd
  unfold Disj at *
  have := FS
  rcases hcd with h | h
  · left; omega
  · right; omega

theorem AllocShape.frame {E a a' q sz} (hwf : ArenaWF E a) (hwf' : ArenaWF E a') (sh : AllocShape E a a' q sz) :
    (∀ b bn, InChunk a b bn → InChunk a' b bn ∧ Disj q sz b bn) ∧ (0 < sz → InChunk a' q sz) := by
  rcases sh with ⟨hnil, ha, _, hsz⟩ | ⟨c, cs, hc, hc', hge, hle⟩ | ⟨c, hc', hge, hle, hpf, hdis, hsd, _⟩
  · subst ha
    refine ⟨?_, by omega⟩
    intro b bn ⟨c, hc, _⟩
    rw [hnil] at hc; cases hc
  · have hw := hwf.chunks c (by rw [hc]; exact List.mem_cons_self)
    have hpl := hw.ptr_le
    refine ⟨?_, ?_⟩
    · intro b bn ⟨x, hx, hb1, hb2⟩
      rw [hc] at hx
      simp only [List.mem_cons] at hx
      rcases hx with rfl | hx
      · refine ⟨⟨{ x with ptr := q }, by rw [hc']; exact List.mem_cons_self, by show q ≤ b; omega, hb2⟩, ?_⟩
        left; omega
      · refine ⟨⟨x, by rw [hc']; exact List.mem_cons_of_mem _ hx, hb1, hb2⟩, ?_⟩
        have hwx := hwf.chunks x (by rw [hc]; exact List.mem_cons_of_mem _ hx)
        have hd := hwf.disj; rw [hc] at hd
        have hcx := (List.pairwise_cons.mp hd).1 x hx
        exact disj_of_chunks hw hwx hcx ⟨hge, by omega⟩ ⟨by have := hwx.ptr_ge; omega, hb2⟩
    · intro _
      exact ⟨{ c with ptr := q }, by rw [hc']; exact List.mem_cons_self, Nat.le_refl _, by show q + sz ≤ c.footer; omega⟩
  · have hw' := hwf'.chunks { c with ptr := q } (by rw [hc']; exact List.mem_cons_self)
    refine ⟨?_, ?_⟩
    · intro b bn ⟨x, hx, hb1, hb2⟩
      refine ⟨⟨x, by rw [hc']; exact List.mem_cons_of_mem _ hx, hb1, hb2⟩, ?_⟩
      have hwx := hwf.chunks x hx
      have hm : a'.M = a.M ∨ True := Or.inr trivial
      have hwx' := hwf'.chunks x (by rw [hc']; exact List.mem_cons_of_mem _ hx)
      exact disj_of_chunks hw' hwx' (hdis x hx) ⟨hge, hle⟩ ⟨by have := hwx'.ptr_ge; omega, hb2⟩
    · intro _
      exact ⟨{ c with ptr := q }, by rw [hc']; exact List.mem_cons_self, Nat.le_refl _, hle⟩

/-- the block of a successful allocation ends below `2^63` -/
theorem AllocShape.hi {E a a' p sz} (hE : EnvOK E) (hwf : ArenaWF E a) (hwf' : ArenaWF E a') (sh : AllocShape E a a' p sz) :
    p + sz < 2 ^ 63 := by
  have := FS
  rcases sh with ⟨_, _, hp, hsz⟩ | ⟨c, cs, hc, _, _, hle⟩ | ⟨c, hc', _, hle, _⟩
  · have := hE.hi; omega
  · have hw := hwf.chunks c (by rw [hc]; exact List.mem_cons_self)
    have := hw.ptr_le; have := footer_lt hw; have := hw.hi; omega
  · have hw := hwf'.chunks { c with ptr := p } (by rw [hc']; exact List.mem_cons_self)
    have hf := footer_lt hw; have := hw.hi
    have : ({ c with ptr := p } : Chunk).footer = c.footer := rfl
    omega


end Bump
