import BumpVerif.Proofs.Mem
import BumpVerif.Proofs.Rewind
import BumpVerif.Proofs.Ledger
/-! History-level contents theorem (C02): over every admissible history of the full operation
alphabet, the arena never changes a byte of a live block other than the one being reallocated.

The only writers in the model are `grow`/`shrink` (copy) and `grow_zeroed` (zero fill); all of
their writes land inside the block they return, which the live-block invariant keeps disjoint from
every other live block. -/
namespace Bump
open Gen

theorem storePtr_mem (E : Nat) (s : St) (p : Nat) (why : String) : (storePtr E s p why).1.mem = s.mem := by
  unfold storePtr
  cases setCurPtr E s.a p <;> rfl

theorem dealloc_mem {E p sz} (s : St) : (dealloc E p sz s).1.mem = s.mem := by
  unfold dealloc
  split
  · split
    · rfl
    · split
      · rfl
      · split
        · rfl
        · exact storePtr_mem E s _ _
  · rfl

theorem rewind_mem (E : Nat) (rf : Option Nat) (rp slot : Nat) (s : St) : (rewind E rf rp slot s).1.mem = s.mem := by
  unfold rewind
  split
  · exact storePtr_mem E s _ _
  · rfl

/-- the initialiser's own allocations and releases write nothing -/
theorem runInner_mem {E} (hE : EnvOK E) : ∀ (inner : List Inner) (s : St) (live : List Block) (acc : List Nat),
    LiveInv E ⟨s, live⟩ → (∀ i ∈ inner, InnerValid i) → (runInner E inner s acc).2 ≠ .envBad →
    (runInner E inner s acc).1.mem = s.mem := by
  intro inner
  induction inner with
  | nil => intro s live acc _ _ _; simp only [runInner]
  | cons i rest ih =>
    intro s live acc inv hval hne
    have hvi := hval i List.mem_cons_self
    have hvr : ∀ j ∈ rest, InnerValid j := fun j hj => hval j (List.mem_cons_of_mem _ hj)
    cases i with
    | keep sz al =>
      obtain ⟨hA, hlay⟩ := hvi
      obtain ⟨sp, hnp⟩ := tryAllocLayout_spec (sz := sz) (al := al) s hE inv.wf hA hlay
      simp only [runInner, tryAllocOr0] at hne ⊢
      cases hr : tryAllocLayout E sz al s with
      | mk s1 o1 =>
        rw [hr] at sp hnp hne
        simp only at sp hnp hne
        cases o1 with
        | ok p =>
          simp only [bindO] at hne ⊢
          have inv1 := allocPost_live hE inv sp rfl
          rw [ih s1 _ _ inv1 hvr hne]; exact sp.mem_eq
        | err =>
          simp only [bindO] at hne ⊢
          have inv1 : LiveInv E ⟨s1, live⟩ := allocPost_fail_live inv sp (Or.inl rfl)
          rw [ih s1 _ _ inv1 hvr hne]; exact sp.mem_eq
        | panic => exact absurd rfl hnp
        | bad w => exact absurd rfl (sp.nobad w)
        | envBad => simp [bindO] at hne
    | release sz al =>
      obtain ⟨hA, hlay⟩ := hvi
      obtain ⟨sp, hnp⟩ := tryAllocLayout_spec (sz := sz) (al := al) s hE inv.wf hA hlay
      simp only [runInner, tryAllocOr0] at hne ⊢
      cases hr : tryAllocLayout E sz al s with
      | mk s1 o1 =>
        rw [hr] at sp hnp hne
        simp only at sp hnp hne
        cases o1 with
        | ok p =>
          simp only [bindO] at hne ⊢
          obtain ⟨_, _, _, hpos, _, _⟩ := sp.ok p rfl
          have hp0 : p ≠ 0 := by omega
          simp only [hp0, ↓reduceIte] at hne ⊢
          obtain ⟨hd1, inv2⟩ := alloc_dealloc_live hE inv hA sp rfl
          have ld := dealloc_mem (E := E) (p := p) (sz := sz) s1
          cases hdd : dealloc E p sz s1 with
          | mk s2 o2 =>
            rw [hdd] at hd1 inv2 ld hne
            simp only at hd1 inv2 hne ld
            subst hd1
            simp only [bindO] at hne ⊢
            rw [ih s2 _ _ inv2 hvr hne, ld]; exact sp.mem_eq
        | err =>
          simp only [bindO, ↓reduceIte] at hne ⊢
          have inv1 : LiveInv E ⟨s1, live⟩ := allocPost_fail_live inv sp (Or.inl rfl)
          rw [ih s1 _ _ inv1 hvr hne]; exact sp.mem_eq
        | panic => exact absurd rfl hnp
        | bad w => exact absurd rfl (sp.nobad w)
        | envBad => simp [bindO] at hne

/-- the block an operation is allowed to rewrite: the one handed to `grow`/`shrink` -/
def target : Op → Option Block
  | .agrow p osz _ _ _ _ => some ⟨p, osz⟩
  | .ashrink p osz _ _ _ => some ⟨p, osz⟩
  | _ => none

/-- every operation other than `grow`/`shrink` writes no memory at all -/
theorem sysStep_mem {E} (hE : EnvOK E) (y : Sys) (op : Op) (inv : LiveInv E y) (hv : OpValidFull y op)
    (hne : (sysStep E op y).2 ≠ .envBad) (ht : target op = none) : (sysStep E op y).1.st.mem = y.st.mem := by
  obtain ⟨s, live⟩ := y
  simp only [sysStep] at hne ⊢
  cases op with
  | alloc sz al f =>
    obtain ⟨hA, hlay⟩ := hv
    exact (allocMaybe_spec f s hE inv.wf hA hlay).mem_eq
  | array esz eal n f =>
    obtain ⟨hA, heal⟩ := hv
    simp only [step] at hne ⊢
    cases hla : arrayLayout esz eal n with
    | none => rfl
    | some total =>
      obtain ⟨ht, hlay⟩ := arrayLayout_some heal hla
      subst ht
      exact (allocMaybe_spec f s hE inv.wf hA hlay).mem_eq
  | aalloc sz al =>
    obtain ⟨hA, hlay⟩ := hv
    exact (tryAllocLayout_spec s hE inv.wf hA hlay).1.mem_eq
  | afree p sz al => exact dealloc_mem s
  | agrow p osz oal nsz nal z => simp [target] at ht
  | ashrink p osz oal nsz nal => simp [target] at ht
  | reset => exact (reset_spec s inv.wf).2.2.2.1
  | limit v => rfl
  | tfill esz eal n errat =>
    obtain ⟨hA, heal⟩ := hv
    simp only [step, sliceTryFill] at hne ⊢
    cases hla : arrayLayout esz eal n with
    | none => rfl
    | some total =>
      obtain ⟨ht, hlay⟩ := arrayLayout_some heal hla
      subst ht
      simp only
      have sp := allocLayout_spec (sz := esz * n) (al := eal) s hE inv.wf hA hlay
      have la := sp.mem_eq
      cases hr : allocLayout E (esz * n) eal s with
      | mk s1 o1 =>
        rw [hr] at la
        simp only at la
        cases o1 with
        | ok p =>
          simp only [bindO]
          cases errat with
          | none => exact la
          | some i =>
            simp only
            by_cases hi : i < n
            · simp only [hi, ↓reduceIte]
              have ld := dealloc_mem (E := E) (p := p) (sz := esz * n) s1
              cases hdd : dealloc E p (esz * n) s1 with
              | mk s2 o2 =>
                rw [hdd] at ld
                simp only at ld
                cases o2 <;> simp only [bindO] <;> rw [ld, la]
            · simp only [hi, ↓reduceIte]; exact la
        | err => simp only [bindO]; exact la
        | panic => simp only [bindO]; exact la
        | bad w => simp only [bindO]; exact la
        | envBad => simp only [bindO]; exact la
  | atw sz al ok inner f =>
    obtain ⟨hA, hlay, hin⟩ := hv
    have sp := allocMaybe_spec f s hE inv.wf hA hlay
    simp only [step, allocTryWith] at hne ⊢
    have la := sp.mem_eq
    cases hm : allocMaybe E f sz al s with
    | mk s1 o1 =>
      rw [hm] at la sp hne
      simp only at la sp hne
      cases o1 with
      | ok slot =>
        have inv1 := allocPost_live hE inv sp rfl
        cases hri : runInner E inner s1 [] with
        | mk s2 o2 =>
          have hne2 : o2 ≠ .envBad := by
            intro hh; subst hh
            simp only [bindO, hri, Res.ofOutcome] at hne
            exact hne rfl
          have lr := runInner_mem hE inner s1 _ [] inv1 hin (by rw [hri]; exact hne2)
          rw [hri] at lr
          simp only at lr
          simp only [bindO, hri]
          cases o2 with
          | ok ps =>
            simp only
            cases ok
            · simp only [Bool.false_eq_true, ↓reduceIte]
              have lw := rewind_mem E (footerId s.a) (s.a.cur E).ptr slot s2
              cases hrw : rewind E (footerId s.a) (s.a.cur E).ptr slot s2 with
              | mk s3 o3 =>
                rw [hrw] at lw
                simp only at lw
                cases o3 <;> simp only <;> rw [lw, lr, la]
            · simp only [↓reduceIte]; rw [lr, la]
          | err => simp only; rw [lr, la]
          | panic => simp only; rw [lr, la]
          | bad w => simp only; rw [lr, la]
          | envBad => simp only; rw [lr, la]
      | err => simp only [bindO]; exact la
      | panic => simp only [bindO]; exact la
      | bad w => simp only [bindO]; exact la
      | envBad => simp only [bindO]; exact la

theorem applyEffs_snoc (m : Mem) (es : List MemEff) (e : MemEff) : applyEffs m (es ++ [e]) = applyEff (applyEffs m es) e := by
  rw [applyEffs_append]; rfl

/-- a block of the live set other than the one being replaced is disjoint from the replacement -/
theorem other_block_disjoint {E s'} {live : List Block} {p osz q nsz : Nat} {b : Block}
    (inv' : LiveInv E ⟨s', live.erase ⟨p, osz⟩ ++ [⟨q, nsz⟩]⟩) (hb : b ∈ live) (hne : b ≠ ⟨p, osz⟩) :
    NoOverlap b ⟨q, nsz⟩ := by
  have hbe : b ∈ live.erase ⟨p, osz⟩ := (List.mem_erase_of_ne hne).mpr hb
  have hp := inv'.disj
  rw [List.pairwise_append] at hp
  exact hp.2.2 b hbe ⟨q, nsz⟩ (List.mem_singleton.mpr rfl)

/-- **One step.** Whatever the operation, the bytes of every live block other than the one handed
to `grow`/`shrink` are afterwards what they were before. -/
theorem sysStep_contents {E} (hE : EnvOK E) (y : Sys) (op : Op) (inv : LiveInv E y) (hv : OpValidFull y op)
    (hne : (sysStep E op y).2 ≠ .envBad) (m : Mem) (b : Block) (hb : b ∈ y.live) (hnt : target op ≠ some b)
    (x : Nat) (hx : b.ptr ≤ x ∧ x < b.ptr + b.size) :
    applyEffs m (sysStep E op y).1.st.mem x = applyEffs m y.st.mem x := by
  by_cases ht : target op = none
  · rw [sysStep_mem hE y op inv hv hne ht]
  · have hinv' := (sysStep_live_full hE y op inv hv).2 hne
    obtain ⟨s, live⟩ := y
    cases op with
    | agrow p osz oal nsz nal z =>
      obtain ⟨hmem, hO, hd, hN, hle, hlay⟩ := hv
      have hbo := blockOK_of_inv (inv.blocks _ hmem) hO hd
      have post := grow_spec s hE inv.wf hbo hN hle hlay
      have hbne : b ≠ ⟨p, osz⟩ := by intro h; exact hnt (by simp [target, h])
      simp only [sysStep, step] at hne hinv' ⊢
      cases hg : grow E p osz oal nsz nal s with
      | mk s1 o1 =>
        rw [hg] at post hne hinv'
        simp only at post
        cases o1 with
        | ok q =>
          simp only [bindO, Res.ofOutcome, liveAfter] at hinv' ⊢
          have hno := other_block_disjoint hinv' hb hbne
          have hout : ¬ (q ≤ x ∧ x < q + nsz) := by
            unfold NoOverlap Disj at hno; simp only at hno; omega
          have hc := (realloc_contents m post).2 x hout
          cases z
          · simpa using hc
          · simp only [↓reduceIte]
            rw [applyEffs_snoc]
            simp only [applyEff]
            rw [if_neg (by omega)]
            exact hc
        | err =>
          simp only [bindO]
          rw [(post.err rfl).2.1]
        | panic => exact absurd rfl post.nopanic
        | bad w => exact absurd rfl (post.nobad w)
        | envBad => simp [bindO, Res.ofOutcome] at hne
    | ashrink p osz oal nsz nal =>
      obtain ⟨hmem, hO, hd, hN, hle, hlay⟩ := hv
      have hbo := blockOK_of_inv (inv.blocks _ hmem) hO hd
      have post := shrink_spec s hE inv.wf hbo hN hle hlay
      have hbne : b ≠ ⟨p, osz⟩ := by intro h; exact hnt (by simp [target, h])
      simp only [sysStep, step] at hne hinv' ⊢
      cases hg : shrink E p osz oal nsz nal s with
      | mk s1 o1 =>
        rw [hg] at post hne hinv'
        simp only at post
        cases o1 with
        | ok q =>
          simp only [Res.ofOutcome, liveAfter] at hinv' ⊢
          have hno := other_block_disjoint hinv' hb hbne
          have hout : ¬ (q ≤ x ∧ x < q + nsz) := by
            unfold NoOverlap Disj at hno; simp only at hno; omega
          exact (realloc_contents m post).2 x hout
        | err => rw [(post.err rfl).2.1]
        | panic => exact absurd rfl post.nopanic
        | bad w => exact absurd rfl (post.nobad w)
        | envBad => simp [Res.ofOutcome] at hne
    | _ => exact absurd rfl ht

/-- the block stays in the live set and is never the argument of `grow`/`shrink` along the history -/
def Untouched (E : Nat) (b : Block) : List Op → Sys → Prop
  | [], _ => True
  | op :: ops, y => b ∈ y.live ∧ target op ≠ some b ∧ Untouched E b ops (sysStep E op y).1

/-- **All histories.** Along every admissible history of the full alphabet, a block that stays
live and is not itself reallocated keeps every one of its bytes. -/
theorem history_contents {E} (hE : EnvOK E) : ∀ (ops : List Op) (y : Sys), LiveInv E y → RunOKFull E ops y →
    ∀ (m : Mem) (b : Block), Untouched E b ops y → ∀ x, b.ptr ≤ x ∧ x < b.ptr + b.size →
    applyEffs m (sysRun E ops y).1.st.mem x = applyEffs m y.st.mem x := by
  intro ops
  induction ops with
  | nil => intro y _ _ m b _ x _; rfl
  | cons op ops ih =>
    intro y inv hrun m b hu x hx
    obtain ⟨hv, hne, hrest⟩ := hrun
    obtain ⟨hb, hnt, hu'⟩ := hu
    have inv' := (sysStep_live_full hE y op inv hv).2 hne
    simp only [sysRun]
    rw [ih _ inv' hrest m b hu' x hx]
    exact sysStep_contents hE y op inv hv hne m b hb hnt x hx

end Bump
