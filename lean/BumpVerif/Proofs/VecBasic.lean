import BumpVerif.Model.Vec
/-!
# Representation relation and primitive-step lemmas for the Vec slot machine
-/
namespace Bump.V
open Bump

/-- the elements below `len`, as the safe API sees them -/
def abs (v : VS) : List Elem := v.owned

/-- `v` represents the list `xs`: its slots start with the initialised elements `xs`,
`len = |xs|`, the buffer has `cap` slots (sized elements), `len ≤ capacity()`. -/
structure Rep (c : Cfg) (v : VS) (xs : List Elem) : Prop where
  slots : ∃ rest, v.slots = xs.map some ++ rest
  len : v.len = xs.length
  buf : c.esz ≠ 0 → v.slots.length = v.cap
  lenCap : v.len ≤ capOf c v

theorem filterMap_map_some (xs : List Elem) : (xs.map some).filterMap id = xs := by
  induction xs with
  | nil => rfl
  | cons x xs ih => simp [ih]

theorem Rep.abs_eq {c v xs} (h : Rep c v xs) : abs v = xs := by
  obtain ⟨rest, hs⟩ := h.slots
  simp [abs, VS.owned, hs, h.len]

theorem Rep.len_le_slots {c v xs} (h : Rep c v xs) : xs.length ≤ v.slots.length := by
  obtain ⟨rest, hs⟩ := h.slots
  simp [hs]

/-- reading an initialised slot -/
theorem read_map_some (xs : List Elem) (rest : List (Option Elem)) (i : Nat) (h : i < xs.length) (len cap : Nat) :
    (VS.mk (xs.map some ++ rest) len cap).read i = some xs[i] := by
  simp [VS.read, List.getElem?_append_left, h]

theorem Rep.read {c v xs} (h : Rep c v xs) (i : Nat) (hi : i < xs.length) : v.read i = some xs[i] := by
  obtain ⟨rest, hs⟩ := h.slots
  cases v with
  | mk slots len cap =>
    simp at hs; subst hs
    exact read_map_some xs rest i hi len cap

theorem padTo_of_le {n : Nat} {s : List (Option Elem)} (h : n ≤ s.length) : padTo n s = s := by
  simp [padTo, Nat.sub_eq_zero_of_le h]

theorem padTo_prefix (n : Nat) (pre rest : List (Option Elem)) :
    padTo n (pre ++ rest) = pre ++ padTo (n - pre.length) rest := by
  simp [padTo, List.append_assoc, Nat.sub_add_eq]

theorem length_padTo (n : Nat) (s : List (Option Elem)) : (padTo n s).length = max n s.length := by
  simp [padTo]; omega

end Bump.V
