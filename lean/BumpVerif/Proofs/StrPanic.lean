import BumpVerif.Proofs.StrProgram
/-!
# String part of C16: a panicking `retain` closure and UTF-8 validity (F6)

Full statement (what C16 asks of `String::retain`), for the loop with (`guard = true`) or
without (`guard = false`, the pinned tree) a drop guard that fixes the length on unwind:

    RetainPanicSafe guard :=
      ∀ (l : List Char) (ans : Nat → Bool) (p : Option Nat) (r : RetainOut),
        retainWith guard (encode l) ans p = .ok r → Valid r.bytes

Whether the source has the guard is regenerated from it on every run (`Gen.STR_RETAIN_GUARD`,
tools/extract_str.py).  With the guard (the tree as it is since fix c99527b) the full statement
holds: `C16_string_retain_valid`.  Without it the statement is FALSE (F6 of bumpalo 3.17.0):
`retain` moves kept bytes down while it runs and only shortens the vector at the very end; a
panic in the closure leaves `len` untouched over partly compacted bytes — the counterexample
below reproduces the bytes the unguarded loop leaves (C3 A9 A9 7A).  So the property holds
iff the guard is there, and removing the guard from the source flips the flag and breaks the
obligation `C16_string_retain_valid`.
-/
namespace Bump.Str

/-- C16 for `String::retain`, full strength -/
def RetainPanicSafe (guard : Bool) : Prop :=
  ∀ (l : List Char) (ans : Nat → Bool) (p : Option Nat) (r : RetainOut),
    retainWith guard (encode l) ans p = .ok r → Valid r.bytes

/-- the witness: "aéz", delete 'a', keep 'é', panic on 'z' -/
theorem F6_witness :
    retainWith false (encode ['a', 'é', 'z']) (ansOf [false, true, true]) (some 2)
      = .ok ⟨[0xC3, 0xA9, 0xA9, 0x7A], true, 3⟩ := by decide

theorem F6_witness_invalid : ¬ Valid [0xC3, 0xA9, 0xA9, 0x7A] := by decide

/-- **The full statement is false without the guard (F6).** -/
theorem C16_string_retain_valid_counterexample : ¬ RetainPanicSafe false := by
  intro h
  exact F6_witness_invalid (h _ _ _ _ F6_witness)

/-- **What holds without the guard**: no panic, a panic index that is never reached, or a panic
before any character was deleted leave the string valid (in the last case unchanged).  Missing
for the full statement: a panic after a deletion — there the crate leaves invalid bytes. -/
theorem C16_string_retain_valid_partial (l : List Char) (ans : Nat → Bool) (p : Option Nat) (r : RetainOut)
    (hsafe : ∀ k, p = some k → k < l.length → ∀ j, j < k → ans j = true)
    (h : retainWith false (encode l) ans p = .ok r) : Valid r.bytes := by
  match p, hsafe, h with
  | none, _, h =>
    rw [retainWith_spec] at h
    cases h; exact Valid_encode _
  | some k, hsafe, h =>
    by_cases hk : k < l.length
    · rw [retain_panic_nodel l ans k hk (hsafe k rfl hk)] at h
      cases h; exact Valid_encode _
    · rw [retainWith_spec_late_panic false l ans k (by omega)] at h
      cases h; exact Valid_encode _

/-- the hypotheses of the partial theorem are satisfiable, also with a panic -/
example : ∃ r, retainWith false (encode ['a', 'é', 'z']) (ansOf [true, true, false]) (some 2) = .ok r ∧ Valid r.bytes :=
  ⟨_, rfl, by decide⟩

/-- **With the drop guard the full statement holds**: after a panic at call `p` the string is the
text kept among the first `p` characters. -/
theorem C16_string_retain_valid_guarded : RetainPanicSafe true := by
  intro l ans p r h
  match p, h with
  | none, h => rw [retainWith_spec] at h; cases h; exact Valid_encode _
  | some k, h =>
    by_cases hk : k < l.length
    · rw [retain_panic_guarded l ans k hk] at h; cases h; exact Valid_encode _
    · rw [retainWith_spec_late_panic true l ans k (by omega)] at h; cases h; exact Valid_encode _

/-- the property holds exactly when the guard is present; `retain` of the model is
`retainWith (Gen.STR_RETAIN_GUARD == 1)` with the flag regenerated from the source -/
theorem C16_string_retain_iff_guard (guard : Bool) : RetainPanicSafe guard ↔ guard = true := by
  cases guard
  · simp only [Bool.false_eq_true, iff_false]; exact C16_string_retain_valid_counterexample
  · simp only [iff_true]; exact C16_string_retain_valid_guarded

/-- the source has the unwind guard (flag regenerated from src/collections/string.rs) -/
theorem retain_guard_present : (Gen.STR_RETAIN_GUARD == 1) = true := by decide

/-- **C16, String part, full strength, for `String::retain` as the source has it**: whatever
the closure answers and wherever it panics, the string is valid UTF-8 afterwards. -/
theorem C16_string_retain_valid (l : List Char) (ans : Nat → Bool) (p : Option Nat) (r : RetainOut)
    (h : retain (encode l) ans p = .ok r) : Valid r.bytes := by
  unfold retain at h
  rw [retain_guard_present] at h
  exact C16_string_retain_valid_guarded l ans p r h

/-- … and `retain` always returns (no `bad` state): after a panic at call `p` the text is what
was kept among the first `p` characters, the closure having been called `p + 1` times. -/
theorem retain_total (l : List Char) (ans : Nat → Bool) (p : Option Nat) :
    ∃ r, retain (encode l) ans p = .ok r ∧ Valid r.bytes ∧
      r.bytes = encode (retainSpec ans 0 (match p with | some k => l.take k | none => l)) := by
  unfold retain
  rw [retain_guard_present]
  match p with
  | none => exact ⟨_, retainWith_spec true l ans, Valid_encode _, rfl⟩
  | some k =>
    by_cases hk : k < l.length
    · exact ⟨_, retain_panic_guarded l ans k hk, Valid_encode _, rfl⟩
    · refine ⟨_, retainWith_spec_late_panic true l ans k (by omega), Valid_encode _, ?_⟩
      simp only; rw [List.take_of_length_le (by omega)]

/-! ## both continuations: programs in which `retain` closures panic -/

/-- a program step: any method of C14, or `retain` whose closure panics at call `p` (caught) -/
inductive POp where
  | op (o : SOp)
  | retainPanic (ans : Nat → Bool) (p : Nat)

def stepP (ovf : Bool) (s : Bytes) : POp → Option Bytes
  | .op o => stepOp ovf s o
  | .retainPanic ans p => match retain s ans (some p) with | .ok r => some r.bytes | _ => none

def runP (ovf : Bool) : Bytes → List POp → Option Bytes
  | s, [] => some s
  | s, op :: ops => match stepP ovf s op with | some s' => runP ovf s' ops | none => none

/-- **keep using the string after the panic**: every program, with `retain` closures panicking at
arbitrary calls in between, keeps the string valid UTF-8 after every step and never reaches a
`bad` state (dropping it instead touches no text: `Vec<u8>` has no element destructors). -/
theorem C16_string_program_valid (ovf : Bool) (ops : List POp) : ∀ {s : Bytes}, Valid s →
    ∃ s', runP ovf s ops = some s' ∧ Valid s' := by
  induction ops with
  | nil => intro s hv; exact ⟨s, rfl, hv⟩
  | cons op ops ih =>
    intro s hv
    have h1 : ∃ s₁, stepP ovf s op = some s₁ ∧ Valid s₁ := by
      cases op with
      | op o => exact stepOp_valid ovf hv o
      | retainPanic ans p =>
        obtain ⟨l, rfl⟩ := hv
        obtain ⟨r, hr, hvr, -⟩ := retain_total l ans (some p)
        exact ⟨r.bytes, by simp [stepP, hr], hvr⟩
    obtain ⟨s₁, h₁, hv₁⟩ := h1
    obtain ⟨s₂, h₂, hv₂⟩ := ih hv₁
    exact ⟨s₂, by simp [runP, h₁, h₂], hv₂⟩

example : runP false [] [.op (.fromStr ['a', 'é', 'z']), .retainPanic (ansOf [false, true, true]) 2, .op (.push 'q')]
    = some (encode ['é', 'q']) := by decide

/-- After a panic that leaves valid text, using the string further keeps it valid; dropping it
touches no text at all (`Vec<u8>` has no element destructors): both continuations of C16. -/
theorem retain_panic_then_push (l : List Char) (ans : Nat → Bool) (k : Nat) (hk : k < l.length)
    (hall : ∀ j, j < k → ans j = true) (c : Char) :
    ∃ r, retainWith false (encode l) ans (some k) = .ok r ∧ r.panicked = true ∧ Valid (push r.bytes c) := by
  refine ⟨_, retain_panic_nodel l ans k hk hall, rfl, ?_⟩
  rw [push_encode]; exact Valid_encode _

end Bump.Str

#print axioms Bump.Str.C16_string_retain_valid
#print axioms Bump.Str.retain_total
#print axioms Bump.Str.C16_string_program_valid
#print axioms Bump.Str.C16_string_retain_valid_counterexample
#print axioms Bump.Str.C16_string_retain_valid_partial
#print axioms Bump.Str.C16_string_retain_valid_guarded
#print axioms Bump.Str.C16_string_retain_iff_guard
#print axioms Bump.Str.F6_witness
#print axioms Bump.Str.retain_panic_then_push
