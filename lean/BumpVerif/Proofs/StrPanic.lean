import BumpVerif.Proofs.StrRetain
/-!
# String part of C16: a panicking `retain` closure and UTF-8 validity (F6)

Full statement (what C16 asks of `String::retain`):

    ∀ (l : List Char) (ans : Nat → Bool) (p : Option Nat) (r : RetainOut),
      retain (encode l) ans p = .ok r → Valid r.bytes

It is FALSE for the code as it is: `retain` moves kept bytes down while it runs and only
shortens the vector at the very end, with no guard object; a panic in the closure leaves `len`
untouched over partly compacted bytes.  Below: the counterexample (the model reproduces the
bytes the crate leaves: C3 A9 A9 7A), and the part that does hold.
-/
namespace Bump.Str

/-- C16 for `String::retain`, full strength -/
def RetainPanicSafe : Prop :=
  ∀ (l : List Char) (ans : Nat → Bool) (p : Option Nat) (r : RetainOut),
    retain (encode l) ans p = .ok r → Valid r.bytes

/-- the witness: "aéz", delete 'a', keep 'é', panic on 'z' -/
theorem F6_witness :
    retain (encode ['a', 'é', 'z']) (ansOf [false, true, true]) (some 2)
      = .ok ⟨[0xC3, 0xA9, 0xA9, 0x7A], true, 3⟩ := by decide

theorem F6_witness_invalid : ¬ Valid [0xC3, 0xA9, 0xA9, 0x7A] := by decide

/-- **The full statement is false on the pinned tree (F6).** -/
theorem C16_string_retain_valid_counterexample : ¬ RetainPanicSafe := by
  intro h
  exact F6_witness_invalid (h _ _ _ _ F6_witness)

/-- **What holds**: without a panic, with a panic index that is never reached, or with a panic
before any character was deleted, the string is valid afterwards (and, in the last case,
unchanged).  Missing for the full statement: a panic after a deletion — there the crate leaves
invalid bytes. -/
theorem C16_string_retain_valid_partial (l : List Char) (ans : Nat → Bool) (p : Option Nat) (r : RetainOut)
    (hsafe : ∀ k, p = some k → k < l.length → ∀ j, j < k → ans j = true)
    (h : retain (encode l) ans p = .ok r) : Valid r.bytes := by
  match p, hsafe, h with
  | none, _, h =>
    rw [retain_spec] at h
    cases h; exact Valid_encode _
  | some k, hsafe, h =>
    by_cases hk : k < l.length
    · rw [retain_panic_nodel l ans k hk (hsafe k rfl hk)] at h
      cases h; exact Valid_encode _
    · rw [retain_spec_late_panic l ans k (by omega)] at h
      cases h; exact Valid_encode _

/-- the hypotheses of the partial theorem are satisfiable, also with a panic -/
example : ∃ r, retain (encode ['a', 'é', 'z']) (ansOf [true, true, false]) (some 2) = .ok r ∧ Valid r.bytes :=
  ⟨_, rfl, by decide⟩

/-- After a panic that leaves valid text, using the string further keeps it valid; dropping it
touches no text at all (`Vec<u8>` has no element destructors): both continuations of C16. -/
theorem retain_panic_then_push (l : List Char) (ans : Nat → Bool) (k : Nat) (hk : k < l.length)
    (hall : ∀ j, j < k → ans j = true) (c : Char) :
    ∃ r, retain (encode l) ans (some k) = .ok r ∧ r.panicked = true ∧ Valid (push r.bytes c) := by
  refine ⟨_, retain_panic_nodel l ans k hk hall, rfl, ?_⟩
  rw [push_encode]; exact Valid_encode _

end Bump.Str

#print axioms Bump.Str.C16_string_retain_valid_counterexample
#print axioms Bump.Str.C16_string_retain_valid_partial
#print axioms Bump.Str.F6_witness
#print axioms Bump.Str.retain_panic_then_push
