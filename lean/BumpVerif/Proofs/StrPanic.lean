import BumpVerif.Proofs.StrRetain
/-!
# String part of C16: a panicking `retain` closure and UTF-8 validity (F6)

Full statement (what C16 asks of `String::retain`), for the loop with (`guard = true`) or
without (`guard = false`, the pinned tree) a drop guard that fixes the length on unwind:

    RetainPanicSafe guard :=
      ∀ (l : List Char) (ans : Nat → Bool) (p : Option Nat) (r : RetainOut),
        retainWith guard (encode l) ans p = .ok r → Valid r.bytes

It is FALSE for the code as it is (`Gen.STR_RETAIN_GUARD = 0`, regenerated from the source):
`retain` moves kept bytes down while it runs and only shortens the vector at the very end; a
panic in the closure leaves `len` untouched over partly compacted bytes.  Below: the
counterexample (the model reproduces the bytes the crate leaves: C3 A9 A9 7A), the part that
does hold without the guard, and the full statement for the guarded loop of
`proposed_fixes/F6-string-retain.diff` (so: the property holds iff the guard is there).
-/
namespace Bump.Str

/-- C16 for `String::retain`, full strength -/
def RetainPanicSafe (guard : Bool) : Prop :=
  ∀ (l : List Char) (ans : Nat → Bool) (p : Option Nat) (r : RetainOut),
    retainWith guard (encode l) ans p = .ok r → Valid r.bytes

/-- the witness: "aéz", delete 'a', keep 'é', panic on 'z' -/
theorem F6_witness :
    retainWith false (encode ['a', 'é', 'z']) (ansOf [false, true, true]) (some 2)
      = .ok ⟨[0xC3, 0xA9, 0xA9, 0x7A], true, 3⟩ := by decide

theorem F6_witness_invalid : ¬ Valid [0xC3, 0xA9, 0xA9, 0x7A] := by decide

/-- **The full statement is false without the guard (F6).** -/
theorem C16_string_retain_valid_counterexample : ¬ RetainPanicSafe false := by
  intro h
  exact F6_witness_invalid (h _ _ _ _ F6_witness)

/-- **What holds without the guard**: no panic, a panic index that is never reached, or a panic
before any character was deleted leave the string valid (in the last case unchanged).  Missing
for the full statement: a panic after a deletion — there the crate leaves invalid bytes. -/
theorem C16_string_retain_valid_partial (l : List Char) (ans : Nat → Bool) (p : Option Nat) (r : RetainOut)
    (hsafe : ∀ k, p = some k → k < l.length → ∀ j, j < k → ans j = true)
    (h : retainWith false (encode l) ans p = .ok r) : Valid r.bytes := by
  match p, hsafe, h with
  | none, _, h =>
    rw [retainWith_spec] at h
    cases h; exact Valid_encode _
  | some k, hsafe, h =>
    by_cases hk : k < l.length
    · rw [retain_panic_nodel l ans k hk (hsafe k rfl hk)] at h
      cases h; exact Valid_encode _
    · rw [retainWith_spec_late_panic false l ans k (by omega)] at h
      cases h; exact Valid_encode _

/-- the hypotheses of the partial theorem are satisfiable, also with a panic -/
example : ∃ r, retainWith false (encode ['a', 'é', 'z']) (ansOf [true, true, false]) (some 2) = .ok r ∧ Valid r.bytes :=
  ⟨_, rfl, by decide⟩

/-- **With the drop guard the full statement holds**: after a panic at call `p` the string is the
text kept among the first `p` characters. -/
theorem C16_string_retain_valid_guarded : RetainPanicSafe true := by
  intro l ans p r h
  match p, h with
  | none, h => rw [retainWith_spec] at h; cases h; exact Valid_encode _
  | some k, h =>
    by_cases hk : k < l.length
    · rw [retain_panic_guarded l ans k hk] at h; cases h; exact Valid_encode _
    · rw [retainWith_spec_late_panic true l ans k (by omega)] at h; cases h; exact Valid_encode _

/-- the property holds exactly when the guard is present; `retain` of the model is
`retainWith (Gen.STR_RETAIN_GUARD == 1)` with the flag regenerated from the source -/
theorem C16_string_retain_iff_guard (guard : Bool) : RetainPanicSafe guard ↔ guard = true := by
  cases guard
  · simp only [Bool.false_eq_true, iff_false]; exact C16_string_retain_valid_counterexample
  · simp only [iff_true]; exact C16_string_retain_valid_guarded

/-- After a panic that leaves valid text, using the string further keeps it valid; dropping it
touches no text at all (`Vec<u8>` has no element destructors): both continuations of C16. -/
theorem retain_panic_then_push (l : List Char) (ans : Nat → Bool) (k : Nat) (hk : k < l.length)
    (hall : ∀ j, j < k → ans j = true) (c : Char) :
    ∃ r, retainWith false (encode l) ans (some k) = .ok r ∧ r.panicked = true ∧ Valid (push r.bytes c) := by
  refine ⟨_, retain_panic_nodel l ans k hk hall, rfl, ?_⟩
  rw [push_encode]; exact Valid_encode _

end Bump.Str

#print axioms Bump.Str.C16_string_retain_valid_counterexample
#print axioms Bump.Str.C16_string_retain_valid_partial
#print axioms Bump.Str.C16_string_retain_valid_guarded
#print axioms Bump.Str.C16_string_retain_iff_guard
#print axioms Bump.Str.F6_witness
#print axioms Bump.Str.retain_panic_then_push
