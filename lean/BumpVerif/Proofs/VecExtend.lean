import BumpVerif.Proofs.VecDedup
/-!
# `extend` / `from_iter_in` with a caller-supplied iterator that may panic (vec.rs:605, 2151)
-/
namespace Bump.V
open Bump

/-- the loop `for t in iter { self.push(t) }` over the caller's iterator: every item passes from
the iterator to the vector, or is dropped when its `push` is refused; the loop stops at the
first panic (iterator or push) -/
theorem extendLoop_own {c : Cfg} {ins held : List Nat} (hc : CfgOK c) (hd : c.needsDrop = true) :
    ∀ (fuel : Nat) (v : VS) (s : Src) (w : W) (ys : List Elem), RepB c v ys → Own ins ys w.evs (ids s.items ++ held) →
      ∃ (ys' : List Elem) (s' : Src), (extendLoop c fuel v (.src s) w).2.1 = .src s' ∧
        RepB c (extendLoop c fuel v (.src s) w).1 ys' ∧
        Own ins ys' (extendLoop c fuel v (.src s) w).2.2.1.evs (ids s'.items ++ held) := by
  intro fuel
  induction fuel with
  | zero => intro v s w ys hr ho; exact ⟨ys, s, rfl, hr, ho⟩
  | succ f ih =>
    intro v s w ys hr ho
    by_cases hp : s.panicAt == some s.calls
    · exact ⟨ys, { s with calls := s.calls + 1, panicAt := none }, by simp [extendLoop, It.next, hp], by simp [extendLoop, It.next, hp]; exact hr,
        by simp [extendLoop, It.next, hp]; exact ho⟩
    · cases hit : s.items with
      | nil =>
        refine ⟨ys, { s with calls := s.calls + 1 }, by simp [extendLoop, It.next, hp, hit], by simp [extendLoop, It.next, hp, hit]; exact hr, ?_⟩
        simp [extendLoop, It.next, hp, hit]; rw [hit] at ho; exact ho
      | cons e r =>
        have ho1 : Own ins ys w.evs (e.id :: (ids r ++ held)) := by rw [hit] at ho; simpa using ho
        obtain ⟨ys1, hr1, ho1'⟩ := push_own hc hd hr e w ho1
        let s1 : Src := { s with items := r, consumed := s.consumed + 1, calls := s.calls + 1 }
        cases hpr : (push c v e w).2.2 with
        | none =>
          refine ⟨ys1, s1, ?_, ?_, ?_⟩
          · simp [extendLoop, It.next, hp, hit]; split <;> simp_all [s1]
          · have : (extendLoop c (f + 1) v (.src s) w).1 = (push c v e w).1 := by
              simp [extendLoop, It.next, hp, hit]; split <;> simp_all
            rw [this]; exact hr1
          · have : (extendLoop c (f + 1) v (.src s) w).2.2.1 = (push c v e w).2.1 := by
              simp [extendLoop, It.next, hp, hit]; split <;> simp_all
            rw [this]; exact ho1'
        | some u =>
          obtain ⟨ys', s', h1, h2, h3⟩ := ih (push c v e w).1 s1 (push c v e w).2.1 ys1 hr1 ho1'
          have hstep : extendLoop c (f + 1) v (.src s) w = extendLoop c f (push c v e w).1 (.src s1) (push c v e w).2.1 := by
            simp [extendLoop, It.next, hp, hit]; split <;> simp_all [s1]
          rw [hstep]
          exact ⟨ys', s', h1, h2, h3⟩

theorem extend_unfold (c : Cfg) (v : VS) (it : It) (w : W) :
    extend c v it w =
      let r := extendRef c v it w
      (r.1, r.2.1.dropRest c r.2.2.1, if r.2.2.2 then some () else none) := by
  unfold extend
  generalize extendRef c v it w = r
  rcases r with ⟨v1, it1, w1, ok⟩
  rfl

theorem extendRef_unfold (c : Cfg) (v : VS) (it : It) (w : W) :
    extendRef c v it w =
      match rawReserve c v v.len it.hintLo with
      | none => (v, it, w, false)
      | some v1 => extendLoop c (it.remaining + 1) v1 it w := rfl

/-- `extend(iter)` with the caller's iterator (any `size_hint`, panicking at any `next` call):
every item ends up in the vector or is dropped exactly once (by a refused `push` or with the
iterator); nothing leaks -/
theorem extend_own {c : Cfg} {v : VS} {xs : List Elem} {ins held : List Nat} (hc : CfgOK c) (hd : c.needsDrop = true)
    (h : RepB c v xs) (s : Src) (w : W) (ho : Own ins xs w.evs (ids s.items ++ held)) :
    ∃ ys, RepB c (extend c v (.src s) w).1 ys ∧ Own ins ys (extend c v (.src s) w).2.1.evs held := by
  rw [extend_unfold, extendRef_unfold]
  cases hr : rawReserve c v v.len (It.src s).hintLo with
  | none =>
    refine ⟨xs, h, ?_⟩
    simp only [It.dropRest, dropAll_evs]
    apply ho.of_count
    intro a
    simp only [evDrops_append, evMoved_append, evDrops_dropEvs c hd, evMoved_dropEvs, List.count_append, List.count_nil]
    omega
  | some v1 =>
    obtain ⟨h1, _, _⟩ := rawReserve_some hc h hr
    obtain ⟨ys', s', hs', hr', ho'⟩ := extendLoop_own (ins := ins) (held := held) hc hd ((It.src s).remaining + 1) v1 s w xs h1 ho
    refine ⟨ys', hr', ?_⟩
    simp only [hs', It.dropRest, dropAll_evs]
    apply ho'.of_count
    intro a
    simp only [evDrops_append, evMoved_append, evDrops_dropEvs c hd, evMoved_dropEvs, List.count_append, List.count_nil]
    omega

theorem newVec_rep (c : Cfg) : RepB c newVec [] :=
  ⟨⟨⟨[], rfl⟩, rfl, fun _ => rfl, by simp [newVec]⟩, by simp [newVec, USIZE], fun _ => by simp [newVec, USIZE]⟩

/-- `Vec::from_iter_in` / `collect_in`: if the iterator panics the partly built vector is
dropped; either way every item is owned by the result or has been dropped exactly once -/
theorem fromIter_own {c : Cfg} {ins held : List Nat} (hc : CfgOK c) (hd : c.needsDrop = true)
    (s : Src) (w : W) (ho : Own ins [] w.evs (ids s.items ++ held)) :
    ∃ ys, (∀ v, (fromIter c (.src s) w).1 = some v → RepB c v ys) ∧ ((fromIter c (.src s) w).1 = none → ys = []) ∧
      Own ins ys (fromIter c (.src s) w).2.evs held := by
  obtain ⟨ys, hr, hown⟩ := extend_own hc hd (newVec_rep c) s w ho
  unfold fromIter
  generalize extend c newVec (.src s) w = r at hr hown
  rcases r with ⟨v1, w1, ok⟩
  cases ok with
  | some u => exact ⟨ys, fun v hv => by simp at hv; subst hv; exact hr, by simp, hown⟩
  | none =>
    refine ⟨[], by simp, fun _ => rfl, ?_⟩
    exact (dropVec_own hd hr w1 hown).2

/-! ## iterators that clone: `extend_from_slice`, `Clone::clone` -/

/-- all ids created so far are below the counter the next clone takes its id from -/
def Fresh (ins : List Nat) (n : Nat) : Prop := ∀ i ∈ ins, i < n

theorem Own.add_fresh {ins xs evs held} (h : Own ins xs evs held) (i : Nat) (hi : i ∉ ins) :
    Own (i :: ins) xs evs (i :: held) := by
  refine ⟨?_, List.nodup_cons.mpr ⟨hi, h.2⟩⟩
  have := h.1
  rw [List.perm_iff_count] at this ⊢
  intro a
  have := this a
  simp only [List.count_append, List.count_cons] at this ⊢
  omega

theorem push_nextId {c : Cfg} {v : VS} {xs : List Elem} (hc : CfgOK c) (h : RepB c v xs) (e : Elem) (w : W) :
    (push c v e w).2.1.nextId = w.nextId := by
  rcases push_spec hc h e w with ⟨v', hp, _⟩ | ⟨hp, _, _⟩
  · rw [hp]
  · rw [hp]; exact (dropElem_evs c w e).2.2

/-- the push loop over `slice.iter().cloned()`: every clone gets a fresh id and ends up in the
vector (or is dropped when its `push` is refused); a panicking `Clone` stops the loop -/
theorem extendLoop_cloned_own {c : Cfg} {held : List Nat} (hc : CfgOK c) (hd : c.needsDrop = true) (hf : c.freshClone = true) :
    ∀ (fuel : Nat) (v : VS) (src : List Elem) (w : W) (ys : List Elem) (ins : List Nat),
      RepB c v ys → Own ins ys w.evs held → Fresh ins w.nextId →
      ∃ (ys' : List Elem) (ins' : List Nat), RepB c (extendLoop c fuel v (.cloned src) w).1 ys' ∧
        Own ins' ys' (extendLoop c fuel v (.cloned src) w).2.2.1.evs held ∧
        Fresh ins' (extendLoop c fuel v (.cloned src) w).2.2.1.nextId ∧
        (∃ r, (extendLoop c fuel v (.cloned src) w).2.1 = .cloned r) := by
  intro fuel
  induction fuel with
  | zero => intro v src w ys ins hr ho hfr; exact ⟨ys, ins, hr, ho, hfr, src, rfl⟩
  | succ f ih =>
    intro v src w ys ins hr ho hfr
    cases src with
    | nil => exact ⟨ys, ins, by simp [extendLoop, It.next]; exact hr, by simp [extendLoop, It.next]; exact ho,
        by simp [extendLoop, It.next]; exact hfr, [], by simp [extendLoop, It.next]⟩
    | cons e r =>
      by_cases hp : c.clonePanicAt == some w.cloneCalls
      · have hcl : cloneElem c w e = ({ w with cloneCalls := w.cloneCalls + 1 }, none) := by simp [cloneElem, hf, hp]
        exact ⟨ys, ins, by simp [extendLoop, It.next, hcl]; exact hr, by simp [extendLoop, It.next, hcl]; exact ho,
          by simp [extendLoop, It.next, hcl]; exact hfr, r, by simp [extendLoop, It.next, hcl]⟩
      · let e' : Elem := ⟨w.nextId, e.val⟩
        let w1 : W := { w with cloneCalls := w.cloneCalls + 1, nextId := w.nextId + 1 }
        have hcl : cloneElem c w e = (w1, some e') := by simp [cloneElem, hf, hp, w1, e']
        have hni : w.nextId ∉ ins := fun hin => Nat.lt_irrefl _ (hfr _ hin)
        have ho1 : Own (e'.id :: ins) ys w1.evs (e'.id :: held) := ho.add_fresh w.nextId hni
        have hfr1 : Fresh (e'.id :: ins) w1.nextId := by
          intro i hi
          simp only [List.mem_cons] at hi
          rcases hi with rfl | hi
          · simp [w1, e']
          · have := hfr i hi; simp [w1]; omega
        obtain ⟨ys1, hr1, ho1'⟩ := push_own hc hd hr e' w1 ho1
        have hn1 := push_nextId hc hr e' w1
        cases hpr : (push c v e' w1).2.2 with
        | none =>
          have hstep : extendLoop c (f + 1) v (.cloned (e :: r)) w = ((push c v e' w1).1, .cloned r, (push c v e' w1).2.1, false) := by
            simp [extendLoop, It.next, hcl]; split <;> simp_all
          rw [hstep]
          exact ⟨ys1, e'.id :: ins, hr1, ho1', by simpa [hn1] using hfr1, r, rfl⟩
        | some u =>
          have hstep : extendLoop c (f + 1) v (.cloned (e :: r)) w = extendLoop c f (push c v e' w1).1 (.cloned r) (push c v e' w1).2.1 := by
            simp [extendLoop, It.next, hcl]; split <;> simp_all
          rw [hstep]
          exact ih _ r _ ys1 (e'.id :: ins) hr1 ho1' (by rw [hn1]; exact hfr1)

/-- `extend_from_slice(&other)` with a `Clone` that panics at any call: the clones made so far are
owned by the vector, nothing is dropped twice, the source slice is untouched -/
theorem extendFromSlice_own {c : Cfg} {v : VS} {xs : List Elem} {ins held : List Nat} (hc : CfgOK c) (hd : c.needsDrop = true)
    (hf : c.freshClone = true) (h : RepB c v xs) (src : List Elem) (w : W) (ho : Own ins xs w.evs held) (hfr : Fresh ins w.nextId) :
    ∃ ys ins', RepB c (extend c v (.cloned src) w).1 ys ∧ Own ins' ys (extend c v (.cloned src) w).2.1.evs held ∧
      Fresh ins' (extend c v (.cloned src) w).2.1.nextId := by
  rw [extend_unfold, extendRef_unfold]
  cases hr : rawReserve c v v.len (It.cloned src).hintLo with
  | none => exact ⟨xs, ins, h, by simpa [It.dropRest] using ho, by simpa [It.dropRest] using hfr⟩
  | some v1 =>
    obtain ⟨h1, _, _⟩ := rawReserve_some hc h hr
    obtain ⟨ys', ins', hr', ho', hfr', r, hit⟩ := extendLoop_cloned_own (held := held) hc hd hf ((It.cloned src).remaining + 1) v1 src w xs ins h1 ho hfr
    refine ⟨ys', ins', hr', ?_, ?_⟩
    · simp only [hit, It.dropRest]; exact ho'
    · simp only [hit, It.dropRest]; exact hfr'

theorem dropAll_nextId (c : Cfg) (es : List Elem) (w : W) : (dropAll c es w).1.nextId = w.nextId := by
  induction es generalizing w with
  | nil => rfl
  | cons e es ih =>
    simp only [dropAll]
    rw [ih]
    exact (dropElem_evs c w e).2.2

/-- `Clone::clone` of a vector with an element `Clone` that panics at any call: the original is
untouched; the clones made so far are owned by the new vector or, if the call unwinds, have
been dropped exactly once with the partly built vector -/
theorem cloneVec_own {c : Cfg} {v : VS} {xs : List Elem} {ins held : List Nat} (hc : CfgOK c) (hd : c.needsDrop = true)
    (hf : c.freshClone = true) (h : RepB c v xs) (w : W) (ho : Own ins xs w.evs held) (hfr : Fresh ins w.nextId) :
    ∃ ys ins', (∀ nv, (cloneVec c v w).1 = some nv → RepB c nv ys) ∧ ((cloneVec c v w).1 = none → ys = []) ∧
      Own ins' (xs ++ ys) (cloneVec c v w).2.evs held ∧ Fresh ins' (cloneVec c v w).2.nextId := by
  have hlenU : v.len < USIZE := by have := h.lenCap; have := capOf_lt c v h.capLt; omega
  unfold cloneVec
  cases hwc : withCapacity c v.len with
  | none => exact ⟨[], ins, by simp, fun _ => rfl, by simpa using ho, hfr⟩
  | some n =>
    obtain ⟨hn, _, _, _, _⟩ := withCapacity_some hc hlenU hwc
    have ho0 : Own ins [] w.evs (ids xs ++ held) := by
      apply ho.of_count; intro a; simp only [ids_nil, List.count_nil, List.count_append]; omega
    obtain ⟨ys, ins', hr, ho', hfr'⟩ := extendFromSlice_own (held := ids xs ++ held) hc hd hf hn v.owned w ho0 hfr
    simp only
    generalize extend c n (.cloned v.owned) w = r at hr ho' hfr'
    rcases r with ⟨n1, w1, ok⟩
    simp only at hr ho' hfr'
    cases ok with
    | some u =>
      refine ⟨ys, ins', fun nv hnv => by simp at hnv; subst hnv; exact hr, by simp, ?_, hfr'⟩
      apply ho'.of_count; intro a; simp only [ids_append, List.count_append]; omega
    | none =>
      have hdv := dropVec_own hd hr w1 ho'
      refine ⟨[], ins', by simp, fun _ => rfl, ?_, ?_⟩
      · apply hdv.2.of_count; intro a; simp only [ids_append, ids_nil, List.count_append, List.count_nil, List.append_nil]; omega
      · simp only [dropVec, dropAll_nextId]; exact hfr'

end Bump.V
