import BumpVerif.Proofs.VecFilter
/-!
# `drain` / `into_iter` (vec.rs:1536-1590, 2112-2130, 2430-2570)
-/
namespace Bump.V
open Bump

theorem W.moved_evs (w : W) (e : Elem) : (w.moved e).evs = w.evs ++ movedEvs [e] ∧ (w.moved e).bad = w.bad ∧
    (w.moved e).nextId = w.nextId := ⟨rfl, rfl, rfl⟩

theorem movedEvs_append (a b : List Elem) : movedEvs (a ++ b) = movedEvs a ++ movedEvs b := by simp [movedEvs]

/-- `take` calls of `next()` on the slice iterator of a `Drain` / `IntoIter` -/
theorem takeFront_spec (xs : List Elem) (rest : List (Option Elem)) (l cp : Nat) :
    ∀ (k : Nat) (d : Drain) (w : W), d.hi ≤ xs.length → d.lo ≤ d.hi →
      ∃ w', Drain.takeFront ⟨xs.map some ++ rest, l, cp⟩ k d w =
          ({ d with lo := d.lo + min k (d.hi - d.lo) }, w', (xs.drop d.lo).take (min k (d.hi - d.lo))) ∧
        w'.evs = w.evs ++ movedEvs ((xs.drop d.lo).take (min k (d.hi - d.lo))) ∧ w'.bad = w.bad ∧ w'.nextId = w.nextId := by
  intro k
  induction k with
  | zero => intro d w _ _; exact ⟨w, by simp [Drain.takeFront], by simp [movedEvs], rfl, rfl⟩
  | succ k ih =>
    intro d w hhi hlo
    by_cases hlt : d.lo < d.hi
    · have hr := read_map_some xs rest d.lo (by omega) l cp
      obtain ⟨w', hrun, hev, hb, hn⟩ := ih { d with lo := d.lo + 1 } (w.moved xs[d.lo]) hhi (by simp; omega)
      refine ⟨w', ?_, ?_, by rw [hb]; rfl, by rw [hn]; rfl⟩
      · simp only [Drain.takeFront, hlt, ↓reduceIte, hr, hrun]
        have hm : min (k + 1) (d.hi - d.lo) = min k (d.hi - (d.lo + 1)) + 1 := by omega
        have hd : xs.drop d.lo = xs[d.lo] :: xs.drop (d.lo + 1) := (List.getElem_cons_drop (by omega)).symm
        simp only [hm, hd, List.take_succ_cons]
        congr 2; omega
      · have hm : min (k + 1) (d.hi - d.lo) = min k (d.hi - (d.lo + 1)) + 1 := by omega
        have hd : xs.drop d.lo = xs[d.lo] :: xs.drop (d.lo + 1) := (List.getElem_cons_drop (by omega)).symm
        rw [hev, hm, hd, List.take_succ_cons]
        simp [W.moved, W.emit, movedEvs]
    · have hm : min (k + 1) (d.hi - d.lo) = 0 := by omega
      refine ⟨w, ?_, by simp [hm, movedEvs], rfl, rfl⟩
      simp [Drain.takeFront, hlt, hm]

/-- `back` calls of `next_back()` -/
theorem takeBack_spec (xs : List Elem) (rest : List (Option Elem)) (l cp : Nat) :
    ∀ (k : Nat) (d : Drain) (w : W), d.hi ≤ xs.length → d.lo ≤ d.hi →
      ∃ w', Drain.takeBack ⟨xs.map some ++ rest, l, cp⟩ k d w =
          ({ d with hi := d.hi - min k (d.hi - d.lo) }, w',
            ((xs.take d.hi).drop (d.hi - min k (d.hi - d.lo))).reverse) ∧
        w'.evs = w.evs ++ movedEvs ((xs.take d.hi).drop (d.hi - min k (d.hi - d.lo))).reverse ∧ w'.bad = w.bad ∧
        w'.nextId = w.nextId := by
  intro k
  induction k with
  | zero => intro d w _ _; exact ⟨w, by simp [Drain.takeBack], by simp [movedEvs], rfl, rfl⟩
  | succ k ih =>
    intro d w hhi hlo
    by_cases hlt : d.lo < d.hi
    · have hr := read_map_some xs rest (d.hi - 1) (by omega) l cp
      obtain ⟨w', hrun, hev, hb, hn⟩ := ih { d with hi := d.hi - 1 } (w.moved (xs[d.hi - 1]'(by omega))) (by simp; omega) (by simp; omega)
      have hm : min (k + 1) (d.hi - d.lo) = min k (d.hi - 1 - d.lo) + 1 := by omega
      have hlast := take_drop_last xs d.hi (min k (d.hi - 1 - d.lo)) hhi (by omega)
      refine ⟨w', ?_, ?_, by rw [hb]; rfl, by rw [hn]; rfl⟩
      · simp only [Drain.takeBack, hlt, ↓reduceIte, hr, hrun]
        rw [hm, hlast]
        simp only [List.reverse_append, List.reverse_cons, List.reverse_nil, List.nil_append, List.cons_append]
        congr 2
        omega
      · rw [hev, hm, hlast]
        simp [W.moved, W.emit, movedEvs]
    · have hm : min (k + 1) (d.hi - d.lo) = 0 := by omega
      refine ⟨w, ?_, by simp [hm, movedEvs], rfl, rfl⟩
      simp [Drain.takeBack, hlt, hm]

/-- `for_each(drop)` over an owning iterator: a prefix is dropped; all of it unless a
destructor panicked -/
theorem dropEach_spec (c : Cfg) : ∀ (es : List Elem) (w : W),
    ∃ (k : Nat) (w' : W) (r : Option (List Elem)), dropEach c es w = (w', r) ∧ k ≤ es.length ∧
      w'.evs = w.evs ++ dropEvs c (es.take k) ∧ w'.bad = w.bad ∧ w'.nextId = w.nextId ∧
      (r = none → k = es.length) ∧ (∀ left, r = some left → left = es.drop k) ∧ (c.dropPanicAt = none → r = none) := by
  intro es
  induction es with
  | nil => intro w; exact ⟨0, w, none, rfl, Nat.le_refl _, by simp [dropEvs], rfl, rfl, fun _ => rfl, by simp, fun _ => rfl⟩
  | cons e es ih =>
    intro w
    obtain ⟨hev0, hb0, hn0⟩ := dropElem_evs c w e
    cases hp : (dropElem c w e).2 with
    | true =>
      refine ⟨1, (dropElem c w e).1, some es, by simp [dropEach, hp], by simp, by rw [dropElem_evs']; simp, hb0, hn0, by simp, by simp, ?_⟩
      intro hn; rw [dropElem_noPanic c w e hn] at hp; cases hp
    | false =>
      obtain ⟨k, w', r, hrun, hk, hev, hb, hn, hr1, hr2, hr3⟩ := ih (dropElem c w e).1
      refine ⟨k + 1, w', r, by simp [dropEach, hp, hrun], by simp; omega, ?_, by rw [hb, hb0], by rw [hn, hn0],
        fun h => by simp [hr1 h], fun left h => by simpa using hr2 left h, hr3⟩
      rw [hev, dropElem_evs', List.append_assoc, ← dropEvs_append]; rfl

theorem all_some (ys : List Elem) : (ys.map some).all Option.isSome = true := by
  induction ys with
  | nil => rfl
  | cons y ys ih => simp [ih]

theorem readRange_rep (xs : List Elem) (rest : List (Option Elem)) (l cp lo hi : Nat) (w : W) (hhi : hi ≤ xs.length) (hlo : lo ≤ hi) :
    readRange ⟨xs.map some ++ rest, l, cp⟩ lo hi w = ((xs.drop lo).take (hi - lo), w) := by
  have hlen : ((xs.drop lo).take (hi - lo)).length = hi - lo := by simp; omega
  have h1 : ((xs.map some ++ rest).drop lo).take (hi - lo) = ((xs.drop lo).take (hi - lo)).map some := by
    rw [List.drop_append_of_le_length (by simp; omega), List.take_append_of_le_length (by simp; omega)]
    simp [List.map_drop, List.map_take]
  generalize (xs.drop lo).take (hi - lo) = ys at hlen h1
  simp only [readRange, h1, filterMap_map_some, all_some, List.length_map, hlen]
  simp

/-- the range of `drain(range)` is acceptable: both bounds computable, `start ≤ end ≤ len` -/
def DrainOK (c : Cfg) (len : Nat) (s e : Bd) (st en : Nat) : Prop :=
  rangeStart c s = some st ∧ rangeEnd c len e = some en ∧ st ≤ en ∧ en ≤ len

theorem drainNew_ok {c : Cfg} {v : VS} {s e : Bd} {st en : Nat} (h : DrainOK c v.len s e st en) :
    drainNew c v s e = some ({ v with len := st }, ⟨en, v.len - en, st, en⟩) := by
  obtain ⟨h1, h2, h3, h4⟩ := h
  simp [drainNew, h1, h2, h3, h4]

theorem drainNew_none {c : Cfg} {v : VS} {s e : Bd} (h : ¬ ∃ st en, DrainOK c v.len s e st en) :
    drainNew c v s e = none := by
  unfold drainNew
  split
  · rename_i st en h1 h2
    split
    · rename_i hc; exact absurd ⟨st, en, h1, h2, hc.1, hc.2⟩ h
    · rfl
  · rfl

/-- a bad range panics before anything is touched -/
theorem drainOp_panics {c : Cfg} {v : VS} {s e : Bd} (h : ¬ ∃ st en, DrainOK c v.len s e st en) (take back : Nat) (forget : Bool) (w : W) :
    drainOp c v s e take back forget w = (v, w, none) := by
  simp [drainOp, drainNew_none h]

theorem drainOp_unfold (c : Cfg) (v : VS) (s e : Bd) (take back : Nat) (forget : Bool) (w : W) (v1 : VS) (d : Drain)
    (h : drainNew c v s e = some (v1, d)) :
    drainOp c v s e take back forget w =
      let a := d.takeFront v1 take w
      let b := a.1.takeBack v1 back a.2.1
      if forget then (v1, b.2.1, some (a.2.2 ++ b.2.2))
      else ((b.1.drop c v1 b.2.1).1, (b.1.drop c v1 b.2.1).2.1, if (b.1.drop c v1 b.2.1).2.2 then none else some (a.2.2 ++ b.2.2)) := by
  simp only [drainOp, h]

theorem Drain.drop_unfold (c : Cfg) (v : VS) (d : Drain) (w : W) :
    d.drop c v w =
      let a := readRange v d.lo d.hi w
      let b := dropEach c a.1 a.2
      match b.2 with
      | some _ => (v, b.1, true)
      | none => ((d.moveBack c v b.1).1, (d.moveBack c v b.1).2, false) := by
  unfold Drain.drop
  generalize readRange v d.lo d.hi w = a
  rcases a with ⟨es, w1⟩
  simp only
  generalize dropEach c es w1 = b
  rcases b with ⟨w2, r⟩
  cases r <;> rfl

theorem Drain.moveBack_indep (c : Cfg) (v : VS) (d : Drain) (w : W) :
    d.moveBack c v w = (Drain.mk d.tailStart d.tailLen d.tailStart d.tailStart).moveBack c v w := rfl

/-- moving the tail back after the drained range is gone -/
theorem moveBack_spec {c : Cfg} (xs : List Elem) (rest : List (Option Elem)) (cp st en : Nat) (w : W) (hse : st ≤ en) (hen : en ≤ xs.length) :
    ∃ rest', (Drain.mk en (xs.length - en) en en).moveBack c ⟨xs.map some ++ rest, st, cp⟩ w =
        (⟨(xs.take st ++ xs.drop en).map some ++ rest', (xs.take st ++ xs.drop en).length, cp⟩, w) ∧
      ((xs.take st ++ xs.drop en).map some ++ rest').length = (xs.map some ++ rest).length := by
  have hlen : (xs.take st ++ xs.drop en).length = st + (xs.length - en) := by simp; omega
  have hsplit : xs.map some ++ rest =
      (xs.take st).map some ++ (((xs.drop st).take (en - st)).map some ++ ((xs.drop en).map some ++ rest)) := by
    have h1 : xs = xs.take st ++ ((xs.drop st).take (en - st) ++ xs.drop en) := by
      have : xs.drop en = (xs.drop st).drop (en - st) := by rw [List.drop_drop]; congr 1; omega
      rw [this, List.take_append_drop, List.take_append_drop]
    calc xs.map some ++ rest = (xs.take st ++ ((xs.drop st).take (en - st) ++ xs.drop en)).map some ++ rest := by rw [← h1]
      _ = _ := by simp only [List.map_append, List.append_assoc]
  by_cases htail : xs.length - en > 0
  · by_cases hne : en ≠ st
    · obtain ⟨T, hT, hcp⟩ := copy_block_down ((xs.take st).map some) (((xs.drop st).take (en - st)).map some) ((xs.drop en).map some) rest
      have hK : ((xs.take st).map some).length = st := by simp; omega
      have hH : (((xs.drop st).take (en - st)).map some).length = en - st := by simp; omega
      have hU : ((xs.drop en).map some).length = xs.length - en := by simp
      rw [hK, hH, hU, ← hsplit, show st + (en - st) = en by omega] at hcp
      refine ⟨T ++ rest, ?_, by simp; omega⟩
      have hn0 : xs.length - en ≠ 0 := by omega
      have hneed : max en st + (xs.length - en) ≤ (xs.map some ++ rest).length := by simp; omega
      simp only [Drain.moveBack, htail, ↓reduceIte, hne, ne_eq, not_false_eq_true, VS.copy, hn0,
        need_ok c (VS.mk (xs.map some ++ rest) st cp) _ w _ hneed, hcp, hlen]
      simp
    · have heq : en = st := by omega
      subst heq
      refine ⟨rest, ?_, by simp⟩
      simp only [Drain.moveBack, htail, ↓reduceIte, ne_eq, not_true_eq_false, hlen]
      rw [List.take_append_drop]
  · have hfull : en = xs.length := by omega
    subst hfull
    refine ⟨(xs.drop st).map some ++ rest, ?_, by simp; omega⟩
    simp only [Drain.moveBack, htail, ↓reduceIte, hlen]
    simp only [List.drop_length, List.append_nil, Nat.sub_self, Nat.add_zero]
    rw [← List.append_assoc, ← List.map_append, List.take_append_drop]

/-- `drain(st..en)` with `take` × `next`, `back` × `next_back`, then dropped or forgotten.
`front`/`backs` go to the caller; of the remaining middle part `left` the destructor drops a
prefix of length `kd` (all of it unless a destructor panics); `fin` = `Drain::drop` ran to its
end: then the vector keeps `xs.take st ++ xs.drop en`; when the `Drain` was forgotten or its
destructor unwound the vector keeps only `xs.take st` (the rest is leaked, never duplicated). -/
theorem drainOp_spec {c : Cfg} {v : VS} {xs : List Elem} (h : RepB c v xs) {s e : Bd} {st en : Nat}
    (hok : DrainOK c xs.length s e st en) (take back : Nat) (forget : Bool) (w : W) :
    let k1 := min take (en - st)
    let k2 := min back (en - (st + k1))
    let front := (xs.drop st).take k1
    let backs := ((xs.take en).drop (en - k2)).reverse
    let left := (xs.drop (st + k1)).take (en - k2 - (st + k1))
    ∃ (v' : VS) (w' : W) (r : Option (List Elem)) (kd : Nat) (fin : Bool), drainOp c v s e take back forget w = (v', w', r) ∧
      kd ≤ left.length ∧ w'.evs = w.evs ++ movedEvs (front ++ backs) ++ dropEvs c (left.take kd) ∧ w'.bad = w.bad ∧
      w'.nextId = w.nextId ∧ (∀ m, r = some m → m = front ++ backs) ∧
      (forget = true → kd = 0 ∧ fin = false ∧ r = some (front ++ backs)) ∧
      (fin = true → kd = left.length ∧ r = some (front ++ backs)) ∧ (forget = false → fin = false → r = none) ∧
      (c.dropPanicAt = none → forget = false → fin = true) ∧
      RepB c v' (if fin then xs.take st ++ xs.drop en else xs.take st) := by
  intro k1 k2 front backs left
  rcases v with ⟨sl, l, cp⟩
  obtain ⟨rest, rfl, rfl⟩ := h.toRep.nf
  have hse := hok.2.2.1
  have hen := hok.2.2.2
  have hnew := drainNew_ok (v := ⟨xs.map some ++ rest, xs.length, cp⟩) hok
  rw [drainOp_unfold c _ s e take back forget w _ _ hnew]
  obtain ⟨w1, hf, hev1, hb1, hn1⟩ := takeFront_spec xs rest st cp take ⟨en, xs.length - en, st, en⟩ w hen hse
  obtain ⟨w2, hbk, hev2, hb2, hn2⟩ := takeBack_spec xs rest st cp back ⟨en, xs.length - en, st + k1, en⟩ w1 hen (by simp only [k1]; omega)
  simp only at hf hbk
  simp only [k1] at hbk
  simp only [hf, hbk]
  have hevm : w2.evs = w.evs ++ movedEvs (front ++ backs) := by rw [hev2, hev1, movedEvs_append, List.append_assoc]
  -- what the vector keeps when the tail is not moved back
  have hrepSt : RepB c ⟨xs.map some ++ rest, st, cp⟩ (xs.take st) := by
    have hs : xs.map some ++ rest = (xs.take st).map some ++ ((xs.drop st).map some ++ rest) := by
      rw [← List.append_assoc, ← List.map_append, List.take_append_drop]
    have hl : (xs.take st).length = st := by simp; omega
    have := h.shrink (ys := xs.take st) (rest' := (xs.drop st).map some ++ rest) (by rw [← hs]) (by simp; omega)
    rw [hl, ← hs] at this
    exact this
  by_cases hforget : forget = true
  · refine ⟨⟨xs.map some ++ rest, st, cp⟩, w2, some (front ++ backs), 0, false, by simp only [hforget, ↓reduceIte]; rfl, Nat.zero_le _, by rw [hevm]; unfold dropEvs; split <;> simp,
      by rw [hb2, hb1], by rw [hn2, hn1], fun m hm => by simpa using hm.symm, fun _ => ⟨rfl, rfl, rfl⟩,
      (fun hf => Bool.noConfusion hf), fun hf => by simp [hforget] at hf, fun _ hf => by simp [hforget] at hf, by simpa using hrepSt⟩
  · have hf' : forget = false := by simpa using hforget
    simp only [hf', Bool.false_eq_true, ↓reduceIte, Drain.drop_unfold]
    have hrr := readRange_rep xs rest st cp (st + k1) (en - k2) w2 (by omega) (by simp only [k2]; omega)
    simp only [k1, k2] at hrr
    simp only [hrr]
    obtain ⟨kd, w3, r, hde, hkd, hev3, hb3, hn3, hr1, hr2, hr3⟩ := dropEach_spec c left w2
    simp only [left, k1, k2] at hde
    simp only [hde]
    cases r with
    | some lft =>
      refine ⟨_, _, _, kd, false, rfl, hkd, by rw [hev3, hevm], by rw [hb3, hb2, hb1], by rw [hn3, hn2, hn1], by simp,
        fun hf => by simp [hf'] at hf, (fun hf => Bool.noConfusion hf), fun _ _ => rfl, (fun hnp _ => by have := hr3 hnp; simp at this), by simpa using hrepSt⟩
    | none =>
      have hkl := hr1 rfl
      obtain ⟨rest', hmb, hlen'⟩ := moveBack_spec (c := c) xs rest cp st en w3 hse hen
      rw [Drain.moveBack_indep]
      simp only [hmb]
      refine ⟨_, _, _, kd, true, rfl, hkd, by rw [hev3, hevm], by rw [hb3, hb2, hb1], by rw [hn3, hn2, hn1], fun m hm => by simpa using hm.symm,
        fun hf => by simp [hf'] at hf, fun _ => ⟨hkl, rfl⟩, (fun _ hf => Bool.noConfusion hf), fun _ _ => rfl, ?_⟩
      simp only [↓reduceIte]
      exact h.shrink hlen' (by simp; omega)

theorem count_three (xs : List Elem) (a b : Nat) (hab : a ≤ b) (x : Nat) :
    (ids xs).count x = (ids (xs.take a)).count x + (ids ((xs.drop a).take (b - a))).count x + (ids (xs.drop b)).count x := by
  have h1 := count_take_drop xs a x
  have h2 := count_take_drop (xs.drop a) (b - a) x
  rw [List.drop_drop, show a + (b - a) = b by omega] at h2
  omega

/-- `drain` (any range, any use of the iterator, dropped or forgotten, destructors that may
panic): the ledger is preserved; values leak only when the `Drain` is forgotten or its
destructor unwinds -/
theorem drainOp_own {c : Cfg} {v : VS} {xs : List Elem} {ins held : List Nat} (hd : c.needsDrop = true)
    (h : RepB c v xs) (s e : Bd) (take back : Nat) (forget : Bool) (w : W) (ho : Own ins xs w.evs held) :
    ∃ ys lk, RepB c (drainOp c v s e take back forget w).1 ys ∧
      Own ins ys (drainOp c v s e take back forget w).2.1.evs (lk ++ held) ∧
      (forget = false → c.dropPanicAt = none → lk = []) := by
  have hlen := h.len
  by_cases hok : ∃ st en, DrainOK c v.len s e st en
  · obtain ⟨st, en, hok⟩ := hok
    rw [hlen] at hok
    have hse := hok.2.2.1
    have hen := hok.2.2.2
    obtain ⟨v', w', r, kd, fin, hrun, hkd, hev, _, _, _, _, hfin, _, hnp, hrep⟩ := drainOp_spec h hok take back forget w
    rw [hrun]
    -- the five pieces of `xs`
    have hcnt : ∀ x, (ids xs).count x = (ids (xs.take st)).count x + (ids ((xs.drop st).take (min take (en - st)))).count x +
        (ids ((xs.drop (st + (min take (en - st)))).take (en - (min back (en - (st + min take (en - st)))) - (st + (min take (en - st)))))).count x + (ids ((xs.take en).drop (en - (min back (en - (st + min take (en - st))))))).count x +
        (ids (xs.drop en)).count x := by
      intro x
      have h1 := count_three xs st en hse x
      have h2 := count_three ((xs.drop st).take (en - st)) (min take (en - st)) (en - st - (min back (en - (st + min take (en - st))))) (by omega) x
      have e1 : ((xs.drop st).take (en - st)).take (min take (en - st)) = (xs.drop st).take (min take (en - st)) := by
        rw [List.take_take]; congr 1; omega
      have e2 : (((xs.drop st).take (en - st)).drop (min take (en - st))).take (en - st - (min back (en - (st + min take (en - st)))) - (min take (en - st))) = (xs.drop (st + (min take (en - st)))).take (en - (min back (en - (st + min take (en - st)))) - (st + (min take (en - st)))) := by
        rw [List.drop_take, List.take_take, List.drop_drop]; congr 1; omega
      have e3 : ((xs.drop st).take (en - st)).drop (en - st - (min back (en - (st + min take (en - st))))) = (xs.take en).drop (en - (min back (en - (st + min take (en - st))))) := by
        rw [List.drop_take, List.drop_drop, List.drop_take]
        congr 1
        · omega
        · congr 1; omega
      rw [e1, e2, e3] at h2
      omega
    have hsplit := fun x => count_take_drop ((xs.drop (st + (min take (en - st)))).take (en - (min back (en - (st + min take (en - st)))) - (st + (min take (en - st))))) kd x
    cases fin with
    | true =>
      obtain ⟨hkl, _⟩ := hfin rfl
      refine ⟨_, [], hrep, ?_, fun _ _ => rfl⟩
      apply ho.of_count
      intro x
      have h1 := hcnt x
      have h2 := hsplit x
      rw [hkl, List.take_length, List.drop_length] at h2
      simp only [↓reduceIte, hev, hkl, List.take_length, evDrops_append, evMoved_append, (evDrops_movedEvs _).1, (evDrops_movedEvs _).2,
        evDrops_dropEvs c hd, evMoved_dropEvs, ids_append, ids_reverse, List.count_append, List.count_reverse, List.count_nil,
        List.nil_append, ids_nil] at h1 h2 ⊢
      omega
    | false =>
      refine ⟨_, ids (((xs.drop (st + (min take (en - st)))).take (en - (min back (en - (st + min take (en - st)))) - (st + (min take (en - st))))).drop kd ++ xs.drop en), hrep, ?_, ?_⟩
      · apply ho.of_count
        intro x
        have h1 := hcnt x
        have h2 := hsplit x
        simp only [Bool.false_eq_true, ↓reduceIte, hev, evDrops_append, evMoved_append, (evDrops_movedEvs _).1, (evDrops_movedEvs _).2,
          evDrops_dropEvs c hd, evMoved_dropEvs, ids_append, ids_reverse, List.count_append, List.count_reverse, List.count_nil,
          List.nil_append] at h1 h2 ⊢
        omega
      · intro hf hn
        have := hnp hn hf
        cases this
  · rw [drainOp_panics hok]
    exact ⟨xs, [], h, by simpa using ho, fun _ _ => rfl⟩

theorem intoIterOp_unfold (c : Cfg) (v : VS) (take back : Nat) (forget : Bool) (w : W) :
    intoIterOp c v take back forget w =
      let a := (Drain.mk v.len 0 0 v.len).takeFront v take w
      let b := a.1.takeBack v back a.2.1
      if forget then (b.2.1, some (a.2.2 ++ b.2.2))
      else
        let rr := readRange v b.1.lo b.1.hi b.2.1
        let de := dropEach c rr.1 rr.2
        (de.1, match de.2 with | some _ => none | none => some (a.2.2 ++ b.2.2)) := by
  unfold intoIterOp
  simp only
  split
  · rfl
  · generalize dropEach c _ _ = de
    rcases de with ⟨w2, r⟩
    cases r <;> rfl

/-- `into_iter()`, `take` × `next`, `back` × `next_back`, then the `IntoIter` is dropped or
forgotten: `front`/`backs` go to the caller, a prefix (`kd`) of the rest is dropped — all of it
unless a destructor panics or the iterator is forgotten -/
theorem intoIterOp_spec {c : Cfg} {v : VS} {xs : List Elem} (h : RepB c v xs) (take back : Nat) (forget : Bool) (w : W) :
    ∃ (w' : W) (r : Option (List Elem)) (kd : Nat), intoIterOp c v take back forget w = (w', r) ∧
      kd ≤ ((xs.drop (min take xs.length)).take (xs.length - min back (xs.length - min take xs.length) - min take xs.length)).length ∧
      w'.evs = w.evs ++ movedEvs (xs.take (min take xs.length) ++ (xs.drop (xs.length - min back (xs.length - min take xs.length))).reverse) ++
        dropEvs c (((xs.drop (min take xs.length)).take (xs.length - min back (xs.length - min take xs.length) - min take xs.length)).take kd) ∧
      w'.bad = w.bad ∧
      (∀ m, r = some m → m = xs.take (min take xs.length) ++ (xs.drop (xs.length - min back (xs.length - min take xs.length))).reverse) ∧
      (forget = true → kd = 0 ∧ r ≠ none) ∧
      (c.dropPanicAt = none → forget = false → r ≠ none ∧
        kd = ((xs.drop (min take xs.length)).take (xs.length - min back (xs.length - min take xs.length) - min take xs.length)).length) := by
  rcases v with ⟨sl, l, cp⟩
  obtain ⟨rest, rfl, rfl⟩ := h.toRep.nf
  rw [intoIterOp_unfold]
  obtain ⟨w1, hf, hev1, hb1, _⟩ := takeFront_spec xs rest xs.length cp take ⟨xs.length, 0, 0, xs.length⟩ w (Nat.le_refl _) (Nat.zero_le _)
  obtain ⟨w2, hbk, hev2, hb2, _⟩ := takeBack_spec xs rest xs.length cp back ⟨xs.length, 0, 0 + min take (xs.length - 0), xs.length⟩ w1 (Nat.le_refl _) (by simp; omega)
  simp only [Nat.sub_zero, Nat.zero_add, List.drop_zero, List.take_length] at hf hbk hev1 hev2
  simp only [hf, hbk]
  have hevm : w2.evs = w.evs ++ movedEvs (xs.take (min take xs.length) ++ (xs.drop (xs.length - min back (xs.length - min take xs.length))).reverse) := by
    rw [hev2, hev1, movedEvs_append, List.append_assoc]
  by_cases hforget : forget = true
  · refine ⟨w2, some (xs.take (min take xs.length) ++ (xs.drop (xs.length - min back (xs.length - min take xs.length))).reverse), 0,
      by simp only [hforget, ↓reduceIte], Nat.zero_le _, by rw [hevm]; unfold dropEvs; split <;> simp, by rw [hb2, hb1],
      fun m hm => by simpa using hm.symm, fun _ => ⟨rfl, by simp⟩, fun _ hf => by simp [hforget] at hf⟩
  · have hf' : forget = false := by simpa using hforget
    simp only [hf', Bool.false_eq_true, ↓reduceIte]
    have hrr := readRange_rep xs rest xs.length cp (min take xs.length) (xs.length - min back (xs.length - min take xs.length)) w2 (by omega) (by omega)
    simp only [hrr]
    obtain ⟨kd, w3, r, hde, hkd, hev3, hb3, _, hr1, _, hr3⟩ := dropEach_spec c
      ((xs.drop (min take xs.length)).take (xs.length - min back (xs.length - min take xs.length) - min take xs.length)) w2
    simp only [hde]
    refine ⟨w3, _, kd, rfl, hkd, by rw [hev3, hevm], by rw [hb3, hb2, hb1], ?_, fun hf => by simp [hf'] at hf, ?_⟩
    · intro m hm
      cases r with
      | some _ => simp at hm
      | none => simpa using hm.symm
    · intro hnp _
      have := hr3 hnp
      subst this
      exact ⟨by simp, hr1 rfl⟩

/-- `into_iter` consumes the vector: afterwards nothing is owned; the ledger is preserved, with
leaks only for a forgotten iterator or a panicking destructor -/
theorem intoIterOp_own {c : Cfg} {v : VS} {xs : List Elem} {ins held : List Nat} (hd : c.needsDrop = true)
    (h : RepB c v xs) (take back : Nat) (forget : Bool) (w : W) (ho : Own ins xs w.evs held) :
    ∃ lk, Own ins [] (intoIterOp c v take back forget w).1.evs (lk ++ held) ∧
      (forget = false → c.dropPanicAt = none → lk = []) := by
  obtain ⟨w', r, kd, hrun, hkd, hev, _, _, _, hnp⟩ := intoIterOp_spec h take back forget w
  rw [hrun]
  have hcnt := fun x => count_three xs (min take xs.length) (xs.length - min back (xs.length - min take xs.length)) (by omega) x
  have hsplit := fun x => count_take_drop
    ((xs.drop (min take xs.length)).take (xs.length - min back (xs.length - min take xs.length) - min take xs.length)) kd x
  refine ⟨ids (((xs.drop (min take xs.length)).take (xs.length - min back (xs.length - min take xs.length) - min take xs.length)).drop kd), ?_, ?_⟩
  · apply ho.of_count
    intro x
    have h1 := hcnt x
    have h2 := hsplit x
    simp only [hev, evDrops_append, evMoved_append, (evDrops_movedEvs _).1, (evDrops_movedEvs _).2,
      evDrops_dropEvs c hd, evMoved_dropEvs, ids_append, ids_reverse, ids_nil, List.count_append, List.count_reverse, List.count_nil,
      List.nil_append] at h1 h2 ⊢
    omega
  · intro hf hn
    obtain ⟨_, hk⟩ := hnp hn hf
    rw [hk, List.drop_length]; rfl

end Bump.V
