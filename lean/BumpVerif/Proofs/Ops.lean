import BumpVerif.Proofs.Alloc
/-! Constructors, `reset`, `drop`, `dealloc`, `shrink`, `grow`. -/
namespace Bump
open Gen

/-- closes goals that `simp only` may already have turned into `True` -/
macro "triv" : tactic => `(tactic| first | rfl | trivial)

theorem emptyArena_wf (E M : Nat) (lim : Option Nat) (hM : IsPow2 M) (hMle : M ≤ 16) : ArenaWF E ⟨M, [], lim⟩ := by
  refine ⟨hM, hMle, ?_, ?_, ?_, ?_, ?_⟩
  · intro c hc; cases hc
  · simp [Arena.cur, emptyChunk, sumUsable]
  · exact List.Pairwise.nil
  · intro c hc; cases hc
  · simp [sumSize]

/-- what a constructor call yields -/
structure NewPost (E M cap : Nat) (f : Bool) (s s' : St) (o : Outcome Arena) : Prop where
  nobad : ∀ w, o ≠ .bad w
  mem_eq : s'.mem = s.mem
  ok : ∀ a, o = .ok a → ArenaWF E a ∧ a.M = M ∧ a.limit = none ∧
        ((a.chunks = [] ∧ s'.evs = s.evs ∧ cap = 0) ∨
         (∃ c refs, a.chunks = [c] ∧ AllRefused refs ∧ cap ≤ c.footer - c.data ∧ c.ptr = c.footer ∧
            s'.evs = s.evs ++ refs ++ [.malloc c.size c.align (some c.data)]))
  fail : o = .err ∨ o = .panic → ∃ refs, AllRefused refs ∧ s'.evs = s.evs ++ refs
  fallible : f = true → o ≠ .panic
  infallible : f = false → o ≠ .err

theorem newPost_fail {E M cap f} (s s' : St) (refs : List Ev) (hr : AllRefused refs) (he : s'.evs = s.evs ++ refs)
    (hm : s'.mem = s.mem) : NewPost E M cap f s s' (if f = true then Outcome.err else Outcome.panic) := by
  cases f
  · exact ⟨(by intro w; simp), hm, (by intro a ha; simp at ha), (fun _ => ⟨refs, hr, he⟩), (by simp), (by simp)⟩
  · exact ⟨(by intro w; simp), hm, (by intro a ha; simp at ha), (fun _ => ⟨refs, hr, he⟩), (by simp), (by simp)⟩

/-- the constructors: a created arena is well-formed and holds at most one chunk, big enough
for the requested capacity; fallible constructors never panic for a supported `MIN_ALIGN` -/
theorem newArena_spec {E M cap} (f : Bool) (s : St) (hM : IsPow2 M) (hMle : M ≤ 16) :
    NewPost E M cap f s (newArena E M cap f s).1 (newArena E M cap f s).2 := by
  have hU : USIZE = 2 ^ 64 := rfl
  unfold newArena
  have hp : (!isPow2 M || decide (M > CHUNK_ALIGN)) = false := by
    have h1 : isPow2 M = true := isPow2_iff.mpr hM
    have h2 : decide (M > CHUNK_ALIGN) = false := by rw [CA]; simp; omega
    rw [h1, h2]; rfl
  simp only [hp, Bool.false_eq_true, ↓reduceIte]
  by_cases hc0 : cap = 0
  · simp only [hc0, ↓reduceIte]
    refine ⟨(by intro w; simp), rfl, ?_, (by intro hh; rcases hh with hh | hh <;> cases hh), (by simp), (by simp)⟩
    intro a ha
    cases ha
    exact ⟨emptyArena_wf E M none hM hMle, rfl, rfl, Or.inl ⟨rfl, rfl, rfl⟩⟩
  · simp only [hc0, ↓reduceIte]
    by_cases hv : validLayout cap M = true
    · simp only [hv, Bool.not_true, Bool.false_eq_true, ↓reduceIte]
      have hlay : cap + M ≤ 2 ^ 63 := by
        simp only [validLayout, Bool.and_eq_true, decide_eq_true_eq] at hv; exact hv.2
      rcases details_spec (M := M) (sz := cap) (al := M) none hM hMle hM hlay (by simp [DF]) _ rfl with he | ⟨d, hde, hd⟩
      · rw [he]
        simp only
        exact newPost_fail s s [] AllRefused.nil (by simp) rfl
      · rw [hde]
        simp only
        simp only [Option.getD_none] at hd
        have hpos : 0 < d.nswf := by have := hd.ge_req; have := DF; omega
        obtain ⟨rs, hrs, hle⟩ := hd.fits
        have hrs1 := (roundUpTo_some (by rw [hd.align_eq]; exact (chunkAlign_pow2 hM hM).pos) hrs).1
        have hreq : cap ≤ d.size := by have := hd.size_eq; omega
        have sp := newChunk_spec (E := E) (held := []) (reqSz := cap) (prevAb := 0) s hM hMle hd hpos hreq (by simp)
        cases hnc : newChunk E [] M d cap 0 s with
        | mk s1 o1 =>
          rw [hnc] at sp
          simp only at sp
          obtain ⟨sa, sm, sc⟩ := sp
          rcases sc with ⟨ho, refs, hev, hrf⟩ | ho | ⟨c, ho, hfc, hev⟩
          · subst ho
            simp only [bindO]
            exact newPost_fail s s1 refs hrf hev sm
          · subst ho
            simp only [bindO]
            exact ⟨(by intro w; simp), sm, (by intro a ha; simp at ha), (by intro hh; rcases hh with hh | hh <;> cases hh), (by simp), (by simp)⟩
          · subst ho
            simp only [bindO]
            refine ⟨(by intro w; simp), sm, ?_, (by intro hh; rcases hh with hh | hh <;> cases hh), (by simp), (by simp)⟩
            intro a ha
            cases ha
            have hfc' : FreshChunk E (⟨M, [], none⟩ : Arena).chunks (⟨M, [], none⟩ : Arena).M d
                ((⟨M, [], none⟩ : Arena).allocatedBytes E) c := by
              simpa [Arena.allocatedBytes, Arena.cur, emptyChunk] using hfc
            have hwf := consChunk_wf (emptyArena_wf E M none hM hMle) hfc'
            refine ⟨hwf, rfl, rfl, Or.inr ⟨c, [], rfl, AllRefused.nil, ?_, hfc.ptr_eq, (by simpa using hev)⟩⟩
            rw [hfc.nswf_eq]; omega
    · simp only [hv, Bool.not_false, ↓reduceIte]
      exact newPost_fail s s [] AllRefused.nil (by simp) rfl

end Bump

namespace Bump
open Gen

/-- `reset`: keeps the newest chunk, empties it, frees the others in list order -/
theorem reset_spec {E} (s : St) (h : ArenaWF E s.a) :
    (∀ w, (reset s).2 ≠ .bad w) ∧ (reset s).2 = .ok () ∧ ArenaWF E (reset s).1.a ∧
    (reset s).1.mem = s.mem ∧ (reset s).1.a.M = s.a.M ∧ (reset s).1.a.limit = s.a.limit ∧
    ((s.a.chunks = [] ∧ (reset s).1 = s) ∨
     (∃ c rest, s.a.chunks = c :: rest ∧
        (reset s).1.a.chunks = [{ c with ptr := c.footer, ab := c.size - FOOTER_SIZE }] ∧
        (reset s).1.evs = s.evs ++ rest.map freeEv)) := by
  unfold reset
  cases hc : s.a.chunks with
  | nil =>
    simp only
    exact ⟨(by intro w; simp), (by triv), h, (by triv), (by triv), (by triv), Or.inl ⟨(by triv), (by triv)⟩⟩
  | cons c rest =>
    simp only
    have hw := h.chunks c (by rw [hc]; exact List.mem_cons_self)
    have hf16 := footer_al hw
    have hfM : s.a.M ∣ c.footer := Nat.dvd_trans h.m_dvd16 hf16
    rw [if_neg (by intro hh; exact hh (Nat.mod_eq_zero_of_dvd hfM)), if_neg (by have := hw.size_ge; omega)]
    refine ⟨(by intro w; simp), (by triv), ?_, (by triv), (by triv), (by triv), Or.inr ⟨c, rest, (by triv), (by triv), (by triv)⟩⟩
    refine ⟨h.mpow, h.mle, ?_, ?_, ?_, ?_, ?_⟩
    · intro x hx
      simp only [List.mem_singleton] at hx
      subst hx
      exact ⟨hw.size_ge, hw.data_pos, hw.data_al, hw.usable_al, (by show c.data ≤ c.footer; have := hw.ptr_ge; have := hw.ptr_le; omega),
        Nat.le_refl _, hfM, hw.hi⟩
    · simp [Arena.cur, sumUsable, usable]
    · simp
    · intro x hx
      simp only [List.mem_singleton] at hx
      subst hx
      exact h.sdisj c (by rw [hc]; exact List.mem_cons_self)
    · have := h.total; rw [hc] at this
      simp only [sumSize, List.map_cons, List.sum_cons, List.map_nil, List.sum_nil] at this ⊢
      omega

/-- `dealloc` of a block `[p, p+sz)` that lies in the arena: moves the finger up over it when
it is the last allocation, else does nothing -/
theorem dealloc_spec {E p sz} (s : St) (hE : EnvOK E) (h : ArenaWF E s.a)
    (hblk : (s.a.cur E).ptr = p → p + sz ≤ (s.a.cur E).footer) :
    (dealloc E p sz s).2 = .ok () ∧ ArenaWF E (dealloc E p sz s).1.a ∧
    (dealloc E p sz s).1.mem = s.mem ∧ (dealloc E p sz s).1.evs = s.evs ∧
    (dealloc E p sz s).1.a.M = s.a.M ∧ (dealloc E p sz s).1.a.limit = s.a.limit ∧
    ((dealloc E p sz s).1 = s ∨
     (∃ c cs r, s.a.chunks = c :: cs ∧ c.ptr = p ∧ roundUpTo (p + sz) s.a.M = some r ∧ r ≤ c.footer ∧
        (dealloc E p sz s).1.a.chunks = { c with ptr := r } :: cs)) := by
  have hU : USIZE = 2 ^ 64 := rfl
  obtain ⟨c1, c2, c3, c4, c5, c6, c7⟩ := cur_ok hE h
  unfold dealloc
  by_cases hl : isLast E s.a p = true
  · simp only [hl, ↓reduceIte]
    have hp : (s.a.cur E).ptr = p := by simpa [isLast] using hl
    have hb := hblk hp
    have hMpos := h.m_pos
    have hMle := h.mle
    have hfle : (s.a.cur E).footer < 2 ^ 63 := by
      unfold Chunk.footer; have := FS; omega
    rw [if_neg (by omega)]
    obtain ⟨r, hr⟩ := roundUpTo_isSome (n := p + sz) (d := s.a.M) (by omega)
    obtain ⟨r1, r2, r3, r4⟩ := roundUpTo_some hMpos hr
    rw [hr]
    simp only
    rw [if_neg (by intro hh; exact hh (Nat.mod_eq_zero_of_dvd r3))]
    cases hc : s.a.chunks with
    | nil =>
      have hcur : s.a.cur E = emptyChunk E := by simp [Arena.cur, hc]
      rw [hcur] at hp hb
      simp only [emptyChunk, Chunk.footer] at hp hb
      have hsz : sz = 0 := by omega
      subst hsz; subst hp
      have hEM : s.a.M ∣ E := Nat.dvd_trans h.m_dvd16 hE.al
      have hrE : r = E := by
        have := roundUpTo_le hMpos hr hEM (by omega); omega
      subst hrE
      simp only [storePtr, setCurPtr, hc, ↓reduceIte]
      exact ⟨(by triv), h, (by triv), (by triv), (by triv), (by triv), Or.inl (by triv)⟩
    | cons c cs =>
      have hcur : s.a.cur E = c := by simp [Arena.cur, hc]
      rw [hcur] at hp hb c1 c2
      have hw := h.chunks c (by rw [hc]; exact List.mem_cons_self)
      have hf16 := footer_al hw
      have hfM : s.a.M ∣ c.footer := Nat.dvd_trans h.m_dvd16 hf16
      have hrle : r ≤ c.footer := roundUpTo_le hMpos hr hfM hb
      simp only [storePtr, setCurPtr, hc]
      exact ⟨(by triv), setPtr_wf h hc (by omega) hrle r3, (by triv), (by triv), (by triv), (by triv),
        Or.inr ⟨c, cs, r, (by triv), hp, (by triv), hrle, (by triv)⟩⟩
  · simp only [hl, Bool.false_eq_true, ↓reduceIte]
    exact ⟨(by triv), h, (by triv), (by triv), (by triv), (by triv), Or.inl (by triv)⟩

end Bump
