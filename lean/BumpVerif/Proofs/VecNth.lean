import BumpVerif.Proofs.VecDrain
/-!
# `into_iter().nth(n)` followed by the drop of the `IntoIter` (`Bump.V.intoIterNthOp`)

`IntoIter` does not override `nth`: `n` items are taken and dropped at once, one more goes to
the caller, the drop of the iterator drops the rest.  A destructor that panics while the skipped
items are dropped unwinds through `IntoIter::drop`, which drops what is left.
-/
namespace Bump.V
open Bump

theorem take_drop_glue (xs : List Elem) (k k1 : Nat) (hk1 : k1 ≤ k) :
    (xs.take k).drop k1 ++ (xs.drop k).take (xs.length - k) = xs.drop k1 := by
  have h1 : (xs.drop k).take (xs.length - k) = (xs.drop k1).drop (k - k1) := by
    rw [List.take_of_length_le (by simp), List.drop_drop]; congr 1; omega
  rw [h1, List.drop_take, List.take_append_drop]

/-- the panic trigger of destructors is one-shot: once the call counter is past it, no destructor panics -/
theorem dropEach_past (c : Cfg) (p : Nat) (hp : c.dropPanicAt = some p) :
    ∀ (es : List Elem) (w : W), p < w.dropCalls → (dropEach c es w).2 = none := by
  intro es
  induction es with
  | nil => intro w _; rfl
  | cons e es ih =>
    intro w hw
    unfold dropEach dropElem
    by_cases hd : c.needsDrop = true
    · have hne : (c.dropPanicAt == some w.dropCalls) = false := by
        rw [hp]; simp; omega
      simp only [hd, ↓reduceIte, hne, Bool.false_eq_true]
      exact ih _ (by simp; omega)
    · simp only [hd, ↓reduceIte, Bool.false_eq_true]
      exact ih _ hw

/-- a `for_each(drop)` that stopped at a panicking destructor has used up the trigger -/
theorem dropEach_panicked (c : Cfg) : ∀ (es : List Elem) (w : W) (left : List Elem), (dropEach c es w).2 = some left →
    ∃ p, c.dropPanicAt = some p ∧ p < (dropEach c es w).1.dropCalls := by
  intro es
  induction es with
  | nil => intro w left h; simp [dropEach] at h
  | cons e es ih =>
    intro w left
    unfold dropEach dropElem
    by_cases hd : c.needsDrop = true
    · by_cases hne : (c.dropPanicAt == some w.dropCalls) = true
      · simp only [hd, ↓reduceIte, hne]
        intro _
        exact ⟨w.dropCalls, by simpa using hne, by simp⟩
      · simp only [hd, ↓reduceIte, hne, Bool.false_eq_true]
        exact ih _ left
    · simp only [hd, ↓reduceIte, Bool.false_eq_true]
      exact ih _ left

/-- the three ways a run of `into_iter().nth(n)` + drop can go:
* a destructor of one of the skipped items panicked (`k1` of them were dropped, the panicking one
  included); the unwinding drops all that is left (the trigger is one-shot);
* `n` is in range: the `n` skipped items are dropped, `xs[n]` goes to the caller, a prefix (`k3`)
  of the rest is dropped — all of it unless a destructor panics;
* `n` is out of range: everything is dropped, the caller gets nothing. -/
theorem intoIterNthOp_spec {c : Cfg} {v : VS} {xs : List Elem} (h : RepB c v xs) (n : Nat) (w : W) :
    ∃ (w' : W) (r : Option (List Elem)), intoIterNthOp c v n w = (w', r) ∧ w'.bad = w.bad ∧ w'.nextId = w.nextId ∧
      ((∃ k1, k1 ≤ min n xs.length ∧ r = none ∧ c.dropPanicAt ≠ none ∧
          w'.evs = w.evs ++ dropEvs c (xs.take k1) ++ dropEvs c (xs.drop k1)) ∨
       (∃ (hn : n < xs.length) (k3 : Nat),
          w'.evs = w.evs ++ dropEvs c (xs.take n) ++ movedEvs [xs[n]] ++ dropEvs c ((xs.drop (n + 1)).take k3) ∧
          (r = none ∨ r = some [xs[n]]) ∧ (r = none → c.dropPanicAt ≠ none) ∧
          (r ≠ none → (xs.drop (n + 1)).take k3 = xs.drop (n + 1))) ∨
       (xs.length ≤ n ∧ r = some [] ∧ w'.evs = w.evs ++ dropEvs c xs)) := by
  rcases v with ⟨sl, l, cp⟩
  obtain ⟨rest, rfl, rfl⟩ := h.toRep.nf
  unfold intoIterNthOp
  have hrr0 := readRange_rep xs rest xs.length cp 0 (min n xs.length) w (Nat.min_le_right _ _) (Nat.zero_le _)
  simp only [List.drop_zero, Nat.sub_zero] at hrr0
  simp only [hrr0]
  obtain ⟨k1, w1, r1, hde1, hk1, hev1, hb1, hn1, hr1a, hr1b, hr1c⟩ := dropEach_spec c (xs.take (min n xs.length)) w
  have hk1' : k1 ≤ min n xs.length := by
    have : (xs.take (min n xs.length)).length = min n xs.length := by simp
    omega
  simp only [hde1]
  cases r1 with
  | some left =>
    have hleft := hr1b left rfl
    have hrr1 := readRange_rep xs rest xs.length cp (min n xs.length) xs.length w1 (Nat.le_refl _) (Nat.min_le_right _ _)
    simp only [hrr1]
    rw [hleft, take_drop_glue xs _ k1 hk1']
    obtain ⟨k2, w2, r2, hde2, _, hev2, hb2, hn2, hr2a, _⟩ := dropEach_spec c (xs.drop k1) w1
    obtain ⟨p, hp, hpast⟩ := dropEach_panicked c (xs.take (min n xs.length)) w left (by rw [hde1])
    rw [hde1] at hpast
    have hr2 : r2 = none := by
      have := dropEach_past c p hp (xs.drop k1) w1 hpast
      rw [hde2] at this; exact this
    simp only [hde2]
    refine ⟨w2, none, rfl, by rw [hb2, hb1], by rw [hn2, hn1], Or.inl ⟨k1, hk1', rfl, ?_, ?_⟩⟩
    · intro hnp; have := hr1c hnp; cases this
    · rw [hev2, hev1, List.take_take, Nat.min_eq_left hk1', hr2a hr2, List.take_length]
  | none =>
    have hkk := hr1a rfl
    rw [hkk, List.take_length] at hev1
    dsimp only
    by_cases hn : n < xs.length
    · have hmin : min n xs.length = n := by omega
      rw [hmin] at hev1
      have hr := read_map_some xs rest n hn xs.length cp
      rw [if_pos hn]
      simp only [hr]
      have hrr2 := readRange_rep xs rest xs.length cp (n + 1) xs.length (w1.moved xs[n]) (Nat.le_refl _) (by omega)
      rw [List.take_of_length_le (by simp)] at hrr2
      simp only [hrr2]
      obtain ⟨k3, w3, r3, hde3, _, hev3, hb3, hn3, hr3a, _, hr3c⟩ := dropEach_spec c (xs.drop (n + 1)) (w1.moved xs[n])
      simp only [hde3]
      have hev : w3.evs = w.evs ++ dropEvs c (xs.take n) ++ movedEvs [xs[n]] ++ dropEvs c ((xs.drop (n + 1)).take k3) := by
        rw [hev3, (W.moved_evs w1 xs[n]).1, hev1]
      have hb : w3.bad = w.bad := by rw [hb3, (W.moved_evs w1 xs[n]).2.1, hb1]
      have hnx : w3.nextId = w.nextId := by rw [hn3, (W.moved_evs w1 xs[n]).2.2, hn1]
      cases r3 with
      | some l3 =>
        refine ⟨w3, none, rfl, hb, hnx, Or.inr (Or.inl ⟨hn, k3, hev, Or.inl rfl, ?_, fun hne => absurd rfl hne⟩)⟩
        intro _ hnp; have := hr3c hnp; cases this
      | none =>
        refine ⟨w3, some [xs[n]], rfl, hb, hnx, Or.inr (Or.inl ⟨hn, k3, hev, Or.inr rfl, (fun hx => by cases hx), fun _ => ?_⟩)⟩
        rw [hr3a rfl, List.take_length]
    · have hmin : min n xs.length = xs.length := by omega
      rw [hmin, List.take_length] at hev1
      rw [if_neg hn]
      exact ⟨w1, some [], rfl, hb1, hn1, Or.inr (Or.inr ⟨by omega, rfl, hev1⟩)⟩

/-- `into_iter().nth(n)` consumes the vector: for every `n` and every destructor-panic
configuration each element is dropped or handed to the caller at most once (the ledger is
preserved), and nothing leaks when no destructor panics -/
theorem intoIterNthOp_own {c : Cfg} {v : VS} {xs : List Elem} {ins held : List Nat} (hd : c.needsDrop = true)
    (h : RepB c v xs) (n : Nat) (w : W) (ho : Own ins xs w.evs held) :
    ∃ lk, Own ins [] (intoIterNthOp c v n w).1.evs (lk ++ held) ∧ (c.dropPanicAt = none → lk = []) := by
  obtain ⟨w', r, hrun, _, _, hcase⟩ := intoIterNthOp_spec h n w
  rw [hrun]
  rcases hcase with ⟨k1, _, _, hp, hev⟩ | ⟨hn, k3, hev, hr, hrp, hfull⟩ | ⟨_, _, hev⟩
  · refine ⟨[], ?_, fun _ => rfl⟩
    apply ho.of_count
    intro x
    have h1 := count_take_drop xs k1 x
    simp only [hev, evDrops_append, evMoved_append, evDrops_dropEvs c hd, evMoved_dropEvs, ids_nil, List.count_append,
      List.count_nil, List.nil_append, List.append_nil] at h1 ⊢
    omega
  · refine ⟨ids ((xs.drop (n + 1)).drop k3), ?_, ?_⟩
    · apply ho.of_count
      intro x
      have h1 := count_take_drop_succ xs n hn x
      have h2 := count_take_drop (xs.drop (n + 1)) k3 x
      simp only [hev, evDrops_append, evMoved_append, (evDrops_movedEvs _).1, (evDrops_movedEvs _).2,
        evDrops_dropEvs c hd, evMoved_dropEvs, ids_nil, ids_cons, List.count_append, List.count_cons,
        List.count_nil, List.append_nil] at h1 h2 ⊢
      omega
    · intro hnp
      have hne : r ≠ none := fun hx => hrp hx hnp
      have hf := hfull hne
      have hl := congrArg List.length hf
      have : (xs.drop (n + 1)).drop k3 = [] := by
        apply List.drop_eq_nil_of_le
        simp only [List.length_take, List.length_drop] at hl ⊢
        omega
      rw [this]; rfl
  · refine ⟨[], ?_, fun _ => rfl⟩
    apply ho.of_count
    intro x
    simp only [hev, evDrops_append, evMoved_append, evDrops_dropEvs c hd, evMoved_dropEvs, ids_nil, List.count_append,
      List.count_nil, List.nil_append, List.append_nil]
    omega

/-- where a leak can come from: only a destructor that panics *after* `xs[n]` was handed out (in the
final drop of the iterator) leaks, and what it leaks is a suffix of `xs.drop (n + 1)`; a panic among the
skipped items leaks nothing, because the unwinding drops everything that is left -/
theorem intoIterNthOp_own_leak {c : Cfg} {v : VS} {xs : List Elem} {ins held : List Nat} (hd : c.needsDrop = true)
    (h : RepB c v xs) (n : Nat) (w : W) (ho : Own ins xs w.evs held) :
    ∃ lk, Own ins [] (intoIterNthOp c v n w).1.evs (lk ++ held) ∧
      (lk ≠ [] → n < xs.length ∧ c.dropPanicAt ≠ none ∧ (intoIterNthOp c v n w).2 = none ∧
        ∃ k, lk = ids ((xs.drop (n + 1)).drop k)) := by
  obtain ⟨w', r, hrun, _, _, hcase⟩ := intoIterNthOp_spec h n w
  rw [hrun]
  rcases hcase with ⟨k1, _, _, hp, hev⟩ | ⟨hn, k3, hev, hr, hrp, hfull⟩ | ⟨_, _, hev⟩
  · refine ⟨[], ?_, fun hx => absurd rfl hx⟩
    apply ho.of_count
    intro x
    have h1 := count_take_drop xs k1 x
    simp only [hev, evDrops_append, evMoved_append, evDrops_dropEvs c hd, evMoved_dropEvs, ids_nil, List.count_append,
      List.count_nil, List.nil_append, List.append_nil] at h1 ⊢
    omega
  · refine ⟨ids ((xs.drop (n + 1)).drop k3), ?_, ?_⟩
    · apply ho.of_count
      intro x
      have h1 := count_take_drop_succ xs n hn x
      have h2 := count_take_drop (xs.drop (n + 1)) k3 x
      simp only [hev, evDrops_append, evMoved_append, (evDrops_movedEvs _).1, (evDrops_movedEvs _).2,
        evDrops_dropEvs c hd, evMoved_dropEvs, ids_nil, ids_cons, List.count_append, List.count_cons,
        List.count_nil, List.append_nil] at h1 h2 ⊢
      omega
    · intro hlk
      have hrn : r = none := by
        cases r with
        | none => rfl
        | some m =>
          exfalso
          apply hlk
          have hl := congrArg List.length (hfull (by simp))
          have : (xs.drop (n + 1)).drop k3 = [] := by
            apply List.drop_eq_nil_of_le
            simp only [List.length_take, List.length_drop] at hl ⊢
            omega
          rw [this]; rfl
      exact ⟨hn, hrp hrn, hrn, k3, rfl⟩
  · refine ⟨[], ?_, fun hx => absurd rfl hx⟩
    apply ho.of_count
    intro x
    simp only [hev, evDrops_append, evMoved_append, evDrops_dropEvs c hd, evMoved_dropEvs, ids_nil, List.count_append,
      List.count_nil, List.nil_append, List.append_nil]
    omega

/-- refinement to `List`: without destructor panics `nth n` yields exactly the `n`-th element
(nothing when `n` is out of range), and the run flags no undefined behaviour -/
theorem intoIterNthOp_result {c : Cfg} {v : VS} {xs : List Elem} (h : RepB c v xs) (n : Nat) (w : W)
    (hnp : c.dropPanicAt = none) :
    (intoIterNthOp c v n w).2 = some (if h' : n < xs.length then [xs[n]] else []) ∧
      (intoIterNthOp c v n w).1.bad = w.bad := by
  obtain ⟨w', r, hrun, hb, _, hcase⟩ := intoIterNthOp_spec h n w
  rw [hrun]
  refine ⟨?_, hb⟩
  rcases hcase with ⟨_, _, _, hp, _⟩ | ⟨hn, _, _, hr, hrp, _⟩ | ⟨hle, hr, _⟩
  · exact absurd hnp hp
  · rcases hr with hr | hr
    · exact absurd hnp (hrp hr)
    · simp [hr, hn]
  · have : ¬ n < xs.length := by omega
    simp [hr, this]

/-- the UB flag list is untouched for every `n`, also with panicking destructors -/
theorem intoIterNthOp_noUB {c : Cfg} {v : VS} {xs : List Elem} (h : RepB c v xs) (n : Nat) (w : W) :
    (intoIterNthOp c v n w).1.bad = w.bad := by
  obtain ⟨w', r, hrun, hb, _⟩ := intoIterNthOp_spec h n w
  rw [hrun]; exact hb

/-- whatever the destructors do, the caller never receives anything but `xs[n]` -/
theorem intoIterNthOp_result_any {c : Cfg} {v : VS} {xs : List Elem} (h : RepB c v xs) (n : Nat) (w : W) :
    (intoIterNthOp c v n w).2 = none ∨
      (intoIterNthOp c v n w).2 = some (if h' : n < xs.length then [xs[n]] else []) := by
  obtain ⟨w', r, hrun, _, _, hcase⟩ := intoIterNthOp_spec h n w
  rw [hrun]
  rcases hcase with ⟨_, _, hr, _, _⟩ | ⟨hn, _, _, hr, _, _⟩ | ⟨hle, hr, _⟩
  · exact Or.inl hr
  · rcases hr with hr | hr
    · exact Or.inl hr
    · right; simp [hr, hn]
  · have : ¬ n < xs.length := by omega
    right; simp [hr, this]

end Bump.V

#print axioms Bump.V.dropEach_past
#print axioms Bump.V.dropEach_panicked
#print axioms Bump.V.intoIterNthOp_spec
#print axioms Bump.V.intoIterNthOp_own
#print axioms Bump.V.intoIterNthOp_own_leak
#print axioms Bump.V.intoIterNthOp_result
#print axioms Bump.V.intoIterNthOp_noUB
#print axioms Bump.V.intoIterNthOp_result_any
