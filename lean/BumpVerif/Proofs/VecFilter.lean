import BumpVerif.Proofs.VecOwn
/-!
# `drain_filter` / `retain` (vec.rs:1302-1345, 2690-2794)

`keptN cb xs n` / `outN cb xs n`: the elements among the first `n` that the callback answered
`false` / `true` for (the `j`-th call is shown `xs[j]`).  The loop invariant says that the
buffer is `kept ++ holes ++ unprocessed ++ rest` with `|holes| = del`.
-/
namespace Bump.V
open Bump

def keptN (cb : Nat → Elem → Option Bool) (xs : List Elem) : Nat → List Elem
  | 0 => []
  | n + 1 =>
    match xs[n]? with
    | some e => if cb n e = some false then keptN cb xs n ++ [e] else keptN cb xs n
    | none => keptN cb xs n

def outN (cb : Nat → Elem → Option Bool) (xs : List Elem) : Nat → List Elem
  | 0 => []
  | n + 1 =>
    match xs[n]? with
    | some e => if cb n e = some true then outN cb xs n ++ [e] else outN cb xs n
    | none => outN cb xs n

/-- for a pure predicate the two lists are the two filters -/
theorem keptN_pure (f : Elem → Bool) (xs : List Elem) (n : Nat) (hn : n ≤ xs.length) :
    keptN (fun _ e => some (f e)) xs n = (xs.take n).filter (fun e => !f e) ∧
    outN (fun _ e => some (f e)) xs n = (xs.take n).filter f := by
  induction n with
  | zero => simp [keptN, outN]
  | succ n ih =>
    have hlt : n < xs.length := by omega
    obtain ⟨ih1, ih2⟩ := ih (by omega)
    simp only [keptN, outN, List.getElem?_eq_getElem hlt, List.take_succ_eq_append_getElem hlt, List.filter_append, ih1, ih2]
    cases hf : f xs[n] <;> simp [hf]

theorem kept_out_count (cb : Nat → Elem → Option Bool) (xs : List Elem) (n : Nat) (hn : n ≤ xs.length)
    (hall : ∀ j (h : j < n), (cb j (xs[j]'(by omega))).isSome) (a : Nat) :
    (ids (keptN cb xs n)).count a + (ids (outN cb xs n)).count a = (ids (xs.take n)).count a ∧
    (keptN cb xs n).length + (outN cb xs n).length = n := by
  induction n with
  | zero => simp [keptN, outN]
  | succ n ih =>
    have hlt : n < xs.length := by omega
    obtain ⟨ih1, ih2⟩ := ih (by omega) (fun j h => hall j (by omega))
    have hs := hall n (by omega)
    have hc : (ids (xs.take (n + 1))).count a = (ids (xs.take n)).count a + (ids [xs[n]]).count a := by
      rw [List.take_succ_eq_append_getElem hlt, ids_append, List.count_append]
    simp only [keptN, outN, List.getElem?_eq_getElem hlt]
    cases hcb : cb n xs[n] with
    | none => simp [hcb] at hs
    | some b =>
      cases b <;> simp [ids_append, List.count_append, hc] <;> omega

/-- invariant of the `DrainFilter` between two predicate calls -/
structure DFInv (cb : Nat → Elem → Option Bool) (xs : List Elem) (rest : List (Option Elem)) (v : VS) (s : DF) : Prop where
  oldLen : s.oldLen = xs.length
  idxLe : s.idx ≤ xs.length
  calls : s.calls = s.idx
  flag : s.panicFlag = false
  answered : ∀ j (h : j < s.idx), (cb j (xs[j]'(by omega))).isSome
  del : s.del = (outN cb xs s.idx).length
  slots : ∃ holes, holes.length = s.del ∧
    v.slots = (keptN cb xs s.idx).map some ++ (holes ++ ((xs.drop s.idx).map some ++ rest))

theorem DFInv.keptLen {cb xs rest v s} (h : DFInv cb xs rest v s) : (keptN cb xs s.idx).length + s.del = s.idx := by
  have := (kept_out_count cb xs s.idx h.idxLe h.answered 0).2
  rw [h.del]; exact this

theorem write_at (c : Cfg) (A T : List (Option Elem)) (h : Option Elem) (l cp : Nat) (e : Elem) (w : W) :
    (VS.mk (A ++ h :: T) l cp).write c A.length e w = (VS.mk (A ++ some e :: T) l cp, w) := by
  have hle : A.length + 1 ≤ (A ++ h :: T).length := by simp
  simp only [VS.write, need_ok c (VS.mk (A ++ h :: T) l cp) (A.length + 1) w _ hle]
  simp

theorem DFInv.read {cb xs rest v s} (h : DFInv cb xs rest v s) (hlt : s.idx < xs.length) :
    v.read s.idx = some xs[s.idx] := by
  obtain ⟨holes, hh, hs⟩ := h.slots
  have hk := h.keptLen
  have hd : xs.drop s.idx = xs[s.idx] :: xs.drop (s.idx + 1) := (List.getElem_cons_drop hlt).symm
  have hpre : ((keptN cb xs s.idx).map some ++ holes).length = s.idx := by simp; omega
  rw [VS.read, hs, ← List.append_assoc, List.getElem?_append_right (by omega), hpre, hd]
  simp only [Nat.sub_self, List.map_cons, List.cons_append, List.getElem?_cons_zero, Option.join_some]

theorem keptN_succ_false {cb : Nat → Elem → Option Bool} {xs : List Elem} {n : Nat} (hlt : n < xs.length) (h : cb n xs[n] = some false) :
    keptN cb xs (n + 1) = keptN cb xs n ++ [xs[n]] ∧ outN cb xs (n + 1) = outN cb xs n := by
  simp [keptN, outN, List.getElem?_eq_getElem hlt, h]

theorem keptN_succ_true {cb : Nat → Elem → Option Bool} {xs : List Elem} {n : Nat} (hlt : n < xs.length) (h : cb n xs[n] = some true) :
    keptN cb xs (n + 1) = keptN cb xs n ∧ outN cb xs (n + 1) = outN cb xs n ++ [xs[n]] := by
  simp [keptN, outN, List.getElem?_eq_getElem hlt, h]

/-- result of one `DrainFilter::next` -/
inductive DFStep (cb : Nat → Elem → Option Bool) (xs : List Elem) (rest : List (Option Elem)) (s : DF) :
    VS → DF → Option (Option Elem) → Prop where
  | done (v' s') : DFInv cb xs rest v' s' → s'.idx = xs.length → outN cb xs s'.idx = outN cb xs s.idx → DFStep cb xs rest s v' s' (some none)
  | yield (v' s') (e : Elem) : DFInv cb xs rest v' s' → outN cb xs s'.idx = outN cb xs s.idx ++ [e] →
      DFStep cb xs rest s v' s' (some (some e))
  | panicked (v' s0) : DFInv cb xs rest v' s0 → (hlt : s0.idx < xs.length) → cb s0.idx xs[s0.idx] = none →
      outN cb xs s0.idx = outN cb xs s.idx →
      DFStep cb xs rest s v' { s0 with calls := s0.calls + 1, panicFlag := true } none

theorem DFStep.rebase {cb xs rest s s1 v' s' r} (h : DFStep cb xs rest s1 v' s' r)
    (ho : outN cb xs s1.idx = outN cb xs s.idx) : DFStep cb xs rest s v' s' r :=
  match h with
  | .done _ _ hi hx hout => .done _ _ hi hx (by rw [hout, ho])
  | .yield _ _ e hi hout => .yield _ _ e hi (by rw [hout, ho])
  | .panicked _ s0 hi hlt hcb hout => .panicked _ s0 hi hlt hcb (by rw [hout, ho])

theorem dfNext_spec (c : Cfg) (cb : Nat → Elem → Option Bool) (xs : List Elem) (rest : List (Option Elem)) :
    ∀ (fuel : Nat) (v : VS) (s : DF) (w : W), DFInv cb xs rest v s → xs.length - s.idx < fuel →
      ∃ v' s' r, dfNext c cb fuel v s w = (v', s', w, r) ∧ v'.len = v.len ∧ v'.cap = v.cap ∧ s.idx ≤ s'.idx ∧
        DFStep cb xs rest s v' s' r := by
  intro fuel
  induction fuel with
  | zero => intro v s w _ hf; omega
  | succ f ih =>
    intro v s w hinv hf
    by_cases hdone : s.idx = s.oldLen
    · refine ⟨v, s, some none, by simp [dfNext, hdone], rfl, rfl, Nat.le_refl _, ?_⟩
      exact .done v s hinv (by rw [hdone, hinv.oldLen]) rfl
    · have hlt : s.idx < xs.length := by have := hinv.oldLen; have := hinv.idxLe; omega
      have hread := hinv.read hlt
      obtain ⟨holes, hh, hs⟩ := hinv.slots
      have hk := hinv.keptLen
      have hd : xs.drop s.idx = xs[s.idx] :: xs.drop (s.idx + 1) := (List.getElem_cons_drop hlt).symm
      have hdm : (xs.map some).drop s.idx = some xs[s.idx] :: (xs.map some).drop (s.idx + 1) := by
        rw [← List.map_drop, hd, List.map_cons, List.map_drop]
      have hcalls := hinv.calls
      have hcbc : cb s.calls xs[s.idx] = cb s.idx xs[s.idx] := by rw [hcalls]
      have answered' : ∀ b, cb s.idx xs[s.idx] = some b → ∀ j (h : j < s.idx + 1), (cb j (xs[j]'(by omega))).isSome := by
        intro b hb j hj
        by_cases hjj : j = s.idx
        · subst hjj; simp [hb]
        · exact hinv.answered j (by omega)
      cases hcb : cb s.idx xs[s.idx] with
      | none =>
        refine ⟨v, { s with calls := s.calls + 1, panicFlag := true }, none, ?_, rfl, rfl, Nat.le_refl _, ?_⟩
        · simp [dfNext, hdone, hread, hcbc, hcb]
        · exact .panicked v s hinv hlt hcb rfl
      | some b =>
        cases b with
        | true =>
          obtain ⟨hk1, ho1⟩ := keptN_succ_true hlt hcb
          let s' : DF := { s with idx := s.idx + 1, del := s.del + 1, calls := s.calls + 1 }
          have hinv' : DFInv cb xs rest v s' := by
            refine ⟨hinv.oldLen, by simp [s']; omega, by simp [s', hcalls], hinv.flag, answered' true hcb, by simp [s', ho1, hinv.del], ?_⟩
            refine ⟨holes ++ [some xs[s.idx]], by simp [s', hh], ?_⟩
            simp only [s', hk1, hs]
            simp [hdm]
          refine ⟨v, s', some (some xs[s.idx]), ?_, rfl, rfl, by simp [s'], ?_⟩
          · simp [dfNext, hdone, hread, hcbc, hcb, s']
          · exact .yield v s' _ hinv' (by simp [s', ho1])
        | false =>
          obtain ⟨hk1, ho1⟩ := keptN_succ_false hlt hcb
          let s' : DF := { s with idx := s.idx + 1, calls := s.calls + 1 }
          rcases v with ⟨sl, vl, vc⟩
          simp only at hs
          subst hs
          by_cases hdel : s.del > 0
          · -- the kept element moves down over the first hole
            cases holes with
            | nil => simp at hh; omega
            | cons h0 H =>
              have hidx : s.idx - s.del = ((keptN cb xs s.idx).map some).length := by simp; omega
              have hw := write_at c ((keptN cb xs s.idx).map some) (H ++ ((xs.drop s.idx).map some ++ rest)) h0 vl vc xs[s.idx] w
              let v1 : VS := ⟨(keptN cb xs s.idx).map some ++ some xs[s.idx] :: (H ++ ((xs.drop s.idx).map some ++ rest)), vl, vc⟩
              have hinv' : DFInv cb xs rest v1 s' := by
                refine ⟨hinv.oldLen, by simp [s']; omega, by simp [s', hcalls], hinv.flag, answered' false hcb, by simp [s', ho1, hinv.del], ?_⟩
                refine ⟨H ++ [some xs[s.idx]], by simp [s'] at hh ⊢; omega, ?_⟩
                simp only [s', v1, hk1]
                simp [hdm]
              obtain ⟨v', s'', r, hrun, hl, hc, hle, hstep⟩ := ih v1 s' w hinv' (by simp [s']; omega)
              refine ⟨v', s'', r, ?_, by rw [hl], by rw [hc], by simp [s'] at hle; omega, hstep.rebase (by simp [s', ho1])⟩
              rw [dfNext, if_neg hdone]
              simp only [hread, hcbc, hcb, hdel, ↓reduceIte]
              rw [hidx]
              simp only [List.cons_append] at hw ⊢
              simp only [hw]
              exact hrun
          · have hd0 : s.del = 0 := by omega
            have hnil : holes = [] := by
              cases holes with
              | nil => rfl
              | cons _ _ => simp at hh; omega
            subst hnil
            let v1 : VS := ⟨(keptN cb xs s.idx).map some ++ ([] ++ ((xs.drop s.idx).map some ++ rest)), vl, vc⟩
            have hinv' : DFInv cb xs rest v1 s' := by
              refine ⟨hinv.oldLen, by simp [s']; omega, by simp [s', hcalls], hinv.flag, answered' false hcb, by simp [s', ho1, hinv.del], ?_⟩
              refine ⟨[], by simp [s', hd0], ?_⟩
              simp only [s', v1, hk1]
              simp [hdm]
            obtain ⟨v', s'', r, hrun, hl, hc, hle, hstep⟩ := ih v1 s' w hinv' (by simp [s']; omega)
            refine ⟨v', s'', r, ?_, by rw [hl], by rw [hc], by simp [s'] at hle; omega, hstep.rebase (by simp [s', ho1])⟩
            rw [dfNext, if_neg hdone]
            simp only [hread, hcbc, hcb, hdel, ↓reduceIte]
            exact hrun

/-- where a run of `next` calls stopped: between two calls (`true`) or inside a panicking
predicate call (`false`); `ys` = what was yielded meanwhile -/
inductive DFEnd (cb : Nat → Elem → Option Bool) (xs : List Elem) (rest : List (Option Elem)) (out0 ys : List Elem) :
    VS → DF → Bool → Prop where
  | ok (v' s') : DFInv cb xs rest v' s' → outN cb xs s'.idx = out0 ++ ys → DFEnd cb xs rest out0 ys v' s' true
  | panicked (v' s0) : DFInv cb xs rest v' s0 → (hlt : s0.idx < xs.length) → cb s0.idx xs[s0.idx] = none →
      outN cb xs s0.idx = out0 ++ ys →
      DFEnd cb xs rest out0 ys v' { s0 with calls := s0.calls + 1, panicFlag := true } false

def movedEvs (es : List Elem) : List Ev := es.map (fun e => Ev.moveOut e.id)

theorem dfTake_spec (c : Cfg) (cb : Nat → Elem → Option Bool) (xs : List Elem) (rest : List (Option Elem)) :
    ∀ (k : Nat) (v : VS) (s : DF) (w : W), DFInv cb xs rest v s →
      ∃ v' s' w' ys ok, dfTake c cb k v s w = (v', s', w', ys, ok) ∧ v'.len = v.len ∧ v'.cap = v.cap ∧
        DFEnd cb xs rest (outN cb xs s.idx) ys v' s' ok ∧ w'.evs = w.evs ++ movedEvs ys ∧ w'.bad = w.bad ∧
        w'.nextId = w.nextId ∧ ys.length ≤ k ∧ (ok = true → ys.length < k → s'.idx = xs.length) := by
  intro k
  induction k with
  | zero =>
    intro v s w hinv
    exact ⟨v, s, w, [], true, by simp [dfTake], rfl, rfl, .ok v s hinv (by simp), by simp [movedEvs], rfl, rfl, by simp, by simp⟩
  | succ k ih =>
    intro v s w hinv
    obtain ⟨v1, s1, r, hrun, hl, hc, hle, hstep⟩ :=
      dfNext_spec c cb xs rest (s.oldLen - s.idx + 1) v s w hinv (by have := hinv.oldLen; omega)
    match r, hstep with
    | some none, .done _ _ hi hx hout =>
      refine ⟨v1, s1, w, [], true, ?_, hl, hc, .ok v1 s1 hi (by simpa using hout), by simp [movedEvs], rfl, rfl, by simp, fun _ _ => hx⟩
      simp [dfTake, hrun]
    | none, .panicked _ s0 hi hlt hcb hout =>
      refine ⟨v1, _, w, [], false, ?_, hl, hc, .panicked v1 s0 hi hlt hcb (by simpa using hout), by simp [movedEvs], rfl, rfl, by simp, by simp⟩
      simp [dfTake, hrun]
    | some (some e), .yield _ _ _ hi hout =>
      obtain ⟨v2, s2, w2, ys, ok, hrun2, hl2, hc2, hend, hev, hb, hn, hlen, hfin⟩ := ih v1 s1 (w.moved e) hi
      refine ⟨v2, s2, w2, e :: ys, ok, ?_, by rw [hl2, hl], by rw [hc2, hc], ?_, ?_, by rw [hb]; rfl, by rw [hn]; rfl,
        by simp; omega, fun h1 h2 => hfin h1 (by simp at h2; omega)⟩
      · simp [dfTake, hrun, hrun2]
      · rw [hout] at hend
        match ok, hend with
        | true, .ok _ _ hi2 ho2 => exact .ok _ _ hi2 (by rw [ho2]; simp)
        | false, .panicked _ s0 hi2 hlt2 hcb2 ho2 => exact .panicked _ s0 hi2 hlt2 hcb2 (by rw [ho2]; simp)
      · rw [hev]; simp [W.moved, W.emit, movedEvs]

/-- `for_each(drop)` of the destructor: the yielded elements `ys` are dropped; `b` = it ran to
the end; `e = false` = the predicate panicked -/
theorem dfDrain_spec (c : Cfg) (cb : Nat → Elem → Option Bool) (xs : List Elem) (rest : List (Option Elem)) :
    ∀ (f : Nat) (v : VS) (s : DF) (w : W), DFInv cb xs rest v s → xs.length - s.idx < f →
      ∃ v' s' w' ys b e, dfDrain c cb f v s w = (v', s', w', b) ∧ v'.len = v.len ∧ v'.cap = v.cap ∧
        DFEnd cb xs rest (outN cb xs s.idx) ys v' s' e ∧ w'.evs = w.evs ++ dropEvs c ys ∧ w'.bad = w.bad ∧
        w'.nextId = w.nextId ∧ (b = true → e = true ∧ s'.idx = xs.length) ∧
        (c.dropPanicAt = none → e = true → b = true) := by
  intro f
  induction f with
  | zero => intro v s w _ hf; omega
  | succ f ih =>
    intro v s w hinv hf
    obtain ⟨v1, s1, r, hrun, hl, hc, hle, hstep⟩ :=
      dfNext_spec c cb xs rest (s.oldLen - s.idx + 1) v s w hinv (by have := hinv.oldLen; omega)
    match r, hstep with
    | some none, .done _ _ hi hx hout =>
      refine ⟨v1, s1, w, [], true, true, ?_, hl, hc, .ok v1 s1 hi (by simpa using hout), by simp [dropEvs], rfl, rfl,
        fun _ => ⟨rfl, hx⟩, fun _ _ => rfl⟩
      simp [dfDrain, hrun]
    | none, .panicked _ s0 hi hlt hcb hout =>
      refine ⟨v1, _, w, [], false, false, ?_, hl, hc, .panicked v1 s0 hi hlt hcb (by simpa using hout), by simp [dropEvs], rfl, rfl,
        by simp, by simp⟩
      simp [dfDrain, hrun]
    | some (some e), .yield _ _ _ hi hout =>
      obtain ⟨hev0, hbad0, hnid0⟩ := dropElem_evs c w e
      cases hp : (dropElem c w e).2 with
      | true =>
        refine ⟨v1, s1, (dropElem c w e).1, [e], false, true, ?_, hl, hc, .ok v1 s1 hi hout, by rw [dropElem_evs'], hbad0, hnid0,
          by simp, ?_⟩
        · simp [dfDrain, hrun, hp]
        · intro hn; rw [dropElem_noPanic c w e hn] at hp; cases hp
      | false =>
        have hlt1 : s.idx < s1.idx := by
          have h1 := (kept_out_count cb xs s1.idx hi.idxLe hi.answered 0).2
          have h0 := (kept_out_count cb xs s.idx hinv.idxLe hinv.answered 0).2
          have : (outN cb xs s1.idx).length = (outN cb xs s.idx).length + 1 := by rw [hout]; simp
          apply Nat.lt_of_le_of_ne hle
          intro heq; rw [heq] at this; omega
        obtain ⟨v2, s2, w2, ys, b, e2, hrun2, hl2, hc2, hend, hev, hb, hn, hfin, hnp⟩ :=
          ih v1 s1 (dropElem c w e).1 hi (by have := hi.idxLe; omega)
        refine ⟨v2, s2, w2, e :: ys, b, e2, ?_, by rw [hl2, hl], by rw [hc2, hc], ?_, ?_, by rw [hb, hbad0], by rw [hn, hnid0], hfin, hnp⟩
        · simp [dfDrain, hrun, hp, hrun2]
        · rw [hout] at hend
          match e2, hend with
          | true, .ok _ _ hi2 ho2 => exact .ok _ _ hi2 (by rw [ho2]; simp)
          | false, .panicked _ s0 hi2 hlt2 hcb2 ho2 => exact .panicked _ s0 hi2 hlt2 hcb2 (by rw [ho2]; simp)
        · rw [hev, dropElem_evs', List.append_assoc, ← dropEvs_append]; rfl

/-- memmove of the unprocessed block `U` down over the holes `H` -/
theorem copy_block_down (K H U R : List (Option Elem)) :
    ∃ T, T.length = H.length ∧
      copySlots (K ++ (H ++ (U ++ R))) (K.length + H.length) K.length U.length = K ++ (U ++ (T ++ R)) := by
  refine ⟨(H ++ U).drop U.length, by simp, ?_⟩
  have h1 : K ++ (H ++ (U ++ R)) = (K ++ H) ++ (U ++ R) := by simp
  have h2 : K.length + H.length = (K ++ H).length := by simp
  have e1 : (K ++ (H ++ (U ++ R))).take K.length = K := List.take_left
  have e2 : (K ++ (H ++ (U ++ R))).drop (K.length + H.length) = U ++ R := by rw [h1, h2, List.drop_left]
  have e3 : (K ++ (H ++ (U ++ R))).drop (K.length + U.length) = (H ++ U).drop U.length ++ R := by
    rw [List.drop_length_add_append, show H ++ (U ++ R) = (H ++ U) ++ R by simp, List.drop_append_of_le_length (by simp)]
  simp only [copySlots, e1, e2, e3, List.take_left]

theorem DFInv.total {cb xs rest v s} (h : DFInv cb xs rest v s) : v.slots.length = xs.length + rest.length := by
  obtain ⟨holes, hh, hs⟩ := h.slots
  have hk := h.keptLen
  have := h.idxLe
  rw [hs]; simp; omega

/-- `BackshiftOnDrop::drop`: afterwards the vector owns what was kept plus what was not yet
processed, in order -/
theorem dfBackshift_spec {c : Cfg} {cb : Nat → Elem → Option Bool} {xs : List Elem} {rest : List (Option Elem)} {v : VS} {s0 s : DF}
    (h : DFInv cb xs rest v s0) (hi : s.idx = s0.idx) (hd : s.del = s0.del) (ho : s.oldLen = s0.oldLen) (w : W) :
    ∃ rest', dfBackshift c v s w =
        (⟨(keptN cb xs s0.idx ++ xs.drop s0.idx).map some ++ rest', (keptN cb xs s0.idx ++ xs.drop s0.idx).length, v.cap⟩, w) ∧
      ((keptN cb xs s0.idx ++ xs.drop s0.idx).map some ++ rest').length = xs.length + rest.length ∧
      (keptN cb xs s0.idx ++ xs.drop s0.idx).length ≤ xs.length := by
  obtain ⟨holes, hh, hs⟩ := h.slots
  have hk := h.keptLen
  have hle := h.idxLe
  have hol := h.oldLen
  have htot := h.total
  rcases v with ⟨sl, vl, vc⟩
  simp only at hs htot
  have hlen : (keptN cb xs s0.idx ++ xs.drop s0.idx).length = s.oldLen - s.del := by simp; omega
  have hle' : (keptN cb xs s0.idx ++ xs.drop s0.idx).length ≤ xs.length := by simp; omega
  by_cases hcond : s.idx < s.oldLen ∧ s.del > 0
  · obtain ⟨T, hT, hcp⟩ := copy_block_down ((keptN cb xs s0.idx).map some) holes ((xs.drop s0.idx).map some) rest
    have hsrc : ((keptN cb xs s0.idx).map some).length + holes.length = s.idx := by simp; omega
    have hdst : ((keptN cb xs s0.idx).map some).length = s.idx - s.del := by simp; omega
    have hn : ((xs.drop s0.idx).map some).length = s.oldLen - s.idx := by simp; omega
    rw [hsrc, hdst, hn, ← hs] at hcp
    refine ⟨T ++ rest, ?_, by simp; omega, hle'⟩
    have hne : s.oldLen - s.idx ≠ 0 := by omega
    have hneed : max s.idx (s.idx - s.del) + (s.oldLen - s.idx) ≤ sl.length := by omega
    simp only [dfBackshift, hcond, and_self, ↓reduceIte, VS.copy, hne, need_ok c (VS.mk sl vl vc) _ w _ hneed, hcp, hlen]
    simp
  · -- nothing to move: no hole, or nothing unprocessed
    have hcase : s.del = 0 ∨ s0.idx = xs.length := by omega
    refine ⟨holes ++ rest, ?_, ?_, hle'⟩
    · simp only [dfBackshift, hcond, ↓reduceIte, hlen, hs]
      rcases hcase with h0 | hfull
      · have : holes = [] := by cases holes with
          | nil => rfl
          | cons _ _ => simp at hh; omega
        subst this; simp
      · simp [hfull]
    · simp only [List.length_append, List.length_map, List.length_drop]; omega

theorem dfDrop_unfold (c : Cfg) (cb : Nat → Elem → Option Bool) (v : VS) (s : DF) (w : W) :
    dfDrop c cb v s w =
      if s.panicFlag then ((dfBackshift c v s w).1, (dfBackshift c v s w).2, true)
      else
        let r := dfDrain c cb (s.oldLen - s.idx + 1) v s w
        ((dfBackshift c r.1 r.2.1 r.2.2.1).1, (dfBackshift c r.1 r.2.1 r.2.2.1).2, r.2.2.2) := by
  unfold dfDrop; split <;> rfl

theorem drainFilterOp_unfold (c : Cfg) (v : VS) (cb : Nat → Elem → Option Bool) (take : Nat) (forget : Bool) (w : W) :
    drainFilterOp c v cb take forget w =
      let t := dfTake c cb take { v with len := 0 } ⟨0, 0, v.len, 0, false⟩ w
      if t.2.2.2.2 = false then
        ((dfDrop c cb t.1 t.2.1 t.2.2.1).1, (dfDrop c cb t.1 t.2.1 t.2.2.1).2.1, none)
      else if forget then (t.1, t.2.2.1, some t.2.2.2.1)
      else ((dfDrop c cb t.1 t.2.1 t.2.2.1).1, (dfDrop c cb t.1 t.2.1 t.2.2.1).2.1,
            if (dfDrop c cb t.1 t.2.1 t.2.2.1).2.2 then some t.2.2.2.1 else none) := by
  unfold drainFilterOp
  dsimp only
  generalize dfTake c cb take { v with len := 0 } ⟨0, 0, v.len, 0, false⟩ w = t
  rcases t with ⟨v1, s, w1, ys, ok⟩
  cases ok <;> simp

/-- a whole `drain_filter(pred)` statement: `n` elements were processed (all of them unless a
panic or a forgotten iterator cut it short), `ysT` handed to the caller, `ysD` dropped by the
destructor; the vector owns what was kept plus what was not processed (nothing if leaked) -/
theorem drainFilterOp_spec {c : Cfg} {v : VS} {xs : List Elem} (h : RepB c v xs) (cb : Nat → Elem → Option Bool)
    (take : Nat) (forget : Bool) (w : W) :
    ∃ (v' : VS) (w' : W) (r : Option (List Elem)) (n : Nat) (ysT ysD : List Elem) (leak : Bool),
      drainFilterOp c v cb take forget w = (v', w', r) ∧ n ≤ xs.length ∧
      (∀ j (_ : j < n) (hl : j < xs.length), (cb j xs[j]).isSome) ∧
      outN cb xs n = ysT ++ ysD ∧ ysT.length ≤ take ∧
      RepB c v' (if leak then [] else keptN cb xs n ++ xs.drop n) ∧
      w'.evs = w.evs ++ movedEvs ysT ++ dropEvs c ysD ∧ w'.bad = w.bad ∧ w'.nextId = w.nextId ∧
      (leak = true → forget = true ∧ ysD = []) ∧
      (∀ m, r = some m → m = ysT ∧ (leak = false → n = xs.length)) ∧
      ((∀ k e, cb k e ≠ none) → c.dropPanicAt = none → forget = false →
          r = some ysT ∧ n = xs.length ∧ (ysT.length < take → ysD = [])) := by
  rcases v with ⟨sl, l, cp⟩
  obtain ⟨rest, rfl, rfl⟩ := h.toRep.nf
  let v0 : VS := ⟨xs.map some ++ rest, 0, cp⟩
  let s0 : DF := ⟨0, 0, xs.length, 0, false⟩
  have hinv0 : DFInv cb xs rest v0 s0 :=
    ⟨rfl, Nat.zero_le _, rfl, rfl, fun j hj => by simp [s0] at hj, by simp [s0, outN], ⟨[], by simp [s0], by simp [v0, s0, keptN]⟩⟩
  obtain ⟨v1, s1, w1, ysT, ok, hrun, hl1, hc1, hend, hev1, hb1, hn1, hlenT, hfin⟩ := dfTake_spec c cb xs rest take v0 s0 w hinv0
  rw [drainFilterOp_unfold]
  simp only [v0, s0] at hrun
  simp only [hrun]
  have mkRep : ∀ (ys : List Elem) (rest' : List (Option Elem)), (ys.map some ++ rest').length = xs.length + rest.length →
      ys.length ≤ xs.length → RepB c ⟨ys.map some ++ rest', ys.length, cp⟩ ys := by
    intro ys rest' hl hle
    exact h.shrink (by rw [hl]; simp) hle
  have hout0 : outN cb xs s0.idx = [] := by simp [s0, outN]
  match ok, hend with
  | false, .panicked _ sp hi hlt hcb hout =>
    -- the predicate panicked inside a caller's `next`: the destructor only backshifts
    obtain ⟨rest', hbs, hlen', hle'⟩ := dfBackshift_spec (c := c) hi (s := { sp with calls := sp.calls + 1, panicFlag := true }) rfl rfl rfl w1
    have hcap : v1.cap = cp := hc1
    rw [if_pos rfl]
    simp only [dfDrop_unfold, ↓reduceIte, hbs, hcap]
    refine ⟨_, _, _, sp.idx, ysT, [], false, rfl, hi.idxLe, fun j hj _ => hi.answered j hj, by rw [hout, hout0]; simp, hlenT, ?_, ?_, hb1, hn1, by simp, by simp, ?_⟩
    · simp only [Bool.false_eq_true, ↓reduceIte]
      exact mkRep _ rest' hlen' hle'
    · rw [hev1]; unfold dropEvs; split <;> simp
    · intro htot; exact absurd hcb (htot _ _)
  | true, .ok _ _ hi hout =>
    simp only [Bool.true_eq_false, ↓reduceIte]
    by_cases hforget : forget = true
    · -- the iterator is forgotten: `len` stays 0, everything not yielded is leaked
      have hv1 : v1 = ⟨v1.slots, 0, cp⟩ := by cases v1; simp at hl1 hc1 ⊢; exact ⟨hl1, hc1⟩
      have htot := hi.total
      refine ⟨v1, w1, some ysT, s1.idx, ysT, [], true, by simp [hforget], hi.idxLe, fun j hj _ => hi.answered j hj, by rw [hout, hout0]; simp, hlenT,
        ?_, by rw [hev1]; unfold dropEvs; split <;> simp, hb1, hn1, fun _ => ⟨hforget, rfl⟩, fun m hm => ⟨by simpa using hm.symm, by simp⟩,
        fun _ _ hf => by simp [hforget] at hf⟩
      simp only [↓reduceIte]
      rw [hv1]
      have := mkRep [] v1.slots (by simp [htot]) (by simp)
      simpa using this
    · have hf' : forget = false := by simpa using hforget
      obtain ⟨v2, s2, w2, ysD, b, e, hrun2, hl2, hc2, hend2, hev2, hb2, hn2, hfin2, hnp2⟩ :=
        dfDrain_spec c cb xs rest (s1.oldLen - s1.idx + 1) v1 s1 w1 hi (by have := hi.oldLen; omega)
      simp only [hf', Bool.false_eq_true, ↓reduceIte, dfDrop_unfold, hi.flag, hrun2]
      rw [hout, hout0, List.nil_append] at hend2
      have hcap : v2.cap = cp := by rw [hc2, hc1]
      match e, hend2 with
      | true, .ok _ _ hi2 hout2 =>
        obtain ⟨rest', hbs, hlen', hle'⟩ := dfBackshift_spec (c := c) hi2 (s := s2) rfl rfl rfl w2
        simp only [hbs, hcap]
        refine ⟨_, _, _, s2.idx, ysT, ysD, false, rfl, hi2.idxLe, fun j hj _ => hi2.answered j hj, hout2, hlenT,
          ?_, by rw [hev2, hev1], by rw [hb2, hb1], by rw [hn2, hn1], by simp, ?_, ?_⟩
        · simp only [Bool.false_eq_true, ↓reduceIte]
          exact mkRep _ rest' hlen' hle'
        · intro m hm
          cases b with
          | false => simp at hm
          | true => simp at hm; exact ⟨hm.symm, fun _ => (hfin2 rfl).2⟩
        · intro _ hnp _
          have hb : b = true := hnp2 hnp rfl
          subst hb
          have hidx := (hfin2 rfl).2
          refine ⟨rfl, hidx, fun hlt => ?_⟩
          have h1 := hfin rfl hlt
          have : outN cb xs s1.idx = outN cb xs s2.idx := by rw [h1, hidx]
          rw [hout, hout0, hout2, List.nil_append] at this
          exact List.self_eq_append_right.mp this
      | false, .panicked _ sp hi2 hlt2 hcb2 hout2 =>
        obtain ⟨rest', hbs, hlen', hle'⟩ := dfBackshift_spec (c := c) hi2 (s := { sp with calls := sp.calls + 1, panicFlag := true }) rfl rfl rfl w2
        have hbf : b = false := by
          cases b with
          | false => rfl
          | true => have := (hfin2 rfl).1; cases this
        subst hbf
        simp only [hbs, hcap]
        refine ⟨_, _, _, sp.idx, ysT, ysD, false, rfl, hi2.idxLe, fun j hj _ => hi2.answered j hj, hout2, hlenT,
          ?_, by rw [hev2, hev1], by rw [hb2, hb1], by rw [hn2, hn1], by simp, by simp, ?_⟩
        · simp only [Bool.false_eq_true, ↓reduceIte]
          exact mkRep _ rest' hlen' hle'
        · intro htot; exact absurd hcb2 (htot _ _)

theorem evDrops_movedEvs (es : List Elem) : evDrops (movedEvs es) = [] ∧ evMoved (movedEvs es) = ids es := by
  induction es with
  | nil => exact ⟨rfl, rfl⟩
  | cons e es ih => simp [movedEvs, evDrops, evMoved, ids] at ih ⊢; exact ih

/-- `drain_filter` with *any* callback (any answers, any panic point), any number of caller
`next()` calls, dropped or forgotten: the ledger is preserved; values leak only when the
iterator is forgotten -/
theorem drainFilterOp_own {c : Cfg} {v : VS} {xs : List Elem} {ins held : List Nat} (hd : c.needsDrop = true)
    (h : RepB c v xs) (cb : Nat → Elem → Option Bool) (take : Nat) (forget : Bool) (w : W) (ho : Own ins xs w.evs held) :
    ∃ ys lk, RepB c (drainFilterOp c v cb take forget w).1 ys ∧
      Own ins ys (drainFilterOp c v cb take forget w).2.1.evs (lk ++ held) ∧ (forget = false → lk = []) := by
  obtain ⟨v', w', r, n, ysT, ysD, leak, hrun, hn, hall, hout, _, hrep, hev, _, _, hleak, _, _⟩ := drainFilterOp_spec h cb take forget w
  have hcount := fun a => (kept_out_count cb xs n hn (fun j hj => hall j hj (by omega)) a).1
  rw [hrun]
  cases leak with
  | false =>
    refine ⟨_, [], hrep, ?_, fun _ => rfl⟩
    apply ho.of_count
    intro a
    have h1 := hcount a
    have h2 := count_take_drop xs n a
    rw [hout] at h1
    simp only [Bool.false_eq_true, ↓reduceIte, hev, evDrops_append, evMoved_append, (evDrops_movedEvs ysT).1, (evDrops_movedEvs ysT).2,
      evDrops_dropEvs c hd, evMoved_dropEvs, ids_append, List.count_append, List.count_nil, List.nil_append] at h1 ⊢
    omega
  | true =>
    obtain ⟨hf, hD⟩ := hleak rfl
    subst hD
    refine ⟨_, ids (keptN cb xs n ++ xs.drop n), hrep, ?_, fun hff => by rw [hf] at hff; cases hff⟩
    apply ho.of_count
    intro a
    have h1 := hcount a
    have h2 := count_take_drop xs n a
    rw [hout] at h1
    simp only [↓reduceIte, hev, evDrops_append, evMoved_append, (evDrops_movedEvs ysT).1, (evDrops_movedEvs ysT).2,
      evDrops_dropEvs c hd, evMoved_dropEvs, ids_append, ids_nil, List.count_append, List.count_nil, List.append_nil] at h1 ⊢
    omega

/-- `retain` with any callback: the ledger is preserved and nothing leaks -/
theorem retain_own {c : Cfg} {v : VS} {xs : List Elem} {ins held : List Nat} (hd : c.needsDrop = true)
    (h : RepB c v xs) (cb : Nat → Elem → Option Bool) (w : W) (ho : Own ins xs w.evs held) :
    ∃ ys, RepB c (retain c v cb w).1 ys ∧ Own ins ys (retain c v cb w).2.1.evs held := by
  obtain ⟨ys, lk, hr, hown, hlk⟩ := drainFilterOp_own hd h (fun k e => (cb k e).map (!·)) 0 false w ho
  have : lk = [] := hlk rfl
  subst this
  refine ⟨ys, ?_, ?_⟩
  · unfold retain; split <;> simp_all
  · unfold retain; split <;> simp_all

/-- refinement for a predicate that is a pure function of the element and never panics, with
destructors that do not panic: exactly the elements satisfying it are removed, in order; the
first `take` go to the caller, the others are dropped by the iterator's destructor -/
theorem drainFilterOp_pure {c : Cfg} {v : VS} {xs : List Elem} (h : RepB c v xs) (f : Elem → Bool) (take : Nat) (w : W)
    (hnp : c.dropPanicAt = none) :
    ∃ v' w', drainFilterOp c v (fun _ e => some (f e)) take false w = (v', w', some ((xs.filter f).take take)) ∧
      RepB c v' (xs.filter (fun e => !f e)) ∧
      w'.evs = w.evs ++ movedEvs ((xs.filter f).take take) ++ dropEvs c ((xs.filter f).drop take) ∧ w'.bad = w.bad := by
  obtain ⟨v', w', r, n, ysT, ysD, leak, hrun, hn, hall, hout, hlenT, hrep, hev, hb, _, hleak, _, htot⟩ :=
    drainFilterOp_spec h (fun _ e => some (f e)) take false w
  obtain ⟨hr, hnl, hshort⟩ := htot (fun _ _ => by simp) hnp rfl
  subst hnl
  have hleakf : leak = false := by
    cases leak with
    | false => rfl
    | true => have := (hleak rfl).1; cases this
  subst hleakf
  obtain ⟨hk, ho⟩ := keptN_pure f xs xs.length (Nat.le_refl _)
  rw [List.take_length] at hk ho
  rw [ho] at hout
  have hT : ysT = (xs.filter f).take take ∧ ysD = (xs.filter f).drop take := by
    by_cases hlt : ysT.length < take
    · have hD := hshort hlt
      subst hD
      simp only [List.append_nil] at hout
      rw [hout]
      exact ⟨(List.take_of_length_le (by omega)).symm, (List.drop_of_length_le (by omega)).symm⟩
    · have hlen : ysT.length = take := by omega
      rw [hout, ← hlen]
      exact ⟨by simp, by simp⟩
  obtain ⟨hT1, hT2⟩ := hT
  subst hT1 hT2
  refine ⟨v', w', by rw [hrun, hr], ?_, hev, hb⟩
  simpa [hk] using hrep

theorem retain_pure {c : Cfg} {v : VS} {xs : List Elem} (h : RepB c v xs) (f : Elem → Bool) (w : W)
    (hnp : c.dropPanicAt = none) :
    ∃ v' w', retain c v (fun _ e => some (f e)) w = (v', w', some ()) ∧ RepB c v' (xs.filter f) ∧
      w'.evs = w.evs ++ dropEvs c (xs.filter (fun e => !f e)) ∧ w'.bad = w.bad := by
  obtain ⟨v', w', hrun, hrep, hev, hb⟩ := drainFilterOp_pure h (fun e => !f e) 0 w hnp
  refine ⟨v', w', ?_, by simpa using hrep, by simpa [movedEvs] using hev, hb⟩
  unfold retain
  have : (fun k e => Option.map (fun x => !x) ((fun _ e => some (f e)) k e)) = (fun (_ : Nat) e => some (!f e)) := by
    funext k e; rfl
  rw [this, hrun]

end Bump.V
