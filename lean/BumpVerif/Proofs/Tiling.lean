import BumpVerif.Proofs.Rewind
/-!
# C10: uniform histories tile the used parts exactly

If every allocation has the same alignment `A` (`MIN_ALIGN ≤ A ≤ 16`) and a size that is a
multiple of `A`, then in every chunk the bytes of the live blocks that lie in its used part add
up to exactly the length of the used part `[finger, footer)`.  Together with C01 (the blocks are
inside the used part and pairwise disjoint) this says the slice yielded by chunk iteration is
exactly the concatenation of the live objects: no byte before, between or after them.
-/
namespace Bump
open Gen

/-- Uniform allocations leave no padding: when the request's alignment `A` is at least
`MIN_ALIGN`, divides the finger and divides the size, the fast path hands out exactly the `sz`
bytes just below the finger, so consecutive objects are adjacent. -/
theorem uniform_no_padding (M : Nat) (c : Chunk) (sz A : Nat) (hA : IsPow2 A) (hMA : M ≤ A) (hA16 : A ≤ 16)
    (hdp : c.data ≤ c.ptr) (hptr : c.ptr < 2 ^ 63) (hAp : A ∣ c.ptr) (hAs : A ∣ sz) (hfit : sz ≤ c.ptr - c.data) :
    allocFast M c sz A = some (c.ptr - sz) := by
  have hU : USIZE = 2 ^ 64 := rfl
  have hru : roundUpTo sz A = some sz := roundUpTo_of_dvd hA.pos hAs (by omega)
  unfold allocFast
  rw [if_neg (by omega)]
  by_cases heq : A = M
  · rw [if_pos heq, hru]
    simp only
    rw [if_neg (by omega), wsub_eq (by omega) (by omega)]
  · rw [if_neg heq, hru]
    simp only
    have hmod : c.ptr % A = 0 := Nat.mod_eq_zero_of_dvd hAp
    rw [hmod, wsub_eq (Nat.zero_le _) (by omega), Nat.sub_zero, wsub_eq hdp (by omega)]
    rw [if_neg (by omega), wsub_eq (by omega) (by omega)]

/-- …and a fresh chunk starts at its footer, which is 16-aligned, so the first object of a
chunk ends exactly at the footer: no bytes after the objects either. Together with
`uniform_no_padding` (no bytes between) and the finger being the slice start (no bytes before),
the slice `[ptr, footer)` is exactly the concatenation of the objects, most recent first. -/
theorem uniform_first_in_chunk {M : Nat} {c : Chunk} (sz A : Nat) (hw : ChunkWF M c) (hfresh : c.ptr = c.footer)
    (hA : IsPow2 A) (hMA : M ≤ A) (hA16 : A ≤ 16) (hAs : A ∣ sz) (hfit : sz ≤ c.footer - c.data) :
    allocFast M c sz A = some (c.footer - sz) := by
  have h16 := footer_al hw
  have hAp : A ∣ c.ptr := by rw [hfresh]; exact Nat.dvd_trans (hA.dvd_of_le isPow2_16 hA16) h16
  have hfl := footer_lt hw
  have := uniform_no_padding M c sz A hA hMA hA16 hw.ptr_ge (by have := hw.hi; have := hw.ptr_le; have := FS; omega) hAp hAs
    (by rw [hfresh]; exact hfit)
  rw [this, hfresh]


def inUsed (c : Chunk) (b : Block) : Bool := decide (c.ptr ≤ b.ptr) && decide (b.ptr + b.size ≤ c.footer)

/-- bytes of live blocks lying in the used part of `c` -/
def liveBytesIn (c : Chunk) (live : List Block) : Nat := (live.map fun b => if inUsed c b then b.size else 0).sum

structure Tiled (A : Nat) (a : Arena) (live : List Block) : Prop where
  finger_al : ∀ c ∈ a.chunks, A ∣ c.ptr
  exact : ∀ c ∈ a.chunks, liveBytesIn c live = c.footer - c.ptr

theorem liveBytesIn_append (c : Chunk) (l1 l2 : List Block) :
    liveBytesIn c (l1 ++ l2) = liveBytesIn c l1 + liveBytesIn c l2 := by
  simp [liveBytesIn, List.map_append, List.sum_append]

theorem liveBytesIn_nil (c : Chunk) : liveBytesIn c [] = 0 := rfl

theorem liveBytesIn_congr (c c' : Chunk) (live : List Block)
    (h : ∀ b ∈ live, (if inUsed c b then b.size else 0) = (if inUsed c' b then b.size else 0)) :
    liveBytesIn c live = liveBytesIn c' live := by
  unfold liveBytesIn
  congr 1
  exact List.map_congr_left h

theorem liveBytesIn_zero (c : Chunk) (live : List Block) (h : ∀ b ∈ live, 0 < b.size → inUsed c b = false) :
    liveBytesIn c live = 0 := by
  induction live with
  | nil => rfl
  | cons b bs ih =>
    have hb := h b List.mem_cons_self
    have hrest := ih (fun x hx => h x (List.mem_cons_of_mem _ hx))
    unfold liveBytesIn at hrest ⊢
    simp only [List.map_cons, List.sum_cons, hrest, Nat.add_zero]
    by_cases hz : b.size = 0
    · split <;> simp [hz]
    · rw [hb (by omega)]; simp

end Bump

namespace Bump
open Gen

/-- a live block of non-zero size is in the used part of chunk `c` of a well-formed arena only if
`c` is the chunk that `InChunk` found for it (chunks are disjoint) -/
theorem inUsed_unique {E a c b} (wf : ArenaWF E a) (hc : c ∈ a.chunks) (hin : InChunk a b.ptr b.size) (hpos : 0 < b.size)
    (hu : inUsed c b = true) : ∃ d ∈ a.chunks, d.data = c.data ∧ d.size = c.size ∧ d.ptr ≤ b.ptr ∧ b.ptr + b.size ≤ d.footer := by
  obtain ⟨d, hd, h1, h2⟩ := hin
  simp only [inUsed, Bool.and_eq_true, decide_eq_true_eq] at hu
  have hwc := wf.chunks c hc
  have hwd := wf.chunks d hd
  obtain ⟨e1, e2⟩ := chunk_of_point wf hd hc (x := b.ptr) ⟨by have := hwd.ptr_ge; omega, by omega⟩
    ⟨by have := hwc.ptr_ge; omega, by omega⟩
  exact ⟨d, hd, e1, e2, h1, h2⟩

/-- **Uniform allocation, same chunk.** -/
theorem tiled_alloc_same {E A sz p} {s s' : St} {live : List Block} {c : Chunk} {cs : List Chunk}
    (inv : LiveInv E ⟨s, live⟩) (wf' : ArenaWF E s'.a) (ht : Tiled A s.a live)
    (hc : s.a.chunks = c :: cs) (hc' : s'.a.chunks = { c with ptr := p } :: cs)
    (hp : p = c.ptr - sz) (hfit : c.data + sz ≤ c.ptr) (hA : A ∣ sz) :
    Tiled A s'.a (live ++ [⟨p, sz⟩]) := by
  have hw := inv.wf.chunks c (by rw [hc]; exact List.mem_cons_self)
  have hAc := ht.finger_al c (by rw [hc]; exact List.mem_cons_self)
  have hpl := hw.ptr_le
  refine ⟨?_, ?_⟩
  · intro x hx
    rw [hc'] at hx
    simp only [List.mem_cons] at hx
    rcases hx with rfl | hx
    · show A ∣ p; rw [hp]; exact Nat.dvd_sub hAc hA
    · exact ht.finger_al x (by rw [hc]; exact List.mem_cons_of_mem _ hx)
  · intro x hx
    rw [hc'] at hx
    simp only [List.mem_cons] at hx
    rw [liveBytesIn_append]
    rcases hx with rfl | hx
    · -- the chunk that served the request: old blocks as before, plus the new one
      have hold : liveBytesIn { c with ptr := p } live = liveBytesIn c live := by
        apply liveBytesIn_congr
        intro b hb
        by_cases hz : b.size = 0
        · simp [hz]
        · obtain ⟨_, _, _, g4⟩ := inv.blocks b hb
          obtain ⟨d, hd, h1, h2⟩ := g4.resolve_left hz
          rw [hc] at hd
          simp only [List.mem_cons] at hd
          rcases hd with rfl | hd
          · -- the block is in this chunk's used part, before and after
            have u1 : inUsed { d with ptr := p } b = true := by
              simp only [inUsed, Bool.and_eq_true, decide_eq_true_eq]; exact ⟨by omega, h2⟩
            have u2 : inUsed d b = true := by
              simp only [inUsed, Bool.and_eq_true, decide_eq_true_eq]; exact ⟨h1, h2⟩
            rw [u1, u2]
          · -- the block is in another chunk, which is disjoint from this one
            have hwd := inv.wf.chunks d (by rw [hc]; exact List.mem_cons_of_mem _ hd)
            have hdd := inv.wf.disj; rw [hc] at hdd
            have hcd := (List.pairwise_cons.mp hdd).1 d hd
            have f1 := footer_lt hw; have f2 := footer_lt hwd
            have := hwd.ptr_ge; have := hw.ptr_ge; have := FS
            have u1 : inUsed { c with ptr := p } b = false := by
              cases hq : inUsed { c with ptr := p } b with
              | false => rfl
              | true =>
                exfalso
                simp only [inUsed, Bool.and_eq_true, decide_eq_true_eq] at hq
                have : ({ c with ptr := p } : Chunk).footer = c.footer := rfl
                unfold Disj at hcd; omega
            have u2 : inUsed c b = false := by
              cases hq : inUsed c b with
              | false => rfl
              | true =>
                exfalso
                simp only [inUsed, Bool.and_eq_true, decide_eq_true_eq] at hq
                unfold Disj at hcd; omega
            rw [u1, u2]
      rw [hold, ht.exact c (by rw [hc]; exact List.mem_cons_self)]
      have hnew : liveBytesIn { c with ptr := p } [⟨p, sz⟩] = sz := by
        simp only [liveBytesIn, List.map_cons, List.map_nil, List.sum_cons, List.sum_nil, inUsed]
        have : (decide (p ≤ p) && decide (p + sz ≤ c.footer)) = true := by
          simp only [Bool.and_eq_true, decide_eq_true_eq]; exact ⟨Nat.le_refl _, by omega⟩
        show (if (decide (p ≤ p) && decide (p + sz ≤ ({ c with ptr := p } : Chunk).footer)) = true then sz else 0) + 0 = sz
        rw [show ({ c with ptr := p } : Chunk).footer = c.footer from rfl, this]; simp
      rw [hnew]
      show c.footer - c.ptr + sz = c.footer - p
      omega
    · -- the other chunks: the new block is not in them
      have hx0 : x ∈ s.a.chunks := by rw [hc]; exact List.mem_cons_of_mem _ hx
      rw [ht.exact x hx0]
      have hnew : liveBytesIn x [⟨p, sz⟩] = 0 := by
        apply liveBytesIn_zero
        intro b hb hpos
        simp only [List.mem_singleton] at hb; subst hb
        cases hq : inUsed x ⟨p, sz⟩ with
        | false => rfl
        | true =>
          exfalso
          simp only [inUsed, Bool.and_eq_true, decide_eq_true_eq] at hq
          have hwx := inv.wf.chunks x hx0
          have hdd := inv.wf.disj; rw [hc] at hdd
          have hcx := (List.pairwise_cons.mp hdd).1 x hx
          have f1 := footer_lt hw; have f2 := footer_lt hwx
          have := hwx.ptr_ge; have := FS
          unfold Disj at hcx
          omega
      rw [hnew]; omega

end Bump

namespace Bump
open Gen

/-- old live blocks are not in the used part of a chunk that is disjoint from every old chunk -/
theorem liveBytesIn_fresh_zero {E} {s : St} {live : List Block} {M : Nat} (C : Chunk) (inv : LiveInv E ⟨s, live⟩)
    (hwC : ChunkWF M C) (hdis : ∀ h ∈ s.a.chunks, Disj C.data C.size h.data h.size) : liveBytesIn C live = 0 := by
  apply liveBytesIn_zero
  intro b hb hpos
  obtain ⟨_, _, _, g4⟩ := inv.blocks b hb
  obtain ⟨d, hd, h1, h2⟩ := g4.resolve_left (by omega)
  cases hq : inUsed C b with
  | false => rfl
  | true =>
    exfalso
    simp only [inUsed, Bool.and_eq_true, decide_eq_true_eq] at hq
    have hwd := inv.wf.chunks d hd
    have hcd := hdis d hd
    have f1 := footer_lt hwC; have f2 := footer_lt hwd
    have := hwd.ptr_ge; have := hwC.ptr_ge; have := FS
    unfold Disj at hcd; omega

theorem A_dvd_footer {M c A} (hw : ChunkWF M c) (hA : IsPow2 A) (hA16 : A ≤ 16) : A ∣ c.footer :=
  Nat.dvd_trans (hA.dvd_of_le isPow2_16 hA16) (footer_al hw)

/-- **Uniform allocation, fresh chunk.** -/
theorem tiled_alloc_fresh {E A sz p} {s s' : St} {live : List Block} {C : Chunk}
    (inv : LiveInv E ⟨s, live⟩) (wf' : ArenaWF E s'.a) (ht : Tiled A s.a live)
    (hc' : s'.a.chunks = { C with ptr := p } :: s.a.chunks) (hp : p = C.footer - sz) (hfit : C.data + sz ≤ C.footer)
    (hdis : ∀ h ∈ s.a.chunks, Disj C.data C.size h.data h.size) (hA : A ∣ sz) (hAp : IsPow2 A) (hA16 : A ≤ 16) :
    Tiled A s'.a (live ++ [⟨p, sz⟩]) := by
  have hmem' : ({ C with ptr := p } : Chunk) ∈ s'.a.chunks := by rw [hc']; exact List.mem_cons_self
  have hwC' := wf'.chunks _ hmem'
  have hfe : ({ C with ptr := p } : Chunk).footer = C.footer := rfl
  refine ⟨?_, ?_⟩
  · intro x hx
    rw [hc'] at hx
    simp only [List.mem_cons] at hx
    rcases hx with rfl | hx
    · show A ∣ p; rw [hp]
      have := A_dvd_footer hwC' hAp hA16; rw [hfe] at this
      exact Nat.dvd_sub this hA
    · exact ht.finger_al x hx
  · intro x hx
    rw [hc'] at hx
    simp only [List.mem_cons] at hx
    rw [liveBytesIn_append]
    rcases hx with rfl | hx
    · rw [liveBytesIn_fresh_zero _ inv hwC' hdis]
      have hnew : liveBytesIn { C with ptr := p } [⟨p, sz⟩] = sz := by
        simp only [liveBytesIn, List.map_cons, List.map_nil, List.sum_cons, List.sum_nil, inUsed]
        have : (decide (p ≤ p) && decide (p + sz ≤ C.footer)) = true := by
          simp only [Bool.and_eq_true, decide_eq_true_eq]; exact ⟨Nat.le_refl _, by omega⟩
        show (if (decide (p ≤ p) && decide (p + sz ≤ ({ C with ptr := p } : Chunk).footer)) = true then sz else 0) + 0 = sz
        rw [hfe, this]; simp
      rw [hnew]
      show 0 + sz = C.footer - p
      omega
    · rw [ht.exact x hx]
      have hnew : liveBytesIn x [⟨p, sz⟩] = 0 := by
        apply liveBytesIn_zero
        intro b hb hpos
        simp only [List.mem_singleton] at hb; subst hb
        cases hq : inUsed x ⟨p, sz⟩ with
        | false => rfl
        | true =>
          exfalso
          simp only [inUsed, Bool.and_eq_true, decide_eq_true_eq] at hq
          have hwx := inv.wf.chunks x hx
          have hcx := hdis x hx
          have f1 := footer_lt hwC'; have f2 := footer_lt hwx
          have := hwx.ptr_ge; have := hwC'.ptr_ge; have := FS
          simp only at f1
          unfold Disj at hcx
          omega
      rw [hnew]; omega

/-- pushing an empty fresh chunk (a failed initialiser that forced a new chunk) keeps the tiling -/
theorem tiled_push_empty {E A} {s s' : St} {live : List Block} {C : Chunk}
    (inv : LiveInv E ⟨s, live⟩) (wf' : ArenaWF E s'.a) (ht : Tiled A s.a live)
    (hc' : s'.a.chunks = C :: s.a.chunks) (hpf : C.ptr = C.footer)
    (hdis : ∀ h ∈ s.a.chunks, Disj C.data C.size h.data h.size) (hAp : IsPow2 A) (hA16 : A ≤ 16) :
    Tiled A s'.a live := by
  have hwC := wf'.chunks C (by rw [hc']; exact List.mem_cons_self)
  refine ⟨?_, ?_⟩
  · intro x hx
    rw [hc'] at hx
    simp only [List.mem_cons] at hx
    rcases hx with rfl | hx
    · rw [hpf]; exact A_dvd_footer hwC hAp hA16
    · exact ht.finger_al x hx
  · intro x hx
    rw [hc'] at hx
    simp only [List.mem_cons] at hx
    rcases hx with rfl | hx
    · rw [liveBytesIn_fresh_zero _ inv hwC hdis, hpf]; omega
    · exact ht.exact x hx

theorem tiled_same_arena {A} {a a' : Arena} {live : List Block} (ht : Tiled A a live) (h : a'.chunks = a.chunks) :
    Tiled A a' live := ⟨fun c hc => ht.finger_al c (h ▸ hc), fun c hc => ht.exact c (h ▸ hc)⟩

end Bump

namespace Bump
open Gen

theorem tryFast_allocFast {E a sz al a' p} (h : tryFast E a sz al = .ok (some (a', p))) :
    allocFast a.M (a.cur E) sz al = some p := by
  unfold tryFast at h
  simp only at h
  split at h
  · cases h
  · split at h
    · cases h
    · split at h
      · cases h
      · rename_i q hq
        split at h
        · cases h
        · split at h
          · cases h
          · simp only [Outcome.ok.injEq, Option.some.injEq, Prod.mk.injEq] at h
            obtain ⟨_, rfl⟩ := h
            exact hq

/-- a uniform request: alignment `A` with `MIN_ALIGN ≤ A ≤ 16`, size a multiple of `A` -/
structure UniformReq (M A sz : Nat) : Prop where
  pow : IsPow2 A
  ge : M ≤ A
  le : A ≤ 16
  dvd : A ∣ sz
  lay : sz + A ≤ 2 ^ 63

/-- **Uniform allocation keeps the tiling** (whichever path served it), and a failed one changes nothing. -/
theorem tiled_allocMaybe {E A sz} (f : Bool) {s : St} {live : List Block} (hE : EnvOK E) (inv : LiveInv E ⟨s, live⟩)
    (ht : Tiled A s.a live) (hu : UniformReq s.a.M A sz) :
    (∀ p, (allocMaybe E f sz A s).2 = .ok p → Tiled A (allocMaybe E f sz A s).1.a (live ++ [⟨p, sz⟩])) ∧
    ((allocMaybe E f sz A s).2 = .err ∨ (allocMaybe E f sz A s).2 = .panic → Tiled A (allocMaybe E f sz A s).1.a live) := by
  have sp := allocMaybe_spec f s hE inv.wf hu.pow hu.lay
  refine ⟨?_, fun hf => tiled_same_arena ht (by rw [(sp.fail hf).1])⟩
  intro p hok
  obtain ⟨wf', _, _, _, _, _⟩ := sp.ok p hok
  have hvia := sp.via p hok
  obtain ⟨c1, c2, c3, c4, _, _, _⟩ := cur_ok hE inv.wf
  rcases hvia with htf | ⟨C, hpf, hc', htf⟩
  · have haf := tryFast_allocFast htf
    have hs := tryFast_inv htf
    obtain ⟨b1, b2, _, _⟩ := allocFast_ok s.a.M (s.a.cur E) sz A p inv.wf.mpow hu.pow c1 c4 c3 haf
    unfold setCurPtr at hs
    cases hc : s.a.chunks with
    | nil =>
      rw [hc] at hs
      simp only at hs
      split at hs
      · simp only [Option.some.injEq] at hs
        -- chunk-less arena: nothing to tile
        have hnil : (allocMaybe E f sz A s).1.a.chunks = [] := by rw [← hs, hc]
        exact ⟨fun c hcm => (by rw [hnil] at hcm; cases hcm), fun c hcm => (by rw [hnil] at hcm; cases hcm)⟩
      · cases hs
    | cons c cs =>
      rw [hc] at hs
      simp only [Option.some.injEq] at hs
      have hcur : s.a.cur E = c := by simp [Arena.cur, hc]
      rw [hcur] at haf b1 b2 c1 c4
      have hAc := ht.finger_al c (by rw [hc]; exact List.mem_cons_self)
      have hun := uniform_no_padding s.a.M c sz A hu.pow hu.ge hu.le c1 c4 hAc hu.dvd (by omega)
      rw [hun] at haf
      simp only [Option.some.injEq] at haf
      have hc' : (allocMaybe E f sz A s).1.a.chunks = { c with ptr := p } :: cs := by rw [← hs]
      exact tiled_alloc_same inv wf' ht hc hc' haf.symm (by omega) hu.dvd
  · have hmem' : ({ C with ptr := p } : Chunk) ∈ (allocMaybe E f sz A s).1.a.chunks := by rw [hc']; exact List.mem_cons_self
    have hwC' := wf'.chunks _ hmem'
    have hMeq : (allocMaybe E f sz A s).1.a.M = s.a.M := sp.m_eq
    have hfe : ({ C with ptr := p } : Chunk).footer = C.footer := rfl
    have hwC : ChunkWF s.a.M C := by
      rw [← hMeq]
      exact ⟨hwC'.size_ge, hwC'.data_pos, hwC'.data_al, hwC'.usable_al,
        (by rw [hpf]; have := hwC'.ptr_ge; have := hwC'.ptr_le; rw [hfe] at *; simp only at *; omega),
        (by rw [hpf]; exact Nat.le_refl _),
        (by rw [hpf]; have := Nat.dvd_trans wf'.m_dvd16 (footer_al hwC'); rw [hfe] at this; exact this), hwC'.hi⟩
    have haf := tryFast_allocFast htf
    have hcurC : ({ s.a with chunks := C :: s.a.chunks } : Arena).cur E = C := by simp [Arena.cur]
    rw [hcurC] at haf
    have hfl := footer_lt hwC
    have := FS
    obtain ⟨b1, b2, _, _⟩ := allocFast_ok s.a.M C sz A p inv.wf.mpow hu.pow hwC.ptr_ge
      (by have := hwC.hi; have := hwC.ptr_le; omega) hwC.ptr_al haf
    have hun := uniform_first_in_chunk sz A hwC hpf hu.pow hu.ge hu.le hu.dvd (by omega)
    rw [hun] at haf
    simp only [Option.some.injEq] at haf
    have hdis : ∀ h ∈ s.a.chunks, Disj C.data C.size h.data h.size := by
      have := wf'.disj; rw [hc'] at this
      exact (List.pairwise_cons.mp this).1
    exact tiled_alloc_fresh inv wf' ht hc' haf.symm (by omega) hdis hu.dvd hu.pow hu.le

end Bump

namespace Bump
open Gen

/-- `dealloc` of the last allocation, computed -/
theorem dealloc_last {E p sz r} {c : Chunk} {cs : List Chunk} (s : St) (hc : s.a.chunks = c :: cs) (hp : c.ptr = p)
    (hlt : p + sz < USIZE) (hr : roundUpTo (p + sz) s.a.M = some r) (hrm : r % s.a.M = 0) :
    dealloc E p sz s = ({ s with a := { s.a with chunks := { c with ptr := r } :: cs } }, .ok ()) := by
  unfold dealloc
  have hl : isLast E s.a p = true := by simp [isLast, Arena.cur, hc, hp]
  simp only [hl, ↓reduceIte]
  rw [if_neg (by omega), hr]
  simp only
  rw [if_neg (by omega)]
  simp [storePtr, setCurPtr, hc]

theorem dealloc_chunks_nil {E p sz} (s : St) (h : s.a.chunks = []) : (dealloc E p sz s).1.a.chunks = [] := by
  unfold dealloc
  split
  · split
    · exact h
    · split
      · exact h
      · split
        · exact h
        · simp only [storePtr, setCurPtr, h]
          split
          · exact h
          · rename_i a' heq
            split at heq
            · cases heq; exact h
            · cases heq
  · exact h

/-- reserve a uniform block and give it straight back (a failed slice fill): the arena is exactly
as before, or as before plus an empty fresh chunk; the tiling is unaffected -/
theorem tiled_alloc_dealloc {E A sz p} {s : St} {live : List Block} (hE : EnvOK E) (inv : LiveInv E ⟨s, live⟩)
    (ht : Tiled A s.a live) (hu : UniformReq s.a.M A sz) (hok : (allocLayout E sz A s).2 = .ok p) :
    Tiled A (dealloc E p sz (allocLayout E sz A s).1).1.a live := by
  have hU : USIZE = 2 ^ 64 := rfl
  have sp := allocLayout_spec (sz := sz) (al := A) s hE inv.wf hu.pow hu.lay
  obtain ⟨wf', _, hMp, _, _, _⟩ := sp.ok p hok
  have hvia := sp.via p hok
  have hMeq := sp.m_eq
  obtain ⟨c1, c2, c3, c4, _, _, _⟩ := cur_ok hE inv.wf
  have hMA : s.a.M ∣ A := inv.wf.mpow.dvd_of_le hu.pow hu.ge
  have hMsz : s.a.M ∣ sz := Nat.dvd_trans hMA hu.dvd
  have hmle : s.a.M ≤ 16 := inv.wf.mle
  have hmpos : 0 < s.a.M := inv.wf.m_pos
  rcases hvia with htf | ⟨C, hpf, hc', htf⟩
  · have haf := tryFast_allocFast htf
    have hs := tryFast_inv htf
    obtain ⟨b1, b2, _, _⟩ := allocFast_ok s.a.M (s.a.cur E) sz A p inv.wf.mpow hu.pow c1 c4 c3 haf
    unfold setCurPtr at hs
    cases hc : s.a.chunks with
    | nil =>
      rw [hc] at hs
      simp only at hs
      split at hs
      · simp only [Option.some.injEq] at hs
        have hnil : (allocLayout E sz A s).1.a.chunks = [] := by rw [← hs, hc]
        have hd := dealloc_chunks_nil (E := E) (p := p) (sz := sz) (allocLayout E sz A s).1 hnil
        exact ⟨fun c hcm => (by rw [hd] at hcm; cases hcm), fun c hcm => (by rw [hd] at hcm; cases hcm)⟩
      · cases hs
    | cons c cs =>
      rw [hc] at hs
      simp only [Option.some.injEq] at hs
      have hcur : s.a.cur E = c := by simp [Arena.cur, hc]
      rw [hcur] at haf b1 b2 c1 c4 c3
      have hAc := ht.finger_al c (by rw [hc]; exact List.mem_cons_self)
      have hun := uniform_no_padding s.a.M c sz A hu.pow hu.ge hu.le c1 c4 hAc hu.dvd (by omega)
      rw [hun] at haf
      simp only [Option.some.injEq] at haf
      have hc1 : (allocLayout E sz A s).1.a.chunks = { c with ptr := p } :: cs := by rw [← hs]
      have hps : p + sz = c.ptr := by omega
      have hru : roundUpTo (p + sz) (allocLayout E sz A s).1.a.M = some c.ptr := by
        rw [hMeq, hps]
        exact roundUpTo_of_dvd hmpos c3 (by omega)
      have := dealloc_last (E := E) (p := p) (sz := sz) (allocLayout E sz A s).1 hc1 rfl (by omega) hru
        (by rw [hMeq]; exact Nat.mod_eq_zero_of_dvd c3)
      rw [this]
      apply tiled_same_arena ht
      have hceq : ({ ({ c with ptr := p } : Chunk) with ptr := c.ptr } : Chunk) = c := by cases c; rfl
      show ({ ({ c with ptr := p } : Chunk) with ptr := c.ptr } : Chunk) :: cs = s.a.chunks
      rw [hceq, hc]
  · have hmem' : ({ C with ptr := p } : Chunk) ∈ (allocLayout E sz A s).1.a.chunks := by rw [hc']; exact List.mem_cons_self
    have hwC' := wf'.chunks _ hmem'
    have hfe : ({ C with ptr := p } : Chunk).footer = C.footer := rfl
    have hwC : ChunkWF s.a.M C := by
      rw [← hMeq]
      exact ⟨hwC'.size_ge, hwC'.data_pos, hwC'.data_al, hwC'.usable_al,
        (by rw [hpf]; have := hwC'.ptr_ge; have := hwC'.ptr_le; rw [hfe] at *; simp only at *; omega),
        (by rw [hpf]; exact Nat.le_refl _),
        (by rw [hpf]; have := Nat.dvd_trans wf'.m_dvd16 (footer_al hwC'); rw [hfe] at this; exact this), hwC'.hi⟩
    have haf := tryFast_allocFast htf
    have hcurC : ({ s.a with chunks := C :: s.a.chunks } : Arena).cur E = C := by simp [Arena.cur]
    rw [hcurC] at haf
    have hfl := footer_lt hwC
    have := FS
    obtain ⟨b1, b2, _, _⟩ := allocFast_ok s.a.M C sz A p inv.wf.mpow hu.pow hwC.ptr_ge
      (by have := hwC.hi; have := hwC.ptr_le; omega) hwC.ptr_al haf
    have hun := uniform_first_in_chunk sz A hwC hpf hu.pow hu.ge hu.le hu.dvd (by omega)
    rw [hun] at haf
    simp only [Option.some.injEq] at haf
    have hps : p + sz = C.footer := by omega
    have hMf : s.a.M ∣ C.footer := by rw [← hpf]; exact hwC.ptr_al
    have hru : roundUpTo (p + sz) (allocLayout E sz A s).1.a.M = some C.footer := by
      rw [hMeq, hps]
      exact roundUpTo_of_dvd hmpos hMf (by have := hwC.hi; omega)
    have hdl := dealloc_last (E := E) (p := p) (sz := sz) (allocLayout E sz A s).1 hc' rfl (by have := hwC.hi; omega) hru
      (by rw [hMeq]; exact Nat.mod_eq_zero_of_dvd hMf)
    rw [hdl]
    have hdis : ∀ h ∈ s.a.chunks, Disj C.data C.size h.data h.size := by
      have := wf'.disj; rw [hc'] at this
      exact (List.pairwise_cons.mp this).1
    have hCeq : ({ ({ C with ptr := p } : Chunk) with ptr := C.footer } : Chunk) = C := by
      cases C with
      | mk d sz' al pt ab =>
        simp only [Chunk.mk.injEq, true_and, and_true]
        exact hpf.symm
    have wf2 : ArenaWF E ({ (allocLayout E sz A s).1.a with chunks := C :: s.a.chunks } : Arena) := by
      have := setPtr_wf wf' hc' (p := C.footer) (by have := hwC.ptr_ge; rw [hpf] at this; exact this) (Nat.le_refl _)
        (by rw [hMeq]; exact hMf)
      rw [hCeq] at this
      exact this
    refine tiled_push_empty (s' := { (allocLayout E sz A s).1 with a := { (allocLayout E sz A s).1.a with chunks := C :: s.a.chunks } })
      inv wf2 ht rfl hpf hdis hu.pow hu.le |> fun h => ?_
    show Tiled A { (allocLayout E sz A s).1.a with chunks := { ({ C with ptr := p } : Chunk) with ptr := C.footer } :: s.a.chunks } live
    rw [hCeq]
    exact h

end Bump

namespace Bump
open Gen

/-- the operations of a uniform history (alignment `A` everywhere, sizes multiples of `A`):
allocations of every flavour, fallible initialisers that allocate nothing themselves, slice
fills and fallible slice fills, `reset`, limit changes -/
def UniformOp (M A : Nat) : Op → Prop
  | .alloc sz al _ => al = A ∧ UniformReq M A sz
  | .array esz eal _ _ => eal = A ∧ IsPow2 A ∧ M ≤ A ∧ A ≤ 16 ∧ A ∣ esz
  | .atw sz al _ inner _ => al = A ∧ UniformReq M A sz ∧ inner = []
  | .tfill esz eal _ _ => eal = A ∧ IsPow2 A ∧ M ≤ A ∧ A ≤ 16 ∧ A ∣ esz
  | .reset => True
  | .limit _ => True
  | _ => False

theorem tiled_reset {E A} (s : St) (h : ArenaWF E s.a) (hA : IsPow2 A) (hA16 : A ≤ 16) : Tiled A (reset s).1.a [] := by
  obtain ⟨_, _, hwf, _, _, _, h7⟩ := reset_spec s h
  rcases h7 with ⟨hn, he⟩ | ⟨c, rest, hc, hch, _⟩
  · rw [he]; exact ⟨fun c hcm => (by rw [hn] at hcm; cases hcm), fun c hcm => (by rw [hn] at hcm; cases hcm)⟩
  · refine ⟨?_, ?_⟩ <;> intro x hx <;> rw [hch] at hx <;> simp only [List.mem_singleton] at hx <;> subst hx
    · have hw := h.chunks c (by rw [hc]; exact List.mem_cons_self)
      exact A_dvd_footer hw hA hA16
    · show liveBytesIn _ [] = _
      simp [liveBytesIn, Chunk.footer]

/-- **One step of a uniform history keeps the tiling.** -/
theorem tiled_step {E A} (hE : EnvOK E) (hA : IsPow2 A) (hA16 : A ≤ 16) (y : Sys) (op : Op) (inv : LiveInv E y)
    (ht : Tiled A y.st.a y.live) (hu : UniformOp y.st.a.M A op) (hne : (sysStep E op y).2 ≠ .envBad) :
    Tiled A (sysStep E op y).1.st.a (sysStep E op y).1.live := by
  obtain ⟨s, live⟩ := y
  simp only [sysStep] at hne ⊢
  cases op with
  | alloc sz al f =>
    obtain ⟨rfl, hreq⟩ := hu
    obtain ⟨t1, t2⟩ := tiled_allocMaybe f hE inv ht hreq
    have sp := allocMaybe_spec f s hE inv.wf hreq.pow hreq.lay
    simp only [step] at hne ⊢
    cases ho : (allocMaybe E f sz al s).2 with
    | ok p => simpa [liveAfter, Res.ofOutcome] using t1 p ho
    | err => simpa [liveAfter, Res.ofOutcome] using t2 (Or.inl ho)
    | panic => simpa [liveAfter, Res.ofOutcome] using t2 (Or.inr ho)
    | bad w => exact absurd ho (sp.nobad w)
    | envBad => rw [ho] at hne; simp [Res.ofOutcome] at hne
  | array esz eal n f =>
    obtain ⟨rfl, hp, hge, hle, hd⟩ := hu
    simp only [step] at hne ⊢
    cases hla : arrayLayout esz eal n with
    | none => cases f <;> simpa [liveAfter] using ht
    | some total =>
      obtain ⟨htot, hlay⟩ := arrayLayout_some (by have := hle; omega) hla
      subst htot
      rw [hla] at hne
      simp only at hne ⊢
      have hreq : UniformReq s.a.M eal (esz * n) := ⟨hp, hge, hle, Nat.dvd_mul_right_of_dvd hd n, hlay⟩
      obtain ⟨t1, t2⟩ := tiled_allocMaybe f hE inv ht hreq
      have sp := allocMaybe_spec f s hE inv.wf hp hlay
      cases ho : (allocMaybe E f (esz * n) eal s).2 with
      | ok p => simpa [liveAfter, Res.ofOutcome] using t1 p ho
      | err => simpa [liveAfter, Res.ofOutcome] using t2 (Or.inl ho)
      | panic => simpa [liveAfter, Res.ofOutcome] using t2 (Or.inr ho)
      | bad w => exact absurd ho (sp.nobad w)
      | envBad => rw [ho] at hne; simp [Res.ofOutcome] at hne
  | tfill esz eal n errat =>
    obtain ⟨rfl, hp, hge, hle, hd⟩ := hu
    simp only [step, sliceTryFill] at hne ⊢
    cases hla : arrayLayout esz eal n with
    | none => simpa [liveAfter] using ht
    | some total =>
      obtain ⟨htot, hlay⟩ := arrayLayout_some (by have := hle; omega) hla
      subst htot
      rw [hla] at hne
      simp only at hne ⊢
      have hreq : UniformReq s.a.M eal (esz * n) := ⟨hp, hge, hle, Nat.dvd_mul_right_of_dvd hd n, hlay⟩
      obtain ⟨t1, t2⟩ := tiled_allocMaybe false hE inv ht hreq
      have hame : allocMaybe E false (esz * n) eal s = allocLayout E (esz * n) eal s := by simp [allocMaybe]
      rw [hame] at t1 t2
      have sp := allocLayout_spec (sz := esz * n) (al := eal) s hE inv.wf hp hlay
      cases hr : allocLayout E (esz * n) eal s with
      | mk s1 o1 =>
        have htd := tiled_alloc_dealloc (p := 0) hE inv ht hreq
        rw [hr] at t1 t2 sp hne
        simp only at t1 t2 sp hne
        cases o1 with
        | ok p =>
          simp only [bindO]
          cases errat with
          | none => simpa [Res.ofOutcome, liveAfter] using t1 p rfl
          | some i =>
            simp only
            by_cases hi : i < n
            · simp only [hi, ↓reduceIte]
              have htd := tiled_alloc_dealloc (p := p) hE inv ht hreq (by rw [hr])
              rw [hr] at htd
              simp only at htd
              cases hdd : dealloc E p (esz * n) s1 with
              | mk s2 o2 =>
                rw [hdd] at htd
                cases o2 <;> simpa [bindO, Res.ofOutcome, liveAfter, keptBlocks] using htd
            · simpa [hi, Res.ofOutcome, liveAfter] using t1 p rfl
        | err => simpa [bindO, Res.ofOutcome, liveAfter] using t2 (Or.inl rfl)
        | panic => simpa [bindO, Res.ofOutcome, liveAfter] using t2 (Or.inr rfl)
        | bad w => exact absurd rfl (sp.nobad w)
        | envBad => simp [bindO, Res.ofOutcome] at hne
  | atw sz al ok inner f =>
    obtain ⟨rfl, hreq, rfl⟩ := hu
    obtain ⟨t1, t2⟩ := tiled_allocMaybe f hE inv ht hreq
    have sp := allocMaybe_spec f s hE inv.wf hreq.pow hreq.lay
    simp only [step] at hne ⊢
    cases ho : (allocMaybe E f sz al s).2 with
    | ok slot =>
      cases ok with
      | true =>
        have : allocTryWith E sz al true [] f s = ((allocMaybe E f sz al s).1, .ptrIn slot []) := by
          unfold allocTryWith
          cases hm : allocMaybe E f sz al s with
          | mk s1 o1 =>
            rw [hm] at ho
            simp only at ho
            subst ho
            simp [bindO, runInner, Res.ofOutcome]
        rw [this]
        simpa [liveAfter, keptBlocks] using t1 slot ho
      | false =>
        obtain ⟨r1, r2, _, _, r5, _⟩ := atw_err_no_residue f s hE inv.wf hreq.pow hreq.lay slot ho
        rw [r1]
        simp only [liveAfter, keptBlocks, List.append_nil]
        rcases r5 with ha | ⟨C, hpf, ha⟩
        · exact tiled_same_arena ht (by rw [ha])
        · have hdis : ∀ h ∈ s.a.chunks, Disj C.data C.size h.data h.size := by
            have := r2.disj; rw [ha] at this
            exact (List.pairwise_cons.mp this).1
          exact tiled_push_empty inv r2 ht (by rw [ha]) hpf hdis hreq.pow hreq.le
    | err =>
      obtain ⟨e1, _, _⟩ := atw_not_ok_res (E := E) (sz := sz) (al := al) ok [] f s
      rw [e1 ho]
      simp only [liveAfter]
      rcases atw_not_ok (E := E) (sz := sz) (al := al) ok [] f s with he | ⟨p, hp⟩
      · rw [he]; exact t2 (Or.inl ho)
      · rw [ho] at hp; cases hp
    | panic =>
      obtain ⟨_, e2, _⟩ := atw_not_ok_res (E := E) (sz := sz) (al := al) ok [] f s
      rw [e2 ho]
      simp only [liveAfter]
      rcases atw_not_ok (E := E) (sz := sz) (al := al) ok [] f s with he | ⟨p, hp⟩
      · rw [he]; exact t2 (Or.inr ho)
      · rw [ho] at hp; cases hp
    | bad w => exact absurd ho (sp.nobad w)
    | envBad =>
      obtain ⟨_, _, e3⟩ := atw_not_ok_res (E := E) (sz := sz) (al := al) ok [] f s
      rw [e3 ho] at hne
      exact absurd rfl hne
  | reset =>
    simp only [step]
    obtain ⟨_, h2, _⟩ := reset_spec s inv.wf
    rw [h2]
    simp only [Res.ofOutcome, liveAfter]
    exact tiled_reset s inv.wf hA hA16
  | limit v =>
    simp only [step, liveAfter]
    exact tiled_same_arena ht rfl
  | aalloc sz al => exact hu.elim
  | afree p sz al => exact hu.elim
  | agrow p osz oal nsz nal z => exact hu.elim
  | ashrink p osz oal nsz nal => exact hu.elim

end Bump

namespace Bump
open Gen

theorem uniformOp_valid {M A : Nat} (y : Sys) (op : Op) (h : UniformOp M A op) : OpValidFull y op := by
  cases op with
  | alloc sz al f => obtain ⟨rfl, hr⟩ := h; exact ⟨hr.pow, hr.lay⟩
  | array esz eal n f => obtain ⟨rfl, hp, _, hle, _⟩ := h; exact ⟨hp, by omega⟩
  | atw sz al ok inner f =>
    obtain ⟨rfl, hr, rfl⟩ := h
    exact ⟨hr.pow, hr.lay, by intro i hi; cases hi⟩
  | tfill esz eal n errat => obtain ⟨rfl, hp, _, hle, _⟩ := h; exact ⟨hp, by omega⟩
  | reset => trivial
  | limit v => trivial
  | aalloc sz al => exact h.elim
  | afree p sz al => exact h.elim
  | agrow p osz oal nsz nal z => exact h.elim
  | ashrink p osz oal nsz nal => exact h.elim

/-- a uniform history: every operation is uniform for the arena's `MIN_ALIGN` and the allocator
keeps its contract -/
def UniformRun (E A : Nat) : List Op → Sys → Prop
  | [], _ => True
  | op :: ops, y => UniformOp y.st.a.M A op ∧ (sysStep E op y).2 ≠ .envBad ∧ UniformRun E A ops (sysStep E op y).1

/-- **Uniform histories tile.** -/
theorem tiled_history {E A} (hE : EnvOK E) (hA : IsPow2 A) (hA16 : A ≤ 16) : ∀ (ops : List Op) (y : Sys),
    LiveInv E y → Tiled A y.st.a y.live → UniformRun E A ops y →
    LiveInv E (sysRun E ops y).1 ∧ Tiled A (sysRun E ops y).1.st.a (sysRun E ops y).1.live := by
  intro ops
  induction ops with
  | nil => intro y inv ht _; exact ⟨inv, ht⟩
  | cons op ops ih =>
    intro y inv ht hrun
    obtain ⟨hu, hne, hrest⟩ := hrun
    have inv' := (sysStep_live_full hE y op inv (uniformOp_valid y op hu)).2 hne
    have ht' := tiled_step hE hA hA16 y op inv ht hu hne
    exact ih (sysStep E op y).1 inv' ht' hrest

theorem tiled_init {A : Nat} (a : Arena) (h : ∀ c ∈ a.chunks, c.ptr = c.footer) (hal : ∀ c ∈ a.chunks, A ∣ c.ptr) : Tiled A a [] :=
  ⟨hal, fun c hc => by rw [liveBytesIn_nil, h c hc]; omega⟩

end Bump
