import BumpVerif.Proofs.Realloc
/-! Byte-level meaning of the memory effects the model records (`ptr::copy` = memmove,
`copy_nonoverlapping`, zero fill) and what `grow`/`shrink` therefore do to block contents. -/
namespace Bump

abbrev Mem := Nat → UInt8

def applyEff (m : Mem) : MemEff → Mem
  | .copy src dst n => fun a => if dst ≤ a ∧ a < dst + n then m (src + (a - dst)) else m a
  | .copyNonoverlapping src dst n => fun a => if dst ≤ a ∧ a < dst + n then m (src + (a - dst)) else m a
  | .zero dst n => fun a => if dst ≤ a ∧ a < dst + n then 0 else m a

def applyEffs (m : Mem) (es : List MemEff) : Mem := es.foldl applyEff m

theorem applyEffs_append (m : Mem) (a b : List MemEff) : applyEffs m (a ++ b) = applyEffs (applyEffs m a) b := by
  simp [applyEffs, List.foldl_append]

/-- a copy makes the destination prefix equal to the source as it was, and touches nothing else -/
theorem copy_spec (m : Mem) (src dst n : Nat) :
    (∀ i, i < n → applyEff m (.copy src dst n) (dst + i) = m (src + i)) ∧
    (∀ a, ¬ (dst ≤ a ∧ a < dst + n) → applyEff m (.copy src dst n) a = m a) := by
  constructor
  · intro i hi
    simp only [applyEff]
    rw [if_pos ⟨by omega, by omega⟩]; congr 1; omega
  · intro a ha; simp only [applyEff]; rw [if_neg ha]

theorem copyNonoverlapping_spec (m : Mem) (src dst n : Nat) :
    (∀ i, i < n → applyEff m (.copyNonoverlapping src dst n) (dst + i) = m (src + i)) ∧
    (∀ a, ¬ (dst ≤ a ∧ a < dst + n) → applyEff m (.copyNonoverlapping src dst n) a = m a) := by
  constructor
  · intro i hi
    simp only [applyEff]
    rw [if_pos ⟨by omega, by omega⟩]; congr 1; omega
  · intro a ha; simp only [applyEff]; rw [if_neg ha]

/-- Contents clause of `grow`/`shrink` (C02, C12): after a successful call the first
`min(old,new)` bytes of the new block equal the old block's, and every byte outside the new
block `[q, q+nsz)` is unchanged — in particular every other live block, which is disjoint from it. -/
theorem realloc_contents {E s s' p osz nsz nal q} (m : Mem) (post : ReallocPost E s s' p osz nsz nal (.ok q)) :
    let m0 := applyEffs m s.mem
    let m1 := applyEffs m s'.mem
    (∀ i, i < min osz nsz → m1 (q + i) = m0 (p + i)) ∧
    (∀ a, ¬ (q ≤ a ∧ a < q + nsz) → m1 a = m0 a) := by
  intro m0 m1
  obtain ⟨_, _, _, _, _, _, hm⟩ := post.ok q rfl
  have hle : min osz nsz ≤ nsz := Nat.min_le_right _ _
  rcases hm with ⟨hq, hmem⟩ | ⟨hmem, _⟩ | hmem
  · subst hq
    have : m1 = m0 := by show applyEffs m s'.mem = applyEffs m s.mem; rw [hmem]
    rw [this]; exact ⟨fun _ _ => rfl, fun _ _ => rfl⟩
  · have : m1 = applyEff m0 (.copyNonoverlapping p q (min osz nsz)) := by
      show applyEffs m s'.mem = _; rw [hmem, applyEffs_append]; rfl
    rw [this]
    obtain ⟨c1, c2⟩ := copyNonoverlapping_spec m0 p q (min osz nsz)
    exact ⟨c1, fun a ha => c2 a (by omega)⟩
  · have : m1 = applyEff m0 (.copy p q (min osz nsz)) := by
      show applyEffs m s'.mem = _; rw [hmem, applyEffs_append]; rfl
    rw [this]
    obtain ⟨c1, c2⟩ := copy_spec m0 p q (min osz nsz)
    exact ⟨c1, fun a ha => c2 a (by omega)⟩

end Bump
