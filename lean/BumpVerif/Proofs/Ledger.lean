import BumpVerif.Proofs.Live
/-! The allocator ledger: computed from the event log alone; always equal to the chunk list. -/
namespace Bump
open Gen

abbrev Blk := Nat × Nat × Nat

def applyEv (held : List Blk) : Ev → List Blk
  | .malloc sz al (some a) => (a, sz, al) :: held
  | .malloc _ _ none => held
  | .free a sz al => held.erase (a, sz, al)

def ledger (init : List Blk) (evs : List Ev) : List Blk := evs.foldl applyEv init

def key (c : Chunk) : Blk := (c.data, c.size, c.align)

/-- the allocator's view agrees with the arena's: it holds exactly the arena's chunks -/
def Ledger (s : St) : Prop := ledger [] s.evs = s.a.chunks.map key

theorem ledger_append (init : List Blk) (a b : List Ev) : ledger init (a ++ b) = ledger (ledger init a) b := by
  simp [ledger, List.foldl_append]

theorem ledger_refused (init : List Blk) (refs : List Ev) (h : AllRefused refs) : ledger init refs = init := by
  induction refs generalizing init with
  | nil => rfl
  | cons e es ih =>
    obtain ⟨sz, al, he⟩ := h e List.mem_cons_self
    subst he
    simp only [ledger, List.foldl_cons, applyEv]
    exact ih init (fun x hx => h x (List.mem_cons_of_mem _ hx))


/-- one operation's effect on (event log, chunk keys): only refused requests, plus at most … any
number of successful chunk acquisitions, each pushing its key -/
inductive LedgerStep : St → St → Prop
  | refl (s : St) : LedgerStep s s
  | refused {s s' : St} (refs : List Ev) (hr : AllRefused refs) (he : s'.evs = s.evs ++ refs)
      (hk : s'.a.chunks.map key = s.a.chunks.map key) : LedgerStep s s'
  | acquired {s s' : St} (refs : List Ev) (c : Chunk) (hr : AllRefused refs)
      (he : s'.evs = s.evs ++ refs ++ [.malloc c.size c.align (some c.data)])
      (hk : s'.a.chunks.map key = key c :: s.a.chunks.map key) : LedgerStep s s'
  | trans {s s' s'' : St} (h1 : LedgerStep s s') (h2 : LedgerStep s' s'') : LedgerStep s s''

theorem LedgerStep.preserves {s s' : St} (h : LedgerStep s s') (hl : Ledger s) : Ledger s' := by
  induction h with
  | refl => exact hl
  | refused refs hr he hk =>
    unfold Ledger at *
    rw [he, ledger_append, hl, ledger_refused _ _ hr, hk]
  | acquired refs c hr he hk =>
    unfold Ledger at *
    rw [he, ledger_append, ledger_append, hl, ledger_refused _ _ hr, hk]
    simp [Bump.ledger, applyEv, key]
  | trans _ _ ih1 ih2 => exact ih2 (ih1 hl)

/-- same arena, same events -/
theorem LedgerStep.of_eq {s s' : St} (ha : s'.a.chunks.map key = s.a.chunks.map key) (he : s'.evs = s.evs) :
    LedgerStep s s' := .refused [] AllRefused.nil (by simp [he]) ha

theorem setCurPtr_keys {E a p a'} (h : setCurPtr E a p = some a') : a'.chunks.map key = a.chunks.map key := by
  unfold setCurPtr at h
  cases hc : a.chunks with
  | nil => rw [hc] at h; simp only at h; split at h <;> cases h; rw [hc]
  | cons c cs => rw [hc] at h; cases h; simp [key]

theorem storePtr_ledger (E : Nat) (s : St) (p : Nat) (why : String) : LedgerStep s (storePtr E s p why).1 := by
  unfold storePtr
  cases h : setCurPtr E s.a p with
  | none => exact .refl s
  | some a' => exact .of_eq (setCurPtr_keys h) rfl

theorem tryFast_keys {E a sz al a' p} (h : tryFast E a sz al = .ok (some (a', p))) : a'.chunks.map key = a.chunks.map key :=
  setCurPtr_keys (tryFast_inv h)

/-- every allocation entry point: only refused requests and at most one acquired chunk -/
theorem allocPost_ledger {E sz al} {s s' : St} {o : Outcome Nat} (sp : AllocPost E s s' sz al o) (hne : o ≠ .envBad) :
    LedgerStep s s' := by
  cases o with
  | ok p =>
    obtain ⟨_, _, _, _, hsh, refs, hr, hcase⟩ := sp.ok p rfl
    rcases hcase with ⟨hev, hlen⟩ | ⟨c, hc, hev, _⟩
    · refine .refused refs hr hev ?_
      rcases hsh with ⟨_, ha, _, _⟩ | ⟨c0, cs, h0, h0', _, _⟩ | ⟨c1, hc1, _⟩
      · rw [ha]
      · rw [h0, h0']; simp [key]
      · rw [hc1] at hlen; simp at hlen
    · exact .acquired refs c hr hev (by rw [hc]; simp)
  | err =>
    obtain ⟨ha, refs, hr, hev⟩ := sp.fail (Or.inl rfl)
    exact .refused refs hr hev (by rw [ha])
  | panic =>
    obtain ⟨ha, refs, hr, hev⟩ := sp.fail (Or.inr rfl)
    exact .refused refs hr hev (by rw [ha])
  | bad w => exact absurd rfl (sp.nobad w)
  | envBad => exact absurd rfl hne

theorem dealloc_ledger {E p sz} (s : St) : LedgerStep s (dealloc E p sz s).1 := by
  unfold dealloc
  split
  · split
    · exact .refl s
    · split
      · exact .refl s
      · split
        · exact .refl s
        · exact storePtr_ledger E s _ _
  · exact .refl s

end Bump

namespace Bump
open Gen

theorem copyNonoverlapping_ledger (p q n : Nat) (why : String) (s : St) : LedgerStep s (copyNonoverlapping p q n why s).1 := by
  unfold copyNonoverlapping
  split
  · exact .refl s
  · exact .of_eq rfl rfl

/-- `try_alloc_layout` at a well-formed state -/
theorem tryAlloc_ledger {E sz al} (s : St) (hE : EnvOK E) (h : ArenaWF E s.a) (hA : IsPow2 al) (hlay : sz + al ≤ 2 ^ 63)
    (hne : (tryAllocLayout E sz al s).2 ≠ .envBad) : LedgerStep s (tryAllocLayout E sz al s).1 :=
  allocPost_ledger (tryAllocLayout_spec s hE h hA hlay).1 hne

theorem bindO_envBad {α β} (x : St × Outcome α) (f : St → α → St × Outcome β) (hx : x.2 = .envBad) :
    (bindO x f).2 = .envBad := by
  obtain ⟨s, o⟩ := x
  simp only at hx; subst hx; rfl

theorem shrink_ledger {E p osz oal nsz nal} (s : St) (hE : EnvOK E) (h : ArenaWF E s.a) (hN : IsPow2 nal)
    (hlay : nsz + nal ≤ 2 ^ 63) (hne : (shrink E p osz oal nsz nal s).2 ≠ .envBad) :
    LedgerStep s (shrink E p osz oal nsz nal s).1 := by
  unfold shrink at hne ⊢
  by_cases hlt : oal < nal
  · simp only [hlt, ↓reduceIte] at hne ⊢
    by_cases hal : p % nal = 0
    · simp only [hal, ↓reduceIte]; exact .refl s
    · simp only [hal, ↓reduceIte] at hne ⊢
      have hne1 : (tryAllocLayout E nsz nal s).2 ≠ .envBad := fun hh => hne (bindO_envBad _ _ hh)
      have l1 := tryAlloc_ledger s hE h hN hlay hne1
      cases hr : tryAllocLayout E nsz nal s with
      | mk s1 o1 =>
        rw [hr] at l1
        cases o1 <;> simp only [bindO] <;> first | exact l1 | exact .trans l1 (copyNonoverlapping_ledger _ _ _ _ _)
  · simp only [hlt, ↓reduceIte]
    by_cases h1 : p % nal ≠ 0
    · rw [if_pos h1]; exact .refl s
    · rw [if_neg h1]
      by_cases h2 : osz < nsz
      · simp only [h2, ↓reduceIte]; exact .refl s
      · simp only [h2, ↓reduceIte]
        by_cases hcond : (isLast E s.a p && decide (roundDownTo (osz - nsz) (max nal s.a.M) ≥ (osz + 1) / 2)) = true
        · simp only [hcond, ↓reduceIte]
          by_cases h3 : ((s.a.cur E).ptr + roundDownTo (osz - nsz) (max nal s.a.M)) % s.a.M ≠ 0
          · rw [if_pos h3]; exact .refl s
          · rw [if_neg h3]
            have l1 := storePtr_ledger E s ((s.a.cur E).ptr + roundDownTo (osz - nsz) (max nal s.a.M)) "shrink: finger of the static empty chunk moved"
            cases hr : storePtr E s ((s.a.cur E).ptr + roundDownTo (osz - nsz) (max nal s.a.M)) "shrink: finger of the static empty chunk moved" with
            | mk s1 o1 =>
              rw [hr] at l1
              cases o1 <;> simp only [bindO] <;> first | exact l1 | exact .trans l1 (copyNonoverlapping_ledger _ _ _ _ _)
        · simp only [hcond, Bool.false_eq_true, ↓reduceIte]; exact .refl s

theorem growFallback_ledger {E p osz nsz nal} (s : St) (hE : EnvOK E) (h : ArenaWF E s.a) (hN : IsPow2 nal)
    (hlay : nsz + nal ≤ 2 ^ 63) (hne : (growFallback E p osz nsz nal s).2 ≠ .envBad) :
    LedgerStep s (growFallback E p osz nsz nal s).1 := by
  unfold growFallback at hne ⊢
  have hne1 : (tryAllocLayout E nsz nal s).2 ≠ .envBad := fun hh => hne (bindO_envBad _ _ hh)
  have l1 := tryAlloc_ledger s hE h hN hlay hne1
  cases hr : tryAllocLayout E nsz nal s with
  | mk s1 o1 =>
    rw [hr] at l1
    cases o1 <;> simp only [bindO] <;> first | exact l1 | exact .trans l1 (copyNonoverlapping_ledger _ _ _ _ _)

theorem grow_ledger {E p osz oal nsz nal} (s : St) (hE : EnvOK E) (h : ArenaWF E s.a) (hN : IsPow2 nal)
    (hlay : nsz + nal ≤ 2 ^ 63) (hne : (grow E p osz oal nsz nal s).2 ≠ .envBad) :
    LedgerStep s (grow E p osz oal nsz nal s).1 := by
  unfold grow at hne ⊢
  cases hru : roundUpTo nsz s.a.M with
  | none => exact .refl s
  | some ns =>
    rw [hru] at hne
    simp only at hne ⊢
    by_cases hcond : (decide (oal ≥ nal) && isLast E s.a p) = true
    · simp only [hcond, ↓reduceIte] at hne ⊢
      by_cases h1 : ns < osz
      · simp only [h1, ↓reduceIte]; exact .refl s
      · simp only [h1, ↓reduceIte] at hne ⊢
        by_cases hv : validLayout (ns - osz) oal = true
        · simp only [hv, Bool.not_true, Bool.false_eq_true, ↓reduceIte, pureO] at hne ⊢
          cases htf : tryFast E s.a (ns - osz) oal with
          | ok r =>
            rw [htf] at hne
            cases r with
            | none =>
              simp only [bindO] at hne ⊢
              exact growFallback_ledger s hE h hN hlay hne
            | some ap =>
              obtain ⟨a', q⟩ := ap
              simp only [bindO]
              exact .of_eq (tryFast_keys htf) rfl
          | err => simp only [bindO]; exact .refl s
          | panic => simp only [bindO]; exact .refl s
          | bad w => simp only [bindO]; exact .refl s
          | envBad => simp only [bindO]; exact .refl s
        · simp only [hv, Bool.not_false, ↓reduceIte]; exact .refl s
    · simp only [hcond, Bool.false_eq_true, ↓reduceIte] at hne ⊢
      exact growFallback_ledger s hE h hN hlay hne

end Bump

namespace Bump
open Gen

theorem erase_all_tail (k : Blk) (ks : List Blk) (hk : k ∉ ks) :
    ledger (k :: ks) (ks.map fun b => Ev.free b.1 b.2.1 b.2.2) = [k] := by
  induction ks with
  | nil => rfl
  | cons x xs ih =>
    have hx : k ≠ x := fun h => hk (h ▸ List.mem_cons_self)
    have hk' : k ∉ xs := fun h => hk (List.mem_cons_of_mem _ h)
    simp only [List.map_cons, ledger, List.foldl_cons, applyEv]
    have : (k :: x :: xs).erase (x.1, x.2.1, x.2.2) = k :: xs := by
      have hne : ((k : Blk) == (x.1, x.2.1, x.2.2)) = false := by
        simp only [beq_eq_false_iff_ne, ne_eq]; exact hx
      rw [List.erase_cons_tail (by simpa using hne)]
      simp
    rw [this]
    exact ih hk'

theorem erase_all (ks : List Blk) : ledger ks (ks.map fun b => Ev.free b.1 b.2.1 b.2.2) = [] := by
  induction ks with
  | nil => rfl
  | cons x xs ih =>
    simp only [List.map_cons, ledger, List.foldl_cons, applyEv]
    have : (x :: xs).erase (x.1, x.2.1, x.2.2) = xs := by simp
    rw [this]; exact ih

theorem freeEv_map (cs : List Chunk) :
    cs.map freeEv = (cs.map key).map fun b => Ev.free b.1 b.2.1 b.2.2 := by
  simp [freeEv, key, List.map_map, Function.comp_def]

/-- `reset` gives back exactly the chunks other than the newest one, each once, each with the
layout it was requested with; afterwards the allocator still holds exactly the kept chunk. -/
theorem reset_ledger {E} (s : St) (h : ArenaWF E s.a) (hl : Ledger s) : Ledger (reset s).1 := by
  obtain ⟨_, _, _, _, _, _, h7⟩ := reset_spec s h
  unfold Ledger at *
  rcases h7 with ⟨_, he⟩ | ⟨c, rest, hc, hch, hev⟩
  · rw [he]; exact hl
  · rw [hev, ledger_append, hl, hc, hch, freeEv_map]
    simp only [List.map_cons, List.map_nil]
    have hk : key c ∉ rest.map key := by
      intro hmem
      obtain ⟨d, hd, hkd⟩ := List.mem_map.mp hmem
      have hdis := h.disj; rw [hc] at hdis
      have hcd := (List.pairwise_cons.mp hdis).1 d hd
      have hw := h.chunks c (by rw [hc]; exact List.mem_cons_self)
      have hs := hw.size_ge
      simp only [key, Prod.mk.injEq] at hkd
      unfold Disj at hcd
      have := FS
      omega
    exact erase_all_tail (key c) (rest.map key) hk

/-- dropping the arena gives back every chunk exactly once; afterwards it holds no memory -/
theorem drop_ledger (s : St) (hl : Ledger s) : ledger [] (dropArena s).evs = [] ∧ (dropArena s).a.chunks = [] := by
  unfold Ledger at hl
  unfold dropArena
  simp only
  rw [ledger_append, hl, freeEv_map]
  exact ⟨erase_all _, trivial⟩


theorem runInner_ledger {E} (hE : EnvOK E) : ∀ (inner : List Inner) (s : St) (live : List Block) (acc : List Nat),
    LiveInv E ⟨s, live⟩ → (∀ i ∈ inner, InnerValid i) → (runInner E inner s acc).2 ≠ .envBad →
    LedgerStep s (runInner E inner s acc).1 := by
  intro inner
  induction inner with
  | nil => intro s live acc _ _ _; simp only [runInner]; exact .refl s
  | cons i rest ih =>
    intro s live acc inv hval hne
    have hvi := hval i List.mem_cons_self
    have hvr : ∀ j ∈ rest, InnerValid j := fun j hj => hval j (List.mem_cons_of_mem _ hj)
    cases i with
    | keep sz al =>
      obtain ⟨hA, hlay⟩ := hvi
      obtain ⟨sp, hnp⟩ := tryAllocLayout_spec (sz := sz) (al := al) s hE inv.wf hA hlay
      simp only [runInner, tryAllocOr0] at hne ⊢
      cases hr : tryAllocLayout E sz al s with
      | mk s1 o1 =>
        rw [hr] at sp hnp hne
        simp only at sp hnp hne
        cases o1 with
        | ok p =>
          simp only [bindO] at hne ⊢
          have inv1 := allocPost_live hE inv sp rfl
          exact .trans (allocPost_ledger sp (by simp)) (ih s1 _ _ inv1 hvr hne)
        | err =>
          simp only [bindO] at hne ⊢
          have inv1 : LiveInv E ⟨s1, live⟩ := allocPost_fail_live inv sp (Or.inl rfl)
          exact .trans (allocPost_ledger sp (by simp)) (ih s1 _ _ inv1 hvr hne)
        | panic => exact absurd rfl hnp
        | bad w => exact absurd rfl (sp.nobad w)
        | envBad => simp [bindO] at hne
    | release sz al =>
      obtain ⟨hA, hlay⟩ := hvi
      obtain ⟨sp, hnp⟩ := tryAllocLayout_spec (sz := sz) (al := al) s hE inv.wf hA hlay
      simp only [runInner, tryAllocOr0] at hne ⊢
      cases hr : tryAllocLayout E sz al s with
      | mk s1 o1 =>
        rw [hr] at sp hnp hne
        simp only at sp hnp hne
        cases o1 with
        | ok p =>
          simp only [bindO] at hne ⊢
          obtain ⟨_, _, _, hpos, _, _⟩ := sp.ok p rfl
          have hp0 : p ≠ 0 := by omega
          simp only [hp0, ↓reduceIte] at hne ⊢
          obtain ⟨hd1, inv2⟩ := alloc_dealloc_live hE inv hA sp rfl
          have ld := dealloc_ledger (E := E) (p := p) (sz := sz) s1
          cases hdd : dealloc E p sz s1 with
          | mk s2 o2 =>
            rw [hdd] at hd1 inv2 ld hne
            simp only at hd1 inv2 hne
            subst hd1
            simp only [bindO] at hne ⊢
            exact .trans (allocPost_ledger sp (by simp)) (.trans ld (ih s2 _ _ inv2 hvr hne))
        | err =>
          simp only [bindO, ↓reduceIte] at hne ⊢
          have inv1 : LiveInv E ⟨s1, live⟩ := allocPost_fail_live inv sp (Or.inl rfl)
          exact .trans (allocPost_ledger sp (by simp)) (ih s1 _ _ inv1 hvr hne)
        | panic => exact absurd rfl hnp
        | bad w => exact absurd rfl (sp.nobad w)
        | envBad => simp [bindO] at hne

theorem rewind_ledger (E : Nat) (rf : Option Nat) (rp slot : Nat) (s : St) : LedgerStep s (rewind E rf rp slot s).1 := by
  unfold rewind
  split
  · exact storePtr_ledger E s _ _
  · exact .refl s

/-- **Every operation** keeps the ledger in step with the chunk list. -/
theorem sysStep_ledger {E} (hE : EnvOK E) (y : Sys) (op : Op) (inv : LiveInv E y) (hv : OpValidFull y op)
    (hl : Ledger y.st) (hne : (sysStep E op y).2 ≠ .envBad) : Ledger (sysStep E op y).1.st := by
  obtain ⟨s, live⟩ := y
  simp only [sysStep] at hne ⊢
  cases op with
  | alloc sz al f =>
    obtain ⟨hA, hlay⟩ := hv
    have sp := allocMaybe_spec f s hE inv.wf hA hlay
    simp only [step] at hne ⊢
    exact (allocPost_ledger sp (by intro hh; rw [hh] at hne; simp [Res.ofOutcome] at hne)).preserves hl
  | array esz eal n f =>
    obtain ⟨hA, heal⟩ := hv
    simp only [step] at hne ⊢
    cases hla : arrayLayout esz eal n with
    | none => simpa using hl
    | some total =>
      obtain ⟨ht, hlay⟩ := arrayLayout_some heal hla
      subst ht
      rw [hla] at hne
      simp only at hne ⊢
      have sp := allocMaybe_spec f s hE inv.wf hA hlay
      exact (allocPost_ledger sp (by intro hh; rw [hh] at hne; simp [Res.ofOutcome] at hne)).preserves hl
  | aalloc sz al =>
    obtain ⟨hA, hlay⟩ := hv
    simp only [step] at hne ⊢
    exact (tryAlloc_ledger s hE inv.wf hA hlay (by intro hh; rw [hh] at hne; simp [Res.ofOutcome] at hne)).preserves hl
  | afree p sz al =>
    simp only [step]
    exact (dealloc_ledger s).preserves hl
  | agrow p osz oal nsz nal z =>
    obtain ⟨_, _, _, hN, _, hlay⟩ := hv
    simp only [step] at hne ⊢
    have hne1 : (grow E p osz oal nsz nal s).2 ≠ .envBad := by
      intro hh; rw [bindO_envBad _ _ hh] at hne; simp [Res.ofOutcome] at hne
    have lg := grow_ledger (p := p) (osz := osz) (oal := oal) s hE inv.wf hN hlay hne1
    cases hg : grow E p osz oal nsz nal s with
    | mk s1 o1 =>
      rw [hg] at lg
      cases o1 <;> simp only [bindO] <;> try exact lg.preserves hl
      cases z
      · simp only [Bool.false_eq_true, ↓reduceIte]; exact lg.preserves hl
      · simp only [↓reduceIte]
        have := lg.preserves hl
        unfold Ledger at this ⊢
        exact this
  | ashrink p osz oal nsz nal =>
    obtain ⟨_, _, _, hN, _, hlay⟩ := hv
    simp only [step] at hne ⊢
    exact (shrink_ledger (p := p) (osz := osz) (oal := oal) s hE inv.wf hN hlay
      (by intro hh; rw [hh] at hne; simp [Res.ofOutcome] at hne)).preserves hl
  | reset =>
    simp only [step]
    exact reset_ledger s inv.wf hl
  | limit v =>
    simp only [step]
    unfold Ledger at hl ⊢
    exact hl
  | tfill esz eal n errat =>
    obtain ⟨hA, heal⟩ := hv
    simp only [step, sliceTryFill] at hne ⊢
    cases hla : arrayLayout esz eal n with
    | none => simpa using hl
    | some total =>
      obtain ⟨ht, hlay⟩ := arrayLayout_some heal hla
      subst ht
      rw [hla] at hne
      simp only at hne ⊢
      have sp := allocLayout_spec (sz := esz * n) (al := eal) s hE inv.wf hA hlay
      have hne1 : (allocLayout E (esz * n) eal s).2 ≠ .envBad := by
        intro hh; rw [bindO_envBad _ _ hh] at hne; simp [Res.ofOutcome] at hne
      have la := allocPost_ledger sp hne1
      cases hr : allocLayout E (esz * n) eal s with
      | mk s1 o1 =>
        rw [hr] at la
        simp only at la
        cases o1 with
        | ok p =>
          simp only [bindO]
          cases errat with
          | none => exact la.preserves hl
          | some i =>
            simp only
            by_cases hi : i < n
            · simp only [hi, ↓reduceIte]
              have ld := dealloc_ledger (E := E) (p := p) (sz := esz * n) s1
              cases hdd : dealloc E p (esz * n) s1 with
              | mk s2 o2 =>
                rw [hdd] at ld
                cases o2 <;> simp only [bindO] <;> exact (LedgerStep.trans la ld).preserves hl
            · simp only [hi, ↓reduceIte]; exact la.preserves hl
        | err => simp only [bindO]; exact la.preserves hl
        | panic => simp only [bindO]; exact la.preserves hl
        | bad w => simp only [bindO]; exact la.preserves hl
        | envBad => simp only [bindO]; exact la.preserves hl
  | atw sz al ok inner f =>
    obtain ⟨hA, hlay, hin⟩ := hv
    have sp := allocMaybe_spec f s hE inv.wf hA hlay
    simp only [step, allocTryWith] at hne ⊢
    have hne1 : (allocMaybe E f sz al s).2 ≠ .envBad := by
      intro hh; rw [bindO_envBad _ _ hh] at hne; simp [Res.ofOutcome] at hne
    have la := allocPost_ledger sp hne1
    cases hm : allocMaybe E f sz al s with
    | mk s1 o1 =>
      rw [hm] at la sp hne
      simp only at la sp hne
      cases o1 with
      | ok slot =>
        have inv1 := allocPost_live hE inv sp rfl
        cases hri : runInner E inner s1 [] with
        | mk s2 o2 =>
          have hne2 : o2 ≠ .envBad := by
            intro hh; subst hh
            simp only [bindO, hri, Res.ofOutcome] at hne
            exact hne rfl
          have lr := runInner_ledger hE inner s1 _ [] inv1 hin
            (by rw [hri]; exact hne2)
          rw [hri] at lr
          simp only at lr
          simp only [bindO, hri]
          cases o2 with
          | ok ps =>
            simp only
            cases ok
            · simp only [Bool.false_eq_true, ↓reduceIte]
              have lw := rewind_ledger E (footerId s.a) (s.a.cur E).ptr slot s2
              cases hrw : rewind E (footerId s.a) (s.a.cur E).ptr slot s2 with
              | mk s3 o3 =>
                rw [hrw] at lw
                cases o3 <;> simp only <;> exact (LedgerStep.trans la (LedgerStep.trans lr lw)).preserves hl
            · simp only [↓reduceIte]; exact (LedgerStep.trans la lr).preserves hl
          | err => simp only; exact (LedgerStep.trans la lr).preserves hl
          | panic => simp only; exact (LedgerStep.trans la lr).preserves hl
          | bad w => simp only; exact (LedgerStep.trans la lr).preserves hl
          | envBad => simp only; exact (LedgerStep.trans la lr).preserves hl
      | err => simp only [bindO]; exact la.preserves hl
      | panic => simp only [bindO]; exact la.preserves hl
      | bad w => simp only [bindO]; exact la.preserves hl
      | envBad => simp only [bindO]; exact la.preserves hl

end Bump
