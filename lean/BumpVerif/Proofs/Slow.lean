import BumpVerif.Proofs.Inv
/-! Chunk sizing (`new_chunk_memory_details`), chunk creation (`new_chunk`) and the slow path. -/
namespace Bump
open Gen

theorem CA : CHUNK_ALIGN = 16 := rfl
theorem OV : OVERHEAD = 64 := rfl
theorem PG : TYPICAL_PAGE_SIZE = 4096 := rfl
theorem DF : DEFAULT_CHUNK_SIZE_WITHOUT_FOOTER = 448 := rfl

/-- the alignment requested for a new chunk -/
def chunkAlign (M al : Nat) : Nat := max (max CHUNK_ALIGN M) al

theorem chunkAlign_pow2 {M al} (hM : IsPow2 M) (hA : IsPow2 al) : IsPow2 (chunkAlign M al) :=
  (IsPow2.max (IsPow2.max isPow2_16 hM) hA)

theorem chunkAlign_ge16 (M al : Nat) : 16 ≤ chunkAlign M al := by
  unfold chunkAlign; rw [CA]; omega

theorem chunkAlign_le {M al} (hM : M ≤ 16) : chunkAlign M al ≤ max 16 al := by
  unfold chunkAlign; rw [CA]; omega

structure DetailsOK (M sz al n0 : Nat) (d : Details) : Prop where
  align_eq : d.align = chunkAlign M al
  align_16 : 16 ∣ d.align
  align_al : al ∣ d.align
  nswf_al : 16 ∣ d.nswf
  size_eq : d.size = d.nswf + FOOTER_SIZE
  fits : ∃ rs, roundUpTo sz d.align = some rs ∧ rs ≤ d.nswf
  ge_req : n0 ≤ d.nswf
  lt : d.size < USIZE

theorem pow2_ge_dvd {k a : Nat} (h : 2 ^ k ≤ a) (ha : IsPow2 a) : 2 ^ k ∣ a :=
  IsPow2.dvd_of_le (⟨k, rfl⟩ : IsPow2 (2 ^ k)) ha h

/-- `new_chunk_memory_details` never panics or trips an assertion for a valid layout; its
result is 16-aligned, at least the requested size and large enough for the request. -/
theorem details_spec {M sz al : Nat} (req : Option Nat) (hM : IsPow2 M) (hMle : M ≤ 16) (hA : IsPow2 al)
    (hlay : sz + al ≤ 2 ^ 63) (hreq : req.getD DEFAULT_CHUNK_SIZE_WITHOUT_FOOTER ≤ 2 ^ 64 - 96)
    (o : Outcome Details) (ho : newChunkMemoryDetails M req sz al = o) :
    o = .err ∨ ∃ d, o = .ok d ∧ DetailsOK M sz al (req.getD DEFAULT_CHUNK_SIZE_WITHOUT_FOOTER) d := by
  have hU : USIZE = 2 ^ 64 := rfl
  have hal := chunkAlign_pow2 (al := al) hM hA
  have hal16 := chunkAlign_ge16 M al
  have halle := chunkAlign_le (al := al) hMle
  have h16dvd : 16 ∣ chunkAlign M al := pow2_ge_dvd (k := 4) hal16 hal
  have hca : max (max CHUNK_ALIGN M) al = chunkAlign M al := rfl
  have haldvd : al ∣ chunkAlign M al := hA.dvd_of_le hal (by unfold chunkAlign; omega)
  unfold newChunkMemoryDetails at ho
  simp only [] at ho
  rw [hca] at ho
  obtain ⟨rs, hrs⟩ := roundUpTo_isSome (n := sz) (d := chunkAlign M al) (by omega)
  obtain ⟨r1, r2, r3, r4⟩ := roundUpTo_some hal.pos hrs
  rw [hrs] at ho
  simp only at ho
  generalize hn0 : req.getD DEFAULT_CHUNK_SIZE_WITHOUT_FOOTER = n0 at *
  rw [OV, PG, CA, FS] at ho
  have hn1 : max n0 rs + 64 < USIZE := by omega
  rw [if_neg (by omega)] at ho
  by_cases hsmall : max n0 rs < 4096
  · rw [if_pos hsmall] at ho
    simp only at ho
    have hle := le_nextPow2 (max n0 rs + 64)
    have h64 : 2 ^ 6 ∣ nextPow2 (max n0 rs + 64) := pow2_ge_dvd (by omega) (nextPow2_isPow2 _)
    have hlt := nextPow2_lt_two_mul (n := max n0 rs + 64) (by omega)
    have h16 : 16 ∣ nextPow2 (max n0 rs + 64) - 64 :=
      Nat.dvd_sub (Nat.dvd_trans (by decide : 16 ∣ 2 ^ 6) h64) (by decide)
    rw [if_neg (by
      intro h; rcases h with h | h
      · exact h (Nat.mod_eq_zero_of_dvd h16dvd)
      · exact h (Nat.mod_eq_zero_of_dvd h16))] at ho
    have hadd : nextPow2 (max n0 rs + 64) - 64 + 48 < USIZE := by omega
    simp only [checkedAdd, if_pos hadd] at ho
    right
    refine ⟨_, ho.symm, ?_⟩
    exact { align_eq := rfl, align_16 := h16dvd, align_al := haldvd, nswf_al := h16, size_eq := by rw [FS],
            fits := ⟨rs, hrs, by show rs ≤ nextPow2 (max n0 rs + 64) - 64; omega⟩,
            ge_req := by show n0 ≤ nextPow2 (max n0 rs + 64) - 64; omega,
            lt := by show nextPow2 (max n0 rs + 64) - 64 + 48 < USIZE; omega }
  · rw [if_neg hsmall] at ho
    cases hr : roundUpTo (max n0 rs + 64) 4096 with
    | none => left; rw [hr] at ho; simpa using ho.symm
    | some r =>
      obtain ⟨q1, q2, q3, q4⟩ := roundUpTo_some (by omega) hr
      rw [hr] at ho
      simp only [Option.map_some] at ho
      have h16 : 16 ∣ r - 64 := Nat.dvd_sub (Nat.dvd_trans (by decide : 16 ∣ 4096) q3) (by decide)
      rw [if_neg (by
        intro h; rcases h with h | h
        · exact h (Nat.mod_eq_zero_of_dvd h16dvd)
        · exact h (Nat.mod_eq_zero_of_dvd h16))] at ho
      have hadd : r - 64 + 48 < USIZE := by omega
      simp only [checkedAdd, if_pos hadd] at ho
      right
      refine ⟨_, ho.symm, ?_⟩
      exact { align_eq := rfl, align_16 := h16dvd, align_al := haldvd, nswf_al := h16, size_eq := by rw [FS],
              fits := ⟨rs, hrs, by show rs ≤ r - 64; omega⟩,
              ge_req := by show n0 ≤ r - 64; omega,
              lt := by show r - 64 + 48 < USIZE; omega }

end Bump

namespace Bump
open Gen

/-- all events are refused `malloc`s -/
def AllRefused (evs : List Ev) : Prop := ∀ e ∈ evs, ∃ sz al, e = .malloc sz al none

theorem AllRefused.nil : AllRefused [] := by intro e he; cases he
theorem AllRefused.append {a b} (ha : AllRefused a) (hb : AllRefused b) : AllRefused (a ++ b) := by
  intro e he; rcases List.mem_append.mp he with h | h
  · exact ha e h
  · exact hb e h
theorem AllRefused.single (sz al : Nat) : AllRefused [.malloc sz al none] := by
  intro e he; simp at he; exact ⟨sz, al, he⟩

/-- a chunk just obtained from the allocator -/
structure FreshChunk (E : Nat) (held : List Chunk) (M : Nat) (d : Details) (prevAb : Nat) (c : Chunk) : Prop where
  wf : ChunkWF M c
  size_eq : c.size = d.size
  align_eq : c.align = d.align
  ptr_eq : c.ptr = c.footer
  nswf_eq : c.footer = c.data + d.nswf
  nswf_pos : 0 < d.nswf
  ab_eq : c.ab = prevAb + d.nswf
  al_dvd : d.align ∣ c.data
  disj : ∀ h ∈ held, Disj c.data c.size h.data h.size
  sdisj : Disj c.data c.size E FOOTER_SIZE
  total : sumSize held + c.size ≤ 2 ^ 63

theorem malloc_fst (s : St) (size align : Nat) :
    (s.malloc size align).1.a = s.a ∧ (s.malloc size align).1.mem = s.mem ∧
    (s.malloc size align).1.evs = s.evs ++ [.malloc size align (s.malloc size align).2] := by
  unfold St.malloc; cases s.ans <;> simp

/-- `new_chunk`: refusal, or a well-formed fresh chunk (given the allocator contract) -/
theorem newChunk_spec {E held M d reqSz prevAb sz al n0} (s : St)
    (hM : IsPow2 M) (hMle : M ≤ 16) (hd : DetailsOK M sz al n0 d) (hpos : 0 < d.nswf)
    (hreq : reqSz ≤ d.size) (hprev : prevAb ≤ sumSize held) :
    let r := newChunk E held M d reqSz prevAb s
    r.1.a = s.a ∧ r.1.mem = s.mem ∧
    ((r.2 = .ok none ∧ ∃ refs, r.1.evs = s.evs ++ refs ∧ AllRefused refs) ∨
     (r.2 = .envBad) ∨
     (∃ c, r.2 = .ok (some c) ∧ FreshChunk E held M d prevAb c ∧
        r.1.evs = s.evs ++ [.malloc c.size c.align (some c.data)])) := by
  have hU : USIZE = 2 ^ 64 := rfl
  intro r
  show r.1.a = s.a ∧ _
  have hr : r = newChunk E held M d reqSz prevAb s := rfl
  unfold newChunk at hr
  by_cases hv : validLayout d.size d.align = true
  · simp only [hv, Bool.not_true, Bool.false_eq_true, ↓reduceIte] at hr
    rw [if_neg (by omega)] at hr
    obtain ⟨m1, m2, m3⟩ := malloc_fst s d.size d.align
    cases hm : (s.malloc d.size d.align) with
    | mk s1 ans =>
      rw [hm] at hr m1 m2 m3
      simp only at m1 m2 m3
      cases ans with
      | none =>
        simp only at hr
        rw [hr]
        exact ⟨m1, m2, Or.inl ⟨rfl, _, m3, AllRefused.single _ _⟩⟩
      | some addr =>
        simp only at hr
        by_cases hok : mallocOK E held d.size d.align addr = true
        · simp only [hok, Bool.not_true, Bool.false_eq_true, ↓reduceIte] at hr
          simp only [mallocOK, Bool.and_eq_true, decide_eq_true_eq, Bool.or_eq_true, List.all_eq_true] at hok
          obtain ⟨⟨⟨⟨⟨k1, k2⟩, k3⟩, k4⟩, k5⟩, k6⟩ := hok
          have h16a : 16 ∣ addr := Nat.dvd_trans hd.align_16 (Nat.dvd_of_mod_eq_zero k2)
          have hsz := hd.size_eq
          have hf16 : 16 ∣ addr + d.nswf := Nat.dvd_add h16a hd.nswf_al
          have hM16 : M ∣ 16 := hM.dvd_of_le isPow2_16 hMle
          have hfM : M ∣ addr + d.nswf := Nat.dvd_trans hM16 hf16
          have hmod : (addr + d.nswf) % M = 0 := Nat.mod_eq_zero_of_dvd hfM
          have := FS
          rw [CA, if_neg (by intro h; exact h (Nat.mod_eq_zero_of_dvd hf16))] at hr
          rw [hmod, wsub_eq (Nat.zero_le _) (by omega), Nat.sub_zero] at hr
          rw [if_neg (by omega), if_neg (by omega)] at hr
          rw [hr]
          refine ⟨m1, m2, Or.inr (Or.inr ⟨_, rfl, ?_, m3⟩)⟩
          have hfoot : (⟨addr, d.size, d.align, addr + d.nswf, prevAb + d.nswf⟩ : Chunk).footer = addr + d.nswf := by
            simp only [Chunk.footer]; omega
          exact {
            wf := ⟨by show FOOTER_SIZE ≤ d.size; omega, by show 0 < addr; omega, h16a,
                   by show 16 ∣ d.size - FOOTER_SIZE; rw [hsz, Nat.add_sub_cancel]; exact hd.nswf_al,
                   by show addr ≤ addr + d.nswf; omega, by rw [hfoot]; exact Nat.le_refl _, hfM,
                   by show addr + d.size ≤ 2 ^ 63; exact k3⟩
            size_eq := rfl, align_eq := rfl, ptr_eq := hfoot.symm, nswf_eq := hfoot, nswf_pos := hpos, ab_eq := rfl
            al_dvd := Nat.dvd_of_mod_eq_zero k2
            disj := by
              intro h hh
              exact k5 h hh
            sdisj := k4
            total := k6 }
        · simp only [hok, Bool.not_false, ↓reduceIte] at hr
          rw [hr]
          exact ⟨m1, m2, Or.inr (Or.inl rfl)⟩
  · simp only [hv, Bool.not_false, ↓reduceIte] at hr
    rw [hr]
    exact ⟨rfl, rfl, Or.inl ⟨rfl, [], by simp, AllRefused.nil⟩⟩

end Bump

namespace Bump
open Gen

/-- what the candidate loop of the slow path delivers -/
structure SlowPost (E : Nat) (held : List Chunk) (M ab sz al : Nat) (rem : Option Nat) (base : Nat) (s s' : St)
    (o : Outcome (Option Chunk)) : Prop where
  a_eq : s'.a = s.a
  mem_eq : s'.mem = s.mem
  cases : (o = .ok none ∧ ∃ refs, s'.evs = s.evs ++ refs ∧ AllRefused refs) ∨ o = .envBad ∨
    (∃ c d n0 refs, o = .ok (some c) ∧ DetailsOK M sz al n0 d ∧ FreshChunk E held M d ab c ∧
      (∃ k, n0 = base / 2 ^ k) ∧
      fitsUnderLimit rem d = true ∧ AllRefused refs ∧
      s'.evs = s.evs ++ refs ++ [.malloc c.size c.align (some c.data)])

theorem bypass_base_pos {limit ab sz base} (h : bypassMin limit ab sz base = true) : 1 ≤ base := by
  unfold bypassMin at h
  cases limit with
  | none => simp at h
  | some lim => simp only [Bool.and_eq_true, decide_eq_true_eq] at h; omega

theorem slowLoop_spec {E held M limit ab sz al rem minNew}
    (hM : IsPow2 M) (hMle : M ≤ 16) (hA : IsPow2 al) (hlay : sz + al ≤ 2 ^ 63)
    (hmin : 448 ≤ minNew) (hab : ab ≤ sumSize held) :
    ∀ fuel base (s : St), base < 2 ^ fuel → base ≤ 2 ^ 64 - 96 →
      SlowPost E held M ab sz al rem base s
        (slowLoop E held M limit ab sz al rem minNew (fuel + 1) base s).1
        (slowLoop E held M limit ab sz al rem minNew (fuel + 1) base s).2 := by
  intro fuel
  induction fuel with
  | zero =>
    intro base s hb _
    have hb0 : base = 0 := by simpa using hb
    subst hb0
    unfold slowLoop
    have hc : (decide (0 ≥ minNew) || bypassMin limit ab sz 0) = false := by
      have h1 : decide (0 ≥ minNew) = false := by simp; omega
      have h2 : bypassMin limit ab sz 0 = false := by
        cases hbp : bypassMin limit ab sz 0 with
        | false => rfl
        | true => have := bypass_base_pos hbp; omega
      rw [h1, h2]; rfl
    simp only [hc, Bool.false_eq_true, ↓reduceIte]
    exact ⟨rfl, rfl, Or.inl ⟨rfl, [], by simp, AllRefused.nil⟩⟩
  | succ n ih =>
    intro base s hb hbl
    unfold slowLoop
    by_cases hc : (decide (base ≥ minNew) || bypassMin limit ab sz base) = true
    · simp only [hc, ↓reduceIte]
      have hbase1 : 1 ≤ base := by
        simp only [Bool.or_eq_true, decide_eq_true_eq] at hc
        rcases hc with h | h
        · omega
        · exact bypass_base_pos h
      have hhalf : base / 2 < 2 ^ n := by
        rw [Nat.pow_succ] at hb; omega
      have hhalfl : base / 2 ≤ 2 ^ 64 - 96 := by omega
      have hrec := ih (base / 2)
      rcases details_spec (some base) hM hMle hA hlay (by simpa using hbl) _ rfl with he | ⟨d, hde, hd⟩
      · rw [he]
        exact ⟨rfl, rfl, Or.inl ⟨rfl, [], by simp, AllRefused.nil⟩⟩
      · rw [hde]
        simp only [Option.getD_some] at hd
        simp only
        by_cases hfit : fitsUnderLimit rem d = true
        · simp only [hfit, ↓reduceIte]
          have hpos : 0 < d.nswf := by have := hd.ge_req; omega
          have hreq : sz ≤ d.size := by
            obtain ⟨rs, hrs, hle⟩ := hd.fits
            have := (roundUpTo_some (by rw [hd.align_eq]; exact (chunkAlign_pow2 hM hA).pos) hrs).1
            have := hd.size_eq; omega
          have sp := newChunk_spec (E := E) (held := held) (reqSz := sz) (prevAb := ab) s hM hMle hd hpos hreq hab
          cases hnc : newChunk E held M d sz ab s with
          | mk s1 o1 =>
            rw [hnc] at sp
            simp only at sp
            obtain ⟨sa, sm, sc⟩ := sp
            rcases sc with ⟨ho, refs, hev, hrf⟩ | ho | ⟨c, ho, hfc, hev⟩
            · subst ho
              simp only [bindO]
              have r := hrec s1 hhalf hhalfl
              refine ⟨by rw [r.a_eq, sa], by rw [r.mem_eq, sm], ?_⟩
              rcases r.cases with ⟨h1, refs', h2, h3⟩ | h1 | ⟨c, d', n0, refs', h1, h2, h3, ⟨k, hk⟩, h4, h5, h6⟩
              · exact Or.inl ⟨h1, refs ++ refs', by rw [h2, hev, List.append_assoc], hrf.append h3⟩
              · exact Or.inr (Or.inl h1)
              · exact Or.inr (Or.inr ⟨c, d', n0, refs ++ refs', h1, h2, h3,
                  ⟨k + 1, by rw [hk, Nat.div_div_eq_div_mul, Nat.pow_succ, Nat.mul_comm]⟩, h4, hrf.append h5,
                  by rw [h6, hev]; simp [List.append_assoc]⟩)
            · subst ho
              simp only [bindO]
              exact ⟨sa, sm, Or.inr (Or.inl rfl)⟩
            · subst ho
              simp only [bindO]
              exact ⟨sa, sm, Or.inr (Or.inr ⟨c, d, base, [], rfl, hd, hfc, ⟨0, by simp⟩, hfit, AllRefused.nil, by simpa using hev⟩)⟩
        · simp only [hfit, Bool.false_eq_true, ↓reduceIte]
          have r := hrec s hhalf hhalfl
          refine ⟨r.a_eq, r.mem_eq, ?_⟩
          rcases r.cases with h1 | h1 | ⟨c, d', n0, refs', h1, h2, h3, ⟨k, hk⟩, h4, h5, h6⟩
          · exact Or.inl h1
          · exact Or.inr (Or.inl h1)
          · exact Or.inr (Or.inr ⟨c, d', n0, refs', h1, h2, h3,
              ⟨k + 1, by rw [hk, Nat.div_div_eq_div_mul, Nat.pow_succ, Nat.mul_comm]⟩, h4, h5, h6⟩)
    · simp only [hc, Bool.false_eq_true, ↓reduceIte]
      exact ⟨rfl, rfl, Or.inl ⟨rfl, [], by simp, AllRefused.nil⟩⟩

end Bump
