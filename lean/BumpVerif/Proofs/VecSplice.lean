import BumpVerif.Proofs.VecRefine2
/-!
# `splice` (vec.rs:2207, 2586-2693): `Drain` + `Splice::drop` (`fill`, `move_tail`, the collected
remainder) + `Drain::drop`

`Gap c v d P gap T R`: the state of the vector while a `Splice` is being dropped — the buffer is
`P ++ gap ++ T ++ R` where `P` (`len = |P|`) is what the vector owns at the moment, `gap` are the
slots left by the drained range (stale bit copies or uninitialised), `T` is the tail that
`Drain::drop` will move back (`tail_start = |P| + |gap|`, `tail_len = |T|`).
-/
namespace Bump.V
open Bump

structure Gap (c : Cfg) (v : VS) (d : Drain) (P : List Elem) (gap : List (Option Elem)) (T : List Elem)
    (R : List (Option Elem)) : Prop where
  slots : v.slots = P.map some ++ (gap ++ (T.map some ++ R))
  len : v.len = P.length
  tailStart : d.tailStart = P.length + gap.length
  tailLen : d.tailLen = T.length
  bufOK : BufOK c v
  zst : c.esz = 0 → P.length + gap.length + T.length ≤ USIZE_MAX

theorem Gap.total {c v d P gap T R} (h : Gap c v d P gap T R) :
    v.slots.length = P.length + gap.length + T.length + R.length := by
  rw [h.slots]; simp; omega

theorem Gap.used_le {c v d P gap T R} (h : Gap c v d P gap T R) : P.length + gap.length + T.length ≤ capOf c v := by
  by_cases he : c.esz = 0
  · simp only [capOf, he, ↓reduceIte]; exact h.zst he
  · have := h.bufOK.buf he
    have := h.total
    simp only [capOf, he, ↓reduceIte]; omega

/-- with an empty tail the vector simply represents `P` -/
theorem Gap.rep_of_nil {c v d P gap R} (h : Gap c v d P gap [] R) : RepB c v P := by
  rcases v with ⟨sl, l, cp⟩
  have hs := h.slots
  have hl := h.len
  simp only at hs hl
  subst hs; subst hl
  have hb := h.bufOK
  apply RepB.of_nf (fun he => hb.buf he) hb.capLt hb.capHalf
  intro he; have := h.zst he; omega

/-- `Drain::drop` after its range is exhausted: the tail moves down over the gap -/
theorem Gap.moveBack {c v d P gap T R} (h : Gap c v d P gap T R) (w : W) :
    ∃ v', d.moveBack c v w = (v', w) ∧ RepB c v' (P ++ T) := by
  have hused := h.used_le
  have htot := h.total
  rcases v with ⟨sl, l, cp⟩
  have hs := h.slots
  have hl := h.len
  have hts := h.tailStart
  have htl := h.tailLen
  have hb := h.bufOK
  simp only at hs hl htot
  subst hs; subst hl
  by_cases hT : T = []
  · subst hT
    refine ⟨_, ?_, by simpa using h.rep_of_nil⟩
    simp [Drain.moveBack, htl]
  · have hpos : d.tailLen > 0 := by rw [htl]; exact List.length_pos_iff.mpr hT
    have hlen' : P.length + T.length = (P ++ T).length := by simp
    have hrep : ∀ rest', (c.esz ≠ 0 → ((P ++ T).map some ++ rest').length = cp) →
        RepB c ⟨(P ++ T).map some ++ rest', (P ++ T).length, cp⟩ (P ++ T) := by
      intro rest' hbuf
      apply RepB.of_nf hbuf hb.capLt hb.capHalf
      intro he; have := h.zst he; simp; omega
    by_cases hg : gap = []
    · subst hg
      refine ⟨⟨(P ++ T).map some ++ R, (P ++ T).length, cp⟩, ?_, hrep R (fun he => by have := hb.buf he; simpa using this)⟩
      have hne : ¬ d.tailStart ≠ P.length := by simp [hts]
      simp only [Drain.moveBack, hpos, ↓reduceIte, hne, htl, hlen']
      simp
    · have hne : d.tailStart ≠ P.length := by
        rw [hts]; have := List.length_pos_iff.mpr hg; omega
      obtain ⟨J, hJ, hcp⟩ := copy_block_down (P.map some) gap (T.map some) R
      simp only [List.length_map] at hcp
      have hn0 : T.length ≠ 0 := by have := List.length_pos_iff.mpr hT; omega
      have hneed : max (P.length + gap.length) P.length + T.length ≤ (P.map some ++ (gap ++ (T.map some ++ R))).length := by
        simp; omega
      refine ⟨⟨(P ++ T).map some ++ (J ++ R), (P ++ T).length, cp⟩, ?_, hrep (J ++ R) (fun he => by
        have := hb.buf he; simp at this ⊢; omega)⟩
      simp only [Drain.moveBack, hpos, ↓reduceIte, hne, ne_eq, not_false_eq_true, hts, htl, VS.copy, hn0,
        need_ok c (VS.mk (P.map some ++ (gap ++ (T.map some ++ R))) P.length cp) _ w _ hneed, hcp, hlen']
      have hpos' : 0 < T.length := by omega
      simp [hg, hpos']

/-- memmove of the block `U` up by `x` slots -/
theorem copy_up (c : Cfg) (K U R : List (Option Elem)) (l cp x : Nat) (w : W) (hU : U ≠ []) (hroom : c.esz ≠ 0 → x ≤ R.length) :
    ∃ G R', (VS.mk (K ++ (U ++ R)) l cp).copy c K.length (K.length + x) U.length w = (⟨K ++ (G ++ (U ++ R')), l, cp⟩, w) ∧
      G.length = x ∧ (x ≤ R.length → R'.length + x = R.length) := by
  have hn0 : U.length ≠ 0 := by have := List.length_pos_iff.mpr hU; omega
  refine ⟨(U ++ padTo x R).take x, (padTo x R).drop x, ?_, ?_, ?_⟩
  · have hmax : max K.length (K.length + x) + U.length = K.length + x + U.length := by omega
    have hpad : padTo (K.length + x + U.length) (K ++ (U ++ R)) = K ++ (U ++ padTo x R) := by
      simp only [padTo, List.append_assoc, List.length_append]
      congr 3
      congr 1
      omega
    have hw : (if K.length + x + U.length ≤ (K ++ (U ++ R)).length ∨ c.esz = 0 then w else w.flag "copy outside the buffer") = w := by
      by_cases he : c.esz = 0
      · simp [he]
      · have := hroom he
        have : K.length + x + U.length ≤ (K ++ (U ++ R)).length := by simp; omega
        rw [if_pos (Or.inl this)]
    simp only [VS.copy, hn0, ↓reduceIte, VS.need, hmax, hpad, hw]
    have hxl : x ≤ (padTo x R).length := by rw [length_padTo]; omega
    have e1 : (K ++ (U ++ padTo x R)).take (K.length + x) = K ++ (U ++ padTo x R).take x := by
      rw [List.take_append, List.take_of_length_le (by omega), Nat.add_sub_cancel_left]
    have e2 : ((K ++ (U ++ padTo x R)).drop K.length).take U.length = U := by
      rw [List.drop_left]; exact List.take_left
    have e3 : (K ++ (U ++ padTo x R)).drop (K.length + x + U.length) = (padTo x R).drop x := by
      rw [Nat.add_assoc, List.drop_length_add_append, Nat.add_comm x, List.drop_length_add_append]
    simp only [copySlots, e1, e2, e3, List.append_assoc]
  · simp [length_padTo]; omega
  · intro hx; rw [padTo_of_le hx]; simp; omega

/-- `Drain::move_tail(extra)`: reserve, move the tail up; `none` = the reservation panicked -/
theorem Gap.moveTail {c v d P T R} (hc : CfgOK c) (h : Gap c v d P [] T R) (hT : T ≠ []) (extra : Nat) (w : W) :
    (Drain.moveTail c v d extra w = none ∧ rawReserve c v (P.length + T.length) extra = none) ∨
    ∃ v' gap' R', Drain.moveTail c v d extra w = some (v', { d with tailStart := d.tailStart + extra }, w) ∧
      Gap c v' { d with tailStart := d.tailStart + extra } P gap' T R' ∧ gap'.length = extra := by
  have hts := h.tailStart
  have htl := h.tailLen
  simp only [List.length_nil, Nat.add_zero] at hts
  have hu : P.length + T.length ≤ capOf c v := by have := h.used_le; simpa using this
  unfold Drain.moveTail
  rw [hts, htl]
  cases hres : rawReserve c v (P.length + T.length) extra with
  | none => left; exact ⟨rfl, rfl⟩
  | some v1 =>
    right
    obtain ⟨hb1, hl1, hge, hz, hnz⟩ := rawReserve_buf hc h.bufOK hu hres
    -- the buffer after the reservation still starts with `P ++ T`
    have hsl : ∃ R1, v1.slots = P.map some ++ (T.map some ++ R1) ∧ (c.esz ≠ 0 → extra ≤ R1.length) := by
      by_cases he : c.esz = 0
      · rw [hz he]; exact ⟨R, by simpa using h.slots, fun h0 => absurd he h0⟩
      · obtain ⟨hs1, _⟩ := hnz he
        have hpre := resizeSlots_prefix (P.map some ++ T.map some) R v1.cap (by
          simp only [capOf, he, ↓reduceIte] at hge; simp; omega)
        obtain ⟨R1, hR1⟩ := hpre
        refine ⟨R1, ?_, fun _ => ?_⟩
        · rw [hs1, h.slots]; simpa using hR1
        · have hlen := hb1.buf he
          rw [hs1, h.slots] at hlen
          have : (P.map some ++ T.map some ++ R1).length = v1.cap := by
            rw [← hR1]; simpa using hlen
          simp only [capOf, he, ↓reduceIte] at hge
          simp at this; omega
    obtain ⟨R1, hs1, hroom⟩ := hsl
    rcases v1 with ⟨sl1, l1, cp1⟩
    simp only at hs1 hl1
    subst hs1
    obtain ⟨G, R', hcopy, hG, hR'⟩ := copy_up c (P.map some) (T.map some) R1 l1 cp1 extra w (by simpa using hT) hroom
    simp only [List.length_map] at hcopy
    refine ⟨⟨P.map some ++ (G ++ (T.map some ++ R')), l1, cp1⟩, G, R', ?_, ?_, hG⟩
    · simp only [hcopy]
    · refine ⟨rfl, by rw [hl1]; exact h.len, by simp [hG], rfl, ⟨?_, hb1.capLt, hb1.capHalf⟩, ?_⟩
      · intro he
        have := hb1.buf he
        have := hR' (hroom he)
        simp at *; omega
      · intro he
        simp only [capOf, he, ↓reduceIte] at hge
        omega

/-! ## `Drain::fill` -/

theorem Gap.write {c v d P g gap T R} (h : Gap c v d P (g :: gap) T R) (e : Elem) (w : W) :
    ∃ v1, v.write c v.len e w = (v1, w) ∧ Gap c { v1 with len := v1.len + 1 } d (P ++ [e]) gap T R := by
  rcases v with ⟨sl, l, cp⟩
  have hs := h.slots
  have hl := h.len
  have hb := h.bufOK
  simp only at hs hl
  subst hs; subst hl
  have hw := write_at c (P.map some) (gap ++ (T.map some ++ R)) g P.length cp e w
  simp only [List.length_map, List.cons_append] at hw ⊢
  refine ⟨_, hw, ⟨by simp, by simp, ?_, h.tailLen, ⟨?_, hb.capLt, hb.capHalf⟩, ?_⟩⟩
  · have := h.tailStart; simp at this ⊢; omega
  · intro he; have := hb.buf he; simpa using this
  · intro he; have := h.zst he; simp at this ⊢; omega

/-- `fill` from the caller's iterator: `j ≤ k` items are written into the gap, in order -/
theorem fill_src {c : Cfg} {d : Drain} {T : List Elem} {R : List (Option Elem)} (w : W) :
    ∀ (k : Nat) (v : VS) (s : Src) (P : List Elem) (gap : List (Option Elem)), Gap c v d P gap T R → k ≤ gap.length →
      ∃ (j : Nat) (v' : VS) (s' : Src) (flag : Option Bool),
        Drain.fill c d k v (.src s) w = (v', .src s', w, flag) ∧ j ≤ k ∧ j ≤ s.items.length ∧
        Gap c v' d (P ++ s.items.take j) (gap.drop j) T R ∧ s'.items = s.items.drop j ∧ s'.hint = s.hint ∧
        s.consumed ≤ s'.consumed ∧ (flag = some true → j = k) ∧ (flag = some false → j = s.items.length) ∧
        (s.panicAt = none → flag ≠ none ∧ s'.panicAt = none) := by
  intro k
  induction k with
  | zero =>
    intro v s P gap h _
    exact ⟨0, v, s, some true, rfl, Nat.le_refl _, Nat.zero_le _, by simpa using h, by simp, rfl, Nat.le_refl _, fun _ => rfl,
      by simp, fun hn => ⟨by simp, hn⟩⟩
  | succ k ih =>
    intro v s P gap h hk
    by_cases hp : s.panicAt = some s.calls
    · exact ⟨0, v, { s with calls := s.calls + 1, panicAt := none }, none, by simp [Drain.fill, src_next_panic c w s hp], Nat.zero_le _,
        Nat.zero_le _, by simpa using h, by simp, rfl, Nat.le_refl _, by simp, by simp, fun hn => by rw [hn] at hp; cases hp⟩
    · cases hit : s.items with
      | nil =>
        exact ⟨0, v, { s with calls := s.calls + 1 }, some false, by simp [Drain.fill, src_next_nil c w s hp hit], Nat.zero_le _,
          Nat.zero_le _, by simpa using h, by simp [hit], rfl, Nat.le_refl _, by simp, by simp, fun hn => ⟨by simp, hn⟩⟩
      | cons e r =>
        have hnext := src_next_cons c w s e r hp hit
        cases gap with
        | nil => simp at hk
        | cons g gap' =>
          obtain ⟨v1, hw, hg1⟩ := h.write e w
          let s1 : Src := { s with items := r, consumed := s.consumed + 1, calls := s.calls + 1 }
          obtain ⟨j, v', s', flag, hrun, hjk, hjl, hgap, hs', hh, hcons, hf1, hf2, hnp⟩ :=
            ih _ s1 (P ++ [e]) gap' hg1 (by simp at hk; omega)
          refine ⟨j + 1, v', s', flag, ?_, by omega, by simp [s1] at hjl; simp; omega, ?_, by rw [hs']; simp [s1], hh,
            by simp [s1] at hcons; omega, fun hf => by rw [hf1 hf], fun hf => by have := hf2 hf; simp [s1] at this; simp [this],
            fun hn => hnp (by simpa [s1] using hn)⟩
          · simp only [Drain.fill, hnext, hw]; exact hrun
          · simpa [s1, List.append_assoc] using hgap

theorem owned_next_cons (c : Cfg) (w : W) (e : Elem) (r : List Elem) :
    It.next c w (.owned (e :: r)) = (w, .owned r, some (some e)) := rfl

/-- `fill` from the collected remainder, which has exactly the size of the gap -/
theorem fill_owned {c : Cfg} {d : Drain} {T : List Elem} {R : List (Option Elem)} (w : W) :
    ∀ (acc : List Elem) (v : VS) (P : List Elem) (gap : List (Option Elem)), Gap c v d P gap T R → gap.length = acc.length →
      ∃ v', Drain.fill c d acc.length v (.owned acc) w = (v', .owned [], w, some true) ∧ Gap c v' d (P ++ acc) [] T R := by
  intro acc
  induction acc with
  | nil =>
    intro v P gap h hg
    have : gap = [] := List.eq_nil_of_length_eq_zero hg
    subst this
    exact ⟨v, rfl, by simpa using h⟩
  | cons e r ih =>
    intro v P gap h hg
    cases gap with
    | nil => simp at hg
    | cons g gap' =>
      obtain ⟨v1, hw, hg1⟩ := h.write e w
      obtain ⟨v', hrun, hgap⟩ := ih _ (P ++ [e]) gap' hg1 (by simpa using hg)
      refine ⟨v', ?_, by simpa [List.append_assoc] using hgap⟩
      simp only [List.length_cons, Drain.fill, owned_next_cons, hw]; exact hrun

/-- `collected.extend(replace_with.by_ref())`: everything that is left, up to a panic -/
theorem collectRest_src (c : Cfg) (w : W) :
    ∀ (f : Nat) (s : Src) (acc : List Elem), s.items.length < f →
      ∃ (j : Nat) (s' : Src) (ok : Bool), collectRest c f (.src s) w acc = (.src s', w, acc ++ s.items.take j, ok) ∧
        j ≤ s.items.length ∧ s'.items = s.items.drop j ∧ (ok = true → j = s.items.length) ∧ (s.panicAt = none → ok = true) := by
  intro f
  induction f with
  | zero => intro s acc hf; omega
  | succ f ih =>
    intro s acc hf
    by_cases hp : s.panicAt = some s.calls
    · exact ⟨0, { s with calls := s.calls + 1, panicAt := none }, false, by simp [collectRest, src_next_panic c w s hp], Nat.zero_le _, by simp,
        by simp, fun hn => by rw [hn] at hp; cases hp⟩
    · cases hit : s.items with
      | nil =>
        exact ⟨0, { s with calls := s.calls + 1 }, true, by simp [collectRest, src_next_nil c w s hp hit], Nat.zero_le _, by simp [hit],
          by simp, fun _ => rfl⟩
      | cons e r =>
        have hnext := src_next_cons c w s e r hp hit
        let s1 : Src := { s with items := r, consumed := s.consumed + 1, calls := s.calls + 1 }
        obtain ⟨j, s', ok, hrun, hj, hs', hok, hnp⟩ := ih s1 (acc ++ [e]) (by rw [hit] at hf; simp [s1] at hf ⊢; omega)
        refine ⟨j + 1, s', ok, ?_, by simp [s1] at hj; simp; omega, by rw [hs']; simp [s1], fun h => by have := hok h; simp [s1] at this; simp [this],
          fun hn => hnp (by simpa [s1] using hn)⟩
        simp only [collectRest, hnext]
        rw [hrun]; simp [s1]

/-! ## `Splice::drop` -/

/-- the last part of `Splice::drop`: collect what is left, make room, fill -/
def spliceTail (c : Cfg) (v : VS) (d : Drain) (it : It) (w : W) : VS × Drain × It × W × Bool :=
  match collectRest c (it.remaining + 1) it w [] with
  | (it, w, acc, false) => (v, d, it, (dropAll c acc w).1, false)
  | (it, w, acc, true) =>
    if acc.length > 0 then
      match Drain.moveTail c v d acc.length w with
      | none => (v, d, it, (dropAll c acc w).1, false)
      | some (v, d, w) =>
        match Drain.fill c d (d.tailStart - v.len) v (.owned acc) w with
        | (v, .owned [], w, some true) => (v, d, it, w, true)
        | (v, left, w, _) => (v, d, it, (left.dropRest c w).flag "splice: collected items did not fit", !c.dbg)
    else (v, d, it, w, true)

/-- the part after `if lower_bound > 0 { move_tail; fill }` -/
def spliceAfter (c : Cfg) (r : Option (VS × Drain × It × W × Option Bool)) (v : VS) (d : Drain) (it : It) (w : W) :
    VS × Drain × It × W × Bool :=
  match r with
  | none => (v, d, it, w, false)
  | some (v, d, it, w, none) => (v, d, it, w, false)
  | some (v, d, it, w, some false) => (v, d, it, w, true)
  | some (v, d, it, w, some true) => spliceTail c v d it w

theorem spliceBody_eq (c : Cfg) (v : VS) (d : Drain) (it : It) (w : W) :
    spliceBody c v d it w =
      if d.tailLen = 0 then
        ((extendRef c v it w).1, d, (extendRef c v it w).2.1, (extendRef c v it w).2.2.1, (extendRef c v it w).2.2.2)
      else
        match Drain.fill c d (d.tailStart - v.len) v it w with
        | (v, it, w, none) => (v, d, it, w, false)
        | (v, it, w, some false) => (v, d, it, w, true)
        | (v, it, w, some true) =>
          spliceAfter c
            (if it.hintLo > 0 then
              match Drain.moveTail c v d it.hintLo w with
              | none => none
              | some (v, d, w) =>
                some ((Drain.fill c d (d.tailStart - v.len) v it w).1, d, (Drain.fill c d (d.tailStart - v.len) v it w).2.1,
                  (Drain.fill c d (d.tailStart - v.len) v it w).2.2.1, (Drain.fill c d (d.tailStart - v.len) v it w).2.2.2)
            else some (v, d, it, w, some true)) v d it w := by
  rfl

/-- what the body of `Splice::drop` leaves behind, in terms of the items the iterator held when it
started: `j` of them are in the vector (after the prefix `P`, before the tail `T`, once
`Drain::drop` has moved the tail back), `m` were dropped on the spot (a refused `push`, or the
collected remainder when the unwinding destroyed it), the others are still in the iterator -/
def SpPost (c : Cfg) (good : Prop) (w : W) (items P T : List Elem) (res : VS × Drain × It × W × Bool) : Prop :=
  ∃ (j m : Nat) (s2 : Src), res.2.2.1 = .src s2 ∧ j + m ≤ items.length ∧ s2.items = items.drop (j + m) ∧
    (∃ v3, res.2.1.moveBack c res.1 res.2.2.2.1 = (v3, res.2.2.2.1) ∧ RepB c v3 (P ++ items.take j ++ T)) ∧
    res.2.2.2.1.evs = w.evs ++ dropEvs c ((items.drop j).take m) ∧ res.2.2.2.1.bad = w.bad ∧
    res.2.2.2.1.nextId = w.nextId ∧ (res.2.2.2.2 = true → j = items.length) ∧ (good → res.2.2.2.2 = true)

theorem SpPost.of_gap {c : Cfg} {good : Prop} {w : W} {items P T : List Elem} {v : VS} {d : Drain} {gap R : List (Option Elem)}
    {s2 : Src} {w2 : W} {ok : Bool} (j m : Nat) (hg : Gap c v d (P ++ items.take j) gap T R) (hjm : j + m ≤ items.length)
    (hs2 : s2.items = items.drop (j + m)) (hev : w2.evs = w.evs ++ dropEvs c ((items.drop j).take m)) (hb : w2.bad = w.bad)
    (hn : w2.nextId = w.nextId) (hok : ok = true → j = items.length) (hgood : good → ok = true) :
    SpPost c good w items P T (v, d, .src s2, w2, ok) := by
  obtain ⟨v3, h1, h2⟩ := hg.moveBack w2
  exact ⟨j, m, s2, rfl, hjm, hs2, ⟨v3, h1, h2⟩, hev, hb, hn, hok, hgood⟩

theorem SpPost.shift {c : Cfg} {good good' : Prop} {w : W} {items P T : List Elem} {res : VS × Drain × It × W × Bool}
    (j1 : Nat) (hj1 : j1 ≤ items.length) (h : SpPost c good' w (items.drop j1) (P ++ items.take j1) T res) (hg : good → good') :
    SpPost c good w items P T res := by
  obtain ⟨j, m, s2, h1, hjm, hs2, ⟨v3, hm, hr⟩, hev, hb, hn, hok, hgd⟩ := h
  refine ⟨j1 + j, m, s2, h1, by simp at hjm; omega, ?_, ⟨v3, hm, ?_⟩, ?_, hb, hn, ?_, fun g => hgd (hg g)⟩
  · rw [hs2, List.drop_drop]; congr 1; omega
  · rw [List.take_add]; simpa [List.append_assoc] using hr
  · rw [hev, List.drop_drop]
  · intro h; have := hok h; simp at this; omega

theorem SpPost.mono {c : Cfg} {good good' : Prop} {w : W} {items P T : List Elem} {res : VS × Drain × It × W × Bool}
    (h : SpPost c good' w items P T res) (hg : good → good') : SpPost c good w items P T res := by
  obtain ⟨j, m, s2, h1, hjm, hs2, hv, hev, hb, hn, hok, hgd⟩ := h
  exact ⟨j, m, s2, h1, hjm, hs2, hv, hev, hb, hn, hok, fun g => hgd (hg g)⟩

theorem Gap.fillCount {c v d P gap T R} (h : Gap c v d P gap T R) : d.tailStart - v.len = gap.length := by
  rw [h.tailStart, h.len]; omega

/-- collect the remainder, `move_tail(collected.len())`, `fill` -/
theorem spliceTail_spec {c : Cfg} (hc : CfgOK c) (N : Nat) {v : VS} {d : Drain} {P T : List Elem} {R : List (Option Elem)}
    (h : Gap c v d P [] T R) (hT : T ≠ []) (s : Src) (w : W) :
    SpPost c (s.panicAt = none ∧ GrowOK c N ∧ P.length + T.length + s.items.length ≤ N) w s.items P T
      (spliceTail c v d (.src s) w) := by
  obtain ⟨j, s', ok, hcr, hj, hs', hok, hnp⟩ := collectRest_src c w ((It.src s).remaining + 1) s [] (by simp [It.remaining])
  simp only [List.nil_append] at hcr
  have hfail : ∀ (good : Prop), (good → False) →
      SpPost c good w s.items P T (v, d, .src s', (dropAll c (s.items.take j) w).1, false) := by
    intro good hgd
    exact SpPost.of_gap 0 j (by simpa using h) (by omega) (by simpa using hs') (by rw [dropAll_evs]; simp) (dropAll_bad _ _ _)
      (dropAll_nextId _ _ _) (by simp) (fun g => (hgd g).elim)
  unfold spliceTail
  rw [hcr]
  cases ok with
  | false => exact hfail _ (fun g => by have := hnp g.1; cases this)
  | true =>
    have hjl := hok rfl
    by_cases hpos : (s.items.take j).length > 0
    · simp only [hpos, ↓reduceIte]
      rcases h.moveTail hc hT (s.items.take j).length w with ⟨hmt, hres⟩ | ⟨v', gap', R', hmt, hg', hgl⟩
      · rw [hmt]
        apply hfail
        rintro ⟨_, hg, hN⟩
        have hu : P.length + T.length ≤ capOf c v := by have := h.used_le; simpa using this
        exact rawReserve_grow hc hg h.bufOK hu (by simp; omega) hres
      · obtain ⟨v'', hrun, hgap⟩ := fill_owned w (s.items.take j) v' P gap' hg' hgl
        have hk := hg'.fillCount
        rw [hgl] at hk
        simp only [hmt, hk, hrun]
        exact SpPost.of_gap j 0 hgap (by omega) (by simpa using hs') (by simp [dropEvs]) rfl rfl (fun _ => hjl) (fun _ => rfl)
    · simp only [hpos, ↓reduceIte]
      have hz : s.items.length = 0 := by rw [List.length_take] at hpos; omega
      exact SpPost.of_gap 0 0 (by simpa using h) (by omega) (by rw [hs']; simp [hjl, hz]) (by simp [dropEvs]) rfl rfl
        (fun _ => hz.symm) (fun _ => rfl)

/-- `if lower_bound > 0 { move_tail(lower_bound); fill }`, then the collected remainder -/
theorem spliceAfter_spec {c : Cfg} (hc : CfgOK c) (N : Nat) {v : VS} {d : Drain} {P T : List Elem} {R : List (Option Elem)}
    (h : Gap c v d P [] T R) (hT : T ≠ []) (s : Src) (w : W) :
    SpPost c (s.panicAt = none ∧ GrowOK c N ∧ P.length + T.length + s.items.length + (s.hint - s.consumed) ≤ N) w s.items P T
      (spliceAfter c
        (if (It.src s).hintLo > 0 then
          match Drain.moveTail c v d (It.src s).hintLo w with
          | none => none
          | some (v, d, w) =>
            some ((Drain.fill c d (d.tailStart - v.len) v (.src s) w).1, d, (Drain.fill c d (d.tailStart - v.len) v (.src s) w).2.1,
              (Drain.fill c d (d.tailStart - v.len) v (.src s) w).2.2.1, (Drain.fill c d (d.tailStart - v.len) v (.src s) w).2.2.2)
        else some (v, d, .src s, w, some true)) v d (.src s) w) := by
  by_cases hlb : (It.src s).hintLo > 0
  · simp only [hlb, ↓reduceIte]
    rcases h.moveTail hc hT (It.src s).hintLo w with ⟨hmt, hres⟩ | ⟨v', gap', R', hmt, hg', hgl⟩
    · rw [hmt]
      simp only [spliceAfter]
      refine SpPost.of_gap 0 0 (by simpa using h) (by omega) (by simp) (by simp [dropEvs]) rfl rfl (by simp) ?_
      rintro ⟨_, hg, hN⟩
      exfalso
      have hu : P.length + T.length ≤ capOf c v := by have := h.used_le; simpa using this
      exact rawReserve_grow hc hg h.bufOK hu (by simp only [It.hintLo]; omega) hres
    · have hk := hg'.fillCount
      obtain ⟨j, v'', s', flag, hrun, hjk, hjl, hgap, hs', hh, hcons, hf1, hf2, hnp⟩ :=
        fill_src w gap'.length v' s P gap' hg' (Nat.le_refl _)
      simp only [hmt, hk, hrun]
      cases flag with
      | none =>
        simp only [spliceAfter]
        exact SpPost.of_gap j 0 hgap (by omega) (by simpa using hs') (by simp [dropEvs]) rfl rfl (by simp)
          (fun g => by have := (hnp g.1).1; simp at this)
      | some b =>
        cases b with
        | false =>
          simp only [spliceAfter]
          exact SpPost.of_gap j 0 hgap (by omega) (by simpa using hs') (by simp [dropEvs]) rfl rfl (fun _ => hf2 rfl) (fun _ => rfl)
        | true =>
          simp only [spliceAfter]
          have hjg := hf1 rfl
          have hgap0 : Gap c v'' { d with tailStart := d.tailStart + (It.src s).hintLo } (P ++ s.items.take j) [] T R' := by
            have : gap'.drop j = [] := by rw [hjg]; simp
            rw [this] at hgap; exact hgap
          have := spliceTail_spec hc N hgap0 hT s' w
          rw [hs'] at this
          apply SpPost.shift j hjl this
          rintro ⟨hn, hg, hN⟩
          refine ⟨(hnp hn).2, hg, ?_⟩
          simp; omega
  · simp only [hlb, ↓reduceIte, spliceAfter]
    exact (spliceTail_spec hc N h hT s w).mono (fun g => ⟨g.1, g.2.1, by have := g.2.2; omega⟩)

/-- the body of `Splice::drop` after the drained range has been exhausted -/
theorem spliceBody_spec {c : Cfg} (hc : CfgOK c) (N : Nat) {v : VS} {d : Drain} {P T : List Elem} {gap R : List (Option Elem)}
    (h : Gap c v d P gap T R) (s : Src) (w : W) :
    SpPost c (s.panicAt = none ∧ GrowOK c N ∧ P.length + gap.length + T.length + s.items.length + s.hint ≤ N) w s.items P T
      (spliceBody c v d (.src s) w) := by
  rw [spliceBody_eq]
  by_cases hT : T = []
  · subst hT
    have htl : d.tailLen = 0 := by rw [h.tailLen]; rfl
    rw [if_pos htl]
    obtain ⟨j, m, v', s', w', ok, hrun, hrep, hjm, hs', hev, hb, hn, hok, hgood⟩ := extendRef_src_spec hc N h.rep_of_nil s w
    rw [hrun]
    refine ⟨j, m, s', rfl, hjm, hs', ⟨v', by simp [Drain.moveBack, htl], by simpa using hrep⟩, hev, hb, hn, fun hh => (hok hh).1, ?_⟩
    rintro ⟨hn', hg, hN⟩
    exact hgood hn' hg (by omega) (by omega)
  · have htl : ¬ d.tailLen = 0 := by
      rw [h.tailLen]; have := List.length_pos_iff.mpr hT; omega
    rw [if_neg htl]
    obtain ⟨j, v', s', flag, hrun, hjk, hjl, hgap, hs', hh, hcons, hf1, hf2, hnp⟩ := fill_src w gap.length v s P gap h (Nat.le_refl _)
    rw [h.fillCount, hrun]
    cases flag with
    | none =>
      exact SpPost.of_gap j 0 hgap (by omega) (by simpa using hs') (by simp [dropEvs]) rfl rfl (by simp)
        (fun g => by have := (hnp g.1).1; simp at this)
    | some b =>
      cases b with
      | false =>
        exact SpPost.of_gap j 0 hgap (by omega) (by simpa using hs') (by simp [dropEvs]) rfl rfl (fun _ => hf2 rfl) (fun _ => rfl)
      | true =>
        have hjg := hf1 rfl
        have hgap0 : Gap c v' d (P ++ s.items.take j) [] T R := by
          have : gap.drop j = [] := by rw [hjg]; simp
          rw [this] at hgap; exact hgap
        have := spliceAfter_spec hc N hgap0 hT s' w
        rw [hs'] at this
        apply SpPost.shift j hjl this
        rintro ⟨hn, hg, hN⟩
        refine ⟨(hnp hn).2, hg, ?_⟩
        simp; omega

/-! ## the whole call -/

/-- `Drain::drop` and the drop of `replace_with` after the body of `Splice::drop` -/
theorem splice_finish {c : Cfg} {good : Prop} {w2 : W} {items P T front : List Elem} (sb : VS × Drain × It × W × Bool)
    (hpost : SpPost c good w2 items P T sb) :
    ∃ (j : Nat) (v' : VS) (w' : W) (r : Option (List Elem)), (sb.2.1.moveBack c sb.1 sb.2.2.2.1).1 = v' ∧
      sb.2.2.1.dropRest c (sb.2.1.moveBack c sb.1 sb.2.2.2.1).2 = w' ∧ (if sb.2.2.2.2 then some front else none) = r ∧
      j ≤ items.length ∧ RepB c v' (P ++ items.take j ++ T) ∧ w'.evs = w2.evs ++ dropEvs c (items.drop j) ∧ w'.bad = w2.bad ∧
      w'.nextId = w2.nextId ∧ (∀ m, r = some m → m = front ∧ j = items.length) ∧ (good → r = some front) := by
  rcases sb with ⟨v2, d2, it2, w2', ok⟩
  obtain ⟨j, m, s2, h1, hjm, hs2, ⟨v3, hm, hrep⟩, hev, hb, hn, hokk, hgd⟩ := hpost
  simp only at h1 hm hev hb hn hokk hgd
  subst h1
  simp only [hm, It.dropRest]
  refine ⟨j, v3, _, _, rfl, rfl, rfl, by omega, hrep, ?_, by rw [dropAll_bad, hb], by rw [dropAll_nextId, hn], ?_, ?_⟩
  · rw [dropAll_evs, hev, hs2, List.append_assoc, ← dropEvs_append, ← List.drop_drop, List.take_append_drop]
  · intro mm hmm
    cases ok with
    | false => simp at hmm
    | true => simp at hmm; exact ⟨hmm.symm, hokk rfl⟩
  · intro g; simp [hgd g]

theorem spliceOp_unfold (c : Cfg) (v : VS) (s e : Bd) (it : It) (take : Nat) (w : W) (v1 : VS) (d : Drain)
    (h : drainNew c v s e = some (v1, d)) :
    spliceOp c v s e it take w =
      let a := d.takeFront v1 take w
      let rr := readRange v1 a.1.lo a.1.hi a.2.1
      match dropEach c rr.1 rr.2 with
      | (w, some left) =>
        let mb := ({ a.1 with lo := a.1.hi } : Drain).moveBack c v1 (dropAll c left w).1
        (mb.1, it.dropRest c mb.2, none)
      | (w, none) =>
        let sb := spliceBody c v1 { a.1 with lo := a.1.hi } it w
        let mb := sb.2.1.moveBack c sb.1 sb.2.2.2.1
        (mb.1, sb.2.2.1.dropRest c mb.2, if sb.2.2.2.2 then some a.2.2 else none) := by
  simp only [spliceOp, h]
  rfl

/-- a bad range panics before anything is touched (the iterator argument is dropped) -/
theorem spliceOp_panics {c : Cfg} {v : VS} {s e : Bd} (h : ¬ ∃ st en, DrainOK c v.len s e st en) (it : It) (take : Nat) (w : W) :
    spliceOp c v s e it take w = (v, it.dropRest c w, none) := by
  simp [spliceOp, drainNew_none h]

/-- `splice(st..en, iter)`, `take` × `next()`, then the `Splice` is dropped — every path.  The
first `take` elements of the range go to the caller (`front`), the rest of the range (`mid`) is
dropped; `j` of the iterator's items end up in the vector between `xs.take st` and `xs.drop en`,
the others are dropped (in order) by the unwinding; `j` is all of them, and the call returns,
unless the iterator or a destructor panics or the arena refuses the growth. -/
theorem spliceOp_spec {c : Cfg} (hc : CfgOK c) (N : Nat) {v : VS} {xs : List Elem} (h : RepB c v xs) {s e : Bd} {st en : Nat}
    (hok : DrainOK c xs.length s e st en) (src : Src) (take : Nat) (w : W) :
    ∃ (j : Nat) (v' : VS) (w' : W) (r : Option (List Elem)), spliceOp c v s e (.src src) take w = (v', w', r) ∧
      j ≤ src.items.length ∧ RepB c v' (xs.take st ++ src.items.take j ++ xs.drop en) ∧
      w'.evs = w.evs ++ movedEvs ((xs.drop st).take (min take (en - st))) ++
        dropEvs c ((xs.drop (st + min take (en - st))).take (en - (st + min take (en - st)))) ++ dropEvs c (src.items.drop j) ∧
      w'.bad = w.bad ∧ w'.nextId = w.nextId ∧
      (∀ m, r = some m → m = (xs.drop st).take (min take (en - st)) ∧ j = src.items.length) ∧
      (src.panicAt = none → c.dropPanicAt = none → GrowOK c N → xs.length + src.items.length + src.hint ≤ N →
        r = some ((xs.drop st).take (min take (en - st)))) := by
  rcases v with ⟨sl, l, cp⟩
  obtain ⟨rest, rfl, rfl⟩ := h.toRep.nf
  have hse := hok.2.2.1
  have hen := hok.2.2.2
  have hnew := drainNew_ok (v := ⟨xs.map some ++ rest, xs.length, cp⟩) hok
  rw [spliceOp_unfold c _ s e _ take w _ _ hnew]
  obtain ⟨w1, hf, hev1, hb1, hn1⟩ := takeFront_spec xs rest st cp take ⟨en, xs.length - en, st, en⟩ w hen hse
  simp only at hf hev1
  simp only [hf]
  have hrr := readRange_rep xs rest st cp (st + min take (en - st)) en w1 hen (by omega)
  simp only [hrr]
  obtain ⟨kd, w2, r, hde, hkd, hev2, hb2, hn2, hr1, hr2, hr3⟩ :=
    dropEach_spec c ((xs.drop (st + min take (en - st))).take (en - (st + min take (en - st)))) w1
  rw [hde]
  -- the state in which the destructor of the `Splice` / `Drain` finds the vector
  have hsplit : xs.map some ++ rest =
      (xs.take st).map some ++ (((xs.drop st).take (en - st)).map some ++ ((xs.drop en).map some ++ rest)) := by
    have h1 : xs = xs.take st ++ ((xs.drop st).take (en - st) ++ xs.drop en) := by
      have : xs.drop en = (xs.drop st).drop (en - st) := by rw [List.drop_drop]; congr 1; omega
      rw [this, List.take_append_drop, List.take_append_drop]
    calc xs.map some ++ rest = (xs.take st ++ ((xs.drop st).take (en - st) ++ xs.drop en)).map some ++ rest := by rw [← h1]
      _ = _ := by simp only [List.map_append, List.append_assoc]
  have hG : ∀ lo hi, Gap c ⟨xs.map some ++ rest, st, cp⟩ ⟨en, xs.length - en, lo, hi⟩ (xs.take st)
      (((xs.drop st).take (en - st)).map some) (xs.drop en) rest := by
    intro lo hi
    refine ⟨hsplit, by simp; omega, by simp; omega, by simp, ⟨fun he => h.buf he, h.capLt, fun he => h.capHalf he⟩, ?_⟩
    intro he
    have := h.lenCap
    simp only [capOf, he, ↓reduceIte] at this
    simp; omega
  cases r with
  | some left =>
    have hleft := hr2 left rfl
    obtain ⟨v3, hm, hrep⟩ := (hG en en).moveBack (dropAll c left w2).1
    simp only [hm, It.dropRest]
    refine ⟨0, v3, _, none, rfl, Nat.zero_le _, by simpa using hrep, ?_, ?_, ?_, by simp, ?_⟩
    · rw [dropAll_evs, dropAll_evs, hev2, hev1, hleft]
      simp only [List.append_assoc, List.drop_zero]
      rw [← List.append_assoc (dropEvs c _) (dropEvs c _), ← dropEvs_append, List.take_append_drop]
    · rw [dropAll_bad, dropAll_bad, hb2, hb1]
    · rw [dropAll_nextId, dropAll_nextId, hn2, hn1]
    · intro _ hnp _ _
      have := hr3 hnp; cases this
  | none =>
    have hkl := hr1 rfl
    have hpost := spliceBody_spec hc N (hG en en) src w2
    obtain ⟨j, v', w', r, e1, e2, e3, hj, hrep, hev, hb, hn, hres, hgd⟩ :=
      splice_finish (front := (xs.drop st).take (min take (en - st))) _ hpost
    subst e1 e2 e3
    refine ⟨j, _, _, _, rfl, hj, hrep, ?_, by rw [hb, hb2, hb1], by rw [hn, hn2, hn1], hres, ?_⟩
    · rw [hev, hev2, hev1, hkl, List.take_length]
    · intro hnp _ hg hN
      exact hgd ⟨hnp, hg, by simp; omega⟩

/-- `splice` (any range incl. rejected ones, any iterator — lying `size_hint`, panicking at any
`next` call —, partially consumed, destructors that may panic, refused growth): the ledger is
preserved and nothing leaks: every element of the drained range went to the caller or was
dropped once, every item of the iterator is in the vector or was dropped once -/
theorem spliceOp_own {c : Cfg} {v : VS} {xs : List Elem} {ins held : List Nat} (hc : CfgOK c) (hd : c.needsDrop = true)
    (h : RepB c v xs) (s e : Bd) (src : Src) (take : Nat) (w : W) (ho : Own ins xs w.evs (ids src.items ++ held)) :
    ∃ ys, RepB c (spliceOp c v s e (.src src) take w).1 ys ∧ Own ins ys (spliceOp c v s e (.src src) take w).2.1.evs held := by
  have hlen := h.len
  by_cases hok : ∃ st en, DrainOK c v.len s e st en
  · obtain ⟨st, en, hok⟩ := hok
    rw [hlen] at hok
    have hse := hok.2.2.1
    have hen := hok.2.2.2
    obtain ⟨j, v', w', r, hrun, hj, hrep, hev, _, _, _, _⟩ := spliceOp_spec hc 0 h hok src take w
    rw [hrun]
    refine ⟨_, hrep, ?_⟩
    apply ho.of_count
    intro x
    have h1 := count_three xs st en hse x
    have h2 := count_take_drop ((xs.drop st).take (en - st)) (min take (en - st)) x
    have e1 : ((xs.drop st).take (en - st)).take (min take (en - st)) = (xs.drop st).take (min take (en - st)) := by
      rw [List.take_take]; congr 1; omega
    have e2 : ((xs.drop st).take (en - st)).drop (min take (en - st)) =
        (xs.drop (st + min take (en - st))).take (en - (st + min take (en - st))) := by
      rw [List.drop_take, List.drop_drop]; congr 1; omega
    rw [e1, e2] at h2
    have h3 := count_take_drop src.items j x
    simp only [hev, evDrops_append, evMoved_append, (evDrops_movedEvs _).1, (evDrops_movedEvs _).2, evDrops_dropEvs c hd,
      evMoved_dropEvs, ids_append, List.count_append, List.count_nil, List.nil_append] at h1 h2 h3 ⊢
    omega
  · rw [spliceOp_panics hok]
    refine ⟨xs, h, ?_⟩
    simp only [It.dropRest, dropAll_evs]
    apply ho.of_count
    intro x
    simp only [evDrops_append, evMoved_append, evDrops_dropEvs c hd, evMoved_dropEvs, List.count_append, List.count_nil]
    omega

end Bump.V
