import BumpVerif.Proofs.VecDrain
/-!
# append / split_off / resize / extend (helper lemmas)
-/
namespace Bump.V
open Bump

/-- `copy_nonoverlapping` of initialised elements to the first slots after the prefix -/
theorem copyFrom_end (c : Cfg) (xs ys : List Elem) (rest : List (Option Elem)) (l cp : Nat) (w : W)
    (hroom : c.esz ≠ 0 → ys.length ≤ rest.length) :
    (VS.mk (xs.map some ++ rest) l cp).copyFrom c (ys.map some) xs.length w =
      (VS.mk ((xs ++ ys).map some ++ rest.drop ys.length) l cp, w) ∧
    (ys.length ≤ rest.length → ((xs ++ ys).map some ++ rest.drop ys.length).length = (xs.map some ++ rest).length) := by
  refine ⟨?_, fun h => by simp; omega⟩
  by_cases hy : ys = []
  · subst hy; simp [VS.copyFrom]
  · have hne : (ys.map some).isEmpty = false := by cases ys <;> simp_all
    simp only [VS.copyFrom, hne, Bool.false_eq_true, ↓reduceIte, VS.need, List.length_map]
    have hw : (if xs.length + ys.length ≤ (xs.map some ++ rest).length ∨ c.esz = 0 then w
        else w.flag "copy_nonoverlapping outside the buffer") = w := by
      by_cases he : c.esz = 0
      · simp [he]
      · have := hroom he; simp; omega
    rw [hw]
    have hd : (padTo (xs.length + ys.length) (xs.map some ++ rest)).drop (xs.length + ys.length) = rest.drop ys.length := by
      unfold padTo
      by_cases hle : ys.length ≤ rest.length
      · have : xs.length + ys.length - (xs.map some ++ rest).length = 0 := by simp; omega
        rw [this]
        simp only [List.replicate_zero, List.append_nil]
        have hx : xs.length = (xs.map some).length := by simp
        rw [hx, List.drop_length_add_append]
      · rw [List.drop_of_length_le (by simp; omega), List.drop_of_length_le (by omega)]
    have ht : (padTo (xs.length + ys.length) (xs.map some ++ rest)).take xs.length = xs.map some := by
      unfold padTo
      rw [List.append_assoc]
      have hx : xs.length = (xs.map some).length := by simp
      conv => lhs; arg 1; rw [hx]
      exact List.take_left
    rw [hd, ht]
    simp

/-- `with_capacity_in(n)` that returns: an empty vector with room for `n` -/
theorem withCapacity_some {c : Cfg} {n : Nat} {v : VS} (hc : CfgOK c) (hn : n < USIZE) (h : withCapacity c n = some v) :
    RepB c v [] ∧ n ≤ capOf c v ∧ v.len = 0 ∧ (c.esz ≠ 0 → v.slots = List.replicate n none) ∧ (c.esz = 0 → v.slots = []) := by
  unfold withCapacity checkedMul at h
  split at h
  · cases h
  · rename_i bytes hb
    split at hb
    · rename_i hlt
      cases hb
      split at h
      · rename_i hz
        cases h
        have hcase : n = 0 ∨ c.esz = 0 := by
          rcases Nat.eq_zero_or_pos n with h0 | h0
          · exact Or.inl h0
          · right; rcases Nat.eq_zero_or_pos c.esz with h1 | h1
            · exact h1
            · have := Nat.mul_pos h0 h1; omega
        refine ⟨⟨⟨⟨[], rfl⟩, rfl, ?_, by simp⟩, hn, ?_⟩, ?_, rfl, ?_, fun _ => rfl⟩
        · intro he; rcases hcase with h0 | h0
          · simp [h0]
          · exact absurd h0 he
        · intro he; rcases hcase with h0 | h0
          · simp [h0, USIZE]
          · exact absurd h0 he
        · rcases hcase with h0 | h0
          · simp [h0]
          · simp [capOf, h0, USIZE_MAX]; simp [USIZE] at hn; omega
        · intro he; rcases hcase with h0 | h0
          · simp [h0]
          · exact absurd h0 he
      · rename_i hnz
        split at h
        · cases h
        · split at h
          · cases h
          · rename_i hal
            cases h
            simp only [Bool.or_eq_true, Bool.not_eq_eq_eq_not, Bool.not_true, decide_eq_true_eq, not_or,
              Bool.not_eq_false, Nat.not_lt] at hal
            have he : c.esz ≠ 0 := by intro h0; simp [h0] at hnz
            have hn63 : n < 2 ^ 63 := by
              have : n * 1 ≤ n * c.esz := Nat.mul_le_mul_left _ (by omega)
              unfold CfgOK at hc; omega
            refine ⟨⟨⟨⟨List.replicate n none, rfl⟩, rfl, fun _ => by simp, by simp⟩, hn, fun _ => by simp [USIZE]; omega⟩,
              by simp [capOf, he], rfl, fun _ => rfl, fun h0 => absurd h0 he⟩
    · cases hb

theorem append_unfold (c : Cfg) (a b : VS) (w : W) :
    append c a b w =
      match rawReserve c a a.len b.len with
      | none => (a, b, w, none)
      | some a1 =>
        let p := a1.copyFrom c (b.slots.take b.len) a1.len w
        ({ p.1 with len := p.1.len + b.len }, { b with len := 0 }, p.2, some ()) := rfl

/-- `append`: all of `other`'s elements move to the end of `self`, `other` becomes empty; panics
(nothing changes) only when the growth is refused -/
theorem append_spec {c : Cfg} {a b : VS} {xs ys : List Elem} (hc : CfgOK c) (ha : RepB c a xs) (hb : RepB c b ys) (w : W) :
    (∃ a' b', append c a b w = (a', b', w, some ()) ∧ RepB c a' (xs ++ ys) ∧ RepB c b' []) ∨
    (append c a b w = (a, b, w, none) ∧ rawReserve c a a.len b.len = none) := by
  rw [append_unfold]
  cases hr : rawReserve c a a.len b.len with
  | none => right; exact ⟨rfl, rfl⟩
  | some a1 =>
    left
    obtain ⟨h1, hge, _⟩ := rawReserve_some hc ha hr
    rcases a1 with ⟨s1, l1, cp1⟩
    obtain ⟨rest1, rfl, rfl⟩ := h1.toRep.nf
    rcases b with ⟨sb, lb, cpb⟩
    obtain ⟨restb, rfl, rfl⟩ := hb.toRep.nf
    have htake : (ys.map some ++ restb).take ys.length = ys.map some := by
      have : ys.length = (ys.map some).length := by simp
      conv => lhs; arg 1; rw [this]
      exact List.take_left
    have hroom : c.esz ≠ 0 → ys.length ≤ rest1.length := by
      intro he
      have hbuf := h1.buf he
      have hlen := ha.len
      simp [capOf, he] at hge hbuf
      omega
    obtain ⟨hcp, hl⟩ := copyFrom_end c xs ys rest1 xs.length cp1 w hroom
    simp only [htake, hcp]
    refine ⟨_, _, rfl, ?_, ?_⟩
    · have hlen' : xs.length + ys.length = (xs ++ ys).length := by simp
      rw [hlen']
      apply RepB.of_nf _ h1.capLt h1.capHalf
      · intro he
        have := ha.len
        simp only [capOf, he, ↓reduceIte, List.length_append] at hge ⊢
        omega
      · intro he; rw [hl (hroom he)]; exact h1.buf he
    · have : ys.map some ++ restb = ([] : List Elem).map some ++ (ys.map some ++ restb) := by simp
      rw [this]
      exact hb.shrink (by simp) (by simp)

theorem splitOff_unfold (c : Cfg) (v : VS) (at_ : Nat) (w : W) :
    splitOff c v at_ w =
      if at_ > v.len then (v, none, w)
      else match withCapacity c (v.len - at_) with
        | none => (v, none, w)
        | some o =>
          let p := o.copyFrom c ((v.slots.drop at_).take (v.len - at_)) 0 w
          ({ v with len := at_ }, some { p.1 with len := v.len - at_ }, p.2) := rfl

/-- `split_off(at)`: panics iff `at > len` (or the new buffer is refused); else `self` keeps
`xs.take at` and the new vector gets `xs.drop at` -/
theorem splitOff_spec {c : Cfg} {v : VS} {xs : List Elem} (hc : CfgOK c) (h : RepB c v xs) (at_ : Nat) (w : W) :
    (at_ ≤ xs.length ∧ ∃ v' o, splitOff c v at_ w = (v', some o, w) ∧ RepB c v' (xs.take at_) ∧ RepB c o (xs.drop at_)) ∨
    (splitOff c v at_ w = (v, none, w) ∧ (xs.length < at_ ∨ withCapacity c (xs.length - at_) = none)) := by
  rcases v with ⟨sl, l, cp⟩
  obtain ⟨rest, rfl, rfl⟩ := h.toRep.nf
  rw [splitOff_unfold]
  by_cases hat : at_ > xs.length
  · right; exact ⟨by simp [hat], Or.inl hat⟩
  · simp only [hat, ↓reduceIte]
    cases hwc : withCapacity c (xs.length - at_) with
    | none => right; exact ⟨rfl, Or.inr rfl⟩
    | some o =>
      left
      have hlenU : xs.length < USIZE := by
        have := h.lenCap; have := capOf_lt c _ h.capLt; simp only at *; omega
      obtain ⟨ho, hge, hol, hos, hoz⟩ := withCapacity_some hc (by omega) hwc
      rcases o with ⟨so, lo, cpo⟩
      simp only at hol hos hoz
      subst hol
      have hsrc : ((xs.map some ++ rest).drop at_).take (xs.length - at_) = (xs.drop at_).map some := by
        rw [List.drop_append_of_le_length (by simp; omega), List.take_append_of_le_length (by simp)]
        rw [List.take_of_length_le (by simp), List.map_drop]
      have hroom : c.esz ≠ 0 → (xs.drop at_).length ≤ so.length := by
        intro he; rw [hos he]; simp
      have hcf := copyFrom_end c [] (xs.drop at_) so 0 cpo w hroom
      simp only [List.map_nil, List.nil_append, List.length_nil] at hcf
      obtain ⟨hcp, hl⟩ := hcf
      simp only [hsrc, hcp]
      refine ⟨by omega, _, _, rfl, ?_, ?_⟩
      · have hs : xs.map some ++ rest = (xs.take at_).map some ++ ((xs.drop at_).map some ++ rest) := by
          rw [← List.append_assoc, ← List.map_append, List.take_append_drop]
        have hl' : (xs.take at_).length = at_ := by simp; omega
        have := h.shrink (ys := xs.take at_) (rest' := (xs.drop at_).map some ++ rest) (by rw [← hs]) (by simp; omega)
        rw [hl', ← hs] at this
        exact this
      · have hl' : xs.length - at_ = (xs.drop at_).length := by simp
        rw [hl']
        apply RepB.of_nf _ ho.capLt ho.capHalf
        · intro he; simp [USIZE_MAX]; simp [USIZE] at hlenU; omega
        · intro he
          have := ho.buf he
          simp only at this
          rw [hl (hroom he)]; exact this

end Bump.V
